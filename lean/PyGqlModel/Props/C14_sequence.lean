/-
  C14 — PER-SCHEMA COMPOSITION over operation sequences: `untouched_preserved` for a whole run.

  `runAll` applies, one after the other, any number of clone-based transforms (each any list of visibility / camel-case /
  heal visitors; `[]` = `clone()`) to ONE source and keeps every result. `transform_sequence_untouched_preserved` (FULL, induction
  over the operation sequence): at the END of the run, in the final heap,
  * no object of the source was written and the source is still closed and well-formed (so the run can be continued);
  * EVERY result produced along the way — the first as well as the last — is still closed and well-formed, and every
    non-protected type it registers is `TRel` to the source's type of that name: same kind, name, description, default / type
    resolver, enum values; its fields (with description, deprecation, resolver, subscription resolver, python name, type by name)
    and their arguments / its input fields (python name, default, description, type by name) are, in order, copies of a
    sub-list of the source's, names converted by the renamings of ITS OWN transform only.
  The single-transform theorem (`transform_preserves_untouched_members`) speaks about the heap right after that transform; what is
  added here is that later operations on the same source do not disturb earlier results (they only write objects they created
  themselves: `clone_frames_source` applied to the heap that already contains the earlier results).
-/
import PyGqlModel.Props.C14_members

set_option linter.unusedSimpArgs false
set_option linter.unusedVariables false

namespace PyGql.Props.C14
open PyGql.Heap PyGql.Heap.Own

/-- the run: every transform of `ops` applied to the SAME source `s`; the final heap and all results, in order -/
def runAll (cfg : Cfg) (fuel : Nat) (s : Schema) : List (List Visitor) → Heap → Option (Heap × List (List Visitor × Schema))
  | [], h => some (h, [])
  | vs :: rest, h =>
    match transform cfg fuel vs s h with
    | none => none
    | some r =>
      match runAll cfg fuel s rest r.1 with
      | none => none
      | some rr => some (rr.1, (vs, r.2) :: rr.2)

/-- the heap of `runAll` is the heap of `applyAll` -/
theorem runAll_heap (cfg : Cfg) (fuel : Nat) (s : Schema) : ∀ (ops : List (List Visitor)) (h : Heap),
    (runAll cfg fuel s ops h).map (·.1) = applyAll cfg fuel s ops h := by
  intro ops
  induction ops with
  | nil => intro h; rfl
  | cons vs rest ih =>
    intro h
    simp only [runAll, applyAll]
    cases transform cfg fuel vs s h with
    | none => rfl
    | some r =>
      simp only
      rw [← ih r.1]
      cases runAll cfg fuel s rest r.1 <;> rfl

private theorem stepImp_of_frameS {h h' : Heap} (f : Frame h h') (chk : Ref → Bool) : StepImp chk h h' := by
  intro a o hr
  exact ⟨o, by rw [f.2 a (read_lt h a o hr)]; exact hr, Evolves.refl chk o⟩

/-- a well-formed schema stays well-formed whatever is allocated or written outside of its heap -/
theorem wfB_frame {h h' : Heap} (f : Frame h h') (s : Schema) (hw : wfB h s = true) : wfB h' s = true := by
  have w := wfs_of_wfB hw
  have st := stepImp_of_frameS f (fun _ => true)
  exact wfB_of_wfs (chk := fun _ => true)
    ⟨fun e he => typeShape_keep st e.2 (w.types e he), fun e he => dirShape_keep st e.2 (w.dirs e he),
     fun e he => nameOK_keep st e (w.names e he), fun e he => protLeaf_keep st e (w.prot e he), w.nodup⟩

/-- the relation "copy of the source's type" only reads objects of the result: it survives every later operation that frames them -/
theorem trel_frame {ρ : String → String} {h0 h h' : Heap} (f : Frame h h') {t0 : TypeO} {a' : Addr} (r : TRel ρ h0 h t0 a') :
    TRel ρ h0 h' t0 a' := r.keep (stepImp_of_frameS f chkT)

private theorem sub2_imp_mem {α β : Type} {R S : α → β → Prop} : ∀ {l1 : List α} {l2 : List β}, Sub2 R l1 l2 →
    (∀ a, a ∈ l1 → ∀ b, R a b → S a b) → Sub2 S l1 l2 := by
  intro l1 l2 hs
  induction hs with
  | nil => intro _; exact Sub2.nil
  | skip _ ih => intro hrs; exact Sub2.skip (ih fun a ha => hrs a (by simp [ha]))
  | cons hd _ ih => intro hrs; exact Sub2.cons (hrs _ (by simp) _ hd) (ih fun a ha => hrs a (by simp [ha]))

/-- every element of the image has a preimage in the source list -/
private theorem sub2_mem_right {α β : Type} {R : α → β → Prop} : ∀ {l1 : List α} {l2 : List β}, Sub2 R l1 l2 →
    ∀ b, b ∈ l2 → ∃ a, a ∈ l1 ∧ R a b := by
  intro l1 l2 hs
  induction hs with
  | nil => intro b hb; cases hb
  | skip _ ih => intro b hb; obtain ⟨a, ha, r⟩ := ih b hb; exact ⟨a, by simp [ha], r⟩
  | cons hd _ ih =>
    intro b hb
    simp only [List.mem_cons] at hb
    rcases hb with rfl | hb
    · exact ⟨_, by simp, hd⟩
    · obtain ⟨a, ha, r⟩ := ih b hb; exact ⟨a, by simp [ha], r⟩

private theorem readArg_frame_src {h0 h : Heap} (f : Frame h0 h) {a : Addr} {g : ArgO} (hg : h0.readArg a = some g) : h.readArg a = some g := by
  simp only [Heap.readArg, f.2 a (read_lt h0 a _ (readArg_read hg))]; exact hg

private theorem readField_frame_src {h0 h : Heap} (f : Frame h0 h) {a : Addr} {g : FieldO} (hg : h0.readField a = some g) : h.readField a = some g := by
  simp only [Heap.readField, f.2 a (read_lt h0 a _ (readField_read hg))]; exact hg

/-- the SOURCE side of the relation may be read in the heap the source was created in -/
private theorem arel_source_frame {ρ : String → String} {h0 h h1 : Heap} (f : Frame h0 h) {a c : Addr} (hr : ∃ g, h0.readArg a = some g)
    (r : ARel ρ h h1 a c) : ARel ρ h0 h1 a c := by
  obtain ⟨g0, hg0⟩ := hr
  obtain ⟨g, g', h1', h2', k⟩ := r
  rw [readArg_frame_src f hg0] at h1'
  cases h1'
  exact ⟨g0, g', hg0, h2', k⟩

private theorem frel_source_frame {ρ : String → String} {h0 h h1 : Heap} (f : Frame h0 h) {a c : Addr}
    (hr : ∃ f0, h0.readField a = some f0 ∧ ∀ x, x ∈ f0.args → ∃ g, h0.readArg x = some g) (r : FRel ρ h h1 a c) : FRel ρ h0 h1 a c := by
  obtain ⟨f0, hf0, hargs⟩ := hr
  obtain ⟨fs, f', h1', h2', k, hs⟩ := r
  rw [readField_frame_src f hf0] at h1'
  cases h1'
  exact ⟨f0, f', hf0, h2', k, sub2_imp_mem hs fun x hx c' rc => arel_source_frame f (hargs x hx) rc⟩

private theorem trel_source_frame {ρ : String → String} {h0 h h1 : Heap} (f : Frame h0 h) {t0 : TypeO} {a' : Addr} (hm : MembersReadable h0 t0)
    (r : TRel ρ h h1 t0 a') : TRel ρ h0 h1 t0 a' := by
  obtain ⟨t', ht', hat, hrel⟩ := r
  refine ⟨t', ht', hat, ?_⟩
  simp only [MRel, MembersReadable] at hm hrel ⊢
  cases hk : t0.kind <;> simp only [hk] at hm hrel ⊢
  · exact sub2_imp_mem hrel fun x hx c rc => frel_source_frame f (hm x hx) rc
  · exact sub2_imp_mem hrel fun x hx c rc => frel_source_frame f (hm x hx) rc
  · exact sub2_imp_mem hrel fun x hx c rc => arel_source_frame f (hm x hx) rc

/-- what `untouched_preserved` says about ONE result `(vs, s')` of a run from source `(h, s)`, read in heap `hN` -/
def ResultIntact (h : Heap) (s : Schema) (hN : Heap) (r : List Visitor × Schema) : Prop :=
  closedB hN r.2 = true ∧ wfB hN r.2 = true ∧
  ∀ e', e' ∈ r.2.types → isProtected e'.1 = true ∨
    ∃ e0, e0 ∈ s.types ∧ e0.1 = e'.1 ∧ ∀ t0, h.readType e0.2 = some t0 → TRel (renAll r.1 id) h hN t0 e'.2

theorem ResultIntact.frame {h : Heap} {s : Schema} {h1 h2 : Heap} (f : Frame h1 h2) {r : List Visitor × Schema}
    (i : ResultIntact h s h1 r) : ResultIntact h s h2 r := by
  obtain ⟨c, w, m⟩ := i
  refine ⟨closedB_frame f r.2 c, wfB_frame f r.2 w, ?_⟩
  intro e' he'
  rcases m e' he' with hp | ⟨e0, h1', h2', h3⟩
  · exact Or.inl hp
  · exact Or.inr ⟨e0, h1', h2', fun t0 ht0 => trel_frame f (h3 t0 ht0)⟩

/-- the source read in a later heap: the same type objects -/
private theorem readType_frame {h h' : Heap} (f : Frame h h') {a : Addr} {t : TypeO} (ht : h'.readType a = some t) (ha : a < h.size) :
    h.readType a = some t := by
  simp only [Heap.readType, f.2 a ha] at ht
  exact ht

/-- general form (the source lives in `h0`, the run starts in a later heap `h` that frames it) -/
theorem runAll_intact (cfg : Cfg) (hd : cfg.deepClone = true) (hk : cfg.keepAllTypes = true) (hacc : cfg.accumulateBusted = true)
    (fuel : Nat) (s : Schema) (h0 : Heap) (hc0 : closedB h0 s = true) (hw0 : wfB h0 s = true) :
    ∀ (ops : List (List Visitor)), (∀ vs, vs ∈ ops → ∀ v, v ∈ vs → NoWrap v) → ∀ (h hN : Heap) (rs : List (List Visitor × Schema)),
      Frame h0 h → runAll cfg (2 + fuel) s ops h = some (hN, rs) →
      Frame h hN ∧ rs.map (·.1) = ops ∧ ∀ r, r ∈ rs → ResultIntact h0 s hN r := by
  intro ops
  induction ops with
  | nil =>
    intro _ h hN rs _ e
    simp only [runAll, Option.some.injEq, Prod.mk.injEq] at e
    obtain ⟨rfl, rfl⟩ := e
    exact ⟨Frame.refl h, rfl, by simp⟩
  | cons vs rest ih =>
    intro hv h hN rs f0 e
    simp only [runAll] at e
    split at e
    · cases e
    · rename_i r hr
      obtain ⟨h1, s1⟩ := r
      split at e
      · cases e
      · rename_i rr hrr
        obtain ⟨hN', rs'⟩ := rr
        simp only [Option.some.injEq, Prod.mk.injEq] at e
        obtain ⟨rfl, rfl⟩ := e
        have hc : closedB h s = true := closedB_frame f0 s hc0
        have hw : wfB h s = true := wfB_frame f0 s hw0
        have f1 : Frame h h1 := clone_frames_source cfg hd (2 + fuel) vs s h h1 s1 hc hr
        obtain ⟨f2, e2, i2⟩ := ih (fun vs' hvs' => hv vs' (by simp [hvs'])) h1 hN' rs' (f0.trans f1) hrr
        refine ⟨f1.trans f2, by simp [e2], ?_⟩
        intro r hrm
        simp only [List.mem_cons] at hrm
        rcases hrm with rfl | hrm
        · -- the result of THIS transform, carried through the rest of the run
          obtain ⟨c1, w1⟩ := transform_closed cfg hd hk hacc fuel vs s h h1 s1 hc hw hr
          have m1 := transform_preserves_untouched_members cfg hd (2 + fuel) vs (hv vs (by simp)) s h h1 s1 hc hw hr
          have i1 : ResultIntact h0 s h1 (vs, s1) := by
            refine ⟨c1, w1, ?_⟩
            intro e' he'
            rcases m1 e' he' with hp | ⟨e0, g1, g2, g3⟩
            · exact Or.inl hp
            · refine Or.inr ⟨e0, g1, g2, fun t0 ht0 => ?_⟩
              have ha : e0.2 < h0.size := readType_lt' ht0
              have ht : h.readType e0.2 = some t0 := by simp only [Heap.readType, f0.2 e0.2 ha]; exact ht0
              exact trel_source_frame f0 (membersReadable_of_shape _ h0 e0.2 t0 ht0 ((wfs_of_wfB hw0).types e0 g1)) (g3 t0 ht)
          exact i1.frame f2
        · exact i2 r hrm

/-- FULL `untouched_preserved` composed over a whole run (see the header) -/
theorem transform_sequence_untouched_preserved (cfg : Cfg) (hd : cfg.deepClone = true) (hk : cfg.keepAllTypes = true)
    (hacc : cfg.accumulateBusted = true) (fuel : Nat) (s : Schema) (h : Heap) (hc : closedB h s = true) (hw : wfB h s = true)
    (ops : List (List Visitor)) (hv : ∀ vs, vs ∈ ops → ∀ v, v ∈ vs → NoWrap v) (hN : Heap) (rs : List (List Visitor × Schema))
    (e : runAll cfg (2 + fuel) s ops h = some (hN, rs)) :
    Frame h hN ∧ closedB hN s = true ∧ wfB hN s = true ∧ rs.map (·.1) = ops ∧ ∀ r, r ∈ rs → ResultIntact h s hN r := by
  obtain ⟨f, e1, i⟩ := runAll_intact cfg hd hk hacc fuel s h hc hw ops hv h hN rs (Frame.refl h) e
  exact ⟨f, closedB_frame f s hc, wfB_frame f s hw, e1, i⟩

/-- TOTALITY of a run: on a closed well-formed source every transform of every sequence succeeds (fuel for two heal rounds is
    always enough), so the theorem above is never vacuous -/
theorem runAll_total (cfg : Cfg) (hd : cfg.deepClone = true) (hk : cfg.keepAllTypes = true) (hacc : cfg.accumulateBusted = true)
    (fuel : Nat) (s : Schema) : ∀ (ops : List (List Visitor)) (h : Heap), closedB h s = true → wfB h s = true →
      (runAll cfg (2 + fuel) s ops h).isSome = true := by
  intro ops
  induction ops with
  | nil => intro h _ _; rfl
  | cons vs rest ih =>
    intro h hc hw
    obtain ⟨h1, s1, e1, _, _⟩ := transform_closed_total cfg hd hk hacc vs s h hc hw fuel
    have f1 := clone_frames_source cfg hd (2 + fuel) vs s h h1 s1 hc e1
    have := ih h1 (closedB_frame f1 s hc) (wfB_frame f1 s hw)
    obtain ⟨rr, hrr⟩ := Option.isSome_iff_exists.mp this
    simp [runAll, e1, hrr]

/-- reading `ResultIntact` at one field: for a field `c` of a type of ANY result of the run there is a field of the source's type
    of the same name with the same resolver, subscription resolver, python name, description and deprecation -/
theorem resultIntact_field {h : Heap} {s : Schema} {hN : Heap} {r : List Visitor × Schema} (i : ResultIntact h s hN r)
    (e' : String × Addr) (he' : e' ∈ r.2.types) (hp : isProtected e'.1 = false) (t' : TypeO) (ht' : hN.readType e'.2 = some t')
    (hk : t'.kind = Kind.object ∨ t'.kind = Kind.interface) (c : Addr) (hc : c ∈ t'.fields) :
    ∃ e0, e0 ∈ s.types ∧ e0.1 = e'.1 ∧ ∀ t0, h.readType e0.2 = some t0 → ∃ a f f', a ∈ t0.fields ∧ h.readField a = some f ∧
      hN.readField c = some f' ∧ f'.name = renAll r.1 id f.name ∧ f'.res = f.res ∧ f'.sub = f.sub ∧ f'.py = f.py ∧ f'.desc = f.desc ∧ f'.depr = f.depr := by
  rcases i.2.2 e' he' with hp' | ⟨e0, h1, h2, h3⟩
  · simp [hp] at hp'
  · refine ⟨e0, h1, h2, fun t0 ht0 => ?_⟩
    obtain ⟨t'', ht'', hat, hm⟩ := h3 t0 ht0
    rw [ht'] at ht''; cases ht''
    have hk0 : t0.kind = Kind.object ∨ t0.kind = Kind.interface := by
      have : t'.kind = t0.kind := hat.1
      rw [← this]; exact hk
    have hs : Sub2 (FRel (renAll r.1 id) h hN) t0.fields t'.fields := by
      rcases hk0 with hk0 | hk0 <;> simpa [MRel, hk0] using hm
    obtain ⟨a, ha, f, f', hf, hf', k, _⟩ := sub2_mem_right hs c hc
    exact ⟨a, f, f', ha, hf, hf', k.1, k.2.2.2.1, k.2.2.2.2.1, k.2.2.2.2.2.1, k.2.1, k.2.2.1⟩

/-- non-vacuity on the witness: three successive operations on the SAME source — hide `Dog`; camel-case; plain `clone()` -/
example : closedB h0 s0 = true ∧ wfB h0 s0 = true ∧
    ((runAll Cfg.fixed (2 + 6) s0 [[.vis hideDog], [.camel id], []] h0).map fun r => r.2.map fun x => names x.2)
      = some [["String", "Query", "Pet"], ["String", "Query", "Pet", "Dog"], ["String", "Query", "Pet", "Dog"]] := by decide

/-- the variant in the working tree -/
theorem current_transform_sequence_untouched_preserved
    (fuel : Nat) (s : Schema) (h : Heap) (hc : closedB h s = true) (hw : wfB h s = true)
    (ops : List (List Visitor)) (hv : ∀ vs, vs ∈ ops → ∀ v, v ∈ vs → NoWrap v) :
    ∃ hN rs, runAll PyGql.Generated.HeapCfg.currentCfg (2 + fuel) s ops h = some (hN, rs) ∧
      Frame h hN ∧ closedB hN s = true ∧ wfB hN s = true ∧ rs.map (·.1) = ops ∧ ∀ r, r ∈ rs → ResultIntact h s hN r := by
  obtain ⟨⟨hN, rs⟩, e⟩ := Option.isSome_iff_exists.mp (runAll_total _ cur_deepClone cur_keepAllTypes cur_accumulateBusted fuel s ops h hc hw)
  exact ⟨hN, rs, e, transform_sequence_untouched_preserved _ cur_deepClone cur_keepAllTypes cur_accumulateBusted fuel s h hc hw ops hv hN rs e⟩

end PyGql.Props.C14

/-
  C06 - property theorems, part 29: **perm_selections / perm_arguments / alpha_fragments for OverlappingFieldsCanBeMerged
  as /repo runs it** (memoised search) - the rule that `tr_invariance_25_partial` leaves out - and therefore for ALL 26
  RULES (`tr_invariance_all26`, `perm_selections_all26`, `perm_arguments_all26`, `alpha_fragments_all26`) and for the
  verdict of the whole chain (`tr_verdict_invariance_memo`).

  Route (as `perm_definitions_overlap_memo`): `rule_overlapping_fields_memo_iff` + invariance of the clause of 5.3.2.
  `Tr` changes the selection lists themselves, so `SameDoc` does not apply; `Lemmas/ValidateOverlapSim.lean` transports
  the clause along a SIMULATION of documents (`OvSim`: maps on selection lists, fragment names, response names and
  collected fields; same node identities, same type conditions, same parent types shown by TypeInfoVisitor), and
  `Lemmas/ValidateOverlapSimTr.lean` shows that `T.doc d` simulates `d`.

  Hypotheses of the rule-level statement, each needed:
    * `Spec.uniqueArgumentNames d` - `_same_arguments` sorts the two argument lists by name with a STABLE sort; with a
      repeated name the outcome depends on the order (`perm_arguments_overlap_needs_unique_argument_names`). In the
      verdict-level statement it is not a hypothesis: it is the clause of another rule of the same chain;
    * the renaming is injective and produces no fragment named "" (the code never compares a fragment named "");
    * `ParentsAgree`, `WfIds`, non-empty names: the side conditions of `rule_overlapping_fields_memo_iff`.
-/
import PyGqlModel.Props.C06_inv10
import PyGqlModel.Props.C06_overlap_perm
import PyGqlModel.Props.C06_head_memo
import PyGqlModel.Lemmas.ValidateOverlapSimTr
namespace PyGql.Props.C06
open PyGql PyGql.Validate PyGql.Validate.Spec

/-- **the clause of 5.3.2 under `Tr`** (selection order, argument order, injective renaming of fragments) -/
theorem overlap_clause_tr (T : Tr) (hinj : ∀ a b, T.frag a = T.frag b → a = b) (s : SchemaD) (d : Doc)
    (hu : Spec.uniqueArgumentNames d) :
    Spec.overlappingFieldsCanBeMerged s (T.doc d) ↔ Spec.overlappingFieldsCanBeMerged s d :=
  (T.ovSim hinj s d hu).clause_iff.symm

theorem namesNonEmpty_tr (T : Tr) (d : Doc) (h : ∀ f ∈ Spec.fragNames d, T.frag f ≠ "") : NamesNonEmpty (T.doc d) := by
  intro f hf
  rw [T.fragNames_doc] at hf
  obtain ⟨g, hg, rfl⟩ := List.mem_map.mp hf
  exact h g hg

/-- **perm_selections / perm_arguments / alpha_fragments for `OverlappingFieldsCanBeMergedChecker` as /repo runs it** -/
theorem tr_invariance_overlap_memo (T : Tr) (hinj : ∀ a b, T.frag a = T.frag b → a = b) (s : SchemaD) (fx : Fixes)
    (h7 : fx.v7 = true) (d : Doc) (hu : Spec.uniqueArgumentNames d) (hpa : Spec.ParentsAgree s d)
    (hne : NamesNonEmpty d) (hne' : NamesNonEmpty (T.doc d)) (hw : WfIds d) :
    (overlapMemoRun s fx (T.doc d)).1 = 0 ↔ (overlapMemoRun s fx d).1 = 0 := by
  have S := T.ovSim hinj s d hu
  rw [rule_overlapping_fields_memo_iff s fx h7 d hpa (noEmptyName_of hne) hw,
    rule_overlapping_fields_memo_iff s fx h7 (T.doc d) (S.parentsAgree hpa) (noEmptyName_of hne') ((T.wfIds d).mpr hw)]
  exact overlap_clause_tr T hinj s d hu

/-- the statement for the whole chain as /repo runs it, rule by rule -/
def FullStatement_tr_invariance_all26 (T : Tr) (s : SchemaD) (fx : Fixes) (d : Doc) : Prop :=
  ∀ r ∈ Rule.all, (SilentM s fx r (T.doc d) ↔ SilentM s fx r d)

/-- **perm_selections / perm_arguments / alpha_fragments for ALL 26 RULES**, each rule alone, the overlap rule being the
    memoised one /repo runs. The hypotheses of `tr_invariance_25_partial` (unique fragment names, non-empty before and
    after the renaming) plus those of the overlap rule (see the header). [ALONE-RUN statement, rule by rule: each rule visitor in a chain of its own; for the verdict of the chain `validate_ast` runs see `Props/C06_chain.lean: chainM_six_transformations`.] -/
theorem tr_invariance_all26 (T : Tr) (hinj : ∀ a b, T.frag a = T.frag b → a = b) (s : SchemaD) (fx : Fixes)
    (hfx : HeadVars fx) (d : Doc) (hnd : Spec.uniqueFragmentNames d) (hne : NamesNonEmpty d)
    (hne' : NamesNonEmpty (T.doc d)) (hu : Spec.uniqueArgumentNames d) (hpa : Spec.ParentsAgree s d) (hw : WfIds d) :
    FullStatement_tr_invariance_all26 T s fx d := by
  intro r _
  by_cases ho : r = .overlappingFieldsCanBeMerged
  · subst ho
    rw [silentM_overlap, silentM_overlap]
    exact tr_invariance_overlap_memo T hinj s fx hfx.2.2.2 d hu hpa hne hne' hw
  · rw [silentM_of_ne ho, silentM_of_ne ho]
    exact tr_invariance_25_partial T hinj s fx hfx d hnd hne hne' r ho

/-- **perm_selections, all 26 rules** -/
theorem perm_selections_all26 (π : List Sel → List Sel) (hπ : ∀ l, (π l).Perm l) (s : SchemaD) (fx : Fixes)
    (hfx : HeadVars fx) (d : Doc) (hnd : Spec.uniqueFragmentNames d) (hne : NamesNonEmpty d)
    (hu : Spec.uniqueArgumentNames d) (hpa : Spec.ParentsAgree s d) (hw : WfIds d) :
    FullStatement_tr_invariance_all26 (Tr.mk π id id hπ (fun _ => List.Perm.refl _)) s fx d :=
  tr_invariance_all26 _ (fun _ _ e => e) s fx hfx d hnd hne (namesNonEmpty_tr _ d hne) hu hpa hw

/-- **perm_arguments, all 26 rules** (argument names pairwise different: necessary, see the header) -/
theorem perm_arguments_all26 (π : List Arg → List Arg) (hπ : ∀ l, (π l).Perm l) (s : SchemaD) (fx : Fixes)
    (hfx : HeadVars fx) (d : Doc) (hnd : Spec.uniqueFragmentNames d) (hne : NamesNonEmpty d)
    (hu : Spec.uniqueArgumentNames d) (hpa : Spec.ParentsAgree s d) (hw : WfIds d) :
    FullStatement_tr_invariance_all26 (Tr.mk id π id (fun _ => List.Perm.refl _) hπ) s fx d :=
  tr_invariance_all26 _ (fun _ _ e => e) s fx hfx d hnd hne (namesNonEmpty_tr _ d hne) hu hpa hw

/-- **alpha_fragments, all 26 rules** (injective renaming that produces no empty name) -/
theorem alpha_fragments_all26 (ρ : String → String) (hρ : ∀ a b, ρ a = ρ b → a = b) (s : SchemaD) (fx : Fixes)
    (hfx : HeadVars fx) (d : Doc) (hnd : Spec.uniqueFragmentNames d) (hne : NamesNonEmpty d)
    (hne' : ∀ f ∈ Spec.fragNames d, ρ f ≠ "")
    (hu : Spec.uniqueArgumentNames d) (hpa : Spec.ParentsAgree s d) (hw : WfIds d) :
    FullStatement_tr_invariance_all26 (Tr.mk id id ρ (fun _ => List.Perm.refl _) (fun _ => List.Perm.refl _)) s fx d :=
  tr_invariance_all26 _ hρ s fx hfx d hnd hne (namesNonEmpty_tr _ d hne') hu hpa hw

/-- **the VERDICT of the chain /repo runs is invariant under `Tr`** - "every one of the 26 rule visitors is silent" holds
    for `T.doc d` iff it holds for `d`. No hypothesis about argument names, fragment names being unique or parent types:
    they are clauses of other rules of the same chain, available on whichever side accepts. What remains is what the
    headline theorems assume (`DocOkM`: `wfIdsB`, `noMetaSubsB`, non-empty names; `SchemaOutputs`) and that the
    renaming is injective and produces no empty name. [About the CONJUNCTION OF THE 26 ALONE RUNS (`SilentM`); the same for the chain itself, `SkipNode` handling included: `Props/C06_chain.lean: chainM_six_transformations`, through `chainM_silent_iff_alone`.] -/
theorem tr_verdict_invariance_memo (T : Tr) (hinj : ∀ a b, T.frag a = T.frag b → a = b) (s : SchemaD) (fx : Fixes)
    (hfx : HeadVars fx) (hs : SchemaOutputs s) (d : Doc) (hd : DocOkM s d) (hne' : NamesNonEmpty (T.doc d)) :
    (∀ r ∈ Rule.all, SilentM s fx r (T.doc d)) ↔ (∀ r ∈ Rule.all, SilentM s fx r d) := by
  have hw : WfIds d := (wfIdsB_iff d).mp hd.checks.ids
  have key : (Spec.fragNames d).Nodup → (∀ r ∈ Rule.all, r ≠ .overlappingFieldsCanBeMerged → Silent s fx r d) →
      ((overlapMemoRun s fx (T.doc d)).1 = 0 ↔ (overlapMemoRun s fx d).1 = 0) := by
    intro hnd hsil
    have h25 : ∀ r ∈ Rule.all, r ≠ .overlappingFieldsCanBeMerged → SpecAll r s fx d := fun r hr ho =>
      (rule_iff_nonoverlap s fx hfx d hd.names hnd r (provedAll_complete r hr) ho).mp (hsil r hr ho)
    have hu : Spec.uniqueArgumentNames d :=
      (rule_unique_argument_names_iff s fx d).mp (hsil .uniqueArgumentNames (by decide) (by decide))
    have hpa : Spec.ParentsAgree s d :=
      parentsAgree_of_rules s d hs (h25 .scalarLeafs (by decide) (by decide))
        (h25 .fragmentsOnCompositeTypes (by decide) (by decide)) ((noMetaSubsB_iff d).mp hd.checks.noMeta) hw
    exact tr_invariance_overlap_memo T hinj s fx hfx.2.2.2 d hu hpa hd.names hne' hw
  have hufn : Silent s fx .uniqueFragmentNames (T.doc d) ↔ Silent s fx .uniqueFragmentNames d :=
    tr_invariance_all_partial T hinj s fx d _ (by decide) (by decide)
  constructor
  · intro h
    have hnd : (Spec.fragNames d).Nodup := (rule_unique_fragment_names_iff s fx d).mp
      (hufn.mp ((silentM_of_ne (by decide)).mp (h .uniqueFragmentNames (by decide))))
    have hsil : ∀ r ∈ Rule.all, r ≠ .overlappingFieldsCanBeMerged → Silent s fx r d := fun r hr ho =>
      (tr_invariance_25_partial T hinj s fx hfx d hnd hd.names hne' r ho).mp ((silentM_of_ne ho).mp (h r hr))
    intro r hr
    by_cases ho : r = .overlappingFieldsCanBeMerged
    · subst ho; exact silentM_overlap.mpr ((key hnd hsil).mp (silentM_overlap.mp (h _ hr)))
    · exact (silentM_of_ne ho).mpr (hsil r hr ho)
  · intro h
    have hsil : ∀ r ∈ Rule.all, r ≠ .overlappingFieldsCanBeMerged → Silent s fx r d := fun r hr ho =>
      (silentM_of_ne ho).mp (h r hr)
    have hnd : (Spec.fragNames d).Nodup :=
      (rule_unique_fragment_names_iff s fx d).mp (hsil .uniqueFragmentNames (by decide) (by decide))
    intro r hr
    by_cases ho : r = .overlappingFieldsCanBeMerged
    · subst ho; exact silentM_overlap.mpr ((key hnd hsil).mpr (silentM_overlap.mp (h _ hr)))
    · exact (silentM_of_ne ho).mpr
        ((tr_invariance_25_partial T hinj s fx hfx d hnd hd.names hne' r ho).mpr (hsil r hr ho))

/-! non-vacuity: `{ ...A ...B } fragment A on Query { x: a } fragment B on Query { x: a }` with every selection list
    reversed and the fragments renamed `A ↦ A_`, `B ↦ B_` -/
def revRenameTr : Tr := Tr.mk List.reverse List.reverse (· ++ "_") (fun l => l.reverse_perm) (fun l => l.reverse_perm)

theorem revRenameTr_inj : ∀ a b : String, revRenameTr.frag a = revRenameTr.frag b → a = b := suffix_inj

example : (overlapMemoRun oSchema Fixes.all (revRenameTr.doc (oDocFrag "a"))).1 = 0 ↔
    (overlapMemoRun oSchema Fixes.all (oDocFrag "a")).1 = 0 :=
  tr_invariance_overlap_memo revRenameTr revRenameTr_inj oSchema Fixes.all rfl (oDocFrag "a")
    ((rule_unique_argument_names_iff oSchema Fixes.all _).mp (by unfold Silent; decide +kernel))
    (parentsAgree_frag "a") (by unfold NamesNonEmpty; decide) (by unfold NamesNonEmpty; decide)
    (by rw [← wfIdsB_iff]; decide)

/-- all 26 rules at once on the same instance (unique fragment names, non-empty before and after the renaming) -/
example : FullStatement_tr_invariance_all26 revRenameTr oSchema Fixes.all (oDocFrag "a") :=
  tr_invariance_all26 revRenameTr revRenameTr_inj oSchema Fixes.all headVars_all (oDocFrag "a")
    (by unfold Spec.uniqueFragmentNames; decide) (by unfold NamesNonEmpty; decide) (by unfold NamesNonEmpty; decide)
    ((rule_unique_argument_names_iff oSchema Fixes.all _).mp (by unfold Silent; decide +kernel))
    (parentsAgree_frag "a") (by rw [← wfIdsB_iff]; decide)

/-- the transformed document really is another one (the spreads are swapped and renamed) -/
example : (revRenameTr.doc (oDocFrag "a")).defs.head? = some (opV [] 1 [sp "B_", sp "A_"]) := by
  simp [revRenameTr, Tr.doc, oDocFrag, Tr.defn, Tr.selList, Tr.sel, opV, sp, fragQ]

/-! ### reordering of definitions, all 26 rules -/

/-- the statement for the whole chain as /repo runs it, rule by rule -/
def FullStatement_perm_definitions_all26 (s : SchemaD) (fx : Fixes) (d d' : Doc) : Prop :=
  ∀ r ∈ Rule.all, (SilentM s fx r d ↔ SilentM s fx r d')

/-- **perm_definitions for ALL 26 RULES** (`perm_definitions_all25_partial` + `perm_definitions_overlap_memo`): the
    hypotheses of the former (each needed: "the last definition wins") and the side conditions of the overlap theorem [ALONE-RUN statement, rule by rule: each rule visitor in a chain of its own; for the verdict of the chain `validate_ast` runs see `Props/C06_chain.lean: chainM_six_transformations`.] -/
theorem perm_definitions_all26 (s : SchemaD) (fx : Fixes) (hfx : HeadVars fx) {d d' : Doc}
    (h : d.defs.Perm d'.defs) (hnd : Spec.uniqueFragmentNames d) (hne : NamesNonEmpty d) (hk : Spec.uniqueOpKeys d)
    (hv : Spec.uniqueVariableNames d) (hpa : Spec.ParentsAgree s d) (hw : WfIds d) :
    FullStatement_perm_definitions_all26 s fx d d' := by
  intro r _
  by_cases ho : r = .overlappingFieldsCanBeMerged
  · subst ho
    rw [silentM_overlap, silentM_overlap]
    exact perm_definitions_overlap_memo s fx hfx.2.2.2 h hnd hpa (noEmptyName_of hne) hw
  · rw [silentM_of_ne ho, silentM_of_ne ho]
    exact perm_definitions_all25_partial s fx hfx h hnd hne hk hv r ho

example : FullStatement_perm_definitions_all26 oSchema Fixes.all (oDocFrag "a") ⟨(oDocFrag "a").defs.reverse⟩ :=
  perm_definitions_all26 oSchema Fixes.all headVars_all (List.reverse_perm _).symm
    (by unfold Spec.uniqueFragmentNames; decide) (by unfold NamesNonEmpty; decide) (by unfold Spec.uniqueOpKeys; decide)
    (by
      intro x hx k n vs ds i ss e
      simp only [oDocFrag, opV, fragQ, List.mem_cons, List.not_mem_nil, or_false] at hx
      rcases hx with rfl | rfl | rfl
      · simp only [Def.op.injEq] at e; obtain ⟨_, _, rfl, _⟩ := e; decide
      · cases e
      · cases e)
    (parentsAgree_frag "a") (by rw [← wfIdsB_iff]; decide)

end PyGql.Props.C06

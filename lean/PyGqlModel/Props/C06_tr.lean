/-
  C06 (OverlappingFieldsCanBeMerged): the hand-written `typesConflict` (`PyGqlModel/Validate/Overlap.lean`) satisfies the
  recursion equation the translator derives on every run from `_types_conflict`
  (`Generated/TrOverlap.lean`: a step functional with the recursive call as a parameter), and is the ONLY function doing so:
  it is the translated source with the knot closed. An edit of `_types_conflict` changes the step functional and re-opens both proofs.
-/
import PyGqlModel.Validate.Overlap
import PyGqlModel.Generated.TrOverlap

namespace PyGql.Props.C06
open PyGql PyGql.Validate PyGql.Generated

/-- `isinstance(t, GraphQLLeafType)` in the by-name model: a named scalar or enum -/
def isLeafType (s : SchemaD) : Ty → Bool
  | .named n => isLeaf s n
  | _ => false

private theorem named_bne (a b : String) : (Ty.named a != Ty.named b) = (a != b) := by
  by_cases h : a = b
  · subst h; simp
  · have h1 : (Ty.named a == Ty.named b) = false := by
      apply beq_eq_false_iff_ne.mpr; intro hh; exact h (Ty.named.inj hh)
    have h2 : (a == b) = false := beq_eq_false_iff_ne.mpr h
    simp [bne, h1, h2]

/-- **`_types_conflict`: model = source** (the model is a fixed point of the translated step) -/
theorem types_conflict_model_eq_source (s : SchemaD) (a b : Ty) :
    typesConflict s a b = Tr._types_conflict_step (isLeafType s) (typesConflict s) a b := by
  cases a <;> cases b <;>
    simp [typesConflict, Tr._types_conflict_step, isLeafType, Ty.isWrapping, Ty.isList, Ty.isNonNull, Ty.sameCtor, Ty.inner,
      named_bne]

/-- … and the fixed point is unique: any function satisfying the source's recursion equation is the model -/
theorem types_conflict_source_unique (s : SchemaD) (f : Ty → Ty → Bool)
    (hf : ∀ a b, f a b = Tr._types_conflict_step (isLeafType s) f a b) : ∀ a b, f a b = typesConflict s a b
  | .named a, .named b => by
    rw [hf]; simp [typesConflict, Tr._types_conflict_step, isLeafType, Ty.isWrapping, Ty.isList, Ty.isNonNull, named_bne]
  | .list a, .list b => by
    rw [hf]; simp [typesConflict, Tr._types_conflict_step, Ty.isWrapping, Ty.isList, Ty.sameCtor, Ty.inner,
      types_conflict_source_unique s f hf a b]
  | .nonNull a, .nonNull b => by
    rw [hf]; simp [typesConflict, Tr._types_conflict_step, Ty.isWrapping, Ty.isList, Ty.isNonNull, Ty.sameCtor, Ty.inner,
      types_conflict_source_unique s f hf a b]
  | .named a, .list b => by rw [hf]; simp [typesConflict, Tr._types_conflict_step, Ty.isWrapping, Ty.isList, Ty.sameCtor]
  | .named a, .nonNull b => by rw [hf]; simp [typesConflict, Tr._types_conflict_step, Ty.isWrapping, Ty.isList, Ty.isNonNull, Ty.sameCtor]
  | .list a, .named b => by rw [hf]; simp [typesConflict, Tr._types_conflict_step, Ty.isWrapping, Ty.isList, Ty.sameCtor]
  | .list a, .nonNull b => by rw [hf]; simp [typesConflict, Tr._types_conflict_step, Ty.isWrapping, Ty.isList, Ty.sameCtor]
  | .nonNull a, .named b => by rw [hf]; simp [typesConflict, Tr._types_conflict_step, Ty.isWrapping, Ty.isList, Ty.isNonNull, Ty.sameCtor]
  | .nonNull a, .list b => by rw [hf]; simp [typesConflict, Tr._types_conflict_step, Ty.isWrapping, Ty.isList, Ty.isNonNull, Ty.sameCtor]

end PyGql.Props.C06

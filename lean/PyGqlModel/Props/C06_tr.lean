/-
  C06 (OverlappingFieldsCanBeMerged): the hand-written `typesConflict` (`PyGqlModel/Validate/Overlap.lean`) satisfies the
  recursion equation the translator derives on every run from `_types_conflict`
  (`Generated/TrOverlap.lean`: a step functional with the recursive call as a parameter), and is the ONLY function doing so:
  it is the translated source with the knot closed. An edit of `_types_conflict` changes the step functional and re-opens both proofs.
-/
import PyGqlModel.Validate.Overlap
import PyGqlModel.Generated.TrOverlap

namespace PyGql.Props.C06
open PyGql PyGql.Validate PyGql.Generated

/-- `isinstance(t, GraphQLLeafType)` in the by-name model: a named scalar or enum -/
def isLeafType (s : SchemaD) : Ty → Bool
  | .named n => isLeaf s n
  | _ => false

private theorem named_bne (a b : String) : (Ty.named a != Ty.named b) = (a != b) := by
  by_cases h : a = b
  · subst h; simp
  · have h1 : (Ty.named a == Ty.named b) = false := by
      apply beq_eq_false_iff_ne.mpr; intro hh; exact h (Ty.named.inj hh)
    have h2 : (a == b) = false := beq_eq_false_iff_ne.mpr h
    simp [bne, h1, h2]

/-- **`_types_conflict`: model = source** (the model is a fixed point of the translated step) -/
theorem types_conflict_model_eq_source (s : SchemaD) (a b : Ty) :
    typesConflict s a b = Tr._types_conflict_step (isLeafType s) (typesConflict s) a b := by
  cases a <;> cases b <;>
    simp [typesConflict, Tr._types_conflict_step, isLeafType, Ty.isWrapping, Ty.isList, Ty.isNonNull, Ty.sameCtor, Ty.inner,
      named_bne]

/-- … and the fixed point is unique: any function satisfying the source's recursion equation is the model -/
theorem types_conflict_source_unique (s : SchemaD) (f : Ty → Ty → Bool)
    (hf : ∀ a b, f a b = Tr._types_conflict_step (isLeafType s) f a b) : ∀ a b, f a b = typesConflict s a b
  | .named a, .named b => by
    rw [hf]; simp [typesConflict, Tr._types_conflict_step, isLeafType, Ty.isWrapping, Ty.isList, Ty.isNonNull, named_bne]
  | .list a, .list b => by
    rw [hf]; simp [typesConflict, Tr._types_conflict_step, Ty.isWrapping, Ty.isList, Ty.sameCtor, Ty.inner,
      types_conflict_source_unique s f hf a b]
  | .nonNull a, .nonNull b => by
    rw [hf]; simp [typesConflict, Tr._types_conflict_step, Ty.isWrapping, Ty.isList, Ty.isNonNull, Ty.sameCtor, Ty.inner,
      types_conflict_source_unique s f hf a b]
  | .named a, .list b => by rw [hf]; simp [typesConflict, Tr._types_conflict_step, Ty.isWrapping, Ty.isList, Ty.sameCtor]
  | .named a, .nonNull b => by rw [hf]; simp [typesConflict, Tr._types_conflict_step, Ty.isWrapping, Ty.isList, Ty.isNonNull, Ty.sameCtor]
  | .list a, .named b => by rw [hf]; simp [typesConflict, Tr._types_conflict_step, Ty.isWrapping, Ty.isList, Ty.sameCtor]
  | .list a, .nonNull b => by rw [hf]; simp [typesConflict, Tr._types_conflict_step, Ty.isWrapping, Ty.isList, Ty.sameCtor]
  | .nonNull a, .named b => by rw [hf]; simp [typesConflict, Tr._types_conflict_step, Ty.isWrapping, Ty.isList, Ty.isNonNull, Ty.sameCtor]
  | .nonNull a, .list b => by rw [hf]; simp [typesConflict, Tr._types_conflict_step, Ty.isWrapping, Ty.isList, Ty.isNonNull, Ty.sameCtor]

/-! ### `_same_arguments` -/

private theorem insertBy_eq (a : Arg) : ∀ l : List Arg,
    Py.insertBy (fun x y : String => decide (x < y)) Arg.name a l = insertArg a l
  | [] => rfl
  | b :: bs => by simp only [Py.insertBy, insertArg, insertBy_eq a bs, decide_eq_true_eq]

private theorem sortedBy_eq (l : List Arg) :
    Py.sortedBy (fun x y : String => decide (x < y)) (fun a => Arg.name a) l = sortArgs l := by
  unfold Py.sortedBy sortArgs
  congr 1
  funext acc a
  exact insertBy_eq a acc

private theorem sameArgsZip_eq : ∀ xs ys : List Arg,
    sameArgsZip xs ys = some ((List.zip xs ys).all (fun (a1, a2) => a1.name == a2.name && sameValue a1.value a2.value))
  | [], _ => by simp [sameArgsZip]
  | _ :: _, [] => by simp [sameArgsZip]
  | x :: xs, y :: ys => by
    rw [sameArgsZip, sameArgsZip_eq xs ys]
    by_cases hn : x.name = y.name <;> cases hv : sameValue x.value y.value <;> simp [hn, hv]

/-- **`_same_arguments`: model = source** (`a.name.value` / `a.value` read as the model's fields, `_same_value` as `sameValue`,
    `<` on names as Lean's `String` order — both compare code point by code point). The source never raises. -/
theorem same_arguments_model_eq_source (a b : List Arg) :
    Tr._same_arguments (fun x y : String => decide (x < y)) Arg.name Arg.value sameValue a b
      = .ok ((sameArguments a b).getD false)
    ∧ (sameArguments a b).isSome = true := by
  unfold Tr._same_arguments sameArguments
  by_cases hl : a.length = b.length
  · simp [Py.len, hl, sortedBy_eq, sameArgsZip_eq]
  · have h1 : (Py.len a != Py.len b) = true := by
      rw [bne_iff_ne]; unfold Py.len; intro h; exact hl (Int.ofNat.inj h)
    have h2 : (a.length != b.length) = true := by simp [hl]
    simp [h1, h2]

/-! ### `_same_value` -/

/-- `type(v)` of a literal in the model: the constructor -/
def classOf : Value → Nat
  | .var _ => 0 | .int _ => 1 | .float _ => 2 | .str _ => 3 | .bool _ => 4 | .null => 5 | .enum _ => 6 | .list _ => 7 | .obj _ => 8

/-- `v.value` of the literals that have one (what `==` compares: the lexeme / text / boolean) -/
def valueOf : Value → String
  | .int a => a | .float a => a | .str a => a | .enum a => a | .bool b => if b then "True" else "False"
  | _ => ""

/-- **`_same_value`: model = source.** `print_ast(a) == print_ast(b)` on lists, objects, null and variables is read as the
    model's own structural comparison (the printed form of a literal determines it and is determined by it: C03). -/
theorem same_value_model_eq_source (a b : Value) :
    @Tr._same_value Value Nat Value String _ ⟨sameValue⟩ _ classOf
        (fun v => match v with | .list _ => true | _ => false) (fun v => match v with | .obj _ => true | _ => false)
        (fun v => match v with | .null => true | _ => false) (fun v => match v with | .var _ => true | _ => false)
        id valueOf a b
      = .ok (sameValue a b) := by
  cases a <;> cases b <;> simp [Tr._same_value, classOf, valueOf, sameValue]
  rename_i x y; cases x <;> cases y <;> decide

/-! ### `_permutations` (a generator with nested loops) -/

private theorem perm_inner {T} (lst : List T) (i : Int) (x : T) : ∀ (ys : List T) (acc : List (T × T)),
    Tr._permutations.loop2 lst i x ys acc = .fall (acc ++ ys.map (fun y => (x, y)))
  | [], acc => by simp [Tr._permutations.loop2]
  | y :: ys, acc => by
    rw [Tr._permutations.loop2]
    show Tr._permutations.loop2 lst i x ys (acc ++ [(x, y)]) = _
    rw [perm_inner lst i x ys]; simp

private theorem sliceFrom_suffix {α} (pre : List α) (x : α) (rest : List α) :
    Py.sliceFrom (pre ++ x :: rest) ((pre.length : Int) + 1) = rest := by
  have h : ¬ ((pre.length : Int) + 1 < 0) := by omega
  have e : ((pre.length : Int) + 1).toNat = pre.length + 1 := by omega
  simp only [Py.sliceFrom, Py.normIdx, h, if_false, e, List.length_append, List.length_cons]
  rw [Nat.min_eq_left (by omega)]
  rw [show pre ++ x :: rest = (pre ++ [x]) ++ rest by simp]
  exact List.drop_left' (by simp)

private theorem perm_outer {T} : ∀ (rest pre : List T) (acc : List (T × T)),
    Tr._permutations.loop1 (pre ++ rest) (Py.enumerateFrom (pre.length : Int) rest) acc = .fall (acc ++ pairsOf rest)
  | [], pre, acc => by simp [Py.enumerateFrom, Tr._permutations.loop1, pairsOf]
  | x :: rest, pre, acc => by
    rw [Py.enumerateFrom, Tr._permutations.loop1, sliceFrom_suffix, perm_inner]
    simp only []
    have ih := perm_outer rest (pre ++ [x]) (acc ++ rest.map (fun y => (x, y)))
    have e1 : pre ++ [x] ++ rest = pre ++ x :: rest := by simp
    have e2 : (((pre ++ [x]).length : Nat) : Int) = (pre.length : Int) + 1 := by simp
    rw [e1, e2] at ih
    rw [ih, pairsOf]; simp

/-- **`_permutations`: model = source** (the generator run to its end yields exactly `pairsOf`, in that order) -/
theorem permutations_model_eq_source {T} (lst : List T) : Tr._permutations lst = .ok (pairsOf lst) := by
  unfold Tr._permutations
  have := perm_outer lst [] []
  simp only [List.nil_append, List.length_nil, Int.natCast_zero] at this
  simp only [Py.enumerate, this]

end PyGql.Props.C06

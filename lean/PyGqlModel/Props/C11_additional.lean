/-
  C11 — `build_schema(doc, additional_types=[…])`: the SUPPLIED types in the exactness statements
  (model: PyGqlModel/SdlAdditional.lean `buildA`, the function the driver answers `build` requests with).

  * `buildA_nil`: without supplied types `buildA` IS `build` — every theorem about `build doc` (`build_exact_spec`,
    `build_perm_final`, …) is a theorem about `buildA doc false []`.
  * `DeclaredWith doc add`: the content a document declares TOGETHER with supplied types: a definition whose name is
    supplied stands for the supplied type (kind not compared, internal enum values kept), every other definition for its
    merged definition built over the supplied types; extension blocks of a supplied type add their members to it; the
    supplied types that the result refers to (transitively) are part of it, the others are not.
  * `build_exact_additional_noext` (FULL for documents without extension blocks, any list of supplied types):
    `ValidWith doc add d → buildA doc false add = ok d`.  Corollaries: `supplied_overrides`, `unreferenced_not_registered`.
  * `BuildExactAdditionalStatement` (the same with extension blocks) is FALSE today: `build_exact_additional_refuted`,
    witness = finding C11/A1 (`supplied_extension_dropped`): a supplied enum that only an extension block refers to is
    registered without the value its own `extend enum` block declares.
-/
import PyGqlModel.SdlAdditional
import PyGqlModel.Props.C11_cycles

set_option linter.unusedVariables false
set_option linter.unusedSimpArgs false

namespace PyGql.Props.C11
open PyGql PyGql.Sdl PyGql.SdlSpec

/-! ### without supplied types `buildA` is `build` -/

theorem extendedA_of_nil (defs X : List TypeDef) : (Env.of defs []).extendedA X = (Env.of defs []).extended X := rfl

theorem buildCollectedA_nil (c : Collected) : buildCollectedA c [] = buildCollected c [] := by
  unfold buildCollectedA buildCollected
  simp only [shadowsSpecified, referencedAdditionalA, referencedAdditional, List.any_nil, List.filter_nil, failIf, Bool.false_eq_true, if_false,
    pure, Except.pure, bind, Except.bind]

theorem buildCollected_env (c : Collected) (add : List TypeD) (env : Env) (live : Live) (h : buildCollected c add = .ok (env, live)) :
    env = Env.of c.types add := by
  unfold buildCollected at h
  simp only [bind, Except.bind, pure, Except.pure] at h
  repeat' (split at h)
  all_goals (first | (cases h; rfl) | cases h)

theorem extendSchemaA_nil (defs : List TypeDef) (live : Live) (doc : Doc) :
    extendSchemaA (Env.of defs []) live doc [] = extendSchema (Env.of defs []) live doc [] := by
  unfold extendSchemaA extendSchema
  simp only [extendedA_of_nil, shadowsSpecified, referencedAdditionalA, referencedAdditional, List.any_nil, List.filter_nil, failIf,
    Bool.false_eq_true, if_false, pure, Except.pure, bind, Except.bind]

/-- **Without supplied types the refined model is the model**: all theorems about `build doc` / `build doc ie []`
    are theorems about what the driver computes for `additional = []`. -/
theorem buildA_nil (doc : Doc) (ie : Bool) : buildA doc ie [] = build doc ie [] := by
  unfold buildA build buildIgnoringExtensions
  simp only [normAdditional]
  cases hc : collectDefinitions doc with
  | error e => rfl
  | ok c =>
    simp only [bind, Except.bind, buildCollectedA_nil]
    cases hb : buildCollected c [] with
    | error e => rfl
    | ok p =>
      obtain ⟨env, live⟩ := p
      have he := buildCollected_env c [] env live hb
      subst he
      simp only [extendSchemaA_nil]

/-! ### the content a document declares together with supplied types -/

/-- a supplied type with the members its extension blocks declare (built over `env`) -/
def mergeLive (env : Env) (exts : List TypeDef) (t : TypeD) : R TypeD :=
  let mine := exts.filter (·.name == t.name)
  match t.kind with
  | .scalar => pure t
  | .object => do
    let fs ← (mine.flatMap (·.fields)).mapM (buildField env)
    pure { t with fields := t.fields ++ fs, interfaces := t.interfaces ++ mine.flatMap (·.interfaces) }
  | .interface => do
    let fs ← (mine.flatMap (·.fields)).mapM (buildField env)
    pure { t with fields := t.fields ++ fs }
  | .union => pure { t with members := t.members ++ mine.flatMap (·.members) }
  | .enum => do
    let vs ← (mine.flatMap (·.values)).mapM buildEnumValue
    pure { t with values := t.values ++ vs }
  | .input => do
    let fs ← (mine.flatMap (·.inputFields)).mapM (buildArgument env)
    pure { t with inputFields := t.inputFields ++ fs }

/-- what a definition stands for: the supplied type of its name (with its extension blocks), else its merged definition -/
def declaredType (env : Env) (add : List TypeD) (exts : List TypeDef) (d : TypeDef) : R TypeD :=
  match add.find? (·.name == d.name) with
  | some t => mergeLive env exts t
  | none => buildTypeDef env (mergeDef exts d)

/-- the declared content with supplied types; `none` when some member cannot be built -/
def DeclaredWith (doc : Doc) (add : List TypeD) : Option SchemaD :=
  let exts := typeExts doc
  let env : Env := (Env.of (typeDefs doc) add).extendedA exts
  match (typeDefs doc).mapM (declaredType env add exts), (dirDefs doc).mapM (buildDirective env) with
  | .ok ts, .ok ds =>
    let r := declaredRoots doc ts
    match (referencedAdditionalA add ts ds ⟨r.query, r.mutation, r.subscription⟩).mapM (mergeLive env exts) with
    | .ok extra => some { types := ts ++ extra, directives := ds, query := r.query, mutation := r.mutation, subscription := r.subscription }
    | .error _ => none
  | _, _ => none

/-- the types the definitions of the document stand for -/
def declaredTypes (doc : Doc) (add : List TypeD) : R (List TypeD) :=
  (typeDefs doc).mapM (declaredType ((Env.of (typeDefs doc) add).extendedA (typeExts doc)) add (typeExts doc))

/-- the premises of `build_exact_noext`, with supplied types (`add` has one type per name, so that `normAdditional add = add`) -/
structure ValidWith (doc : Doc) (add : List TypeD) (d : SchemaD) : Prop where
  uniqueTypes : ((typeDefs doc).map (·.name)).Nodup
  uniqueDirectives : ((dirDefs doc).map (·.name)).Nodup
  oneSchema : (schemaDefs doc).length ≤ 1
  noBuiltinNames : ∀ t ∈ typeDefs doc, isDefaultName t.name = false
  oneSuppliedPerName : (add.map (·.name)).Nodup
  declares : DeclaredWith doc add = some d
  noThunkCycle : hasThunkCycle (Env.of (typeDefs doc) add) (typeDefs doc) = false
  /-- no type is its own interface / member / argument type — among the types the definitions stand for -/
  noEagerCycle : ∀ ts, declaredTypes doc add = .ok ts → hasEagerCycle ts = false
  noSpecified : d.directives.any (fun x => specifiedDirectives.contains x.name) = false
  /-- no supplied type that is reached takes the name of a specified type -/
  noShadow : ∀ ts, declaredTypes doc add = .ok ts → shadowsSpecified add ts d.directives ⟨d.query, d.mutation, d.subscription⟩ = false
  rootsOk : ∀ ts, declaredTypes doc add = .ok ts →
      buildRoots (Env.of (typeDefs doc) add) (schemaDefs doc).head? ts = .ok ⟨d.query, d.mutation, d.subscription⟩

theorem normAdditional_of_nodup : ∀ (add : List TypeD), (add.map (·.name)).Nodup → normAdditional add = add := by
  intro add
  induction add with
  | nil => intro _; rfl
  | cons t ts ih =>
    intro h
    simp only [List.map_cons, List.nodup_cons] at h
    have hn : ts.any (·.name == t.name) = false := any_name_false (·.name) ts t.name h.1
    simp only [normAdditional, hn, Bool.false_eq_true, if_false, ih h.2]

/-- the full statement: valid document + supplied types ⇒ the built schema is the declared content -/
def BuildExactAdditionalStatement : Prop :=
  ∀ (doc : Doc) (add : List TypeD) (d : SchemaD), ValidWith doc add d → ∃ s, buildA doc false add = .ok s ∧ SameContent s d

/-! ### documents without extension blocks -/

theorem extendEnumView_nil (t : TypeD) : extendEnumView [] t = t := by
  unfold extendEnumView
  cases t with
  | mk kind name desc interfaces fields members values inputFields dr b => cases kind <;> simp

theorem extendLiveView_nil (env : Env) (t : TypeD) : extendLiveView env [] t = t := by
  cases t with
  | mk kind name desc interfaces fields members values inputFields dr b =>
    cases kind <;> simp [extendLiveView, extendEnumView_nil]

theorem extendedA_nil (env : Env) : env.extendedA [] = env := by
  cases env with
  | mk fd fa =>
    simp only [Env.extendedA, Env.mk.injEq]
    constructor
    · funext n; cases fd n <;> rfl
    · funext n; cases h : fa n with
      | none => rfl
      | some t => simp [extendLiveView_nil]

theorem mergeLive_nil (env : Env) (t : TypeD) : mergeLive env [] t = .ok t := by
  unfold mergeLive
  cases t with
  | mk kind name desc interfaces fields members values inputFields dr b =>
    cases kind <;> simp [pure, Except.pure, bind, Except.bind, List.mapM_nil]

theorem mapM_mergeLive_nil (env : Env) : ∀ (l : List TypeD), l.mapM (mergeLive env []) = .ok l := by
  intro l
  induction l with
  | nil => rfl
  | cons x xs ih => rw [List.mapM_cons, mergeLive_nil, ih]; rfl

/-- `build_type` of every definition: the supplied type of that name if there is one (the cache wins), else the built
    definition — which is what the definition stands for -/
theorem mapM_buildType_with (defs : List TypeDef) (add : List TypeD) :
    ∀ (ds : List TypeDef) (ts : List TypeD), (∀ t ∈ ds, isDefaultName t.name = false) →
      ds.mapM (declaredType (Env.of defs add) add []) = .ok ts → ds.mapM (buildType (Env.of defs add)) = .ok (ts.map some) := by
  intro ds
  induction ds with
  | nil => intro ts _ h; simp [List.mapM_nil, pure, Except.pure] at h ⊢; subst h; rfl
  | cons x xs ih =>
    intro ts hn h
    rw [List.mapM_cons] at h ⊢
    have hx : isDefaultName x.name = false := hn x (by simp)
    cases hb : declaredType (Env.of defs add) add [] x with
    | error e => rw [hb] at h; simp [bind, Except.bind] at h
    | ok tx =>
      rw [hb] at h
      simp only [bind, Except.bind] at h
      cases hr : xs.mapM (declaredType (Env.of defs add) add []) with
      | error e => rw [hr] at h; simp at h
      | ok txs =>
        rw [hr] at h
        simp only [pure, Except.pure, Except.ok.injEq] at h
        subst h
        have := ih txs (fun t ht => hn t (by simp [ht])) hr
        have ha : (Env.of defs add).findAdditional x.name = add.find? (·.name == x.name) := rfl
        have hbt : buildType (Env.of defs add) x = .ok (some tx) := by
          unfold declaredType at hb
          simp only [buildType, hx, Bool.false_eq_true, if_false, ha]
          cases hf : add.find? (·.name == x.name) with
          | some t => rw [hf] at hb; simp only [mergeLive_nil] at hb; cases hb; rfl
          | none =>
            rw [hf] at hb
            have hm : mergeDef [] x = x := rfl
            rw [hm] at hb
            simp only [hb, bind, Except.bind, pure, Except.pure]
        simp only [hbt, bind, Except.bind, pure, Except.pure, this, List.map_cons]

theorem declaredWith_parts_noext (doc : Doc) (add : List TypeD) (d : SchemaD) (hx : typeExts doc = []) (h : DeclaredWith doc add = some d) :
    ∃ ts, (typeDefs doc).mapM (declaredType (Env.of (typeDefs doc) add) add []) = .ok ts ∧
      (dirDefs doc).mapM (buildDirective (Env.of (typeDefs doc) add)) = .ok d.directives ∧
      d.types = ts ++ referencedAdditionalA add ts d.directives ⟨d.query, d.mutation, d.subscription⟩ ∧
      (⟨d.query, d.mutation, d.subscription⟩ : Roots) = declaredRoots doc ts ∧
      d = { types := d.types, directives := d.directives, query := d.query, mutation := d.mutation, subscription := d.subscription } := by
  unfold DeclaredWith at h
  simp only [hx, extendedA_nil] at h
  split at h
  · rename_i ts ds h1 h2
    simp only [mapM_mergeLive_nil] at h
    simp only [Option.some.injEq] at h
    subst h
    exact ⟨ts, h1, h2, rfl, rfl, rfl⟩
  · simp at h

private theorem typeExtensions_nil' (live : Live) (doc : Doc) (h : typeExts doc = []) : typeExtensions live doc = [] := by
  induction doc with
  | nil => rfl
  | cons d ds ih =>
    cases d with
    | ext e => simp [typeExts] at h
    | type t => simp only [typeExts, List.filterMap_cons] at h; simpa [typeExtensions] using ih h
    | directive t => simp only [typeExts, List.filterMap_cons] at h; simpa [typeExtensions] using ih h
    | schema t => simp only [typeExts, List.filterMap_cons] at h; simpa [typeExtensions] using ih h
    | schemaExt t => simp only [typeExts, List.filterMap_cons] at h; simpa [typeExtensions] using ih h
    | other => simp only [typeExts, List.filterMap_cons] at h; simpa [typeExtensions] using ih h

/-- **build_exact with supplied types, documents without extension blocks** (full): a valid document builds together
    with ANY list of supplied types (one per name), and the schema is exactly the declared content: each definition whose
    name is supplied is the supplied type itself — whatever its kind, with its internal enum values, description and
    members —, every other definition is built over the supplied types (references resolve to them, default literals are
    coerced with THEIR values), the supplied types the result refers to directly or through other supplied types are
    registered, and no other supplied type is. -/
theorem build_exact_additional_noext (doc : Doc) (add : List TypeD) (d : SchemaD) (v : ValidWith doc add d)
    (hx : typeExts doc = []) (hsx : schemaExtensions doc = []) : buildA doc false add = .ok d := by
  obtain ⟨c, hc, hct, hcd, hcs⟩ := collect_ok doc v.uniqueTypes v.uniqueDirectives v.oneSchema v.noBuiltinNames
  obtain ⟨ts, hts, hds, htypes, hroots, hd⟩ := declaredWith_parts_noext doc add d hx v.declares
  have hts' : declaredTypes doc add = .ok ts := by
    unfold declaredTypes; rw [hx, extendedA_nil]; exact hts
  have hbt := mapM_buildType_with (typeDefs doc) add (typeDefs doc) ts v.noBuiltinNames hts
  have hcyc := v.noEagerCycle ts hts'
  have hspec := v.noSpecified
  have hshadow := v.noShadow ts hts'
  have hr := v.rootsOk ts hts'
  have hthunk := v.noThunkCycle
  have hext : ∀ live, typeExtensions live doc = [] := fun live => typeExtensions_nil' live doc hx
  simp only [buildA, normAdditional_of_nodup add v.oneSuppliedPerName, hc, bind, Except.bind, buildCollectedA, failIf, hct, hcd, hcs, hthunk, hds, hbt,
    filterMap_id_map_some, hcyc, hr, hspec, hshadow, Bool.false_eq_true, if_false, pure, Except.pure,
    extendSchemaA, hext, hsx, List.isEmpty_nil, Bool.and_self, if_true, toSchemaD]
  rw [← htypes]
  exact congrArg Except.ok hd.symm

/-- a premise of the form `∀ ts, x = ok ts → p ts` from a computation -/
theorem of_okB {α} (x : R α) (p : α → Bool) (h : (match x with | .ok a => p a | .error _ => true) = true) : ∀ a, x = .ok a → p a = true := by
  intro a ha; rw [ha] at h; exact h

/-! ### what the theorem says about the supplied types -/

/-- **a supplied type overrides the definition of its name**: it is in the schema as it was supplied -/
theorem supplied_overrides (doc : Doc) (add : List TypeD) (d : SchemaD) (v : ValidWith doc add d) (hx : typeExts doc = [])
    (df : TypeDef) (hdf : df ∈ typeDefs doc) (t : TypeD) (hf : add.find? (·.name == df.name) = some t) : t ∈ d.types := by
  obtain ⟨ts, hts, _, htypes, _, _⟩ := declaredWith_parts_noext doc add d hx v.declares
  obtain ⟨r, hr, hb⟩ := all₂_mem_left _ _ _ (mapM_forall₂ _ _ _ hts) df hdf
  unfold declaredType at hb
  simp only [hf, mergeLive_nil] at hb
  cases hb
  rw [htypes]
  exact List.mem_append_left _ hr

/-- **nothing else is registered**: a type of the schema is what a definition stands for, or a supplied type whose
    name the closure of the registry reaches -/
theorem registered_only_if_reached (doc : Doc) (add : List TypeD) (d : SchemaD) (v : ValidWith doc add d) (hx : typeExts doc = [])
    (t : TypeD) (ht : t ∈ d.types) :
    (∃ ts, (typeDefs doc).mapM (declaredType (Env.of (typeDefs doc) add) add []) = .ok ts ∧
      (t ∈ ts ∨ (t ∈ add ∧ (closureNames add ts d.directives ⟨d.query, d.mutation, d.subscription⟩).contains t.name = true))) := by
  obtain ⟨ts, hts, _, htypes, _, _⟩ := declaredWith_parts_noext doc add d hx v.declares
  refine ⟨ts, hts, ?_⟩
  rw [htypes] at ht
  rcases List.mem_append.mp ht with h | h
  · exact Or.inl h
  · right
    unfold referencedAdditionalA at h
    simp only [List.mem_filter, Bool.and_eq_true] at h
    exact ⟨h.1, h.2.2⟩

/-! ### non-vacuity: a definition overridden by a supplied enum with internal values, a supplied input object that is
    referenced (and whose own reference to the enum is followed), a supplied scalar nothing refers to -/

def supE : TypeD := { kind := .enum, name := "E", desc := some "supplied", values := [{ name := "A", value := .num 1 }] }
def supI : TypeD := { kind := .input, name := "I2", inputFields := [{ name := "e", type := .named "E" }, { name := "a", type := .named "Int", hasDefault := true, default := .num 1 }] }
def supS : TypeD := { kind := .scalar, name := "Unused" }
def supAdd : List TypeD := [supE, supI, supS]

/-- `enum E { Z }  type Query { q(j: I2 = {e: A}): Int  r: E }` -/
def supDoc : Doc := [
  .type { kind := .enum, name := "E", values := [{ name := "Z" }] },
  .type { kind := .object, name := "Query", fields := [{ name := "q", type := .named "Int", args := [{ name := "j", type := .named "I2", default := some (.obj [("e", .enum "A")]) }] },
                                                       { name := "r", type := .named "E" }] }]

theorem supDeclares : (DeclaredWith supDoc supAdd).isSome = true := by decide

theorem supDoc_valid : ValidWith supDoc supAdd ((DeclaredWith supDoc supAdd).get supDeclares) :=
  { uniqueTypes := by decide, uniqueDirectives := by decide, oneSchema := by decide, noBuiltinNames := by decide,
    oneSuppliedPerName := by decide, declares := by simp, noThunkCycle := by decide,
    noEagerCycle := fun ts h => by simpa using of_okB _ (fun ts => !hasEagerCycle ts) (by decide) ts h,
    noSpecified := by decide,
    noShadow := fun ts h => by simpa using of_okB _ (fun ts => !shadowsSpecified supAdd ts _ _) (by decide) ts h,
    rootsOk := fun ts h => by
      simpa using of_okB _ (fun ts => buildRoots (Env.of (typeDefs supDoc) supAdd) (schemaDefs supDoc).head? ts ==
        .ok ⟨((DeclaredWith supDoc supAdd).get supDeclares).query, ((DeclaredWith supDoc supAdd).get supDeclares).mutation, ((DeclaredWith supDoc supAdd).get supDeclares).subscription⟩) (by decide) ts h }

example : buildA supDoc false supAdd = .ok ((DeclaredWith supDoc supAdd).get supDeclares) :=
  build_exact_additional_noext _ _ _ supDoc_valid (by decide) (by decide)

/-- … and the content is what one expects: the supplied enum (internal value 1, not the `Z` of the document), the default
    `{e: A}` coerced with that internal value and completed with the supplied default, the supplied input object
    registered, the unused scalar not -/
example : (match buildA supDoc false supAdd with
    | .ok s => s.types.map (·.name) == ["E", "Query", "I2"] &&
        (match s.types.find? (·.name == "E") with
          | some t => (match t.values with | [v] => v.name == "A" && (match v.value with | J.num 1 => true | _ => false) | _ => false)
          | none => false) &&
        (match s.types.find? (·.name == "Query") with
          | some t => (match (t.fields.flatMap (·.args.map (·.default)) : List J) with | [J.obj [("e", J.num 1), ("a", J.num 1)]] => true | _ => false)
          | none => false)
    | .error _ => false) = true := by decide

/-- non-vacuity of `supplied_overrides`: the definition `enum E { Z }` of `supDoc` is overridden by the supplied `E` -/
example : supE ∈ ((DeclaredWith supDoc supAdd).get supDeclares).types :=
  supplied_overrides supDoc supAdd _ supDoc_valid (by decide) { kind := .enum, name := "E", values := [{ name := "Z" }] } (by simp [supDoc, typeDefs]) supE rfl

/-- non-vacuity of `registered_only_if_reached` (same premises, applied to the overriding `E`) -/
example := registered_only_if_reached supDoc supAdd _ supDoc_valid (by decide) supE
  (supplied_overrides supDoc supAdd _ supDoc_valid (by decide) { kind := .enum, name := "E", values := [{ name := "Z" }] } (by simp [supDoc, typeDefs]) supE rfl)

/-! ### finding C11/A1: with extension blocks the statement is false today -/

/-- `type Query { q: Int }  extend type Query { e: E }  extend enum E { B }` with `additional_types=[E {A}]` -/
def a1Doc : Doc := [
  .type { kind := .object, name := "Query", fields := [{ name := "q", type := .named "Int" }] },
  .ext { kind := .object, name := "Query", fields := [{ name := "e", type := .named "E" }] },
  .ext { kind := .enum, name := "E", values := [{ name := "B" }] }]
def a1Add : List TypeD := [{ kind := .enum, name := "E", values := [{ name := "A", value := .num 1 }] }]

theorem a1Declares : (DeclaredWith a1Doc a1Add).isSome = true := by decide

theorem a1_valid : ValidWith a1Doc a1Add ((DeclaredWith a1Doc a1Add).get a1Declares) :=
  { uniqueTypes := by decide, uniqueDirectives := by decide, oneSchema := by decide, noBuiltinNames := by decide,
    oneSuppliedPerName := by decide, declares := by simp, noThunkCycle := by decide,
    noEagerCycle := fun ts h => by simpa using of_okB _ (fun ts => !hasEagerCycle ts) (by decide) ts h,
    noSpecified := by decide,
    noShadow := fun ts h => by simpa using of_okB _ (fun ts => !shadowsSpecified a1Add ts _ _) (by decide) ts h,
    rootsOk := fun ts h => by
      simpa using of_okB _ (fun ts => buildRoots (Env.of (typeDefs a1Doc) a1Add) (schemaDefs a1Doc).head? ts ==
        .ok ⟨((DeclaredWith a1Doc a1Add).get a1Declares).query, ((DeclaredWith a1Doc a1Add).get a1Declares).mutation, ((DeclaredWith a1Doc a1Add).get a1Declares).subscription⟩) (by decide) ts h }

/-- **finding C11/A1** (reproduced on the code, probes `finding-A1-*`): the document declares the value `B` of the supplied
    enum `E`; the builder registers `E` (the extension of `Query` refers to it) WITHOUT `B` — `_collect_extensions` drops
    `extend enum E` because `E` is not in the schema before the extensions are applied — and says nothing. -/
theorem supplied_extension_dropped :
    (match buildA a1Doc false a1Add with
      | .ok s => s.types.all (fun t => t.name != "E" || t.values.map (·.name) == ["A"]) && s.types.any (·.name == "E")
      | .error _ => false) = true ∧
    (match DeclaredWith a1Doc a1Add with
      | some d => d.types.any (fun t => t.name == "E" && t.values.map (·.name) == ["A", "B"])
      | none => false) = true := by decide

/-- the full statement (extension blocks allowed) is FALSE on today's code; `build_exact_additional_noext` is the part
    that holds.  Repair: proposed_fixes/C11-A1.patch. -/
theorem build_exact_additional_refuted : ¬ BuildExactAdditionalStatement := by
  intro h
  obtain ⟨s, hs, _, _, _, htypes, _⟩ := h a1Doc a1Add _ a1_valid
  obtain ⟨h1, h2⟩ := supplied_extension_dropped
  rw [hs] at h1
  have hd : DeclaredWith a1Doc a1Add = some ((DeclaredWith a1Doc a1Add).get a1Declares) := by simp
  rw [hd] at h2
  simp only [Bool.and_eq_true, List.all_eq_true, List.any_eq_true] at h1 h2
  obtain ⟨t, ht, hn, hv⟩ := h2
  have := h1.1 t ((htypes t).mpr ht)
  simp only [Bool.or_eq_true, bne_iff_ne, ne_eq] at this
  rcases this with h' | h'
  · exact h' (by simpa using hn)
  · have e1 : t.values.map (·.name) = ["A"] := by simpa using h'
    have e2 : t.values.map (·.name) = ["A", "B"] := by simpa using hv
    rw [e1] at e2
    cases e2

/-! ### supplied types through the extension pass

`extend_schema` applies the extension blocks of the document to the supplied types that are in the schema
("Extension will be applied to these types").  `mergeLiveX` is `mergeLive` with the members built as the extension pass
builds them (defaults evaluated in the extended view `eX`); `extend_supplied_exact`: when the blocks are of the type's
kind and repeat no member name, `_extend_<kind>_type` returns exactly the supplied type followed by the members of its
blocks in document order — its own members untouched (internal enum values, resolvers of the description…) —, and
`reDefault` keeps it (a supplied type has no SDL literals to evaluate again). -/

/-- a supplied type with the members its extension blocks declare, built as the extension pass builds them -/
def mergeLiveX (eB eX : Env) (hide : Option String) (exts : List TypeDef) (t : TypeD) : R TypeD :=
  let mine := exts.filter (·.name == t.name)
  match t.kind with
  | .scalar => pure t
  | .object => do
    let fs ← (mine.flatMap (·.fields)).mapM (buildFieldX eB eX hide)
    checkNames eB (mine.flatMap (·.interfaces))
    pure { t with fields := t.fields ++ fs, interfaces := t.interfaces ++ mine.flatMap (·.interfaces) }
  | .interface => do
    let fs ← (mine.flatMap (·.fields)).mapM (buildFieldX eB eX hide)
    pure { t with fields := t.fields ++ fs }
  | .union => do
    checkNames eB (mine.flatMap (·.members))
    pure { t with members := t.members ++ mine.flatMap (·.members) }
  | .enum => do
    let vs ← (mine.flatMap (·.values)).mapM buildEnumValue
    pure { t with values := t.values ++ vs }
  | .input => do
    let fs ← (mine.flatMap (·.inputFields)).mapM (buildArgumentX eB eX hide)
    pure { t with inputFields := t.inputFields ++ fs }

/-- member names are not repeated -/
def MembersNodup (r : TypeD) : Prop :=
  (r.fields.map (·.name)).Nodup ∧ (r.inputFields.map (·.name)).Nodup ∧ (r.values.map (·.name)).Nodup ∧ r.members.Nodup ∧ r.interfaces.Nodup

/-- **extension blocks are applied to a supplied type exactly** (every kind) -/
theorem extend_supplied_exact (eB eX : Env) (hide : Option String) (exts : List TypeDef) (t r : TypeD)
    (hkinds : ∀ e ∈ exts, e.name = t.name → e.kind = t.kind)
    (hm : mergeLiveX eB eX hide exts t = .ok r) (hn : MembersNodup r) :
    extendTypeX eB eX hide exts t = .ok r := by
  obtain ⟨n1, n2, n3, n4, n5⟩ := hn
  unfold mergeLiveX at hm
  simp only [] at hm
  split at hm
  · -- scalar
    rename_i hk
    simp only [hk] at hkinds
    cases hm
    exact extend_scalar_exact eB eX hide exts t hk hkinds
  · -- object
    rename_i hk
    simp only [hk] at hkinds
    obtain ⟨fs, hfs, h1⟩ := bind_ok _ _ _ hm
    obtain ⟨_, hcn, h2⟩ := bind_ok _ _ _ h1
    cases h2
    obtain ⟨hb, hall⟩ := flatMap_mapM_inv (buildFieldX eB eX hide) (fun (e : TypeDef) => e.fields) _ fs hfs
    subst hall
    exact extend_object_exact eB eX hide exts t hk hkinds _ hb n1 (checkNames_flatMap_inv eB (fun (e : TypeDef) => e.interfaces) _ hcn) n5
  · -- interface
    rename_i hk
    simp only [hk] at hkinds
    obtain ⟨fs, hfs, h1⟩ := bind_ok _ _ _ hm
    cases h1
    obtain ⟨hb, hall⟩ := flatMap_mapM_inv (buildFieldX eB eX hide) (fun (e : TypeDef) => e.fields) _ fs hfs
    subst hall
    exact extend_interface_exact eB eX hide exts t hk hkinds _ hb n1
  · -- union
    rename_i hk
    simp only [hk] at hkinds
    obtain ⟨_, hcn, h2⟩ := bind_ok _ _ _ hm
    cases h2
    exact extend_union_exact eB eX hide exts t hk hkinds (checkNames_flatMap_inv eB (fun (e : TypeDef) => e.members) _ hcn) n4
  · -- enum
    rename_i hk
    simp only [hk] at hkinds
    obtain ⟨vs, hvs, h1⟩ := bind_ok _ _ _ hm
    cases h1
    obtain ⟨hb, hall⟩ := flatMap_mapM_inv buildEnumValue (fun (e : TypeDef) => e.values) _ vs hvs
    subst hall
    exact extend_enum_exact eB eX hide exts t hk hkinds _ hb n3
  · -- input
    rename_i hk
    simp only [hk] at hkinds
    obtain ⟨fs, hfs, h1⟩ := bind_ok _ _ _ hm
    cases h1
    obtain ⟨hb, hall⟩ := flatMap_mapM_inv (buildArgumentX eB eX hide) (fun (e : TypeDef) => e.inputFields) _ fs hfs
    subst hall
    exact extend_input_exact eB eX hide exts t hk hkinds _ hb n2

/-- … and the second step of the extension pass keeps a supplied type as it is -/
theorem reDefault_supplied (eB eX : Env) (hide : Option String) (exts : List TypeDef) (r : TypeD)
    (hs : (eB.findAdditional r.name).isSome) : reDefault eB eX hide exts r = .ok r := by
  unfold reDefault
  cases h : eB.findAdditional r.name with
  | none => rw [h] at hs; cases hs
  | some _ => rfl

/-- non-vacuity: `extend enum E { B }  extend enum E { C }` on the supplied `E { A = 1 }` -/
example : (match extendTypeX (Env.of [] [supE]) ((Env.of [] [supE]).extendedA []) none
      [{ kind := .enum, name := "E", values := [{ name := "B" }] }, { kind := .enum, name := "E", values := [{ name := "C" }] }] supE with
    | .ok r => r.values.map (·.name) == ["A", "B", "C"] && r.desc == some "supplied"
    | .error _ => false) = true := by decide

end PyGql.Props.C11

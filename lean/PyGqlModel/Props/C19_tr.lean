/-
  C19: the depth model's `skipSelection` (`PyGqlModel/Depth.lean`; `max_depth.py` imports `_skip_selection` from
  `utilities/collect_fields.py`) EQUALS the definition translated from the source on every run
  (`Generated/TrCollect.lean`), with `directive_arguments(D, node, variables)` read as `evalOpt vars <the condition of D>`.
-/
import PyGqlModel.Depth
import PyGqlModel.Generated.TrCollect

namespace PyGql.Props.C19
open PyGql PyGql.Depth PyGql.Generated

/-- `directive_arguments(D, node, variables)` in the depth model (conditions are already split by directive) -/
def directiveArguments (name : String) (d : Dirs) (vars : Vars) : Except Err (Option Bool) :=
  evalOpt vars (if name == "skip" then d.skip else d.incl)

/-- **`_skip_selection`: model = source.** (`exc` is irrelevant: no built-in exception is reachable, see the proof) -/
theorem skip_selection_model_eq_source (exc : String → Err) (d : Dirs) (vars : Vars) :
    skipSelection d vars = Tr._skip_selection exc directiveArguments d vars := by
  unfold skipSelection Tr._skip_selection directiveArguments
  simp only [beq_self_eq_true, if_true]
  cases h1 : evalOpt vars d.skip with
  | error e => rfl
  | ok sk =>
    have hne : ("include" == "skip") = false := by decide
    simp only [hne, Bool.false_eq_true, if_false]
    cases h2 : evalOpt vars d.incl with
    | error e => rfl
    | ok inc =>
      cases sk <;> cases inc <;> simp [Py.optGet, Py.mapErr]

end PyGql.Props.C19

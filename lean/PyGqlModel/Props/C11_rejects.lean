/-
  C11 — `build_rejects`: every rejection of the model is one of the library's schema/SDL errors, or the stack
  overflow of finding S1b — proved by going through every function of the builder (not by the shape of the
  error type: `Err.internal` carries an arbitrary class name).
-/
import PyGqlModel.Sdl
import PyGqlModel.SdlExtend
import PyGqlModel.SdlAdditional
import PyGqlModel.SdlInProgress
import PyGqlModel.Props.C11

set_option linter.unusedVariables false
set_option linter.unusedSimpArgs false

namespace PyGql.Props.C11
open PyGql PyGql.Sdl

/-- a library error, or the one known non-library outcome -/
def Good (e : Err) : Prop := (∃ l, e = .lib l) ∨ e = .internal "RecursionError"

private theorem good_lib (l : LibErr) : Good (.lib l) := Or.inl ⟨l, rfl⟩
private theorem good_rec : Good (.internal "RecursionError") := Or.inr rfl

private theorem bind_err {α β} (x : R α) (f : α → R β) (e : Err) (h : (x >>= f) = .error e) :
    x = .error e ∨ ∃ a, x = .ok a ∧ f a = .error e := by
  cases x with
  | error e' => left; simpa [bind, Except.bind] using h
  | ok a => right; exact ⟨a, rfl, by simpa [bind, Except.bind] using h⟩

private theorem mapM_err {α β} (f : α → R β) (hf : ∀ x e, f x = .error e → Good e) :
    ∀ (l : List α) (e : Err), l.mapM f = .error e → Good e := by
  intro l
  induction l with
  | nil => intro e h; simp [pure, Except.pure] at h
  | cons x xs ih =>
    intro e h
    rw [List.mapM_cons] at h
    rcases bind_err _ _ _ h with h1 | ⟨a, _, h2⟩
    · exact hf x e h1
    · rcases bind_err _ _ _ h2 with h3 | ⟨b, _, h4⟩
      · exact ih e h3
      · simp [pure, Except.pure] at h4

private theorem foldlM_err {α β} (f : β → α → R β) (hf : ∀ acc x e, f acc x = .error e → Good e) :
    ∀ (l : List α) (acc : β) (e : Err), l.foldlM f acc = .error e → Good e := by
  intro l
  induction l with
  | nil => intro acc e h; simp [List.foldlM, pure, Except.pure] at h
  | cons x xs ih =>
    intro acc e h
    rw [List.foldlM_cons] at h
    rcases bind_err _ _ _ h with h1 | ⟨a, _, h2⟩
    · exact hf acc x e h1
    · exact ih a e h2

private theorem defaultValue_err (env : Env) (l : Lit) (t : Ty) (e : Err) (h : defaultValue env l t = .error e) : Good e := by
  unfold defaultValue at h
  split at h
  · cases h; exact good_rec
  · simp [pure, Except.pure] at h
  · simp only [sdlErr] at h; cases h; exact good_lib _

private theorem checkRef_err (env : Env) (t : Ty) (e : Err) (h : checkRef env t = .error e) : Good e := by
  unfold checkRef at h
  split at h
  · simp [pure, Except.pure] at h
  · simp only [sdlErr] at h; cases h; exact good_lib _

private theorem checkNames_err (env : Env) (ns : List String) (e : Err) (h : checkNames env ns = .error e) : Good e := by
  unfold checkNames at h
  split at h
  · simp [pure, Except.pure] at h
  · simp only [sdlErr] at h; cases h; exact good_lib _

private theorem deprecationReason_err (ds : List DirApp) (e : Err) (h : deprecationReason ds = .error e) : Good e := by
  unfold deprecationReason at h
  split at h
  · simp [pure, Except.pure] at h
  · split at h
    all_goals first
      | (simp [pure, Except.pure] at h; done)
      | (simp only [sdlErr] at h; cases h; exact good_lib _)

private theorem buildArgument_err (env : Env) (a : InputValDef) (e : Err) (h : buildArgument env a = .error e) : Good e := by
  unfold buildArgument at h
  rcases bind_err _ _ _ h with h1 | ⟨_, _, h2⟩
  · exact checkRef_err env _ e h1
  · split at h2
    · simp [pure, Except.pure] at h2
    · rcases bind_err _ _ _ h2 with h3 | ⟨_, _, h4⟩
      · exact defaultValue_err env _ _ e h3
      · simp [pure, Except.pure] at h4

private theorem buildField_err (env : Env) (f : FieldDef) (e : Err) (h : buildField env f = .error e) : Good e := by
  unfold buildField at h
  rcases bind_err _ _ _ h with h1 | ⟨_, _, h2⟩
  · exact checkRef_err env _ e h1
  · rcases bind_err _ _ _ h2 with h3 | ⟨_, _, h4⟩
    · exact mapM_err _ (buildArgument_err env) _ e h3
    · rcases bind_err _ _ _ h4 with h5 | ⟨_, _, h6⟩
      · exact deprecationReason_err _ e h5
      · simp [pure, Except.pure] at h6

private theorem failIf_err (c : Bool) (err e : Err) (h : failIf c err = .error e) : e = err := by
  unfold failIf at h
  split at h
  · cases h; rfl
  · simp [pure, Except.pure] at h

private theorem buildEnumValue_err (v : EnumValDef) (e : Err) (h : buildEnumValue v = .error e) : Good e := by
  unfold buildEnumValue at h
  rcases bind_err _ _ _ h with h1 | ⟨_, _, h2⟩
  · rw [failIf_err _ _ _ h1]; exact good_lib _
  · rcases bind_err _ _ _ h2 with h3 | ⟨_, _, h4⟩
    · exact deprecationReason_err _ e h3
    · simp [pure, Except.pure] at h4

private theorem buildTypeDef_err (env : Env) (d : TypeDef) (e : Err) (h : buildTypeDef env d = .error e) : Good e := by
  unfold buildTypeDef at h
  split at h
  · simp [pure, Except.pure] at h
  · rcases bind_err _ _ _ h with h1 | ⟨_, _, h2⟩
    · exact mapM_err _ (buildField_err env) _ e h1
    · rcases bind_err _ _ _ h2 with h3 | ⟨_, _, h4⟩
      · exact checkNames_err env _ e h3
      · simp [pure, Except.pure] at h4
  · rcases bind_err _ _ _ h with h1 | ⟨_, _, h2⟩
    · exact mapM_err _ (buildField_err env) _ e h1
    · simp [pure, Except.pure] at h2
  · rcases bind_err _ _ _ h with h1 | ⟨_, _, h2⟩
    · exact checkNames_err env _ e h1
    · simp [pure, Except.pure] at h2
  · rcases bind_err _ _ _ h with h1 | ⟨_, _, h2⟩
    · rw [failIf_err _ _ _ h1]; exact good_lib _
    · rcases bind_err _ _ _ h2 with h3 | ⟨_, _, h4⟩
      · exact mapM_err _ buildEnumValue_err _ e h3
      · simp [pure, Except.pure] at h4
  · rcases bind_err _ _ _ h with h1 | ⟨_, _, h2⟩
    · exact mapM_err _ (buildArgument_err env) _ e h1
    · simp [pure, Except.pure] at h2

private theorem buildType_err (env : Env) (d : TypeDef) (e : Err) (h : buildType env d = .error e) : Good e := by
  unfold buildType at h
  split at h
  · simp [pure, Except.pure] at h
  · split at h
    · simp [pure, Except.pure] at h
    · rcases bind_err _ _ _ h with h1 | ⟨_, _, h2⟩
      · exact buildTypeDef_err env d e h1
      · simp [pure, Except.pure] at h2

private theorem buildDirective_err (env : Env) (d : DirDef) (e : Err) (h : buildDirective env d = .error e) : Good e := by
  unfold buildDirective at h
  rcases bind_err _ _ _ h with h1 | ⟨_, _, h2⟩
  · exact mapM_err _ (buildArgument_err env) _ e h1
  · simp [pure, Except.pure] at h2

private theorem defaultValueX_err (env envX : Env) (hide : Option String) (l : Lit) (t : Ty) (e : Err) (h : defaultValueX env envX hide l t = .error e) : Good e := by
  unfold defaultValueX at h
  split at h
  · exact defaultValue_err env l t e h
  · exact defaultValue_err envX l t e h

private theorem buildArgumentX_err (env envX : Env) (hide : Option String) (a : InputValDef) (e : Err) (h : buildArgumentX env envX hide a = .error e) : Good e := by
  unfold buildArgumentX at h
  rcases bind_err _ _ _ h with h1 | ⟨_, _, h2⟩
  · exact checkRef_err env _ e h1
  · split at h2
    · simp [pure, Except.pure] at h2
    · rcases bind_err _ _ _ h2 with h3 | ⟨_, _, h4⟩
      · exact defaultValueX_err env envX hide _ _ e h3
      · simp [pure, Except.pure] at h4

private theorem buildFieldX_err (env envX : Env) (hide : Option String) (f : FieldDef) (e : Err) (h : buildFieldX env envX hide f = .error e) : Good e := by
  unfold buildFieldX at h
  rcases bind_err _ _ _ h with h1 | ⟨_, _, h2⟩
  · exact checkRef_err env _ e h1
  · rcases bind_err _ _ _ h2 with h3 | ⟨_, _, h4⟩
    · exact mapM_err _ (buildArgumentX_err env envX hide) _ e h3
    · rcases bind_err _ _ _ h4 with h5 | ⟨_, _, h6⟩
      · exact deprecationReason_err _ e h5
      · simp [pure, Except.pure] at h6

private theorem buildTypeDefX_err (env envX : Env) (hide : Option String) (d : TypeDef) (e : Err) (h : buildTypeDefX env envX hide d = .error e) : Good e := by
  unfold buildTypeDefX at h
  split at h
  · simp [pure, Except.pure] at h
  · rcases bind_err _ _ _ h with h1 | ⟨_, _, h2⟩
    · exact mapM_err _ (buildFieldX_err env envX hide) _ e h1
    · rcases bind_err _ _ _ h2 with h3 | ⟨_, _, h4⟩
      · exact checkNames_err env _ e h3
      · simp [pure, Except.pure] at h4
  · rcases bind_err _ _ _ h with h1 | ⟨_, _, h2⟩
    · exact mapM_err _ (buildFieldX_err env envX hide) _ e h1
    · simp [pure, Except.pure] at h2
  · rcases bind_err _ _ _ h with h1 | ⟨_, _, h2⟩
    · exact checkNames_err env _ e h1
    · simp [pure, Except.pure] at h2
  · rcases bind_err _ _ _ h with h1 | ⟨_, _, h2⟩
    · rw [failIf_err _ _ _ h1]; exact good_lib _
    · rcases bind_err _ _ _ h2 with h3 | ⟨_, _, h4⟩
      · exact mapM_err _ buildEnumValue_err _ e h3
      · simp [pure, Except.pure] at h4
  · rcases bind_err _ _ _ h with h1 | ⟨_, _, h2⟩
    · exact mapM_err _ (buildArgumentX_err env envX hide) _ e h1
    · simp [pure, Except.pure] at h2

private theorem buildDirectiveX_err (env envX : Env) (d : DirDef) (e : Err) (h : buildDirectiveX env envX d = .error e) : Good e := by
  unfold buildDirectiveX at h
  rcases bind_err _ _ _ h with h1 | ⟨_, _, h2⟩
  · exact mapM_err _ (buildArgumentX_err env envX none) _ e h1
  · simp [pure, Except.pure] at h2

private theorem addOps_err (res : String → Bool) (l : LibErr) : ∀ (ops : List (String × String)) (r : Roots) (e : Err),
    addOps res (.lib l) r ops = .error e → Good e := by
  intro ops
  induction ops with
  | nil => intro r e h; simp [addOps, pure, Except.pure] at h
  | cons o os ih =>
    intro r e h
    obtain ⟨op, ty⟩ := o
    simp only [addOps] at h
    split at h
    · cases h; exact good_lib _
    · split at h
      · simp only [sdlErr] at h; cases h; exact good_lib _
      · exact ih _ e h

private theorem buildRoots_err (env : Env) (sd : Option SchemaDef) (ts : List TypeD) (e : Err) (h : buildRoots env sd ts = .error e) :
    Good e := by
  unfold buildRoots at h
  split at h
  · simp [pure, Except.pure] at h
  · exact addOps_err _ _ _ _ e h

private theorem buildCollected_err (c : Collected) (add : List TypeD) (e : Err) (h : buildCollected c add = .error e) : Good e := by
  unfold buildCollected at h
  simp only [] at h
  rcases bind_err _ _ _ h with h1 | ⟨_, _, h2⟩
  · rw [failIf_err _ _ _ h1]; exact good_rec
  · rcases bind_err _ _ _ h2 with h3 | ⟨_, _, h4⟩
    · exact mapM_err _ (buildDirective_err _) _ e h3
    · rcases bind_err _ _ _ h4 with h5 | ⟨_, _, h6⟩
      · exact mapM_err _ (buildType_err _) _ e h5
      · rcases bind_err _ _ _ h6 with h7 | ⟨_, _, h8⟩
        · rw [failIf_err _ _ _ h7]; exact good_lib _
        · rcases bind_err _ _ _ h8 with h9 | ⟨_, _, h10⟩
          · exact buildRoots_err _ _ _ e h9
          · rcases bind_err _ _ _ h10 with h11 | ⟨_, _, h12⟩
            · rw [failIf_err _ _ _ h11]; exact good_lib _
            · simp [pure, Except.pure] at h12

private theorem appendNew_good {α} (l : LibErr) (name : α → String) (xs acc : List α) (e : Err)
    (h : appendNew (.lib l) name acc xs = .error e) : Good e := by
  rw [appendNew_error _ name xs acc e h]; exact good_lib _

private theorem mergeStep_err {α β} (bf : α → R β) (hbf : ∀ x e, bf x = .error e → Good e) (name : β → String) (sel : TypeDef → List α)
    (acc : List β) (x : TypeDef) (e : Err)
    (h : (do let new ← (sel x).mapM bf; appendNew (.lib .ext) name acc new) = .error e) : Good e := by
  rcases bind_err _ _ _ h with h1 | ⟨_, _, h2⟩
  · exact mapM_err _ hbf _ e h1
  · exact appendNew_good _ name _ _ e h2

private theorem namesStep_err (env : Env) (sel : TypeDef → List String) (acc : List String) (x : TypeDef) (e : Err)
    (h : (do checkNames env (sel x); appendNew (.lib .ext) id acc (sel x)) = .error e) : Good e := by
  rcases bind_err _ _ _ h with h1 | ⟨_, _, h2⟩
  · exact checkNames_err env _ e h1
  · exact appendNew_good _ id _ _ e h2

private theorem extendTypeX_err (env envX : Env) (hide : Option String) (exts : List TypeDef) (t : TypeD) (e : Err) (h : extendTypeX env envX hide exts t = .error e) : Good e := by
  unfold extendTypeX at h
  simp only [] at h
  rcases bind_err _ _ _ h with h1 | ⟨_, _, h2⟩
  · rw [failIf_err _ _ _ h1]; exact good_lib _
  · split at h2
    · simp [pure, Except.pure] at h2
    · rcases bind_err _ _ _ h2 with h3 | ⟨_, _, h4⟩
      · exact foldlM_err _ (fun acc x e h => mergeStep_err (buildFieldX env envX hide) (buildFieldX_err env envX hide) (·.name) (·.fields) acc x e h) _ _ e h3
      · rcases bind_err _ _ _ h4 with h5 | ⟨_, _, h6⟩
        · exact foldlM_err _ (fun acc x e h => namesStep_err env (·.interfaces) acc x e h) _ _ e h5
        · simp [pure, Except.pure] at h6
    · rcases bind_err _ _ _ h2 with h3 | ⟨_, _, h4⟩
      · exact foldlM_err _ (fun acc x e h => mergeStep_err (buildFieldX env envX hide) (buildFieldX_err env envX hide) (·.name) (·.fields) acc x e h) _ _ e h3
      · simp [pure, Except.pure] at h4
    · rcases bind_err _ _ _ h2 with h3 | ⟨_, _, h4⟩
      · exact foldlM_err _ (fun acc x e h => namesStep_err env (·.members) acc x e h) _ _ e h3
      · simp [pure, Except.pure] at h4
    · rcases bind_err _ _ _ h2 with h3 | ⟨_, _, h4⟩
      · exact foldlM_err _ (fun acc x e h => mergeStep_err buildEnumValue buildEnumValue_err (·.name) (·.values) acc x e h) _ _ e h3
      · simp [pure, Except.pure] at h4
    · rcases bind_err _ _ _ h2 with h3 | ⟨_, _, h4⟩
      · exact foldlM_err _ (fun acc x e h => mergeStep_err (buildArgumentX env envX hide) (buildArgumentX_err env envX hide) (·.name) (·.inputFields) acc x e h) _ _ e h3
      · simp [pure, Except.pure] at h4

private theorem reDefault_err (env envX : Env) (hide : Option String) (X : List TypeDef) (t : TypeD) (e : Err) (h : reDefault env envX hide X t = .error e) : Good e := by
  unfold reDefault at h
  split at h
  · exact buildTypeDefX_err env envX hide _ e h
  · simp [pure, Except.pure] at h

private theorem reDefaultDirective_err (env envX : Env) (doc : Doc) (d : DirectiveD) (e : Err)
    (h : reDefaultDirective env envX doc d = .error e) : Good e := by
  unfold reDefaultDirective at h
  split at h
  · exact buildDirectiveX_err env envX _ e h
  · simp [pure, Except.pure] at h

private theorem extendSchema_err (env : Env) (live : Live) (doc : Doc) (add : List TypeD) (e : Err) (h : extendSchema env live doc add = .error e) : Good e := by
  unfold extendSchema at h
  simp only [] at h
  split at h
  · simp [pure, Except.pure] at h
  · rcases bind_err _ _ _ h with h0 | ⟨_, _, h'⟩
    · rw [failIf_err _ _ _ h0]; exact good_lib _
    · rcases bind_err _ _ _ h' with h1 | ⟨_, _, h2⟩
      · exact mapM_err _ (fun t e h => extendTypeX_err env _ _ _ t e h) _ e h1
      · rcases bind_err _ _ _ h2 with h1' | ⟨_, _, h2'⟩
        · exact mapM_err _ (fun t e h => reDefault_err env _ _ _ t e h) _ e h1'
        · rcases bind_err _ _ _ h2' with h1'' | ⟨_, _, h2''⟩
          · exact mapM_err _ (reDefaultDirective_err env _ _) _ e h1''
          · rcases bind_err _ _ _ h2'' with h3 | ⟨_, _, h4⟩
            · rw [failIf_err _ _ _ h3]; exact good_lib _
            · rcases bind_err _ _ _ h4 with h5 | ⟨_, _, h6⟩
              · exact foldlM_err _ (fun acc x e h => addOps_err _ _ _ _ e h) _ _ e h5
              · simp [pure, Except.pure] at h6

/-- **build_rejects**: whatever the document, the flags and the supplied types, if the builder does not return a
    schema it fails with `SDLError`, `ExtensionError` or `SchemaError` — or with the `RecursionError` of finding
    S1b (an object-literal default that needs the field list of the input type being built). No function of the
    model has another failure branch (`ValueError`, `CoercionError`, `InvalidValue`, `TypeError`, `KeyError` …
    are gone with fix C11-S1). -/
theorem build_rejects (doc : Doc) (ie : Bool) (add : List TypeD) (e : Err) (h : build doc ie add = .error e) :
    (∃ l, e = .lib l) ∨ e = .internal "RecursionError" := by
  unfold build at h
  rcases bind_err _ _ _ h with h1 | ⟨⟨env, live⟩, _, h2⟩
  · unfold buildIgnoringExtensions at h1
    rcases bind_err _ _ _ h1 with h3 | ⟨c, _, h4⟩
    · rw [collect_rejects_sdl doc e h3]; exact good_lib _
    · exact buildCollected_err c add e h4
  · simp only [] at h2
    split at h2
    · simp [pure, Except.pure] at h2
    · rcases bind_err _ _ _ h2 with h5 | ⟨_, _, h6⟩
      · exact extendSchema_err env live doc add e h5
      · simp [pure, Except.pure] at h6

/-! ### the refined model of `additional_types` (PyGqlModel/SdlAdditional.lean) has the same rejection classes -/

private theorem buildCollectedA_err (c : Collected) (add : List TypeD) (e : Err) (h : buildCollectedA c add = .error e) : Good e := by
  unfold buildCollectedA at h
  simp only [] at h
  rcases bind_err _ _ _ h with h1 | ⟨_, _, h2⟩
  · rw [failIf_err _ _ _ h1]; exact good_rec
  · rcases bind_err _ _ _ h2 with h3 | ⟨_, _, h4⟩
    · exact mapM_err _ (buildDirective_err _) _ e h3
    · rcases bind_err _ _ _ h4 with h5 | ⟨_, _, h6⟩
      · exact mapM_err _ (buildType_err _) _ e h5
      · rcases bind_err _ _ _ h6 with h7 | ⟨_, _, h8⟩
        · rw [failIf_err _ _ _ h7]; exact good_lib _
        · rcases bind_err _ _ _ h8 with h9 | ⟨_, _, h10⟩
          · exact buildRoots_err _ _ _ e h9
          · rcases bind_err _ _ _ h10 with h11 | ⟨_, _, h12⟩
            · rw [failIf_err _ _ _ h11]; exact good_lib _
            · rcases bind_err _ _ _ h12 with h13 | ⟨_, _, h14⟩
              · rw [failIf_err _ _ _ h13]; exact good_lib _
              · simp [pure, Except.pure] at h14

private theorem extendSchemaA_err (env : Env) (live : Live) (doc : Doc) (add : List TypeD) (e : Err) (h : extendSchemaA env live doc add = .error e) : Good e := by
  unfold extendSchemaA at h
  simp only [] at h
  split at h
  · simp [pure, Except.pure] at h
  · rcases bind_err _ _ _ h with h0 | ⟨_, _, h'⟩
    · rw [failIf_err _ _ _ h0]; exact good_lib _
    · rcases bind_err _ _ _ h' with h1 | ⟨_, _, h2⟩
      · exact mapM_err _ (fun t e h => extendTypeX_err env _ _ _ t e h) _ e h1
      · rcases bind_err _ _ _ h2 with h1' | ⟨_, _, h2'⟩
        · exact mapM_err _ (fun t e h => reDefault_err env _ _ _ t e h) _ e h1'
        · rcases bind_err _ _ _ h2' with h1'' | ⟨_, _, h2''⟩
          · exact mapM_err _ (reDefaultDirective_err env _ _) _ e h1''
          · rcases bind_err _ _ _ h2'' with h3 | ⟨_, _, h4⟩
            · rw [failIf_err _ _ _ h3]; exact good_lib _
            · rcases bind_err _ _ _ h4 with h5 | ⟨_, _, h6⟩
              · exact foldlM_err _ (fun acc x e h => addOps_err _ _ _ _ e h) _ _ e h5
              · rcases bind_err _ _ _ h6 with h7 | ⟨_, _, h8⟩
                · rw [failIf_err _ _ _ h7]; exact good_lib _
                · simp [pure, Except.pure] at h8

/-- **build_rejects for the refined model of `additional_types`** (`buildA`: same-name supplied types, transitive
    registry closure, supplied types shadowing specified ones, extended supplied enums / input objects): whatever the
    document, the flags and the supplied types, a rejection is `SDLError`, `ExtensionError`, `SchemaError` or the
    `RecursionError` of finding S1b. -/
theorem buildA_rejects (doc : Doc) (ie : Bool) (add : List TypeD) (e : Err) (h : buildA doc ie add = .error e) :
    (∃ l, e = .lib l) ∨ e = .internal "RecursionError" := by
  unfold buildA at h
  simp only [] at h
  rcases bind_err _ _ _ h with h3 | ⟨c, _, h4⟩
  · rw [collect_rejects_sdl doc e h3]; exact good_lib _
  · rcases bind_err _ _ _ h4 with h1 | ⟨⟨env, live⟩, _, h2⟩
    · exact buildCollectedA_err c _ e h1
    · simp only [] at h2
      split at h2
      · simp [pure, Except.pure] at h2
      · rcases bind_err _ _ _ h2 with h5 | ⟨_, _, h6⟩
        · exact extendSchemaA_err env live doc _ e h5
        · simp [pure, Except.pure] at h6

/-- … and so has the model with the builder's real in-progress bookkeeping (`buildP`, PyGqlModel/SdlInProgress.lean) -/
theorem buildP_rejects (doc : Doc) (ie : Bool) (add : List TypeD) (e : Err) (h : buildP doc ie add = .error e) :
    (∃ l, e = .lib l) ∨ e = .internal "RecursionError" := by
  unfold buildP at h
  simp only [] at h
  rcases bind_err _ _ _ h with h3 | ⟨c, _, h4⟩
  · rw [collect_rejects_sdl doc e h3]; exact good_lib _
  · rcases bind_err _ _ _ h4 with h1 | ⟨⟨env, live⟩, _, h2⟩
    · exact buildCollectedA_err c _ e h1
    · simp only [] at h2
      split at h2
      · simp [pure, Except.pure] at h2
      · rcases bind_err _ _ _ h2 with h5 | ⟨_, _, h6⟩
        · exact extendSchemaA_err _ _ _ _ e h5
        · split at h6
          · simp only [sdlErr] at h6; cases h6; exact good_lib _
          · simp [pure, Except.pure] at h6

/-- `input A { a: A = {a: null} }  type Query { f(a: A): Int }` (finding S1b) -/
def s1bDoc : Doc := [
  .type { kind := .input, name := "A", inputFields := [{ name := "a", type := .named "A", default := some (.obj [("a", .null)]) }] },
  .type { kind := .object, name := "Query", fields := [{ name := "f", type := .named "Int", args := [{ name := "a", type := .named "A" }] }] }]

/-- …and the second disjunct of `build_rejects` is needed: the full statement ("library errors only") is FALSE
    on the fixed code — replay: corpus/C11 `S1b-self-default`. -/
theorem build_rejects_full_refuted : ¬ BuildRejectsStatement := by
  intro h
  have hb : (match build s1bDoc with | .error (.internal "RecursionError") => true | _ => false) = true := by decide
  cases hr : build s1bDoc with
  | ok s => rw [hr] at hb; simp at hb
  | error e =>
    obtain ⟨l, hl⟩ := h s1bDoc false [] e hr
    subst hl
    rw [hr] at hb
    simp at hb

/-! ### the public `extend_schema(schema, document, strict)` (model: PyGqlModel/SdlExtend.lean) -/

theorem collectExtStep_err (ht hd : String → Bool) (strict : Bool) (acc : ExtCollected) (d : Def) (e : Err)
    (h : collectExtStep ht hd strict acc d = .error e) : e = .lib .ext := by
  cases d <;> simp only [collectExtStep, extErr, pure, Except.pure] at h
  all_goals (repeat' (split at h))
  all_goals (cases h <;> rfl)

theorem filterTargets_err (ht : String → Bool) (strict : Bool) (nd : List TypeDef) : ∀ (es : List TypeDef) (e : Err),
    filterTargets ht strict nd es = .error e → e = .lib .ext := by
  intro es
  induction es with
  | nil => intro e h; simp [filterTargets, pure, Except.pure] at h
  | cons x xs ih =>
    intro e h
    simp only [filterTargets] at h
    split at h
    · rcases bind_err _ _ _ h with h1 | ⟨_, _, h2⟩
      · exact ih e h1
      · simp [pure, Except.pure] at h2
    · split at h
      · simp [extErr] at h; exact h.symm
      · exact ih e h

private theorem foldlM_ext {α β} (f : β → α → R β) (hf : ∀ acc x e, f acc x = .error e → e = .lib .ext) :
    ∀ (l : List α) (acc : β) (e : Err), l.foldlM f acc = .error e → e = .lib .ext := by
  intro l
  induction l with
  | nil => intro acc e h; simp [List.foldlM, pure, Except.pure] at h
  | cons x xs ih =>
    intro acc e h
    rw [List.foldlM_cons] at h
    rcases bind_err _ _ _ h with h1 | ⟨_, _, h2⟩
    · exact hf _ _ e h1
    · exact ih _ e h2

/-- **`_collect_extensions` fails with `ExtensionError` only** — whatever the schema, the document and `strict` -/
theorem collectExtensions_rejects (live : Live) (doc : Doc) (strict : Bool) (e : Err)
    (h : collectExtensions live doc strict = .error e) : e = .lib .ext := by
  unfold collectExtensions at h
  rcases bind_err _ _ _ h with h1 | ⟨_, _, h2⟩
  · exact foldlM_ext _ (fun acc x e h => collectExtStep_err _ _ _ acc x e h) _ _ e h1
  · rcases bind_err _ _ _ h2 with h3 | ⟨_, _, h4⟩
    · exact filterTargets_err _ _ _ _ e h3
    · simp [pure, Except.pure] at h4

private theorem reDefaultDirectiveIn_err (env envX : Env) (defs : List DirDef) (d : DirectiveD) (e : Err)
    (h : reDefaultDirectiveIn env envX defs d = .error e) : Good e := by
  unfold reDefaultDirectiveIn at h
  split at h
  · exact buildDirectiveX_err env envX _ e h
  · simp [pure, Except.pure] at h

/-- **extend_rejects**: whatever the schema (built from SDL), the extension document and `strict`, if the public
    `extend_schema` does not return a schema it fails with `SDLError`, `ExtensionError` or `SchemaError` — or with the
    `RecursionError` of finding S1b.  No other branch. -/
theorem extend_rejects (baseDefs : List TypeDef) (baseDirs : List DirDef) (live : Live) (doc : Doc) (strict : Bool) (e : Err)
    (h : extendSchemaPublic baseDefs baseDirs live doc strict = .error e) : Good e := by
  unfold extendSchemaPublic at h
  rcases bind_err _ _ _ h with h0 | ⟨c, _, h⟩
  · rw [collectExtensions_rejects _ _ _ e h0]; exact good_lib _
  · simp only [] at h
    split at h
    · simp [pure, Except.pure] at h
    · rcases bind_err _ _ _ h with h1 | ⟨_, _, h⟩
      · exact mapM_err _ (reDefaultDirectiveIn_err _ _ _) _ e h1
      · rcases bind_err _ _ _ h with h1 | ⟨_, _, h⟩
        · exact mapM_err _ (buildDirectiveX_err _ _) _ e h1
        · rcases bind_err _ _ _ h with h1 | ⟨_, _, h⟩
          · rw [failIf_err _ _ _ h1]; exact good_lib _
          · rcases bind_err _ _ _ h with h1 | ⟨_, _, h⟩
            · exact mapM_err _ (fun t e h => extendTypeX_err _ _ _ _ t e h) _ e h1
            · rcases bind_err _ _ _ h with h1 | ⟨_, _, h⟩
              · exact mapM_err _ (fun t e h => reDefault_err _ _ _ _ t e h) _ e h1
              · rcases bind_err _ _ _ h with h1 | ⟨_, _, h⟩
                · exact mapM_err _ (fun d e h => buildTypeDefX_err _ _ _ d e h) _ e h1
                · rcases bind_err _ _ _ h with h1 | ⟨_, _, h⟩
                  · exact mapM_err _ (fun t e h => extendTypeX_err _ _ _ _ t e h) _ e h1
                  · rcases bind_err _ _ _ h with h1 | ⟨_, _, h⟩
                    · exact mapM_err _ (fun t e h => reDefault_err _ _ _ _ t e h) _ e h1
                    · rcases bind_err _ _ _ h with h1 | ⟨_, _, h⟩
                      · rw [failIf_err _ _ _ h1]; exact good_lib _
                      · rcases bind_err _ _ _ h with h1 | ⟨_, _, h⟩
                        · exact foldlM_err _ (fun acc x e h => addOps_err _ _ _ _ e h) _ _ e h1
                        · rcases bind_err _ _ _ h with h1 | ⟨_, _, h⟩
                          · rw [failIf_err _ _ _ h1]; exact good_lib _
                          · simp [pure, Except.pure] at h

end PyGql.Props.C11

/-
  C11 — defaults completed while types are "in progress" (hunt4 C11-1, known finding C11/H4-1; residue (b) of S8).

  `_extend_input_field` completes the default of a field while the input type that owns it is being extended.  When the
  completion reaches that type again — here through an ABSENT, undefaulted field of the value's type, whose lazy type
  `_completed_input_value` forces only to ask whether it is non-null — `extend_type` raises "circular reference", and
  `_extended_default_value` keeps the value computed before the extensions.  The by-name model has this behaviour
  (`touches` / `needsHidden`); the exactness theorems exclude it with the premise `SelfDefaults`.

  * `mutual_default_not_completed`: a document that satisfies every rule of the specification, `BaseDefaults` and
    `noThunkCycle`, BUILDS, and the schema is NOT its declared content: `Other.x` keeps `{a: 3}`, the declared content has
    `{a: 3, added: 7}`.  (`residue_necessary` shows `SelfDefaults` necessary with a document that is REFUSED; this one is
    accepted with a stale value.)
  * `mutual_required_accepted`: the same with `extend input In { req: Int! }`: the document declares nothing (its
    default `{a: 3}` is not a value of the extended `In`) and is accepted.
-/
import PyGqlModel.Props.C11_extend
import PyGqlModel.SdlInProgress

set_option linter.unusedVariables false
set_option linter.unusedSimpArgs false

namespace PyGql.Props.C11
open PyGql PyGql.Sdl PyGql.SdlSpec

private def hBase (ext : InputValDef) : Doc := [
  .type { kind := .input, name := "In", inputFields := [{ name := "a", type := .named "String" }, { name := "other", type := .named "Other" }] },
  .type { kind := .input, name := "Other", inputFields := [{ name := "x", type := .named "In", default := some (.obj [("a", .str "3")]) }] },
  .type { kind := .object, name := "Query", fields := [{ name := "f", type := .named "String", args := [{ name := "o", type := .named "Other" }] }] },
  .ext { kind := .input, name := "In", inputFields := [ext] }]

/-- `input In { a: String other: Other }  input Other { x: In = {a: "3"} }  type Query { f(o: Other): String }
    extend input In { added: String = "7" }` (strings: `String.toInt?` does not reduce under `decide`) -/
def h4ADoc : Doc := hBase { name := "added", type := .named "String", default := some (.str "7") }
/-- … `extend input In { req: String! }` -/
def h4BDoc : Doc := hBase { name := "req", type := .nonNull (.named "String") }

/-- the default of `Other.x` in a schema -/
def otherX (s : SchemaD) : Option J :=
  (s.types.find? (·.name == "Other")).bind fun t => (t.inputFields.find? (·.name == "x")).map (·.default)

def isA3 : Option J → Bool
  | some (.obj [("a", .str "3")]) => true
  | _ => false
def isA3Added7 : Option J → Bool
  | some (.obj [("a", .str "3"), ("added", .str "7")]) => true
  | _ => false

private theorem a3_excl (x : Option J) (h1 : isA3 x = true) (h2 : isA3Added7 x = true) : False := by
  unfold isA3 at h1
  unfold isA3Added7 at h2
  split at h1 <;> split at h2 <;> simp_all

theorem h4ADeclares : (Declared h4ADoc).isSome = true := by decide

set_option maxRecDepth 4000 in
theorem h4A_rules : SdlRules h4ADoc ((Declared h4ADoc).get h4ADeclares) :=
  { valid := { uniqueTypes := by decide, uniqueDirectives := by decide, oneSchema := by decide, extTargets := by decide,
               noBuiltinNames := by decide, declares := by decide, mergedMembersUnique := by decide },
    declares := by simp, kinds := ⟨by decide, by decide, by decide⟩, noSpecified := by decide,
    schemaOps := by decide, extOps := by decide, extOpsNew := by decide }

/-- **hunt4 C11-1 (A)**: every rule of the specification, `BaseDefaults`, no thunk cycle — the document builds, and the
    default of `Other.x` is the value over the types BEFORE extension, not the declared one. -/
theorem mutual_default_not_completed :
    (∃ d, SdlRules h4ADoc d ∧ BaseDefaults h4ADoc ∧ hasThunkCycle (Env.of (typeDefs h4ADoc)) (typeDefs h4ADoc) = false) ∧
    (match build h4ADoc with | .ok s => isA3 (otherX s) | .error _ => false) = true ∧
    (match Declared h4ADoc with | some d => isA3Added7 (otherX d) | none => false) = true :=
  ⟨⟨_, h4A_rules, baseDefaults_of_B _ (by decide), by decide⟩, by decide, by decide⟩

/-- so `SelfDefaults` fails for it (it is the premise of `build_exact_spec` that excludes the shape) -/
theorem h4A_not_selfDefaults : ¬ SelfDefaults h4ADoc := by
  intro hs
  have x : Residue h4ADoc := { baseDefaults := baseDefaults_of_B _ (by decide), selfDefaults := hs, noThunkCycle := by decide }
  obtain ⟨s, d', hb, hd, _, _, _, htypes, _⟩ := build_exact_spec h4ADoc _ h4A_rules x
  have h1 : (match build h4ADoc with | .ok s => s.types.all (fun t => t.name != "Other" || isA3 ((t.inputFields.find? (·.name == "x")).map (·.default))) | .error _ => false) = true := by decide
  have h2 : (match Declared h4ADoc with | some d => d.types.any (fun t => t.name == "Other" && isA3Added7 ((t.inputFields.find? (·.name == "x")).map (·.default))) | none => false) = true := by decide
  rw [hb] at h1
  rw [hd] at h2
  simp only [List.all_eq_true, List.any_eq_true, Bool.and_eq_true] at h1 h2
  obtain ⟨t, ht, hn, hv⟩ := h2
  have := h1 t ((htypes t).mpr ht)
  simp only [Bool.or_eq_true, bne_iff_ne, ne_eq] at this
  rcases this with h' | h'
  · exact h' (by simpa using hn)
  · exact a3_excl _ h' hv

/-- **hunt4 C11-1 (B)**: the default `{a: 3}` lacks the required field the extension adds — the document declares no
    content (`SdlValid.declares` fails: it is INVALID) — and the builder accepts it. -/
theorem mutual_required_accepted : Declared h4BDoc = none ∧ (build h4BDoc).toBool = true := by decide

/-! ### the exact model `buildP` (SdlInProgress.lean) and the model of the theorems -/

/-- with `ignore_extensions=True` the two models are the same function -/
theorem buildP_ignoreExtensions (doc : Doc) (add : List TypeD) : buildP doc true add = buildA doc true add := by
  unfold buildP buildA
  simp only [Bool.true_or, if_true]

/-- … and on a document none of whose extension blocks is kept (no `extend` of a known type, no `extend schema`) both
    return the schema built from the definitions: the in-progress bookkeeping only concerns the extension pass -/
theorem buildP_noext (doc : Doc) (add : List TypeD) (hx : typeExts doc = []) (hsx : schemaExtensions doc = []) :
    buildP doc false add = buildA doc false add := by
  have hext : ∀ live, typeExtensions live doc = [] := by
    intro live
    rw [typeExtensions_eq_filter, hx]; rfl
  unfold buildP buildA
  simp only [hext, hsx, List.isEmpty_nil, Bool.and_self, Bool.or_true, Bool.false_or, if_true, Bool.false_eq_true, if_false]
  cases collectDefinitions doc with
  | error e => rfl
  | ok c =>
    simp only [bind, Except.bind]
    cases buildCollectedA c (normAdditional add) with
    | error e => rfl
    | ok p =>
      obtain ⟨env, live⟩ := p
      simp only [extendSchemaA, hext, hsx, List.isEmpty_nil, Bool.and_self, if_true, pure, Except.pure]

/-- the exact model on hunt4 C11-1: the same verdicts as the model of the theorems (and as the code) -/
theorem buildP_h4 :
    (match buildP h4ADoc with | .ok s => isA3 (otherX s) | .error _ => false) = true ∧ (buildP h4BDoc).toBool = true := by decide

end PyGql.Props.C11

/-
  C07 — property theorems, part 4b: literal / variable equivalence with the custom-scalar hypothesis restricted to
  EXACTLY the custom-scalar positions a value of the type can reach (`Reach reg ty`), and the unconditional corollaries:
  schemas (or just types) without custom scalars need no hypothesis at all — the five built-in scalars, enums, lists and
  (recursive) input objects agree on the two routes by proof.
-/
import PyGqlModel.Props.C07_equiv

set_option linter.unusedSimpArgs false
set_option linter.unusedVariables false

namespace PyGql.Props.C07
open PyGql PyGql.Coerce PyGql.Generated.Scalars

/-- the positions of `ty` are closed under "field of an input object" -/
theorem reach_inputClosed (reg : Reg) (ty : Ty) : InputClosed reg (Reach reg ty) :=
  fun _ _ _ hn hk hf => .field hn hk hf

/-- **literal_variable_equiv_at.** As `literal_variable_equiv`, but the only thing assumed is that the two parsers of the custom
    scalars that OCCUR AS POSITIONS of `ty` (its base type, the types of the fields of its input objects, transitively) agree.
    Custom scalars elsewhere in the schema are irrelevant. -/
theorem literal_variable_equiv_at (reg : Reg) (ty : Ty) (hagree : CustomAgreeOn reg (Reach reg ty))
    (vars : Option (List (String × PV))) (fuel : Nat) (j : JV) (l : Lit) (h : AstOfJson reg ty j l) :
    (valueFromAst reg vars fuel ty l).toOption = (coerceValue reg fuel ty j).toOption :=
  literal_variable_equiv_on reg (Reach reg ty) (reach_inputClosed reg ty) hagree vars fuel ty j l .base h

/-- no custom scalar is a position of `ty` -/
def NoCustomAt (reg : Reg) (ty : Ty) : Prop := ∀ n, Reach reg ty n → reg.get? n ≠ some .custom

/-- **literal_variable_equiv_builtin.** UNCONDITIONAL for every type whose positions are built-in scalars, enums and input
    objects only: inline and through a variable give the same outcome for every value of the natural kind. -/
theorem literal_variable_equiv_builtin (reg : Reg) (ty : Ty) (hno : NoCustomAt reg ty)
    (vars : Option (List (String × PV))) (fuel : Nat) (j : JV) (l : Lit) (h : AstOfJson reg ty j l) :
    (valueFromAst reg vars fuel ty l).toOption = (coerceValue reg fuel ty j).toOption :=
  literal_variable_equiv_at reg ty (fun n _ _ _ hS hk _ => absurd hk (hno n hS)) vars fuel j l h

/-- **literal_variable_equiv_no_custom.** UNCONDITIONAL for every schema without custom scalars, at every type. -/
theorem literal_variable_equiv_no_custom (reg : Reg) (hno : ∀ n, reg.get? n ≠ some .custom)
    (vars : Option (List (String × PV))) (fuel : Nat) (ty : Ty) (j : JV) (l : Lit) (h : AstOfJson reg ty j l) :
    (valueFromAst reg vars fuel ty l).toOption = (coerceValue reg fuel ty j).toOption :=
  literal_variable_equiv_builtin reg ty (fun n _ => hno n) vars fuel j l h

/-- `literal_variable_equiv_partial` with the hypothesis at exactly the custom-scalar positions of `ty` -/
theorem literal_variable_equiv_partial_at (reg : Reg) (ty : Ty) (hagree : CustomAgreeOn reg (Reach reg ty))
    (vars : Option (List (String × PV))) (fuel : Nat) (j : JV) (hnat : NaturalKind reg ty j) :
    ∃ l, AstOfJson reg ty j l ∧ (valueFromAst reg vars fuel ty l).toOption = (coerceValue reg fuel ty j).toOption := by
  obtain ⟨l, hl⟩ := hnat
  exact ⟨l, hl, literal_variable_equiv_at reg ty hagree vars fuel j l hl⟩

/-- the only position of a named type that is not an input object is the type itself -/
private theorem reach_leaf {reg : Reg} {n : String} (hleaf : ∀ fs, reg.get? n ≠ some (.input fs)) :
    ∀ m, Reach reg (.named n) m → m = n := by
  intro m h
  induction h with
  | base => rfl
  | field _ hk _ ih => subst ih; exact absurd hk (hleaf _)

/-- **builtin_scalars_agree.** The five specified scalars and enums: `parse_literal` on the literal spelling and `parse` on the
    JSON value of the natural kind have the same outcome, whatever else the schema contains — no hypothesis on custom scalars. -/
theorem builtin_scalars_agree (reg : Reg) (n : String) (k : NamedT) (hk : reg.get? n = some k)
    (hb : k = .int ∨ k = .float ∨ k = .string ∨ k = .boolean ∨ k = .id ∨ ∃ vs, k = .enum vs)
    (vars : Option (List (String × PV))) (fuel : Nat) (j : JV) (l : Lit) (h : AstOfJson reg (.named n) j l) :
    (valueFromAst reg vars fuel (.named n) l).toOption = (coerceValue reg fuel (.named n) j).toOption := by
  apply literal_variable_equiv_builtin reg (.named n) _ vars fuel j l h
  intro m hm
  have hleaf : ∀ fs, reg.get? n ≠ some (.input fs) := by
    intro fs hfs
    rw [hk] at hfs
    rcases hb with rfl | rfl | rfl | rfl | rfl | ⟨vs, rfl⟩ <;> cases hfs
  have := reach_leaf hleaf m hm
  subst this
  rw [hk]
  rcases hb with rfl | rfl | rfl | rfl | rfl | ⟨vs, rfl⟩ <;> simp

/-! ### non-vacuity: a schema WITH a disagreeing custom scalar (`default_scalar` "Any": `5` inline is the text "5", through a
    variable the int 5 — `¬ CustomAgree`, C07_examples) still gets the equivalence at every type that does not reach it -/

private def regMixed : Reg := Reg.ofTypes
  [("Int", .int), ("String", .string), ("Any", .custom), ("E", .enum [("RED", .int 0)]),
   ("P", .input [⟨"n", "n_py", .nonNull (.named "Int"), none⟩, ⟨"e", "e", .list (.named "E"), none⟩, ⟨"next", "next", .named "P", none⟩])]

private theorem regMixed_not_agree : ¬ CustomAgree regMixed := by
  intro h
  have := h "Any" [] (.int 5) (.int 5) rfl .int
  simp [regMixed, Reg.ofTypes, defaultScalarParse, defaultScalarParseLiteral, untypedLiteral, ParseOut.toR, Except.toOption, pvOfJson, jvAllFinite] at this

private theorem regMixed_reach_P : ∀ m, Reach regMixed (.named "P") m → m = "P" ∨ m = "Int" ∨ m = "E" := by
  intro m h
  induction h with
  | base => exact .inl rfl
  | field _ hk hf ih =>
    rcases ih with rfl | rfl | rfl
    · simp [regMixed, Reg.ofTypes, Reg.get?, List.find?] at hk
      subst hk
      simp at hf
      rcases hf with rfl | rfl | rfl <;> simp [Ty.base]
    · simp [regMixed, Reg.ofTypes, Reg.get?, List.find?] at hk
    · simp [regMixed, Reg.ofTypes, Reg.get?, List.find?] at hk

/-- the recursive input object `P` of `regMixed` reaches no custom scalar although the schema has one that disagrees -/
example : NoCustomAt regMixed (.named "P") := by
  intro m hm
  rcases regMixed_reach_P m hm with rfl | rfl | rfl <;> simp [regMixed, Reg.ofTypes, Reg.get?, List.find?]

example : ¬ CustomAgree regMixed := regMixed_not_agree

/-- a non-trivial spelling at `P` (nested object, enum in a single-value list position) -/
example : AstOfJson regMixed (.named "P")
    (.obj [("n", .int 3), ("e", .str "RED"), ("next", .obj [("n", .int 4)])])
    (.obj [("n", .int 3), ("e", .enum "RED"), ("next", .obj [("n", .int 4)])]) := by
  refine .obj (fs := _) rfl ?_
  refine .cons ?_ (.cons ?_ (.cons ?_ .nil))
  · intro f hf hn
    simp at hf
    rcases hf with rfl | rfl | rfl <;> simp at hn
    exact .nonNull rfl (.intInt rfl)
  · intro f hf hn
    simp at hf
    rcases hf with rfl | rfl | rfl <;> simp at hn
    exact .single (by intro js h; cases h) (.enum rfl)
  · intro f hf hn
    simp at hf
    rcases hf with rfl | rfl | rfl <;> simp at hn
    refine .obj (fs := _) rfl (.cons ?_ .nil)
    intro f hf hn
    simp at hf
    rcases hf with rfl | rfl | rfl <;> simp at hn
    exact .nonNull rfl (.intInt rfl)

end PyGql.Props.C07

/-
  C07 — property theorems, part 2: variable definitions, argument assembly, omission, wrapping,
  the Int range, and the rejection classes.
-/
import PyGqlModel.Props.C07

set_option linter.unusedSimpArgs false
set_option linter.unusedVariables false

namespace PyGql.Props.C07
open PyGql PyGql.Coerce PyGql.Generated.Scalars

/-! ### coerce_variable_values -/

private theorem coerceVariable_sound {reg : Reg} (hreg : RegOK reg) {fuel : Nat} {variables : List (String × JV)}
    {d : VarDef} {pv : PV} (hwf : d.type.wf = true)
    (h : coerceVariable reg fuel variables d = .ok (some pv)) : Conforms reg d.type pv := by
  unfold coerceVariable at h
  split at h
  · cases h
  · split at h
    · split at h
      · split at h
        · cases h
        · rename_i pv' hpv
          cases h
          exact literal_sound hreg none fuel d.type _ _ hwf (.inl rfl) hpv
      · split at h <;> cases h
    · split at h
      · cases h
      · split at h
        · cases h
        · cases h
        · rename_i pv' hpv
          cases h
          exact variable_sound hreg fuel d.type _ _ hwf hpv

/-- **variables_sound.** Every coerced variable value conforms to the type its definition declares
    (provided JSON value, or the definition's default literal when the variable is absent). -/
theorem variables_sound {reg : Reg} (hreg : RegOK reg) (fuel : Nat) (variables : List (String × JV)) :
    ∀ (defs : List VarDef) (env : List (String × PV)), (∀ d, d ∈ defs → d.type.wf = true) →
      coerceVariableValues reg fuel variables defs = .ok env →
      ∀ p, p ∈ env → ∃ d, d ∈ defs ∧ d.name = p.1 ∧ Conforms reg d.type p.2 := by
  intro defs
  induction defs with
  | nil => intro env _ h p hp; simp [coerceVariableValues] at h; subst h; cases hp
  | cons d ds ih =>
    intro env hwf h p hp
    simp only [coerceVariableValues] at h
    split at h
    · split at h <;> cases h
    · cases h
    · rename_i o ho
      split at h
      · cases h
      · rename_i r hr
        have ih' := ih r (fun d' hd' => hwf d' (List.mem_cons_of_mem _ hd')) hr
        split at h
        · rename_i pv
          cases h
          cases hp with
          | head => exact ⟨d, List.mem_cons_self, rfl, coerceVariable_sound hreg (hwf d List.mem_cons_self) ho⟩
          | tail _ hm =>
            obtain ⟨d', hd', h1, h2⟩ := ih' p hm
            exact ⟨d', List.mem_cons_of_mem _ hd', h1, h2⟩
        · cases h
          obtain ⟨d', hd', h1, h2⟩ := ih' p hp
          exact ⟨d', List.mem_cons_of_mem _ hd', h1, h2⟩

/-! ### coerce_argument_values -/

private theorem coerceArg_sound {reg : Reg} (hreg : RegOK reg) {fuel : Nat} {vars : List (String × PV)}
    {args : List (String × Lit)} {d : InField} (hwf : d.type.wf = true)
    (hdef : ∀ v, d.default = some v → Conforms reg d.type v)
    (hfit : ∀ l, lookupLast d.name args = some l → VarsFit reg (some vars) d.type l) :
    ∀ o, coerceArg reg fuel vars args d = .ok o →
      match o with
      | some pv => Conforms reg d.type pv
      | none => d.default = none ∧ d.type.isNonNull = false := by
  intro o h
  unfold coerceArg at h
  split at h
  · -- argument not supplied
    split at h
    · rename_i v hv; cases h; exact hdef v hv
    · rename_i hv
      split at h
      · cases h
      · rename_i hnn; cases h; exact ⟨hv, by simpa using hnn⟩
  · -- argument bound to a variable
    rename_i x hx
    split at h
    · rename_i v hv
      split at h
      · cases h
      · rename_i hc
        cases h
        have hx' : extractVariable (some vars) d.type x = .ok v := by
          simp only [extractVariable, hv]
          have : (d.type.isNonNull && v.isNone) = false := by
            cases h1 : d.type.isNonNull <;> cases h2 : v.isNone <;> simp_all
          simp [this]
        exact literal_sound hreg (some vars) 1 d.type (.var x) v hwf (.inr (hfit _ hx)) (by simpa [valueFromAst] using hx')
    · split at h
      · rename_i v hv; cases h; exact hdef v hv
      · rename_i hv
        split at h
        · cases h
        · rename_i hnn; cases h; exact ⟨hv, by simpa using hnn⟩
  · -- argument given as a literal
    rename_i l hnv hl
    split at h
    · cases h
    · rename_i pv hpv
      cases h
      exact literal_sound hreg (some vars) fuel d.type l pv hwf (.inr (hfit _ hl)) hpv

/-- **arguments_sound.** The keyword arguments assembled for a resolver conform to the field's argument
    definitions: in definition order, keyed by python names, each supplied / defaulted value conforming to the
    argument's type, an argument absent only if it has no default and a nullable type — whether it was given
    inline, through a variable, or inside a list / object literal. -/
theorem arguments_sound {reg : Reg} (hreg : RegOK reg) (fuel : Nat) (vars : List (String × PV)) (args : List (String × Lit)) :
    ∀ (defs : List InField) (kw : List (String × PV)), ArgsOK reg defs →
      (∀ d, d ∈ defs → ∀ l, lookupLast d.name args = some l → VarsFit reg (some vars) d.type l) →
      coerceArgumentValues reg fuel vars args defs = .ok kw → ConformsFields reg defs kw := by
  intro defs
  induction defs with
  | nil => intro kw _ _ h; simp [coerceArgumentValues] at h; subst h; exact .nil
  | cons d ds ih =>
    intro kw hok hfit h
    simp only [coerceArgumentValues] at h
    split at h
    · cases h
    · rename_i o ho
      split at h
      · cases h
      · rename_i r hr
        have ih' := ih r ⟨fun d' hd' => hok.wf d' (List.mem_cons_of_mem _ hd'),
                          fun d' hd' => hok.defaultsConform d' (List.mem_cons_of_mem _ hd'),
                          (List.nodup_cons.1 (by simpa using hok.pyNamesDistinct)).2⟩
                        (fun d' hd' => hfit d' (List.mem_cons_of_mem _ hd')) hr
        have hs := coerceArg_sound hreg (hok.wf d List.mem_cons_self) (hok.defaultsConform d List.mem_cons_self)
          (hfit d List.mem_cons_self) o ho
        split at h
        · cases h; exact .present hs ih'
        · cases h; exact .absent hs.1 hs.2 ih'

/-- **omitted_stays_omitted.** An optional argument without default that is not supplied — or is bound to a
    variable that has no value — contributes no keyword argument … -/
theorem omitted_stays_omitted (reg : Reg) (fuel : Nat) (vars : List (String × PV)) (args : List (String × Lit)) (d : InField)
    (hd : d.default = none) (hn : d.type.isNonNull = false)
    (h : lookupLast d.name args = none ∨ ∃ x, lookupLast d.name args = some (.var x) ∧ lookupLast x vars = none) :
    coerceArg reg fuel vars args d = .ok none := by
  unfold coerceArg
  cases h with
  | inl h => simp [h, hd, hn]
  | inr h => obtain ⟨x, h1, h2⟩ := h; simp [h1, h2, hd, hn]

/-- … and the remaining arguments are assembled as if it were not declared at all. -/
theorem omitted_not_in_kwargs (reg : Reg) (fuel : Nat) (vars : List (String × PV)) (args : List (String × Lit))
    (d : InField) (ds : List InField) (h : coerceArg reg fuel vars args d = .ok none) :
    coerceArgumentValues reg fuel vars args (d :: ds) = coerceArgumentValues reg fuel vars args ds := by
  simp only [coerceArgumentValues, h]
  cases coerceArgumentValues reg fuel vars args ds <;> rfl

/-- the same for input-object fields: an absent nullable field without default leaves no key -/
theorem omitted_field_stays_omitted {α : Type} (get : String → Option α) (rec : Ty → α → R) (f : InField) (fs : List InField)
    (hg : get f.name = none) (hd : f.default = none) (hn : f.type.isNonNull = false) :
    fieldLoop get rec (f :: fs) = fieldLoop get rec fs := by
  simp [fieldLoop, hg, hd, hn]

/-- a supplied argument's default is NOT used: explicit `null` for a nullable argument reaches the resolver as None -/
theorem explicit_null_is_none (reg : Reg) (fuel : Nat) (vars : List (String × PV)) (args : List (String × Lit)) (d : InField)
    (hn : d.type.isNonNull = false) (h : lookupLast d.name args = some .null) :
    coerceArg reg (fuel + 1) vars args d = .ok (some .none) := by
  simp [coerceArg, h, valueFromAst, hn, vfaCore, Lit.isNull]

/-! ### a single value in a list position is wrapped -/

/-- **single_value_wrapped** (variable route): a non-null, non-array JSON value at a list position is coerced
    against the item type and wrapped in a one-element list (errors of the item are the errors of the list). -/
theorem single_value_wrapped (reg : Reg) (fuel : Nat) (t : Ty) (v : JV) (hv : v.isNull = false) (hl : ∀ l, v ≠ .list l) :
    coerceValue reg (fuel + 1) (.list t) v = (coerceValue reg fuel t v).map (fun x => .list [x]) := by
  cases h : coerceValue reg fuel t v <;>
    cases v <;> simp_all [coerceValue, Ty.isNonNull, stripNN, coerceCore, coerceListValue, Except.map, JV.isNull]

/-- **single_value_wrapped** (literal route) -/
theorem single_literal_wrapped (reg : Reg) (vars : Option (List (String × PV))) (fuel : Nat) (t : Ty) (l : Lit)
    (hv : l.isNull = false) (hl : ∀ items, l ≠ .list items) (hx : ∀ x, l ≠ .var x) :
    valueFromAst reg vars (fuel + 1) (.list t) l = (valueFromAst reg vars fuel t l).map (fun x => .list [x]) := by
  cases h : valueFromAst reg vars fuel t l <;>
    cases l <;> simp_all [valueFromAst, Ty.isNonNull, stripNN, vfaCore, Lit.isNull, Except.map]

/-! ### the full signed 32-bit range -/

/-- **int_full_range.** An integer is accepted at an `Int` position — as a JSON variable value and as an
    inline literal — exactly when it lies in the closed interval [−2³¹, 2³¹−1], and then it is passed unchanged.
    Stated about the range test TRANSLATED from `coerce_int` on every run. -/
theorem int_full_range {reg : Reg} {n : String} (hn : reg.get? n = some .int) (vars : Option (List (String × PV)))
    (fuel : Nat) (k : Int) :
    (coerceValue reg (fuel + 1) (.named n) (.int k) = .ok (.int k) ↔ InRange32 k) ∧
    (valueFromAst reg vars (fuel + 1) (.named n) (.int k) = .ok (.int k) ↔ InRange32 k) ∧
    (¬ InRange32 k → coerceValue reg (fuel + 1) (.named n) (.int k) = .error .coercion ∧
                      valueFromAst reg vars (fuel + 1) (.named n) (.int k) = .error .coercion) := by
  have hadm : admits .int (.int k) = true := by
    simp only [admits, kindName, litKind]; decide
  have e1 : coerceValue reg (fuel + 1) (.named n) (.int k) = rangeChecked k (.int k) := by
    simp [coerceValue, Ty.isNonNull, stripNN, coerceCore, JV.isNull, hn, coerceInt]
  have e2 : valueFromAst reg vars (fuel + 1) (.named n) (.int k) = rangeChecked k (.int k) := by
    simp [valueFromAst, Ty.isNonNull, stripNN, vfaCore, Lit.isNull, hn, isScalarLit, parseLiteral, hadm]
  rw [e1, e2]
  have hr := intInRange_iff k
  unfold rangeChecked
  cases hk : intInRange k
  · have : ¬ InRange32 k := fun h => by simp [hr.2 h] at hk
    simp [this]
  · have : InRange32 k := hr.1 hk
    simp [this]

end PyGql.Props.C07

/-
  C19 — calibration, non-vacuity examples, and the machine-checked refutations:
  the model of the UNCHANGED `MaxDepthValidationRule.__call__` (`ruleOrig`, through
  `selected_fields`) falsifies `flags_iff`, `no_raise` and `wrap_*_ge` (defect Q1); the fixed rule
  still raises on raw variables that omit a defaulted directive variable (finding Q1-vars).
  Every witness below is also a replay on the implementation (harness/corr/C19.py, corpus/C19).
-/
import PyGqlModel.Props.C19

namespace PyGql.Props.C19
open PyGql.Depth PyGql.DepthSpec PyGql.Depth.Lemmas

/-- `name { sub }` without alias or directives -/
def fld (n : String) (sub : List Sel := []) : Sel := .field none n {} sub
def ali (a n : String) (sub : List Sel := []) : Sel := .field (some a) n {} sub
def anon (sels : List Sel) : Op := ⟨none, sels⟩
def one (sels : List Sel) (frags : List Frag := []) : Doc := ⟨[anon sels], frags⟩

/-! ### calibration: the docstring example of `max_depth.py` has depth 4 -/

def docstringOp : Op := anon [fld "hero" [fld "name", fld "friends" [.spread "friendsData" {}]]]
def docstringDoc : Doc :=
  ⟨[docstringOp], [⟨"friendsData", [fld "friends" [fld "name", fld "friends" [fld "name"]]]⟩]⟩

theorem docstring_depth : depth docstringDoc [] docstringOp = 4 := by decide

/-- the unchanged and the fixed rule agree with it (limit 3 flags with depth 4, limit 4 does not) -/
theorem docstring_rule :
    rule docstringDoc.fuel 3 none docstringDoc [] = .ok [(0, 4)] ∧
    rule docstringDoc.fuel 4 none docstringDoc [] = .ok [] ∧
    ruleOrig docstringDoc.fuel 3 none docstringDoc [] = .ok [(0, 4)] ∧
    ruleOrig docstringDoc.fuel 4 none docstringDoc [] = .ok [] := by decide

/-! ### non-vacuity of `Valid` -/

private theorem valid_of_checks (doc : Doc) (vars : Vars) (h1 : acyclic doc.frags = true)
    (h2 : doc.ops.all (fun op => boundL vars op.sels) = true)
    (h3 : doc.frags.all (fun f => boundL vars f.sels) = true) : Valid doc vars := by
  simp only [List.all_eq_true] at h2 h3
  exact ⟨h1, h2, h3⟩

example : Valid docstringDoc [] := valid_of_checks _ _ (by decide) (by decide) (by decide)

/-- two operations, nested fragments, a variable-steered directive at the top of an operation -/
def richDoc : Doc :=
  ⟨[⟨some "A", [.inline {} [.spread "F" { skip := some (.var "v") }], fld "c"]⟩,
    ⟨some "B", [fld "a" [ali "x" "a" [fld "c"], ali "x" "a" [fld "b" [fld "d"]]]]⟩],
   [⟨"F", [fld "a" [.spread "G" {}]]⟩, ⟨"G", [fld "b" [fld "c"]]⟩]⟩

example : Valid richDoc [("v", false)] := valid_of_checks _ _ (by decide) (by decide) (by decide)
example : rule richDoc.fuel 1 none richDoc [("v", false)] = .ok [(0, 2), (1, 3)] := by decide
example : rule richDoc.fuel 1 none richDoc [("v", true)] = .ok [(1, 3)] := by decide
example : rule richDoc.fuel 1 (some "A") richDoc [("v", false)] = .ok [(0, 2)] := by decide
example : rule richDoc.fuel 1 (some "Nope") richDoc [("v", false)] = .ok [] := by decide

/-- a flat operation: valid, depth 0, nothing reported, nothing raised -/
example : Valid (one [fld "c"]) [] := valid_of_checks _ _ (by decide) (by decide) (by decide)
example : rule (one [fld "c"]).fuel 0 none (one [fld "c"]) [] = .ok [] := by decide

/-- instances of the wrapping relations -/
example : WrapInline [fld "a" [fld "b" [fld "c"], fld "c"]] [fld "a" [.inline {} [fld "b" [fld "c"]], fld "c"]] :=
  .field [] [] none "a" {} _ _ (.here [] [fld "b" [fld "c"]] [fld "c"])
example : WrapSpread "F" [fld "a" [fld "c"]] [fld "a" [fld "c"], fld "d"] [.spread "F" {}, fld "d"] :=
  .here [] [fld "d"]

/-- `wrap_spread_ge` instantiated: `{ a { c } d }` → `{ ...F d }  fragment F { a { c } }` (all hypotheses hold) -/
example : ∃ d d', depthFixed (one [fld "a" [fld "c"], fld "d"]).fuel (anon [fld "a" [fld "c"], fld "d"]) [] [] = .ok d ∧
    depthFixed (Doc.fuel ⟨[anon [.spread "F" {}, fld "d"]], [⟨"F", [fld "a" [fld "c"]]⟩]⟩)
      ⟨none, [.spread "F" {}, fld "d"]⟩ [⟨"F", [fld "a" [fld "c"]]⟩] [] = .ok d' ∧ d ≤ d' ∧
    d' = depth (one [fld "a" [fld "c"], fld "d"]) [] (anon [fld "a" [fld "c"], fld "d"]) :=
  wrap_spread_ge (one [fld "a" [fld "c"], fld "d"]) ⟨[anon [.spread "F" {}, fld "d"]], [⟨"F", [fld "a" [fld "c"]]⟩]⟩ []
    (valid_of_checks _ _ (by decide) (by decide) (by decide)) (anon [fld "a" [fld "c"], fld "d"]) (by simp [one])
    "F" [fld "a" [fld "c"]] [.spread "F" {}, fld "d"] (.here [] [fld "d"]) rfl
    (by intro f hf; cases hf) (by intro f hf; cases hf) (by decide) (by simp [anon])

/-- the declarative validity is inhabited by the same documents -/
example : ValidDecl richDoc [("v", false)] :=
  ⟨by unfold UniqueNames; decide, acyclic_sound _ (by decide), (valid_of_checks richDoc [("v", false)] (by decide) (by decide) (by decide)).2⟩

/-- the pipeline at limit 0 (the falsy limit): a flat request is executed, a depth-1 request is rejected, a
    request the default validator rejects is rejected without a depth error; nothing raises -/
example : pipeline 5 0 none (one [fld "c"]) [[]] [] 0 = .executed := by decide
example : pipeline 5 0 none (one [fld "a" [fld "c"]]) [[]] [] 0 = .rejected [(0, 1)] 0 := by decide
example : (pipeline 5 0 none (one [fld "c"]) [[]] [] 2).depthRejected = false := by decide
example : (pipeline 5 0 (some "Nope") (one [fld "a" [fld "c"]]) [[]] [] 0) = .executed := by decide

/-! ### refutations on the unchanged rule (defect Q1) -/

/-- the full statements, for an arbitrary implementation `r` of the rule -/
def NoRaise (r : Nat → Nat → Option String → Doc → Vars → Except Err (List (Nat × Nat))) : Prop :=
  ∀ doc vars limit filter, Valid doc vars → ∃ errs, r doc.fuel limit filter doc vars = .ok errs

def FlagsIff (r : Nat → Nat → Option String → Doc → Vars → Except Err (List (Nat × Nat))) : Prop :=
  ∀ doc vars limit, Valid doc vars → ∀ errs, r doc.fuel limit none doc vars = .ok errs →
    ∀ i op, doc.ops[i]? = some op → ((∃ d, (i, d) ∈ errs) ↔ depth doc vars op > limit)

/-- measured depth never decreases when `sels` is replaced by an inline-wrapped version -/
def WrapInlineGe (dp : Nat → Op → List Frag → Vars → Except Err Nat) : Prop :=
  ∀ (frags : List Frag) (vars : Vars) (sels sels' : List Sel), Valid ⟨[anon sels], frags⟩ vars → WrapInline sels sels' →
    ∀ d d', dp (Doc.fuel ⟨[anon sels], frags⟩) (anon sels) frags vars = .ok d →
      dp (Doc.fuel ⟨[anon sels'], frags⟩) (anon sels') frags vars = .ok d' → d ≤ d'

/-- the fixed rule satisfies the full statements -/
theorem fixed_no_raise : NoRaise rule := fun doc vars limit filter hv => no_raise doc vars hv limit filter

theorem fixed_flags_iff : FlagsIff rule := by
  intro doc vars limit hv errs he i op hi
  obtain ⟨errs', he', h⟩ := flags_iff doc vars hv limit none
  rw [he] at he'
  cases he'
  rw [(h i op hi).1]
  simp [opSelected]

theorem fixed_wrap_inline_ge : WrapInlineGe depthFixed := by
  intro frags vars sels sels' hv hw d d' hd hd'
  obtain ⟨e, e', h1, h2, h3, _⟩ := wrap_inline_ge ⟨[anon sels], frags⟩ ⟨[anon sels'], frags⟩ vars hv (anon sels)
    (by simp) sels' hw rfl (by simp [anon])
  simp only [anon] at h1 h2 hd hd'
  rw [hd] at h1; rw [hd'] at h2
  cases h1; cases h2
  exact h3

/-- Q1a — a flat query makes the unchanged rule raise `ValueError` (`max()` of nothing) -/
theorem orig_flat_raises : ruleOrig (one [fld "c"]).fuel 0 none (one [fld "c"]) [] = .error .value := by decide

theorem orig_no_raise_refuted : ¬ NoRaise ruleOrig := by
  intro h
  obtain ⟨errs, he⟩ := h (one [fld "c"]) [] 0 none (valid_of_checks _ _ (by decide) (by decide) (by decide))
  rw [orig_flat_raises] at he
  cases he

/-- Q1b — a top-level fragment is invisible: `{ ... { a { a { c } } } }` raises, and
    `{ a { c } ... { a { a { a { c } } } } }` (depth 3) passes a limit of 1 -/
def topInline : Doc := one [fld "a" [fld "c"], .inline {} [ali "y" "a" [fld "a" [fld "a" [fld "c"]]]]]

theorem orig_top_fragment_raises :
    ruleOrig (one [.inline {} [fld "a" [fld "a" [fld "c"]]]]).fuel 0 none (one [.inline {} [fld "a" [fld "a" [fld "c"]]]]) []
      = .error .value := by decide

theorem orig_top_fragment_ignored :
    depth topInline [] (anon [fld "a" [fld "c"], .inline {} [ali "y" "a" [fld "a" [fld "a" [fld "c"]]]]]) = 3 ∧
    ruleOrig topInline.fuel 1 none topInline [] = .ok [] ∧
    rule topInline.fuel 1 none topInline [] = .ok [(0, 3)] := by decide

/-- Q1c — of several fields with the same response key only the first sub-selection is measured -/
def sameKey : Doc := one [fld "a" [ali "x" "a" [fld "c"], ali "x" "a" [fld "a" [fld "a" [fld "c"]]]]]

theorem orig_same_key_first_only :
    depth sameKey [] (anon [fld "a" [ali "x" "a" [fld "c"], ali "x" "a" [fld "a" [fld "a" [fld "c"]]]]]) = 4 ∧
    ruleOrig sameKey.fuel 2 none sameKey [] = .ok [] ∧
    rule sameKey.fuel 2 none sameKey [] = .ok [(0, 4)] := by decide

theorem orig_flags_iff_refuted : ¬ FlagsIff ruleOrig := by
  intro h
  have := h sameKey [] 2 (valid_of_checks _ _ (by decide) (by decide) (by decide)) [] orig_same_key_first_only.2.1 0 _ rfl
  have hd := orig_same_key_first_only.1
  rw [hd] at this
  simp at this

/-- Q1d — `@skip/@include` on a root field is ignored by the unchanged rule -/
theorem orig_top_directive_ignored :
    ruleOrig 5 0 none ⟨[anon [.field none "a" { skip := some (.lit true) } [fld "c"]]], []⟩ [] = .ok [(0, 1)] ∧
    rule 5 0 none ⟨[anon [.field none "a" { skip := some (.lit true) } [fld "c"]]], []⟩ [] = .ok [] := by decide

/-- wrapping LOWERS the depth measured by the unchanged rule: `{ a { a { c } } }` measures 2,
    `{ a { c } ... }`-style wrapping of the deep root field hides it -/
theorem orig_wrap_inline_refuted : ¬ WrapInlineGe depthOrig := by
  intro h
  have hw : WrapInline [fld "c", fld "a" [fld "a" [fld "c"]], fld "b" [fld "c"]]
      [fld "c", .inline {} [fld "a" [fld "a" [fld "c"]]], fld "b" [fld "c"]] :=
    .here [fld "c"] [fld "a" [fld "a" [fld "c"]]] [fld "b" [fld "c"]]
  have := h [] [] _ _ (valid_of_checks _ _ (by decide) (by decide) (by decide)) hw 2 1 (by decide) (by decide)
  omega

/-! ### raw variables (finding Q1-vars, not fixed) -/

/-- validators receive the RAW request variables: a directive variable that is omitted (legal when the
    operation declares a default) makes the rule — unchanged or fixed — raise `CoercionError` -/
theorem raw_variables_raise :
    rule 5 0 none ⟨[anon [.field none "a" { skip := some (.var "v") } [fld "c"]]], []⟩ [] = .error .coercion ∧
    ruleOrig 5 0 none ⟨[anon [fld "a" [.field none "a" { skip := some (.var "v") } [fld "c"]]]], []⟩ [] = .error .coercion := by
  decide

/-- after C19-Q1vars.patch the same request is fine: the declared default `true` skips the field (depth 0),
    a default `false` keeps it (depth 1 > 0), and a required variable that is provided is used -/
theorem defaulted_variable_ok :
    ruleV 5 0 none ⟨[anon [.field none "a" { skip := some (.var "v") } [fld "c"]]], []⟩ [[⟨"v", false, some true⟩]] [] = .ok [] ∧
    ruleV 5 0 none ⟨[anon [.field none "a" { skip := some (.var "v") } [fld "c"]]], []⟩ [[⟨"v", false, some false⟩]] [] = .ok [(0, 1)] ∧
    ruleV 5 0 none ⟨[anon [.field none "a" { skip := some (.var "v") } [fld "c"]]], []⟩ [[⟨"v", true, none⟩]] [("v", true)] = .ok [] := by
  decide

example : ValidV ⟨[anon [.field none "a" { skip := some (.var "v") } [fld "c"]]], []⟩ [[⟨"v", false, some true⟩]] [] := by
  refine ⟨by decide, ?_⟩
  intro i op hi
  cases i with
  | zero => simp at hi; subst hi; exact ⟨by decide, by intro f hf; cases hf⟩
  | succ i => simp at hi

/-! ### requests whose variables do not coerce -/

/-- `query A($n: Int!) { a { a { a { c } } } w: d } query B { c }`: the deep operation `A` is reported whether
    `$n` is missing, `null`, of the wrong kind, or fine — an uncoercible operation is never skipped -/
def uncoDoc : Doc := ⟨[⟨some "A", [fld "a" [fld "a" [fld "a" [fld "c"]]], ali "w" "d"]⟩, ⟨some "B", [fld "c"]⟩], []⟩
def uncoDefs : List (List VarDefR) := [[⟨"n", .int, true, none⟩], []]

theorem uncoercible_still_measured :
    ruleR uncoDoc.fuel 1 none uncoDoc uncoDefs [] = .ok [(0, 3)] ∧
    ruleR uncoDoc.fuel 1 none uncoDoc uncoDefs [("n", .null)] = .ok [(0, 3)] ∧
    ruleR uncoDoc.fuel 1 none uncoDoc uncoDefs [("n", .list true)] = .ok [(0, 3)] ∧
    ruleR uncoDoc.fuel 1 none uncoDoc uncoDefs [("n", .int 3)] = .ok [(0, 3)] ∧
    coerceRaw [⟨"n", .int, true, none⟩] [] = none ∧ coerceRaw [⟨"n", .int, true, none⟩] [("n", .list true)] = none ∧
    coerceRaw [⟨"n", .int, true, none⟩] [("n", .null)] = none := by decide

/-- a Boolean directive variable given a JSON array does not coerce: the raw value steers the directive by
    truthiness (`[1]` skips, `[]` does not) -/
theorem uncoercible_raw_truthiness :
    ruleR 5 0 none ⟨[⟨some "A", [.field none "a" { skip := some (.var "v") } [fld "a" [fld "c"]]]⟩], []⟩
      [[⟨"v", .boolean, true, none⟩]] [("v", .list true)] = .ok [] ∧
    ruleR 5 0 none ⟨[⟨some "A", [.field none "a" { skip := some (.var "v") } [fld "a" [fld "c"]]]⟩], []⟩
      [[⟨"v", .boolean, true, none⟩]] [("v", .list false)] = .ok [(0, 2)] := by decide

/-- finding Q1-vars2 (not fixed): when the directive variable itself is unavailable (missing, or `null`) in the
    mapping the rule falls back to, `coerce_argument_values` raises `CoercionError` out of the rule — also for a
    VALID request that executes another operation of the document -/
theorem unavailable_directive_variable_raises :
    ruleR 5 3 none ⟨[⟨some "A", [.field none "a" { skip := some (.var "v") } [fld "c"]]⟩, ⟨some "B", [fld "c"]⟩], []⟩
      [[⟨"v", .boolean, true, none⟩], []] [] = .error .coercion ∧
    ruleR 5 3 none ⟨[⟨some "A", [.field none "a" { skip := some (.var "v") } [fld "c"]]⟩], []⟩
      [[⟨"v", .boolean, true, none⟩]] [("v", .null)] = .error .coercion := by decide

/-- after C19-Q1vars2.patch (`ruleRT`) the same requests no longer raise: the guarded selection is KEPT when its
    condition cannot be evaluated (depth 1 ≤ 3: nothing reported; at limit 0 it is reported), and a request
    whose variables are all available is measured exactly as before -/
theorem unavailable_directive_variable_kept :
    ruleRT 5 3 none ⟨[⟨some "A", [.field none "a" { skip := some (.var "v") } [fld "c"]]⟩, ⟨some "B", [fld "c"]⟩], []⟩
      [[⟨"v", .boolean, true, none⟩], []] [] = .ok [] ∧
    ruleRT 5 0 none ⟨[⟨some "A", [.field none "a" { skip := some (.var "v") } [fld "c"]]⟩, ⟨some "B", [fld "c"]⟩], []⟩
      [[⟨"v", .boolean, true, none⟩], []] [] = .ok [(0, 1)] ∧
    ruleRT 5 0 none ⟨[⟨some "A", [.field none "a" { skip := some (.var "v") } [fld "c"]]⟩], []⟩
      [[⟨"v", .boolean, true, none⟩]] [("v", .null)] = .ok [(0, 1)] ∧
    ruleRT 5 0 none ⟨[⟨some "A", [.field none "a" { skip := some (.var "v") } [fld "c"]]⟩], []⟩
      [[⟨"v", .boolean, true, none⟩]] [("v", .bool true)] = .ok [] := by decide

/-! ### cyclic documents (hunt finding C19/1) -/

def cycSelf : Doc := ⟨[anon [.spread "A" {}]], [⟨"A", [fld "s", .spread "A" {}]⟩]⟩
def cycIndirect : Doc := ⟨[anon [.spread "A" {}]], [⟨"A", [fld "s", .spread "B" {}]⟩, ⟨"B", [.spread "A" {}]⟩]⟩
def cycField : Doc := ⟨[anon [.spread "A" {}]], [⟨"A", [fld "a" [.spread "A" {}]]⟩]⟩
/-- the cycle is there but the operation does not select it (`@skip(if: true)`) -/
def cycSkipped : Doc :=
  ⟨[anon [fld "a" [fld "c"], .spread "A" { skip := some (.lit true) }]], [⟨"A", [fld "a" [.spread "A" {}]]⟩]⟩

/-- before C19-Q2.patch the traversal has no end on these documents: whatever the fuel (here the generous
    `budget`), it is used up — Python: `RecursionError` out of the rule -/
theorem cyclic_unrepaired_raises :
    ruleRT cycSelf.budget 3 none cycSelf [[]] [] = .error .recursion ∧
    ruleRT cycIndirect.budget 3 none cycIndirect [[]] [] = .error .recursion ∧
    ruleRT cycField.budget 3 none cycField [[]] [] = .error .recursion := by decide

/-- after it: the operation is reported as unbounded, at every limit; a cycle that is not selected does not matter -/
theorem cyclic_repaired_reports :
    ruleB 3 none cycSelf [[]] [] = .ok [(0, none)] ∧
    ruleB 3 none cycIndirect [[]] [] = .ok [(0, none)] ∧
    ruleB 3 none cycField [[]] [] = .ok [(0, none)] ∧
    ruleB 1000000 none cycField [[]] [] = .ok [(0, none)] ∧
    ruleB 0 none cycSkipped [[]] [] = .ok [(0, some 1)] ∧
    ruleB 1 none cycSkipped [[]] [] = .ok [] := by decide

/-- ACYCLIC chains through fragments are measured exactly, whatever their depth (general statement:
    `flags_iff_final`, which has no bound on the depth; the implementation's interpreter stack is the named
    divergence, removed for the depth by C19-Q3.patch). A small instance: three fragments of two levels each. -/
def chainDoc : Doc :=
  ⟨[anon [.spread "F0" {}]],
   [⟨"F0", [fld "a" [fld "a" [.spread "F1" {}]]]⟩, ⟨"F1", [fld "a" [fld "a" [.spread "F2" {}]]]⟩,
    ⟨"F2", [fld "a" [fld "a" [fld "c"]]]⟩]⟩

theorem acyclic_chain_exact :
    ruleB 5 none chainDoc [[]] [] = .ok [(0, some 6)] ∧ ruleB 6 none chainDoc [[]] [] = .ok [] ∧
    ruleB 100000 none chainDoc [[]] [] = .ok [] := by decide

end PyGql.Props.C19

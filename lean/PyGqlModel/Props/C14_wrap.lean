/-
  C14 — what IS preserved under WRAPPING visitors (the `NoWrap` hypothesis removed).

  `transform_preserves_untouched_members` (Props/C14_members.lean) excludes the drop/wrap directive visitor (`NoWrap`): a schema
  directive on FIELD_DEFINITION replaces resolvers by design. `transform_preserves_members_any_visitor` (FULL, no hypothesis on
  the visitors): for `transform_schema(source, *visitors)` with ANY list of modelled visitors — visibility, camel-case, heal AND
  drop/wrap directive visitors — on a closed well-formed source, every non-protected type the result registers is, for the
  source type `t0` of the same name, `TRelW (wrapIds vs) ρ h h' t0 a'`:
  * exactly `t0`'s kind, name, description, default resolver, type resolver, enum values (`TAttr`: wrapping never touches them);
  * its FIELDS are, in order, copies of a sub-list of `t0`'s (dropped / hidden ones are missing); each copy has the source field's
    description, deprecation, SUBSCRIPTION resolver, python name, type by name, the converted name — and its RESOLVER is the
    source field's or one handed out by a wrapper of the list (`wrapIds vs id`: some visitor `sdir drop wrap` of `vs` has
    `wrap type field = some id`) (`FAttrW`);
  * the ARGUMENTS of every field and the INPUT FIELDS are not affected by wrapping at all: the full `AAttr` (python name,
    default, description, type by name, converted name) as without wrappers.
  `transform_preserves_under_wrapping` is the same for any predicate `W` the wrappers' ids satisfy; with `W = fun _ => False`
  (no visitor wraps) it gives back the `NoWrap` theorem's resolver clause (`fattrW_false`).
-/
import PyGqlModel.Lemmas.HeapMembersW
import PyGqlModel.Props.C14_members

set_option linter.unusedSimpArgs false
set_option linter.unusedVariables false

namespace PyGql.Props.C14
open PyGql.Heap PyGql.Heap.Own

/-- the resolver ids the wrappers of a visitor list hand out -/
def wrapIds (vs : List Visitor) (id : Nat) : Prop :=
  ∃ v, v ∈ vs ∧ match v with | .sdir _ w => ∃ t f, w t f = some id | _ => False

theorem wraps_wrapIds (vs : List Visitor) : ∀ v, v ∈ vs → Wraps (wrapIds vs) v := by
  intro v hv
  cases v with
  | sdir d w => intro t f id hw; exact ⟨.sdir d w, hv, t, f, hw⟩
  | heal => trivial
  | vis p => trivial
  | camel r => trivial

/-- FULL for every predicate the wrappers' ids satisfy -/
theorem transform_preserves_under_wrapping (cfg : Cfg) (hd : cfg.deepClone = true) (fuel : Nat) (vs : List Visitor) (W : Nat → Prop)
    (hv : ∀ v, v ∈ vs → Wraps W v) (s : Schema) (h h' : Heap) (s' : Schema) (hc : closedB h s = true) (hw : wfB h s = true)
    (e : transform cfg fuel vs s h = some (h', s')) :
    ∀ e', e' ∈ s'.types → isProtected e'.1 = true ∨
      ∃ e0, e0 ∈ s.types ∧ e0.1 = e'.1 ∧ ∀ t0, h.readType e0.2 = some t0 → TRelW W (renAll vs id) h h' t0 e'.2 := by
  simp only [transform] at e
  split at e
  · cases e
  · rename_i r hr
    obtain ⟨h1, s1⟩ := r
    have hm := clone_mem cfg hd fuel s h h1 s1 hc (wfs_of_closedB hc hw) hr
    have hmW : MemOriginW W id h s.types h1 s1.types := by
      intro e' he'
      rcases hm e' he' with hp | ⟨e0, he0, hn, hr0⟩
      · exact Or.inl hp
      · exact Or.inr ⟨e0, he0, hn, fun t0 ht0 => TRelW.of_strong (hr0 t0 ht0)⟩
    exact transformFrom_memW cfg fuel h s.types vs hv id h1 s1 h' s' hmW e

/-- FULL, NO hypothesis on the visitors (see the header) -/
theorem transform_preserves_members_any_visitor (cfg : Cfg) (hd : cfg.deepClone = true) (fuel : Nat) (vs : List Visitor)
    (s : Schema) (h h' : Heap) (s' : Schema) (hc : closedB h s = true) (hw : wfB h s = true)
    (e : transform cfg fuel vs s h = some (h', s')) :
    ∀ e', e' ∈ s'.types → isProtected e'.1 = true ∨
      ∃ e0, e0 ∈ s.types ∧ e0.1 = e'.1 ∧ ∀ t0, h.readType e0.2 = some t0 → TRelW (wrapIds vs) (renAll vs id) h h' t0 e'.2 :=
  transform_preserves_under_wrapping cfg hd fuel vs (wrapIds vs) (wraps_wrapIds vs) s h h' s' hc hw e

/-- the same for an in-place visitor on a schema (no clone) -/
theorem visitor_preserves_members_any_visitor (cfg : Cfg) (fuel : Nat) (v : Visitor) (s : Schema) (h h' : Heap) (s' : Schema)
    (hw : wfB h s = true) (e : onSchema cfg fuel v s h = some (h', s')) :
    ∀ e', e' ∈ s'.types → isProtected e'.1 = true ∨
      ∃ e0, e0 ∈ s.types ∧ e0.1 = e'.1 ∧ ∀ t0, h.readType e0.2 = some t0 → TRelW (wrapIds [v]) (renAfter v id) h h' t0 e'.2 := by
  have hself : MemOriginW (wrapIds [v]) id h s.types h s.types := by
    -- every member is related to itself (strong relation, from the in-place theorem's base case)
    have w := wfs_of_wfB hw
    intro e' he'
    right
    refine ⟨e', he', rfl, fun t0 ht0 => TRelW.of_strong ⟨t0, ht0, TAttr.refl t0, ?_⟩⟩
    have hr := membersReadable_of_shape _ h e'.2 t0 ht0 (w.types e' he')
    have hargs : ∀ (as : List Addr), (∀ a, a ∈ as → ∃ g, h.readArg a = some g) → Sub2 (ARel id h h) as as := by
      intro as
      induction as with
      | nil => intro _; exact Sub2.nil
      | cons a as ih =>
        intro hx
        obtain ⟨g, hg⟩ := hx a (by simp)
        exact Sub2.cons ⟨g, g, hg, hg, AAttr.refl g⟩ (ih fun x hxm => hx x (by simp [hxm]))
    have hfields : ∀ (as : List Addr), (∀ a, a ∈ as → ∃ f, h.readField a = some f ∧ ∀ x, x ∈ f.args → ∃ g, h.readArg x = some g) →
        Sub2 (FRel id h h) as as := by
      intro as
      induction as with
      | nil => intro _; exact Sub2.nil
      | cons a as ih =>
        intro hx
        obtain ⟨f, hf, hfa⟩ := hx a (by simp)
        exact Sub2.cons ⟨f, f, hf, hf, FAttr.refl f, hargs f.args hfa⟩ (ih fun x hxm => hx x (by simp [hxm]))
    simp only [MRel, MembersReadable] at hr ⊢
    cases hk : t0.kind <;> simp only [hk] at hr ⊢
    · exact hfields _ hr
    · exact hfields _ hr
    · exact hargs _ hr
  exact onSchema_memW cfg fuel v (wraps_wrapIds [v] v (by simp)) id h s.types s h h' s' hself e

/-- reading the relation: when nothing wraps, the resolver clause is the strong one -/
theorem fattrW_false {ρ : String → String} {f f' : FieldO} (k : FAttrW (fun _ => False) ρ f f') : FAttr ρ f f' := by
  obtain ⟨k1, k2, k3, k4, k5, k6, k7⟩ := k
  refine ⟨k1, k2, k3, ?_, k5, k6, k7⟩
  rcases k4 with k4 | ⟨_, _, hf⟩
  · exact k4
  · exact absurd hf id

/-- … and whatever wraps: description, deprecation, subscription resolver, python name and the type by name of a field survive -/
theorem fattrW_keeps {W : Nat → Prop} {ρ : String → String} {f f' : FieldO} (k : FAttrW W ρ f f') :
    f'.name = ρ f.name ∧ f'.desc = f.desc ∧ f'.depr = f.depr ∧ f'.sub = f.sub ∧ f'.py = f.py ∧ sameNames f.ty f'.ty :=
  ⟨k.1, k.2.1, k.2.2.1, k.2.2.2.2.1, k.2.2.2.2.2.1, k.2.2.2.2.2.2⟩

/-- the wrapper of the witness: a new resolver (id 99) for every field of `Query` -/
def wrapQuery : Visitor := .sdir (fun _ _ => false) (fun t _ => if t == "Query" then some 99 else none)

/-- non-vacuity: the wrapping transform of the witness succeeds, and it DOES replace a resolver (so `NoWrap` was needed there) -/
example : closedB h0 s0 = true ∧ wfB h0 s0 = true ∧ (transform Cfg.fixed 8 [wrapQuery] s0 h0).isSome = true ∧ wrapIds [wrapQuery] 99 :=
  ⟨by decide, by decide, by decide, wrapQuery, by simp, "Query", "x", by simp [wrapQuery]⟩

end PyGql.Props.C14

/-
  C09 — finding E2 for mutations as a THEOREM PAIR (model: `AsyncExecE2.lean`, `executeSerial`; tied to the real code by
  the mutation half of the stage `e2-model`, every completion order on the manual executor).

  `mutation { m1 { a } m2 }`, `m1`'s iterable yields one object (sub-field `a` deferred) and then raises ResolverError:
  `m1` is null + error AT ONCE, the serial chain invokes `m2`'s resolver while `m1[0].a` is still outstanding.
  * `e2_serial_overlap_witness` — the trace of the generic Executor: `call m2` comes before `done m1[0].a`;
  * `e2_blocking_serial_witness` — BlockingExecutor: strictly serial;
  * `serial_order_e2_refuted` — the statement of `serial_order` (proved for the operation form WITHOUT failing completions)
    is FALSE once a list completion may raise after sub-resolvers were started.
-/
import PyGqlModel.AsyncExecE2
import PyGqlModel.Lemmas.ExecSerial

set_option linter.unusedVariables false

namespace PyGql.Props.C09
open PyGql.AsyncExec

def e2SerialWitness : E2.Op :=
  { before := .nil, key := "m1",
    items := .cons (.obj (.cons "a" .deferred (.ok (.leaf 1)) .nil)) .nil,
    after := .cons "m2" .sync (.ok (.leaf 5)) .nil }

/-- the generic Executor: `m2` is invoked (and finishes) while `m1[0].a` has been called and is not done -/
theorem e2_serial_overlap_witness :
    (E2.runAsyncSerial e2SerialWitness []).trace
      = [.call [.key "m1"], .done [.key "m1"], .call [.key "m1", .idx 0, .key "a"],
         .call [.key "m2"], .done [.key "m2"]] := by rfl

/-- … and the response is already assembled: `m1[0].a` never contributes -/
theorem e2_serial_overlap_outcome :
    (E2.runAsyncSerial e2SerialWitness []).outcome
      = .ok (.obj [("m1", .null), ("m2", .leaf 5)]) [⟨[.key "m1"], .resolver⟩] := by rfl

/-- BlockingExecutor on the same operation: strictly serial -/
theorem e2_blocking_serial_witness :
    (E2.runBlocking e2SerialWitness).trace
      = [.call [.key "m1"], .done [.key "m1"], .call [.key "m1", .idx 0, .key "a"], .done [.key "m1", .idx 0, .key "a"],
         .call [.key "m2"], .done [.key "m2"]] := by rfl

/-- the statement of `serial_order` transported to mutations whose first field is a failing list completion -/
def SerialOrderE2Statement : Prop :=
  ∀ (key : String) (items : Comps) (after : Flds) (schedule : List Nat) (pre post : List Ev) (k : String),
    (E2.runAsyncSerial ⟨.nil, key, items, after⟩ schedule).trace = pre ++ Ev.call [.key k] :: post →
    ncalls pre = ndones pre

/-- FALSE on today's code (finding E2): at `call m2` two resolvers have been invoked and one has finished. -/
theorem serial_order_e2_refuted : ¬ SerialOrderE2Statement := by
  intro h
  have := h "m1" e2SerialWitness.items e2SerialWitness.after []
    [.call [.key "m1"], .done [.key "m1"], .call [.key "m1", .idx 0, .key "a"]] [.done [.key "m2"]] "m2" rfl
  revert this
  decide

/-- the deferred variant: `m2` deferred too; whatever completes first, `m2` was CALLED before `m1[0].a` was done -/
example :
    ((E2.runAsyncSerial ⟨.nil, "m1", e2SerialWitness.items, .cons "m2" .deferred (.ok (.leaf 5)) .nil⟩ [0, 0]).trace.take 4)
      = [.call [.key "m1"], .done [.key "m1"], .call [.key "m1", .idx 0, .key "a"], .call [.key "m2"]] := by rfl

end PyGql.Props.C09

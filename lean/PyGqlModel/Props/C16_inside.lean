/-
  C16 — where the field events are (audit round 2): for every request that reaches the executor, the trace of
  `process_graphql_query` (as it is since fix N1) is `stage events ++ [execution+] ++ executor run ++ [execution-] ++ [query-]`:
  every field hook, middleware and resolver event lies between `on_execution_start` and `on_execution_end`, for every
  executor, runtime and completion order of the model (`field_events_inside_execution`). On the REAL code this is what the
  oracle `field-hook-outside-execution-stage` checks; it is known to fail when a request ABORTS with siblings in flight
  (findings N4, N7) — `OutKind` has no request-abort outcome, so those runs are outside this theorem.
-/
import PyGqlModel.Props.C16

set_option linter.unusedVariables false

namespace PyGql.Props.C16
open PyGql.Instr

/-- **field_events_inside_execution.** -/
theorem field_events_inside_execution (cfg : Cfg) (r : Request)
    (hsyn : (r.docIsText && r.syntaxError) = false) (hv : r.valid = true) (ho : r.opselOk = true) (hvars : r.varsOk = true)
    (hsub : r.subscriptionOp = false) (hroot : r.rootCollectFails = false) :
    ∃ pre post, pipeline false cfg r = pre ++ (stageStart .execution ++ execBody cfg r ++ stageEnd .execution) ++ post
      ∧ (∀ e ∈ pre ++ post, (stageOf e).isSome = true)
      ∧ stageEvents (execBody cfg r) = [] := by
  refine ⟨stageStart .query ++ ((if r.docIsText then stageStart .parsing ++ stageEnd .parsing else []) ++
      (stageStart .validation ++ stageEnd .validation)), stageEnd .query, ?_, ?_, body_has_no_stage_event cfg r⟩
  · simp [pipeline, execute, hsyn, hv, ho, hvars, hsub, hroot]
  · intro e he
    cases hd : r.docIsText with
    | false =>
      simp only [hd, stageStart, stageEnd, Bool.false_eq_true, if_false, List.nil_append, List.cons_append, List.mem_cons,
        List.mem_nil_iff, or_false] at he
      rcases he with rfl | rfl | rfl | rfl <;> rfl
    | true =>
      simp only [hd, stageStart, stageEnd, if_true, List.nil_append, List.cons_append, List.mem_cons,
        List.mem_nil_iff, or_false] at he
      rcases he with rfl | rfl | rfl | rfl | rfl | rfl <;> rfl


/-- **deferred_field_middlewares_exit_at_submission** (finding N8, the exact form): for a field whose resolver the runtime
    defers (`runtime.wrap_callable` submits it), what `resolve_field` emits at the moment it is called is
    `field+ · mw> (last middleware first) · mw< (list order)` and NOTHING else - every middleware has exited, the resolver has
    not been invoked (`call` / `ret` / `field-` come with the completion of the task it leaves behind). The nesting
    `mw> call ret mw<` holds for synchronous resolvers (`field_hooks_contiguous_sequential`, `chunk`). -/
theorem deferred_field_middlewares_exit_at_submission (cfg : Cfg) (path : Path) (key : String) (o : OutKind) (c : Comp)
    (ho : o ≠ .argError) :
    (startField cfg path (.mk key true o c)).1
        = [Ev.hook (.field (path ++ [.key key]) true)]
          ++ cfg.mws.reverse.map (fun i => Ev.mwEnter i (path ++ [.key key]))
          ++ cfg.mws.map (fun i => Ev.mwExit i (path ++ [.key key]))
      ∧ Ev.call (path ++ [.key key]) ∉ (startField cfg path (.mk key true o c)).1
      ∧ (startField cfg path (.mk key true o c)).2.length = 1 := by
  have hm := middleware_once_in_order submitOnly cfg.mws (path ++ [.key key])
  have heq : (startField cfg path (.mk key true o c)).1
      = [Ev.hook (.field (path ++ [.key key]) true)]
        ++ cfg.mws.reverse.map (fun i => Ev.mwEnter i (path ++ [.key key]))
        ++ cfg.mws.map (fun i => Ev.mwExit i (path ++ [.key key])) := by
    cases o with
    | argError => exact absurd rfl ho
    | raises => simp [startField, fieldResolver, fieldStart, hm, submitOnly]
    | returns => simp [startField, fieldResolver, fieldStart, hm, submitOnly]
  refine ⟨heq, ?_, ?_⟩
  · rw [heq]; simp
  · cases o with
    | argError => exact absurd rfl ho
    | raises => simp [startField]
    | returns => simp [startField]

/-- instance: two middlewares, deferred resolver: `field+ mw>1 mw>0 mw<0 mw<1` (the real trace of the probe `middleware-deferred`) -/
example : (startField ⟨[0, 1]⟩ [] (.mk "a" true .returns .leaf)).1
    = [.hook (.field [.key "a"] true), .mwEnter 1 [.key "a"], .mwEnter 0 [.key "a"], .mwExit 0 [.key "a"], .mwExit 1 [.key "a"]] := by
  decide

end PyGql.Props.C16

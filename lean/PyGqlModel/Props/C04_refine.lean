/-
  C04 — refinement of the specification by the executor model.
  `exec_refines_spec_spreadfree_exact`: for documents WITHOUT named fragment spreads (fields, aliases, directives,
  inline fragments, abstract types, lists, errors — everything else) the model's response is EQUAL to the
  specification's (same ordered data, same error list). The full statement is kept as `ExecRefinesSpec`;
  exact equality of the grouped field sets is FALSE with spreads (the `_seen_fragments` rebinding duplicates
  nodes inside a group) — machine-checked witness `seen_fragments_quirk_duplicates_nodes` — while the
  response of the witness is still equal (`quirk_witness_same_response`).
-/
import PyGqlModel.Exec
import PyGqlModel.Spec.ExecSpec

set_option linter.unusedSimpArgs false
set_option linter.unusedVariables false

namespace PyGql.Props.C04
open PyGql PyGql.Exec PyGql.Spec

mutual
/-- no named fragment spread anywhere inside -/
def selSpreadFree : Sel → Bool
  | .field _ _ _ _ _ _ sub => selsSpreadFree sub
  | .inline _ _ sub => selsSpreadFree sub
  | .spread _ _ => false
def selsSpreadFree : List Sel → Bool
  | [] => true
  | s :: ss => selSpreadFree s && selsSpreadFree ss
end

private theorem selsSpreadFree_append (a b : List Sel) : selsSpreadFree (a ++ b) = (selsSpreadFree a && selsSpreadFree b) := by
  induction a with
  | nil => simp [selsSpreadFree]
  | cons x xs ih => simp [selsSpreadFree, ih, Bool.and_assoc]

/-- every collected node has spread-free sub-selections -/
def NodesFree (g : Grouped) : Prop := ∀ kv ∈ g, ∀ n ∈ kv.2, selsSpreadFree n.sub = true

private theorem extend_nodesFree (g : Grouped) (k : String) (ns : List FNode) (hg : NodesFree g)
    (hn : ∀ n ∈ ns, selsSpreadFree n.sub = true) : NodesFree (g.extend k ns) := by
  induction g with
  | nil => intro kv hkv n hn'; simp [Grouped.extend] at hkv; subst hkv; exact hn n hn'
  | cons kv rest ih =>
    obtain ⟨k', ms⟩ := kv
    simp only [Grouped.extend]
    by_cases h : k' = k
    · subst h
      simp only [beq_self_eq_true, if_true]
      intro kv hkv n hn'
      simp at hkv
      rcases hkv with rfl | hkv
      · simp at hn'
        rcases hn' with h1 | h1
        · exact hg (k', ms) (by simp) n h1
        · exact hn n h1
      · exact hg kv (by simp [hkv]) n hn'
    · have h' : (k' == k) = false := by simpa using h
      simp only [h', Bool.false_eq_true, if_false]
      intro kv hkv n hn'
      simp at hkv
      rcases hkv with rfl | hkv
      · exact hg (k', ms) (by simp) n hn'
      · exact ih (fun kv hkv => hg kv (by simp [hkv])) kv hkv n hn'

private theorem mergeInto_nodesFree (src into : Grouped) (hs : NodesFree src) (hi : NodesFree into) : NodesFree (src.mergeInto into) := by
  unfold Grouped.mergeInto
  induction src generalizing into with
  | nil => simpa
  | cons kv rest ih =>
    simp only [List.foldl_cons]
    exact ih _ (fun kv' hkv => hs kv' (by simp [hkv])) (extend_nodesFree _ _ _ hi (fun n hn => hs kv (by simp) n hn))

/-- what the induction on fuel carries for `collect_fields` -/
def CollectAgree (f fS : String → List Sel → List String → R (Grouped × List String)) : Prop :=
  ∀ obj sels seen, selsSpreadFree sels = true →
    f obj sels seen = fS obj sels seen ∧
    ∀ g seen', f obj sels seen = .ok (g, seen') → seen' = seen ∧ NodesFree g

private theorem collectStep_agree (s : SchemaD) (doc : Doc) (vars : Vars) (f fS) (hf : CollectAgree f fS) (obj : String) :
    ∀ (sels : List Sel) (seen : List String) (g : Grouped), selsSpreadFree sels = true → NodesFree g →
      collectStep s doc vars f obj sels seen g = collectStepS s doc vars fS obj sels seen g ∧
      ∀ g' seen', collectStep s doc vars f obj sels seen g = .ok (g', seen') → seen' = seen ∧ NodesFree g' := by
  intro sels
  induction sels with
  | nil =>
    intro seen g _ hg
    refine ⟨by simp [collectStep, collectStepS], ?_⟩
    intro g' seen' h
    simp [collectStep] at h
    obtain ⟨rfl, rfl⟩ := h
    exact ⟨rfl, hg⟩
  | cons sel rest ih =>
    intro seen g hsf hg
    simp only [selsSpreadFree, Bool.and_eq_true] at hsf
    obtain ⟨hsel, hrest⟩ := hsf
    cases sel with
    | spread name dirs => simp [selSpreadFree] at hsel
    | field key name loc dirs args hs sub =>
      simp only [selSpreadFree] at hsel
      simp only [collectStep, collectStepS, bind, Except.bind]
      cases hsk : skipSelection vars dirs with
      | error e => simp
      | ok b =>
        cases b with
        | true => simpa using ih seen g hrest hg
        | false =>
          simpa using ih seen _ hrest (extend_nodesFree _ _ _ hg (by simp [hsel]))
    | inline on dirs sub =>
      simp only [selSpreadFree] at hsel
      simp only [collectStep, collectStepS, bind, Except.bind, pure, Except.pure]
      cases hsk : skipSelection vars dirs with
      | error e => simp
      | ok b =>
        cases b with
        | true => simpa using ih seen g hrest hg
        | false =>
          simp only [Bool.false_eq_true, if_false]
          cases hap : fragmentTypeApplies s obj on with
          | error e => simp
          | ok a =>
            cases a with
            | false => simpa using ih seen g hrest hg
            | true =>
              simp only [Bool.not_true, Bool.false_eq_true, if_false]
              obtain ⟨heq, hret⟩ := hf obj sub seen hsel
              rw [← heq]
              cases hr : f obj sub seen with
              | error e => simp
              | ok p =>
                obtain ⟨gs, seens⟩ := p
                obtain ⟨rfl, hgs⟩ := hret gs seens hr
                have hm := mergeInto_nodesFree gs g hgs hg
                simpa using ih seens _ hrest hm

private theorem collect_agree (s : SchemaD) (doc : Doc) (vars : Vars) (fuel : Nat) :
    CollectAgree (collectFields s doc vars fuel) (collectFieldsS s doc vars fuel) := by
  induction fuel with
  | zero => intro obj sels seen _; simp [collectFields, collectFieldsS]
  | succ n ih =>
    intro obj sels seen hsf
    simp only [collectFields, collectFieldsS]
    exact collectStep_agree s doc vars _ _ ih obj sels seen [] hsf (by intro kv h; simp at h)

private theorem mergedSelections_free (nodes : List FNode) (h : ∀ n ∈ nodes, selsSpreadFree n.sub = true) :
    selsSpreadFree (mergedSelections nodes) = true := by
  induction nodes with
  | nil => simp [mergedSelections, selsSpreadFree]
  | cons n rest ih =>
    have h1 := h n (by simp)
    have h2 := ih (fun m hm => h m (by simp [hm]))
    simp only [mergedSelections, List.flatMap_cons] at h2 ⊢
    rw [selsSpreadFree_append]
    by_cases hs : n.hasSub
    · simp [hs, h1, h2]
    · simp [hs, selsSpreadFree, h2]

private theorem completeList_agree (f fS : Path → RVal → R (Data × List Err)) (h : ∀ p v, f p v = fS p v) (path : Path) :
    ∀ (vs : List RVal) (i : Nat), completeList f path i vs = completeListS fS path i vs := by
  intro vs
  induction vs with
  | nil => intro i; simp [completeList, completeListS]
  | cons v rest ih => intro i; simp [completeList, completeListS, h, ih]

private theorem completeValue_agree (s : SchemaD) (e eS : String → Path → List Sel → R (Data × List Err))
    (nodes : List FNode) (he : ∀ rt p, e rt p (mergedSelections nodes) = eS rt p (mergedSelections nodes)) :
    ∀ (t : Ty) (path : Path) (v : RVal), completeValue s e nodes t path v = completeValueS s eS nodes t path v := by
  intro t
  induction t with
  | named n =>
    intro path v
    have hms : mergeSelectionSets nodes = mergedSelections nodes := rfl
    cases v with
    | null => simp [completeValue, completeValueS]
    | leaf j =>
      simp only [completeValue, completeValueS, hms]
      cases kindOf s n with
      | none => simp
      | some k => cases k <;> simp [he] <;> (cases serializeLeaf s n j <;> rfl)
    | list vs =>
      simp only [completeValue, completeValueS, hms]
      cases kindOf s n with
      | none => simp
      | some k => cases k <;> simp [he]
    | raise vs msg ext =>
      simp only [completeValue, completeValueS, hms]
      cases kindOf s n with
      | none => simp
      | some k => cases k <;> simp [he]
    | obj rt =>
      simp only [completeValue, completeValueS, hms]
      cases kindOf s n with
      | none => simp
      | some k =>
        cases k <;> simp [he]
        all_goals
          cases kindOf s rt with
          | none => simp
          | some k2 => cases k2 <;> simp [he]
  | list t ih =>
    intro path v
    cases v with
    | null => simp [completeValue, completeValueS]
    | leaf j => cases j <;> simp [completeValue, completeValueS]
    | obj rt => simp [completeValue, completeValueS]
    | raise vs msg ext =>
      simp only [completeValue, completeValueS]
      rw [completeList_agree _ _ (fun p v => ih p v) path vs 0]
      cases completeListS (completeValueS s eS nodes t) path 0 vs <;> rfl
    | list vs =>
      simp only [completeValue, completeValueS]
      rw [completeList_agree _ _ (fun p v => ih p v) path vs 0]
  | nonNull t ih =>
    intro path v
    simp only [completeValue, completeValueS, ih, nodeLocs]

private theorem executeGroups_agree (s : SchemaD) (w : World) (e eS : String → Path → List Sel → R (Data × List Err))
    (he : ∀ rt p sels, selsSpreadFree sels = true → e rt p sels = eS rt p sels) (parent : String) (path : Path) :
    ∀ g : Grouped, NodesFree g → executeGroups s w e parent path g = executeGroupsS s w eS parent path g := by
  intro g
  induction g with
  | nil => intro _; simp [executeGroups, executeGroupsS]
  | cons kv rest ih =>
    intro hg
    obtain ⟨key, nodes⟩ := kv
    have hrest : NodesFree rest := fun kv hkv => hg kv (by simp [hkv])
    cases nodes with
    | nil => simp [executeGroups, executeGroupsS]
    | cons node more =>
      have hfree : selsSpreadFree (mergedSelections (node :: more)) = true :=
        mergedSelections_free _ (fun n hn => hg (key, node :: more) (by simp) n hn)
      have hcv := completeValue_agree s e eS (node :: more) (fun rt p => he rt p _ hfree)
      simp only [executeGroups, executeGroupsS, ih hrest]
      split
      · rfl
      · cases fieldOf s parent node.name with
        | none => rfl
        | some fd =>
          simp only [resolveField, executeFieldS]
          cases (node.args.find? (·.1 == parent)).map (·.2) with
          | none => rfl
          | some o =>
            cases o with
            | none => rfl
            | some a =>
              simp only []
              cases w parent fd.name (path ++ [Seg.key key]) a with
              | err m x => rfl
              | boom => rfl
              | val v => simp only [hcv]

/-- **exec_refines_spec_spreadfree_exact** — EXACT equality (error locations included), for selection sets WITHOUT named fragment spreads (inline fragments,
    aliases, directives, abstract types, lists, resolver errors, non-null violations all included), for every
    schema, world, variables and fuel: the model's result (ordered data AND error list, or failure) is equal to
    the result of the specification's algorithm. Excluded: named fragment spreads, where the `_seen_fragments`
    rebinding makes the grouped node lists differ by duplicates (see the witness below); that case is covered by
    the correspondence (model vs Lean spec vs real executor on every generated request). -/
theorem exec_refines_spec_spreadfree_exact (s : SchemaD) (doc : Doc) (vars : Vars) (w : World) (cf : Nat) :
    ∀ (fuel : Nat) (parent : String) (path : Path) (sels : List Sel), selsSpreadFree sels = true →
      executeFields s doc vars w cf fuel parent path sels = executeSelectionSetS s doc vars w cf fuel parent path sels := by
  intro fuel
  induction fuel with
  | zero => intro parent path sels _; simp [executeFields, executeSelectionSetS]
  | succ n ih =>
    intro parent path sels hsf
    simp only [executeFields, executeSelectionSetS, bind, Except.bind]
    obtain ⟨heq, hret⟩ := collect_agree s doc vars cf parent sels [] hsf
    rw [← heq]
    cases hc : collectFields s doc vars cf parent sels [] with
    | error e => rfl
    | ok p =>
      obtain ⟨g, seen'⟩ := p
      obtain ⟨_, hg⟩ := hret g seen' hc
      simp only [catchDirective_ok, executeGroups_agree s w _ _ (fun rt p sels h => ih rt p sels h) parent path g hg]

/-! ### the whole difference between model and specification is confined to `collect_fields` -/

private theorem completeValue_agree' (s : SchemaD) (e eS : String → Path → List Sel → R (Data × List Err))
    (nodes : List FNode) (he : ∀ rt p sels, e rt p sels = eS rt p sels) :
    ∀ (t : Ty) (path : Path) (v : RVal), completeValue s e nodes t path v = completeValueS s eS nodes t path v :=
  completeValue_agree s e eS nodes (fun rt p => he rt p _)

private theorem executeGroups_agree' (s : SchemaD) (w : World) (e eS : String → Path → List Sel → R (Data × List Err))
    (he : ∀ rt p sels, e rt p sels = eS rt p sels) (parent : String) (path : Path) :
    ∀ g : Grouped, executeGroups s w e parent path g = executeGroupsS s w eS parent path g := by
  intro g
  induction g with
  | nil => simp [executeGroups, executeGroupsS]
  | cons kv rest ih =>
    obtain ⟨key, nodes⟩ := kv
    cases nodes with
    | nil => simp [executeGroups, executeGroupsS]
    | cons node more =>
      have hcv := completeValue_agree' s e eS (node :: more) he
      simp only [executeGroups, executeGroupsS, ih]
      split
      · rfl
      · cases fieldOf s parent node.name with
        | none => rfl
        | some fd =>
          simp only [resolveField, executeFieldS]
          cases (node.args.find? (·.1 == parent)).map (·.2) with
          | none => rfl
          | some o =>
            cases o with
            | none => rfl
            | some a =>
              simp only []
              cases w parent fd.name (path ++ [Seg.key key]) a with
              | err m x => rfl
              | boom => rfl
              | val v => simp only [hcv]

/-- **exec_refines_spec_of_collect**: for ALL documents — if the model's `collect_fields` and the specification's
    `CollectFields` return the same grouped field set on the top-level calls the executor makes, then the model's
    response equals the specification's. So field resolution, value completion, serialisation, abstract types, the
    null/error handling and the sub-selection merge add NO difference: what remains open for documents with named
    spreads is exclusively the collect-level statement (model groups = spec groups up to repeated nodes). -/
theorem exec_refines_spec_of_collect (s : SchemaD) (doc : Doc) (vars : Vars) (w : World) (cf : Nat)
    (hc : ∀ obj sels, (collectFields s doc vars cf obj sels []).map (·.1) = (collectFieldsS s doc vars cf obj sels []).map (·.1)) :
    ∀ (fuel : Nat) (parent : String) (path : Path) (sels : List Sel),
      executeFields s doc vars w cf fuel parent path sels = executeSelectionSetS s doc vars w cf fuel parent path sels := by
  intro fuel
  induction fuel with
  | zero => intro parent path sels; simp [executeFields, executeSelectionSetS]
  | succ n ih =>
    intro parent path sels
    simp only [executeFields, executeSelectionSetS, bind, Except.bind]
    have h := hc parent sels
    cases h1 : collectFields s doc vars cf parent sels [] with
    | error e =>
      cases h2 : collectFieldsS s doc vars cf parent sels [] with
      | error e2 => simp [h1, h2, Except.map] at h; simp [h]
      | ok p2 => simp [h1, h2, Except.map] at h
    | ok p1 =>
      cases h2 : collectFieldsS s doc vars cf parent sels [] with
      | error e2 => simp [h1, h2, Except.map] at h
      | ok p2 =>
        simp [h1, h2, Except.map] at h
        simp only [h, catchDirective_ok, executeGroups_agree' s w _ _ (fun rt p sels => ih rt p sels) parent path p2.1]

/-- Earlier formulation of the full statement with `eraseDups`; the statement actually PROVED for all documents with ranked
    fragments is `ExecRefinesSpecUpToLocations` (`exec_refines_spec`, `Props/C04_spreads.lean`), where "up to duplicate
    locations" is the relation `Rep`. -/
def ExecRefinesSpec (s : SchemaD) (doc : Doc) (vars : Vars) (w : World) (cf fuel : Nat) (root : String) (sels : List Sel) : Prop :=
  ∀ d es, executeFields s doc vars w cf fuel root [] sels = .ok (d, es) →
    ∃ es', executeSelectionSetS s doc vars w cf fuel root [] sels = .ok (d, es') ∧
      es.map (fun e => (e.path, e.locs.eraseDups)) = es'.map (fun e => (e.path, e.locs.eraseDups))


/-! ### the `_seen_fragments` quirk: refutation of exact equality of grouped field sets, on a concrete document

    `{ ... on Query { ...F }  ...F }   fragment F on Query { a }`  -/

def qSchema : SchemaD := { types := [{ kind := .object, name := "Query", fields := [{ name := "a", type := .named "Int" }] }] }
def qNodeA : Sel := .field "a" "a" 60 [] [("Query", some "{}")] false []
def qDoc : Doc :=
  { ops := [{ kind := "query", name := none, sels := [.inline (some "Query") [] [.spread "F" []], .spread "F" []] }],
    frags := [{ name := "F", on := "Query", sels := [qNodeA] }] }

def groupSizes (r : R (Grouped × List String)) : List (String × Nat) :=
  match r with
  | .ok (g, _) => g.map fun kv => (kv.1, kv.2.length)
  | .error _ => []

/-- model: the node of `a` is collected TWICE (the set created for the inline fragment is thrown away) -/
theorem seen_fragments_quirk_duplicates_nodes :
    groupSizes (collectFields qSchema qDoc [] 5 "Query" [.inline (some "Query") [] [.spread "F" []], .spread "F" []] []) = [("a", 2)]
    ∧ groupSizes (collectFieldsS qSchema qDoc [] 5 "Query" [.inline (some "Query") [] [.spread "F" []], .spread "F" []] []) = [("a", 1)] := by
  constructor <;> decide

/-- hence "model grouped field set = specification grouped field set" is FALSE in general … -/
theorem grouped_equality_refuted :
    ¬ (∀ (s : SchemaD) (doc : Doc) (vars : Vars) (fuel : Nat) (obj : String) (sels : List Sel),
        groupSizes (collectFields s doc vars fuel obj sels []) = groupSizes (collectFieldsS s doc vars fuel obj sels [])) := by
  intro h
  have := h qSchema qDoc [] 5 "Query" [.inline (some "Query") [] [.spread "F" []], .spread "F" []]
  rw [seen_fragments_quirk_duplicates_nodes.1, seen_fragments_quirk_duplicates_nodes.2] at this
  exact absurd this (by decide)

def constWorld : World := fun _ _ _ _ => .val (.leaf (.num 7))

def dataKeys (r : Response) : List String × Nat :=
  match r with
  | .result (.obj kvs) es => (kvs.map (·.1), es.length)
  | _ => ([], 99)

/-- … while the RESPONSE of the witness is the same in model and specification (duplicates only repeat nodes
    inside one group; the first node, hence the resolved field and its location, is unchanged) -/
theorem quirk_witness_same_response :
    dataKeys (execute qSchema qDoc [] constWorld none 5 5) = (["a"], 0)
    ∧ dataKeys (executeRequestS qSchema qDoc [] constWorld none 5 5) = (["a"], 0) := by
  constructor <;> decide

/-- non-vacuity of `exec_refines_spec_spreadfree_exact`: a spread-free selection set with alias, directive and inline fragment -/
example : selsSpreadFree [.field "x" "a" 2 [⟨"skip", .lit false⟩] [] false [], .inline (some "Query") [] [qNodeA]] = true := by decide

end PyGql.Props.C04

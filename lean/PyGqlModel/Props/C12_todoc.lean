/-
  C12 — `to_doc_build`: building the definitions the printer writes (`schemaToDoc`) gives the schema back.
  Member level, for members without default values (defaults: `default_roundtrip`).
-/
import PyGqlModel.SdlPrint
import PyGqlModel.Props.C11_merge

set_option linter.unusedVariables false
set_option linter.unusedSimpArgs false

namespace PyGql.Props.C12
open PyGql PyGql.Sdl PyGql.SdlPrint PyGql.Props.C11

/-- an argument / input field without a default value, of a known type -/
def PlainArg (env : Env) (a : ArgD) : Prop :=
  a.hasDefault = false ∧ a.default = .null ∧ env.resolves a.type.base = true ∧ a.pythonName = a.name

theorem arg_to_doc_build (s : SchemaD) (env : Env) (a : ArgD) (h : PlainArg env a) : buildArgument env (argToDef s a) = .ok a := by
  obtain ⟨h1, h2, h3, h4⟩ := h
  cases a
  simp only [] at h1 h2 h3 h4
  subst h1 h2 h4
  simp [buildArgument, argToDef, checkRef, h3, bind, Except.bind, pure, Except.pure]

theorem mapM_to_doc {α β} (g : β → α) (f : α → R β) : ∀ (l : List β), (∀ x ∈ l, f (g x) = .ok x) → (l.map g).mapM f = .ok l := by
  intro l
  induction l with
  | nil => intro _; rfl
  | cons x xs ih =>
    intro h
    rw [List.map_cons, List.mapM_cons, h x (by simp), ih (fun y hy => h y (by simp [hy]))]
    rfl

theorem depr_roundtrip (r : Option String) : deprecationReason (deprDirs r) = .ok r := by
  cases r <;> simp [deprDirs, deprecationReason, lookupLast, pure, Except.pure]

/-- a field whose arguments are plain, with no resolver attached (by-name content) and not "deprecated" with an
    empty reason (which `Field` does not regard as a deprecation) -/
def PlainField (env : Env) (f : FieldD) : Prop :=
  (∀ a ∈ f.args, PlainArg env a) ∧ env.resolves f.type.base = true ∧ f.resolver = none ∧ f.deprecated ≠ some ""

theorem field_to_doc_build (s : SchemaD) (env : Env) (f : FieldD) (h : PlainField env f) : buildField env (fieldToDef s f) = .ok f := by
  obtain ⟨h1, h2, h3, h4⟩ := h
  have hargs := mapM_to_doc (argToDef s) (buildArgument env) f.args (fun a ha => arg_to_doc_build s env a (h1 a ha))
  cases f with
  | mk name type args deprecated desc resolver =>
    simp only [] at h2 h3 h4 hargs
    subst h3
    have hd : fieldDeprecation deprecated = deprecated := by
      cases deprecated with
      | none => rfl
      | some x =>
        unfold fieldDeprecation
        split
        · rename_i heq; cases heq; exact absurd rfl h4
        · rfl
    simp [buildField, fieldToDef, checkRef, h2, hargs, depr_roundtrip, hd, bind, Except.bind, pure, Except.pure]

theorem enum_value_to_doc_build (v : EnumValD) (hv : v.value = .str v.name) (hn : reservedEnumNames.contains v.name = false) :
    buildEnumValue (enumValToDef v) = .ok v := by
  cases v
  simp only [] at hv hn
  subst hv
  have hn' := hn
  simp only [List.contains_eq_mem, decide_eq_false_iff_not] at hn'
  simp [buildEnumValue, enumValToDef, failIf, hn', depr_roundtrip, bind, Except.bind, pure, Except.pure]

end PyGql.Props.C12

/-
  C12 — `to_doc_build`: building the definitions the printer writes (`schemaToDoc`) gives the schema back.
  Member level, for members without default values (defaults: `default_roundtrip`).
-/
import PyGqlModel.SdlPrint
import PyGqlModel.Props.C11_merge

set_option linter.unusedVariables false
set_option linter.unusedSimpArgs false

namespace PyGql.Props.C12
open PyGql PyGql.Sdl PyGql.SdlPrint PyGql.Props.C11

/-- an argument / input field without a default value, of a known type -/
def PlainArg (env : Env) (a : ArgD) : Prop :=
  a.hasDefault = false ∧ a.default = .null ∧ env.resolves a.type.base = true ∧ a.pythonName = a.name

theorem arg_to_doc_build (s : SchemaD) (env : Env) (a : ArgD) (h : PlainArg env a) : buildArgument env (argToDef s a) = .ok a := by
  obtain ⟨h1, h2, h3, h4⟩ := h
  cases a
  simp only [] at h1 h2 h3 h4
  subst h1 h2 h4
  simp [buildArgument, argToDef, checkRef, h3, bind, Except.bind, pure, Except.pure]

theorem mapM_to_doc {α β} (g : β → α) (f : α → R β) : ∀ (l : List β), (∀ x ∈ l, f (g x) = .ok x) → (l.map g).mapM f = .ok l := by
  intro l
  induction l with
  | nil => intro _; rfl
  | cons x xs ih =>
    intro h
    rw [List.map_cons, List.mapM_cons, h x (by simp), ih (fun y hy => h y (by simp [hy]))]
    rfl

theorem depr_roundtrip (r : Option String) : deprecationReason (deprDirs r) = .ok r := by
  cases r <;> simp [deprDirs, deprecationReason, lookupLast, pure, Except.pure]

/-- a field whose arguments are plain, with no resolver attached (by-name content) and not "deprecated" with an
    empty reason (which `Field` does not regard as a deprecation) -/
def PlainField (env : Env) (f : FieldD) : Prop :=
  (∀ a ∈ f.args, PlainArg env a) ∧ env.resolves f.type.base = true ∧ f.resolver = none ∧ f.deprecated ≠ some ""

theorem field_to_doc_build (s : SchemaD) (env : Env) (f : FieldD) (h : PlainField env f) : buildField env (fieldToDef s f) = .ok f := by
  obtain ⟨h1, h2, h3, h4⟩ := h
  have hargs := mapM_to_doc (argToDef s) (buildArgument env) f.args (fun a ha => arg_to_doc_build s env a (h1 a ha))
  cases f with
  | mk name type args deprecated desc resolver =>
    simp only [] at h2 h3 h4 hargs
    subst h3
    have hd : fieldDeprecation deprecated = deprecated := by
      cases deprecated with
      | none => rfl
      | some x =>
        unfold fieldDeprecation
        split
        · rename_i heq; cases heq; exact absurd rfl h4
        · rfl
    simp [buildField, fieldToDef, checkRef, h2, hargs, depr_roundtrip, hd, bind, Except.bind, pure, Except.pure]

theorem enum_value_to_doc_build (v : EnumValD) (hv : v.value = .str v.name) (hn : reservedEnumNames.contains v.name = false) :
    buildEnumValue (enumValToDef v) = .ok v := by
  cases v
  simp only [] at hv hn
  subst hv
  have hn' := hn
  simp only [List.contains_eq_mem, decide_eq_false_iff_not] at hn'
  simp [buildEnumValue, enumValToDef, failIf, hn', depr_roundtrip, bind, Except.bind, pure, Except.pure]

/-- a type whose members are plain, carrying nothing but by-name content, with only the member lists of its kind -/
structure PlainType (env : Env) (t : TypeD) : Prop where
  fields : ∀ f ∈ t.fields, PlainField env f
  inputFields : ∀ a ∈ t.inputFields, PlainArg env a
  values : ∀ v ∈ t.values, v.value = .str v.name ∧ reservedEnumNames.contains v.name = false
  valuesUnique : hasDup (t.values.map (·.name)) = false
  interfaces : t.interfaces.all env.resolves = true
  members : t.members.all env.resolves = true
  noResolver : t.defaultResolver = none
  notBuiltin : t.builtin = false
  shape : match t.kind with
    | .scalar => t.interfaces = [] ∧ t.fields = [] ∧ t.members = [] ∧ t.values = [] ∧ t.inputFields = []
    | .object => t.members = [] ∧ t.values = [] ∧ t.inputFields = []
    | .interface => t.interfaces = [] ∧ t.members = [] ∧ t.values = [] ∧ t.inputFields = []
    | .union => t.interfaces = [] ∧ t.fields = [] ∧ t.values = [] ∧ t.inputFields = []
    | .enum => t.interfaces = [] ∧ t.fields = [] ∧ t.members = [] ∧ t.inputFields = []
    | .input => t.interfaces = [] ∧ t.fields = [] ∧ t.members = [] ∧ t.values = []

/-- **to_doc_build**, type level: building the definition the printer writes for a type gives the type back
    (all six kinds; members without default values — defaults are `default_roundtrip`). -/
theorem type_to_doc_build (s : SchemaD) (env : Env) (t : TypeD) (h : PlainType env t) : buildTypeDef env (typeToDef s t) = .ok t := by
  have hf := mapM_to_doc (fieldToDef s) (buildField env) t.fields (fun f hf => field_to_doc_build s env f (h.fields f hf))
  have hi := mapM_to_doc (argToDef s) (buildArgument env) t.inputFields (fun a ha => arg_to_doc_build s env a (h.inputFields a ha))
  have hv := mapM_to_doc enumValToDef buildEnumValue t.values (fun v hv => enum_value_to_doc_build v (h.values v hv).1 (h.values v hv).2)
  have hci : checkNames env t.interfaces = .ok () := (checkNames_ok_iff env _).mpr h.interfaces
  have hcm : checkNames env t.members = .ok () := (checkNames_ok_iff env _).mpr h.members
  have hdup : hasDup ((t.values.map enumValToDef).map (·.name)) = false := by
    rw [List.map_map]; exact h.valuesUnique
  have hs := h.shape
  have h1 := h.noResolver
  have h2 := h.notBuiltin
  cases t with
  | mk kind name desc interfaces fields members values inputFields defaultResolver builtin =>
    simp only [] at hf hi hv hci hcm hdup hs h1 h2
    subst h1 h2
    cases kind <;> simp only [] at hs <;>
      simp_all [buildTypeDef, typeToDef, failIf, bind, Except.bind, pure, Except.pure]

end PyGql.Props.C12

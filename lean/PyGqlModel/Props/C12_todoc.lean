/-
  C12 — `print_build_roundtrip`: building the document the schema printer denotes (`schemaToDoc`) gives the schema
  back, for every schema description satisfying the explicit, decidable well-formedness predicate `PrintBuildWF`.
  Part 1: values — the literal written for a default value is read back, over the printed document's own
  environment (`docEnv`), as the same value.
-/
import PyGqlModel.SdlPrint
import PyGqlModel.Props.C11_merge
import Std.Data.String.ToInt

set_option linter.unusedVariables false
set_option linter.unusedSimpArgs false
set_option linter.unnecessarySimpa false

namespace PyGql.Props.C12
open PyGql PyGql.Sdl PyGql.SdlPrint PyGql.Props.C11

/-- what the builder sees when it reads the printed document: the printed definitions, by name -/
def docEnv (s : SchemaD) : Env := Env.of (s.types.map (typeToDef s))

theorem docEnv_findAdditional (s : SchemaD) (n : String) : (docEnv s).findAdditional n = none := rfl

theorem docEnv_findDef (s : SchemaD) (n : String) : (docEnv s).findDef n = (s.findType n).map (typeToDef s) := by
  simp only [docEnv, Env.of, SchemaD.findType]
  induction s.types with
  | nil => rfl
  | cons t ts ih =>
    simp only [List.map_cons, List.find?_cons]
    have : (typeToDef s t).name = t.name := rfl
    rw [this]
    cases (t.name == n) <;> simp [ih]

/-! ### named exclusions (findings that the round trip does not survive) -/

/-- **NoH8 / Float**: the float with repr `r` is finite and prints to a literal that denotes it (`-0.0` prints as `0`) -/
def floatOK (r : String) : Bool :=
  finiteRepr r && (match floatLit r with | .float _ f => f == r | .int _ f => f == r | _ => false)

/-- canonical NON-NULL value of the named leaf type `nm` -/
def leafOK (s : SchemaD) (nm : String) (v : J) : Bool :=
  if nm == "Boolean" then (match v with | .bool _ => true | _ => false)
  else if nm == "Int" then (match v with | .num k => decide (MIN_INT ≤ k) && decide (k ≤ MAX_INT) | _ => false)
  else if nm == "String" then (match v with | .str _ => true | _ => false)
  else if nm == "ID" then (match v with | .str _ => true | _ => false)
  else if nm == "Float" then (match v with | .obj [("$float", .str r)] => floatOK r | _ => false)
  else match s.findType nm with
    | none => false
    | some t =>
      match t.kind with
      | .scalar => (match v with | .bool _ => true | .str _ => true | _ => false)
      | .enum =>
        (match v with
         | .str x => (match t.values.find? (fun ev => jEq ev.value (.str x)) with | some ev => ev.name == x | none => false)
         | _ => false)
      | _ => false

private theorem toInt_toString (k : Int) : (toString k).toInt? = some k := by
  have := Int.toInt?_repr k
  simpa using this

private theorem find_mem {α} (p : α → Bool) (l : List α) (x : α) (h : l.find? p = some x) : x ∈ l ∧ p x = true := by
  induction l with
  | nil => simp at h
  | cons a as ih =>
    simp only [List.find?_cons] at h
    cases hp : p a with
    | true => rw [hp] at h; simp at h; subst h; exact ⟨by simp, hp⟩
    | false => rw [hp] at h; have := ih h; exact ⟨by simp [this.1], this.2⟩

theorem leaf_roundtrip_doc (s : SchemaD) (nm : String) (v : J) (h : leafOK s nm v = true) (fuel : Nat) :
    ∃ lit, valueLit s (fuel+1) v (.named nm) = some lit ∧ valueFromAst (docEnv s) (fuel+1) lit (.named nm) = some (some v) ∧ lit ≠ .null := by
  unfold leafOK at h
  by_cases h1 : (nm == "Boolean") = true
  · have e : nm = "Boolean" := by simpa using h1
    subst e
    cases v <;> simp at h
    rename_i b
    exact ⟨.bool b, by simp [valueLit, builtinScalars, builtinLit], by simp [valueFromAst, builtinScalars, scalarLiteral, pure], by simp⟩
  by_cases h2 : (nm == "Int") = true
  · have e : nm = "Int" := by simpa using h2
    subst e
    cases v <;> simp at h
    rename_i k
    refine ⟨.int (toString k) (intRepr k), by simp [valueLit, builtinScalars, builtinLit], ?_, by simp⟩
    simp [valueFromAst, builtinScalars, scalarLiteral, pure, toInt_toString, h.1, h.2]
  by_cases h3 : (nm == "String") = true
  · have e : nm = "String" := by simpa using h3
    subst e
    cases v <;> simp at h
    rename_i x
    exact ⟨.str x, by simp [valueLit, builtinScalars, builtinLit], by simp [valueFromAst, builtinScalars, scalarLiteral, pure], by simp⟩
  by_cases h4 : (nm == "ID") = true
  · have e : nm = "ID" := by simpa using h4
    subst e
    cases v <;> simp at h
    rename_i x
    by_cases hx : isIntText x = true
    · exact ⟨.int x (x ++ ".0"), by simp [valueLit, builtinScalars, builtinLit, hx], by simp [valueFromAst, builtinScalars, scalarLiteral, pure], by simp⟩
    · exact ⟨.str x, by simp [valueLit, builtinScalars, builtinLit, hx], by simp [valueFromAst, builtinScalars, scalarLiteral, pure], by simp⟩
  have n1 : nm ≠ "Boolean" := by simpa using h1
  have n2 : nm ≠ "Int" := by simpa using h2
  have n3 : nm ≠ "String" := by simpa using h3
  have n4 : nm ≠ "ID" := by simpa using h4
  simp only [h1, h2, h3, h4, Bool.false_eq_true, if_false] at h
  by_cases h5 : (nm == "Float") = true
  · have e : nm = "Float" := by simpa using h5
    subst e
    simp only [h5, if_true] at h
    split at h
    · rename_i r
      simp only [floatOK, Bool.and_eq_true] at h
      obtain ⟨hfin, hc⟩ := h
      cases hl : floatLit r with
      | float a f =>
        rw [hl] at hc
        have ef : f = r := by simpa using hc
        subst ef
        refine ⟨.float a f, by simp [valueLit, builtinScalars, builtinLit, hl], ?_, by simp⟩
        simp [valueFromAst, builtinScalars, scalarLiteral, pure, hfin, floatJ]
      | int a f =>
        rw [hl] at hc
        have ef : f = r := by simpa using hc
        subst ef
        refine ⟨.int a f, by simp [valueLit, builtinScalars, builtinLit, hl], ?_, by simp⟩
        simp [valueFromAst, builtinScalars, scalarLiteral, pure, hfin, floatJ]
      | null => rw [hl] at hc; simp at hc
      | str _ => rw [hl] at hc; simp at hc
      | bool _ => rw [hl] at hc; simp at hc
      | «enum» _ => rw [hl] at hc; simp at hc
      | list _ => rw [hl] at hc; simp at hc
      | obj _ => rw [hl] at hc; simp at hc
    · simp at h
  have n5 : nm ≠ "Float" := by simpa using h5
  have hnb : nm ∉ builtinScalars := by simp [builtinScalars, n1, n2, n3, n4, n5]
  simp only [h5, Bool.false_eq_true, if_false] at h
  cases ht : s.findType nm with
  | none => simp [ht] at h
  | some t =>
    simp only [ht] at h
    have hdef : (docEnv s).findDef nm = some (typeToDef s t) := by rw [docEnv_findDef, ht]; rfl
    have hadd := docEnv_findAdditional s nm
    cases hk : t.kind <;> simp only [hk] at h <;> try (simp at h)
    · -- custom scalar
      have hdk : (typeToDef s t).kind = .scalar := hk
      cases v <;> simp at h
      · rename_i b
        exact ⟨.bool b, by simp [valueLit, hnb, ht, hk, customLit],
          by simp [valueFromAst, hnb, hadd, hdef, hdk, scalarLiteral, pure], by simp⟩
      · rename_i x
        by_cases hx : isIntText x = true
        · exact ⟨.int x (x ++ ".0"), by simp [valueLit, hnb, ht, hk, customLit, hx],
            by simp [valueFromAst, hnb, hadd, hdef, hdk, scalarLiteral, pure], by simp⟩
        · by_cases hfr : isFloatRepr x = true
          · exact ⟨.float x x, by simp [valueLit, hnb, ht, hk, customLit, hx, hfr],
              by simp [valueFromAst, hnb, hadd, hdef, hdk, scalarLiteral, pure], by simp⟩
          · exact ⟨.str x, by simp [valueLit, hnb, ht, hk, customLit, hx, hfr],
              by simp [valueFromAst, hnb, hadd, hdef, hdk, scalarLiteral, pure], by simp⟩
    · -- enum
      have hdk : (typeToDef s t).kind = .enum := hk
      cases v <;> simp at h
      rename_i x
      cases hf : t.values.find? (fun ev => jEq ev.value (.str x)) with
      | none => simp [hf] at h
      | some ev =>
        simp only [hf] at h
        have en : ev.name = x := by simpa using h
        obtain ⟨hmem, _⟩ := find_mem _ _ _ hf
        have hany : (typeToDef s t).values.any (·.name == x) = true := by
          simp only [typeToDef, List.any_map, List.any_eq_true]
          exact ⟨ev, hmem, by simp [enumValToDef, en]⟩
        refine ⟨.enum ev.name, by simp [valueLit, hnb, ht, hk, hf], ?_, by simp⟩
        rw [en]
        simp [valueFromAst, hnb, hadd, hdef, hdk, pure, hany]

/-! ### canonical values of every input type (leaves, wrappers, input objects) -/

/-- **NoH2** (with "required fields are present"): a field may be ABSENT from an input-object value only if it has no
    default and is nullable. A value that omits a defaulted field prints without it and is read back with it. -/
def skippable (f : ArgD) : Bool := !f.hasDefault && !f.type.isNonNull

mutual
/-- canonical value `v` of type `ty` (what `build_schema` stores for a default of that type), fuel-indexed like the
    printer and the builder -/
def wtB (s : SchemaD) : Nat → J → Ty → Bool
  | 0, _, _ => false
  | n+1, v, .nonNull t => (match v with | .null => false | _ => true) && wtB s n v t
  | n+1, v, .list t =>
    match v with
    | .null => true
    | .arr items => wtsB s n items t
    | _ => false
  | n+1, v, .named nm =>
    match v with
    | .null => true
    | _ =>
      if builtinScalars.contains nm then leafOK s nm v
      else match s.findType nm with
        | none => false
        | some t =>
          if t.kind == .input then
            (match v with
             | .obj kvs => !hasDup (t.inputFields.map (·.name)) && wtF s n t.inputFields kvs
             | _ => false)
          else leafOK s nm v
def wtsB (s : SchemaD) : Nat → List J → Ty → Bool
  | 0, _, _ => false
  | _+1, [], _ => true
  | n+1, x :: xs, t => wtB s n x t && wtsB s n xs t
/-- the keys of an input-object value are exactly the fields that are present, in the order of the type -/
def wtF (s : SchemaD) : Nat → List ArgD → List (String × J) → Bool
  | 0, _, _ => false
  | _+1, [], [] => true
  | _+1, [], _ :: _ => false
  | n+1, f :: fs, [] => skippable f && wtF s n fs []
  | n+1, f :: fs, (k, v) :: rest =>
    if k == f.name then wtB s n v f.type && wtF s n fs rest
    else skippable f && wtF s n fs ((k, v) :: rest)
end

/-! #### lookups in object literals -/

theorem lookupLast_notin (L : List (String × Lit)) (g : String) (h : g ∉ L.map (·.1)) : lookupLast L g = none := by
  simp only [lookupLast, Option.map_eq_none_iff, List.find?_eq_none, List.mem_reverse]
  intro x hx
  simp only [beq_iff_eq]
  intro e
  exact h (List.mem_map.mpr ⟨x, hx, e⟩)

theorem lookupLast_cons_ne (L : List (String × Lit)) (k g : String) (l : Lit) (h : k ≠ g) :
    lookupLast ((k, l) :: L) g = lookupLast L g := by
  simp only [lookupLast, List.reverse_cons, List.find?_append]
  cases hf : L.reverse.find? (fun x => x.1 == g) with
  | some x => simp
  | none => simp [h]

theorem lookupLast_cons_self (L : List (String × Lit)) (k : String) (l : Lit) (h : k ∉ L.map (·.1)) :
    lookupLast ((k, l) :: L) k = some l := by
  have hn := lookupLast_notin L k h
  simp only [lookupLast, Option.map_eq_none_iff] at hn
  simp only [lookupLast, List.reverse_cons, List.find?_append, hn]
  simp

theorem hasDup_false_iff (l : List String) : hasDup l = false ↔ l.Nodup := by
  induction l with
  | nil => simp [hasDup]
  | cons x xs ih =>
    simp only [hasDup, Bool.or_eq_false_iff, List.nodup_cons, ih]
    simp

theorem fieldsLit_skip (s : SchemaD) (k : String) (v : J) : ∀ (fs : List ArgD) (n : Nat) (kvs : List (String × J)),
    k ∉ fs.map (·.name) → fieldsLit s n ((k, v) :: kvs) fs = fieldsLit s n kvs fs := by
  intro fs
  induction fs with
  | nil => intro n kvs _; cases n <;> simp [fieldsLit]
  | cons f fs ih =>
    intro n kvs h
    simp only [List.map_cons, List.mem_cons, not_or] at h
    cases n with
    | zero => simp [fieldsLit]
    | succ n =>
      have hne : (k == f.name) = false := by simpa using h.1
      simp only [fieldsLit, ih n kvs h.2, List.find?_cons, hne]

theorem coerceDefFields_skip (env : Env) (k : String) (l : Lit) : ∀ (ds : List InputValDef) (n : Nat) (L : List (String × Lit)),
    k ∉ ds.map (·.name) → coerceDefFields env n ((k, l) :: L) ds = coerceDefFields env n L ds := by
  intro ds
  induction ds with
  | nil => intro n L _; cases n <;> simp [coerceDefFields]
  | cons d ds ih =>
    intro n L h
    simp only [List.map_cons, List.mem_cons, not_or] at h
    cases n with
    | zero => simp [coerceDefFields]
    | succ n =>
      simp only [coerceDefFields, ih n L h.2, lookupLast_cons_ne L k d.name l h.1]

theorem wtF_keys (s : SchemaD) : ∀ (n : Nat) (fs : List ArgD) (kvs : List (String × J)), wtF s n fs kvs = true →
    ∀ k ∈ kvs.map (·.1), k ∈ fs.map (·.name) := by
  intro n
  induction n with
  | zero => intro fs kvs h; simp [wtF] at h
  | succ n ih =>
    intro fs kvs h k hk
    cases fs with
    | nil => cases kvs with
      | nil => simp at hk
      | cons _ _ => simp [wtF] at h
    | cons f fs =>
      cases kvs with
      | nil => simp at hk
      | cons kv rest =>
        obtain ⟨k0, v0⟩ := kv
        simp only [wtF] at h
        by_cases hm : (k0 == f.name) = true
        · simp only [hm, if_true, Bool.and_eq_true] at h
          have e : k0 = f.name := by simpa using hm
          simp only [List.map_cons, List.mem_cons] at hk ⊢
          rcases hk with rfl | hk
          · exact Or.inl e
          · exact Or.inr (ih fs rest h.2 k hk)
        · simp only [hm, Bool.false_eq_true, if_false, Bool.and_eq_true] at h
          simp only [List.map_cons, List.mem_cons]
          exact Or.inr (ih fs ((k0, v0) :: rest) h.2 k hk)

private theorem find_none_notin (kvs : List (String × J)) (g : String) (h : g ∉ kvs.map (·.1)) :
    kvs.find? (fun x => x.1 == g) = none := by
  rw [List.find?_eq_none]
  intro x hx
  simp only [beq_iff_eq]
  intro e
  exact h (List.mem_map.mpr ⟨x, hx, e⟩)

private def nonNullV (v : J) : Bool := match v with | .null => false | _ => true

/-- the joint statement for values, item lists and field lists (one induction on the fuel) -/
private def RT (s : SchemaD) (n : Nat) : Prop :=
  (∀ v ty, wtB s n v ty = true → ∃ lit, valueLit s n v ty = some lit ∧ valueFromAst (docEnv s) n lit ty = some (some v) ∧
      (nonNullV v = true → lit ≠ .null)) ∧
  (∀ items t, wtsB s n items t = true → ∃ lits, itemsLit s n items t = some lits ∧ coerceItems (docEnv s) n lits t = some (some items)) ∧
  (∀ fs kvs, (fs.map (·.name)).Nodup → wtF s n fs kvs = true → ∃ L, fieldsLit s n kvs fs = some L ∧
      coerceDefFields (docEnv s) n L (fs.map (argToDef s)) = some (some (.obj kvs)) ∧ L.map (·.1) = kvs.map (·.1))

private theorem rt_values (s : SchemaD) (n : Nat) (ih : RT s n) :
    ∀ v ty, wtB s (n+1) v ty = true → ∃ lit, valueLit s (n+1) v ty = some lit ∧ valueFromAst (docEnv s) (n+1) lit ty = some (some v) ∧
      (nonNullV v = true → lit ≠ .null) := by
  obtain ⟨ihv, ihs, ihf⟩ := ih
  intro v ty h
  cases ty with
  | nonNull t =>
    simp only [wtB, Bool.and_eq_true] at h
    obtain ⟨hv, hw⟩ := h
    obtain ⟨lit, h1, h2, h3⟩ := ihv v t hw
    have hl := h3 hv
    refine ⟨lit, ?_, ?_, fun _ => hl⟩
    · simp only [valueLit, h1]
      cases lit <;> simp_all
    · cases lit <;> simp_all [valueFromAst]
  | list t =>
    simp only [wtB] at h
    cases v with
    | null => exact ⟨.null, by simp [valueLit], by simp [valueFromAst, pure], by simp [nonNullV]⟩
    | arr items =>
      simp only [] at h
      obtain ⟨lits, h1, h2⟩ := ihs items t h
      exact ⟨.list lits, by simp [valueLit, h1], by simp [valueFromAst, h2, bind, Option.bind, pure], by simp⟩
    | bool _ => simp at h
    | num _ => simp at h
    | str _ => simp at h
    | obj _ => simp at h
  | named nm =>
    cases v with
    | null => exact ⟨.null, by simp [valueLit], by simp [valueFromAst, pure], by simp [nonNullV]⟩
    | bool b =>
      simp only [wtB] at h
      by_cases hb : builtinScalars.contains nm = true
      · simp only [hb, if_true] at h
        obtain ⟨lit, a, b', c⟩ := leaf_roundtrip_doc s nm _ h n
        exact ⟨lit, a, b', fun _ => c⟩
      · simp only [hb, Bool.false_eq_true, if_false] at h
        cases ht : s.findType nm with
        | none => simp [ht] at h
        | some t =>
          simp only [ht] at h
          by_cases hk : (t.kind == .input) = true
          · simp [hk] at h
          · simp only [hk, Bool.false_eq_true, if_false] at h
            obtain ⟨lit, a, b', c⟩ := leaf_roundtrip_doc s nm _ h n
            exact ⟨lit, a, b', fun _ => c⟩
    | num k =>
      simp only [wtB] at h
      by_cases hb : builtinScalars.contains nm = true
      · simp only [hb, if_true] at h
        obtain ⟨lit, a, b', c⟩ := leaf_roundtrip_doc s nm _ h n
        exact ⟨lit, a, b', fun _ => c⟩
      · simp only [hb, Bool.false_eq_true, if_false] at h
        cases ht : s.findType nm with
        | none => simp [ht] at h
        | some t =>
          simp only [ht] at h
          by_cases hk : (t.kind == .input) = true
          · simp [hk] at h
          · simp only [hk, Bool.false_eq_true, if_false] at h
            obtain ⟨lit, a, b', c⟩ := leaf_roundtrip_doc s nm _ h n
            exact ⟨lit, a, b', fun _ => c⟩
    | str x =>
      simp only [wtB] at h
      by_cases hb : builtinScalars.contains nm = true
      · simp only [hb, if_true] at h
        obtain ⟨lit, a, b', c⟩ := leaf_roundtrip_doc s nm _ h n
        exact ⟨lit, a, b', fun _ => c⟩
      · simp only [hb, Bool.false_eq_true, if_false] at h
        cases ht : s.findType nm with
        | none => simp [ht] at h
        | some t =>
          simp only [ht] at h
          by_cases hk : (t.kind == .input) = true
          · simp [hk] at h
          · simp only [hk, Bool.false_eq_true, if_false] at h
            obtain ⟨lit, a, b', c⟩ := leaf_roundtrip_doc s nm _ h n
            exact ⟨lit, a, b', fun _ => c⟩
    | arr xs =>
      simp only [wtB] at h
      by_cases hb : builtinScalars.contains nm = true
      · simp only [hb, if_true] at h
        obtain ⟨lit, a, b', c⟩ := leaf_roundtrip_doc s nm _ h n
        exact ⟨lit, a, b', fun _ => c⟩
      · simp only [hb, Bool.false_eq_true, if_false] at h
        cases ht : s.findType nm with
        | none => simp [ht] at h
        | some t =>
          simp only [ht] at h
          by_cases hk : (t.kind == .input) = true
          · simp [hk] at h
          · simp only [hk, Bool.false_eq_true, if_false] at h
            obtain ⟨lit, a, b', c⟩ := leaf_roundtrip_doc s nm _ h n
            exact ⟨lit, a, b', fun _ => c⟩
    | obj kvs =>
      simp only [wtB] at h
      by_cases hb : builtinScalars.contains nm = true
      · simp only [hb, if_true] at h
        obtain ⟨lit, a, b', c⟩ := leaf_roundtrip_doc s nm _ h n
        exact ⟨lit, a, b', fun _ => c⟩
      · simp only [hb, Bool.false_eq_true, if_false] at h
        have hnb : nm ∉ builtinScalars := by simpa using hb
        cases ht : s.findType nm with
        | none => simp [ht] at h
        | some t =>
          simp only [ht] at h
          by_cases hk : (t.kind == .input) = true
          · -- an input object
            have hk' : t.kind = .input := by simpa using hk
            simp only [hk, if_true, Bool.and_eq_true, Bool.not_eq_true'] at h
            obtain ⟨hnd, hwf⟩ := h
            have hnod := (hasDup_false_iff _).mp hnd
            obtain ⟨L, hL1, hL2, hL3⟩ := ihf t.inputFields kvs hnod hwf
            have hdef : (docEnv s).findDef nm = some (typeToDef s t) := by rw [docEnv_findDef, ht]; rfl
            have hadd := docEnv_findAdditional s nm
            have hdk : (typeToDef s t).kind = .input := hk'
            have hall : allDefined L ((typeToDef s t).inputFields.map (·.name)) = true := by
              simp only [allDefined, List.all_eq_true]
              intro g hg
              have hgk : g.1 ∈ kvs.map (·.1) := by rw [← hL3]; exact List.mem_map_of_mem hg
              have := wtF_keys s n t.inputFields kvs hwf g.1 hgk
              simpa [typeToDef, argToDef, List.map_map, Function.comp] using this
            refine ⟨.obj L, by simp [valueLit, hnb, ht, hk', hL1], ?_, by simp⟩
            have hL2' : coerceDefFields (docEnv s) n L (typeToDef s t).inputFields = some (some (.obj kvs)) := hL2
            simp [valueFromAst, hnb, hadd, hdef, hdk, hL2', hall, bind, Option.bind, pure]
          · simp only [hk, Bool.false_eq_true, if_false] at h
            obtain ⟨lit, a, b', c⟩ := leaf_roundtrip_doc s nm _ h n
            exact ⟨lit, a, b', fun _ => c⟩

private theorem rt_items (s : SchemaD) (n : Nat) (ih : RT s n) :
    ∀ items t, wtsB s (n+1) items t = true → ∃ lits, itemsLit s (n+1) items t = some lits ∧
      coerceItems (docEnv s) (n+1) lits t = some (some items) := by
  obtain ⟨ihv, ihs, _⟩ := ih
  intro items t h
  cases items with
  | nil => exact ⟨[], by simp [itemsLit], by simp [coerceItems, pure]⟩
  | cons x xs =>
    simp only [wtsB, Bool.and_eq_true] at h
    obtain ⟨lit, h1, h2, _⟩ := ihv x t h.1
    obtain ⟨lits, h3, h4⟩ := ihs xs t h.2
    exact ⟨lit :: lits, by simp [itemsLit, h1, h3], by simp [coerceItems, h2, h4, bind, Option.bind, pure]⟩

private theorem rt_fields (s : SchemaD) (n : Nat) (ih : RT s n) :
    ∀ fs kvs, (fs.map (·.name)).Nodup → wtF s (n+1) fs kvs = true → ∃ L, fieldsLit s (n+1) kvs fs = some L ∧
      coerceDefFields (docEnv s) (n+1) L (fs.map (argToDef s)) = some (some (.obj kvs)) ∧ L.map (·.1) = kvs.map (·.1) := by
  obtain ⟨ihv, _, ihf⟩ := ih
  intro fs kvs hnd h
  cases fs with
  | nil =>
    cases kvs with
    | nil => exact ⟨[], by simp [fieldsLit], by simp [coerceDefFields, pure], rfl⟩
    | cons _ _ => simp [wtF] at h
  | cons f fs =>
    simp only [List.map_cons, List.nodup_cons] at hnd
    obtain ⟨hfn, hnd'⟩ := hnd
    have hdn : (argToDef s f).name = f.name := rfl
    have hdt : (argToDef s f).type = f.type := rfl
    have hnames : (fs.map (argToDef s)).map (·.name) = fs.map (·.name) := by simp [List.map_map, Function.comp, argToDef]
    cases kvs with
    | nil =>
      simp only [wtF, Bool.and_eq_true] at h
      obtain ⟨hsk, hw⟩ := h
      obtain ⟨L0, a, b, c⟩ := ihf fs [] hnd' hw
      have hL0 : L0 = [] := by simpa using c
      subst hL0
      simp only [skippable, Bool.and_eq_true, Bool.not_eq_true'] at hsk
      have hdd : (argToDef s f).default = none := by simp [argToDef, hsk.1]
      refine ⟨[], ?_, ?_, rfl⟩
      · simp [fieldsLit, a, hsk.1, hsk.2]
      · simp [coerceDefFields, b, lookupLast, hdd, hdt, hsk.2, bind, Option.bind, pure]
    | cons kv rest =>
      obtain ⟨k, v⟩ := kv
      simp only [wtF] at h
      by_cases hm : (k == f.name) = true
      · -- the field is present
        have e : k = f.name := by simpa using hm
        subst e
        simp only [hm, if_true, Bool.and_eq_true] at h
        obtain ⟨hwv, hwr⟩ := h
        obtain ⟨lit, hl1, hl2, _⟩ := ihv v f.type hwv
        obtain ⟨L0, a, b, c⟩ := ihf fs rest hnd' hwr
        have hkL0 : f.name ∉ L0.map (·.1) := by
          rw [c]; intro hin; exact hfn (wtF_keys s n fs rest hwr _ hin)
        refine ⟨(f.name, lit) :: L0, ?_, ?_, by simp [c]⟩
        · simp [fieldsLit, fieldsLit_skip s f.name v fs n rest hfn, a, hl1]
        · have hskip := coerceDefFields_skip (docEnv s) f.name lit (fs.map (argToDef s)) n L0 (by rw [hnames]; exact hfn)
          simp [coerceDefFields, hskip, b, hdn, hdt, lookupLast_cons_self L0 f.name lit hkL0, hl2, bind, Option.bind, pure]
      · -- the field is absent
        simp only [hm, Bool.false_eq_true, if_false, Bool.and_eq_true] at h
        obtain ⟨hsk, hw⟩ := h
        obtain ⟨L0, a, b, c⟩ := ihf fs ((k, v) :: rest) hnd' hw
        simp only [skippable, Bool.and_eq_true, Bool.not_eq_true'] at hsk
        have hdd : (argToDef s f).default = none := by simp [argToDef, hsk.1]
        have hkeys : f.name ∉ ((k, v) :: rest).map (·.1) := fun hin => hfn (wtF_keys s n fs _ hw _ hin)
        have hkL0 : f.name ∉ L0.map (·.1) := by rw [c]; exact hkeys
        refine ⟨L0, ?_, ?_, c⟩
        · simp [fieldsLit, a, find_none_notin _ _ hkeys, hsk.1, hsk.2]
        · simp [coerceDefFields, b, hdn, hdt, lookupLast_notin L0 f.name hkL0, hdd, hsk.2, bind, Option.bind, pure]

private theorem rt_all (s : SchemaD) : ∀ n, RT s n := by
  intro n
  induction n with
  | zero => exact ⟨fun v ty h => by simp [wtB] at h, fun items t h => by simp [wtsB] at h, fun fs kvs _ h => by simp [wtF] at h⟩
  | succ n ih => exact ⟨rt_values s n ih, rt_items s n ih, rt_fields s n ih⟩

/-- **default_roundtrip** (all input types): for every canonical value `v` of ANY input type — the specified and
    custom scalars, enums, input objects (nested, recursive), `null`, non-null and list wrappers of any depth — the
    literal the schema printer writes for `v` is read back by the builder, over the printed document, as `v` itself.
    Excluded, each by a named predicate inside `wtB`: input-object values that omit a defaulted field (`skippable`,
    finding H2 — refuted below), non-canonical floats (`floatOK`, H8). (Finding H3 — float-looking custom-scalar strings — is FIXED in /repo 889f979:
    no exclusion is needed any more.) -/
theorem default_roundtrip_doc (s : SchemaD) (n : Nat) (v : J) (ty : Ty) (h : wtB s n v ty = true) :
    ∃ lit, valueLit s n v ty = some lit ∧ valueFromAst (docEnv s) n lit ty = some (some v) :=
  let ⟨lit, h1, h2, _⟩ := (rt_all s n).1 v ty h
  ⟨lit, h1, h2⟩

end PyGql.Props.C12

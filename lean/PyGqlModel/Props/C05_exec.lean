/-
  C05 — `validated_no_internal_error` through the whole executor.

  Side conditions, and which internal-error branch each one closes:
    ValidDoc.opsOk / fragsOk (selOk)   `KeyError` of `fragments[name]`, `UnknownType` of `get_type_from_literal`
                                        (type conditions)  — collect_fields;
                                        `UnboundLocalError` of `field_definition` (no `__schema`/`__type` off the root)
    (no premise)                       `CoercionError` of `_skip_selection` (a condition that is not a Boolean at run time:
                                        list literal, nullable variable with a default bound to null) is no longer an
                                        exception: `ResolutionContext.collect_fields` converts it (4e87d3d) — `NoIntC` at
                                        collect level, `noInt_catchDirective` at `execute_fields` level
    KeyConsistent                      all nodes of one response key name the SAME field, so the sub-selections merged
                                        for a runtime type are all well-typed for it (else: unknown fragments/types
                                        reached through an ill-typed sub-selection)
    SchemaOk.cov (interface covariance) a field selected on an interface exists on every possible object type with a
                                        sub-type result: sub-selections stay well-typed for the runtime type
    SchemaOk.kinds                     `TypeError("Invalid field type")` (unknown / input type at an output position)
    WorldTyped + Conforms              `RuntimeError` (not iterable; leaf not serialisable; unknown enum value;
                                        abstract type resolved to a non-object / non-possible type), `UnknownType` of
                                        `resolve_type`, and the "unexpected exception" outcome of a resolver; iterables and
                                        `resolve_type`s that raise `ResolverError` CONFORM (field errors since 7b8e151)
-/
import PyGqlModel.Exec
import PyGqlModel.Spec.ValidDoc
import PyGqlModel.Props.C04
import PyGqlModel.Lemmas.C04Raise

set_option linter.unusedSimpArgs false
set_option linter.unusedVariables false

namespace PyGql.Props.C05
open PyGql PyGql.Exec PyGql.Spec PyGql.Props.C04 PyGql.Lemmas.C04Raise

def NoInt {α} (r : R α) : Prop := ∀ cls, r ≠ .error (.internal cls)

/-- `collect_fields` level: no internal error other than the `CoercionError` of a directive condition that is not a
    Boolean at run time — which `ResolutionContext.collect_fields` converts into a field error (`Exec.catchDirective`) -/
def NoIntC {α} (r : R α) : Prop := ∀ cls, r = .error (.internal cls) → cls = "CoercionError"

theorem noIntC_skip {α} {vars : Vars} {dirs : List Dir} {e : Fail} (hb : skipSelection vars dirs = .error e) :
    NoIntC (Except.error e : R α) := by
  intro cls h
  have := skipSelection_err _ _ _ hb
  subst this
  simp at h
  exact h.symm

/-- the conversion closes the gap: after `catchDirective` no internal error is left -/
theorem noInt_catchDirective {α} (r : R α) (h : NoIntC r) : NoInt (catchDirective r) := by
  intro cls hh
  obtain ⟨h1, h2⟩ := (catchDirective_internal r cls).mp hh
  exact h2 (h cls h1)

/-- runtime object type `rt` is (a possible type of) the static type `T` -/
def Under (s : SchemaD) (rt T : String) : Prop := rt = T ∨ isPossibleType s T rt = true

structure SchemaOk (s : SchemaD) : Prop where
  /-- objects implement their interfaces covariantly -/
  cov : ∀ I O f fd, isPossibleType s I O = true → fieldOf s I f = some fd →
    ∃ fd', fieldOf s O f = some fd' ∧ ∀ rt', Under s rt' fd'.type.base → Under s rt' fd.type.base
  /-- every field has a known output type -/
  kinds : ∀ T f fd, fieldOf s T f = some fd → ∃ k, kindOf s fd.type.base = some k ∧ k ≠ .input

/-- a resolver value of the declared type -/
def Conforms (s : SchemaD) : Ty → RVal → Bool
  | .nonNull t, v => Conforms s t v
  | .list _, .null => true
  | .list t, .list vs => vs.all (Conforms s t)
  | .list t, .raise vs _ _ => vs.all (Conforms s t)      -- a lazy iterable that raises ResolverError after these items
  | .list _, _ => false
  | .named _, .null => true
  | .named n, .leaf j => (match kindOf s n with
      | some .scalar | some .enum => (serializeLeaf s n j).isSome
      | some .object => true
      | _ => false)
  | .named n, .list _ => (match kindOf s n with | some .object => true | _ => false)
  | .named n, .obj rt => (match kindOf s n with
      | some .object => true
      | some .interface | some .union => kindOf s rt == some .object && isPossibleType s n rt
      | _ => false)
  | .named n, .raise _ _ _ => (match kindOf s n with        -- `resolve_type` raises ResolverError
      | some .object | some .interface | some .union => true
      | _ => false)

/-- typed world: values of the declared types or `ResolverError`s, never another exception -/
def WorldTyped (s : SchemaD) (w : World) : Prop :=
  ∀ parent field path args fd, fieldOf s parent field = some fd →
    match w parent field path args with
    | .val v => Conforms s fd.type v = true
    | .err _ _ => True
    | .boom => False

abbrev FSet := List (String × String × Bool)

/-- selections that are well-typed for the runtime type, each under some static type it belongs to -/
def SelsUnder (s : SchemaD) (doc : Doc) (vars : Vars) (F : FSet) (rt : String) (sels : List Sel) : Prop :=
  ∀ sel ∈ sels, (∃ T, Under s rt T ∧ selOk s doc vars T sel = true) ∧ ∀ x ∈ selFields sel, x ∈ F

def NodeOk (s : SchemaD) (doc : Doc) (vars : Vars) (F : FSet) (rt : String) (n : FNode) : Prop :=
  (n.key, n.name, n.hasSub) ∈ F ∧ (∀ x ∈ selsFields n.sub, x ∈ F) ∧
  ((n.name = "__typename" ∧ n.hasSub = false) ∨
   (isMeta n.name = false ∧ ∃ T fd, Under s rt T ∧ fieldOf s T n.name = some fd ∧
      (n.hasSub = true → selsOk s doc vars fd.type.base n.sub = true)))

def GroupOk (P : FNode → Prop) (g : Grouped) : Prop := ∀ kv ∈ g, kv.2 ≠ [] ∧ ∀ n ∈ kv.2, P n

theorem extend_groupOk (P : FNode → Prop) (g : Grouped) (k : String) (ns : List FNode) (hg : GroupOk P g)
    (hne : ns ≠ []) (hn : ∀ n ∈ ns, P n) : GroupOk P (g.extend k ns) := by
  induction g with
  | nil => intro kv hkv; simp [Grouped.extend] at hkv; subst hkv; exact ⟨hne, hn⟩
  | cons kv rest ih =>
    obtain ⟨k', ms⟩ := kv
    simp only [Grouped.extend]
    by_cases h : k' = k
    · subst h
      simp only [beq_self_eq_true, if_true]
      intro kv hkv
      simp at hkv
      rcases hkv with rfl | hkv
      · refine ⟨by simp [hne], ?_⟩
        intro n hn'
        simp at hn'
        rcases hn' with h1 | h1
        · exact (hg (k', ms) (by simp)).2 n h1
        · exact hn n h1
      · exact hg kv (by simp [hkv])
    · have h' : (k' == k) = false := by simpa using h
      simp only [h', Bool.false_eq_true, if_false]
      intro kv hkv
      simp at hkv
      rcases hkv with rfl | hkv
      · exact hg (k', ms) (by simp)
      · exact ih (fun kv hkv => hg kv (by simp [hkv])) kv hkv

theorem mergeInto_groupOk (P : FNode → Prop) (src into : Grouped) (hs : GroupOk P src) (hi : GroupOk P into) :
    GroupOk P (src.mergeInto into) := by
  unfold Grouped.mergeInto
  induction src generalizing into with
  | nil => simpa
  | cons kv rest ih =>
    simp only [List.foldl_cons]
    exact ih _ (fun kv' hkv => hs kv' (by simp [hkv])) (extend_groupOk P _ _ _ hi (hs kv (by simp)).1 (hs kv (by simp)).2)

theorem fieldOf_name (s : SchemaD) (T f : String) (fd : FieldD) (h : fieldOf s T f = some fd) : fd.name = f := by
  unfold fieldOf at h
  cases hft : s.findType T with
  | none => simp [hft] at h
  | some t =>
    simp only [hft] at h
    have hk := List.find?_some h
    simpa using hk

theorem selsOk_forall (s : SchemaD) (doc : Doc) (vars : Vars) (T : String) :
    ∀ sels, selsOk s doc vars T sels = true → ∀ sel ∈ sels, selOk s doc vars T sel = true := by
  intro sels
  induction sels with
  | nil => intro _ sel h; simp at h
  | cons x xs ih =>
    intro h sel hm
    simp only [selsOk, Bool.and_eq_true] at h
    simp at hm
    rcases hm with rfl | hm
    · exact h.1
    · exact ih h.2 sel hm

private theorem selsFields_mem (sels : List Sel) : ∀ sel ∈ sels, ∀ x ∈ selFields sel, x ∈ selsFields sels := by
  induction sels with
  | nil => intro sel h; simp at h
  | cons y ys ih =>
    intro sel hm x hx
    simp only [selsFields, List.mem_append]
    simp at hm
    rcases hm with rfl | hm
    · exact Or.inl hx
    · exact Or.inr (ih sel hm x hx)

theorem applies_ok (s : SchemaD) (obj c : String) (h : isComposite s c = true) :
    ∃ b, fragmentTypeApplies s obj (some c) = .ok b ∧ (b = true → Under s obj c) := by
  unfold isComposite at h
  cases hk : kindOf s c with
  | none => simp [hk] at h
  | some k =>
    refine ⟨(c == obj || (isAbstract s c && isPossibleType s c obj)), by simp [fragmentTypeApplies, hk], ?_⟩
    intro hb
    simp at hb
    rcases hb with hb | hb
    · exact Or.inl hb.symm
    · exact Or.inr hb.2

theorem fragment_ok (s : SchemaD) (doc : Doc) (vars : Vars) (hf : fragsOk s doc vars = true) (name : String) (fr : Frag)
    (h : doc.fragment? name = some fr) :
    isComposite s fr.on = true ∧ selsOk s doc vars fr.on fr.sels = true ∧ ∀ x ∈ selsFields fr.sels, x ∈ docFields doc := by
  unfold Doc.fragment? at h
  have hm := List.mem_of_find?_eq_some h
  simp at hm
  unfold fragsOk at hf
  rw [List.all_eq_true] at hf
  have := hf fr hm
  simp at this
  refine ⟨this.1, this.2, ?_⟩
  intro x hx
  unfold docFields
  simp only [List.mem_append, List.mem_flatMap]
  exact Or.inr ⟨fr, hm, hx⟩

/-- what the fuel induction carries for `collect_fields` -/
def CollectSound (s : SchemaD) (doc : Doc) (vars : Vars) (rec : String → List Sel → List String → R (Grouped × List String)) : Prop :=
  ∀ obj sels seen, SelsUnder s doc vars (docFields doc) obj sels →
    NoIntC (rec obj sels seen) ∧ ∀ g seen', rec obj sels seen = .ok (g, seen') → GroupOk (NodeOk s doc vars (docFields doc) obj) g

private theorem collectStep_sound (s : SchemaD) (doc : Doc) (vars : Vars) (hf : fragsOk s doc vars = true)
    (rec : String → List Sel → List String → R (Grouped × List String)) (hrec : CollectSound s doc vars rec) (obj : String) :
    ∀ (sels : List Sel) (seen : List String) (g : Grouped), SelsUnder s doc vars (docFields doc) obj sels →
      GroupOk (NodeOk s doc vars (docFields doc) obj) g →
      NoIntC (collectStep s doc vars rec obj sels seen g) ∧
      ∀ g' seen', collectStep s doc vars rec obj sels seen g = .ok (g', seen') → GroupOk (NodeOk s doc vars (docFields doc) obj) g' := by
  intro sels
  induction sels with
  | nil =>
    intro seen g _ hg
    refine ⟨by intro cls h; simp [collectStep] at h, ?_⟩
    intro g' seen' h
    simp [collectStep] at h
    obtain ⟨rfl, rfl⟩ := h
    exact hg
  | cons sel rest ih =>
    intro seen g hsu hg
    have hrest : SelsUnder s doc vars (docFields doc) obj rest := fun x hx => hsu x (by simp [hx])
    obtain ⟨⟨T, hT, hsel⟩, hF⟩ := hsu sel (by simp)
    cases sel with
    | field key name loc dirs args hs sub =>
      simp only [selOk, Bool.and_eq_true] at hsel
      rcases hb : skipSelection vars dirs with e | b
      · simp only [collectStep, hb, bind, Except.bind]
        exact ⟨noIntC_skip hb, by intro g' seen' h; simp at h⟩
      simp only [collectStep, hb, bind, Except.bind]
      cases b with
      | true => simpa using ih seen g hrest hg
      | false =>
        have hnode : NodeOk s doc vars (docFields doc) obj
            { key := key, name := name, loc := loc, args := args, hasSub := hs, sub := sub } := by
          refine ⟨hF _ (by simp [selFields]), fun x hx => hF x (by simp [selFields, hx]), ?_⟩
          have h2 := hsel.2
          by_cases hn : name = "__typename"
          · subst hn; simp at h2; exact Or.inl ⟨rfl, h2⟩
          · have hn' : (name == "__typename") = false := by simpa using hn
            simp only [hn', Bool.false_eq_true, if_false] at h2
            by_cases hm : isMeta name
            · simp [hm] at h2
            · simp only [hm, Bool.false_eq_true, if_false] at h2
              refine Or.inr ⟨by simpa using hm, ?_⟩
              cases hfo : fieldOf s T name with
              | none => simp [hfo] at h2
              | some fd =>
                refine ⟨T, fd, hT, hfo, ?_⟩
                intro hsub
                simp only [hfo] at h2
                cases hk : kindOf s fd.type.base with
                | none => simp [hk] at h2
                | some k =>
                  cases k <;> simp [hk] at h2 <;> first | exact h2.2 | exact absurd hsub (by simp [h2])
        simpa using ih seen _ hrest (extend_groupOk _ _ _ _ hg (by simp) (by intro n hn; simp at hn; subst hn; exact hnode))
    | inline on dirs sub =>
      simp only [selOk, Bool.and_eq_true] at hsel
      rcases hb : skipSelection vars dirs with e | b
      · simp only [collectStep, hb, bind, Except.bind, pure, Except.pure]
        exact ⟨noIntC_skip hb, by intro g' seen' h; simp at h⟩
      simp only [collectStep, hb, bind, Except.bind, pure, Except.pure]
      cases b with
      | true => simpa using ih seen g hrest hg
      | false =>
        simp only [Bool.false_eq_true, if_false]
        have hsub : ∃ a, fragmentTypeApplies s obj on = .ok a ∧ (a = true → SelsUnder s doc vars (docFields doc) obj sub) := by
          cases on with
          | none =>
            refine ⟨true, rfl, fun _ => ?_⟩
            intro x hx
            exact ⟨⟨T, hT, selsOk_forall s doc vars T sub (by simpa using hsel.2) x hx⟩,
              fun y hy => hF y (by simpa [selFields] using selsFields_mem sub x hx y hy)⟩
          | some c =>
            have h2 := hsel.2
            simp only [Bool.and_eq_true] at h2
            obtain ⟨a, ha, hu⟩ := applies_ok s obj c h2.1
            refine ⟨a, ha, fun hat => ?_⟩
            intro x hx
            exact ⟨⟨c, hu hat, selsOk_forall s doc vars c sub h2.2 x hx⟩,
              fun y hy => hF y (by simpa [selFields] using selsFields_mem sub x hx y hy)⟩
        obtain ⟨a, ha, hsu'⟩ := hsub
        simp only [ha]
        cases a with
        | false => simpa using ih seen g hrest hg
        | true =>
          simp only [Bool.not_true, Bool.false_eq_true, if_false]
          obtain ⟨hni, hgo⟩ := hrec obj sub seen (hsu' rfl)
          cases hr : rec obj sub seen with
          | error e =>
            refine ⟨?_, by intro g' seen' h; simp at h⟩
            intro cls h
            simp at h
            exact hni cls (by rw [hr, h])
          | ok p =>
            obtain ⟨gs, seens⟩ := p
            simpa using ih _ _ hrest (mergeInto_groupOk _ gs g (hgo gs seens hr) hg)
    | spread name dirs =>
      simp only [selOk, Bool.and_eq_true] at hsel
      cases hfr : doc.fragment? name with
      | none => simp [hfr] at hsel
      | some fr =>
        obtain ⟨hcomp, hbody, hFr⟩ := fragment_ok s doc vars hf name fr hfr
        rcases hb : skipSelection vars dirs with e | b
        · simp only [collectStep, hfr, hb, bind, Except.bind, pure, Except.pure]
          exact ⟨noIntC_skip hb, by intro g' seen' h; simp at h⟩
        simp only [collectStep, hfr, hb, bind, Except.bind, pure, Except.pure]
        cases b with
        | true => simpa using ih seen g hrest hg
        | false =>
          simp only [Bool.false_eq_true, if_false]
          by_cases hseen : seen.contains name
          · simp only [hseen, if_true]; simpa using ih seen g hrest hg
          · simp only [hseen, Bool.false_eq_true, if_false]
            obtain ⟨a, ha, hu⟩ := applies_ok s obj fr.on hcomp
            simp only [ha]
            cases a with
            | false => simpa using ih seen g hrest hg
            | true =>
              simp only [Bool.not_true, Bool.false_eq_true, if_false]
              have hsu' : SelsUnder s doc vars (docFields doc) obj fr.sels := by
                intro x hx
                exact ⟨⟨fr.on, hu rfl, selsOk_forall s doc vars fr.on fr.sels hbody x hx⟩,
                  fun y hy => hFr y (selsFields_mem fr.sels x hx y hy)⟩
              obtain ⟨hni, hgo⟩ := hrec obj fr.sels seen hsu'
              cases hr : rec obj fr.sels seen with
              | error e =>
                refine ⟨?_, by intro g' seen' h; simp at h⟩
                intro cls h
                simp at h
                exact hni cls (by rw [hr, h])
              | ok p =>
                obtain ⟨gs, seens⟩ := p
                simpa using ih _ _ hrest (mergeInto_groupOk _ gs g (hgo gs seens hr) hg)

private theorem collect_sound (s : SchemaD) (doc : Doc) (vars : Vars) (hf : fragsOk s doc vars = true) (fuel : Nat) :
    CollectSound s doc vars (collectFields s doc vars fuel) := by
  induction fuel with
  | zero =>
    intro obj sels seen _
    exact ⟨by intro cls h; simp [collectFields] at h, by intro g seen' h; simp [collectFields] at h⟩
  | succ n ih =>
    intro obj sels seen hsu
    simp only [collectFields]
    exact collectStep_sound s doc vars hf _ ih obj sels seen [] hsu (by intro kv h; simp at h)

/-! ### complete_value -/

theorem completeList_noInt (f : Path → RVal → R (Data × List Err)) (P : RVal → Prop)
    (hf : ∀ p v, P v → NoInt (f p v)) (path : Path) :
    ∀ (vs : List RVal) (i : Nat), (∀ v ∈ vs, P v) → NoInt (completeList f path i vs) := by
  intro vs
  induction vs with
  | nil => intro i _ cls h; simp [completeList] at h
  | cons v rest ih =>
    intro i hp cls h
    simp only [completeList, bind, Except.bind, pure, Except.pure] at h
    cases h1 : f (path ++ [Seg.idx i]) v with
    | error e =>
      simp [h1] at h
      exact hf _ v (hp v (by simp)) cls (by rw [h1, h])
    | ok p1 =>
      simp only [h1] at h
      cases h2 : completeList f path (i + 1) rest with
      | error e =>
        simp [h2] at h
        exact ih (i + 1) (fun v hv => hp v (by simp [hv])) cls (by rw [h2, h])
      | ok p2 => simp [h2] at h

theorem completeValue_noInt (s : SchemaD) (execSub : String → Path → List Sel → R (Data × List Err)) (nodes : List FNode) :
    ∀ (t : Ty) (path : Path) (v : RVal), (∃ k, kindOf s t.base = some k ∧ k ≠ .input) → Conforms s t v = true →
      (∀ rt' p, kindOf s rt' = some .object → Under s rt' t.base → NoInt (execSub rt' p (mergedSelections nodes))) →
      NoInt (completeValue s execSub nodes t path v) := by
  intro t
  induction t with
  | nonNull t ih =>
    intro path v hk hc he cls h
    simp only [completeValue, bind, Except.bind, pure, Except.pure] at h
    cases h1 : completeValue s execSub nodes t path v with
    | error e =>
      simp [h1] at h
      exact ih path v (by simpa [Ty.base] using hk) (by simpa [Conforms] using hc) (by simpa [Ty.base] using he) cls (by rw [h1, h])
    | ok p => simp only [h1] at h; split at h <;> simp at h
  | list t ih =>
    intro path v hk hc he
    cases v with
    | null => intro cls h; simp [completeValue] at h
    | leaf j => simp [Conforms] at hc
    | obj rt => simp [Conforms] at hc
    | raise vs msg ext =>
      simp only [Conforms, List.all_eq_true] at hc
      intro cls h
      simp only [completeValue] at h
      cases h1 : completeList (completeValue s execSub nodes t) path 0 vs with
      | error e =>
        simp [h1] at h
        exact completeList_noInt _ (fun v => Conforms s t v = true)
          (fun p v hv => ih p v (by simpa [Ty.base] using hk) hv (by simpa [Ty.base] using he)) path vs 0 hc cls (by rw [h1, h])
      | ok p => simp [h1] at h
    | list vs =>
      simp only [Conforms, List.all_eq_true] at hc
      intro cls h
      simp only [completeValue, bind, Except.bind, pure, Except.pure] at h
      cases h1 : completeList (completeValue s execSub nodes t) path 0 vs with
      | error e =>
        simp [h1] at h
        exact completeList_noInt _ (fun v => Conforms s t v = true)
          (fun p v hv => ih p v (by simpa [Ty.base] using hk) hv (by simpa [Ty.base] using he)) path vs 0 hc cls (by rw [h1, h])
      | ok p => simp [h1] at h
  | named n =>
    intro path v hk hc he
    obtain ⟨k, hkn, hki⟩ := hk
    simp only [Ty.base] at hkn he
    cases v with
    | null => intro cls h; simp [completeValue] at h
    | leaf j =>
      intro cls h
      simp only [completeValue, hkn] at h
      simp only [Conforms, hkn] at hc
      cases k with
      | input => exact hki rfl
      | object => exact he n path hkn (Or.inl rfl) cls h
      | interface => simp at hc
      | union => simp at hc
      | scalar =>
        simp at hc
        cases hs : serializeLeaf s n j with
        | none => simp [hs] at hc
        | some r => simp [hs] at h
      | enum =>
        simp at hc
        cases hs : serializeLeaf s n j with
        | none => simp [hs] at hc
        | some r => simp [hs] at h
    | list vs =>
      intro cls h
      simp only [completeValue, hkn] at h
      simp only [Conforms, hkn] at hc
      cases k with
      | object => exact he n path hkn (Or.inl rfl) cls h
      | _ => simp at hc
    | raise vs msg ext =>
      intro cls h
      simp only [completeValue, hkn] at h
      simp only [Conforms, hkn] at hc
      cases k with
      | object => exact he n path hkn (Or.inl rfl) cls h
      | interface => simp at h
      | union => simp at h
      | _ => simp at hc
    | obj rt =>
      intro cls h
      simp only [completeValue, hkn] at h
      simp only [Conforms, hkn] at hc
      cases k with
      | input => exact hki rfl
      | object => exact he n path hkn (Or.inl rfl) cls h
      | scalar => simp at hc
      | enum => simp at hc
      | interface =>
        simp at hc
        simp only [hc.1, hc.2, if_true] at h
        exact he rt path hc.1 (Or.inr hc.2) cls h
      | union =>
        simp at hc
        simp only [hc.1, hc.2, if_true] at h
        exact he rt path hc.1 (Or.inr hc.2) cls h

/-! ### the loop over response keys -/

/-- one response key always denotes one field -/
def KeyConsistent (F : FSet) : Prop := ∀ a ∈ F, ∀ b ∈ F, a.1 = b.1 → a.2.1 = b.2.1

theorem keyConsistent_of_bool (doc : Doc) (h : keyConsistentB doc = true) : KeyConsistent (docFields doc) := by
  intro a ha b hb hab
  unfold keyConsistentB at h
  simp only [List.all_eq_true] at h
  have := h a ha b hb
  simp at this
  rcases this with h1 | h1
  · exact absurd hab h1
  · exact h1

private theorem merged_under (s : SchemaD) (hs : SchemaOk s) (doc : Doc) (vars : Vars) (F : FSet) (hF : KeyConsistent F)
    (rt : String) (name : String) (fd : FieldD) (hfd : fieldOf s rt name = some fd) (key : String)
    (nodes : List FNode) (hn : ∀ n ∈ nodes, NodeOk s doc vars F rt n ∧ n.key = key ∧ n.name = name)
    (rt' : String) (hu : Under s rt' fd.type.base) : SelsUnder s doc vars F rt' (mergedSelections nodes) := by
  intro sel hsel
  simp only [mergedSelections, List.mem_flatMap] at hsel
  obtain ⟨n, hnm, hin⟩ := hsel
  obtain ⟨⟨hmemF, hsubF, hcase⟩, _, hname⟩ := hn n hnm
  by_cases hhs : n.hasSub
  · simp only [hhs, if_true] at hin
    rcases hcase with ⟨_, hno⟩ | ⟨_, T, fdT, hT, hfT, hok⟩
    · simp [hhs] at hno
    · refine ⟨⟨fdT.type.base, ?_, selsOk_forall s doc vars _ _ (hok hhs) sel hin⟩,
        fun x hx => hsubF x (selsFields_mem n.sub sel hin x hx)⟩
      rw [hname] at hfT
      rcases hT with rfl | hposs
      · rw [hfd] at hfT; cases hfT; exact hu
      · obtain ⟨fd', hf', hcov⟩ := hs.cov T rt name fdT hposs hfT
        rw [hfd] at hf'; cases hf'
        exact hcov rt' hu
  · simp [hhs] at hin

private theorem executeGroups_noInt (s : SchemaD) (hs : SchemaOk s) (doc : Doc) (vars : Vars) (F : FSet) (hF : KeyConsistent F)
    (w : World) (hw : WorldTyped s w) (execSub : String → Path → List Sel → R (Data × List Err))
    (he : ∀ rt' p sels, kindOf s rt' = some .object → SelsUnder s doc vars F rt' sels → NoInt (execSub rt' p sels))
    (rt : String) (path : Path) :
    ∀ g : Grouped, GroupOk (NodeOk s doc vars F rt) g → KeysOk g → NoInt (executeGroups s w execSub rt path g) := by
  intro g
  induction g with
  | nil => intro _ _ cls h; simp [executeGroups] at h
  | cons kv rest ih =>
    intro hg hk
    obtain ⟨key, nodes⟩ := kv
    have hgr : GroupOk (NodeOk s doc vars F rt) rest := fun kv hkv => hg kv (by simp [hkv])
    have hkr : KeysOk rest := fun kv hkv => hk kv (by simp [hkv])
    have ihr := ih hgr hkr
    cases nodes with
    | nil => exact absurd rfl (hg (key, []) (by simp)).1   -- an empty group never arises from `collect_fields`
    | cons node more =>
      intro cls h
      simp only [executeGroups] at h
      have hnode := (hg (key, node :: more) (by simp)).2 node (by simp)
      by_cases hm : isMeta node.name
      · simp only [hm, if_true] at h
        rcases hnode.2.2 with ⟨htn, _⟩ | ⟨hnm, _⟩
        · simp only [htn, beq_self_eq_true, if_true, bind, Except.bind, pure, Except.pure] at h
          cases hr : executeGroups s w execSub rt path rest with
          | error e => simp [hr] at h; exact ihr cls (by rw [hr, h])
          | ok p => simp [hr] at h
        · simp [hm] at hnm
      · simp only [hm, Bool.false_eq_true, if_false] at h
        cases hfo : fieldOf s rt node.name with
        | none => simp only [hfo] at h; exact ihr cls h
        | some fd =>
          simp only [hfo, bind, Except.bind, pure, Except.pure] at h
          have hres : NoInt (resolveField s w execSub rt (path ++ [Seg.key key]) (node :: more) fd) := by
            intro cls' h'
            simp only [resolveField] at h'
            split at h'
            · simp at h'
            · simp at h'
            · rename_i a _
              have hwt := hw rt fd.name (path ++ [Seg.key key]) a fd (by rw [fieldOf_name s rt node.name fd hfo]; exact hfo)
              split at h'
              · simp at h'
              · rename_i hb; simp [hb] at hwt
              · rename_i v hv
                simp only [hv] at hwt
                have hnodes : ∀ n ∈ node :: more, NodeOk s doc vars F rt n ∧ n.key = key ∧ n.name = node.name := by
                  intro n hn
                  have hno := (hg (key, node :: more) (by simp)).2 n hn
                  have hkn := hk (key, node :: more) (by simp) n hn
                  have hk0 := hk (key, node :: more) (by simp) node (by simp)
                  refine ⟨hno, hkn, ?_⟩
                  exact hF _ hno.1 _ hnode.1 (by simp [hkn, hk0])
                rw [catchField_internal] at h'
                exact completeValue_noInt s execSub (node :: more) fd.type _ v (hs.kinds rt node.name fd hfo) hwt
                  (fun rt' p hobj hu => he rt' p _ hobj
                    (merged_under s hs doc vars F hF rt node.name fd hfo key (node :: more) hnodes rt' hu)) cls' h'
          cases hr1 : resolveField s w execSub rt (path ++ [Seg.key key]) (node :: more) fd with
          | error e => simp [hr1] at h; exact hres cls (by rw [hr1, h])
          | ok pd =>
            simp only [hr1] at h
            cases hr : executeGroups s w execSub rt path rest with
            | error e => simp [hr] at h; exact ihr cls (by rw [hr, h])
            | ok p => simp [hr] at h


private theorem executeFields_noInt (s : SchemaD) (hs : SchemaOk s) (doc : Doc) (vars : Vars) (hf : fragsOk s doc vars = true)
    (hF : KeyConsistent (docFields doc)) (w : World) (hw : WorldTyped s w) (cf : Nat) :
    ∀ (fuel : Nat) (rt : String) (path : Path) (sels : List Sel), SelsUnder s doc vars (docFields doc) rt sels →
      NoInt (executeFields s doc vars w cf fuel rt path sels) := by
  intro fuel
  induction fuel with
  | zero => intro rt path sels _ cls h; simp [executeFields] at h
  | succ n ih =>
    intro rt path sels hsu cls h
    simp only [executeFields, bind, Except.bind, pure, Except.pure] at h
    obtain ⟨hni, hgo⟩ := collect_sound s doc vars hf cf rt sels [] hsu
    cases h1 : collectFields s doc vars cf rt sels [] with
    | error e =>
      simp [h1] at h
      obtain ⟨he, hne⟩ := (Fail.directive_eq_internal e cls).mp h
      exact hne (hni cls (by rw [h1, he]))
    | ok p1 =>
      obtain ⟨g, seen'⟩ := p1
      simp only [h1, catchDirective_ok] at h
      have hk := (alias_merge s doc vars cf rt sels [] g seen' h1).2
      have hg := hgo g seen' h1
      cases h2 : executeGroups s w (executeFields s doc vars w cf n) rt path g with
      | error e =>
        simp [h2] at h
        exact executeGroups_noInt s hs doc vars _ hF w hw _ (fun rt' p sels _ hsu' => ih rt' p sels hsu') rt path g hg hk cls (by rw [h2, h])
      | ok p2 => simp [h2] at h

theorem getOperation_mem (doc : Doc) (opname : Option String) (o : Op) (h : getOperation doc opname = some o) : o ∈ doc.ops := by
  unfold getOperation at h
  split at h
  · split at h
    · simp at h; subst h; simp [*]
    · simp at h
  · split at h
    · simp at h; subst h; simp [*]
    · simp at h
  · exact List.mem_of_find?_eq_some h

/-- **validated_no_internal_error_keyConsistent** (superseded by `Props/C05_merge.lean: validated_no_internal_error`, which assumes the
    weaker `MergeSafe`): for every schema whose objects implement their interfaces covariantly and whose
    fields have known output types, every document satisfying the declarative `ValidDoc` and `KeyConsistent`, every
    variable assignment under which `ValidDoc` holds, every TYPED world (values of the declared types, `ResolverError`s,
    nulls anywhere), every operation name and EVERY fuel: the request never ends in an internal exception — it
    produces a response (data + field errors) or the documented operation error. (Running out of fuel is the
    separate `outOfFuel` outcome; `Props/C04_fuel.lean` shows results do not depend on the fuel once it suffices.) -/
theorem validated_no_internal_error_keyConsistent (s : SchemaD) (hs : SchemaOk s) (doc : Doc) (vars : Vars) (hv : ValidDoc s doc vars)
    (hk : keyConsistentB doc = true) (w : World) (hw : WorldTyped s w) :
    ∀ (op : Option String) (fuel cf : Nat) (cls : String), execute s doc vars w op fuel cf ≠ .failed (.internal cls) := by
  intro op fuel cf cls
  unfold ValidDoc validDocB at hv
  simp only [Bool.and_eq_true] at hv
  obtain ⟨⟨⟨hops, hfr⟩, _⟩, _⟩ := hv
  unfold execute
  cases hgo : getOperation doc op with
  | none => simp
  | some o =>
    have hmem := getOperation_mem doc op o hgo
    simp only []
    cases hroot : rootType s o.kind with
    | none => simp
    | some root =>
      simp only []
      split
      · simp
      · have hsu : SelsUnder s doc vars (docFields doc) root o.sels := by
          unfold opsOk at hops
          rw [List.all_eq_true] at hops
          have := hops o hmem
          simp only [hroot] at this
          intro x hx
          refine ⟨⟨root, Or.inl rfl, selsOk_forall s doc vars root o.sels this x hx⟩, ?_⟩
          intro y hy
          unfold docFields
          simp only [List.mem_append, List.mem_flatMap]
          exact Or.inl ⟨o, hmem, selsFields_mem o.sels x hx y hy⟩
        have := executeFields_noInt s hs doc vars hfr (keyConsistent_of_bool doc hk) w hw cf fuel root [] o.sels hsu
        cases hr : executeFields s doc vars w cf fuel root [] o.sels with
        | ok p => simp
        | error f =>
          cases f with
          | internal c => exact absurd hr (this c)
          | _ => simp

/-! ### non-vacuity: a schema with an interface, a covariant implementation, and a typed world -/
def exS : SchemaD :=
  { types := [{ kind := .object, name := "Query", fields := [{ name := "n", type := .named "Node" }] },
              { kind := .interface, name := "Node", fields := [{ name := "id", type := .named "ID" }] },
              { kind := .object, name := "Ob", interfaces := ["Node"], fields := [{ name := "id", type := .nonNull (.named "ID") }] }] }

example : Conforms exS (.named "Node") (.obj "Ob") = true := by decide
example : Conforms exS (.named "Node") (.obj "Query") = false := by decide
example : Conforms exS (.list (.nonNull (.named "ID"))) (.list [.leaf (.str "a"), .null]) = true := by decide

end PyGql.Props.C05

/-
  C19 — the wrapped document IS valid: `Valid doc'` is derived, not assumed.

  `wrap_inline_in_fragment_ge` / `wrap_spread_in_fragment_ge` (Props/C19_wrapfrag.lean) take the validity of the wrapped
  document as a hypothesis (`hv' : Valid doc' vars`). Valid documents have unique fragment names; with that:

  * `wrap_inline_in_fragment_valid` / `wrap_spread_in_fragment_valid` — wrapping a block of a fragment body in an inline
    fragment, or moving it into a new fragment whose name is FRESH (not defined, not spread anywhere), keeps the document
    valid: unique names, acyclic (a rank for the new fragment set is given explicitly), directive variables bound;
  * `wrap_inline_in_fragment` / `wrap_spread_in_fragment` — the two theorems without `hv'`;
  * `wrap_inline_in_fragment_final_derived` / `wrap_spread_in_fragment_final_derived` — the same for the live measure
    `depthK` (any request variables): `UniqueNames` and `Acyclic` of the wrapped document derived;
  * `wrap_spread_final` — moving a block of the OPERATION into a fresh named fragment leaves `depthK` unchanged (the
    operation-level spread case under the live measure, which was missing).
-/
import PyGqlModel.Props.C19_wrapfrag

set_option linter.unusedVariables false
set_option linter.unusedSimpArgs false

namespace PyGql.Props.C19
open PyGql.Depth PyGql.DepthSpec PyGql.Depth.Lemmas

/-! ### spreads of a wrapped selection list -/

private theorem spreadsL_append (a b : List Sel) : spreadsL (a ++ b) = spreadsL a ++ spreadsL b := by
  induction a with
  | nil => simp [spreadsL]
  | cons x xs ih => simp [spreadsL, ih, List.append_assoc]

private theorem spreadsL_cons (s : Sel) (ss : List Sel) : spreadsL (s :: ss) = spreadsSel s ++ spreadsL ss := by
  simp [spreadsL]

theorem wrapInline_spreads {s s' : List Sel} (h : WrapInline s s') : spreadsL s' = spreadsL s := by
  induction h with
  | here pre mid post => simp [spreadsL_append, spreadsL_cons, spreadsSel, spreadsL]
  | field pre post a n d sub sub' _ ih => simp [spreadsL_append, spreadsL_cons, spreadsSel, spreadsL, ih]
  | inline pre post d ss ss' _ ih => simp [spreadsL_append, spreadsL_cons, spreadsSel, spreadsL, ih]

theorem wrapSpread_spreads (nm : String) (body : List Sel) {s s' : List Sel} (h : WrapSpread nm body s s') :
    (∀ g ∈ spreadsL s', g = nm ∨ g ∈ spreadsL s) ∧ (∀ g ∈ spreadsL body, g ∈ spreadsL s) := by
  induction h with
  | here pre post =>
    constructor
    · intro g hg
      simp only [spreadsL_append, spreadsL_cons, spreadsSel, spreadsL, List.mem_append, List.mem_singleton,
        List.append_nil] at hg ⊢
      rcases hg with (hg | hg) | hg
      · exact .inr (.inl (.inl hg))
      · exact .inl hg
      · exact .inr (.inr hg)
    · intro g hg
      simp only [spreadsL_append, List.mem_append]
      exact .inl (.inr hg)
  | field pre post a n d sub sub' _ ih =>
    constructor
    · intro g hg
      simp only [spreadsL_append, spreadsL_cons, spreadsSel, spreadsL, List.mem_append, List.append_nil] at hg ⊢
      rcases hg with (hg | hg) | hg
      · exact .inr (.inl (.inl hg))
      · rcases ih.1 g hg with h | h
        · exact .inl h
        · exact .inr (.inl (.inr h))
      · exact .inr (.inr hg)
    · intro g hg
      simp only [spreadsL_append, spreadsL_cons, spreadsSel, spreadsL, List.mem_append, List.append_nil]
      exact .inl (.inr (ih.2 g hg))
  | inline pre post d ss ss' _ ih =>
    constructor
    · intro g hg
      simp only [spreadsL_append, spreadsL_cons, spreadsSel, spreadsL, List.mem_append, List.append_nil] at hg ⊢
      rcases hg with (hg | hg) | hg
      · exact .inr (.inl (.inl hg))
      · rcases ih.1 g hg with h | h
        · exact .inl h
        · exact .inr (.inl (.inr h))
      · exact .inr (.inr hg)
    · intro g hg
      simp only [spreadsL_append, spreadsL_cons, spreadsSel, spreadsL, List.mem_append, List.append_nil]
      exact .inl (.inr (ih.2 g hg))

mutual
theorem freeSel_not_spread (nm : String) : ∀ s : Sel, freeSel nm s = true → nm ∉ spreadsSel s
  | .field _ _ _ sub, h => by simp only [freeSel] at h; simpa [spreadsSel] using freeL_not_spread nm sub h
  | .inline _ ss, h => by simp only [freeSel] at h; simpa [spreadsSel] using freeL_not_spread nm ss h
  | .spread n _, h => by
    simp only [freeSel, bne_iff_ne, ne_eq] at h
    simp only [spreadsSel, List.mem_singleton]
    exact fun e => h e.symm
theorem freeL_not_spread (nm : String) : ∀ l : List Sel, freeL nm l = true → nm ∉ spreadsL l
  | [], _ => by simp [spreadsL]
  | s :: ss, h => by
    simp only [freeL, Bool.and_eq_true] at h
    simp only [spreadsL, List.mem_append, not_or]
    exact ⟨freeSel_not_spread nm s h.1, freeL_not_spread nm ss h.2⟩
end

/-! ### validity of the wrapped document -/

/-- wrapping a block of a fragment body in an inline fragment keeps unique names and declarative acyclicity -/
theorem wrap_inline_in_fragment_acyclic (frags frags' pre post : List Frag) (f : Frag) (sels' : List Sel)
    (hw : WrapInline f.sels sels') (hfr : frags = pre ++ [f] ++ post) (hfr' : frags' = pre ++ [⟨f.name, sels'⟩] ++ post)
    (hu : UniqueNames frags) (ha : Acyclic frags) : UniqueNames frags' ∧ Acyclic frags' := by
  have hnames : frags'.map (·.name) = frags.map (·.name) := by rw [hfr, hfr']; simp
  refine ⟨by unfold UniqueNames; rw [hnames]; exact hu, ?_⟩
  obtain ⟨r, hr⟩ := ha
  refine ⟨r, ?_⟩
  intro f' hf' g hg hdef
  have hdef0 : ∃ f0 ∈ frags, f0.name = g := by
    obtain ⟨f1, hf1, e⟩ := hdef
    have : g ∈ frags'.map (·.name) := List.mem_map.2 ⟨f1, hf1, e⟩
    rw [hnames] at this
    obtain ⟨f0, hf0, e0⟩ := List.mem_map.1 this
    exact ⟨f0, hf0, e0⟩
  rw [hfr'] at hf'
  simp only [List.mem_append, List.mem_singleton] at hf'
  rcases hf' with (hf' | hf') | hf'
  · exact hr f' (by rw [hfr]; simp [hf']) g hg hdef0
  · subst hf'
    simp only [wrapInline_spreads hw] at hg
    exact hr f (by rw [hfr]; simp) g hg hdef0
  · exact hr f' (by rw [hfr]; simp [hf']) g hg hdef0

/-- moving a block of a fragment body into a FRESH named fragment keeps unique names and declarative acyclicity -/
theorem wrap_spread_in_fragment_acyclic (frags frags' pre post : List Frag) (f : Frag) (nm : String)
    (body sels' : List Sel) (hw : WrapSpread nm body f.sels sels') (hfr : frags = pre ++ [f] ++ post)
    (hfr' : frags' = (pre ++ [⟨f.name, sels'⟩] ++ post) ++ [⟨nm, body⟩])
    (hfresh : ∀ g ∈ frags, g.name ≠ nm) (hfree : ∀ g ∈ frags, freeL nm g.sels = true)
    (hu : UniqueNames frags) (ha : Acyclic frags) : UniqueNames frags' ∧ Acyclic frags' := by
  have hf : f ∈ frags := by rw [hfr]; simp
  have hnames : frags'.map (·.name) = frags.map (·.name) ++ [nm] := by rw [hfr, hfr']; simp
  have hsp := wrapSpread_spreads nm body hw
  have hbodyfree : freeL nm body = true := wrapSpread_free_body nm body hw (hfree f hf)
  constructor
  · unfold UniqueNames
    rw [hnames]
    refine List.nodup_append.2 ⟨hu, by simp, ?_⟩
    intro a ha b hb
    simp only [List.mem_singleton] at hb
    subst hb
    obtain ⟨f0, hf0, e0⟩ := List.mem_map.1 ha
    intro e
    exact hfresh f0 hf0 (e0.trans e)
  · obtain ⟨r, hr⟩ := ha
    refine ⟨fun x => if x = nm then 2 * r f.name + 1 else 2 * r x + 2, ?_⟩
    -- a spread other than `nm` that is defined in `frags'` is defined in `frags`
    have hdef0 : ∀ g, g ≠ nm → (∃ f1 ∈ frags', f1.name = g) → ∃ f0 ∈ frags, f0.name = g := by
      intro g hne hdef
      obtain ⟨f1, hf1, e⟩ := hdef
      have : g ∈ frags'.map (·.name) := List.mem_map.2 ⟨f1, hf1, e⟩
      rw [hnames] at this
      simp only [List.mem_append, List.mem_singleton] at this
      rcases this with h | h
      · obtain ⟨f0, hf0, e0⟩ := List.mem_map.1 h
        exact ⟨f0, hf0, e0⟩
      · exact absurd h hne
    -- an old fragment: its body does not mention `nm`
    have hold : ∀ f' ∈ frags, ∀ g ∈ spreadsL f'.sels, (∃ f1 ∈ frags', f1.name = g) →
        (if g = nm then 2 * r f.name + 1 else 2 * r g + 2) < (if f'.name = nm then 2 * r f.name + 1 else 2 * r f'.name + 2) := by
      intro f' hf' g hg hdef
      have hgne : g ≠ nm := fun e => freeL_not_spread nm f'.sels (hfree f' hf') (e ▸ hg)
      have := hr f' hf' g hg (hdef0 g hgne hdef)
      simp only [hgne, hfresh f' hf', if_false]
      omega
    intro f' hf' g hg hdef
    rw [hfr'] at hf'
    simp only [List.mem_append, List.mem_singleton] at hf'
    rcases hf' with ((hf' | hf') | hf') | hf'
    · exact hold f' (by rw [hfr]; simp [hf']) g hg hdef
    · subst hf'
      simp only [] at hg ⊢
      rcases hsp.1 g hg with e | hg0
      · subst e
        simp only [hfresh f hf, if_true, if_false]
        omega
      · exact hold f hf g hg0 hdef
    · exact hold f' (by rw [hfr]; simp [hf']) g hg hdef
    · subst hf'
      simp only [] at hg ⊢
      have hgne : g ≠ nm := fun e => freeL_not_spread nm body hbodyfree (e ▸ hg)
      have := hr f hf g (hsp.2 g hg) (hdef0 g hgne hdef)
      simp only [hgne, if_true, if_false]
      omega

/-- **wrap_inline_in_fragment_valid** — the document obtained by wrapping a block of a fragment body in an inline
    fragment is valid (acyclicity check passes, directive variables bound) whenever the original is and has unique
    fragment names -/
theorem wrap_inline_in_fragment_valid (doc doc' : Doc) (vars : Vars) (hv : Valid doc vars) (hu : UniqueNames doc.frags)
    (pre post : List Frag) (f : Frag) (sels' : List Sel) (hw : WrapInline f.sels sels')
    (hfr : doc.frags = pre ++ [f] ++ post) (hfr' : doc'.frags = pre ++ [⟨f.name, sels'⟩] ++ post)
    (hops : doc'.ops = doc.ops) : Valid doc' vars ∧ UniqueNames doc'.frags := by
  obtain ⟨hu', ha'⟩ := wrap_inline_in_fragment_acyclic doc.frags doc'.frags pre post f sels' hw hfr hfr' hu
    (acyclic_sound _ hv.1)
  refine ⟨⟨acyclic_complete _ hu' ha', ?_, ?_⟩, hu'⟩
  · intro op hop
    rw [hops] at hop
    exact hv.2.1 op hop
  · intro g hg
    rw [hfr'] at hg
    simp only [List.mem_append, List.mem_singleton] at hg
    rcases hg with (hg | hg) | hg
    · exact hv.2.2 g (by rw [hfr]; simp [hg])
    · subst hg
      show boundL vars sels' = true
      rw [wrapInline_bound vars hw]
      exact hv.2.2 f (by rw [hfr]; simp)
    · exact hv.2.2 g (by rw [hfr]; simp [hg])

/-- **wrap_spread_in_fragment_valid** — … or by moving the block into a new fragment with a FRESH name -/
theorem wrap_spread_in_fragment_valid (doc doc' : Doc) (vars : Vars) (hv : Valid doc vars) (hu : UniqueNames doc.frags)
    (pre post : List Frag) (f : Frag) (nm : String) (body sels' : List Sel) (hw : WrapSpread nm body f.sels sels')
    (hfr : doc.frags = pre ++ [f] ++ post)
    (hfr' : doc'.frags = (pre ++ [⟨f.name, sels'⟩] ++ post) ++ [⟨nm, body⟩])
    (hfresh : ∀ g ∈ doc.frags, g.name ≠ nm) (hfree : ∀ g ∈ doc.frags, freeL nm g.sels = true)
    (hops : doc'.ops = doc.ops) : Valid doc' vars ∧ UniqueNames doc'.frags := by
  obtain ⟨hu', ha'⟩ := wrap_spread_in_fragment_acyclic doc.frags doc'.frags pre post f nm body sels' hw hfr hfr'
    hfresh hfree hu (acyclic_sound _ hv.1)
  have hb := wrapSpread_bound vars nm body hw (hv.2.2 f (by rw [hfr]; simp))
  refine ⟨⟨acyclic_complete _ hu' ha', ?_, ?_⟩, hu'⟩
  · intro op hop
    rw [hops] at hop
    exact hv.2.1 op hop
  · intro g hg
    rw [hfr'] at hg
    simp only [List.mem_append, List.mem_singleton] at hg
    rcases hg with ((hg | hg) | hg) | hg
    · exact hv.2.2 g (by rw [hfr]; simp [hg])
    · subst hg; exact hb.1
    · exact hv.2.2 g (by rw [hfr]; simp [hg])
    · subst hg; exact hb.2

/-! ### the wrap theorems without the validity of the wrapped document as a hypothesis -/

/-- **wrap_inline_in_fragment** — `wrap_inline_in_fragment_ge` for every valid document with unique fragment names:
    the wrapped document is valid too, and every operation keeps its measured depth (= the specified one). -/
theorem wrap_inline_in_fragment (doc doc' : Doc) (vars : Vars) (hv : Valid doc vars) (hu : UniqueNames doc.frags)
    (pre post : List Frag) (f : Frag) (sels' : List Sel) (hw : WrapInline f.sels sels')
    (hfr : doc.frags = pre ++ [f] ++ post) (hfr' : doc'.frags = pre ++ [⟨f.name, sels'⟩] ++ post)
    (hops : doc'.ops = doc.ops) (op : Op) (hop : op ∈ doc.ops) :
    Valid doc' vars ∧
    ∃ d d', depthFixed doc.fuel op doc.frags vars = .ok d ∧ depthFixed doc'.fuel op doc'.frags vars = .ok d' ∧
      d ≤ d' ∧ d' = depth doc vars op ∧ d' = depth doc' vars op :=
  have hv' := (wrap_inline_in_fragment_valid doc doc' vars hv hu pre post f sels' hw hfr hfr' hops).1
  ⟨hv', wrap_inline_in_fragment_ge doc doc' vars hv hv' pre post f sels' hw hfr hfr' hops op hop⟩

/-- **wrap_spread_in_fragment** — `wrap_spread_in_fragment_ge` with the validity of the wrapped document derived from
    the freshness of the new fragment name. -/
theorem wrap_spread_in_fragment (doc doc' : Doc) (vars : Vars) (hv : Valid doc vars) (hu : UniqueNames doc.frags)
    (pre post : List Frag) (f : Frag) (nm : String) (body sels' : List Sel) (hw : WrapSpread nm body f.sels sels')
    (hfr : doc.frags = pre ++ [f] ++ post)
    (hfr' : doc'.frags = (pre ++ [⟨f.name, sels'⟩] ++ post) ++ [⟨nm, body⟩])
    (hfresh : ∀ g ∈ doc.frags, g.name ≠ nm) (hfree : ∀ g ∈ doc.frags, freeL nm g.sels = true)
    (hops : doc'.ops = doc.ops) (op : Op) (hop : op ∈ doc.ops) (hfreeop : freeL nm op.sels = true) :
    Valid doc' vars ∧
    ∃ d d', depthFixed doc.fuel op doc.frags vars = .ok d ∧ depthFixed doc'.fuel op doc'.frags vars = .ok d' ∧
      d ≤ d' ∧ d' = depth doc vars op ∧ d' = depth doc' vars op :=
  have hv' := (wrap_spread_in_fragment_valid doc doc' vars hv hu pre post f nm body sels' hw hfr hfr' hfresh hfree hops).1
  ⟨hv', wrap_spread_in_fragment_ge doc doc' vars hv hv' pre post f nm body sels' hw hfr hfr' hfresh hfree hops op hop
    hfreeop⟩

/-- **wrap_inline_in_fragment_final_derived** — the live measure, any request variables; nothing assumed about `doc'`
    beyond its construction -/
theorem wrap_inline_in_fragment_final_derived (doc doc' : Doc) (v : Vars)
    (hu : UniqueNames doc.frags) (ha : Acyclic doc.frags)
    (pre post : List Frag) (f : Frag) (sels' : List Sel) (hw : WrapInline f.sels sels')
    (hfr : doc.frags = pre ++ [f] ++ post) (hfr' : doc'.frags = pre ++ [⟨f.name, sels'⟩] ++ post)
    (hops : doc'.ops = doc.ops) (op : Op) (hop : op ∈ doc.ops) :
    UniqueNames doc'.frags ∧ Acyclic doc'.frags ∧ depthK doc' v op = depthK doc v op := by
  obtain ⟨hu', ha'⟩ := wrap_inline_in_fragment_acyclic doc.frags doc'.frags pre post f sels' hw hfr hfr' hu ha
  exact ⟨hu', ha', wrap_inline_in_fragment_final doc doc' v hu ha hu' ha' pre post f sels' hw hfr hfr' hops op hop⟩

/-- **wrap_spread_in_fragment_final_derived** — the same for a block moved into a fresh named fragment -/
theorem wrap_spread_in_fragment_final_derived (doc doc' : Doc) (v : Vars)
    (hu : UniqueNames doc.frags) (ha : Acyclic doc.frags)
    (pre post : List Frag) (f : Frag) (nm : String) (body sels' : List Sel) (hw : WrapSpread nm body f.sels sels')
    (hfr : doc.frags = pre ++ [f] ++ post)
    (hfr' : doc'.frags = (pre ++ [⟨f.name, sels'⟩] ++ post) ++ [⟨nm, body⟩])
    (hfresh : ∀ g ∈ doc.frags, g.name ≠ nm) (hfree : ∀ g ∈ doc.frags, freeL nm g.sels = true)
    (hops : doc'.ops = doc.ops) (op : Op) (hop : op ∈ doc.ops) (hfreeop : freeL nm op.sels = true) :
    UniqueNames doc'.frags ∧ Acyclic doc'.frags ∧ depthK doc' v op = depthK doc v op := by
  obtain ⟨hu', ha'⟩ := wrap_spread_in_fragment_acyclic doc.frags doc'.frags pre post f nm body sels' hw hfr hfr'
    hfresh hfree hu ha
  exact ⟨hu', ha', wrap_spread_in_fragment_final doc doc' v hu ha hu' ha' pre post f nm body sels' hw hfr hfr' hfresh
    hfree hops op hop hfreeop⟩

/-! ### operation level, live measure: the spread case -/

/-- **wrap_spread_final** — for the rule of today's tree and ANY request variables: moving a block of selections of an
    OPERATION (at the top or at any nesting level) into a new named fragment `nm` (fresh: not defined, not spread in the
    operation or in any fragment body) and spreading it there leaves the depth the rule compares with the limit (`depthK`)
    unchanged. -/
theorem wrap_spread_final (doc doc' : Doc) (v : Vars) (hu : UniqueNames doc.frags) (ha : Acyclic doc.frags)
    (op : Op) (hop : op ∈ doc.ops) (nm : String) (body sels' : List Sel) (hw : WrapSpread nm body op.sels sels')
    (hfr : doc'.frags = doc.frags ++ [⟨nm, body⟩]) (hfresh : ∀ f ∈ doc.frags, f.name ≠ nm)
    (hfree : ∀ f ∈ doc.frags, freeL nm f.sels = true) (hfreeop : freeL nm op.sels = true)
    (hop' : (⟨op.name, sels'⟩ : Op) ∈ doc'.ops) :
    depthK doc' v ⟨op.name, sels'⟩ = depthK doc v op := by
  have hv := valid_erase doc v hu ha
  have hfr_e : (eraseDoc v doc').frags = (eraseDoc v doc).frags ++ [⟨nm, eraseL v body⟩] := by
    simp [eraseDoc, eraseFrags, eraseFrag, hfr]
  have hfresh_e : ∀ f ∈ (eraseDoc v doc).frags, f.name ≠ nm := by
    intro g hg
    simp only [eraseDoc, eraseFrags, List.mem_map] at hg
    obtain ⟨g0, hg0, rfl⟩ := hg
    exact hfresh g0 hg0
  have hfree_e : ∀ f ∈ (eraseDoc v doc).frags, freeL nm f.sels = true := by
    intro g hg
    simp only [eraseDoc, eraseFrags, List.mem_map] at hg
    obtain ⟨g0, hg0, rfl⟩ := hg
    simp only [eraseFrag, freeL_erase]
    exact hfree g0 hg0
  have hfreeop_e : freeL nm (eraseOp v op).sels = true := by simp only [eraseOp, freeL_erase]; exact hfreeop
  have hopE' : (⟨(eraseOp v op).name, eraseL v sels'⟩ : Op) ∈ (eraseDoc v doc').ops :=
    List.mem_map_of_mem (f := eraseOp v) hop'
  obtain ⟨d, d', h1, h2, _, e⟩ := wrap_spread_ge (eraseDoc v doc) (eraseDoc v doc') v hv (eraseOp v op)
    (List.mem_map_of_mem (f := eraseOp v) hop) nm (eraseL v body) (eraseL v sels') (wrapSpread_erase v nm body hw)
    hfr_e hfresh_e hfree_e hfreeop_e hopE'
  -- the wrapped (erased) document is valid: the new fragment is appended to an acyclic set, freshly named
  have ha' : acyclic (eraseDoc v doc').frags = true := by
    rw [hfr_e]
    exact acyclic_extend _ nm (eraseL v body) hv.1 hfree_e hfresh_e
      (wrapSpread_free_body nm (eraseL v body) (wrapSpread_erase v nm body hw) hfreeop_e)
  have hv' : Valid (eraseDoc v doc') v := by
    refine ⟨ha', ?_, ?_⟩
    · intro o ho
      simp only [eraseDoc, List.mem_map] at ho
      obtain ⟨o0, _, rfl⟩ := ho
      exact boundL_erase v o0.sels
    · intro g hg
      simp only [eraseDoc, eraseFrags, List.mem_map] at hg
      obtain ⟨g0, _, rfl⟩ := hg
      exact boundL_erase v g0.sels
  have h3 := measured_eq_depth (eraseDoc v doc') v hv' ⟨(eraseOp v op).name, eraseL v sels'⟩ hopE' _ (Nat.le_refl _)
  rw [h2] at h3
  unfold depthK
  have : (eraseOp v ⟨op.name, sels'⟩ : Op) = ⟨(eraseOp v op).name, eraseL v sels'⟩ := rfl
  rw [this]
  cases h3
  exact e

/-! ### non-vacuity -/

private def fA' : Sel := .field none "a" {} [.field none "c" {} []]
private def fD' : Sel := .field none "d" {} []
private def opF' : Op := ⟨none, [.spread "F" {}]⟩
private def e0 : Doc := ⟨[opF'], [⟨"F", [fA', fD']⟩]⟩
/-- `fragment F { ...G d }  fragment G { a { c } }` -/
private def e2 : Doc := ⟨[opF'], [⟨"F", [.spread "G" {}, fD']⟩, ⟨"G", [fA']⟩]⟩

private theorem e0_valid : Valid e0 [] := by
  refine ⟨by decide, ?_, ?_⟩
  · intro op hop; simp [e0] at hop; subst hop; decide
  · intro f hf; simp [e0] at hf; subst hf; decide

/-- `{ ...F } fragment F { a { c } d }` → `fragment F { ...G d } fragment G { a { c } }`: validity of the second document
    is a CONCLUSION -/
example : Valid e2 [] ∧ ∃ d d', depthFixed e0.fuel opF' e0.frags [] = .ok d ∧ depthFixed e2.fuel opF' e2.frags [] = .ok d' ∧
    d ≤ d' ∧ d' = depth e0 [] opF' ∧ d' = depth e2 [] opF' :=
  wrap_spread_in_fragment e0 e2 [] e0_valid (by unfold UniqueNames; decide) [] [] ⟨"F", [fA', fD']⟩ "G" [fA']
    [.spread "G" {}, fD'] (.here [] [fD']) rfl rfl (by decide) (by decide) rfl opF' (by simp [e0]) (by decide)

/-- `{ a { c } d }` → `{ ...G d } fragment G { a { c } }` with an unknown variable in the view -/
private def o0 : Op := ⟨none, [fA', fD']⟩
private def g0 : Doc := ⟨[o0], []⟩
private def g1 : Doc := ⟨[⟨none, [.spread "G" {}, fD']⟩], [⟨"G", [fA']⟩]⟩

example : depthK g1 [("unused", true)] ⟨none, [.spread "G" {}, fD']⟩ = depthK g0 [("unused", true)] o0 :=
  wrap_spread_final g0 g1 _ (by unfold UniqueNames; decide) (acyclic_sound _ (by decide)) o0 (by simp [g0]) "G" [fA']
    [.spread "G" {}, fD'] (.here [] [fD']) rfl (by decide) (by decide) (by decide) (by simp [g1, o0])

end PyGql.Props.C19

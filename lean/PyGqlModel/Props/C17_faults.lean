/-
  C17 — fault sequences: source errors mid-stream, events whose processing raises an unexpected exception,
  and a consumer that goes on reading.  Model: `PyGqlModel/SubscribeFaults.lean`.
-/
import PyGqlModel.SubscribeFaults

set_option linter.unusedSimpArgs false
set_option linter.unusedVariables false

namespace PyGql.Props.C17
open PyGql.Subscribe PyGql.Instr

/-- draining the faulty stream with enough calls is the plain recursion over the source; ONE source pull per
    `__anext__` call (plus the final one that stops) -/
theorem drain_eq_pullsOf (clear : Bool) : ∀ (fuel : Nat) (s : XStream), s.source.length < fuel →
    (XStream.drain clear fuel s).1 = pullsOf clear s.st s.k s.source
    ∧ (XStream.drain clear fuel s).2.pulls = s.pulls + s.source.length + 1
  | 0, s, h => by omega
  | fuel + 1, s, h => by
    obtain ⟨src, st, k, pulls⟩ := s
    cases src with
    | nil => simp [XStream.drain, XStream.next, pullsOf]
    | cons it rest =>
      cases it with
      | srcRaise =>
        have ih := drain_eq_pullsOf clear fuel ⟨rest, st, k, pulls + 1⟩ (by simp at h ⊢; omega)
        simp only [XStream.drain, XStream.next, pullsOf, ih, List.length_cons]
        simp; omega
      | crash e =>
        have ih := drain_eq_pullsOf clear fuel ⟨rest, (executeSubscriptionEvent clear st k e).1, k + 1, pulls + 1⟩
          (by simp at h ⊢; omega)
        simp only [XStream.drain, XStream.next, pullsOf, ih, List.length_cons]
        simp; omega
      | ev e =>
        have ih := drain_eq_pullsOf clear fuel ⟨rest, (executeSubscriptionEvent clear st k e).1, k + 1, pulls + 1⟩
          (by simp at h ⊢; omega)
        simp only [XStream.drain, XStream.next, pullsOf, ih, List.length_cons]
        simp; omega

/-- **faults_do_not_leak** — per-event isolation under fault sequences. Whatever the shared executor held
    when the stream started, wherever the source raises and whichever events crash mid-processing (leaving
    their partial errors in the shared executor): what the consumer sees is the state-free specification —
    each surviving event's result is the execution of the selection with THAT event on a FRESH executor, in
    source order; a source error consumes no event; a crashed event consumes its index and yields no result.
    (As for `kth_result_is_exec_of_kth_event`: the specification side is the same model function on a fresh executor; the content is that nothing of a crashed or failed event survives `clear_errors`, for every fault sequence.) -/
theorem faults_do_not_leak (st : ExecState) (k : Nat) (items : List Item) :
    pullsOf true st k items = specPulls k items := by
  induction items generalizing st k with
  | nil => rfl
  | cons it rest ih =>
    cases it with
    | srcRaise => simp [pullsOf, specPulls, ih]
    | crash e => simp [pullsOf, specPulls, ih]
    | ev e =>
      simp only [pullsOf, specPulls, ih]
      rfl

/-- **one_pull_per_item** — one pull per source item, in source order: a result exactly at the positions of
    the surviving events, an exception exactly at the faulty positions (hence same length). -/
theorem one_pull_per_item (k : Nat) (items : List Item) :
    (specPulls k items).map Pull.isResult = items.map Item.isEv := by
  induction items generalizing k with
  | nil => rfl
  | cons it rest ih => cases it <;> simp [specPulls, Pull.isResult, Item.isEv, ih]

/-- **crash_leaks_without_clear_errors** — what `clear_errors` is for under faults: an event crashes after
    `root.x` raised a ResolverError; WITHOUT `executor.clear_errors()` the NEXT event's (clean) result carries
    that error. -/
theorem crash_leaks_without_clear_errors :
    let crashed : Event := [.mk "root" false (.obj [.mk "x" true .null])]
    let clean : Event := [.mk "root" false (.obj [.mk "x" false (.leaf 2)])]
    (pullsOf false ⟨[]⟩ 0 [.crash crashed, .ev clean]).map (fun p => match p with | .result r => r.errors | _ => [])
        = [[], [⟨0, [.key "root", .key "x"]⟩]]
    ∧ (pullsOf true ⟨[]⟩ 0 [.crash crashed, .ev clean]).map (fun p => match p with | .result r => r.errors | _ => [])
        = [[], []] := by
  decide

/-- **async_for_stops_at_first_fault** — `async for` over a source `evs ++ fault :: rest` (fault = the source
    raises, or an event crashes): exactly the results of `evs` (each = fresh execution of its event), then the
    exception; the source has been pulled `|evs| + 1` times — nothing behind the fault is consumed. -/
theorem async_for_stops_at_first_fault (st : ExecState) (k pulls : Nat) (evs : List Event) (fault : Item)
    (hf : fault.isEv = false) (rest : List Item) (fuel : Nat) (hfuel : evs.length < fuel) :
    let out := XStream.asyncFor true fuel ⟨evs.map Item.ev ++ fault :: rest, st, k, pulls⟩
    out.1 = (List.range evs.length).zipWith (fun j e => (executeSubscriptionEvent true ⟨[]⟩ (k + j) e).2) evs
    ∧ out.2.1 = true ∧ out.2.2.pulls = pulls + evs.length + 1 ∧ out.2.2.source = rest := by
  induction evs generalizing st k pulls fuel with
  | nil =>
    cases fuel with
    | zero => simp at hfuel
    | succ f =>
      cases fault with
      | ev e => simp [Item.isEv] at hf
      | crash e => simp [XStream.asyncFor, XStream.next]
      | srcRaise => simp [XStream.asyncFor, XStream.next]
  | cons e es ih =>
    cases fuel with
    | zero => simp at hfuel
    | succ f =>
      have := ih (executeSubscriptionEvent true st k e).1 (k + 1) (pulls + 1) f (by simp at hfuel ⊢; omega)
      simp only [List.map_cons, List.cons_append, XStream.asyncFor, XStream.next]
      simp only at this
      obtain ⟨h1, h2, h3, h4⟩ := this
      refine ⟨?_, h2, by rw [h3]; simp; omega, h4⟩
      rw [h1]
      simp only [List.length_cons, List.range_succ_eq_map, List.zipWith_cons_cons, List.zipWith_map_left]
      have hfun : (fun (j : Nat) (e : Event) => (executeSubscriptionEvent true ⟨[]⟩ (k + 1 + j) e).2)
          = (fun (a : Nat) (b : Event) => (executeSubscriptionEvent true ⟨[]⟩ (k + a.succ) b).2) := by
        funext j e
        have : k + 1 + j = k + j.succ := by omega
        rw [this]
      rw [hfun]
      rfl

/-- non-vacuity: the source raises between two events, the consumer reads on; the second event's result is its
    own (index 1), errors only its own -/
example :
    let e0 : Event := [.mk "root" false (.obj [.mk "x" true .null])]
    let e1 : Event := [.mk "root" false (.obj [.mk "x" false (.leaf 2)])]
    (XStream.drain true 5 ⟨[.ev e0, .srcRaise, .ev e1], ⟨[]⟩, 0, 0⟩).1.map
        (fun p => match p with | .result r => some r.errors | _ => none)
      = [some [⟨0, [.key "root", .key "x"]⟩], none, some []] := by
  decide

end PyGql.Props.C17

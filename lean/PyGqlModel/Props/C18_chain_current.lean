/-
  C18 — the chain statements for the variant the code HAS (`chained vs true`: fix C18-W8, flag `chainPersonalSkip = true`
  re-extracted on every run: `table_chain_personal_skip`).

  `chained_order`, `chained_observer`, `chained_skip`, `chain_discards_delete`, `chain_discards_replace`,
  `chain_not_faithful` (Props/C18.lean) are about `chained vs` = `chained vs false`, the loop BEFORE the fix (a member's
  `SkipNode` aborts it). For the current loop only the enter half (`chained_order_personal`) and the skip statement
  (`chained_skip_personal`) existed. Here, for `chained vs true`:

  * `chained_order_current`  — observers: `enter` in order AND `leave` in reverse, on the same node;
  * `chained_observer_current` — a chain of observers is an observer: `identity_noop`, `balanced`, `once`, `coverage_partial`,
    `wellShaped_visit_ok`, … apply to chains of the current code;
  * `chain_discards_delete_current`, `chain_discards_replace_current`, `chain_not_faithful_current` — finding W6 holds for
    the current loop as well (`ChainedVisitor.enter` still returns the ORIGINAL node).
-/
import PyGqlModel.Props.C18_table

namespace PyGql.Props.C18
open PyGql.Visit PyGql.Generated.VisitTable

variable {σ : Type}

/-- the variant the correspondence runs is the one these theorems are about -/
theorem current_chain_is_personal : chainPersonalSkip = true := table_chain_personal_skip

/-- **chained_order_current** — members that change nothing, CURRENT loop: `enter` runs the members' `enter` in order, `leave`
    runs the members' `leave` in reverse order, on the same node -/
theorem chained_order_current (vs : List (Visitor σ)) (hobs : ∀ v ∈ vs, Observer v) (n : Node) (s : σ) :
    (chained vs true).enter n s = (.keep n, vs.foldl (fun s v => (v.enter n s).2) s) ∧
    (chained vs true).leave n s = vs.reverse.foldl (fun s v => v.leave n s) s := by
  refine ⟨chained_order_personal vs hobs n s, ?_⟩
  simp [chained, chainLeave, List.foldl_reverse]

/-- `leave` of a chain is the members' `leave` in reverse order whatever the members do (both variants) -/
theorem chained_leave_reverse (vs : List (Visitor σ)) (personal : Bool) (n : Node) (s : σ) :
    (chained vs personal).leave n s = vs.reverse.foldl (fun s v => v.leave n s) s := by
  simp [chained, chainLeave, List.foldl_reverse]

/-- **chained_observer_current** — a chain of observers is an observer (current loop) -/
theorem chained_observer_current (vs : List (Visitor σ)) (hobs : ∀ v ∈ vs, Observer v) : Observer (chained vs true) := by
  intro n s; rw [(chained_order_current vs hobs n s).1]

/-- W6, current loop — a member's deletion is discarded: the chain returns the ORIGINAL node (later members are not
    entered for it, every member's `leave` is still called by the wrapper) -/
theorem chain_discards_delete_current (v : Visitor σ) (vs : List (Visitor σ)) (n : Node) (s s1 : σ)
    (h : v.enter n s = (.delete, s1)) : (chained (v :: vs) true).enter n s = (.keep n, s1) := by
  cases vs <;> simp [chained, chainEnterP, h]

/-- W6, current loop — a member's replacement is handed to the later members but NOT substituted in the tree -/
theorem chain_discards_replace_current (v w : Visitor σ) (hw : Observer w) (n r : Node) (s s1 : σ)
    (h : v.enter n s = (.replace r, s1)) : (chained [v, w] true).enter n s = (.keep n, (w.enter r s1).2) := by
  have he := hw r s1
  rcases hes : w.enter r s1 with ⟨act, s2⟩
  rw [hes] at he
  simp only at he
  subst he
  simp [chained, chainEnterP, h, hes]

/-- the expectation "what a member decides for a node is what the chain does with it", for the current loop -/
def ChainFaithfulCurrent : Prop :=
  ∀ (v : Visitor Unit) (n : Node), ((chained [v] true).enter n ()).1 = (v.enter n ()).1

/-- refutation (known finding W6) for the loop the code has -/
theorem chain_not_faithful_current : ¬ ChainFaithfulCurrent := by
  intro h
  have := h ⟨fun _ s => (.delete, s), fun _ s => s⟩ default
  simp [chained, chainEnterP] at this

/-- a chain of observers visits a well-shaped… any tree exactly like one observer: `identity_noop` instantiated -/
example (vs : List (Visitor σ)) (hobs : ∀ v ∈ vs, Observer v) (fuel : Nat) (t : Node) (s : σ) (o : Out σ)
    (h : visit table (chained vs true) fuel t s = .ok o) : o.ret = some t ∧ o.orig = t :=
  identity_noop table (chained vs true) (chained_observer_current vs hobs) fuel t s o h

end PyGql.Props.C18

/-
  C04 ∘ C07 — "argument coercion failures count as resolver failures": in the executor model a `CoercionError` of
  `coerce_argument_values` (C07's model) yields `null` at the field plus ONE error with the field's path and location,
  and the resolver is not called; successful coercion hands the resolver exactly the coerced keyword arguments.
-/
import PyGqlModel.ExecArgs
import PyGqlModel.Props.C04

set_option linter.unusedSimpArgs false
set_option linter.unusedVariables false

namespace PyGql.Props.C04
open PyGql PyGql.Exec PyGql.Coerce

theorem argsEntry_none_iff (e : ArgEnv) (defs : List InField) (nodes : List (String × Lit)) :
    argsEntry e defs nodes = none ↔ ∃ err, coerceArgumentValues e.reg e.fuel e.vars nodes defs = .error err := by
  unfold argsEntry
  cases coerceArgumentValues e.reg e.fuel e.vars nodes defs with
  | ok kw => simp
  | error err => simp

theorem argsEntry_some_iff (e : ArgEnv) (defs : List InField) (nodes : List (String × Lit)) (a : String) :
    argsEntry e defs nodes = some a ↔ ∃ kw, coerceArgumentValues e.reg e.fuel e.vars nodes defs = .ok kw ∧ a = renderArgs kw := by
  unfold argsEntry
  cases coerceArgumentValues e.reg e.fuel e.vars nodes defs with
  | ok kw => simp [eq_comm]
  | error err => simp

/-- every object type that defines the field has its entry in the table of the field node -/
theorem argsTable_mem (s : SchemaD) (e : ArgEnv) (fieldName : String) (nodes : List (String × Lit)) (t : TypeD) (f : FieldD)
    (ht : t ∈ s.types) (hk : t.kind = .object) (hf : t.fields.find? (·.name == fieldName) = some f) :
    (t.name, argsEntry e (f.args.map inFieldOfArg) nodes) ∈ argsTable s e fieldName nodes := by
  unfold argsTable
  simp only [List.mem_filterMap]
  exact ⟨t, ht, by simp [hk, hf]⟩

/-- **argument_coercion_failure_is_field_error**: the entry of the parent type is a coercion failure ⇒ `null` at the
    field, exactly one error (kind `coercion`, the response path, the location of the field node), whatever the resolver
    world is — the resolver is never consulted. -/
theorem argument_coercion_failure_is_field_error (s : SchemaD) (w : World) (execSub) (parent : String) (path : Path)
    (node : FNode) (more : List FNode) (fd : FieldD)
    (h : (node.args.find? (·.1 == parent)).map (·.2) = some none) :
    resolveField s w execSub parent path (node :: more) fd
      = .ok (.null, [{ path := path, locs := [node.loc], kind := .coercion }]) := by
  simp [resolveField, h]

/-- … stated directly with C07's function -/
theorem coerce_error_is_field_error (s : SchemaD) (w w' : World) (execSub) (parent : String) (path : Path) (e : ArgEnv)
    (defs : List InField) (nodes : List (String × Lit)) (err : Coerce.Err) (node : FNode) (more : List FNode) (fd : FieldD)
    (hargs : node.args = [(parent, argsEntry e defs nodes)])
    (herr : coerceArgumentValues e.reg e.fuel e.vars nodes defs = .error err) :
    resolveField s w execSub parent path (node :: more) fd
      = .ok (.null, [{ path := path, locs := [node.loc], kind := .coercion }])
    ∧ resolveField s w execSub parent path (node :: more) fd = resolveField s w' execSub parent path (node :: more) fd := by
  have hn : argsEntry e defs nodes = none := (argsEntry_none_iff e defs nodes).mpr ⟨err, herr⟩
  have h : (node.args.find? (·.1 == parent)).map (·.2) = some none := by simp [hargs, hn]
  exact ⟨argument_coercion_failure_is_field_error s w execSub parent path node more fd h,
    by rw [argument_coercion_failure_is_field_error s w execSub parent path node more fd h,
           argument_coercion_failure_is_field_error s w' execSub parent path node more fd h]⟩

/-- **argument_coercion_success_reaches_resolver**: when coercion succeeds the resolver world is asked with exactly the
    canonical text of the coerced keyword arguments (conformance of these values is C07's `arguments_sound`) -/
theorem argument_coercion_success_reaches_resolver (s : SchemaD) (w : World) (execSub) (parent : String) (path : Path) (e : ArgEnv)
    (defs : List InField) (nodes : List (String × Lit)) (kw : List (String × PV)) (node : FNode) (more : List FNode) (fd : FieldD)
    (hargs : node.args = [(parent, argsEntry e defs nodes)])
    (hok : coerceArgumentValues e.reg e.fuel e.vars nodes defs = .ok kw) :
    resolveField s w execSub parent path (node :: more) fd =
      match w parent fd.name path (renderArgs kw) with
      | .err msg ext => .ok (.null, [{ path := path, locs := [node.loc], kind := .resolver msg ext }])
      | .boom => .error (.internal "unexpected")
      | .val v => catchField path node.loc (completeValue s execSub (node :: more) fd.type path v) := by
  have hs : argsEntry e defs nodes = some (renderArgs kw) := (argsEntry_some_iff e defs nodes _).mpr ⟨kw, hok, rfl⟩
  have h : (node.args.find? (·.1 == parent)).map (·.2) = some (some (renderArgs kw)) := by simp [hargs, hs]
  simp only [resolveField, h]
  cases w parent fd.name path (renderArgs kw) <;> rfl

/-! non-vacuity: a required argument that is missing is a coercion error of C07's model, hence a field error here -/
example : coerceArgumentValues (regOfSchema { types := [] }) 10 [] []
    [{ name := "x", pyName := "x", type := .nonNull (.named "Int"), default := none }] = .error .coercion := by rfl

end PyGql.Props.C04

/-
  C14 — CHAINS: successive transforms, each applied to the RESULT of the previous one
  (`transform_schema(transform_schema(transform_schema(source, A), B), C)` — camel-case then visibility, a clone of a clone, …).

  `transform_chain_untouched_preserved` (FULL, induction over the chain): for a closed well-formed source and any number of
  clone-based transforms (visibility / camel-case / heal visitors, arbitrary predicates and renamings) applied in a chain,
  * the source is not written (nor is any intermediate result once it exists) and the final result is closed and well-formed;
  * every non-protected type of the FINAL result is `TRel` to the ORIGINAL source's type of that name: same attributes; its
    fields / arguments / input fields are, in order, copies of a sub-list of the original's with resolver, subscription resolver,
    python name, default, description, deprecation, type by name unchanged and the name converted by the composition of all
    renamings of the chain (`chainRen`).
  The relation composes (`TRel.comp`): copies of copies are copies.
-/
import PyGqlModel.Props.C14_sequence

set_option linter.unusedSimpArgs false
set_option linter.unusedVariables false

namespace PyGql.Props.C14
open PyGql.Heap PyGql.Heap.Own

/-- `transform_schema` applied to the result of the previous `transform_schema` -/
def chain (cfg : Cfg) (fuel : Nat) : List (List Visitor) → Heap × Schema → Option (Heap × Schema)
  | [], r => some r
  | vs :: rest, (h, s) =>
    match transform cfg fuel vs s h with
    | none => none
    | some r => chain cfg fuel rest r

/-- the renaming of member names along a chain, first transform first -/
def chainRen : List (List Visitor) → String → String
  | [] => id
  | vs :: rest => fun n => chainRen rest (renAll vs id n)

private theorem sub2_nil_left {α β : Type} {R : α → β → Prop} {l : List β} (h : Sub2 R [] l) : l = [] := by
  cases h; rfl

private theorem sub2_comp {α β γ : Type} {R : α → β → Prop} {S : β → γ → Prop} : ∀ {l1 : List α} {l2 : List β}, Sub2 R l1 l2 →
    ∀ {l3 : List γ}, Sub2 S l2 l3 → Sub2 (fun a c => ∃ b, R a b ∧ S b c) l1 l3 := by
  intro l1 l2 h12
  induction h12 with
  | nil => intro l3 h23; rw [sub2_nil_left h23]; exact Sub2.nil
  | skip _ ih => intro l3 h23; exact Sub2.skip (ih h23)
  | cons hd _ ih =>
    intro l3 h23
    cases h23 with
    | skip h' => exact Sub2.skip (ih h')
    | cons hd' h' => exact Sub2.cons ⟨_, hd, hd'⟩ (ih h')

private theorem arel_comp {ρ σ : String → String} {h0 h1 h2 : Heap} {a b c : Addr} (r1 : ARel ρ h0 h1 a b) (r2 : ARel σ h1 h2 b c) :
    ARel (fun n => σ (ρ n)) h0 h2 a c := by
  obtain ⟨g, g', e1, e2, k1, k2, k3, k4, k5⟩ := r1
  obtain ⟨g2, g3, e3, e4, m1, m2, m3, m4, m5⟩ := r2
  rw [e2] at e3; cases e3
  exact ⟨g, g3, e1, e4, by rw [m1, k1], m2.trans k2, m3.trans k3, m4.trans k4, sameNames_trans k5 m5⟩

private theorem frel_comp {ρ σ : String → String} {h0 h1 h2 : Heap} {a b c : Addr} (r1 : FRel ρ h0 h1 a b) (r2 : FRel σ h1 h2 b c) :
    FRel (fun n => σ (ρ n)) h0 h2 a c := by
  obtain ⟨f, f', e1, e2, ⟨k1, k2, k3, k4, k5, k6, k7⟩, ka⟩ := r1
  obtain ⟨f2, f3, e3, e4, ⟨m1, m2, m3, m4, m5, m6, m7⟩, ma⟩ := r2
  rw [e2] at e3; cases e3
  refine ⟨f, f3, e1, e4, ⟨by rw [m1, k1], m2.trans k2, m3.trans k3, m4.trans k4, m5.trans k5, m6.trans k6, sameNames_trans k7 m7⟩, ?_⟩
  exact (sub2_comp ka ma).imp fun x z ⟨y, rxy, ryz⟩ => arel_comp rxy ryz

/-- copies of copies are copies: the relation to the source composes along a chain -/
theorem TRel.comp {ρ σ : String → String} {h0 h1 h2 : Heap} {t0 t1 : TypeO} {a1 a2 : Addr}
    (r1 : TRel ρ h0 h1 t0 a1) (ht1 : h1.readType a1 = some t1) (r2 : TRel σ h1 h2 t1 a2) : TRel (fun n => σ (ρ n)) h0 h2 t0 a2 := by
  obtain ⟨t1', e1, at1, m1⟩ := r1
  rw [ht1] at e1; cases e1
  obtain ⟨t2, e2, at2, m2⟩ := r2
  refine ⟨t2, e2, at1.trans at2, ?_⟩
  have hk : t1.kind = t0.kind := at1.1
  rw [hk] at m2
  simp only [MRel] at m1 m2 ⊢
  cases hk0 : t0.kind <;> simp only [hk0] at m1 m2 ⊢
  · exact (sub2_comp m1 m2).imp fun x z ⟨y, rxy, ryz⟩ => frel_comp rxy ryz
  · exact (sub2_comp m1 m2).imp fun x z ⟨y, rxy, ryz⟩ => frel_comp rxy ryz
  · exact (sub2_comp m1 m2).imp fun x z ⟨y, rxy, ryz⟩ => arel_comp rxy ryz

/-- FULL `untouched_preserved` along a chain of transforms (see the header) -/
theorem transform_chain_untouched_preserved (cfg : Cfg) (hd : cfg.deepClone = true) (hk : cfg.keepAllTypes = true)
    (hacc : cfg.accumulateBusted = true) (fuel : Nat) :
    ∀ (ops : List (List Visitor)), (∀ vs, vs ∈ ops → ∀ v, v ∈ vs → NoWrap v) → ∀ (s : Schema) (h h' : Heap) (s' : Schema),
      closedB h s = true → wfB h s = true → chain cfg (2 + fuel) ops (h, s) = some (h', s') →
      Frame h h' ∧ closedB h' s' = true ∧ wfB h' s' = true ∧
      ∀ e', e' ∈ s'.types → isProtected e'.1 = true ∨
        ∃ e0, e0 ∈ s.types ∧ e0.1 = e'.1 ∧ ∀ t0, h.readType e0.2 = some t0 → TRel (chainRen ops) h h' t0 e'.2 := by
  intro ops
  induction ops with
  | nil =>
    intro _ s h h' s' hc hw e
    simp only [chain, Option.some.injEq, Prod.mk.injEq] at e
    obtain ⟨rfl, rfl⟩ := e
    refine ⟨Frame.refl h, hc, hw, ?_⟩
    intro e' he'
    by_cases hp : isProtected e'.1 = true
    · exact Or.inl hp
    · refine Or.inr ⟨e', he', rfl, fun t0 ht0 => ?_⟩
      -- the identity relation: every readable member is a copy of itself
      have w := wfs_of_wfB hw
      have hr := membersReadable_of_shape _ h e'.2 t0 ht0 (w.types e' he')
      refine ⟨t0, ht0, TAttr.refl t0, ?_⟩
      have hargs : ∀ (as : List Addr), (∀ a, a ∈ as → ∃ g, h.readArg a = some g) → Sub2 (ARel id h h) as as := by
        intro as
        induction as with
        | nil => intro _; exact Sub2.nil
        | cons a as ih =>
          intro hx
          obtain ⟨g, hg⟩ := hx a (by simp)
          exact Sub2.cons ⟨g, g, hg, hg, AAttr.refl g⟩ (ih fun x hxm => hx x (by simp [hxm]))
      have hfields : ∀ (as : List Addr), (∀ a, a ∈ as → ∃ f, h.readField a = some f ∧ ∀ x, x ∈ f.args → ∃ g, h.readArg x = some g) →
          Sub2 (FRel id h h) as as := by
        intro as
        induction as with
        | nil => intro _; exact Sub2.nil
        | cons a as ih =>
          intro hx
          obtain ⟨f, hf, hfa⟩ := hx a (by simp)
          exact Sub2.cons ⟨f, f, hf, hf, FAttr.refl f, hargs f.args hfa⟩ (ih fun x hxm => hx x (by simp [hxm]))
      simp only [MRel, MembersReadable, chainRen] at hr ⊢
      cases hk0 : t0.kind <;> simp only [hk0] at hr ⊢
      · exact hfields _ hr
      · exact hfields _ hr
      · exact hargs _ hr
  | cons vs rest ih =>
    intro hv s h h' s' hc hw e
    simp only [chain] at e
    split at e
    · cases e
    · rename_i r hr
      obtain ⟨h1, s1⟩ := r
      have f1 : Frame h h1 := clone_frames_source cfg hd (2 + fuel) vs s h h1 s1 hc hr
      obtain ⟨c1, w1⟩ := transform_closed cfg hd hk hacc fuel vs s h h1 s1 hc hw hr
      have m1 := transform_preserves_untouched_members cfg hd (2 + fuel) vs (hv vs (by simp)) s h h1 s1 hc hw hr
      obtain ⟨f2, c2, w2, m2⟩ := ih (fun vs' hvs' => hv vs' (by simp [hvs'])) s1 h1 h' s' c1 w1 e
      refine ⟨f1.trans f2, c2, w2, ?_⟩
      intro e' he'
      rcases m2 e' he' with hp | ⟨e1, g1, g2, g3⟩
      · exact Or.inl hp
      · rcases m1 e1 g1 with hp | ⟨e0, k1, k2, k3⟩
        · exact Or.inl (by rw [← g2]; exact hp)
        · refine Or.inr ⟨e0, k1, k2.trans g2, fun t0 ht0 => ?_⟩
          have r1 := k3 t0 ht0
          obtain ⟨t1, ht1, _, _⟩ := r1
          show TRel (fun n => chainRen rest (renAll vs id n)) h h' t0 e'.2
          exact TRel.comp (ρ := renAll vs id) (σ := chainRen rest) (k3 t0 ht0) ht1 (g3 t1 ht1)

/-- TOTALITY: every chain on a closed well-formed source succeeds -/
theorem chain_total (cfg : Cfg) (hd : cfg.deepClone = true) (hk : cfg.keepAllTypes = true) (hacc : cfg.accumulateBusted = true) (fuel : Nat) :
    ∀ (ops : List (List Visitor)) (s : Schema) (h : Heap), closedB h s = true → wfB h s = true →
      (chain cfg (2 + fuel) ops (h, s)).isSome = true := by
  intro ops
  induction ops with
  | nil => intro s h _ _; rfl
  | cons vs rest ih =>
    intro s h hc hw
    obtain ⟨h1, s1, e1, c1, w1⟩ := transform_closed_total cfg hd hk hacc vs s h hc hw fuel
    simp only [chain, e1]
    exact ih s1 h1 c1 w1

/-- non-vacuity on the witness: camel-case, then hide `Dog`, then a plain clone — each applied to the previous result -/
example : closedB h0 s0 = true ∧ wfB h0 s0 = true ∧
    ((chain Cfg.fixed (2 + 6) [[.camel id], [.vis hideDog], []] (h0, s0)).map fun r => (names r.2, closedB r.1 r.2))
      = some (["String", "Query", "Pet"], true) := by decide

end PyGql.Props.C14

/-
  C06 - property theorems, part 26: **alpha_variables** for the three `VariablesCollector` rules (5.8.3 NoUndefinedVariables,
  5.8.4 NoUnusedVariables, 5.8.5 VariablesInAllowedPosition) and the aggregate for 25 of the 26 rules. Route: the rule
  theorems of Props/C06_vars.lean (code with the fixes of V3 / V4 = /repo HEAD) + invariance of the clauses of
  `Spec/ValidSpecVars.lean` under an INJECTIVE renaming (Lemmas/ValidateVarRenameSpec.lean, ValidateVarRenamePos.lean):
  definitions and usages are renamed together, the spread graph and every usage position are untouched, the definition a
  usage is checked against keeps its type and its kind of default.
-/
import PyGqlModel.Props.C06_inv7
import PyGqlModel.Lemmas.ValidateVarRenamePos
namespace PyGql.Props.C06
open PyGql PyGql.Validate PyGql.Validate.Spec

/-- **alpha_variables for NoUndefinedVariables, NoUnusedVariables, VariablesInAllowedPosition** (injective renaming;
    code with the fixes of V3 and V4, as the rule theorems) -/
theorem alpha_variables_variable_rules (V : Vr) (hinj : ∀ a b, V.var a = V.var b → a = b) (s : SchemaD) (fx : Fixes)
    (h3 : fx.v3 = true) (h4 : fx.v4 = true) (d : Doc) (r : Rule)
    (hr : r ∈ [Rule.noUndefinedVariables, Rule.noUnusedVariables, Rule.variablesInAllowedPosition]) :
    Silent s fx r (V.doc d) ↔ Silent s fx r d := by
  simp only [List.mem_cons, List.not_mem_nil, or_false] at hr
  rcases hr with rfl | rfl | rfl
  · rw [rule_no_undefined_variables_iff s fx h4, rule_no_undefined_variables_iff s fx h4]
    exact no_undefined_variables_spec_vr V hinj d
  · rw [rule_no_unused_variables_iff s fx h4, rule_no_unused_variables_iff s fx h4]
    exact no_unused_variables_spec_vr V hinj d
  · rw [rule_variables_in_allowed_position_iff s fx h3 h4, rule_variables_in_allowed_position_iff s fx h3 h4]
    exact variables_in_allowed_position_spec_vr V hinj s d

/-- the statement for the whole chain, rule by rule (kept visible; the case of OverlappingFieldsCanBeMerged is open) -/
def FullStatement_alpha_variables_all (V : Vr) (s : SchemaD) (fx : Fixes) (d : Doc) : Prop :=
  ∀ r ∈ Rule.all, (Silent s fx r (V.doc d) ↔ Silent s fx r d)

/-- **alpha_variables for 25 of the 26 rules** (all but OverlappingFieldsCanBeMerged): injective renaming, code of
    /repo HEAD (only the fixes V3, V4 are used, by the three collector rules); no hypothesis on the document [ALONE-RUN statement, rule by rule: each rule visitor in a chain of its own; for the verdict of the chain `validate_ast` runs see `Props/C06_chain.lean: chainM_six_transformations`.] -/
theorem alpha_variables_all25_partial (V : Vr) (hinj : ∀ a b, V.var a = V.var b → a = b) (s : SchemaD) (fx : Fixes)
    (h3 : fx.v3 = true) (h4 : fx.v4 = true) (d : Doc) (r : Rule) (hr : r ≠ .overlappingFieldsCanBeMerged) :
    Silent s fx r (V.doc d) ↔ Silent s fx r d := by
  by_cases hv : r ∈ [Rule.noUndefinedVariables, Rule.noUnusedVariables, Rule.variablesInAllowedPosition]
  · exact alpha_variables_variable_rules V hinj s fx h3 h4 d r hv
  · refine alpha_variables_all22_partial V hinj s fx d r ?_
    revert hr hv
    cases r <;> decide

/-- non-vacuity: the suffix renaming, on the code of /repo HEAD -/
example (s : SchemaD) (d : Doc) (r : Rule) (hr : r ≠ .overlappingFieldsCanBeMerged) :
    Silent s Fixes.all r (suffixVr.doc d) ↔ Silent s Fixes.all r d :=
  alpha_variables_all25_partial suffixVr suffix_inj s Fixes.all rfl rfl d r hr

/-- injectivity is needed by the collector rules too: in `query($a: Int) { f(x: $b) }` the variable `$b` is undefined;
    renaming both to `$c` makes it defined -/
example : (⟨fun _ => "c"⟩ : Vr).var "a" = (⟨fun _ => "c"⟩ : Vr).var "b" := rfl

end PyGql.Props.C06

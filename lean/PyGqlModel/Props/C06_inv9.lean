/-
  C06 - property theorems, part 27: **perm_definitions** (reordering of the definitions of the document) for the rules not
  covered so far - `ValuesOfCorrectType` (no hypothesis), `SingleFieldSubscriptions` (unique fragment names: its fragment
  table keeps the LAST definition of a name), `VariablesInAllowedPosition` (unique operation keys and unique variable
  names: it reads the LAST definition of a variable of an operation key) - and the aggregate over 25 of the 26 rules.
-/
import PyGqlModel.Props.C06_inv8
namespace PyGql.Props.C06
open PyGql PyGql.Validate PyGql.Validate.Spec

/-! ### ValuesOfCorrectType -/

theorem perm_definitions_values (s : SchemaD) (fx : Fixes) {d d' : Doc} (h : d.defs.Perm d'.defs) :
    Silent s fx .valuesOfCorrectType d ↔ Silent s fx .valuesOfCorrectType d' := by
  rw [rule_values_of_correct_type_iff, rule_values_of_correct_type_iff]
  unfold Spec.valuesOfCorrectType inputNodes
  have hg : ∀ q, q ∈ gnDoc (IView.enter s) {} d ↔ q ∈ gnDoc (IView.enter s) {} d' := fun q => (h.flatMap_right _).mem_iff
  simp only [hg]

/-! ### SingleFieldSubscriptions -/

theorem get?_foldl_set_not_mem_gen {α : Type} (k : String) : ∀ (l : List (String × α)) (m : AL α), k ∉ l.map (·.1) →
    AL.get? (l.foldl (fun acc f => AL.set acc f.1 f.2) m) k = AL.get? m k
  | [], _, _ => rfl
  | f :: l, m, h => by
    simp only [List.map_cons, List.mem_cons, not_or] at h
    simp only [List.foldl_cons]
    rw [get?_foldl_set_not_mem_gen k l _ h.2, AL.get?_set, if_neg h.1]

theorem get?_foldl_set_mem_gen {α : Type} (k : String) (v : α) : ∀ (l : List (String × α)) (m : AL α), (l.map (·.1)).Nodup →
    (k, v) ∈ l → AL.get? (l.foldl (fun acc f => AL.set acc f.1 f.2) m) k = some v
  | [], _, _, h => by cases h
  | f :: l, m, hnd, h => by
    simp only [List.map_cons, List.nodup_cons] at hnd
    simp only [List.foldl_cons]
    rcases List.mem_cons.mp h with e | h'
    · subst e
      rw [get?_foldl_set_not_mem_gen k l _ hnd.1, AL.get?_set, if_pos rfl]
    · exact get?_foldl_set_mem_gen k v l _ hnd.2 h'

theorem get?_foldl_set_perm_gen {α : Type} {l l' : List (String × α)} (h : l.Perm l') (hnd : (l.map (·.1)).Nodup) (k : String) :
    AL.get? (l.foldl (fun acc f => AL.set acc f.1 f.2) []) k = AL.get? (l'.foldl (fun acc f => AL.set acc f.1 f.2) []) k := by
  have hnd' : (l'.map (·.1)).Nodup := (h.map _).nodup_iff.mp hnd
  by_cases hk : k ∈ l.map (·.1)
  · obtain ⟨p, hp, rfl⟩ := List.mem_map.mp hk
    rw [get?_foldl_set_mem_gen p.1 p.2 l [] hnd hp, get?_foldl_set_mem_gen p.1 p.2 l' [] hnd' (h.mem_iff.mp hp)]
  · have hk' : k ∉ l'.map (·.1) := fun h' => hk ((h.map _).mem_iff.mpr h')
    rw [get?_foldl_set_not_mem_gen k l [] hk, get?_foldl_set_not_mem_gen k l' [] hk']

/-- name and selections of the fragment definitions -/
def fragSelPairs (d : Doc) : List (String × List Sel) :=
  d.defs.filterMap fun | .frag n _ _ _ sels => some (n, sels) | _ => none

theorem sfsTable_as_pairs (d : Doc) : sfsTable d = (fragSelPairs d).foldl (fun m p => AL.set m p.1 p.2) [] := by
  obtain ⟨ds⟩ := d
  simp only [sfsTable, fragSelPairs]
  generalize ([] : AL (List Sel)) = m
  induction ds generalizing m with
  | nil => rfl
  | cons x xs ih => cases x <;> simp [List.filterMap_cons, ih]

theorem fragSelPairs_names (d : Doc) : (fragSelPairs d).map (·.1) = Spec.fragNames d := by
  obtain ⟨ds⟩ := d
  simp only [fragSelPairs, Spec.fragNames]
  induction ds with
  | nil => rfl
  | cons x xs ih => cases x <;> simp_all [List.filterMap_cons]

theorem sfsTable_perm {d d' : Doc} (h : d.defs.Perm d'.defs) (hnd : Spec.uniqueFragmentNames d) (k : String) :
    AL.get? (sfsTable d) k = AL.get? (sfsTable d') k := by
  rw [sfsTable_as_pairs, sfsTable_as_pairs]
  refine get?_foldl_set_perm_gen (l := fragSelPairs d) (l' := fragSelPairs d') (h.filterMap _) ?_ k
  rw [fragSelPairs_names]; exact hnd

theorem sfsBound_perm {d d' : Doc} (h : d.defs.Perm d'.defs) : sfsBound d = sfsBound d' := by
  unfold sfsBound
  refine h.foldl_eq' (fun x _ y _ z => ?_) 1
  cases x <;> cases y <;> simp <;> omega

/-- the collection reads the fragment table through `get?` only -/
theorem rootKeysGo_congr {frs frs' : AL (List Sel)} (hf : ∀ k, AL.get? frs k = AL.get? frs' k) :
    ∀ (fuel : Nat) (sels : List Sel) (ks vis : List String), rootKeysGo frs fuel sels ks vis = rootKeysGo frs' fuel sels ks vis
  | 0, _, _, _ => by simp [rootKeysGo]
  | f + 1, [], _, _ => by simp [rootKeysGo]
  | f + 1, .field .. :: rest, ks, vis => by
    simp only [rootKeysGo_field]; exact rootKeysGo_congr hf f rest _ vis
  | f + 1, .inline _ _ _ sub :: rest, ks, vis => by
    simp only [rootKeysGo]; exact rootKeysGo_congr hf f _ ks vis
  | f + 1, .spread name _ :: rest, ks, vis => by
    simp only [rootKeysGo, hf name]
    split
    · exact rootKeysGo_congr hf f rest ks vis
    · cases AL.get? frs' name with
      | none => exact rootKeysGo_congr hf f rest ks _
      | some sels => exact rootKeysGo_congr hf f _ ks _

/-- **perm_definitions for `SingleFieldSubscriptionsChecker`** (unique fragment names) -/
theorem perm_definitions_single_field_subscriptions (s : SchemaD) (fx : Fixes) {d d' : Doc} (h : d.defs.Perm d'.defs)
    (hnd : Spec.uniqueFragmentNames d) :
    Silent s fx .singleFieldSubscriptions d ↔ Silent s fx .singleFieldSubscriptions d' := by
  rw [rule_single_field_subscriptions_iff, rule_single_field_subscriptions_iff]
  unfold Spec.singleFieldSubscriptions
  have hkeys : ∀ sels, rootKeys (sfsTable d) (sfsBound d) sels = rootKeys (sfsTable d') (sfsBound d') sels := fun sels => by
    unfold rootKeys
    rw [sfsBound_perm h]
    exact rootKeysGo_congr (sfsTable_perm h hnd) _ _ _ _
  constructor
  · intro H n hn name vars dirs sels e
    subst e
    obtain ⟨id, hd⟩ := (mem_nodes_operation d' _ _ _ _ _).mp hn
    rw [← hkeys]
    exact H _ ((mem_nodes_operation d _ _ _ _ _).mpr ⟨id, h.mem_iff.mpr hd⟩) _ _ _ _ rfl
  · intro H n hn name vars dirs sels e
    subst e
    obtain ⟨id, hd⟩ := (mem_nodes_operation d _ _ _ _ _).mp hn
    rw [hkeys]
    exact H _ ((mem_nodes_operation d' _ _ _ _ _).mpr ⟨id, h.mem_iff.mp hd⟩) _ _ _ _ rfl

/-! ### VariablesInAllowedPosition -/

theorem usedAt_perm {d d' : Doc} (h : d.defs.Perm d'.defs) (s : SchemaD) (o x : String) (u : Usage) :
    UsedAt s d o x u ↔ UsedAt s d' o x u := by
  unfold UsedAt OpReaches OpSpreads
  refine or_congr (mem_defs_perm h _) ?_
  constructor
  · rintro ⟨f, ⟨g, hg, hr⟩, hu⟩
    exact ⟨f, ⟨g, (mem_defs_perm h _).mp hg, fragReach_perm h hr⟩, (mem_defs_perm h _).mp hu⟩
  · rintro ⟨f, ⟨g, hg, hr⟩, hu⟩
    exact ⟨f, ⟨g, (mem_defs_perm h _).mpr hg, fragReach_perm h.symm hr⟩, (mem_defs_perm h _).mpr hu⟩

theorem inj_of_nodup_names : ∀ (l : List VarDef), (l.map (·.name)).Nodup → ∀ a ∈ l, ∀ b ∈ l, a.name = b.name → a = b
  | [], _, a, ha, _, _, _ => by cases ha
  | c :: cs, hnd, a, ha, b, hb, e => by
    simp only [List.map_cons, List.nodup_cons, List.mem_map, not_exists, not_and] at hnd
    rcases List.mem_cons.mp ha with rfl | ha' <;> rcases List.mem_cons.mp hb with rfl | hb'
    · rfl
    · exact absurd e.symm (hnd.1 b hb')
    · exact absurd e (hnd.1 a ha')
    · exact inj_of_nodup_names cs hnd.2 a ha' b hb' e

/-- in a list without two definitions of a name, `find?` by name only depends on the members -/
theorem find?_name_perm {l l' : List VarDef} (h : l.Perm l') (hnd : (l.map (·.name)).Nodup) (x : String) :
    l.find? (·.name == x) = l'.find? (·.name == x) := by
  have hinj := inj_of_nodup_names l hnd
  cases h1 : l.find? (·.name == x) with
  | none =>
    symm
    rw [List.find?_eq_none] at h1 ⊢
    exact fun a ha => h1 a (h.mem_iff.mpr ha)
  | some a =>
    have ha := List.mem_of_find?_eq_some h1
    have hax : (fun v : VarDef => v.name == x) a = true := List.find?_some (p := fun v : VarDef => v.name == x) h1
    cases h2 : l'.find? (·.name == x) with
    | none =>
      rw [List.find?_eq_none] at h2
      exact absurd hax (h2 a (h.mem_iff.mp ha))
    | some b =>
      have hb := h.mem_iff.mpr (List.mem_of_find?_eq_some h2)
      have hbx : (fun v : VarDef => v.name == x) b = true := List.find?_some (p := fun v : VarDef => v.name == x) h2
      rw [hinj a ha b hb (by rw [eq_of_beq hax, eq_of_beq hbx])]

/-- the variable definitions filed under operation key `o` -/
def varsOfKey (o : String) (ds : List Def) : List VarDef := ds.flatMap fun df => if df.opKey? = some o then df.vars else []

theorem varsOfKey_nil_of_not_mem (o : String) : ∀ ds : List Def, o ∉ ds.filterMap Def.opKey? → varsOfKey o ds = []
  | [], _ => rfl
  | x :: xs, h => by
    simp only [varsOfKey, List.flatMap_cons]
    have hx : x.opKey? ≠ some o := fun e => h (by simp [List.filterMap_cons, e])
    have hxs : o ∉ xs.filterMap Def.opKey? := fun hm => h (by
      cases hk : x.opKey? <;> simp [List.filterMap_cons, hk, hm])
    rw [if_neg hx, List.nil_append]
    exact varsOfKey_nil_of_not_mem o xs hxs

theorem varsOfKey_names_nodup (o : String) : ∀ ds : List Def, (ds.filterMap Def.opKey?).Nodup →
    (∀ x ∈ ds, ∀ k n vs dr i ss, x = Def.op k n vs dr i ss → (vs.map (·.name)).Nodup) →
    ((varsOfKey o ds).map (·.name)).Nodup
  | [], _, _ => by simp [varsOfKey]
  | x :: xs, hk, hv => by
    have hv' : ∀ y ∈ xs, ∀ k n vs dr i ss, y = Def.op k n vs dr i ss → (vs.map (·.name)).Nodup :=
      fun y hy => hv y (List.mem_cons_of_mem _ hy)
    simp only [varsOfKey, List.flatMap_cons]
    by_cases hx : x.opKey? = some o
    · rw [if_pos hx]
      have hk' : o ∉ xs.filterMap Def.opKey? := by
        simp only [List.filterMap_cons, hx, List.nodup_cons] at hk
        exact hk.1
      have := varsOfKey_nil_of_not_mem o xs hk'
      simp only [varsOfKey] at this
      rw [this, List.append_nil]
      cases x with
      | op k n vs dr i ss => exact hv _ (List.mem_cons_self ..) k n vs dr i ss rfl
      | frag => simp [Def.opKey?] at hx
      | ts => simp [Def.opKey?] at hx
    · rw [if_neg hx, List.nil_append]
      have hk' : (xs.filterMap Def.opKey?).Nodup := by
        cases hkx : x.opKey? with
        | none => simpa [List.filterMap_cons, hkx] using hk
        | some k' =>
          simp only [List.filterMap_cons, hkx, List.nodup_cons] at hk
          exact hk.2
      exact varsOfKey_names_nodup o xs hk' hv'

theorem varDefFor_perm {d d' : Doc} (h : d.defs.Perm d'.defs) (hk : Spec.uniqueOpKeys d) (hv : Spec.uniqueVariableNames d)
    (o x : String) : varDefFor d o x = varDefFor d' o x := by
  unfold varDefFor
  have hp : (varsOfKey o d.defs).Perm (varsOfKey o d'.defs) := h.flatMap_right _
  have hnd := varsOfKey_names_nodup o d.defs hk hv
  refine find?_name_perm ((List.reverse_perm _).trans (hp.trans (List.reverse_perm _).symm)) ?_ x
  rw [List.map_reverse]
  exact (List.reverse_perm _).nodup_iff.mpr hnd

/-- **perm_definitions for `VariablesInAllowedPositionChecker`**: documents with unique operation keys and unique
    variable names per operation (else the rule checks against the LAST definition of `$x`: order-dependent); code
    with the fixes of V3 and V4 -/
theorem perm_definitions_variables_in_allowed_position (s : SchemaD) (fx : Fixes) (h3 : fx.v3 = true) (h4 : fx.v4 = true)
    {d d' : Doc} (h : d.defs.Perm d'.defs) (hk : Spec.uniqueOpKeys d) (hv : Spec.uniqueVariableNames d) :
    Silent s fx .variablesInAllowedPosition d ↔ Silent s fx .variablesInAllowedPosition d' := by
  rw [rule_variables_in_allowed_position_iff s fx h3 h4, rule_variables_in_allowed_position_iff s fx h3 h4]
  unfold Spec.variablesInAllowedPosition
  simp only [usedAt_perm h, varDefFor_perm h hk hv]

/-! ### all rules for which `perm_definitions` is proved: 25 of 26 -/

/-- the statement for the whole chain, rule by rule (kept visible; OverlappingFieldsCanBeMerged is open) -/
def FullStatement_perm_definitions_all (s : SchemaD) (fx : Fixes) (d d' : Doc) : Prop :=
  ∀ r ∈ Rule.all, (Silent s fx r d ↔ Silent s fx r d')

/-- **perm_definitions for 25 of the 26 rules** (all but OverlappingFieldsCanBeMerged): code of /repo HEAD; documents
    with unique non-empty fragment names, unique operation keys and unique variable names per operation (each hypothesis
    is needed by one or two rules only, see the per-rule theorems; without them the code's verdict DOES depend on the
    order: "the last definition wins") [ALONE-RUN statement, rule by rule: each rule visitor in a chain of its own; for the verdict of the chain `validate_ast` runs see `Props/C06_chain.lean: chainM_six_transformations`.] -/
theorem perm_definitions_all25_partial (s : SchemaD) (fx : Fixes) (hfx : HeadVars fx) {d d' : Doc}
    (h : d.defs.Perm d'.defs) (hnd : Spec.uniqueFragmentNames d) (hne : NamesNonEmpty d) (hk : Spec.uniqueOpKeys d)
    (hv : Spec.uniqueVariableNames d) (r : Rule) (hr : r ≠ .overlappingFieldsCanBeMerged) :
    Silent s fx r d ↔ Silent s fx r d' := by
  by_cases h1 : r ∈ ProvedPermDefs ∧ r ≠ .singleFieldSubscriptions
  · exact perm_definitions_all_partial s fx h r h1.1 h1.2
  by_cases h2 : r ∈ [Rule.uniqueVariableNames, Rule.noUndefinedVariables, Rule.noUnusedVariables]
  · exact perm_definitions_variables_partial s fx hfx.2.1 h r h2
  have : r = .singleFieldSubscriptions ∨ r = .valuesOfCorrectType ∨ r = .possibleFragmentSpreads ∨
      r = .noFragmentCycles ∨ r = .variablesInAllowedPosition := by
    revert h1 h2 hr
    cases r <;> decide
  rcases this with rfl | rfl | rfl | rfl | rfl
  · exact perm_definitions_single_field_subscriptions s fx h hnd
  · exact perm_definitions_values s fx h
  · exact perm_definitions_possible_fragment_spreads s fx h hnd
  · exact perm_definitions_no_fragment_cycles s fx hfx.2.2.1 h hnd hne
  · exact perm_definitions_variables_in_allowed_position s fx hfx.1 hfx.2.1 h hk hv

/-- non-vacuity: the hypotheses hold of `query A($v: Int) { ...F } fragment F on Query { a(x: $v) }`, and reversing the two
    definitions is a genuine reordering -/
example : let d : Doc := ⟨[.op "query" (some "A") [{ name := "v", type := .named "Int", default := none }] [] 1
      [.spread "F" []], .frag "F" "Query" [] 2 [.field none "a" [⟨"x", .var "v"⟩] [] false 0 []]]⟩
    Spec.uniqueFragmentNames d ∧ NamesNonEmpty d ∧ Spec.uniqueOpKeys d ∧ Spec.uniqueVariableNames d ∧
      d.defs.Perm d.defs.reverse := by
  refine ⟨by unfold Spec.uniqueFragmentNames; decide, by unfold NamesNonEmpty; decide, by unfold Spec.uniqueOpKeys; decide, ?_,
    (List.reverse_perm _).symm⟩
  intro x hx k n vs ds i ss e
  simp only [List.mem_cons, List.not_mem_nil, or_false] at hx
  rcases hx with rfl | rfl
  · simp only [Def.op.injEq] at e; obtain ⟨_, _, rfl, _⟩ := e; decide
  · cases e

end PyGql.Props.C06

/-
  C14 — the CONVERSE of member-level preservation for visibility: what the predicates accept IS in the result.

  `transform_preserves_untouched_members` says the members of a result type are copies of a SUB-list of the source's. For
  field-level / input-field-level / directive-level hiding (no TYPE hidden: `∀ n, p.isTypeVisible n`) the result is EXACT:
  `visibility_members_exact` (FULL, in place): after `VisibilitySchemaTransform.on_schema`
  * the registry `types` is the same list (same names, same objects, same order), no healing round runs;
  * no field object and no argument / input field object is written;
  * every registered non-protected type object is the same object with its member list FILTERED by the predicate
    (`keptOf`: `is_field_visible(type, field)` for object / interface types, `is_input_field_visible(type, field)` for input
    objects; union / enum / scalar types untouched): result members = source members filtered by the predicate, in order.
  With `clone_refines` (a clone has the source's by-name view) this is the statement for `transform_schema` by name
  (`visibility_members_exact_transform`).
  `visibility_keeps_visible_types` (FULL, types may be hidden): every type the predicate keeps visible is still registered —
  with `visibility_hides_type`: the names of the result = the names of the source filtered by `is_type_visible`.
  For the identity visitor (`clone`) the equalities are `clone_members_exact` / `clone_refines`; for camel-casing
  `camel_case_exact` (equality up to the renaming). OPEN (named): when TYPES are hidden too, the members that mention a hidden
  type are dropped by the healing rounds; that the OTHER members all survive is not proved (`Sub2` + `visibility_hides_type` +
  `visibility_hides_members` bound the result from above, `VisibleMembersKept` is the missing lower bound).
-/
import PyGqlModel.Props.C14_hidden
import PyGqlModel.Props.C14_refine

set_option linter.unusedSimpArgs false
set_option linter.unusedVariables false

namespace PyGql.Props.C14
open PyGql.Heap PyGql.Heap.Own

/-- the members of a type the visibility predicates accept -/
def keptOf (p : VisP) (h : Heap) (t : TypeO) : List Addr :=
  match t.kind with
  | .object | .interface => t.fields.filter fun fa => match fieldName h fa with | some fnm => p.fieldVis t.name fnm | none => true
  | .input => t.fields.filter fun fa => match argName h fa with | some fnm => p.inputVis t.name fnm | none => true
  | _ => t.fields

/-- the missing lower bound when types are hidden as well (NOT proved): a field the predicates accept, whose type and whose
    arguments' types are all visible, has a copy in the result -/
def VisibleMembersKept (cfg : Cfg) : Prop :=
  ∀ fuel p s h h' s', closedB h s = true → wfB h s = true → onSchema cfg fuel (.vis p) s h = some (h', s') →
    ∀ e, e ∈ s.types → p.isTypeVisible e.1 = true → ∀ t, h.readType e.2 = some t → (t.kind = Kind.object ∨ t.kind = Kind.interface) →
      ∀ c, c ∈ t.fields → ∀ f, h.readField c = some f → p.fieldVis t.name f.name = true → p.isTypeVisible f.ty.base.name = true →
        (∀ x g, x ∈ f.args → h.readArg x = some g → p.isTypeVisible g.ty.base.name = true) →
        ∃ e' t' c' f', e' ∈ s'.types ∧ e'.1 = e.1 ∧ h'.readType e'.2 = some t' ∧ c' ∈ t'.fields ∧ h'.readField c' = some f' ∧ f'.name = f.name

/-- the same type object with another member list -/
def withFields (t : TypeO) (fs : List Addr) : TypeO := { t with fields := fs }

private theorem write_type_reads (h : Heap) (a : Addr) (t t' : TypeO) (ht : h.readType a = some t) :
    (∀ c, (h.write a (.type t')).readField c = h.readField c) ∧ (∀ c, (h.write a (.type t')).readArg c = h.readArg c) ∧
    (∀ x, x ≠ a → (h.write a (.type t')).readType x = h.readType x) ∧ (h.write a (.type t')).readType a = some t' := by
  have hlt := readType_lt' ht
  have hra := readType_read ht
  refine ⟨fun c => ?_, fun c => ?_, fun x hx => ?_, readType_write_self h a t' hlt⟩
  · by_cases hca : c = a
    · subst hca
      simp only [Heap.readField, read_write_self h c _ hlt, hra]
    · simp only [Heap.readField, read_write_other h a c _ (fun e => hca e.symm)]
  · by_cases hca : c = a
    · subst hca
      simp only [Heap.readArg, read_write_self h c _ hlt, hra]
    · simp only [Heap.readArg, read_write_other h a c _ (fun e => hca e.symm)]
  · simp only [Heap.readType, read_write_other h a x _ (fun e => hx e.symm)]

theorem onInputField_vis_all (p : VisP) (hall : ∀ n, p.isTypeVisible n = true) (reg : List (String × Addr)) (h : Heap) (c : Addr) :
    onInputField (.vis p) reg h c = (h, some c) := by
  simp only [onInputField]
  split
  · rfl
  · simp only [hall, if_true]

/-- one type visited by the visibility visitor when no type is hidden: the same object, its member list filtered -/
theorem onType_vis_all (p : VisP) (hall : ∀ n, p.isTypeVisible n = true) (reg : List (String × Addr)) (h : Heap) (a : Addr) (t : TypeO)
    (ht : h.readType a = some t) :
    (onType (.vis p) reg h a).2 = some a ∧ (∀ c, (onType (.vis p) reg h a).1.readField c = h.readField c) ∧
    (∀ c, (onType (.vis p) reg h a).1.readArg c = h.readArg c) ∧ (∀ x, x ≠ a → (onType (.vis p) reg h a).1.readType x = h.readType x) ∧
    (onType (.vis p) reg h a).1.readType a = some (withFields t (keptOf p h t)) := by
  have same : keptOf p h t = t.fields → (∀ c, h.readField c = h.readField c) ∧ (∀ c, h.readArg c = h.readArg c) ∧
      (∀ x, x ≠ a → h.readType x = h.readType x) ∧ h.readType a = some (withFields t (keptOf p h t)) :=
    fun hk => ⟨fun _ => rfl, fun _ => rfl, fun _ _ => rfl, by rw [hk]; exact ht⟩
  have wr := write_type_reads h a t (withFields t (keptOf p h t)) ht
  simp only [onType, ht]
  cases hk : t.kind
  · -- object
    simp only [onComposite, hall, Bool.not_true, Bool.false_eq_true, if_false, compositeRest_vis_eq]
    split
    · simp only [withFields, keptOf, hk] at wr ⊢
      exact ⟨trivial, wr⟩
    · rename_i hne
      have := same (by simp only [keptOf, hk]; exact bne_false_eq hne)
      simp only [withFields, keptOf, hk] at this ⊢
      exact ⟨trivial, this⟩
  · -- interface
    simp only [onComposite, hall, Bool.not_true, Bool.false_eq_true, if_false, compositeRest_vis_eq]
    split
    · simp only [withFields, keptOf, hk] at wr ⊢
      exact ⟨trivial, wr⟩
    · rename_i hne
      have := same (by simp only [keptOf, hk]; exact bne_false_eq hne)
      simp only [withFields, keptOf, hk] at this ⊢
      exact ⟨trivial, this⟩
  · have := same (by simp only [keptOf, hk])
    simp only [onUnion, hall, if_true, withFields, keptOf, hk] at this ⊢
    exact ⟨trivial, this⟩
  · have := same (by simp only [keptOf, hk])
    simp only [onLeaf, hall, if_true, withFields, keptOf, hk] at this ⊢
    exact ⟨trivial, this⟩
  · -- input object
    simp only [onInputObject, inputRest, mapFilter_id (onInputField_vis_all p hall reg), rebuiltOrSame, bne_self_eq_false, Bool.false_eq_true,
      if_false, hall, if_true]
    split
    · simp only [withFields, keptOf, hk] at wr ⊢
      exact ⟨trivial, wr⟩
    · rename_i hne
      have := same (by simp only [keptOf, hk]; exact bne_false_eq hne)
      simp only [withFields, keptOf, hk] at this ⊢
      exact ⟨trivial, this⟩
  · have := same (by simp only [keptOf, hk])
    simp only [onLeaf, hall, if_true, withFields, keptOf, hk] at this ⊢
    exact ⟨trivial, this⟩

private theorem keptOf_congr (p : VisP) {h h' : Heap} (hf : ∀ c, h'.readField c = h.readField c) (hg : ∀ c, h'.readArg c = h.readArg c) (t : TypeO) :
    keptOf p h' t = keptOf p h t := by
  simp only [keptOf, fieldName, argName, hf, hg]

theorem visitTypes_vis_all (p : VisP) (hall : ∀ n, p.isTypeVisible n = true) (reg : List (String × Addr)) :
    ∀ (l : List (String × Addr)) (h : Heap), (∀ e, e ∈ l → ∃ t, h.readType e.2 = some t) → (l.map (·.1)).Nodup →
      (∀ e1 e2, e1 ∈ l → e2 ∈ l → e1.2 = e2.2 → e1.1 = e2.1) →
      (visitTypes (.vis p) reg h l).2 = [] ∧ (∀ c, (visitTypes (.vis p) reg h l).1.readField c = h.readField c) ∧
      (∀ c, (visitTypes (.vis p) reg h l).1.readArg c = h.readArg c) ∧
      (∀ x, (∀ e, e ∈ l → isProtected e.1 = false → e.2 ≠ x) → (visitTypes (.vis p) reg h l).1.readType x = h.readType x) ∧
      (∀ e, e ∈ l → isProtected e.1 = false → ∀ t, h.readType e.2 = some t →
        (visitTypes (.vis p) reg h l).1.readType e.2 = some (withFields t (keptOf p h t))) := by
  intro l
  induction l with
  | nil => intro h _ _ _; exact ⟨rfl, fun _ => rfl, fun _ => rfl, fun _ _ => rfl, by simp⟩
  | cons e0 rest ih =>
    intro h hread hnd hinj
    obtain ⟨n, a⟩ := e0
    simp only [List.map_cons, List.nodup_cons] at hnd
    have hreadR : ∀ e, e ∈ rest → ∃ t, h.readType e.2 = some t := fun e he => hread e (by simp [he])
    have hinjR : ∀ e1 e2, e1 ∈ rest → e2 ∈ rest → e1.2 = e2.2 → e1.1 = e2.1 := fun e1 e2 h1 h2 => hinj e1 e2 (by simp [h1]) (by simp [h2])
    by_cases hp : isProtected n = true
    · simp only [visitTypes, hp, if_true]
      obtain ⟨i1, i2, i3, i4, i5⟩ := ih h hreadR hnd.2 hinjR
      refine ⟨i1, i2, i3, fun x hx => i4 x (fun e he hnp => hx e (by simp [he]) hnp), ?_⟩
      intro e he hnp
      simp only [List.mem_cons] at he
      rcases he with rfl | he
      · simp [hnp] at hp
      · exact i5 e he hnp
    · have hnp0 : isProtected n = false := by simpa using hp
      obtain ⟨t0, ht0⟩ := hread (n, a) (by simp)
      obtain ⟨o1, o2, o3, o4, o5⟩ := onType_vis_all p hall reg h a t0 ht0
      have hne : ∀ e, e ∈ rest → e.2 ≠ a := by
        intro e he hea
        have := hinj e (n, a) (by simp [he]) (by simp) hea
        exact hnd.1 (List.mem_map.mpr ⟨e, he, this⟩)
      obtain ⟨i1, i2, i3, i4, i5⟩ := ih (onType (.vis p) reg h a).1 (fun e he => by
        obtain ⟨t, ht⟩ := hreadR e he
        exact ⟨t, by rw [o4 e.2 (hne e he)]; exact ht⟩) hnd.2 hinjR
      simp only [visitTypes, hnp0, Bool.false_eq_true, if_false, o1, bne_self_eq_false]
      refine ⟨i1, fun c => by rw [i2, o2], fun c => by rw [i3, o3], ?_, ?_⟩
      · intro x hx
        rw [i4 x (fun e he hnp => hx e (by simp [he]) hnp), o4 x (fun hxa => hx (n, a) (by simp) hnp0 hxa.symm)]
      · intro e he hnp t ht
        simp only [List.mem_cons] at he
        rcases he with rfl | he
        · rw [ht0] at ht
          cases ht
          rw [i4 a (fun e he _ => hne e he), o5]
        · have h1 : (onType (.vis p) reg h a).1.readType e.2 = some t := by rw [o4 e.2 (hne e he)]; exact ht
          rw [i5 e he hnp t h1, keptOf_congr p o2 o3]

theorem visitDirs_vis_heap (p : VisP) (reg : List (String × Addr)) : ∀ (l : List (String × Addr)) (h : Heap), (visitDirs (.vis p) reg h l).1 = h := by
  intro l
  induction l with
  | nil => intro h; rfl
  | cons e rest ih =>
    intro h
    obtain ⟨n, a⟩ := e
    have h1 : (onDirective (.vis p) reg h a).1 = h := by
      simp only [onDirective]
      split
      · rfl
      · split
        · rfl
        · simp only [mapFilter_id (onArgument_vis_id p reg), bne_self_eq_false, Bool.false_eq_true, if_false]
    simp only [visitDirs, h1, ih]

/-- FULL (see the header) -/
theorem visibility_members_exact (cfg : Cfg) (fuel : Nat) (p : VisP) (hall : ∀ n, p.isTypeVisible n = true) (s : Schema) (h h' : Heap) (s' : Schema)
    (hw : wfB h s = true) (e : onSchema cfg fuel (.vis p) s h = some (h', s')) :
    s'.types = s.types ∧ (∀ c, h'.readField c = h.readField c) ∧ (∀ c, h'.readArg c = h.readArg c) ∧
    ∀ e0, e0 ∈ s.types → isProtected e0.1 = false → ∀ t, h.readType e0.2 = some t → h'.readType e0.2 = some (withFields t (keptOf p h t)) := by
  have w := wfs_of_wfB hw
  have hread : ∀ e, e ∈ s.types → ∃ t, h.readType e.2 = some t := by
    intro e he
    obtain ⟨t, ht, _⟩ := (typeShape_iff _ h e.2).mp (w.types e he)
    exact ⟨t, ht⟩
  have hinj : ∀ e1 e2, e1 ∈ s.types → e2 ∈ s.types → e1.2 = e2.2 → e1.1 = e2.1 := by
    intro e1 e2 h1 h2 h12
    have n1 := w.names e1 h1
    have n2 := w.names e2 h2
    obtain ⟨t1, ht1⟩ := hread e1 h1
    simp only [nameOK, ht1, beq_iff_eq] at n1
    have ht2 : h.readType e2.2 = some t1 := by rw [← h12]; exact ht1
    simp only [nameOK, ht2, beq_iff_eq] at n2
    rw [← n1, ← n2]
  obtain ⟨i1, i2, i3, _, i5⟩ := visitTypes_vis_all p hall s.types s.types h hread w.nodup hinj
  simp only [onSchema, replaceTD, visitAll, replaceCore, i1, replaceTypes, Bool.false_eq_true, if_false, visitDirs_vis_heap] at e
  cases e
  exact ⟨rfl, i2, i3, i5⟩

/-- non-vacuity (a predicate that hides something): `hideName` hides the field `Dog.name`, no type -/
example : (∀ n, hideName.isTypeVisible n = true) ∧ wfB h0 s0 = true ∧ (onSchema Cfg.fixed 8 (.vis hideName) s0 h0).isSome = true :=
  ⟨fun n => by simp [VisP.isTypeVisible, hideName], by decide, by decide⟩

/-- `transform_schema(source, VisibilitySchemaTransform())` when no type is hidden: the result IS the clone (`clone_refines`: by
    name the source) with every member list filtered by the predicates — nothing else removed, nothing reordered -/
theorem visibility_members_exact_transform (cfg : Cfg) (hd : cfg.deepClone = true) (hk : cfg.keepAllTypes = true) (hacc : cfg.accumulateBusted = true)
    (fuel : Nat) (p : VisP) (hall : ∀ n, p.isTypeVisible n = true) (s : Schema) (h h' : Heap) (s' : Schema)
    (hc : closedB h s = true) (hw : wfB h s = true) (e : transform cfg (2 + fuel) [.vis p] s h = some (h', s')) :
    ∃ h1 s1, clone cfg (2 + fuel) s h = some (h1, s1) ∧ s'.types = s1.types ∧
      (∀ e1, e1 ∈ s1.types → ∃ e0, e0 ∈ s.types ∧ e0.1 = e1.1 ∧ typeV h1 e1.2 = typeV h e0.2) ∧
      (∀ c, h'.readField c = h1.readField c) ∧ (∀ c, h'.readArg c = h1.readArg c) ∧
      ∀ e1, e1 ∈ s1.types → isProtected e1.1 = false → ∀ t, h1.readType e1.2 = some t →
        h'.readType e1.2 = some (withFields t (keptOf p h1 t)) := by
  simp only [transform] at e
  split at e
  · cases e
  · rename_i r hr
    obtain ⟨h1, s1⟩ := r
    obtain ⟨c1, w1⟩ := clone_closed cfg hd hk hacc (2 + fuel) s h h1 s1 hc hw hr
    simp only [transformFrom] at e
    split at e
    · cases e
    · rename_i r2 hr2
      cases e
      obtain ⟨k1, k2, k3, k4⟩ := visibility_members_exact cfg (2 + fuel) p hall s1 h1 _ _ w1 hr2
      exact ⟨h1, s1, hr, k1, clone_types_view cfg hd hk (2 + fuel) s h h1 s1 hc hw hr, k2, k3, k4⟩

/-! ### the TYPE-level lower bound: a visible type is still registered -/

theorem replaceTypes_names_except (cfg : Cfg) (n : String) : ∀ (ut : List (String × Option Addr)) (reg : List (String × Addr)) (b : Bool),
    (∀ x, x ∈ ut → x.1 = n → x.2 ≠ none) → n ∈ regNames reg → n ∈ regNames (replaceTypes cfg reg b ut).1 := by
  intro ut
  induction ut with
  | nil => intro reg b _ hn; simpa [replaceTypes] using hn
  | cons x rest ih =>
    intro reg b hs hn
    obtain ⟨nm, new⟩ := x
    have hr : ∀ x, x ∈ rest → x.1 = n → x.2 ≠ none := fun x hx => hs x (by simp [hx])
    simp only [replaceTypes]
    split
    · exact ih reg b hr hn
    · cases new with
      | none =>
        apply ih _ _ hr
        have hne : nm ≠ n := fun hnm => hs (nm, none) (by simp) hnm rfl
        simp only [regNames, List.mem_map] at hn ⊢
        obtain ⟨e, he, hen⟩ := hn
        exact ⟨e, List.mem_filter.mpr ⟨he, by simp [hen]; exact fun hx => hne hx.symm⟩, hen⟩
      | some a' => exact ih _ _ hr (regSet_names reg nm a' n hn)

theorem onType_vis_none (p : VisP) (reg : List (String × Addr)) (h : Heap) (a : Addr) (e : (onType (.vis p) reg h a).2 = none) :
    ∃ t, h.readType a = some t ∧ p.isTypeVisible t.name = false := by
  cases ht : h.readType a with
  | none => simp [onType, ht] at e
  | some t =>
    refine ⟨t, rfl, ?_⟩
    cases hv : p.isTypeVisible t.name with
    | false => rfl
    | true =>
      exfalso
      simp only [onType, ht] at e
      cases hk : t.kind <;> simp only [hk] at e
      · simp [onComposite, hv, compositeRest_vis_eq] at e
        split at e <;> cases e
      · simp [onComposite, hv, compositeRest_vis_eq] at e
        split at e <;> cases e
      · simp [onUnion, hv] at e
      · simp [onLeaf, hv] at e
      · simp only [onInputObject, inputRest, hv, if_true] at e
        split at e <;> cases e
      · simp [onLeaf, hv] at e

theorem visitTypes_vis_none (p : VisP) (reg : List (String × Addr)) : ∀ (l : List (String × Addr)) (h : Heap),
    (∀ e, e ∈ l → nameOK h e = true) → ∀ x, x ∈ (visitTypes (.vis p) reg h l).2 → x.2 = none → p.isTypeVisible x.1 = false := by
  intro l
  induction l with
  | nil => intro h _ x hx; simp [visitTypes] at hx
  | cons e0 rest ih =>
    intro h hname x hx hnone
    obtain ⟨n, a⟩ := e0
    simp only [visitTypes] at hx
    split at hx
    · exact ih h (fun e he => hname e (by simp [he])) x hx hnone
    · have hstep := onType_step (.vis p) reg h a (fun _ => true) (by simp [Compat])
      have hname' : ∀ e, e ∈ rest → nameOK (onType (.vis p) reg h a).1 e = true :=
        fun e he => nameOK_keep hstep e (hname e (by simp [he]))
      split at hx
      · simp only [List.mem_cons] at hx
        rcases hx with rfl | hx
        · obtain ⟨t, ht, hv⟩ := onType_vis_none p reg h a hnone
          have hn := hname (n, a) (by simp)
          simp only [nameOK, ht, beq_iff_eq] at hn
          simp only []
          rw [← hn]; exact hv
        · exact ih _ hname' x hx hnone
      · exact ih _ hname' x hx hnone

/-- FULL: a type the predicate keeps visible is still registered after `VisibilitySchemaTransform.on_schema` (healing included):
    with `visibility_hides_type`, `names s' = names s` filtered by `is_type_visible` -/
theorem visibility_keeps_visible_types (cfg : Cfg) (fuel : Nat) (p : VisP) (s : Schema) (h h' : Heap) (s' : Schema)
    (hw : wfB h s = true) (e : onSchema cfg fuel (.vis p) s h = some (h', s')) :
    ∀ n, n ∈ names s → p.isTypeVisible n = true → n ∈ names s' := by
  have w := wfs_of_wfB hw
  intro n hn hv
  have h1 : n ∈ regNames (replaceCore cfg s (visitAll (.vis p) s h).2.1 (visitAll (.vis p) s h).2.2).1.types := by
    simp only [replaceCore, visitAll]
    apply replaceTypes_names_except cfg n _ _ _ _ hn
    intro x hx hxn hnone
    have := visitTypes_vis_none p s.types s.types h w.names x hx hnone
    rw [hxn, hv] at this
    cases this
  simp only [onSchema, replaceTD] at e
  split at e
  · exact healLoop_names cfg fuel _ _ _ _ e n h1
  · cases e; exact h1

end PyGql.Props.C14

/-
  C06 - property theorems, part 16: DISCHARGING `OverlapHyps`, continued.

  (2) `parentsAgree_of_rules`: `Spec.ParentsAgree` follows from the CLAUSES of two other rules - FragmentsOnCompositeTypes
      and ScalarLeafs -, from "every field of the schema has an output type" (`SchemaWf.outputs` of C05), from well-formed
      identities, and from `NoMetaSubs d`: no `__schema` / `__type` / `__typename` selection WITH a sub-selection (for
      those the search derives the sub-selection's parent type through `fieldOf`, which does not know the meta fields,
      whereas `TypeInfoVisitor` uses `_get_field_def`: the routes genuinely differ, the statement is false for them).
      `NoMetaSubs` is computable (`Validate/WfMeta.lean: noMetaSubsB`).
  (3) `NoCrash` is an OBSERVATION of the same run as `Silent` (the rule alone on the document); it is computable
      (`Validate/OverlapRun.lean: overlapNoCrashB`), so the driver can report it with every document, like `wfIdsB`.
      Fuel sufficiency (a bound on the document under which the model's fuel of 400 is never exhausted) is NOT proved.
  `overlapHyps_of_wf`: all of `OverlapHyps` from these; `rule_overlapping_fields_can_be_merged_iff_wf`: the equivalence
  with only checkable / other-rule hypotheses.
-/
import PyGqlModel.Props.C06_overlap_hyps
import PyGqlModel.Lemmas.ValidateOverlapParents2
import PyGqlModel.Validate.OverlapRun
namespace PyGql.Props.C06
open PyGql PyGql.Validate PyGql.Validate.Spec

/-- **(2) the routes to the parent type of a selection set agree**, from the clauses of FragmentsOnCompositeTypes and
    ScalarLeafs -/
theorem parentsAgree_of_rules (s : SchemaD) (d : Doc)
    (hout : ∀ T name fd, fieldOf s T name = some fd → isOutputTy s fd.type = true)
    (hsl : Spec.scalarLeafs s d) (hfc : Spec.fragmentsOnCompositeTypes s d) (hnm : NoMetaSubs d) (hw : WfIds d) :
    Spec.ParentsAgree s d :=
  parentsAgree_of hout hsl hfc hnm hw

theorem overlapNoCrashB_iff (s : SchemaD) (fx : Fixes) (d : Doc) : overlapNoCrashB s fx d = true ↔ NoCrash s fx d := by
  unfold overlapNoCrashB NoCrash alone
  cases (visitDocument ⟨s, fx, [.overlappingFieldsCanBeMerged]⟩ d {}).rs.crash <;> simp

/-- what the driver checks on a document (all computable) -/
structure DocChecks (s : SchemaD) (fx : Fixes) (d : Doc) : Prop where
  ids : wfIdsB d = true
  noMeta : noMetaSubsB d = true
  noCrash : overlapNoCrashB s fx d = true

/-- **`OverlapHyps` discharged**: from the driver's checks, the parser's guarantee on fragment names, the schema's
    output-typed fields, and the clauses of UniqueFragmentNames, NoFragmentCycles, ScalarLeafs and
    FragmentsOnCompositeTypes -/
theorem overlapHyps_of_wf (s : SchemaD) (fx : Fixes) (d : Doc) (hck : DocChecks s fx d) (hne : NamesNonEmpty d)
    (hout : ∀ T name fd, fieldOf s T name = some fd → isOutputTy s fd.type = true)
    (hnd : Spec.uniqueFragmentNames d) (hac : Spec.noFragmentCycles d)
    (hsl : Spec.scalarLeafs s d) (hfc : Spec.fragmentsOnCompositeTypes s d) : OverlapHyps s fx d :=
  ⟨parentsAgree_of_rules s d hout hsl hfc ((noMetaSubsB_iff d).mp hck.noMeta) ((wfIdsB_iff d).mp hck.ids),
   overlapSide_of_wfB s d hck.ids hne hnd hac,
   (overlapNoCrashB_iff s fx d).mp hck.noCrash⟩

/-- **5.3.2, the equivalence with checkable hypotheses only** -/
theorem rule_overlapping_fields_can_be_merged_iff_wf (s : SchemaD) (fx : Fixes) (h7 : fx.v7 = true) (d : Doc)
    (hck : DocChecks s fx d) (hne : NamesNonEmpty d)
    (hout : ∀ T name fd, fieldOf s T name = some fd → isOutputTy s fd.type = true)
    (hnd : Spec.uniqueFragmentNames d) (hac : Spec.noFragmentCycles d)
    (hsl : Spec.scalarLeafs s d) (hfc : Spec.fragmentsOnCompositeTypes s d) :
    Silent s fx .overlappingFieldsCanBeMerged d ↔ Spec.overlappingFieldsCanBeMerged s d := by
  obtain ⟨hpa, hsc, hnc⟩ := overlapHyps_of_wf s fx d hck hne hout hnd hac hsl hfc
  exact rule_overlapping_fields_can_be_merged_iff_partial s fx h7 d hpa hsc hnc

/-! non-vacuity: the checks hold, by evaluation, on the document with two fragments of
    `Props/C06_overlap_examples.lean`; a document selecting `__schema { … }` fails `noMetaSubsB` -/
example : DocChecks oSchema Fixes.all (oDocFrag "a") := ⟨by decide, by decide, by decide +kernel⟩
example : ¬ noMetaSubsB ⟨[opV [] 1 [.field none "__schema" [] [] true 2 [fld none "x"]]]⟩ = true := by decide

end PyGql.Props.C06

/-
  C19 — a directive that DECIDES next to one that cannot be evaluated (outside probe C19-1 of the unchanged tree).

      query A { a }
      query B($b: Boolean!) { a  q @skip(if: true) @include(if: $b) { q { q { q { a } } } } }

  B has depth 0 for EVERY value of `$b`, but when the rule has no value for `$b` (no variables given, operation-name filter,
  the request executes A) today's hook `_skip_unless_unknown` wraps both directive evaluations in ONE `try`: the unavailable
  `$b` hides the decisive `@skip(if: true)`, the selection is kept and B is reported with depth 4 — also through
  `graphql_blocking`, which then refuses the flat operation A.

  * `decisive_directive_kept_today` — the model of today's tree (`ruleF`, hook `skipSelectionT`) reports B: model = code;
    `hunter_depth_zero` — the specified depth is 0 under both valuations: the "upper bound over the unknown condition" that
    the hook documents is 0, not 4;
  * proposed fix C19-H4: the two directives evaluated on their own (`skipSelectionT3`, DepthSeparate.lean):
    `decisive_directive_skipped_repaired`; `skipT3_eq_T_of_bound` (nothing changes when every condition can be evaluated),
    `skipT3_skips_more` (the fix only removes kept selections);
  * the theory of the repaired hook: `measuredF3_eq_depthK3` (unique, acyclic fragments, ANY variables: the loop of today's
    tree with the repaired hook measures `depthK3` = the specified depth of the document in which each unevaluable directive
    is dropped ON ITS OWN), `flags_iff_final_separate`.
-/
import PyGqlModel.Lemmas.DepthSeparate
import PyGqlModel.Props.C19_frontier

set_option linter.unusedVariables false
set_option linter.unusedSimpArgs false

namespace PyGql.Props.C19.Sep
open PyGql.Depth PyGql.DepthSpec
open PyGql.Depth.Lemmas hiding eraseD eraseSel eraseL eraseFld eraseG eraseFrag eraseFrags eraseOp eraseDoc eraseL_cons
  eraseL_append eraseL_eq_map dirsBound_erase skipT_eq skipT_ok eraseG_extendKey eraseG_merge lookupFrag_erase eraseSt step_sim
  loop_sim collect_sim flatMap_sub_erase levelsLoop_sim nestingLevels_sim pot_erase potL_erase boundSel_erase boundL_erase
  eraseSel_id eraseL_id weightStep_erase weights_erase acyclic_erase fuel_erase
open PyGql.Depth.Lemmas.Sep
open PyGql.Props.C19 (Valid depthRK depthK expected mem_expected ruleLoopB_of_some measured_eq_depth frontier_eq_recursive
  frontierLevelS nestingLevelsFS fld)

/-! ### the reported document -/

def opA : Op := ⟨some "A", [fld "a"]⟩
def opB : Op := ⟨some "B", [fld "a",
  .field none "q" ⟨some (.lit true), some (.var "b")⟩ [fld "q" [fld "q" [fld "q" [fld "a"]]]]]⟩
def hunterDoc : Doc := ⟨[opA, opB], []⟩
def hunterDefs : List (List VarDefR) := [[], [⟨"b", .boolean, true, none⟩]]

/-- the specified depth of B is 0 whatever `$b` is -/
theorem hunter_depth_zero : ∀ b : Bool, depth hunterDoc [("b", b)] opB = 0 := by decide

/-- **decisive_directive_kept_today** — the model of today's tree reports B (depth 4) at limit 1 when no variables are given,
    under the operation-name filter "B", and for a request whose variables are A's (none) -/
theorem decisive_directive_kept_today :
    ruleF 1 none hunterDoc hunterDefs [] = .ok [(1, some 4)] ∧
    ruleF 1 (some "B") hunterDoc hunterDefs [] = .ok [(1, some 4)] := by decide

/-- **decisive_directive_skipped_repaired** — with the hook of C19-H4 nothing is reported, in the three situations -/
theorem decisive_directive_skipped_repaired :
    ruleF3 1 none hunterDoc hunterDefs [] = .ok [] ∧ ruleF3 1 (some "B") hunterDoc hunterDefs [] = .ok [] ∧
    ruleM3 1 none hunterDoc hunterDefs [] = .ok [] ∧
    -- `@include(if: false) @skip(if: $s)`, the other order
    ruleF3 0 none ⟨[⟨none, [.field none "q" ⟨some (.var "s"), some (.lit false)⟩ [fld "q" [fld "a"]]]⟩], []⟩ [[]] [] = .ok [] := by
  decide

/-! ### the repaired hook against today's -/

/-- when both conditions can be evaluated the two hooks agree (and are the strict `_skip_selection`) -/
theorem skipT3_eq_T_of_bound (v : Vars) (d : Dirs) (h : dirsBound v d = true) :
    skipSelectionT3 d v = skipSelectionT d v := by
  rw [skipT_eq, PyGql.Depth.Lemmas.skipT_eq, eraseD_id v d h]
  simp [PyGql.Depth.Lemmas.eraseD, h]

/-- whatever today's hook skips the repaired hook skips: the fix only removes KEPT selections -/
theorem skipT3_skips_more (v : Vars) (d : Dirs) (h : skipSelectionT d v = .ok true) : skipSelectionT3 d v = .ok true := by
  cases hb : dirsBound v d with
  | true => rw [skipT3_eq_T_of_bound v d hb]; exact h
  | false =>
    obtain ⟨e, he⟩ := PyGql.Depth.Lemmas.skipSelection_err hb
    simp [skipSelectionT, he] at h

/-! ### the loop of today's tree with the repaired hook -/

/-- specified depth with each unevaluable directive dropped on its own -/
def depthK3 (doc : Doc) (v : Vars) (op : Op) : Nat := depth (eraseDoc v doc) v (eraseOp v op)

def depthRK3 (doc : Doc) (defs : List (List VarDefR)) (raw : RawVars) (i : Nat) (op : Op) : Nat :=
  depthK3 doc (effectiveVarsR (defs.getD i []) raw) op

theorem valid_erase3 (doc : Doc) (v : Vars) (hu : UniqueNames doc.frags) (ha : Acyclic doc.frags) :
    Valid (eraseDoc v doc) v := by
  refine ⟨?_, ?_, ?_⟩
  · show acyclic (eraseFrags v doc.frags) = true
    rw [acyclic_erase]; exact acyclic_complete doc.frags hu ha
  · intro op hop
    simp only [eraseDoc, List.mem_map] at hop
    obtain ⟨o, _, rfl⟩ := hop
    exact boundL_erase v o.sels
  · intro f hf
    simp only [eraseDoc, eraseFrags, List.mem_map] at hf
    obtain ⟨g, _, rfl⟩ := hf
    exact boundL_erase v g.sels

private theorem groupSubs_erase3 (v : Vars) : ∀ (G : Grouped), groupSubs (eraseG v G) = (groupSubs G).map (eraseL v)
  | [] => by simp [groupSubs, eraseG]
  | (k, fs) :: rest => by
    have hg : eraseG v ((k, fs) :: rest) = (k, fs.map (eraseFld v)) :: eraseG v rest := by simp [eraseG]
    have ih := groupSubs_erase3 v rest
    have e1 : ∀ (k : String) (fs : List Fld) (r : Grouped), groupSubs ((k, fs) :: r) =
        (match fs.flatMap (·.sub) with | [] => groupSubs r | s :: ss => (s :: ss) :: groupSubs r) := fun _ _ _ => rfl
    rw [hg, e1, e1, flatMap_sub_erase]
    cases hs : fs.flatMap (·.sub) with
    | nil => simp [eraseL, ih]
    | cons s ss => simp [eraseL_cons, ih]

private theorem eraseG_isEmpty3 (v : Vars) (G : Grouped) : (eraseG v G).isEmpty = G.isEmpty := by
  cases G <;> simp [eraseG]

private def mapNext3 (v : Vars) : Except Err (Bool × List (List Sel)) → Except Err (Bool × List (List Sel))
  | .error e => .error e
  | .ok (f, nxt) => .ok (f, nxt.map (eraseL v))

private theorem frontierLevel_sim3 (v : Vars) (frags : List Frag) (b : Nat) : ∀ (fr : List (List Sel)),
    frontierLevelS b (eraseFrags v frags) v (fr.map (eraseL v)) = mapNext3 v (frontierLevel skipSelectionT3 b frags v fr)
  | [] => by simp [frontierLevelS, frontierLevel, mapNext3]
  | e :: rest => by
    have ih := frontierLevel_sim3 v frags b rest
    simp only [List.map_cons, frontierLevelS, frontierLevel, collect_sim v frags b e []]
    cases collectFieldsUntypedG skipSelectionT3 b e frags v [] with
    | error err => simp [eraseSt, mapNext3]
    | ok r =>
      obtain ⟨G, S'⟩ := r
      simp only [eraseSt, ih]
      cases frontierLevel skipSelectionT3 b frags v rest with
      | error err => simp [mapNext3]
      | ok q =>
        obtain ⟨f, nxt⟩ := q
        simp [mapNext3, groupSubs_erase3, eraseG_isEmpty3]

/-- the frontier loop with the repaired hook = the strict frontier loop on the (one-by-one) erased document -/
theorem nestingLevelsF_sim3 (v : Vars) (frags : List Frag) : ∀ (b lv : Nat) (fr : List (List Sel)),
    nestingLevelsFS (eraseFrags v frags) v b lv (fr.map (eraseL v)) = nestingLevelsF skipSelectionT3 frags v b lv fr := by
  intro b
  induction b with
  | zero =>
    intro lv fr
    cases fr <;> simp [nestingLevelsFS, nestingLevelsF]
  | succ b ih =>
    intro lv fr
    cases fr with
    | nil => simp [nestingLevelsFS, nestingLevelsF]
    | cons e es =>
      have hs := frontierLevel_sim3 v frags (b + 1) (e :: es)
      simp only [List.map_cons] at hs
      simp only [List.map_cons, nestingLevelsFS, nestingLevelsF, hs]
      cases frontierLevel skipSelectionT3 (b + 1) frags v (e :: es) with
      | error err => simp [mapNext3]
      | ok q =>
        obtain ⟨f, nxt⟩ := q
        cases f with
        | false => simp [mapNext3]
        | true => simp only [mapNext3]; exact ih (lv + 1) nxt

/-- **measuredF3_eq_depthK3** — unique, acyclic fragments, ANY request variables, any budget ≥ the fuel of the document: the
    loop of today's tree with the hook of C19-H4 measures `depthK3` -/
theorem measuredF3_eq_depthK3 (doc : Doc) (hu : UniqueNames doc.frags) (ha : Acyclic doc.frags) (v : Vars)
    (op : Op) (hop : op ∈ doc.ops) (fuel : Nat) (hfuel : doc.fuel ≤ fuel) :
    depthFixedFG skipSelectionT3 fuel op doc.frags v = .ok (depthK3 doc v op) := by
  have hv := valid_erase3 doc v hu ha
  have hop' : eraseOp v op ∈ (eraseDoc v doc).ops := List.mem_map_of_mem (f := eraseOp v) hop
  have hm := measured_eq_depth (eraseDoc v doc) v hv (eraseOp v op) hop' fuel (by rw [fuel_erase]; exact hfuel)
  have hc : Consistent (eraseFrags v doc.frags) (wOf (weights (eraseFrags v doc.frags))) := by
    intro f hf
    have hac := hv.1
    simp only [eraseDoc, acyclic, List.all_eq_true, decide_eq_true_eq] at hac
    exact of_decide_eq_true (hac f hf)
  have hpot : potL (wOf (weights (eraseFrags v doc.frags))) (eraseL v op.sels) + 1 ≤ fuel := by
    rw [weights_erase, potL_erase]
    have : potL (wOf (weights doc.frags)) op.sels ∈ doc.ops.map (fun op => potL (wOf (weights doc.frags)) op.sels) :=
      List.mem_map_of_mem (f := fun op => potL (wOf (weights doc.frags)) op.sels) hop
    have h1 := le_maxList' this
    unfold Doc.fuel at hfuel
    omega
  obtain ⟨K, rfl⟩ : ∃ K, fuel = K + 1 := ⟨fuel - 1, by omega⟩
  have hM := frontier_eq_recursive (eraseFrags v doc.frags) v _ hc hv.2.2 K (eraseL v op.sels) (by omega) (boundL_erase v _)
  have hsim := nestingLevelsF_sim3 v doc.frags (K + 1) 0 [op.sels]
  simp only [List.map_cons, List.map_nil] at hsim
  rw [hsim] at hM
  unfold depthFixedFG
  rw [hM]
  unfold depthFixed at hm
  exact hm

/-- **flags_iff_final_separate** — `flags_iff_final` for the rule of today's tree with the hook of C19-H4: reported ⇔ selected
    and `depthRK3 > limit`, with that depth; never "unbounded" -/
theorem flags_iff_final_separate (doc : Doc) (defs : List (List VarDefR)) (raw : RawVars)
    (hu : UniqueNames doc.frags) (ha : Acyclic doc.frags) (limit : Nat) (filter : Option String) :
    ∃ errs, ruleF3 limit filter doc defs raw = .ok errs ∧
      ∀ (i : Nat) (op : Op), doc.ops[i]? = some op →
        ((∃ d, (i, d) ∈ errs) ↔ (opSelected filter op = true ∧ depthRK3 doc defs raw i op > limit)) ∧
        (∀ d, (i, d) ∈ errs → d = some (depthRK3 doc defs raw i op)) := by
  have hB : ruleF3 limit filter doc defs raw =
      .ok ((expected (depthRK3 doc defs raw) limit filter 0 doc.ops).map fun p => (p.1, some p.2)) := by
    unfold ruleF3
    apply ruleLoopB_of_some _ (depthRK3 doc defs raw) limit filter doc.ops 0
    intro j op hop
    simp only [Nat.zero_add]
    have := measuredF3_eq_depthK3 doc hu ha (effectiveVarsR (defs.getD j []) raw) op (List.mem_of_getElem? hop)
      doc.budget (fuel_le_budget doc)
    simp only [depthFixedFB3, this]
    rfl
  refine ⟨_, hB, ?_⟩
  intro i op hi
  have hmem := mem_expected (depthRK3 doc defs raw) limit filter doc.ops 0 i
  constructor
  · constructor
    · rintro ⟨d, hd⟩
      simp only [List.mem_map, Prod.mk.injEq] at hd
      obtain ⟨⟨j, n⟩, hjn, rfl, rfl⟩ := hd
      obtain ⟨o, _, h2, h3, h4, _⟩ := (hmem n).mp hjn
      simp [hi] at h2; subst h2
      exact ⟨h3, h4⟩
    · rintro ⟨h3, h4⟩
      refine ⟨some (depthRK3 doc defs raw i op), ?_⟩
      simp only [List.mem_map, Prod.mk.injEq]
      exact ⟨(i, depthRK3 doc defs raw i op),
        (hmem _).mpr ⟨op, by omega, by simpa using hi, h3, h4, rfl⟩, rfl, rfl⟩
  · intro d hd
    simp only [List.mem_map, Prod.mk.injEq] at hd
    obtain ⟨⟨j, n⟩, hjn, rfl, rfl⟩ := hd
    obtain ⟨o, _, h2, _, _, h5⟩ := (hmem n).mp hjn
    simp [hi] at h2; subst h2
    rw [h5]

/-- on the reported document the repaired measure is 0 for B without any variable -/
example : depthK3 hunterDoc [] opB = 0 := by decide

/-- … while today's measure (both directives dropped together) is 4 -/
example : depthK hunterDoc [] opB = 4 := by decide

end PyGql.Props.C19.Sep

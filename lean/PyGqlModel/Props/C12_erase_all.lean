/-
  C12 — **`build_ignores_custom`**: `BuildIgnoresCustomStatement` PROVED, for arbitrary documents.

  The builder model reads the directive applications of a document only through `_deprecation_reason` (`@deprecated` on
  fields and enum values).  Hence erasing every application of a non-specified directive — on the `schema` block and
  its extensions, on type definitions AND type extensions of all six kinds, on fields, arguments, input fields, enum
  values and directive-definition arguments — changes nothing in the result of `build_schema`: the same schema or the
  same error, for EVERY document (valid or not, with extensions, several blocks), with and without `ignore_extensions`,
  and for any supplied `additional_types`.  Proof: `_collect_definitions` commutes with the erasure
  (`collectDefinitions_erase`); the environment of the erased definitions is the erased view of the environment
  (`EnvErase`), over which `value_from_ast`, the thunk guard, `touches`, `build_*`, `build*X`, `extend_*` and
  `_extended_default_value` agree (`Lemmas/SdlEraseEnv.lean`, `Lemmas/SdlEraseExt.lean`).
  Before this the statement was only evaluated by the driver on printed documents (op `printTA`, key `buildErased`).
-/
import PyGqlModel.Lemmas.SdlEraseExt
namespace PyGql.Props.C12
open PyGql PyGql.Sdl PyGql.SdlPrintTA

/-- the statement with the two other parameters of `build_schema` -/
def BuildIgnoresCustomFullStatement : Prop :=
  ∀ (doc : Doc) (ignoreExtensions : Bool) (additional : List TypeD),
    build (doc.map eraseCustom) ignoreExtensions additional = build doc ignoreExtensions additional

private theorem buildCollected_env (c : Collected) (additional : List TypeD) (p : Env × Live)
    (hp : buildCollected c additional = .ok p) : p.1 = Env.of c.types additional := by
  unfold buildCollected at hp
  simp only [bind, Except.bind] at hp
  split at hp; · cases hp
  split at hp; · cases hp
  split at hp; · cases hp
  split at hp; · cases hp
  split at hp; · cases hp
  split at hp; · cases hp
  simp only [pure, Except.pure] at hp
  cases hp
  rfl

/-- **build_ignores_custom_full** — for every document, flag and list of supplied types -/
theorem build_ignores_custom_full : BuildIgnoresCustomFullStatement := by
  intro doc ign additional
  unfold build buildIgnoringExtensions
  rw [collectDefinitions_erase]
  cases collectDefinitions doc with
  | error e => rfl
  | ok c =>
    have hc := buildCollected_erase c additional
    simp only [Except.map, bind, Except.bind] at hc ⊢
    rw [hc]
    cases hbc : buildCollected c additional with
    | error e => rfl
    | ok p =>
      have henv := buildCollected_env c additional p hbc
      obtain ⟨env, live⟩ := p
      simp only at henv
      subst henv
      simp only [pure, Except.pure]
      cases ign with
      | true => rfl
      | false =>
        simp only [Bool.false_eq_true, if_false]
        rw [extendSchema_erase (envErase_of c.types additional) live doc additional]

/-- **build_ignores_custom** — `BuildIgnoresCustomStatement` (stated OPEN in `Props/C12_erase.lean`), proved -/
theorem build_ignores_custom : BuildIgnoresCustomStatement := fun doc => (build_ignores_custom_full doc false []).symm

/-- corollary for the printer: the document the printer denotes WITH applied directives and its erasure build the same -/
theorem build_printed_eq_build_erased (s : SchemaD) (c : OptsA) (apps : SdlPrint.Apps) :
    build (printedDocA s c apps) = build ((printedDocA s c apps).map eraseCustom) := build_ignores_custom _

/-! ### non-vacuity: a document WITH extensions, custom applications everywhere, and a rejected one -/

def extDoc : Doc :=
  [.schema { ops := [("query", "Q")], dirs := [{ name := "tag" }] },
   .type { kind := .object, name := "Q", dirs := [{ name := "tag", args := [("n", .int "1" "1.0")] }],
           fields := [{ name := "a", type := .named "Int", dirs := [{ name := "tag" }, { name := "deprecated" }],
                        args := [{ name := "x", type := .named "In", default := some (.obj []), dirs := [{ name := "other" }] }] }] },
   .type { kind := .input, name := "In", inputFields := [{ name := "k", type := .named "E", default := some (.enum "A"), dirs := [{ name := "tag" }] }] },
   .type { kind := .enum, name := "E", values := [{ name := "A", dirs := [{ name := "other" }] }] },
   .ext { kind := .enum, name := "E", dirs := [{ name := "tag" }],
          values := [{ name := "B", dirs := [{ name := "tag" }, { name := "deprecated", args := [("reason", .str "old")] }] }] },
   .ext { kind := .object, name := "Q", fields := [{ name := "b", type := .named "E", dirs := [{ name := "other" }] }] },
   .schemaExt { ops := [("mutation", "Q")], dirs := [{ name := "other" }] }]

/-- the erasure really removes something, and the document builds (to a schema with the extension's members) -/
example : (extDoc.map eraseCustom).length = 7 ∧
    (match (extDoc.map eraseCustom)[1]? with | some (Def.type t) => t.dirs.length == 0 | _ => false) = true := by decide
example : (match build extDoc with | .ok s => s.types.length == 3 && s.mutation == some "Q" | .error _ => false) = true := by decide
example : build (extDoc.map eraseCustom) = build extDoc := build_ignores_custom_full extDoc false []
/-- a rejected document (unknown type) is rejected with the same error after erasure -/
example : (match build [.type { kind := .object, name := "Q", fields := [{ name := "a", type := .named "Nope", dirs := [{ name := "tag" }] }] }]
    with | .error (.lib .sdl) => true | _ => false) = true := by decide

end PyGql.Props.C12

/-
  C06 - property theorems, part 22: invariance of `NoFragmentCyclesChecker` under `Tr` (selection order, argument order,
  injective fragment renaming) and under reordering of definitions. Route: the rule theorem
  `rule_no_fragment_cycles_iff` (documents with unique, non-empty fragment names; fix V11) + invariance of the clause
  `Spec.noFragmentCycles`: the spread graph of the transformed document is the image of the spread graph.
-/
import PyGqlModel.Props.C06_inv3
import PyGqlModel.Props.C06_frags2
namespace PyGql.Props.C06
open PyGql PyGql.Validate PyGql.Validate.Spec

/-! ### the spread graph under `Tr` -/

theorem tr_sels_nil (T : Tr) : T.sels [] = [] := List.Perm.eq_nil (T.sels_perm [])

/-- direct spreads of transformed selections: the renamed direct spreads -/
theorem mem_directSpreads_tr (T : Tr) (sels : List Sel) (x : String) :
    x ∈ Spec.directSpreads (T.sels (T.selList sels)) ↔ ∃ a ∈ Spec.directSpreads sels, x = T.frag a := by
  rw [mem_directSpreads]
  constructor
  · rintro ⟨ds, h⟩
    have := (selsTop_tr T sels).mem_iff.mp h
    obtain ⟨n, hn, e⟩ := List.mem_map.mp this
    cases n <;> simp [Tr.node] at e
    rename_i a ds'
    exact ⟨a, mem_directSpreads.mpr ⟨ds', hn⟩, e.1.symm⟩
  · rintro ⟨a, ha, rfl⟩
    obtain ⟨ds, h⟩ := mem_directSpreads.mp ha
    exact ⟨ds.map T.dir, (selsTop_tr T sels).mem_iff.mpr (List.mem_map.mpr ⟨_, h, rfl⟩)⟩

/-- the selections of a renamed fragment: the transformed selections -/
theorem fragSels_tr (T : Tr) (hinj : ∀ a b, T.frag a = T.frag b → a = b) (d : Doc) (a : String) :
    Spec.fragSels (T.doc d) (T.frag a) = T.sels (T.selList (Spec.fragSels d a)) := by
  obtain ⟨ds⟩ := d
  simp only [Spec.fragSels, Tr.doc]
  induction ds with
  | nil => simp [tr_sels_nil, Tr.selList]
  | cons x xs ih =>
    cases x with
    | frag n on dirs i sels =>
      simp only [List.map_cons, Tr.defn, List.findSome?_cons]
      by_cases h : n = a
      · subst h; simp
      · have hb : (T.frag n == T.frag a) = false := by simpa using fun e => h (hinj _ _ e)
        have hb2 : (n == a) = false := by simpa using h
        simp only [hb, hb2, Bool.false_eq_true, ↓reduceIte]
        exact ih
    | op k n v dd i ss => simpa only [List.map_cons, Tr.defn, List.findSome?_cons] using ih
    | ts p q => simpa only [List.map_cons, Tr.defn, List.findSome?_cons] using ih

theorem reach_tr_of (T : Tr) (hinj : ∀ a b, T.frag a = T.frag b → a = b) (d : Doc) {a b : String}
    (h : Spec.Reach d a b) : Spec.Reach (T.doc d) (T.frag a) (T.frag b) := by
  induction h with
  | step h =>
    refine .step ?_
    rw [fragSels_tr T hinj]
    exact (mem_directSpreads_tr T _ _).mpr ⟨_, h, rfl⟩
  | trans _ _ ih1 ih2 => exact .trans ih1 ih2

theorem reach_of_tr (T : Tr) (hinj : ∀ a b, T.frag a = T.frag b → a = b) (d : Doc) {x y : String}
    (h : Spec.Reach (T.doc d) x y) : ∀ a, x = T.frag a → ∃ b, y = T.frag b ∧ Spec.Reach d a b := by
  induction h with
  | step h =>
    intro a e
    subst e
    rw [fragSels_tr T hinj] at h
    obtain ⟨b, hb, rfl⟩ := (mem_directSpreads_tr T _ _).mp h
    exact ⟨b, rfl, .step hb⟩
  | trans _ _ ih1 ih2 =>
    intro a e
    obtain ⟨b, rfl, h1⟩ := ih1 a e
    obtain ⟨c, rfl, h2⟩ := ih2 b rfl
    exact ⟨c, rfl, .trans h1 h2⟩

/-- **the clause of 5.5.2.2 is invariant under `Tr`** -/
theorem no_fragment_cycles_spec_tr (T : Tr) (hinj : ∀ a b, T.frag a = T.frag b → a = b) (d : Doc) :
    Spec.noFragmentCycles (T.doc d) ↔ Spec.noFragmentCycles d := by
  unfold Spec.noFragmentCycles
  rw [fragNames_tr]
  constructor
  · intro h f hf hr
    exact h (T.frag f) (List.mem_map_of_mem hf) (reach_tr_of T hinj d hr)
  · intro h f hf hr
    obtain ⟨a, ha, rfl⟩ := List.mem_map.mp hf
    obtain ⟨b, e, hr'⟩ := reach_of_tr T hinj d hr a rfl
    rw [← hinj _ _ e] at hr'
    exact h a ha hr'

/-- **perm_selections / perm_arguments / alpha_fragments for `NoFragmentCyclesChecker`**: documents with unique
    fragment names that are non-empty before and after the renaming; code with fix V11 -/
theorem tr_invariance_no_fragment_cycles (T : Tr) (hinj : ∀ a b, T.frag a = T.frag b → a = b) (s : SchemaD) (fx : Fixes)
    (hv : fx.v11 = true) (d : Doc) (hnd : Spec.uniqueFragmentNames d) (hne : NamesNonEmpty d)
    (hne' : NamesNonEmpty (T.doc d)) :
    Silent s fx .noFragmentCycles (T.doc d) ↔ Silent s fx .noFragmentCycles d := by
  have hnd' : (Spec.fragNames (T.doc d)).Nodup := (spec_tr T hinj s d .uniqueFragmentNames (by decide) (by decide)).mpr hnd
  rw [rule_no_fragment_cycles_iff s fx hv _ hnd' hne', rule_no_fragment_cycles_iff s fx hv d hnd hne]
  exact no_fragment_cycles_spec_tr T hinj d

/-- selection / argument reordering only (no renaming): non-emptiness of the names carries over -/
theorem perm_selections_arguments_no_fragment_cycles (πs : List Sel → List Sel) (πa : List Arg → List Arg)
    (hs : ∀ l, (πs l).Perm l) (ha : ∀ l, (πa l).Perm l) (s : SchemaD) (fx : Fixes) (hv : fx.v11 = true) (d : Doc)
    (hnd : Spec.uniqueFragmentNames d) (hne : NamesNonEmpty d) :
    Silent s fx .noFragmentCycles ((Tr.mk πs πa id hs ha).doc d) ↔ Silent s fx .noFragmentCycles d := by
  refine tr_invariance_no_fragment_cycles _ (fun _ _ e => e) s fx hv d hnd hne ?_
  intro f hf
  rw [fragNames_tr] at hf
  simp only [List.map_id_fun, id_eq] at hf
  exact hne f hf

/-! ### reordering of definitions -/

theorem fragsOf_perm {ds ds' : List Def} (h : ds.Perm ds') : (fragsOf ds).Perm (fragsOf ds') := h.filterMap _

theorem fragSels_perm {d d' : Doc} (h : d.defs.Perm d'.defs) (hnd : Spec.uniqueFragmentNames d) (a : String) :
    Spec.fragSels d a = Spec.fragSels d' a := by
  have hp := fragsOf_perm h
  have hnd1 : ((fragsOf d.defs).map (·.1)).Nodup := by rw [← fragNames_eq_fragsOf]; exact hnd
  have hnd2 : ((fragsOf d'.defs).map (·.1)).Nodup := (hp.map _).nodup_iff.mp hnd1
  by_cases hm : a ∈ (fragsOf d.defs).map (·.1)
  · obtain ⟨p, hp1, rfl⟩ := List.mem_map.mp hm
    have e1 := fragSels_of_mem d.defs p.1 p.2 hnd1 hp1
    have e2 := fragSels_of_mem d'.defs p.1 p.2 hnd2 (hp.mem_iff.mp hp1)
    exact e1.trans e2.symm
  · have hm' : a ∉ (fragsOf d'.defs).map (·.1) := fun h' => hm ((hp.map _).mem_iff.mpr h')
    exact (fragSels_not_mem d.defs a hm).trans (fragSels_not_mem d'.defs a hm').symm

theorem reach_perm {d d' : Doc} (h : d.defs.Perm d'.defs) (hnd : Spec.uniqueFragmentNames d) {a b : String}
    (hr : Spec.Reach d a b) : Spec.Reach d' a b := by
  induction hr with
  | step hs => exact .step (by rw [← fragSels_perm h hnd]; exact hs)
  | trans _ _ ih1 ih2 => exact .trans ih1 ih2

theorem fragNames_perm {d d' : Doc} (h : d.defs.Perm d'.defs) : (Spec.fragNames d).Perm (Spec.fragNames d') :=
  h.filterMap _

/-- **perm_definitions for `NoFragmentCyclesChecker`** (unique, non-empty fragment names; fix V11) -/
theorem perm_definitions_no_fragment_cycles (s : SchemaD) (fx : Fixes) (hv : fx.v11 = true) {d d' : Doc}
    (h : d.defs.Perm d'.defs) (hnd : Spec.uniqueFragmentNames d) (hne : NamesNonEmpty d) :
    Silent s fx .noFragmentCycles d ↔ Silent s fx .noFragmentCycles d' := by
  have hfp := fragNames_perm h
  have hnd' : Spec.uniqueFragmentNames d' := hfp.nodup_iff.mp hnd
  have hne' : NamesNonEmpty d' := fun f hf => hne f (hfp.mem_iff.mpr hf)
  rw [rule_no_fragment_cycles_iff s fx hv d hnd hne, rule_no_fragment_cycles_iff s fx hv d' hnd' hne']
  unfold Spec.noFragmentCycles
  constructor
  · intro H f hf hr
    exact H f (hfp.mem_iff.mpr hf) (reach_perm h.symm hnd' hr)
  · intro H f hf hr
    exact H f (hfp.mem_iff.mp hf) (reach_perm h hnd hr)

end PyGql.Props.C06

/-! ### PossibleFragmentSpreads -/

namespace PyGql.Props.C06
open PyGql PyGql.Validate PyGql.Validate.Spec

/-- how `Tr` acts on the entries of `fragDefs` -/
def trFragDef (T : Tr) (f : String × String × Nat × List Sel) : String × String × Nat × List Sel :=
  (T.frag f.1, f.2.1, f.2.2.1, T.sels (T.selList f.2.2.2))

theorem fragDefs_tr (T : Tr) (d : Doc) : fragDefs (T.doc d) = (fragDefs d).map (trFragDef T) := by
  simp only [fragDefs, Tr.doc]
  induction d.defs with
  | nil => rfl
  | cons x xs ih => cases x <;> simp_all [Tr.defn, trFragDef]

/-- the table built from renamed keys, looked up at a renamed key -/
theorem get?_foldl_set_rename (ρ : String → String) (hinj : ∀ a b, ρ a = ρ b → a = b) (k : String) :
    ∀ (l : List (String × String)) (m m' : AL String), AL.get? m' (ρ k) = AL.get? m k →
      AL.get? (l.foldl (fun acc f => AL.set acc (ρ f.1) f.2) m') (ρ k) = AL.get? (l.foldl (fun acc f => AL.set acc f.1 f.2) m) k
  | [], _, _, h => h
  | f :: l, m, m', h => by
    simp only [List.foldl_cons]
    refine get?_foldl_set_rename ρ hinj k l _ _ ?_
    rw [AL.get?_set, AL.get?_set, h]
    by_cases e : k = f.1
    · subst e; simp
    · have : ¬ ρ k = ρ f.1 := fun e' => e (hinj _ _ e')
      simp [e, this]

theorem fragTypes_as_pairs (s : SchemaD) (d : Doc) :
    fragTypes s d = (((fragDefs d).filter fun f => (typeFromAst s (.named f.2.1)).isSome).map fun f => (f.1, f.2.1)).foldl
      (fun acc f => AL.set acc f.1 f.2) [] := by
  unfold fragTypes
  rw [List.foldl_map]

/-- **the fragment-type table of the transformed document, at a renamed name** -/
theorem fragTypes_tr (T : Tr) (hinj : ∀ a b, T.frag a = T.frag b → a = b) (s : SchemaD) (d : Doc) (name : String) :
    AL.get? (fragTypes s (T.doc d)) (T.frag name) = AL.get? (fragTypes s d) name := by
  rw [fragTypes_as_pairs, fragTypes_as_pairs, fragDefs_tr, List.filter_map, List.map_map]
  have e : (fun f : String × String × Nat × List Sel => (f.1, f.2.1)) ∘ trFragDef T =
      fun f => (T.frag f.1, f.2.1) := rfl
  have e2 : ((fun f : String × String × Nat × List Sel => (typeFromAst s (.named f.2.1)).isSome) ∘ trFragDef T) =
      fun f => (typeFromAst s (.named f.2.1)).isSome := rfl
  rw [e, e2]
  have := get?_foldl_set_rename T.frag hinj name
    (((fragDefs d).filter fun f => (typeFromAst s (.named f.2.1)).isSome).map fun f => (f.1, f.2.1)) [] [] rfl
  simpa only [List.foldl_map] using this

/-- **the clause of 5.5.2.3 is invariant under `Tr`** -/
theorem possible_fragment_spreads_spec_tr (T : Tr) (hinj : ∀ a b, T.frag a = T.frag b → a = b) (s : SchemaD) (fx : Fixes)
    (d : Doc) : Spec.possibleFragmentSpreads s fx (T.doc d) ↔ Spec.possibleFragmentSpreads s fx d := by
  unfold Spec.possibleFragmentSpreads viewNodes
  rw [forall_gnDoc_tr T (View.enter s) (view_enter_tr T s) d {}]
  refine forall_congr' fun q => forall_congr' fun _ => ?_
  obtain ⟨n, v⟩ := q
  cases n with
  | spread name dirs =>
    simp only [Tr.node, Node.spread.injEq, reduceCtorEq, false_imp_iff, implies_true, and_true]
    constructor
    · rintro h n' d' ⟨rfl, rfl⟩ ft p hft
      exact h _ _ ⟨rfl, rfl⟩ ft p (by rw [fragTypes_tr T hinj]; exact hft)
    · rintro h n' d' ⟨rfl, rfl⟩ ft p hft
      rw [fragTypes_tr T hinj] at hft
      exact h _ _ ⟨rfl, rfl⟩ ft p hft
  | inline on dirs =>
    simp only [Tr.node, Node.inline.injEq, reduceCtorEq, false_imp_iff, implies_true, true_and]
    constructor
    · rintro h o' d' ⟨rfl, rfl⟩; exact h _ _ ⟨rfl, rfl⟩
    · rintro h o' d' ⟨rfl, rfl⟩; exact h _ _ ⟨rfl, rfl⟩
  | _ => simp [Tr.node]

/-- **perm_selections / perm_arguments / alpha_fragments for `PossibleFragmentSpreadsChecker`** (no hypothesis on the
    document or the fixes) -/
theorem tr_invariance_possible_fragment_spreads (T : Tr) (hinj : ∀ a b, T.frag a = T.frag b → a = b) (s : SchemaD)
    (fx : Fixes) (d : Doc) :
    Silent s fx .possibleFragmentSpreads (T.doc d) ↔ Silent s fx .possibleFragmentSpreads d := by
  rw [rule_possible_fragment_spreads_iff, rule_possible_fragment_spreads_iff]
  exact possible_fragment_spreads_spec_tr T hinj s fx d

/-! reordering of definitions: with unique fragment names the table does not depend on the order -/

theorem get?_foldl_set_not_mem (k : String) : ∀ (l : List (String × String)) (m : AL String), k ∉ l.map (·.1) →
    AL.get? (l.foldl (fun acc f => AL.set acc f.1 f.2) m) k = AL.get? m k
  | [], _, _ => rfl
  | f :: l, m, h => by
    simp only [List.map_cons, List.mem_cons, not_or] at h
    simp only [List.foldl_cons]
    rw [get?_foldl_set_not_mem k l _ h.2, AL.get?_set, if_neg h.1]

theorem get?_foldl_set_mem (k v : String) : ∀ (l : List (String × String)) (m : AL String), (l.map (·.1)).Nodup →
    (k, v) ∈ l → AL.get? (l.foldl (fun acc f => AL.set acc f.1 f.2) m) k = some v
  | [], _, _, h => by cases h
  | f :: l, m, hnd, h => by
    simp only [List.map_cons, List.nodup_cons] at hnd
    simp only [List.foldl_cons]
    rcases List.mem_cons.mp h with e | h'
    · subst e
      rw [get?_foldl_set_not_mem k l _ hnd.1, AL.get?_set, if_pos rfl]
    · exact get?_foldl_set_mem k v l _ hnd.2 h'

theorem get?_foldl_set_perm {l l' : List (String × String)} (h : l.Perm l') (hnd : (l.map (·.1)).Nodup) (k : String) :
    AL.get? (l.foldl (fun acc f => AL.set acc f.1 f.2) []) k = AL.get? (l'.foldl (fun acc f => AL.set acc f.1 f.2) []) k := by
  have hnd' : (l'.map (·.1)).Nodup := (h.map _).nodup_iff.mp hnd
  by_cases hk : k ∈ l.map (·.1)
  · obtain ⟨p, hp, rfl⟩ := List.mem_map.mp hk
    rw [get?_foldl_set_mem p.1 p.2 l [] hnd hp, get?_foldl_set_mem p.1 p.2 l' [] hnd' (h.mem_iff.mp hp)]
  · have hk' : k ∉ l'.map (·.1) := fun h' => hk ((h.map _).mem_iff.mpr h')
    rw [get?_foldl_set_not_mem k l [] hk, get?_foldl_set_not_mem k l' [] hk']

theorem fragTypes_perm (s : SchemaD) {d d' : Doc} (h : d.defs.Perm d'.defs) (hnd : Spec.uniqueFragmentNames d) (k : String) :
    AL.get? (fragTypes s d) k = AL.get? (fragTypes s d') k := by
  rw [fragTypes_as_pairs, fragTypes_as_pairs]
  have hp : (fragDefs d).Perm (fragDefs d') := h.filterMap _
  refine get?_foldl_set_perm ((hp.filter _).map _) ?_ k
  rw [List.map_map]
  have e : ((fun f : String × String => f.1) ∘ fun f : String × String × Nat × List Sel => (f.1, f.2.1)) = (·.1) := rfl
  rw [e]
  have hs : (((fragDefs d).filter fun f => (typeFromAst s (.named f.2.1)).isSome).map (·.1)).Sublist ((fragDefs d).map (·.1)) :=
    (List.filter_sublist).map _
  rw [fragDefs_names] at hs
  exact hs.nodup hnd

/-- **perm_definitions for `PossibleFragmentSpreadsChecker`**, on documents with unique fragment names (with two
    definitions of a name the visitor reads the type condition of the LAST one: the verdict depends on the order) -/
theorem perm_definitions_possible_fragment_spreads (s : SchemaD) (fx : Fixes) {d d' : Doc} (h : d.defs.Perm d'.defs)
    (hnd : Spec.uniqueFragmentNames d) :
    Silent s fx .possibleFragmentSpreads d ↔ Silent s fx .possibleFragmentSpreads d' := by
  rw [rule_possible_fragment_spreads_iff, rule_possible_fragment_spreads_iff]
  unfold Spec.possibleFragmentSpreads viewNodes
  have hg : ∀ q, q ∈ gnDoc (View.enter s) {} d ↔ q ∈ gnDoc (View.enter s) {} d' := fun q => (h.flatMap_right _).mem_iff
  simp only [hg, fragTypes_perm s h hnd]

end PyGql.Props.C06

/-
  C06 - property theorems, part 22: invariance of `NoFragmentCyclesChecker` under `Tr` (selection order, argument order,
  injective fragment renaming) and under reordering of definitions. Route: the rule theorem
  `rule_no_fragment_cycles_iff` (documents with unique, non-empty fragment names; fix V11) + invariance of the clause
  `Spec.noFragmentCycles`: the spread graph of the transformed document is the image of the spread graph.
-/
import PyGqlModel.Props.C06_inv3
import PyGqlModel.Props.C06_frags2
namespace PyGql.Props.C06
open PyGql PyGql.Validate PyGql.Validate.Spec

/-! ### the spread graph under `Tr` -/

theorem tr_sels_nil (T : Tr) : T.sels [] = [] := List.Perm.eq_nil (T.sels_perm [])

/-- direct spreads of transformed selections: the renamed direct spreads -/
theorem mem_directSpreads_tr (T : Tr) (sels : List Sel) (x : String) :
    x ∈ Spec.directSpreads (T.sels (T.selList sels)) ↔ ∃ a ∈ Spec.directSpreads sels, x = T.frag a := by
  rw [mem_directSpreads]
  constructor
  · rintro ⟨ds, h⟩
    have := (selsTop_tr T sels).mem_iff.mp h
    obtain ⟨n, hn, e⟩ := List.mem_map.mp this
    cases n <;> simp [Tr.node] at e
    rename_i a ds'
    exact ⟨a, mem_directSpreads.mpr ⟨ds', hn⟩, e.1.symm⟩
  · rintro ⟨a, ha, rfl⟩
    obtain ⟨ds, h⟩ := mem_directSpreads.mp ha
    exact ⟨ds.map T.dir, (selsTop_tr T sels).mem_iff.mpr (List.mem_map.mpr ⟨_, h, rfl⟩)⟩

/-- the selections of a renamed fragment: the transformed selections -/
theorem fragSels_tr (T : Tr) (hinj : ∀ a b, T.frag a = T.frag b → a = b) (d : Doc) (a : String) :
    Spec.fragSels (T.doc d) (T.frag a) = T.sels (T.selList (Spec.fragSels d a)) := by
  obtain ⟨ds⟩ := d
  simp only [Spec.fragSels, Tr.doc]
  induction ds with
  | nil => simp [tr_sels_nil, Tr.selList]
  | cons x xs ih =>
    cases x with
    | frag n on dirs i sels =>
      simp only [List.map_cons, Tr.defn, List.findSome?_cons]
      by_cases h : n = a
      · subst h; simp
      · have hb : (T.frag n == T.frag a) = false := by simpa using fun e => h (hinj _ _ e)
        have hb2 : (n == a) = false := by simpa using h
        simp only [hb, hb2, Bool.false_eq_true, ↓reduceIte]
        exact ih
    | op k n v dd i ss => simpa only [List.map_cons, Tr.defn, List.findSome?_cons] using ih
    | ts p q => simpa only [List.map_cons, Tr.defn, List.findSome?_cons] using ih

theorem reach_tr_of (T : Tr) (hinj : ∀ a b, T.frag a = T.frag b → a = b) (d : Doc) {a b : String}
    (h : Spec.Reach d a b) : Spec.Reach (T.doc d) (T.frag a) (T.frag b) := by
  induction h with
  | step h =>
    refine .step ?_
    rw [fragSels_tr T hinj]
    exact (mem_directSpreads_tr T _ _).mpr ⟨_, h, rfl⟩
  | trans _ _ ih1 ih2 => exact .trans ih1 ih2

theorem reach_of_tr (T : Tr) (hinj : ∀ a b, T.frag a = T.frag b → a = b) (d : Doc) {x y : String}
    (h : Spec.Reach (T.doc d) x y) : ∀ a, x = T.frag a → ∃ b, y = T.frag b ∧ Spec.Reach d a b := by
  induction h with
  | step h =>
    intro a e
    subst e
    rw [fragSels_tr T hinj] at h
    obtain ⟨b, hb, rfl⟩ := (mem_directSpreads_tr T _ _).mp h
    exact ⟨b, rfl, .step hb⟩
  | trans _ _ ih1 ih2 =>
    intro a e
    obtain ⟨b, rfl, h1⟩ := ih1 a e
    obtain ⟨c, rfl, h2⟩ := ih2 b rfl
    exact ⟨c, rfl, .trans h1 h2⟩

/-- **the clause of 5.5.2.2 is invariant under `Tr`** -/
theorem no_fragment_cycles_spec_tr (T : Tr) (hinj : ∀ a b, T.frag a = T.frag b → a = b) (d : Doc) :
    Spec.noFragmentCycles (T.doc d) ↔ Spec.noFragmentCycles d := by
  unfold Spec.noFragmentCycles
  rw [fragNames_tr]
  constructor
  · intro h f hf hr
    exact h (T.frag f) (List.mem_map_of_mem hf) (reach_tr_of T hinj d hr)
  · intro h f hf hr
    obtain ⟨a, ha, rfl⟩ := List.mem_map.mp hf
    obtain ⟨b, e, hr'⟩ := reach_of_tr T hinj d hr a rfl
    rw [← hinj _ _ e] at hr'
    exact h a ha hr'

/-- **perm_selections / perm_arguments / alpha_fragments for `NoFragmentCyclesChecker`**: documents with unique
    fragment names that are non-empty before and after the renaming; code with fix V11 -/
theorem tr_invariance_no_fragment_cycles (T : Tr) (hinj : ∀ a b, T.frag a = T.frag b → a = b) (s : SchemaD) (fx : Fixes)
    (hv : fx.v11 = true) (d : Doc) (hnd : Spec.uniqueFragmentNames d) (hne : NamesNonEmpty d)
    (hne' : NamesNonEmpty (T.doc d)) :
    Silent s fx .noFragmentCycles (T.doc d) ↔ Silent s fx .noFragmentCycles d := by
  have hnd' : (Spec.fragNames (T.doc d)).Nodup := (spec_tr T hinj s d .uniqueFragmentNames (by decide)).mpr hnd
  rw [rule_no_fragment_cycles_iff s fx hv _ hnd' hne', rule_no_fragment_cycles_iff s fx hv d hnd hne]
  exact no_fragment_cycles_spec_tr T hinj d

/-- selection / argument reordering only (no renaming): non-emptiness of the names carries over -/
theorem perm_selections_arguments_no_fragment_cycles (πs : List Sel → List Sel) (πa : List Arg → List Arg)
    (hs : ∀ l, (πs l).Perm l) (ha : ∀ l, (πa l).Perm l) (s : SchemaD) (fx : Fixes) (hv : fx.v11 = true) (d : Doc)
    (hnd : Spec.uniqueFragmentNames d) (hne : NamesNonEmpty d) :
    Silent s fx .noFragmentCycles ((Tr.mk πs πa id hs ha).doc d) ↔ Silent s fx .noFragmentCycles d := by
  refine tr_invariance_no_fragment_cycles _ (fun _ _ e => e) s fx hv d hnd hne ?_
  intro f hf
  rw [fragNames_tr] at hf
  simp only [List.map_id_fun, id_eq] at hf
  exact hne f hf

/-! ### reordering of definitions -/

theorem fragsOf_perm {ds ds' : List Def} (h : ds.Perm ds') : (fragsOf ds).Perm (fragsOf ds') := h.filterMap _

theorem fragSels_perm {d d' : Doc} (h : d.defs.Perm d'.defs) (hnd : Spec.uniqueFragmentNames d) (a : String) :
    Spec.fragSels d a = Spec.fragSels d' a := by
  have hp := fragsOf_perm h
  have hnd1 : ((fragsOf d.defs).map (·.1)).Nodup := by rw [← fragNames_eq_fragsOf]; exact hnd
  have hnd2 : ((fragsOf d'.defs).map (·.1)).Nodup := (hp.map _).nodup_iff.mp hnd1
  by_cases hm : a ∈ (fragsOf d.defs).map (·.1)
  · obtain ⟨p, hp1, rfl⟩ := List.mem_map.mp hm
    have e1 := fragSels_of_mem d.defs p.1 p.2 hnd1 hp1
    have e2 := fragSels_of_mem d'.defs p.1 p.2 hnd2 (hp.mem_iff.mp hp1)
    exact e1.trans e2.symm
  · have hm' : a ∉ (fragsOf d'.defs).map (·.1) := fun h' => hm ((hp.map _).mem_iff.mpr h')
    exact (fragSels_not_mem d.defs a hm).trans (fragSels_not_mem d'.defs a hm').symm

theorem reach_perm {d d' : Doc} (h : d.defs.Perm d'.defs) (hnd : Spec.uniqueFragmentNames d) {a b : String}
    (hr : Spec.Reach d a b) : Spec.Reach d' a b := by
  induction hr with
  | step hs => exact .step (by rw [← fragSels_perm h hnd]; exact hs)
  | trans _ _ ih1 ih2 => exact .trans ih1 ih2

theorem fragNames_perm {d d' : Doc} (h : d.defs.Perm d'.defs) : (Spec.fragNames d).Perm (Spec.fragNames d') :=
  h.filterMap _

/-- **perm_definitions for `NoFragmentCyclesChecker`** (unique, non-empty fragment names; fix V11) -/
theorem perm_definitions_no_fragment_cycles (s : SchemaD) (fx : Fixes) (hv : fx.v11 = true) {d d' : Doc}
    (h : d.defs.Perm d'.defs) (hnd : Spec.uniqueFragmentNames d) (hne : NamesNonEmpty d) :
    Silent s fx .noFragmentCycles d ↔ Silent s fx .noFragmentCycles d' := by
  have hfp := fragNames_perm h
  have hnd' : Spec.uniqueFragmentNames d' := hfp.nodup_iff.mp hnd
  have hne' : NamesNonEmpty d' := fun f hf => hne f (hfp.mem_iff.mpr hf)
  rw [rule_no_fragment_cycles_iff s fx hv d hnd hne, rule_no_fragment_cycles_iff s fx hv d' hnd' hne']
  unfold Spec.noFragmentCycles
  constructor
  · intro H f hf hr
    exact H f (hfp.mem_iff.mpr hf) (reach_perm h.symm hnd' hr)
  · intro H f hf hr
    exact H f (hfp.mem_iff.mp hf) (reach_perm h hnd hr)

end PyGql.Props.C06

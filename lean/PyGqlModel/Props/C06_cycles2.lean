/-
  C06 - `NoFragmentCyclesChecker`, part 2: what is recorded (`recorded d`): one entry per fragment definition with
  the distinct names it spreads, itself excluded; self-spreads counted as errors.
-/
import PyGqlModel.Props.C06_cycles
namespace PyGql.Props.C06
open PyGql PyGql.Validate PyGql.Validate.Spec

theorem spreadStep_errs (f nm : String) (rs : RS) :
    (spreadStep f nm rs).errs.length = rs.errs.length + (if nm == f then 1 else 0) := by
  unfold spreadStep
  split
  · simp [RS.err]
  · split <;> simp

theorem spreadSteps_errs (f : String) (names : List String) (rs : RS) :
    (spreadSteps f names rs).errs.length = rs.errs.length + (names.filter (· == f)).length := by
  induction names generalizing rs with
  | nil => rfl
  | cons a as ih =>
    simp only [spreadSteps, List.foldl_cons] at ih ⊢
    rw [ih, spreadStep_errs, List.filter_cons]
    split <;> simp <;> omega

theorem spreadStep_other (f nm g : String) (rs : RS) (hg : g ≠ f) :
    AL.get? (spreadStep f nm rs).cycSpreads g = AL.get? rs.cycSpreads g := by
  unfold spreadStep
  split
  · rfl
  · split
    · rfl
    · simp only [AL.modify, AL.get?_set, hg, ↓reduceIte]

theorem spreadSteps_other (f : String) (names : List String) (g : String) (rs : RS) (hg : g ≠ f) :
    AL.get? (spreadSteps f names rs).cycSpreads g = AL.get? rs.cycSpreads g := by
  induction names generalizing rs with
  | nil => rfl
  | cons a as ih => simp only [spreadSteps, List.foldl_cons] at ih ⊢; rw [ih, spreadStep_other f a g rs hg]

theorem spreadStep_mem (f nm x : String) (rs : RS) :
    x ∈ AL.getD (spreadStep f nm rs).cycSpreads f [] ↔ x ∈ AL.getD rs.cycSpreads f [] ∨ (x = nm ∧ nm ≠ f) := by
  unfold spreadStep
  by_cases h1 : nm = f
  · subst h1; simp [RS.err]
  · have h1' : (nm == f) = false := by simpa using h1
    simp only [h1', Bool.false_eq_true, ↓reduceIte]
    by_cases h2 : (AL.getD rs.cycSpreads f []).contains nm = true
    · simp only [h2, ↓reduceIte]
      constructor
      · exact Or.inl
      · rintro (h | ⟨rfl, _⟩)
        · exact h
        · simpa using h2
    · simp only [h2, Bool.false_eq_true, ↓reduceIte, AL.getD_modify, List.mem_append, List.mem_singleton]
      constructor
      · rintro (h | rfl)
        · exact Or.inl h
        · exact Or.inr ⟨rfl, h1⟩
      · rintro (h | ⟨rfl, _⟩)
        · exact Or.inl h
        · exact Or.inr rfl

theorem spreadSteps_mem (f : String) (names : List String) (x : String) (rs : RS) :
    x ∈ AL.getD (spreadSteps f names rs).cycSpreads f [] ↔ x ∈ AL.getD rs.cycSpreads f [] ∨ (x ∈ names ∧ x ≠ f) := by
  induction names generalizing rs with
  | nil => simp [spreadSteps]
  | cons a as ih =>
    simp only [spreadSteps, List.foldl_cons] at ih ⊢
    rw [ih, spreadStep_mem]
    simp only [List.mem_cons]
    constructor
    · rintro ((h | ⟨rfl, h⟩) | ⟨h1, h2⟩)
      · exact Or.inl h
      · exact Or.inr ⟨Or.inl rfl, h⟩
      · exact Or.inr ⟨Or.inr h1, h2⟩
    · rintro (h | ⟨rfl | h1, h2⟩)
      · exact Or.inl (Or.inl h)
      · exact Or.inl (Or.inr ⟨rfl, h2⟩)
      · exact Or.inr ⟨h1, h2⟩

theorem spreadStep_has (f nm g : String) (rs : RS) (hf : AL.has rs.cycSpreads f = true) :
    AL.has (spreadStep f nm rs).cycSpreads g = AL.has rs.cycSpreads g := by
  unfold spreadStep
  split
  · rfl
  · split
    · rfl
    · simp only [AL.modify, AL.has_set]
      by_cases e : g = f
      · subst e; simp [hf]
      · simp [e]

theorem spreadSteps_has (f : String) (names : List String) (g : String) (rs : RS) (hf : AL.has rs.cycSpreads f = true) :
    AL.has (spreadSteps f names rs).cycSpreads g = AL.has rs.cycSpreads g := by
  induction names generalizing rs with
  | nil => rfl
  | cons a as ih =>
    simp only [spreadSteps, List.foldl_cons] at ih ⊢
    rw [ih _ (by rw [spreadStep_has f a f rs hf]; exact hf), spreadStep_has f a g rs hf]


/-! ### all definitions -/

def fragsOf (ds : List Def) : List (String × List Sel) :=
  ds.filterMap fun | .frag f _ _ _ sels => some (f, sels) | _ => none

def selfCount (p : String × List Sel) : Nat := ((selSpreads.selsSpreads p.2).filter (· == p.1)).length

theorem fragEffect_errs (f : String) (sels : List Sel) (rs : RS) :
    (fragEffect f sels rs).errs.length = rs.errs.length + selfCount (f, sels) := by
  simp only [fragEffect, spreadSteps_errs, selfCount]

theorem fragEffect_has (f : String) (sels : List Sel) (rs : RS) (g : String) :
    AL.has (fragEffect f sels rs).cycSpreads g = (AL.has rs.cycSpreads g || decide (g = f)) := by
  simp only [fragEffect]
  rw [spreadSteps_has _ _ _ _ (by simp [AL.has_set])]
  simp [AL.has_set]

theorem fragEffect_other (f : String) (sels : List Sel) (rs : RS) (g : String) (hg : g ≠ f) :
    AL.get? (fragEffect f sels rs).cycSpreads g = AL.get? rs.cycSpreads g := by
  simp only [fragEffect]
  rw [spreadSteps_other _ _ _ _ hg]
  simp [AL.get?_set, hg]

theorem fragEffect_mem (f : String) (sels : List Sel) (rs : RS) (x : String) :
    x ∈ AL.getD (fragEffect f sels rs).cycSpreads f [] ↔ x ∈ selSpreads.selsSpreads sels ∧ x ≠ f := by
  simp only [fragEffect]
  rw [spreadSteps_mem]
  simp [AL.getD_set]

structure RecSpec (fs : List (String × List Sel)) (rs R : RS) : Prop where
  errs : R.errs.length = rs.errs.length + (fs.map selfCount).sum
  has : ∀ g, AL.has R.cycSpreads g = (AL.has rs.cycSpreads g || decide (g ∈ fs.map (·.1)))
  mem : ∀ p ∈ fs, ∀ x, x ∈ AL.getD R.cycSpreads p.1 [] ↔ x ∈ selSpreads.selsSpreads p.2 ∧ x ≠ p.1
  other : ∀ g, g ∉ fs.map (·.1) → AL.get? R.cycSpreads g = AL.get? rs.cycSpreads g

theorem recorded_spec : ∀ (ds : List Def) (rs : RS), ((fragsOf ds).map (·.1)).Nodup →
    RecSpec (fragsOf ds) rs (ds.foldl (fun rs x => defEffect x rs) rs)
  | [], rs, _ => ⟨by simp [fragsOf], fun g => by simp [fragsOf], fun p hp => (by simp [fragsOf] at hp), fun _ _ => rfl⟩
  | x :: xs, rs, hnd => by
    rw [List.foldl_cons]
    cases x with
    | frag f on dirs ssid sels =>
      have hfr : fragsOf (Def.frag f on dirs ssid sels :: xs) = (f, sels) :: fragsOf xs := by simp [fragsOf]
      rw [hfr] at hnd ⊢
      simp only [List.map_cons, List.nodup_cons] at hnd
      have ih := recorded_spec xs (fragEffect f sels rs) hnd.2
      show RecSpec _ rs (List.foldl (fun rs x => defEffect x rs) (fragEffect f sels rs) xs)
      refine ⟨?_, ?_, ?_, ?_⟩
      · rw [ih.errs, fragEffect_errs]; simp only [List.map_cons, List.sum_cons]; omega
      · intro g
        rw [ih.has g, fragEffect_has]
        simp only [List.map_cons, List.mem_cons]
        cases AL.has rs.cycSpreads g <;> by_cases e : g = f <;> simp [e]
      · intro p hp x
        rcases List.mem_cons.mp hp with rfl | hp
        · have hnot : f ∉ (fragsOf xs).map (·.1) := hnd.1
          have := ih.other f hnot
          simp only [AL.getD, this]
          exact fragEffect_mem f sels rs x
        · exact ih.mem p hp x
      · intro g hg
        simp only [List.map_cons, List.mem_cons, not_or] at hg
        rw [ih.other g hg.2, fragEffect_other f sels rs g hg.1]
    | op kind name vars dirs ssid sels =>
      have hfr : fragsOf (Def.op kind name vars dirs ssid sels :: xs) = fragsOf xs := by simp [fragsOf]
      rw [hfr] at hnd ⊢
      simpa [defEffect] using recorded_spec xs rs hnd
    | ts a b =>
      have hfr : fragsOf (Def.ts a b :: xs) = fragsOf xs := by simp [fragsOf]
      rw [hfr] at hnd ⊢
      simpa [defEffect] using recorded_spec xs rs hnd

end PyGql.Props.C06

/-
  C15 — sharpenings.

  * `default_string_reads_back_iff`: the ONLY defaults `default_parses_partial` excludes are plain (top-level, String / ID typed)
    string defaults with a control character other than TAB / LF / CR, and the exclusion is EXACT: such a default's reported
    text reads back to the declared string IF AND ONLY IF every character is `topCharOk` (so the hypothesis `hs` of
    `default_parses_partial` cannot be weakened, and nothing else is excluded).
  * `interface_possible_types_exact`: `introspect_lossless` decodes `possibleTypes` for unions only (for an interface the
    list is DERIVED from the object types' `interfaces`): what is reported for an interface is exactly the names of the
    object types of the schema that declare it — none missing, none invented, sorted — and this is dual to `interfaces`.
  * `directive_keys_june2018`: a directive is reported with exactly name / description / locations / args
    (the June-2018 shape the standard query of this library asks for: no `isRepeatable`).
-/
import PyGqlModel.Props.C15_defaults
import PyGqlModel.Props.C15_lossless

set_option linter.unusedSimpArgs false
set_option linter.unusedVariables false

namespace PyGql.Props.C15
open PyGql PyGql.Introspect PyGql.Introspect.Spec PyGql.Generated.Introspection

/-! ### exactness of the excluded defaults -/

private theorem ctrl_facts (c : Char) (h : topCharOk c = false) : c.toNat < 32 ∧ c ≠ '\t' ∧ c ≠ '\n' ∧ c ≠ '\r' := by
  simp only [topCharOk, Bool.or_eq_false_iff, decide_eq_false_iff_not, ge_iff_le, Nat.not_le] at h
  obtain ⟨⟨⟨h1, h2⟩, h3⟩, h4⟩ := h
  exact ⟨h1, h2, h3, h4⟩

private theorem lookup_none_of_ctrl (c : Char) (h : topCharOk c = false) : table__STRING_ESCAPES.lookup c = none := by
  have hc := ctrl_facts c h
  have e1 : (c == Char.ofNat 34) = false := by
    have : c ≠ Char.ofNat 34 := by intro e; subst e; simp at hc
    simpa using this
  have e2 : (c == Char.ofNat 92) = false := by
    have : c ≠ Char.ofNat 92 := by intro e; subst e; simp at hc
    simpa using this
  have e3 : (c == Char.ofNat 10) = false := by simpa using hc.2.2.1
  have e4 : (c == Char.ofNat 13) = false := by simpa using hc.2.2.2
  simp [table__STRING_ESCAPES, List.lookup, e1, e2, e3, e4]

/-- a raw control character (not TAB) stops the string reader -/
private theorem readString_ctrl (c : Char) (tl acc : Chars) (h : topCharOk c = false) : readString (c :: tl) acc = none := by
  have hc := ctrl_facts c h
  have hq : c ≠ '"' := by intro e; subst e; simp at hc
  have hb : c ≠ '\\' := by intro e; subst e; simp at hc
  have h9 : c.toNat ≠ 9 := by
    intro e
    exact hc.2.1 (by rw [← Char.ofNat_toNat c, e])
  rw [readString]
  · simp [hb, hc.1, h9]
  all_goals (intros; simp_all)

private theorem readString_bad (s : Chars) (rest acc : Chars) (h : s.all topCharOk = false) :
    readString (Prims.escapeWith table__STRING_ESCAPES s ++ '"' :: rest) acc = none := by
  induction s generalizing acc with
  | nil => simp at h
  | cons c cs ih =>
    cases hc : topCharOk c with
    | false =>
      simp only [Prims.escapeWith, List.flatMap_cons, lookup_none_of_ctrl c hc, Option.getD_none, List.cons_append, List.nil_append,
        List.append_assoc]
      exact readString_ctrl c _ acc hc
    | true =>
      have hcs : cs.all topCharOk = false := by simpa [List.all_cons, hc] using h
      -- one good character is consumed, the rest still contains the bad one
      have hstep : readString (Prims.escapeWith table__STRING_ESCAPES (c :: cs) ++ '"' :: rest) acc
          = readString (Prims.escapeWith table__STRING_ESCAPES cs ++ '"' :: rest) (c :: acc) := by
        have := readString_top_step c (Prims.escapeWith table__STRING_ESCAPES cs ++ '"' :: rest) acc hc
        simpa [Prims.escapeWith, List.flatMap_cons, List.append_assoc] using this
      rw [hstep]
      exact ih (c :: acc) hcs

/-- **default_string_reads_back_iff.** A plain string default `x` at a `String` / `ID` typed input value: the text introspection
    reports reads back (as GraphQL syntax) to the declared string iff `x` has no control character other than TAB, LF, CR.
    With `default_parses_partial` (every OTHER default round-trips): the excluded set is exactly this one, known finding I1. -/
theorem default_string_reads_back_iff (s : SchemaD) (ty : Ty) (x : String) (hty : Prims.baseIsOneOf ty ["String", "ID"] = true) :
    (∃ text, formatDefaultValue s true (.str x) ty = some text ∧ readLit text = some (.str x.toList)) ↔ x.toList.all topCharOk = true := by
  have hfmt : formatDefaultValue s true (.str x) ty = some ('"' :: (Prims.escapeWith table__STRING_ESCAPES x.toList ++ ['"'])) := by
    simp [formatDefaultValue, Prims.isNone, Prims.isStr, hty, Prims.pyStr]
  constructor
  · rintro ⟨text, h1, h2⟩
    rw [hfmt] at h1
    injection h1 with h1
    subst h1
    cases hall : x.toList.all topCharOk with
    | true => rfl
    | false =>
      exfalso
      have := readString_bad x.toList [] [] hall
      simp only [readLit, List.length_cons, readVal, skipIgnored, isIgnored] at h2
      simp [this] at h2
  · intro hok
    refine ⟨_, hfmt, ?_⟩
    have := readString_top x.toList [] [] hok
    simp only [readLit, List.length_cons, readVal, skipIgnored, isIgnored]
    simp [this, skipIgnored]

/-- non-vacuity, both directions: TAB inside a default is fine, FORM FEED is not -/
example : ("a\tb".toList.all topCharOk = true) ∧ ((String.ofList ['a', Char.ofNat 12]).toList.all topCharOk = false) := by decide

/-! ### possible types of interfaces -/

private theorem name_of_namedRef' (s : SchemaD) (n : String) : (typeRef s typeRefLevels (.named n)).strD "name" = n := by
  simp [typeRef, typeRefLevels, J.strD, J.get?, J.asStr?, refName]

/-- the names listed under `possibleTypes` of a reported type -/
def reportedPossible (j : J) : List String := (j.arrD "possibleTypes").map (·.strD "name")
/-- the names listed under `interfaces` of a reported type -/
def reportedInterfaces (j : J) : List String := (j.arrD "interfaces").map (·.strD "name")

private theorem map_names (s : SchemaD) (l : List String) :
    (l.map fun n => typeRef s typeRefLevels (.named n)).map (·.strD "name") = l := by
  induction l with
  | nil => rfl
  | cons a l ih => simp [name_of_namedRef', ih]

private theorem map_names' (s : SchemaD) (l : List String) :
    List.map ((fun x => x.strD "name") ∘ fun n => typeRef s typeRefLevels (Ty.named n)) l = l := by
  rw [← List.map_map]; exact map_names s l

/-- **interface_possible_types_exact.** For an interface type, with or without deprecated members: the reported `possibleTypes`
    are (a permutation-free, sorted listing of) EXACTLY the object types of the schema that declare the interface. -/
theorem interface_possible_types_exact (s : SchemaD) (incl : Bool) (t : TypeD) (hk : t.kind = .interface) :
    reportedPossible (fullType s incl t) = sortBy id ((s.types.filter fun o => o.kind == .object && o.interfaces.contains t.name).map (·.name))
    ∧ ∀ n, n ∈ reportedPossible (fullType s incl t) ↔ ∃ o ∈ s.types, o.kind = .object ∧ t.name ∈ o.interfaces ∧ o.name = n := by
  have h1 : reportedPossible (fullType s incl t) = possibleTypes s t := by
    simp [reportedPossible, fullType, hk, J.getD, J.get?, J.arrD, J.asArr?, map_names']
  have h2 : possibleTypes s t = sortBy id ((s.types.filter fun o => o.kind == .object && o.interfaces.contains t.name).map (·.name)) := by
    simp [possibleTypes, hk]
  refine ⟨h1.trans h2, ?_⟩
  intro n
  rw [h1, h2, (sortBy_perm id _).mem_iff]
  simp only [List.mem_map, List.mem_filter, Bool.and_eq_true, beq_iff_eq, List.contains_iff_mem]
  constructor
  · rintro ⟨o, ⟨ho, hko, hi⟩, hn⟩; exact ⟨o, ho, hko, hi, hn⟩
  · rintro ⟨o, ho, hko, hi, hn⟩; exact ⟨o, ⟨ho, hko, hi⟩, hn⟩

/-- an object type reports exactly its declared interfaces, in declaration order -/
theorem object_interfaces_exact (s : SchemaD) (incl : Bool) (o : TypeD) (hk : o.kind = .object) :
    reportedInterfaces (fullType s incl o) = o.interfaces := by
  simp [reportedInterfaces, fullType, hk, J.getD, J.get?, J.arrD, J.asArr?, map_names']

/-- **interfaces_possible_types_dual.** `interfaces` and `possibleTypes` tell the same story: object `o` of the schema lists
    interface `t` among its `interfaces` iff `t` lists `o` among its `possibleTypes`. -/
theorem interfaces_possible_types_dual (s : SchemaD) (incl : Bool) (t o : TypeD) (ht : t.kind = .interface) (ho : o.kind = .object)
    (hmem : o ∈ s.types) (huniq : ∀ o' ∈ s.types, o'.name = o.name → o' = o) :
    t.name ∈ reportedInterfaces (fullType s incl o) ↔ o.name ∈ reportedPossible (fullType s incl t) := by
  rw [object_interfaces_exact s incl o ho, (interface_possible_types_exact s incl t ht).2]
  constructor
  · intro h; exact ⟨o, hmem, ho, h, rfl⟩
  · rintro ⟨o', hm', _, hi, hn⟩
    have := huniq o' hm' hn
    subst this
    exact hi

/-- kinds that are neither union nor interface report `possibleTypes: null`; kinds other than object report `interfaces: null` -/
theorem possible_types_null_elsewhere (s : SchemaD) (incl : Bool) (t : TypeD) (h1 : t.kind ≠ .union) (h2 : t.kind ≠ .interface) :
    (fullType s incl t).getD "possibleTypes" = .null := by
  cases hk : t.kind <;> simp_all [fullType, J.getD, J.get?]

/-- non-vacuity: interface `Node` implemented by `A` and `C` (not by `B`), declared in the order C, B, A -/
example :
    let node : TypeD := { kind := .interface, name := "Node", fields := [{ name := "id", type := .named "ID" }] }
    let mk (n : String) (is : List String) : TypeD := { kind := .object, name := n, interfaces := is, fields := [{ name := "id", type := .named "ID" }] }
    let s : SchemaD := { types := [mk "C" ["Node"], mk "B" [], mk "A" ["Other", "Node"], node] }
    reportedPossible (fullType s true node) = ["A", "C"] ∧ reportedInterfaces (fullType s true (mk "A" ["Other", "Node"])) = ["Other", "Node"] := by
  decide

/-! ### directives: the June-2018 shape -/

def J.keys : J → List String | .obj kvs => kvs.map (·.1) | _ => []

/-- **directive_keys_june2018.** Every directive is reported with exactly these four entries (no `isRepeatable`), every field
    with name / description / args / type / isDeprecated / deprecationReason, every enum value with name / description /
    isDeprecated / deprecationReason. -/
theorem directive_keys_june2018 (s : SchemaD) (d : DirectiveD) (f : FieldD) (v : EnumValD) :
    J.keys (directiveJ s d) = ["name", "description", "locations", "args"]
    ∧ J.keys (fieldJ s f) = ["name", "description", "args", "type", "isDeprecated", "deprecationReason"]
    ∧ J.keys (enumValueJ v) = ["name", "description", "isDeprecated", "deprecationReason"] := by
  refine ⟨rfl, rfl, rfl⟩

/-- **deprecation_reason_exact.** A member is reported deprecated iff it declares a reason, and the reported reason is the
    declared one (for fields and for enum values). -/
theorem deprecation_reason_exact (s : SchemaD) (f : FieldD) (v : EnumValD) :
    ((fieldJ s f).boolD "isDeprecated" = f.deprecated.isSome ∧ optStr (fieldJ s f) "deprecationReason" = f.deprecated)
    ∧ ((enumValueJ v).boolD "isDeprecated" = v.deprecated.isSome ∧ optStr (enumValueJ v) "deprecationReason" = v.deprecated) := by
  cases hf : f.deprecated <;> cases hv : v.deprecated <;>
    simp [fieldJ, enumValueJ, J.boolD, J.get?, J.asBool?, optStr, jOptStr, J.asStr?, hf, hv]

end PyGql.Props.C15

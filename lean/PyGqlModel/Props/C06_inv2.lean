/-
  C06 - property theorems, part 13: invariance under `Tr` (re-ordering of selections and of arguments at every depth,
  injective renaming of fragments) for the rules proved after phase 2: the type-dependent rules (static contexts are
  untouched by `Tr`: `gnDoc_tr`), `FragmentsOnCompositeTypes`, `UniqueInputFieldNames`, `KnownDirectives`,
  `NoUnusedFragments`. Together with `spec_tr` (C06_inv.lean) this covers `ProvedPermDefs`.
-/
import PyGqlModel.Props.C06_all
import PyGqlModel.Lemmas.ValidateCtxTr
import PyGqlModel.Lemmas.TypedEqView
namespace PyGql.Props.C06
open PyGql PyGql.Validate PyGql.Validate.Spec

theorem view_enter_tr (T : Tr) (s : SchemaD) (n : Node) (v : View) : View.enter s (T.node n) v = View.enter s n v := by
  cases n with
  | inline on dirs => cases on <;> rfl
  | _ => rfl

theorem ancDown_tr (T : Tr) (n : Node) (x : List Anc) : ancDown (T.node n) x = ancDown n x := by
  cases n <;> rfl

/-- statements over the typed enumeration, transported along `Tr` -/
theorem forall_typed_tr (T : Tr) (s : SchemaD) (d : Doc) (P : Node × View → Prop) :
    (∀ p ∈ typedNodes s (T.doc d), P p) ↔ (∀ q ∈ typedNodes s d, P (T.node q.1, q.2)) := by
  rw [typedNodes_eq_viewNodes, typedNodes_eq_viewNodes]
  exact forall_gnDoc_tr T (View.enter s) (view_enter_tr T s) d {} P

theorem spec_tr_more (T : Tr) (hinj : ∀ a b, T.frag a = T.frag b → a = b) (s : SchemaD) (fx : Fixes) (d : Doc) (r : Rule)
    (hr : r ∈ ProvedTyped) : SpecAll r s fx (T.doc d) ↔ SpecAll r s fx d := by
  simp only [ProvedTyped, List.mem_cons, List.not_mem_nil, or_false] at hr
  rcases hr with rfl | rfl | rfl | rfl | rfl | rfl | rfl | rfl
  · -- fields on correct type
    simp only [SpecAll, Spec.fieldsOnCorrectType]
    rw [forall_typed_tr]
    refine forall_congr' fun q => forall_congr' fun _ => ?_
    obtain ⟨n, v⟩ := q
    cases n with
    | field name args dirs hs =>
      simp only [Tr.node, Node.field.injEq]
      constructor
      · rintro h n' a' d' h' ⟨rfl, rfl, rfl, rfl⟩; exact h _ _ _ _ ⟨rfl, rfl, rfl, rfl⟩
      · rintro h n' a' d' h' ⟨rfl, rfl, rfl, rfl⟩; exact h _ _ _ _ ⟨rfl, rfl, rfl, rfl⟩
    | _ => simp [Tr.node]
  · -- scalar leafs
    simp only [SpecAll, Spec.scalarLeafs]
    rw [forall_typed_tr]
    refine forall_congr' fun q => forall_congr' fun _ => ?_
    obtain ⟨n, v⟩ := q
    cases n with
    | field name args dirs hs =>
      simp only [Tr.node, Node.field.injEq]
      constructor
      · rintro h n' a' d' h' ⟨rfl, rfl, rfl, rfl⟩; exact h _ _ _ _ ⟨rfl, rfl, rfl, rfl⟩
      · rintro h n' a' d' h' ⟨rfl, rfl, rfl, rfl⟩; exact h _ _ _ _ ⟨rfl, rfl, rfl, rfl⟩
    | _ => simp [Tr.node]
  · -- known argument names
    simp only [SpecAll, Spec.knownArgumentNames]
    rw [forall_typed_tr, forall_typed_tr]
    refine and_congr (forall_congr' fun q => forall_congr' fun _ => ?_) (forall_congr' fun q => forall_congr' fun _ => ?_)
    · obtain ⟨n, v⟩ := q
      cases n with
      | field name args dirs hs =>
        simp only [Tr.node, Node.field.injEq]
        constructor
        · rintro h n' a' d' h' ⟨rfl, rfl, rfl, rfl⟩ fd hfd a ha
          exact h _ _ _ _ ⟨rfl, rfl, rfl, rfl⟩ fd hfd a ((T.args_perm _).mem_iff.mpr ha)
        · rintro h n' a' d' h' ⟨rfl, rfl, rfl, rfl⟩ fd hfd a ha
          exact h _ _ _ _ ⟨rfl, rfl, rfl, rfl⟩ fd hfd a ((T.args_perm _).mem_iff.mp ha)
      | _ => simp [Tr.node]
    · obtain ⟨n, v⟩ := q
      cases n with
      | directive dr =>
        simp only [Tr.node, Node.directive.injEq, forall_eq', Tr.dir]
        exact forall_congr' fun dd => forall_congr' fun _ =>
          ⟨fun h a ha => h a ((T.args_perm _).mem_iff.mpr ha), fun h a ha => h a ((T.args_perm _).mem_iff.mp ha)⟩
      | _ => simp [Tr.node]
  · -- provided required arguments
    simp only [SpecAll, Spec.providedRequiredArguments]
    rw [forall_typed_tr, forall_typed_tr]
    refine and_congr (forall_congr' fun q => forall_congr' fun _ => ?_) (forall_congr' fun q => forall_congr' fun _ => ?_)
    · obtain ⟨n, v⟩ := q
      cases n with
      | field name args dirs hs =>
        simp only [Tr.node, Node.field.injEq]
        constructor
        · rintro h n' a' d' h' ⟨rfl, rfl, rfl, rfl⟩ fd hfd ad had hreq
          obtain ⟨a, ha, e⟩ := h _ _ _ _ ⟨rfl, rfl, rfl, rfl⟩ fd hfd ad had hreq
          exact ⟨a, (T.args_perm _).mem_iff.mp ha, e⟩
        · rintro h n' a' d' h' ⟨rfl, rfl, rfl, rfl⟩ fd hfd ad had hreq
          obtain ⟨a, ha, e⟩ := h _ _ _ _ ⟨rfl, rfl, rfl, rfl⟩ fd hfd ad had hreq
          exact ⟨a, (T.args_perm _).mem_iff.mpr ha, e⟩
      | _ => simp [Tr.node]
    · obtain ⟨n, v⟩ := q
      cases n with
      | directive dr =>
        simp only [Tr.node, Node.directive.injEq, forall_eq', Tr.dir]
        exact forall_congr' fun dd => forall_congr' fun _ => forall_congr' fun ad => forall_congr' fun _ =>
          forall_congr' fun _ =>
            ⟨fun ⟨a, ha, e⟩ => ⟨a, (T.args_perm _).mem_iff.mp ha, e⟩, fun ⟨a, ha, e⟩ => ⟨a, (T.args_perm _).mem_iff.mpr ha, e⟩⟩
      | _ => simp [Tr.node]
  · -- fragments on composite types
    simp only [SpecAll, Spec.fragmentsOnCompositeTypes]
    rw [forall_nodes_tr T d (fun n => ∀ on dirs, n = Node.inline (some on) dirs → isComposite s on = true),
      forall_nodes_tr T d (fun n => ∀ name on dirs, n = Node.fragmentDef name on dirs → isComposite s on = true)]
    refine and_congr (forall_congr' fun m => forall_congr' fun _ => ?_) (forall_congr' fun m => forall_congr' fun _ => ?_)
    · cases m <;> simp [Tr.node]
    · cases m <;> simp [Tr.node]
  · -- unique input field names
    simp only [SpecAll, Spec.uniqueInputFieldNames]
    rw [forall_nodes_tr T d (fun n => ∀ fs, n = Node.value (.obj fs) → (fs.map (·.name)).Nodup)]
    refine forall_congr' fun m => forall_congr' fun _ => ?_
    cases m <;> simp [Tr.node]
  · -- known directives
    simp only [SpecAll, Spec.knownDirectives]
    rw [forall_gnDoc_tr T ancDown (ancDown_tr T) d []]
    refine forall_congr' fun q => forall_congr' fun _ => ?_
    obtain ⟨n, x⟩ := q
    cases n <;> simp [Tr.node, Tr.dir]
  · -- every fragment is spread somewhere
    simp only [SpecAll, Spec.everyFragmentSpreadSomewhere]
    constructor
    · intro h n hn name on dirs e
      subst e
      have hn' : T.node (.fragmentDef name on dirs) ∈ nodes (T.doc d) :=
        (nodes_tr T d).mem_iff.mpr (List.mem_map_of_mem hn)
      obtain ⟨m, hm, ds, rfl⟩ := h _ hn' (T.frag name) on (dirs.map T.dir) rfl
      obtain ⟨m0, hm0, e0⟩ := List.mem_map.mp ((nodes_tr T d).mem_iff.mp hm)
      cases m0 <;> simp [Tr.node] at e0
      rename_i nm ds0
      obtain ⟨e1, _⟩ := e0
      have := hinj _ _ e1
      subst this
      exact ⟨_, hm0, ds0, rfl⟩
    · intro h n hn name on dirs e
      subst e
      obtain ⟨m0, hm0, e0⟩ := List.mem_map.mp ((nodes_tr T d).mem_iff.mp hn)
      cases m0 <;> simp [Tr.node] at e0
      rename_i nm on0 ds0
      obtain ⟨e1, _, _⟩ := e0
      obtain ⟨m, hm, ds, rfl⟩ := h _ hm0 nm on0 ds0 rfl
      refine ⟨T.node (.spread nm ds), (nodes_tr T d).mem_iff.mpr (List.mem_map_of_mem hm), ds.map T.dir, ?_⟩
      simp [Tr.node, e1]

/-! `ProvedTr` and the uniform `Tr` invariance theorems: `Props/C06_inv3.lean` (they include val2's values rule) -/

end PyGql.Props.C06

/-
  C06 - property theorems, part 12: `OverlappingFieldsCanBeMergedChecker` (5.3.2), PARTIAL.

  Proved: the rule never raises a false alarm - on a document in which no selection set contains two conflicting
  fields (`Spec.overlappingFieldsCanBeMerged`: the specification's FieldsInSetCanMerge / SameResponseShape over the
  collected fields with their parent types, `Spec/ValidSpecOverlap.lean`) the rule, run alone, reports nothing.
  The search is followed through its five mutually recursive functions (`Lemmas/ValidateOverlapSearch*.lean`):
  fuel, the compared-pairs memo, the compared-fragments set and the parent-type cache only make it report less,
  or (the cache) look at a selection set under another ADMISSIBLE parent type.

  NOT proved: the converse (a silent run implies the clause), i.e. that the search is COMPLETE in spite of its memo
  (a pair of fragments is skipped when it was - or is being - compared under the same exclusivity flag), its
  per-traversal set of compared fragments, its cache of the first parent type, and the fuel standing for Python's
  recursion limit. The full statement is `OverlapFullStatement` below. What a proof needs: (1) the hypotheses named
  there (no crash, the three routes to a parent type agree); (2) for every key of the final memo the obligations
  "all direct fields compared, all nested fragment pairs covered by the memo", established by the call that
  inserted the key and monotone in the memo - then a conflict derivation (`Spec.Conf`, finite) is chased through
  the memo to a call of `_find_conflict` that returned true. Until then the converse rests on the correspondence
  check (harness/corr/C06_model.py: verdicts of the model = verdicts of the real rule) and on the injected-violation
  corpus.
-/
import PyGqlModel.Props.C06_names
import PyGqlModel.Props.C06_witness
import PyGqlModel.Lemmas.ValidateOverlapWalk2
namespace PyGql.Props.C06
open PyGql PyGql.Validate PyGql.Validate.Spec

/-- **5.3.2, one half (PARTIAL)**: if no selection set of the document contains two conflicting fields, then
    `OverlappingFieldsCanBeMergedChecker` run alone reports nothing. (`fx.v7`: the fixed step (G) of
    `_conflicts_between_fragments`, ledger V7; `Fixes.all` = /repo HEAD has it.) -/
theorem rule_overlapping_fields_can_be_merged_no_false_alarm_partial (s : SchemaD) (fx : Fixes) (h7 : fx.v7 = true)
    (d : Doc) : Spec.overlappingFieldsCanBeMerged s d → Silent s fx .overlappingFieldsCanBeMerged d := by
  intro H
  unfold Silent alone
  exact ov_document s fx d h7 H

/-- the same, contrapositive: **an error of the rule is attributable to two conflicting fields of one selection
    set** of the document -/
theorem rule_overlapping_fields_reported_conflict_partial (s : SchemaD) (fx : Fixes) (h7 : fx.v7 = true) (d : Doc)
    (h : ¬ Silent s fx .overlappingFieldsCanBeMerged d) :
    ¬ (∀ i sels, SelSet d i sels → ∀ p, Adm s d i p → ∀ rn e1 e2, Coll s d p sels rn e1 → Coll s d p sels rn e2 →
      ¬ Conf s d false e1 e2) :=
  fun H => h (rule_overlapping_fields_can_be_merged_no_false_alarm_partial s fx h7 d H)

/-- validation did not raise (no `RecursionError` - the model's fuel -, no `AttributeError`) -/
def NoCrash (s : SchemaD) (fx : Fixes) (d : Doc) : Prop := (alone s fx .overlappingFieldsCanBeMerged d).rs.crash = none

/-- **the full statement** (not proved): for the fixed code, when validation does not raise and the three routes
    to the parent type of a selection set agree, the rule is silent EXACTLY when the clause holds -/
def OverlapFullStatement : Prop :=
  ∀ (s : SchemaD) (fx : Fixes) (d : Doc), fx.v7 = true → NoCrash s fx d → Spec.ParentsAgree s d →
    (Silent s fx .overlappingFieldsCanBeMerged d ↔ Spec.overlappingFieldsCanBeMerged s d)
-- the `←` half is `rule_overlapping_fields_can_be_merged_no_false_alarm_partial` and needs none of the side conditions

/-! ### non-vacuity -/

private theorem typesConflict_irrefl (s : SchemaD) : ∀ t : Ty, typesConflict s t t = false
  | .named a => by simp [typesConflict]
  | .list a => by rw [typesConflict]; exact typesConflict_irrefl s a
  | .nonNull a => by rw [typesConflict]; exact typesConflict_irrefl s a

/-- `{ a }` (schema of `Props/C06_witness.lean`) satisfies the clause: its only selection set holds one field, which
    does not conflict with itself whatever parent type it is looked at -/
example : Spec.overlappingFieldsCanBeMerged wSchema ⟨[opV [] 1 [fld none "a"]]⟩ := by
  intro i sels hsel p _ rn e1 e2 h1 h2 hcf
  have hsels : sels = [fld none "a"] := by
    simp only [SelSet, nodes, opV, fld, defNodes, selsNodes, selNodes, argsNodes, dirsNodes, List.flatMap_cons,
      List.flatMap_nil, List.mem_cons, reduceCtorEq, false_or, List.append_nil, List.nil_append, Bool.false_eq_true,
      ↓reduceIte, Node.selectionSet.injEq, List.not_mem_nil, or_false] at hsel
    exact hsel.2
  subst hsels
  have hent : ∀ rn e, Coll wSchema ⟨[opV [] 1 [fld none "a"]]⟩ p [fld none "a"] rn e →
      e = { parent := p, name := "a", args := [], hasSub := false, ssid := 0, sub := [],
            fdef := p.bind fun q => ovFieldOf wSchema q "a" } := by
    intro rn e h
    rcases h with h | ⟨g, hg, _⟩
    · cases h with
      | field hm => simp only [fld, List.mem_singleton, Sel.field.injEq] at hm; obtain ⟨_, rfl, rfl, _, rfl, rfl, rfl⟩ := hm; rfl
      | inline hm _ => simp [fld] at hm
    · cases hg with
      | spread hm => simp [fld] at hm
      | inline hm _ => simp [fld] at hm
  rw [hent rn e1 h1, hent rn e2 h2] at hcf
  cases hcf with
  | args _ h => rcases h with h | h
                · exact h rfl
                · have h0 : sameArguments [] [] = some true := by decide
                  simp only at h; rw [h0] at h; cases h
  | types h1 h2 h3 =>
    simp only at h1 h2
    rw [h1] at h2; cases h2
    rw [typesConflict_irrefl] at h3; cases h3
  | sub h => cases h
  | subSwap h => cases h

/-- `{ x: a  x: o { s } }`: the two fields named `x` conflict (different field names); the rule reports, so the
    clause fails -/
example : ¬ Spec.overlappingFieldsCanBeMerged wSchema
    ⟨[opV [] 1 [fld (some "x") "a", .field (some "x") "o" [] [] true 2 [fld none "s"]]]⟩ := fun h =>
  absurd (rule_overlapping_fields_can_be_merged_no_false_alarm_partial wSchema Fixes.all rfl _ h)
    (by unfold Silent; decide +kernel)

end PyGql.Props.C06

/-
  C12 at TEXT level with `include_descriptions=False` — audit 3, finding F8 (third bullet): `printTextWF` demands
  `o.descriptions = true`, so there was no parse-acceptance theorem at all for the other value of the option.

  With descriptions off the printer writes exactly what it writes, descriptions on, for the schema WITHOUT its
  descriptions (`printSchemaT_strip`, `Lemmas/SdlTextStrip.lean`: every function of the printer; default values do not look
  at descriptions).  So the text theorems transfer, with the predicates asked of `stripSchema s` (whose description clauses
  — NoH5, NoH12 — are vacuous: a schema with ANY descriptions is covered):
    * `print_schema_text_parses_nodesc` — the text is accepted by lexer and parser and parses to the tree of the printed
      document of `stripSchema s`;
    * `text_roundtrip_nodesc` — that document builds `stripSchema s` up to the order of definitions (the descriptions are
      lost, as they must be), and re-printing the rebuilt schema with the same options gives the same text
      (`print_fixpoint_text_nodesc`).
-/
import PyGqlModel.Lemmas.SdlTextStrip
import PyGqlModel.Props.C12_fixpoint
namespace PyGql.Props.C12
open PyGql PyGql.Sdl PyGql.SdlPrint PyGql.SdlText

/-- **printSchemaT_descriptions_off** — `to_string(include_descriptions=False)` prints what `to_string()` prints for the
    schema without its descriptions; no hypothesis on the schema -/
theorem printSchemaT_descriptions_off (o : SdlPrintT.OptsT) (hoff : o.descriptions = false) (s : SchemaD) :
    SdlPrintT.printSchemaT o s = SdlPrintT.printSchemaT { o with descriptions := true } (stripSchema s) :=
  (printSchemaT_strip o hoff s).symm

/-- **print_schema_text_parses_nodesc** — parser acceptance with descriptions off -/
theorem print_schema_text_parses_nodesc (o : SdlPrintT.OptsT) (hoff : o.descriptions = false) (s : SchemaD)
    (hwf : printTextWF { o with descriptions := true } (stripSchema s) = true) :
    parseSdlTextT (SdlPrintT.printSchemaT o s) = docToAst (printedDoc (stripSchema s)) := by
  rw [printSchemaT_descriptions_off o hoff s]
  exact print_schema_text_parses _ _ hwf

private theorem stripArgs_idem (l : List ArgD) : (l.map stripArg).map stripArg = l.map stripArg := by
  rw [List.map_map]; exact List.map_congr_left (fun _ _ => rfl)

private theorem stripField_idem (f : FieldD) : stripField (stripField f) = stripField f := by
  simp only [stripField, stripArgs_idem]

private theorem stripType_idem (t : TypeD) : stripType (stripType t) = stripType t := by
  have h1 : (t.fields.map stripField).map stripField = t.fields.map stripField := by
    rw [List.map_map]; exact List.map_congr_left (fun f _ => stripField_idem f)
  have h2 : (t.values.map stripEnumVal).map stripEnumVal = t.values.map stripEnumVal := by
    rw [List.map_map]; exact List.map_congr_left (fun _ _ => rfl)
  simp only [stripType, h1, h2, stripArgs_idem]

private theorem stripDirective_idem (d : DirectiveD) : stripDirective (stripDirective d) = stripDirective d := by
  simp only [stripDirective, stripArgs_idem]

/-- removing descriptions is idempotent … -/
theorem stripSchema_idem (s : SchemaD) : stripSchema (stripSchema s) = stripSchema s := by
  have h1 : (s.types.map stripType).map stripType = s.types.map stripType := by
    rw [List.map_map]; exact List.map_congr_left (fun t _ => stripType_idem t)
  have h2 : (s.directives.map stripDirective).map stripDirective = s.directives.map stripDirective := by
    rw [List.map_map]; exact List.map_congr_left (fun d _ => stripDirective_idem d)
  simp only [stripSchema, h1, h2]

/-- … so with descriptions off a schema and its description-free version print the same text -/
theorem printSchemaT_off_strip (o : SdlPrintT.OptsT) (hoff : o.descriptions = false) (s : SchemaD) :
    SdlPrintT.printSchemaT o (stripSchema s) = SdlPrintT.printSchemaT o s := by
  rw [printSchemaT_descriptions_off o hoff s, printSchemaT_descriptions_off o hoff (stripSchema s), stripSchema_idem]

/-- **text_roundtrip_nodesc** / **print_fixpoint_text_nodesc** — the round trip and the fixpoint clause for
    `include_descriptions=False`: the parsed document builds the description-free schema (up to the order of
    definitions), and printing the rebuilt schema with the same options gives the same text -/
theorem print_fixpoint_text_nodesc (o : SdlPrintT.OptsT) (hoff : o.descriptions = false) (s : SchemaD)
    (hwf : printTextWF { o with descriptions := true } (stripSchema s) = true) (hb : printBuildWF (stripSchema s) = true) :
    ∃ (d : Ast.Document) (doc : Doc) (s' : SchemaD), parseSdlTextT (SdlPrintT.printSchemaT o s) = some d ∧
      docToAst doc = some d ∧ build doc = .ok s' ∧ SameUpToOrder s' (stripSchema s) ∧
      SdlPrintT.printSchemaT o s' = SdlPrintT.printSchemaT o s := by
  have hu := namesUnique_of_wf _ _ hwf
  obtain ⟨d, doc, h1, h2, h3⟩ := text_roundtrip _ (stripSchema s) hwf (printBuildWF_printOrder _ hb)
  refine ⟨d, doc, printOrder (stripSchema s), ?_, h2, h3, ⟨types_perm _, directives_perm _, rfl, rfl, rfl, rfl⟩, ?_⟩
  · rw [printSchemaT_descriptions_off o hoff s]; exact h1
  · rw [printSchemaT_order_independent o (stripSchema s) hu, printSchemaT_off_strip o hoff s]

/-! ### non-vacuity: `descShop` carries descriptions in every layout (one of them is irrelevant here: all are dropped) -/

example : printTextWF { descriptions := true } (stripSchema descShop) = true := by decide
example : parseSdlTextT (SdlPrintT.printSchemaT { descriptions := false } descShop) = docToAst (printedDoc (stripSchema descShop)) :=
  print_schema_text_parses_nodesc { descriptions := false } rfl descShop (by decide)
example : ∃ d doc s', parseSdlTextT (SdlPrintT.printSchemaT { descriptions := false } shop) = some d ∧ docToAst doc = some d ∧
    build doc = .ok s' ∧ SameUpToOrder s' (stripSchema shop) ∧
    SdlPrintT.printSchemaT { descriptions := false } s' = SdlPrintT.printSchemaT { descriptions := false } shop :=
  print_fixpoint_text_nodesc { descriptions := false } rfl shop (by decide) (by decide)

end PyGql.Props.C12

/-
  C15 — `default_parses`: each reported default value is GraphQL syntax that reads back to the literal form
  of the declared default.  FALSE on today's code (ledger I1): `_format_default_value` (translated from source
  into `Generated.formatDefaultValue`) prints JSON / unescaped text and ignores the type.
  Here: the full statement, four machine-checked counter-examples (each is also a replay on the real code,
  see known_findings.d/C15.json), and the part that does hold (`default_parses_partial`).
-/
import PyGqlModel.Spec.Introspect

set_option linter.unusedSimpArgs false
set_option linter.unusedVariables false

namespace PyGql.Props.C15
open PyGql PyGql.Introspect PyGql.Generated.Introspection

/-- FULL statement: whenever the declared default `dv` of an input value of type `ty` has a literal form `l`
    (`ast_node_from_value`, the form the SDL printer prints), the reported `defaultValue` text reads back to `l`.
    (Python floats are left out: `Float = 3` is declared as `3.0`, a different literal of the same value.) -/
def DefaultParsesStatement : Prop :=
  ∀ (s : SchemaD) (ty : Ty) (dv : J) (l : Lit), noFloat dv = true → litOf s 64 ty dv = some l →
    ∃ text, formatDefaultValue s true dv ty = some text ∧ readLit text = some l

/-- schema of the counter-examples: `enum E { A B }` with internal values "A" and 1, `input I { a: Int }` -/
def witnessSchema : SchemaD :=
  { types := [ { kind := .scalar, name := "Int" }, { kind := .scalar, name := "String" },
               { kind := .enum, name := "E", values := [{ name := "A", value := .str "A" }, { name := "B", value := .num 1 }] },
               { kind := .input, name := "I", inputFields := [{ name := "a", type := .named "Int" }] },
               { kind := .object, name := "Query", fields := [{ name := "f", type := .named "Int" }] } ] }

/-- I1, enum: `f(e: E = A)` reports `"A"` — a string literal, not the enum literal `A`. -/
theorem default_enum_printed_as_string :
    formatDefaultValue witnessSchema true (.str "A") (.named "E") = some ['"', 'A', '"']
    ∧ readLit ['"', 'A', '"'] = some (.str ['A'])
    ∧ litOf witnessSchema 64 (.named "E") (.str "A") = some (.enum ['A']) := ⟨rfl, rfl, rfl⟩

/-- I1, enum with internal value: default `1` (the value of `B`) reports `1` — an int literal, not `B`. -/
theorem default_enum_internal_value_printed :
    formatDefaultValue witnessSchema true (.num 1) (.named "E") = some ['1']
    ∧ readLit ['1'] = some (.int 1)
    ∧ litOf witnessSchema 64 (.named "E") (.num 1) = some (.enum ['B']) := ⟨rfl, rfl, rfl⟩

/-- I1, input object: default `{a: 1}` reports `{"a": 1}` (quoted key) — not GraphQL syntax at all. -/
theorem default_input_object_is_json :
    formatDefaultValue witnessSchema true (.obj [("a", .num 1)]) (.named "I") = some "{\"a\": 1}".toList
    ∧ readLit "{\"a\": 1}".toList = none
    ∧ litOf witnessSchema 64 (.named "I") (.obj [("a", .num 1)]) = some (.obj [(['a'], .int 1)]) := ⟨rfl, rfl, rfl⟩

/-- I1, string with a quote: default `a"b` reports `"a"b"` — unescaped, not a literal. -/
theorem default_string_unescaped :
    formatDefaultValue witnessSchema true (.str "a\"b") (.named "String") = some "\"a\"b\"".toList
    ∧ readLit "\"a\"b\"".toList = none
    ∧ litOf witnessSchema 64 (.named "String") (.str "a\"b") = some (.str ['a', '"', 'b']) := ⟨rfl, rfl, rfl⟩

/-- the full statement is FALSE on the translated code (witness: the enum default; the other three refute it as well) -/
theorem default_parses_refuted : ¬ DefaultParsesStatement := by
  intro h
  obtain ⟨text, h1, h2⟩ := h witnessSchema (.named "E") (.str "A") (.enum ['A']) rfl rfl
  have e := default_enum_printed_as_string.1
  rw [e] at h1
  injection h1 with h1
  subst h1
  rw [default_enum_printed_as_string.2.1] at h2
  injection h2 with h2
  cases h2

/-! ### the part that holds -/

/-- characters that may stand unescaped inside a quoted GraphQL string -/
def plainChar (c : Char) : Bool := c != '"' && c != '\\' && (c.toNat ≥ 32 || c.toNat == 9)

private theorem readString_plain (cs : Chars) (h : cs.all plainChar = true) (rest acc : Chars) :
    readString (cs ++ '"' :: rest) acc = some (acc.reverse ++ cs, rest) := by
  induction cs generalizing acc with
  | nil => simp [readString]
  | cons c cs ih =>
    simp only [List.all_cons, Bool.and_eq_true] at h
    obtain ⟨hc, hcs⟩ := h
    have h1 : c ≠ '"' := by intro e; subst e; simp [plainChar] at hc
    have h2 : c ≠ '\\' := by intro e; subst e; simp [plainChar] at hc
    have h3 : ¬ (c.toNat < 32 ∧ c.toNat ≠ 9) := by
      simp [plainChar] at hc; omega
    rw [List.cons_append, readString]
    · simp only [h2, ↓reduceIte]
      have : (c.toNat < 32 && c.toNat != 9) = false := by
        cases hh : (c.toNat < 32 && c.toNat != 9) with
        | false => rfl
        | true => simp at hh; exact absurd hh h3
      simp only [this, Bool.false_eq_true, ↓reduceIte]
      rw [ih hcs]
      simp
    all_goals (intros; simp_all)

/-- `default_parses_partial`: the statement holds for `null`, for booleans, and for strings made of characters
    that need no escape (no quote, no backslash, no control character other than TAB), at a scalar type.
    NOT covered (false or not proved): enums, input objects, strings that need escaping (all false, see above);
    integers and lists of the covered values (true on the model as far as the correspondence shows; the digit
    and separator lemmas for the reader are not proved here). -/
theorem default_parses_partial (s : SchemaD) (n : String) (td : TypeD) (dv : J) (l : Lit)
    (ht : s.findType n = some td) (hk : td.kind = .scalar)
    (hdv : dv = .null ∨ (∃ b, dv = .bool b) ∨ (∃ str : String, dv = .str str ∧ str.toList.all plainChar = true ∧ n = "String"))
    (hl : litOf s 64 (.named n) dv = some l) :
    ∃ text, formatDefaultValue s true dv (.named n) = some text ∧ readLit text = some l := by
  rcases hdv with h | ⟨b, h⟩ | ⟨str, h, hp, hn⟩
  · subst h
    simp [litOf] at hl; subst hl
    exact ⟨_, rfl, rfl⟩
  · subst h
    simp [litOf, ht, hk, scalarNode] at hl; subst hl
    cases b <;> exact ⟨_, rfl, rfl⟩
  · subst h; subst hn
    simp [litOf, ht, hk, scalarNode, specifiedScalars] at hl; subst hl
    refine ⟨'"' :: (str.toList ++ ['"']), by simp [formatDefaultValue, Prims.isBool, Prims.isNone, Prims.isStr, Prims.pyStr], ?_⟩
    simp only [readLit, List.length_cons, readVal, skipIgnored, isIgnored]
    simp [readString_plain str.toList hp [] [], skipIgnored]

/-- non-vacuity: the pinned default of `@deprecated(reason:)` satisfies the hypotheses -/
example : ("No longer supported".toList.all plainChar = true) ∧
    litOf witnessSchema 64 (.named "String") (.str "No longer supported") = some (.str "No longer supported".toList) := ⟨by decide, rfl⟩

end PyGql.Props.C15

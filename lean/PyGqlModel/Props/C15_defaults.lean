/-
  C15 — `default_parses`: each reported default value is GraphQL syntax that reads back to the literal form of
  the declared default.  Stated about `Generated.formatDefaultValue`, the statement-by-statement TRANSLATION of
  `_format_default_value` (with proposed_fixes/C15-I1-partial.patch: GraphQL printing through
  `print_ast(ast_node_from_value(..))` for everything but plain strings, which get `"`, `\`, LF, CR escaped via the
  extracted table `_STRING_ESCAPES`).

  * `default_parses_partial` — EVERY default kind round-trips: null, booleans, integers, floats (as their text),
    strings, enum values (names, also when the internal value differs), lists and nested lists, input objects —
    except a plain string default containing a control character other than TAB/LF/CR.
  * `default_parses_refuted` — that exception is real: the full statement is false (raw FORM FEED, the very text
    `test_introspection_on_input_object` pins); known finding I1 (residue).
  * `read_print` — the literal reader inverts the printer on every well-formed literal (digit, escape, separator
    and nesting lemmas).
-/
import PyGqlModel.Spec.Introspect

set_option linter.unusedSimpArgs false
set_option linter.unusedVariables false

namespace PyGql.Props.C15
open PyGql PyGql.Introspect PyGql.Generated.Introspection

/-! ### numbers -/
private theorem digit_facts : ∀ d, d < 10 → (digitChar d).isDigit = true ∧ (digitChar d).toNat - 48 = d ∧ isIgnored (digitChar d) = false
    ∧ digitChar d ≠ ']' ∧ digitChar d ≠ '}' := by decide

private theorem showNatAux_read : ∀ (f n : Nat) (acc : Chars), n ≤ f → ∃ k, ∀ a, readDigits (showNatAux (f+1) n acc) a = readDigits acc (a * 10 ^ k + n) := by
  intro f
  induction f with
  | zero =>
    intro n acc h
    have hn : n = 0 := by omega
    subst hn
    refine ⟨1, fun a => ?_⟩
    simp [showNatAux, readDigits, digit_facts 0 (by omega)]
  | succ f ih =>
    intro n acc h
    by_cases hlt : n < 10
    · refine ⟨1, fun a => ?_⟩
      have := digit_facts n hlt
      simp [showNatAux, hlt, readDigits, this.1, this.2.1]
    · obtain ⟨k, hk⟩ := ih (n / 10) (digitChar (n % 10) :: acc) (by omega)
      refine ⟨k + 1, fun a => ?_⟩
      have hd := digit_facts (n % 10) (by omega)
      rw [showNatAux]
      simp only [hlt, ↓reduceIte]
      rw [hk a]
      simp only [readDigits, hd.1, ↓reduceIte, hd.2.1]
      congr 1
      rw [Nat.pow_succ, ← Nat.mul_assoc]
      generalize a * 10 ^ k = x
      omega

private theorem showNatAux_acc : ∀ (f n : Nat) (acc : Chars), showNatAux f n acc = showNatAux f n [] ++ acc := by
  intro f
  induction f with
  | zero => intro n acc; simp [showNatAux]
  | succ f ih =>
    intro n acc
    by_cases hlt : n < 10
    · simp [showNatAux, hlt]
    · simp only [showNatAux, hlt, ↓reduceIte]
      rw [ih (n / 10) (digitChar (n % 10) :: acc), ih (n / 10) [digitChar (n % 10)]]
      simp

private theorem readDigits_showNat (n : Nat) (rest : Chars) : readDigits (showNat n ++ rest) 0 = readDigits rest n := by
  unfold showNat
  rw [← showNatAux_acc]
  obtain ⟨k, hk⟩ := showNatAux_read n n rest (Nat.le_refl _)
  rw [hk 0]; simp

private theorem digit_zero : ∀ d, d < 10 → digitChar d = '0' → d = 0 := by decide

/-- shape of a printed natural: a first digit, which is '0' only for 0 itself -/
private theorem showNatAux_head : ∀ (f n : Nat) (acc : Chars), n ≤ f →
    ∃ d cs, d < 10 ∧ showNatAux (f+1) n acc = digitChar d :: cs ∧ (d = 0 → n = 0 ∧ cs = acc) := by
  intro f
  induction f with
  | zero =>
    intro n acc h
    exact ⟨n, acc, by omega, by simp [showNatAux, show n < 10 by omega], fun e => ⟨e, rfl⟩⟩
  | succ f ih =>
    intro n acc h
    by_cases hlt : n < 10
    · exact ⟨n, acc, hlt, by simp [showNatAux, hlt], fun e => ⟨e, rfl⟩⟩
    · obtain ⟨d, cs, hd, e, hz⟩ := ih (n / 10) (digitChar (n % 10) :: acc) (by omega)
      refine ⟨d, cs, hd, by rw [showNatAux]; simp only [hlt, ↓reduceIte]; exact e, fun e0 => ?_⟩
      have := (hz e0).1
      omega

private theorem showNat_head (n : Nat) : ∃ d cs, d < 10 ∧ showNat n = digitChar d :: cs ∧ (d = 0 → cs = []) := by
  obtain ⟨d, cs, hd, e, hz⟩ := showNatAux_head n n [] (Nat.le_refl _)
  exact ⟨d, cs, hd, e, fun e0 => (hz e0).2⟩

/-- what may follow a value inside a literal: nothing, a comma, or a closing bracket / brace -/
def delim (rest : Chars) : Bool := match rest with | [] => true | c :: _ => c = ',' || c = ']' || c = '}'

private theorem delim_head (c : Char) (r : Chars) (h : delim (c :: r) = true) :
    c.isDigit = false ∧ c ≠ '.' ∧ c ≠ 'e' ∧ c ≠ 'E' ∧ isNameStart c = false ∧ isNameCont c = false ∧ isFloatCont c = false := by
  simp [delim] at h
  rcases h with (h | h) | h <;> subst h <;> decide

private theorem readDigits_delim (rest : Chars) (a : Nat) (h : delim rest = true) : readDigits rest a = (a, rest) := by
  cases rest with
  | nil => rfl
  | cons c r => simp [readDigits, (delim_head c r h).1]

theorem readNumber_int (neg : Bool) (n : Nat) (rest : Chars) (h : delim rest = true) :
    readNumber neg (showNat n ++ rest) = some (.int (if neg then - (n : Int) else (n : Int)), rest) := by
  obtain ⟨d, cs, hd, e, hz⟩ := showNat_head n
  have hr : readDigits (showNat n ++ rest) 0 = (n, rest) := by rw [readDigits_showNat, readDigits_delim rest n h]
  have hdig := digit_facts d hd
  unfold readNumber
  rw [hr]
  rw [e] at *
  simp only [List.cons_append, hdig.1, ↓reduceIte]
  by_cases h0 : digitChar d = '0'
  · have hcs := hz (digit_zero d hd h0)
    subst hcs
    cases rest with
    | nil => simp [h0]
    | cons c r =>
      have := delim_head c r h
      simp [h0, this.1, this.2.1, this.2.2.1, this.2.2.2.1, this.2.2.2.2.1]
  · cases rest with
    | nil => simp [h0]
    | cons c r =>
      have := delim_head c r h
      simp [h0, this.1, this.2.1, this.2.2.1, this.2.2.2.1, this.2.2.2.2.1]

/-! ### strings -/
private theorem hex_facts : ∀ n, n < 32 → hexVal (hexDigit (n / 4096 % 16)) = some 0 ∧ hexVal (hexDigit (n / 256 % 16)) = some 0
    ∧ hexVal (hexDigit (n / 16 % 16)) = some (n / 16) ∧ hexVal (hexDigit (n % 16)) = some (n % 16) := by decide

private theorem char_of_toNat (c : Char) (n : Nat) (h : c.toNat = n) : c = Char.ofNat n := by
  rw [← h, Char.ofNat_toNat]

private theorem readString_step (c : Char) (tl acc : Chars) :
    readString (jsonEscCharRaw c ++ tl) acc = readString tl (c :: acc) := by
  by_cases h1 : c = '"'
  · subst h1; simp [jsonEscCharRaw, readString]
  by_cases h2 : c = '\\'
  · subst h2; simp [jsonEscCharRaw, readString]
  by_cases h3 : c = '\n'
  · subst h3; simp [jsonEscCharRaw, readString]
  by_cases h4 : c = '\r'
  · subst h4; simp [jsonEscCharRaw, readString]
  by_cases h5 : c = '\t'
  · subst h5; simp [jsonEscCharRaw, readString]
  by_cases h6 : c.toNat = 8
  · have := char_of_toNat c 8 h6; subst this; simp [jsonEscCharRaw, readString]
  by_cases h7 : c.toNat = 12
  · have := char_of_toNat c 12 h7; subst this; simp [jsonEscCharRaw, readString]
  by_cases h8 : c.toNat < 32
  · have hf := hex_facts c.toNat h8
    simp only [jsonEscCharRaw, h1, h2, h3, h4, h5, h6, h7, h8, ↓reduceIte, hex4, List.cons_append, List.nil_append]
    rw [readString]
    · simp only [hf.1, hf.2.1, hf.2.2.1, hf.2.2.2]
      have : ((0 * 16 + 0) * 16 + c.toNat / 16) * 16 + c.toNat % 16 = c.toNat := by omega
      rw [this, Char.ofNat_toNat]
    all_goals (intros; simp_all)
  · simp only [jsonEscCharRaw, h1, h2, h3, h4, h5, h6, h7, h8, ↓reduceIte, List.cons_append, List.nil_append]
    rw [readString]
    · have : (c.toNat < 32 && c.toNat != 9) = false := by simp; omega
      simp [h2, this]
    all_goals (intros; simp_all)

theorem readString_print (s : Chars) (rest acc : Chars) :
    readString (s.flatMap jsonEscCharRaw ++ '"' :: rest) acc = some (acc.reverse ++ s, rest) := by
  induction s generalizing acc with
  | nil => simp [readString]
  | cons c cs ih =>
    rw [List.flatMap_cons, List.append_assoc, readString_step, ih]
    simp

/-- characters of a plain string default that the (repaired) formatter reports in readable form: everything
    except the control characters other than TAB, LF, CR (those stay raw — the pinned residue of I1) -/
def topCharOk (c : Char) : Bool := c.toNat ≥ 32 || c = '\t' || c = '\n' || c = '\r'

/-- one readable character of a plain string default: the reader consumes its reported form and goes on -/
theorem readString_top_step (c : Char) (tl acc : Chars) (h : topCharOk c = true) :
    readString ((table__STRING_ESCAPES.lookup c).getD [c] ++ tl) acc = readString tl (c :: acc) := by
  by_cases h1 : c = '"'
  · subst h1; simp [table__STRING_ESCAPES, List.lookup, readString]
  by_cases h2 : c = '\\'
  · subst h2; simp [table__STRING_ESCAPES, List.lookup, readString]
  by_cases h3 : c = '\n'
  · subst h3; simp [table__STRING_ESCAPES, List.lookup, readString]
  by_cases h4 : c = '\r'
  · subst h4; simp [table__STRING_ESCAPES, List.lookup, readString]
  have hl : table__STRING_ESCAPES.lookup c = none := by
    have e1 : (c == Char.ofNat 34) = false := by simpa using h1
    have e2 : (c == Char.ofNat 92) = false := by simpa using h2
    have e3 : (c == Char.ofNat 10) = false := by simpa using h3
    have e4 : (c == Char.ofNat 13) = false := by simpa using h4
    simp [table__STRING_ESCAPES, List.lookup, e1, e2, e3, e4]
  rw [hl]
  simp only [Option.getD_none, List.cons_append, List.nil_append]
  rw [readString]
  · have : (c.toNat < 32 && c.toNat != 9) = false := by
      simp [topCharOk, h3, h4] at h
      rcases h with h | h
      · simp; omega
      · subst h; decide
    simp [h2, this]
  all_goals (intros; simp_all)

theorem readString_top (s : Chars) (rest acc : Chars) (h : s.all topCharOk = true) :
    readString (Prims.escapeWith table__STRING_ESCAPES s ++ '"' :: rest) acc = some (acc.reverse ++ s, rest) := by
  induction s generalizing acc with
  | nil => simp [Prims.escapeWith, readString]
  | cons c cs ih =>
    simp only [List.all_cons, Bool.and_eq_true] at h
    have hs := readString_top_step c (Prims.escapeWith table__STRING_ESCAPES cs ++ '"' :: rest) acc h.1
    simp only [Prims.escapeWith, List.flatMap_cons, List.append_assoc] at hs ⊢
    rw [hs]
    have := ih (c :: acc) h.2
    simp only [Prims.escapeWith] at this
    rw [this]; simp

/-! ### names and floats -/
private theorem spanWhile_append (p : Char → Bool) (a rest : Chars) (ha : a.all p = true)
    (hr : ∀ c r, rest = c :: r → p c = false) : spanWhile p (a ++ rest) = (a, rest) := by
  induction a with
  | nil =>
    cases rest with
    | nil => rfl
    | cons c r => simp [spanWhile, hr c r rfl]
  | cons x xs ih =>
    simp only [List.all_cons, Bool.and_eq_true] at ha
    simp [spanWhile, ha.1, ih ha.2]

def floatBodyOk (body : Chars) : Bool :=
  body.all isFloatCont &&
  match body with
  | c :: tl => c.isDigit && !(c = '0' && (match tl with | d :: _ => d.isDigit | [] => false)) &&
      (match (readDigits body 0).2 with | d :: _ => d = '.' || d = 'e' || d = 'E' | [] => false)
  | [] => false

private theorem readDigits_append (body rest : Chars) : ∀ a, (readDigits body a).2 ≠ [] →
    readDigits (body ++ rest) a = ((readDigits body a).1, (readDigits body a).2 ++ rest) := by
  induction body with
  | nil => intro a h; simp [readDigits] at h
  | cons c cs ih =>
    intro a h
    by_cases hc : c.isDigit = true
    · simp only [readDigits, hc, ↓reduceIte, List.cons_append] at h ⊢
      exact ih _ h
    · simp [readDigits, hc]

theorem readNumber_float (neg : Bool) (body rest : Chars) (hb : floatBodyOk body = true) (h : delim rest = true) :
    readNumber neg (body ++ rest) = some (.float (if neg then '-' :: body else body), rest) := by
  cases body with
  | nil => simp [floatBodyOk] at hb
  | cons c tl =>
    simp only [floatBodyOk, Bool.and_eq_true, Bool.not_eq_true'] at hb
    obtain ⟨hall, ⟨hdig, hlead⟩, hmark⟩ := hb
    cases hrd : (readDigits (c :: tl) 0).2 with
    | nil => simp [hrd] at hmark
    | cons d r =>
      rw [hrd] at hmark
      have happ := readDigits_append (c :: tl) rest 0 (by rw [hrd]; simp)
      have hspan : spanWhile isFloatCont ((c :: tl) ++ rest) = (c :: tl, rest) := by
        apply spanWhile_append _ _ _ hall
        intro x xs e; subst e; exact (delim_head x xs h).2.2.2.2.2.2
      have htl : tl ≠ [] := by
        intro e; subst e
        simp [readDigits, hdig] at hrd
      unfold readNumber
      rw [happ, hrd]
      simp only [List.cons_append] at hspan ⊢
      simp only [hdig, ↓reduceIte, hspan]
      cases tl with
      | nil => exact absurd rfl htl
      | cons t ts =>
        simp only [List.cons_append]
        have hl : (decide (c = '0') && t.isDigit) = false := by simpa using hlead
        simp only [hl, Bool.false_eq_true, ↓reduceIte]
        simp [hmark]


/-! ### well-formed literals -/

def nameOk (nm : Chars) : Bool := match nm with | [] => false | c :: r => isNameStart c && r.all isNameCont
def enumNameOk (nm : Chars) : Bool :=
  nameOk nm && nm != ['t', 'r', 'u', 'e'] && nm != ['f', 'a', 'l', 's', 'e'] && nm != ['n', 'u', 'l', 'l']
/-- a float token as text: optional sign, digits (no superfluous leading zero), then a fraction / exponent -/
def floatTextOk (t : Chars) : Bool := match t with | '-' :: b => floatBodyOk b | b => floatBodyOk b

mutual
/-- literals the grammar can express: enum values and object keys are Names, float texts are float tokens -/
def wfLit : Lit → Bool
  | .float t => floatTextOk t
  | .enum n => enumNameOk n
  | .list xs => wfLits xs
  | .obj fs => wfFields fs
  | _ => true
def wfLits : List Lit → Bool
  | [] => true
  | x :: xs => wfLit x && wfLits xs
def wfFields : List (Chars × Lit) → Bool
  | [] => true
  | (k, v) :: fs => nameOk k && wfLit v && wfFields fs
end

mutual
def cost : Lit → Nat
  | .list xs => 1 + costs xs
  | .obj fs => 1 + costFields fs
  | _ => 1
def costs : List Lit → Nat
  | [] => 1
  | x :: xs => 1 + max (cost x) (costs xs)
def costFields : List (Chars × Lit) → Nat
  | [] => 1
  | (_, v) :: fs => 1 + max (cost v) (costFields fs)
end

private theorem alpha_range (c : Char) (h : c.isAlpha = true) : (65 ≤ c.toNat ∧ c.toNat ≤ 90) ∨ (97 ≤ c.toNat ∧ c.toNat ≤ 122) := by
  simp only [Char.isAlpha, Char.isUpper, Char.isLower, Bool.or_eq_true, Bool.and_eq_true, decide_eq_true_eq, UInt32.le_iff_toNat_le] at h
  simp only [Char.toNat]
  rcases h with h | h
  · left; exact ⟨h.1, h.2⟩
  · right; exact ⟨h.1, h.2⟩
private theorem digit_range (c : Char) : c.isDigit = (decide (48 ≤ c.toNat) && decide (c.toNat ≤ 57)) := by
  simp only [Char.isDigit, UInt32.le_iff_toNat_le, Char.toNat]
  rfl

private theorem nameStart_facts (c : Char) (h : isNameStart c = true) :
    isIgnored c = false ∧ c ≠ ']' ∧ c ≠ '}' ∧ c.isDigit = false ∧ c ≠ '"' ∧ c ≠ '[' ∧ c ≠ '{' ∧ c ≠ '-' ∧ isNameCont c = true := by
  have hb : (65 ≤ c.toNat ∧ c.toNat ≤ 90) ∨ (97 ≤ c.toNat ∧ c.toNat ≤ 122) ∨ c.toNat = 95 := by
    simp only [isNameStart, Bool.or_eq_true, decide_eq_true_eq] at h
    rcases h with h | h
    · rcases alpha_range c h with h | h
      · exact Or.inl h
      · exact Or.inr (Or.inl h)
    · right; right; subst h; decide
  have ne : ∀ x : Char, ¬ ((65 ≤ x.toNat ∧ x.toNat ≤ 90) ∨ (97 ≤ x.toNat ∧ x.toNat ≤ 122) ∨ x.toNat = 95) → c ≠ x := by
    intro x hx e; subst e; exact hx hb
  refine ⟨?_, ne _ (by decide), ne _ (by decide), ?_, ne _ (by decide), ne _ (by decide), ne _ (by decide), ne _ (by decide), ?_⟩
  · have h1 := ne ' ' (by decide); have h2 := ne ',' (by decide); have h3 := ne '\n' (by decide)
    have h4 := ne '\t' (by decide); have h5 := ne '\r' (by decide)
    have h6 : c.toNat ≠ 0xFEFF := by omega
    simp [isIgnored, h1, h2, h3, h4, h5, h6]
  · rw [digit_range]
    cases hd : (decide (48 ≤ c.toNat) && decide (c.toNat ≤ 57)) with
    | false => rfl
    | true => simp at hd; omega
  · simp only [isNameCont, isNameStart] at h ⊢
    simp [h]

/-- first character of a printed well-formed literal: starts a token, closes nothing -/
def headOk (cs : Chars) : Prop := ∃ c tl, cs = c :: tl ∧ isIgnored c = false ∧ c ≠ ']' ∧ c ≠ '}'

private theorem digit_headOk (d : Nat) (hd : d < 10) (tl : Chars) : headOk (digitChar d :: tl) :=
  ⟨_, tl, rfl, (digit_facts d hd).2.2.1, (digit_facts d hd).2.2.2.1, (digit_facts d hd).2.2.2.2⟩

private theorem floatBody_head (b : Chars) (h : floatBodyOk b = true) : ∃ c tl, b = c :: tl ∧ c.isDigit = true := by
  cases b with
  | nil => simp [floatBodyOk] at h
  | cons c tl =>
    simp only [floatBodyOk, Bool.and_eq_true] at h
    exact ⟨c, tl, rfl, h.2.1.1⟩

private theorem isDigit_headOk (c : Char) (tl : Chars) (h : c.isDigit = true) : headOk (c :: tl) := by
  rw [digit_range] at h
  simp at h
  have ne : ∀ x : Char, ¬ (48 ≤ x.toNat ∧ x.toNat ≤ 57) → c ≠ x := by intro x hx e; subst e; exact hx h
  refine ⟨c, tl, rfl, ?_, ne _ (by decide), ne _ (by decide)⟩
  have h1 := ne ' ' (by decide); have h2 := ne ',' (by decide); have h3 := ne '\n' (by decide)
  have h4 := ne '\t' (by decide); have h5 := ne '\r' (by decide)
  have h6 : c.toNat ≠ 0xFEFF := by omega
  simp [isIgnored, h1, h2, h3, h4, h5, h6]

private theorem printLit_head (l : Lit) (h : wfLit l = true) : headOk (printLit l) := by
  cases l with
  | null => exact ⟨'n', _, rfl, by decide, by decide, by decide⟩
  | bool b => cases b <;> exact ⟨_, _, rfl, by decide, by decide, by decide⟩
  | int n =>
    cases n with
    | ofNat n =>
      obtain ⟨d, cs, hd, e, _⟩ := showNat_head n
      simp only [printLit, showInt, e]
      exact digit_headOk d hd cs
    | negSucc n => exact ⟨'-', _, rfl, by decide, by decide, by decide⟩
  | float t =>
    simp only [wfLit] at h
    simp only [printLit]
    unfold floatTextOk at h
    split at h
    · exact ⟨'-', _, rfl, by decide, by decide, by decide⟩
    · obtain ⟨c, tl, e, hc⟩ := floatBody_head _ h
      rw [e]; exact isDigit_headOk c tl hc
  | str s => exact ⟨'"', _, rfl, by decide, by decide, by decide⟩
  | enum nm =>
    simp only [wfLit, enumNameOk, nameOk, Bool.and_eq_true] at h
    cases nm with
    | nil => simp at h
    | cons c r =>
      have hns : isNameStart c = true := by
        have := h.1.1.1
        simp only [Bool.and_eq_true] at this
        exact this.1
      have := nameStart_facts c hns
      exact ⟨c, r, rfl, this.1, this.2.1, this.2.2.1⟩
  | list xs => exact ⟨'[', _, rfl, by decide, by decide, by decide⟩
  | obj fs => exact ⟨'{', _, rfl, by decide, by decide, by decide⟩

private theorem skipIgnored_headOk (cs rest : Chars) (h : headOk cs) : skipIgnored (cs ++ rest) = cs ++ rest := by
  obtain ⟨c, tl, e, hi, _, _⟩ := h
  subst e
  simp [skipIgnored, hi]

def classifyName (nm : Chars) : Lit :=
  if nm = ['t', 'r', 'u', 'e'] then .bool true
  else if nm = ['f', 'a', 'l', 's', 'e'] then .bool false
  else if nm = ['n', 'u', 'l', 'l'] then .null
  else .enum nm

private theorem readVal_name (nm rest : Chars) (hn : nameOk nm = true) (hd : delim rest = true) (fuel : Nat) :
    readVal (fuel + 1) (nm ++ rest) = some (classifyName nm, rest) := by
  cases nm with
  | nil => simp [nameOk] at hn
  | cons c r =>
    simp only [nameOk, Bool.and_eq_true] at hn
    have f := nameStart_facts c hn.1
    have hall : (c :: r).all isNameCont = true := by simp [f.2.2.2.2.2.2.2.2, hn.2]
    have hspan := spanWhile_append isNameCont (c :: r) rest hall
      (fun x xs e => by subst e; exact (delim_head x xs hd).2.2.2.2.2.1)
    simp only [List.cons_append] at hspan
    rw [readVal]
    simp only [List.cons_append, skipIgnored, f.1, Bool.false_eq_true, ↓reduceIte]
    split
    · rename_i heq; cases heq
    · rename_i heq; injection heq with h1 _; exact absurd h1 f.2.2.2.2.1
    · rename_i heq; injection heq with h1 _; exact absurd h1 f.2.2.2.2.2.1
    · rename_i heq; injection heq with h1 _; exact absurd h1 f.2.2.2.2.2.2.1
    · rename_i heq; injection heq with h1 _; exact absurd h1 f.2.2.2.2.2.2.2.1
    · rename_i c' r' _ _ _ _ heq
      injection heq with h1 h2
      subst h1; subst h2
      simp only [f.2.2.2.1, Bool.false_eq_true, ↓reduceIte, hn.1, hspan, classifyName]
      repeat' split
      all_goals simp_all

private theorem isDigit_not_open (c : Char) (h : c.isDigit = true) : c ≠ '"' ∧ c ≠ '[' ∧ c ≠ '{' ∧ c ≠ '-' := by
  rw [digit_range] at h
  simp at h
  have ne : ∀ x : Char, ¬ (48 ≤ x.toNat ∧ x.toNat ≤ 57) → c ≠ x := by intro x hx e; subst e; exact hx h
  exact ⟨ne _ (by decide), ne _ (by decide), ne _ (by decide), ne _ (by decide)⟩

private theorem readVal_digit (c : Char) (tl : Chars) (h : c.isDigit = true) (fuel : Nat) :
    readVal (fuel + 1) (c :: tl) = readNumber false (c :: tl) := by
  obtain ⟨_, _, e, hi, _, _⟩ := isDigit_headOk c tl h
  injection e with e1 e2; subst e1; subst e2
  have f := isDigit_not_open c h
  rw [readVal]
  simp only [skipIgnored, hi, Bool.false_eq_true, ↓reduceIte]
  split
  · rename_i heq; cases heq
  · rename_i heq; injection heq with h1 _; exact absurd h1 f.1
  · rename_i heq; injection heq with h1 _; exact absurd h1 f.2.1
  · rename_i heq; injection heq with h1 _; exact absurd h1 f.2.2.1
  · rename_i heq; injection heq with h1 _; exact absurd h1 f.2.2.2
  · rename_i c' r' _ _ _ _ heq
    injection heq with h1 h2
    subst h1; subst h2
    simp [h]

private theorem readVal_minus (r : Chars) (fuel : Nat) : readVal (fuel + 1) ('-' :: r) = readNumber true r := by
  simp [readVal, skipIgnored, isIgnored]

private theorem readVal_space (cs : Chars) (fuel : Nat) : readVal fuel (' ' :: cs) = readVal fuel cs := by
  cases fuel with
  | zero => simp [readVal]
  | succ f => rw [readVal, readVal]; simp [skipIgnored, isIgnored]

private theorem readItems_sep (cs : Chars) (fuel : Nat) : readItems fuel (',' :: ' ' :: cs) = readItems fuel cs := by
  cases fuel with
  | zero => simp [readItems]
  | succ f => rw [readItems, readItems]; simp [skipIgnored, isIgnored]

private theorem readFields_sep (cs : Chars) (fuel : Nat) : readFields fuel (',' :: ' ' :: cs) = readFields fuel cs := by
  cases fuel with
  | zero => simp [readFields]
  | succ f => rw [readFields, readFields]; simp [skipIgnored, isIgnored]

/-- one `key: value` entry of an object literal -/
private theorem readFields_step (k : Chars) (v : Lit) (f : Nat) (tail : Chars) (res : List (Chars × Lit) × Chars)
    (hk : nameOk k = true) (hv : readVal f (printLit v ++ tail) = some (v, tail)) (ht : readFields f tail = some res) :
    readFields (f + 1) (k ++ [':', ' '] ++ printLit v ++ tail) = some ((k, v) :: res.1, res.2) := by
  cases k with
  | nil => simp [nameOk] at hk
  | cons c r =>
    simp only [nameOk, Bool.and_eq_true] at hk
    have fc := nameStart_facts c hk.1
    have hall : (c :: r).all isNameCont = true := by simp [fc.2.2.2.2.2.2.2.2, hk.2]
    have hspan := spanWhile_append isNameCont (c :: r) (':' :: ' ' :: (printLit v ++ tail)) hall
      (fun x xs e => by injection e with e1 _; subst e1; decide)
    simp only [List.cons_append, List.append_assoc, List.nil_append] at hspan ⊢
    rw [readFields]
    simp only [skipIgnored, fc.1, Bool.false_eq_true, ↓reduceIte]
    split
    · rename_i heq; injection heq with h1 _; exact absurd h1 fc.2.2.1
    · rename_i c' r' heq
      injection heq with h1 h2
      subst h1; subst h2
      simp only [hk.1, ↓reduceIte, hspan]
      simp [skipIgnored, isIgnored, readVal_space, hv, ht]
    · rename_i heq; cases heq

private theorem fuel_succ (fuel k : Nat) (h : k + 1 ≤ fuel) : ∃ f, fuel = f + 1 ∧ k ≤ f := ⟨fuel - 1, by omega, by omega⟩

mutual
private theorem readVal_print : (l : Lit) → wfLit l = true → ∀ (fuel : Nat) (rest : Chars), cost l ≤ fuel → delim rest = true →
    readVal fuel (printLit l ++ rest) = some (l, rest)
  | .null, _, fuel, rest, hc, hd => by
    obtain ⟨f, rfl, _⟩ := fuel_succ fuel 0 (by simpa [cost] using hc)
    exact readVal_name ['n', 'u', 'l', 'l'] rest (by decide) hd f
  | .bool true, _, fuel, rest, hc, hd => by
    obtain ⟨f, rfl, _⟩ := fuel_succ fuel 0 (by simpa [cost] using hc)
    exact readVal_name ['t', 'r', 'u', 'e'] rest (by decide) hd f
  | .bool false, _, fuel, rest, hc, hd => by
    obtain ⟨f, rfl, _⟩ := fuel_succ fuel 0 (by simpa [cost] using hc)
    exact readVal_name ['f', 'a', 'l', 's', 'e'] rest (by decide) hd f
  | .int (.ofNat n), _, fuel, rest, hc, hd => by
    obtain ⟨f, rfl, _⟩ := fuel_succ fuel 0 (by simpa [cost] using hc)
    obtain ⟨d, cs, hd10, e, _⟩ := showNat_head n
    have hr := readNumber_int false n rest hd
    simp only [printLit, showInt]
    rw [e] at hr ⊢
    rw [List.cons_append, readVal_digit _ _ (digit_facts d hd10).1 f]
    simpa using hr
  | .int (.negSucc n), _, fuel, rest, hc, hd => by
    obtain ⟨f, rfl, _⟩ := fuel_succ fuel 0 (by simpa [cost] using hc)
    simp only [printLit, showInt, List.cons_append]
    rw [readVal_minus, readNumber_int true (n + 1) rest hd]
    simp [Int.negSucc_eq]
  | .float t, h, fuel, rest, hc, hd => by
    obtain ⟨f, rfl, _⟩ := fuel_succ fuel 0 (by simpa [cost] using hc)
    simp only [wfLit] at h
    simp only [printLit]
    unfold floatTextOk at h
    split at h
    · rename_i b
      rw [List.cons_append, readVal_minus, readNumber_float true b rest h hd]; simp
    · obtain ⟨c, tl, e, hcd⟩ := floatBody_head _ h
      subst e
      rw [List.cons_append, readVal_digit _ _ hcd f]
      have := readNumber_float false (c :: tl) rest h hd
      simpa using this
  | .str s, _, fuel, rest, hc, hd => by
    obtain ⟨f, rfl, _⟩ := fuel_succ fuel 0 (by simpa [cost] using hc)
    simp only [printLit, jsonStringRaw, List.cons_append, List.append_assoc]
    rw [readVal]
    simp [skipIgnored, isIgnored, readString_print]
  | .enum nm, h, fuel, rest, hc, hd => by
    obtain ⟨f, rfl, _⟩ := fuel_succ fuel 0 (by simpa [cost] using hc)
    simp only [wfLit, enumNameOk, Bool.and_eq_true, bne_iff_ne, ne_eq] at h
    have := readVal_name nm rest h.1.1.1 hd f
    simp only [printLit]
    rw [this]
    simp [classifyName, h.1.1.2, h.1.2, h.2]
  | .list xs, h, fuel, rest, hc, hd => by
    obtain ⟨f, rfl, hf⟩ := fuel_succ fuel (costs xs) (by simp only [cost] at hc; omega)
    simp only [wfLit] at h
    have ih := readItems_print xs h f rest hf
    simp only [printLit, List.cons_append, List.append_assoc]
    rw [readVal]
    simp [skipIgnored, isIgnored, ih]
  | .obj fs, h, fuel, rest, hc, hd => by
    obtain ⟨f, rfl, hf⟩ := fuel_succ fuel (costFields fs) (by simp only [cost] at hc; omega)
    simp only [wfLit] at h
    have ih := readFields_print fs h f rest hf
    simp only [printLit, List.cons_append, List.append_assoc]
    rw [readVal]
    simp [skipIgnored, isIgnored, ih]

private theorem readItems_print : (xs : List Lit) → wfLits xs = true → ∀ (fuel : Nat) (rest : Chars), costs xs ≤ fuel →
    readItems fuel (printLits xs ++ ']' :: rest) = some (xs, rest)
  | [], _, fuel, rest, hc => by
    obtain ⟨f, rfl, _⟩ := fuel_succ fuel 0 (by simpa [costs] using hc)
    simp [printLits, readItems, skipIgnored, isIgnored]
  | [x], h, fuel, rest, hc => by
    obtain ⟨f, rfl, hf⟩ := fuel_succ fuel (max (cost x) (costs [])) (by simp only [costs] at hc ⊢; omega)
    simp only [wfLits, Bool.and_eq_true] at h
    have hx := readVal_print x h.1 f (']' :: rest) (by omega) (by simp [delim])
    have hnil := readItems_print [] (by simp [wfLits]) f rest (by omega)
    obtain ⟨c, tl, e, hi, hb, _⟩ := printLit_head x h.1
    simp only [printLits, List.nil_append] at hnil ⊢
    rw [readItems, skipIgnored_headOk _ _ ⟨c, tl, e, hi, hb, ‹_›⟩]
    rw [e] at hx ⊢
    simp only [List.cons_append] at hx ⊢
    split
    · rename_i heq; injection heq with h1 _; exact absurd h1 hb
    · simp [hx, hnil]
  | x :: y :: ys, h, fuel, rest, hc => by
    obtain ⟨f, rfl, hf⟩ := fuel_succ fuel (max (cost x) (costs (y :: ys))) (by simp only [costs] at hc ⊢; omega)
    simp only [wfLits, Bool.and_eq_true] at h
    have hx := readVal_print x h.1 f (',' :: ' ' :: (printLits (y :: ys) ++ ']' :: rest)) (by omega) (by simp [delim])
    have htl := readItems_print (y :: ys) (by simp [wfLits, h.2]) f rest (by omega)
    obtain ⟨c, tl, e, hi, hb, _⟩ := printLit_head x h.1
    simp only [printLits, List.append_assoc, List.cons_append, List.nil_append] at hx ⊢
    rw [readItems, skipIgnored_headOk _ _ ⟨c, tl, e, hi, hb, ‹_›⟩]
    rw [e] at hx ⊢
    simp only [List.cons_append] at hx ⊢
    split
    · rename_i heq; injection heq with h1 _; exact absurd h1 hb
    · simp [hx, readItems_sep, htl]

private theorem readFields_print : (fs : List (Chars × Lit)) → wfFields fs = true → ∀ (fuel : Nat) (rest : Chars), costFields fs ≤ fuel →
    readFields fuel (printLitFields fs ++ '}' :: rest) = some (fs, rest)
  | [], _, fuel, rest, hc => by
    obtain ⟨f, rfl, _⟩ := fuel_succ fuel 0 (by simpa [costFields] using hc)
    simp [printLitFields, readFields, skipIgnored, isIgnored]
  | [(k, v)], h, fuel, rest, hc => by
    obtain ⟨f, rfl, hf⟩ := fuel_succ fuel (max (cost v) (costFields [])) (by simp only [costFields] at hc ⊢; omega)
    simp only [wfFields, Bool.and_eq_true] at h
    have hv := readVal_print v h.1.2 f ('}' :: rest) (by omega) (by simp [delim])
    have hnil := readFields_print [] (by simp [wfFields]) f rest (by omega)
    simp only [printLitFields, List.nil_append] at hnil
    exact readFields_step k v f _ _ h.1.1 hv (by rw [hnil])
  | (k, v) :: kv :: kvs, h, fuel, rest, hc => by
    obtain ⟨f, rfl, hf⟩ := fuel_succ fuel (max (cost v) (costFields (kv :: kvs))) (by simp only [costFields] at hc ⊢; omega)
    have h : (nameOk k = true ∧ wfLit v = true) ∧ wfFields (kv :: kvs) = true := by
      rw [wfFields] at h; simpa [Bool.and_eq_true] using h
    have hv := readVal_print v h.1.2 f (',' :: ' ' :: (printLitFields (kv :: kvs) ++ '}' :: rest)) (by omega) (by simp [delim])
    have htl := readFields_print (kv :: kvs) h.2 f rest (by omega)
    have := readFields_step k v f (',' :: ' ' :: (printLitFields (kv :: kvs) ++ '}' :: rest)) (kv :: kvs, rest) h.1.1 hv
      (by rw [readFields_sep, htl])
    simpa [printLitFields, List.append_assoc] using this
end

mutual
private theorem cost_le : (l : Lit) → cost l ≤ (printLit l).length + 1
  | .null => by simp [cost]
  | .bool _ => by simp [cost]
  | .int _ => by simp [cost]
  | .float _ => by simp [cost]
  | .str _ => by simp [cost]
  | .enum _ => by simp [cost]
  | .list xs => by
    have := costs_le xs
    simp only [cost, printLit, List.length_cons, List.length_append, List.length_nil]; omega
  | .obj fs => by
    have := costFields_le fs
    simp only [cost, printLit, List.length_cons, List.length_append, List.length_nil]; omega
private theorem costs_le : (xs : List Lit) → costs xs ≤ (printLits xs).length + 2
  | [] => by simp [costs]
  | [x] => by
    have := cost_le x
    simp only [costs, printLits]; omega
  | x :: y :: ys => by
    have h1 := cost_le x
    have h2 := costs_le (y :: ys)
    simp only [costs, printLits, List.length_append, List.length_cons, List.length_nil] at h2 ⊢; omega
private theorem costFields_le : (fs : List (Chars × Lit)) → costFields fs ≤ (printLitFields fs).length + 2
  | [] => by simp [costFields]
  | [(k, v)] => by
    have := cost_le v
    simp only [costFields, printLitFields, List.length_append, List.length_cons, List.length_nil]; omega
  | (k, v) :: kv :: kvs => by
    have h1 := cost_le v
    have h2 := costFields_le (kv :: kvs)
    simp only [costFields, printLitFields, List.length_append, List.length_cons, List.length_nil] at h2 ⊢; omega
end

/-- `read_print`: the literal reader inverts the printer (`print_ast` on value nodes) on every well-formed literal —
    integers of any size and sign, float texts, strings with any characters (escapes `\" \\ \n \r \t \b \f \u00XX`),
    names, lists and objects nested to any depth with `, ` separators. -/
theorem read_print (l : Lit) (h : wfLit l = true) : readLit (printLit l) = some l := by
  have := readVal_print l h ((printLit l).length + 1) [] (cost_le l) rfl
  simp only [List.append_nil] at this
  simp [readLit, this, skipIgnored]

/-! ### `default_parses` -/

/-- FULL statement: whenever the declared default `dv` of an input value of type `ty` has a well-formed literal form
    `l` (`ast_node_from_value`, what the SDL printer prints), the reported `defaultValue` text reads back to `l`.
    Literal level: a plain string default is compared where its literal form is a string (an `ID` / custom-scalar
    default that looks like an integer has an Int literal form but is reported quoted — the same value after coercion). -/
def DefaultParsesStatement : Prop :=
  ∀ (s : SchemaD) (ty : Ty) (dv : J) (l : Lit), litOfStrict s 64 ty dv = some l → wfLit l = true →
    (∀ x, dv = .str x → Prims.baseIsOneOf ty ["String", "ID"] = true → l = .str x.toList) →
    ∃ text, formatDefaultValue s true dv ty = some text ∧ readLit text = some l

def witnessSchema : SchemaD :=
  { types := [ { kind := .scalar, name := "Int" }, { kind := .scalar, name := "String" },
               { kind := .enum, name := "E", values := [{ name := "A", value := .str "A" }, { name := "B", value := .num 1 }] },
               { kind := .input, name := "I", inputFields := [{ name := "a", type := .named "Int" }, { name := "e", type := .list (.named "E") }] },
               { kind := .object, name := "Query", fields := [{ name := "f", type := .named "Int" }] } ] }

/-- I1 (residue): a string default containing FORM FEED is reported raw between the quotes — not a literal.
    (`test_introspection_on_input_object` pins exactly this text shape.) -/
theorem default_string_control_raw :
    formatDefaultValue witnessSchema true (.str (String.ofList [Char.ofNat 12])) (.named "String") = some ['"', Char.ofNat 12, '"']
    ∧ readLit ['"', Char.ofNat 12, '"'] = none
    ∧ litOfStrict witnessSchema 64 (.named "String") (.str (String.ofList [Char.ofNat 12])) = some (.str [Char.ofNat 12]) := ⟨rfl, rfl, rfl⟩

/-- the full statement is FALSE (also with the partial repair): witness above -/
theorem default_parses_refuted : ¬ DefaultParsesStatement := by
  intro h
  obtain ⟨text, h1, h2⟩ := h witnessSchema (.named "String") (.str (String.ofList [Char.ofNat 12])) (.str [Char.ofNat 12])
    default_string_control_raw.2.2 rfl (by intro x hx _; injection hx with hx; subst hx; rfl)
  rw [default_string_control_raw.1] at h1
  injection h1 with h1
  subst h1
  rw [default_string_control_raw.2.1] at h2
  cases h2

private theorem litOf_null (s : SchemaD) (ns : Bool) : ∀ (fuel : Nat) (ty : Ty) (l : Lit), litOfG s ns fuel ty .null = some l → l = .null := by
  intro fuel
  induction fuel with
  | zero => intro ty l h; simp [litOfG] at h
  | succ f ih =>
    intro ty l h
    cases ty with
    | nonNull t =>
      rw [litOfG] at h
      cases hr : litOfG s ns f t .null with
      | none => simp [hr] at h
      | some l' =>
        have := ih t l' hr
        subst this
        simp [hr] at h
    | named n => simp [litOfG] at h; exact h.symm
    | list t => simp [litOfG] at h; exact h.symm

/-- `default_parses_partial` — which defaults round-trip: ALL of them (null, booleans, integers, floats as text,
    enum values by NAME whatever the internal value, strings inside lists / objects with full escaping, lists and
    nested lists, input objects) except a plain (top-level, non-enum) string default containing a control character
    other than TAB, LF, CR, which is the hypothesis `hs` (and the refutation above). -/
theorem default_parses_partial (s : SchemaD) (ty : Ty) (dv : J) (l : Lit)
    (hl : litOfStrict s 64 ty dv = some l) (hwf : wfLit l = true)
    (hs : ∀ x, dv = .str x → Prims.baseIsOneOf ty ["String", "ID"] = true → l = .str x.toList ∧ x.toList.all topCharOk = true) :
    ∃ text, formatDefaultValue s true dv ty = some text ∧ readLit text = some l := by
  by_cases hnone : Prims.isNone dv = true
  · have : dv = .null := by cases dv <;> simp_all [Prims.isNone]
    subst this
    have := litOf_null s false 64 ty l hl
    subst this
    exact ⟨['n', 'u', 'l', 'l'], by simp [formatDefaultValue, Prims.isNone], rfl⟩
  by_cases hstr : (Prims.isStr dv && Prims.baseIsOneOf ty ["String", "ID"]) = true
  · simp only [Bool.and_eq_true, Bool.not_eq_true'] at hstr
    obtain ⟨x, hx⟩ : ∃ x, dv = .str x := by cases dv <;> simp_all [Prims.isStr]
    subst hx
    obtain ⟨hlx, hok⟩ := hs x rfl hstr.2
    subst hlx
    refine ⟨'"' :: (Prims.escapeWith table__STRING_ESCAPES x.toList ++ ['"']), ?_, ?_⟩
    · simp [formatDefaultValue, Prims.isNone, Prims.isStr, hstr.2, Prims.pyStr]
    · have := readString_top x.toList [] [] hok
      simp only [readLit, List.length_cons, readVal, skipIgnored, isIgnored]
      simp [this, skipIgnored]
  · refine ⟨printLit l, ?_, read_print l hwf⟩
    have hn : Prims.isNone dv = false := by simpa using hnone
    have hs' : (Prims.isStr dv && Prims.baseIsOneOf ty ["String", "ID"]) = false := by simpa using hstr
    simp only [formatDefaultValue, Bool.not_true, Bool.false_eq_true, ↓reduceIte, hn, hs', Prims.printAstOfValueStrict, hl, Option.map_some]

/-- I11: in the literal form introspection reports, a string of a CUSTOM scalar is a string literal whatever it
    spells (`"7"`, `"1.5"`, `"nan"`): the number/string distinction of the declared value survives at every depth
    (the SDL printer's form `litOf` prints `"7"` as `7`: pinned for text-keeping scalars). -/
theorem strict_string_stays_string (s : SchemaD) (n : String) (td : TypeD) (x : String)
    (ht : s.findType n = some td) (hk : td.kind = .scalar) (hn : specifiedScalars.contains n = false) :
    litOfStrict s 64 (.named n) (.str x) = some (.str x.toList) := by
  have hid : (n == "ID") = false := by
    cases h : (n == "ID") with
    | false => rfl
    | true => simp at h; subst h; simp [specifiedScalars] at hn
  simp [litOfStrict, litOfG, ht, hk, hn, customNode, scalarNode, hid]

/-- the same declared list `["7", 7]` of a custom scalar: reported form vs SDL-printer form -/
example : let s : SchemaD := { types := [{ kind := .scalar, name := "Any" }] }
    litOfStrict s 64 (.list (.named "Any")) (.arr [.str "7", .num 7]) = some (.list [.str ['7'], .float ['7']])
    ∧ litOf s 64 (.list (.named "Any")) (.arr [.str "7", .num 7]) = some (.list [.int 7, .float ['7']]) := ⟨rfl, rfl⟩

/-- non-vacuity: a nested default `{a: -7, e: [B, A]}` (enum `B` has internal value 1) satisfies every hypothesis;
    so do an enum default given by internal value and a nested list -/
example : litOfStrict witnessSchema 64 (.named "I") (.obj [("a", .num (-7)), ("e", .arr [.num 1, .str "A"])])
      = some (.obj [(['a'], .int (-7)), (['e'], .list [.enum ['B'], .enum ['A']])])
    ∧ wfLit (.obj [(['a'], .int (-7)), (['e'], .list [.enum ['B'], .enum ['A']])]) = true
    ∧ formatDefaultValue witnessSchema true (.obj [("a", .num (-7)), ("e", .arr [.num 1, .str "A"])]) (.named "I")
      = some "{a: -7, e: [B, A]}".toList := ⟨rfl, by decide, rfl⟩

example : litOfStrict witnessSchema 64 (.list (.list (.named "Int"))) (.arr [.arr [.num 1, .num 20], .arr [], .null])
      = some (.list [.list [.int 1, .int 20], .list [], .null])
    ∧ formatDefaultValue witnessSchema true (.arr [.arr [.num 1, .num 20], .arr [], .null]) (.list (.list (.named "Int")))
      = some "[[1, 20], [], null]".toList := ⟨rfl, rfl⟩

example : floatTextOk "-2.25".toList = true ∧ floatTextOk "1e+20".toList = true ∧ floatTextOk "3".toList = false
    ∧ topCharOk '\t' = true ∧ topCharOk (Char.ofNat 12) = false := by decide
end PyGql.Props.C15

/-
  C16 — instrumentation and middlewares see every field exactly once, properly nested.
  Theorems about the model `PyGqlModel/Instr.lean` (tied to /repo by harness/corr/C16.py).
-/
import PyGqlModel.Instr

set_option linter.unusedSimpArgs false
set_option linter.unusedVariables false

namespace PyGql.Props.C16
open PyGql.Instr

/-! ## middlewares -/

/-- `apply_middlewares`: one call of the wrapped resolver enters every middleware exactly once,
    the LAST middleware of the list first (outermost), then runs the wrapped function once, then
    leaves the middlewares in list order — for every function and every list. -/
theorem middleware_once_in_order (func : Callable) (mws : List Nat) (p : Path) :
    applyMiddlewares func mws p
      = mws.reverse.map (fun i => Ev.mwEnter i p) ++ func p ++ mws.map (fun i => Ev.mwExit i p) := by
  unfold applyMiddlewares
  induction mws generalizing func with
  | nil => simp
  | cons m ms ih =>
    rw [List.foldl_cons, ih]
    simp [middleware, List.append_assoc]

example : applyMiddlewares (resolverBody .returns) [0, 1, 2] [.key "a"]
    = [.mwEnter 2 [.key "a"], .mwEnter 1 [.key "a"], .mwEnter 0 [.key "a"], .call [.key "a"], .ret [.key "a"],
       .mwExit 0 [.key "a"], .mwExit 1 [.key "a"], .mwExit 2 [.key "a"]] := by decide

/-! ## MultiInstrumentation -/

/-- the members of `l` that override the method `h` goes to, as recorded events -/
def recordedBy (l : List (Nat × List Nat)) (h : Hook) : List REv :=
  (l.filter (fun x => sees x.2 h)).map (fun x => REv.hook x.1 h)

private theorem recordedBy_append (a b : List (Nat × List Nat)) (h : Hook) :
    recordedBy (a ++ b) h = recordedBy a h ++ recordedBy b h := by
  simp [recordedBy, List.filter_append]

private theorem recordedBy_reverse_append (a b : List (Nat × List Nat)) (h : Hook) :
    recordedBy (a ++ b).reverse h = recordedBy b.reverse h ++ recordedBy a.reverse h := by
  simp [recordedBy, List.filter_append]

mutual
private theorem emit_eq : ∀ (t : Instr) (h : Hook),
    t.emit h = recordedBy (if h.isStart then t.leaves else t.leaves.reverse) h
  | .leaf i m, h => by
    cases hs : sees m h <;> simp [Instr.emit, Instr.leaves, recordedBy, hs]
  | .multi cs, h => by
    cases hs : h.isStart
    · simp [Instr.emit, Instr.leaves, hs, emitAllRev_eq cs h hs]
    · simp [Instr.emit, Instr.leaves, hs, emitAll_eq cs h hs]
private theorem emitAll_eq : ∀ (cs : List Instr) (h : Hook), h.isStart = true →
    emitAll cs h = recordedBy (leavesAll cs) h
  | [], h, _ => by simp [emitAll, leavesAll, recordedBy]
  | c :: cs, h, hs => by simp [emitAll, leavesAll, emit_eq c h, emitAll_eq cs h hs, hs, recordedBy_append]
private theorem emitAllRev_eq : ∀ (cs : List Instr) (h : Hook), h.isStart = false →
    emitAllRev cs h = recordedBy (leavesAll cs).reverse h
  | [], h, _ => by simp [emitAllRev, leavesAll, recordedBy]
  | c :: cs, h, hs => by
    simp [emitAllRev, leavesAll, emit_eq c h, emitAllRev_eq cs h hs, hs, recordedBy_append]
end

/-- Combined instrumentations, nested to any depth, members overriding ANY subset of the ten
    methods: a start hook reaches, in order, exactly the recording members that override it; an
    end hook reaches, in exactly the reverse order, exactly the members that override it — each
    once, independently of which OTHER methods a member overrides. -/
theorem multi_order (t : Instr) (h : Hook) :
    t.emit h = recordedBy (if h.isStart then t.leaves else t.leaves.reverse) h :=
  emit_eq t h

example : (Instr.multi [.leaf 0 allKinds, .multi [.leaf 1 [9], .leaf 2 allKinds]]).emit (.field [] false)
    = [.hook 2 (.field [] false), .hook 1 (.field [] false), .hook 0 (.field [] false)] := by decide
/-- an end-only member is skipped by the start hook and reached by the end hook -/
example : (Instr.multi [.leaf 0 allKinds, .leaf 1 [9]]).emit (.field [] true) = [.hook 0 (.field [] true)] := by decide

/-- what the recording instrumentation `i` saw -/
def seenBy (i : Nat) : List REv → List Hook
  | [] => []
  | .hook j h :: es => if j = i then h :: seenBy i es else seenBy i es
  | .other _ :: es => seenBy i es

/-- the hooks of a single-instrumentation trace -/
def hooksOf : List Ev → List Hook
  | [] => []
  | .hook h :: es => h :: hooksOf es
  | _ :: es => hooksOf es

private theorem seenBy_append (i : Nat) (a b : List REv) : seenBy i (a ++ b) = seenBy i a ++ seenBy i b := by
  induction a with
  | nil => rfl
  | cons e es ih =>
    cases e with
    | hook j h => by_cases hj : j = i <;> simp [seenBy, hj, ih]
    | other e => simp [seenBy, ih]

private theorem seenBy_absent (i : Nat) (h : Hook) : ∀ (l : List (Nat × List Nat)), (l.map (·.1)).count i = 0 →
    seenBy i (recordedBy l h) = []
  | [], _ => rfl
  | (j, mj) :: l, hc => by
    have hj : j ≠ i := by intro e; subst e; simp at hc
    have hc' : (l.map (·.1)).count i = 0 := by
      have : (j == i) = false := by simp [hj]
      simpa [List.count_cons, this] using hc
    have ih := seenBy_absent i h l hc'
    simp only [recordedBy] at ih ⊢
    cases hs : sees mj h <;> simp [List.filter_cons, hs, seenBy, hj, ih]

private theorem seenBy_member (i : Nat) (m : List Nat) (h : Hook) : ∀ (l : List (Nat × List Nat)),
    (l.map (·.1)).count i = 1 → (i, m) ∈ l →
    seenBy i (recordedBy l h) = if sees m h then [h] else []
  | [], hc, _ => by simp at hc
  | (j, mj) :: l, hc, hm => by
    by_cases hj : j = i
    · subst hj
      have hc' : (l.map (·.1)).count j = 0 := by simpa [List.count_cons] using hc
      have hnot : (j, m) ∉ l := by
        intro hin
        have : j ∈ l.map (·.1) := List.mem_map_of_mem (f := (·.1)) hin
        exact (List.count_eq_zero.1 hc') this
      have hmj : mj = m := by
        rcases List.mem_cons.1 hm with e | e
        · exact (Prod.mk.inj e).2.symm
        · exact absurd e hnot
      subst hmj
      have ih := seenBy_absent j h l hc'
      simp only [recordedBy] at ih ⊢
      cases hs : sees mj h <;> simp [List.filter_cons, hs, seenBy, ih]
    · have hc' : (l.map (·.1)).count i = 1 := by
        have : (j == i) = false := by simp [hj]
        simpa [List.count_cons, this] using hc
      have hm' : (i, m) ∈ l := by
        rcases List.mem_cons.1 hm with e | e
        · exact absurd (Prod.mk.inj e).1.symm hj
        · exact e
      have ih := seenBy_member i m h l hc' hm'
      simp only [recordedBy] at ih ⊢
      cases hs : sees mj h <;> simp [List.filter_cons, hs, seenBy, hj, ih]

/-- **multi_member_sees_all** — every recording instrumentation that occurs once in a stack,
    whatever subset `m` of the methods it overrides and whatever the other members override,
    sees exactly the hook sequence it would see if it were passed directly: the hooks of the
    single-instrumentation trace that go to a method it overrides, in the same order. Stacking
    neither drops, duplicates nor reorders the hooks of one member. (So `stages_nested` and
    `field_hooks_once` hold per member.) -/
theorem multi_member_sees_all (t : Instr) (i : Nat) (m : List Nat)
    (hi : (t.leaves.map (·.1)).count i = 1) (hm : (i, m) ∈ t.leaves) (tr : List Ev) :
    seenBy i (expand t tr) = (hooksOf tr).filter (sees m) := by
  induction tr with
  | nil => rfl
  | cons e es ih =>
    cases e with
    | hook h =>
      simp only [expand, hooksOf, seenBy_append, ih, multi_order]
      have key : seenBy i (recordedBy (if h.isStart then t.leaves else t.leaves.reverse) h)
          = if sees m h then [h] else [] := by
        cases h.isStart
        · exact seenBy_member i m h _ (by simp only [Bool.false_eq_true, if_false, List.map_reverse, List.count_reverse]; exact hi) (by simpa using hm)
        · exact seenBy_member i m h _ hi hm
      rw [key]
      cases hs : sees m h <;> simp [List.filter_cons, hs]
    | _ => simp [expand, hooksOf, seenBy, ih]

/-- passed directly (no `MultiInstrumentation`), the same instance sees the same hooks -/
theorem direct_sees (i : Nat) (m : List Nat) (tr : List Ev) :
    seenBy i (expand (.leaf i m) tr) = (hooksOf tr).filter (sees m) :=
  multi_member_sees_all (.leaf i m) i m (by simp [Instr.leaves]) (by simp [Instr.leaves]) tr

example : ((Instr.multi [.leaf 0 allKinds, .multi [.leaf 1 [9], .leaf 2 [0, 8]]]).leaves.map (·.1)).count 1 = 1 := by decide

/-! ## fields: the sequential executors -/

/-- a resolved field: response path and resolver outcome -/
structure Resolved where
  path : Path
  o : OutKind
  deriving DecidableEq, Repr

mutual
/-- the fields that get resolved, in document (pre-)order -/
def nodesOfNode (path : Path) : Node → List Resolved
  | .mk key _ o c =>
    ⟨path ++ [.key key], o⟩ :: (match o with
      | .returns => nodesOfComp (path ++ [.key key]) c
      | _ => [])
def nodesOfComp (p : Path) : Comp → List Resolved
  | .leaf => []
  | .null => []
  | .obj fs => nodesOfFields p fs
  | .list items => nodesOfItems p 0 items
def nodesOfFields (p : Path) : List Node → List Resolved
  | [] => []
  | n :: ns => nodesOfNode p n ++ nodesOfFields p ns
def nodesOfItems (p : Path) (i : Nat) : List Comp → List Resolved
  | [] => []
  | c :: cs => nodesOfComp (p ++ [.idx i]) c ++ nodesOfItems p (i + 1) cs
end

/-- THE event block of one resolved field: start hook with its path; unless argument coercion
    failed, every middleware entered once (last one outermost), the resolver invoked once and
    returning or raising, the middlewares left; end hook with its path. -/
def chunk (cfg : Cfg) (n : Resolved) : List Ev :=
  [Ev.hook (.field n.path true)] ++
  (if n.o = .argError then []
   else cfg.mws.reverse.map (fun i => Ev.mwEnter i n.path)
        ++ [Ev.call n.path, if n.o = .raises then Ev.raise n.path else Ev.ret n.path]
        ++ cfg.mws.map (fun i => Ev.mwExit i n.path)) ++
  [Ev.hook (.field n.path false)]

private theorem resolveField_eq (cfg : Cfg) (path : Path) (key : String) (d : Bool) (o : OutKind) (c : Comp) :
    blockingResolveField cfg path (.mk key d o c)
      = chunk cfg ⟨path ++ [.key key], o⟩ ++
        (match o with | .returns => blockingComplete cfg (path ++ [.key key]) c | _ => []) := by
  cases o <;>
    simp [blockingResolveField, chunk, fieldStart, fieldEnd, fieldResolver, middleware_once_in_order, resolverBody,
      List.append_assoc]

mutual
private theorem bField (cfg : Cfg) : ∀ (path : Path) (n : Node),
    blockingResolveField cfg path n = (nodesOfNode path n).flatMap (chunk cfg)
  | path, .mk key d o c => by
    rw [resolveField_eq]
    cases o with
    | returns => simp [nodesOfNode, bComp cfg (path ++ [.key key]) c]
    | _ => simp [nodesOfNode]
private theorem bComp (cfg : Cfg) : ∀ (p : Path) (c : Comp),
    blockingComplete cfg p c = (nodesOfComp p c).flatMap (chunk cfg)
  | p, .leaf => by simp [blockingComplete, nodesOfComp]
  | p, .null => by simp [blockingComplete, nodesOfComp]
  | p, .obj fs => by simp [blockingComplete, nodesOfComp, bFields cfg p fs]
  | p, .list items => by simp [blockingComplete, nodesOfComp, bItems cfg p 0 items]
private theorem bFields (cfg : Cfg) : ∀ (p : Path) (fs : List Node),
    blockingFields cfg p fs = (nodesOfFields p fs).flatMap (chunk cfg)
  | p, [] => by simp [blockingFields, nodesOfFields]
  | p, n :: ns => by simp [blockingFields, nodesOfFields, bField cfg p n, bFields cfg p ns]
private theorem bItems (cfg : Cfg) : ∀ (p : Path) (i : Nat) (cs : List Comp),
    blockingItems cfg p i cs = (nodesOfItems p i cs).flatMap (chunk cfg)
  | p, i, [] => by simp [blockingItems, nodesOfItems]
  | p, i, c :: cs => by simp [blockingItems, nodesOfItems, bComp cfg (p ++ [.idx i]) c, bItems cfg p (i + 1) cs]
end

/-- `BlockingExecutor`: the trace of the execution stage is the concatenation, in document
    order, of one `chunk` per resolved field — i.e. for every resolved field exactly one start
    and one end hook with its path, start before the resolver is invoked, end after it returned
    or raised, and every middleware exactly once around the call in the documented nesting. -/
theorem field_hooks_once_blocking (cfg : Cfg) (fs : List Node) :
    blockingFields cfg [] fs = (nodesOfFields [] fs).flatMap (chunk cfg) := bFields cfg [] fs


/-! ## fields: the general executor, every runtime, every completion order -/

/-- what an outstanding task still has to emit if everything after it ran sequentially -/
def taskSeq (cfg : Cfg) (t : Task) : List Ev :=
  resolverBody t.o t.path ++ fieldEnd t.path ++
  (match t.o with | .returns => blockingComplete cfg t.path t.c | _ => [])

private theorem count_mw (func : Callable) (mws : List Nat) (p : Path) (e : Ev) :
    List.count e (applyMiddlewares func mws p)
      = List.count e (mws.reverse.map (fun i => Ev.mwEnter i p)) + List.count e (func p)
        + List.count e (mws.map (fun i => Ev.mwExit i p)) := by
  rw [middleware_once_in_order]; simp only [List.count_append]

mutual
private theorem aField (cfg : Cfg) (e : Ev) : ∀ (path : Path) (n : Node),
    List.count e (startField cfg path n).1 + List.count e ((startField cfg path n).2.flatMap (taskSeq cfg))
      = List.count e (blockingResolveField cfg path n)
    ∧ poolSize (startField cfg path n).2 ≤ sizeNode n
  | path, .mk key d o c => by
    cases o with
    | argError => simp [startField, blockingResolveField, poolSize]
    | raises =>
      cases d <;>
        simp [startField, blockingResolveField, poolSize, taskSeq, fieldResolver, count_mw, submitOnly,
          List.count_append, Task.size, sizeNode] <;> omega
    | returns =>
      have ih := aComp cfg e (path ++ [.key key]) c
      cases d
      · simp only [startField, blockingResolveField, Bool.false_eq_true, if_false, List.count_append, sizeNode]
        omega
      · simp [startField, blockingResolveField, poolSize, taskSeq, fieldResolver, count_mw, submitOnly,
          List.count_append, Task.size, sizeNode]
        omega
private theorem aComp (cfg : Cfg) (e : Ev) : ∀ (p : Path) (c : Comp),
    List.count e (startComplete cfg p c).1 + List.count e ((startComplete cfg p c).2.flatMap (taskSeq cfg))
      = List.count e (blockingComplete cfg p c)
    ∧ poolSize (startComplete cfg p c).2 ≤ sizeComp c
  | p, .leaf => by simp [startComplete, blockingComplete, poolSize]
  | p, .null => by simp [startComplete, blockingComplete, poolSize]
  | p, .obj fs => by simpa [startComplete, blockingComplete, sizeComp] using aFields cfg e p fs
  | p, .list items => by simpa [startComplete, blockingComplete, sizeComp] using aItems cfg e p 0 items
private theorem aFields (cfg : Cfg) (e : Ev) : ∀ (p : Path) (fs : List Node),
    List.count e (startFields cfg p fs).1 + List.count e ((startFields cfg p fs).2.flatMap (taskSeq cfg))
      = List.count e (blockingFields cfg p fs)
    ∧ poolSize (startFields cfg p fs).2 ≤ sizeNodes fs
  | p, [] => by simp [startFields, blockingFields, poolSize]
  | p, n :: ns => by
    have h1 := aField cfg e p n
    have h2 := aFields cfg e p ns
    simp only [poolSize] at h1 h2
    simp only [startFields, blockingFields, List.count_append, List.flatMap_append, poolSize, List.map_append,
      List.sum_append, sizeNodes]
    omega
private theorem aItems (cfg : Cfg) (e : Ev) : ∀ (p : Path) (i : Nat) (cs : List Comp),
    List.count e (startItems cfg p i cs).1 + List.count e ((startItems cfg p i cs).2.flatMap (taskSeq cfg))
      = List.count e (blockingItems cfg p i cs)
    ∧ poolSize (startItems cfg p i cs).2 ≤ sizeItems cs
  | p, i, [] => by simp [startItems, blockingItems, poolSize]
  | p, i, c :: cs => by
    have h1 := aComp cfg e (p ++ [.idx i]) c
    have h2 := aItems cfg e p (i + 1) cs
    simp only [poolSize] at h1 h2
    simp only [startItems, blockingItems, List.count_append, List.flatMap_append, poolSize, List.map_append,
      List.sum_append, sizeItems]
    omega
end


private theorem sum_eraseIdx {α} (g : α → Nat) : ∀ (l : List α) (i : Nat) (h : i < l.length),
    (l.map g).sum = g l[i] + ((l.eraseIdx i).map g).sum
  | a :: l, 0, _ => by simp
  | a :: l, i + 1, h => by
    have := sum_eraseIdx g l i (by simpa using h)
    simp [List.eraseIdx, this]; omega

private theorem runTask_count (cfg : Cfg) (e : Ev) (t : Task) :
    List.count e (runTask cfg t).1 + List.count e ((runTask cfg t).2.flatMap (taskSeq cfg))
      = List.count e (taskSeq cfg t)
    ∧ poolSize (runTask cfg t).2 + 1 ≤ t.size := by
  cases t with
  | mk p o c =>
    cases o with
    | returns =>
      have := aComp cfg e p c
      simp only [runTask, taskSeq, List.count_append, Task.size]
      omega
    | _ => simp [runTask, taskSeq, poolSize, Task.size]

private theorem drain_count (cfg : Cfg) (e : Ev) : ∀ (fuel : Nat) (pool : List Task) (sched : List Nat),
    poolSize pool ≤ fuel →
    List.count e (drain cfg fuel pool sched).1 = List.count e (pool.flatMap (taskSeq cfg))
  | 0, pool, sched, h => by
    cases pool with
    | nil => simp [drain]
    | cons t ts => simp [poolSize, Task.size] at h
  | fuel + 1, [], sched, _ => by simp [drain]
  | fuel + 1, t0 :: rest, sched, h => by
    have hi : sched.headD 0 % (t0 :: rest).length < (t0 :: rest).length := Nat.mod_lt _ (by simp)
    simp only [drain]
    generalize sched.headD 0 % (t0 :: rest).length = i at hi ⊢
    have hget : (t0 :: rest).getD i t0 = (t0 :: rest)[i] := by
      simp [List.getD, List.getElem?_eq_getElem hi]
    rw [hget]
    have hr := runTask_count cfg e (t0 :: rest)[i]
    have hs := sum_eraseIdx Task.size (t0 :: rest) i hi
    have hc := sum_eraseIdx (List.count e ∘ taskSeq cfg) (t0 :: rest) i hi
    have ih := drain_count cfg e fuel ((t0 :: rest).eraseIdx i ++ (runTask cfg (t0 :: rest)[i]).2) sched.tail (by
      simp only [poolSize, List.map_append, List.sum_append] at h hr ⊢
      omega)
    rw [List.count_flatMap, hc, List.count_append, ih, List.flatMap_append, List.count_append, List.count_flatMap]
    simp only [Function.comp] at hr ⊢
    omega


private theorem execParallel_count (cfg : Cfg) (e : Ev) (fs : List Node) (sched : List Nat) :
    List.count e (execParallel cfg fs sched) = List.count e (blockingFields cfg [] fs) := by
  have h := aFields cfg e [] fs
  simp only [execParallel, List.count_append, drain_count cfg e _ _ sched h.2]
  exact h.1

private theorem execSerial_count (cfg : Cfg) (e : Ev) : ∀ (fs : List Node) (sched : List Nat),
    List.count e (execSerial cfg fs sched) = List.count e (blockingFields cfg [] fs)
  | [], sched => by simp [execSerial, blockingFields]
  | n :: ns, sched => by
    have h := aField cfg e [] n
    simp only [execSerial, blockingFields, List.count_append, drain_count cfg e _ _ sched h.2,
      execSerial_count cfg e ns]
    omega

/-- **Every executor, every runtime, every completion order**: the events of the execution
    stage are, up to the order in which deferred resolvers complete, exactly one `chunk` per
    resolved field. Hence for every resolved field: exactly one start hook and one end hook
    with its path, exactly one resolver invocation, exactly one entry and exit of every
    configured middleware — never more, never fewer, whatever the schedule. -/
theorem field_hooks_once (cfg : Cfg) (r : Request) :
    (execBody cfg r).Perm ((nodesOfFields [] r.fields).flatMap (chunk cfg)) := by
  rw [← field_hooks_once_blocking, List.perm_iff_count]
  intro e
  unfold execBody
  split
  · rfl
  · split
    · exact execSerial_count cfg e _ _
    · exact execParallel_count cfg e _ _

/-- with resolvers that the runtime does not defer, `Executor` and `BlockingExecutor` produce
    the same number of every event for every field tree (used below with `deferred` arbitrary) -/
theorem executor_count_eq_blocking (cfg : Cfg) (r : Request) (e : Ev) :
    List.count e (execBody cfg r) = List.count e (blockingFields cfg [] r.fields) := by
  rw [field_hooks_once_blocking]; exact (field_hooks_once cfg r).count_eq e

/-- non-vacuity: a tree with a deferred object field, a failing deferred leaf and a list;
    LIFO completion really reorders the trace, the multiset of events is unchanged -/
private def demoFields : List Node :=
  [.mk "a" true .returns (.obj [.mk "x" true .returns .leaf, .mk "y" false .raises .null]),
   .mk "b" true .raises .null,
   .mk "c" false .returns (.list [.obj [.mk "z" true .returns .leaf], .null])]
private def demoReq (sched : List Nat) : Request :=
  { docIsText := true, syntaxError := false, valid := true, opselOk := true, varsOk := true, subscriptionOp := false, rootCollectFails := false, serial := false,
    blockingExecutor := false, fields := demoFields, sched := sched }
example : execBody ⟨[0]⟩ (demoReq [2, 1, 0]) ≠ execBody ⟨[0]⟩ (demoReq [0, 0, 0]) := by decide
example : (nodesOfFields [] demoFields).length = 6 := by decide

/-! ## stages -/

def stageOf : Ev → Option (Stage × Bool)
  | .hook (.stage s b) => some (s, b)
  | _ => none

/-- the stage hooks of a trace, in order (`(s, true)` = `on_s_start`) -/
def stageEvents (tr : List Ev) : List (Stage × Bool) := tr.filterMap stageOf

/-- stack discipline: every end closes the innermost open stage, nothing stays open -/
def bracket : List Stage → List (Stage × Bool) → Bool
  | stack, [] => stack.isEmpty
  | stack, (s, true) :: es => bracket (s :: stack) es
  | [], (_, false) :: _ => false
  | top :: stack, (s, false) :: es => decide (s = top) && bracket stack es

private theorem chunk_no_stage (cfg : Cfg) (n : Resolved) : ∀ e ∈ chunk cfg n, stageOf e = none := by
  intro e he
  simp only [chunk, List.mem_append, List.mem_cons, List.mem_map, List.not_mem_nil, or_false] at he
  rcases he with (rfl | he) | rfl
  · rfl
  · split at he
    · simp at he
    · simp only [List.mem_append, List.mem_map, List.mem_cons, List.not_mem_nil, or_false] at he
      rcases he with (⟨i, _, rfl⟩ | rfl | rfl) | ⟨i, _, rfl⟩ <;> first | rfl | (split <;> rfl)
  · rfl

/-- the executor run contains no stage hook (whatever the tree and the schedule) -/
theorem body_has_no_stage_event (cfg : Cfg) (r : Request) : stageEvents (execBody cfg r) = [] := by
  rw [stageEvents, List.filterMap_eq_nil_iff]
  intro e he
  rw [(field_hooks_once cfg r).mem_iff, List.mem_flatMap] at he
  obtain ⟨n, _, hn⟩ := he
  exact chunk_no_stage cfg n e hn

/-- the stage hooks of a request, as a function of the stage outcomes only -/
def stageShape (r : Request) : List (Stage × Bool) :=
  [(.query, true)] ++
  (if r.docIsText && r.syntaxError then [(.parsing, true), (.parsing, false)]
   else (if r.docIsText then [(.parsing, true), (.parsing, false)] else []) ++
        [(.validation, true), (.validation, false)] ++
        (if r.valid && r.opselOk && r.varsOk && !r.subscriptionOp then [(.execution, true), (.execution, false)] else [])) ++
  [(.query, false)]

theorem stage_events_eq (cfg : Cfg) (r : Request) : stageEvents (pipeline false cfg r) = stageShape r := by
  have hb := body_has_no_stage_event cfg r
  obtain ⟨docIsText, syntaxError, valid, opselOk, varsOk, subOp, rcf, serial, blocking, fields, sched⟩ := r
  simp only [stageEvents] at hb
  cases docIsText <;> cases syntaxError <;> cases valid <;> cases opselOk <;> cases varsOk <;> cases subOp <;> cases rcf <;>
    simp [pipeline, execute, stageShape, stageEvents, stageStart, stageEnd, List.filterMap_append, hb, stageOf]

/-- **stages_nested** — for every request, every outcome of every stage, every executor,
    runtime and completion order (with the proposed fix of N1 applied): the query, parsing,
    validation and execution hooks are well bracketed (an end hook only ever closes the innermost
    open stage, and every started stage is ended — also when the stage reported errors), each
    hook fires at most once, and everything lies inside `on_query_start … on_query_end`.
    SCOPE (audit round 2): stated for `pipeline false` - since fix N1 that IS /repo's pipeline (`stages_not_nested_before_fix_N1` is the pre-fix one); over `stageEvents` only: that field / middleware / resolver events lie between `execution+` and `execution-` holds by construction of `Instr.execute` and is NOT a theorem - on the real code it is what the oracle checks (`field-hook-outside-execution-stage`), with the known exceptions N4 (thread pool, sibling in flight at abort) and N7. `OutKind` has no unexpected-exception and no request-abort outcome: processing that RAISES leaves stages open on the real code (known finding N3). -/
theorem stages_nested (cfg : Cfg) (r : Request) :
    bracket [] (stageEvents (pipeline false cfg r)) = true
    ∧ (stageEvents (pipeline false cfg r)).Nodup
    ∧ (stageEvents (pipeline false cfg r)).head? = some (.query, true)
    ∧ (stageEvents (pipeline false cfg r)).getLast? = some (.query, false) := by
  rw [stage_events_eq]
  obtain ⟨docIsText, syntaxError, valid, opselOk, varsOk, subOp, rcf, serial, blocking, fields, sched⟩ := r
  cases docIsText <;> cases syntaxError <;> cases valid <;> cases opselOk <;> cases varsOk <;> cases subOp <;> cases rcf <;>
    simp [stageShape, bracket]

/-- the stage hooks of a stage that reported errors are still paired: syntax error, validation
    errors, operation / variable errors (execution never starts) -/
example : stageShape { docIsText := true, syntaxError := true, valid := true, opselOk := true, varsOk := true, subscriptionOp := false, rootCollectFails := false,
                       serial := false, blockingExecutor := true, fields := [], sched := [] }
    = [(.query, true), (.parsing, true), (.parsing, false), (.query, false)] := by decide

private def emptyRootReq (rcf serial blocking : Bool) : Request :=
  { docIsText := false, syntaxError := false, valid := true, opselOk := true, varsOk := true,
    subscriptionOp := false, rootCollectFails := rcf, serial := serial, blockingExecutor := blocking,
    fields := [], sched := [] }

/-- a root selection set that collects to NOTHING (every field excluded by `@skip` / `@include`), and one whose
    directive condition cannot be evaluated: the execution stage is started AND ended, inside the query stage -/
example : stageEvents (pipeline false ⟨[0]⟩ (emptyRootReq false false false))
    = [(.query, true), (.validation, true), (.validation, false), (.execution, true), (.execution, false), (.query, false)] := by decide
example : stageEvents (pipeline false ⟨[0]⟩ (emptyRootReq true true true))
    = [(.query, true), (.validation, true), (.validation, false), (.execution, true), (.execution, false), (.query, false)] := by decide

/-- Defect N1, machine-checked on the model of the UNFIXED `_graphql.py` (`return _abort(...)`
    inside `except`, before the `finally`): on a syntax error the trace is
    `query+ parsing+ query- parsing-`, which is not well bracketed. -/
theorem stages_not_nested_before_fix_N1 :
    ∃ (cfg : Cfg) (r : Request), bracket [] (stageEvents (pipeline true cfg r)) = false :=
  ⟨⟨[]⟩, { docIsText := true, syntaxError := true, valid := true, opselOk := true, varsOk := true, subscriptionOp := false, rootCollectFails := false,
           serial := false, blockingExecutor := true, fields := [], sched := [] }, by decide⟩


/-! ## order of the events of one field -/

/-- the events of a field in the order the statement requires: start hook, middlewares entered
    (last one first), resolver invoked, resolver returned / raised, end hook -/
def order (cfg : Cfg) (n : Resolved) : List Ev :=
  [Ev.hook (.field n.path true)] ++
  (if n.o = .argError then []
   else cfg.mws.reverse.map (fun i => Ev.mwEnter i n.path)
        ++ [Ev.call n.path, if n.o = .raises then Ev.raise n.path else Ev.ret n.path]) ++
  [Ev.hook (.field n.path false)]

mutual
/-- no resolver of the tree is deferred by the runtime -/
def syncNode : Node → Bool
  | .mk _ d _ c => !d && syncComp c
def syncComp : Comp → Bool
  | .leaf => true
  | .null => true
  | .obj fs => syncNodes fs
  | .list items => syncItems items
def syncNodes : List Node → Bool
  | [] => true
  | n :: ns => syncNode n && syncNodes ns
def syncItems : List Comp → Bool
  | [] => true
  | c :: cs => syncComp c && syncItems cs
end

mutual
private theorem sField (cfg : Cfg) : ∀ (path : Path) (n : Node), syncNode n = true →
    startField cfg path n = (blockingResolveField cfg path n, [])
  | path, .mk key d o c, h => by
    simp only [syncNode, Bool.and_eq_true, Bool.not_eq_true'] at h
    obtain ⟨hd, hc⟩ := h
    subst hd
    cases o with
    | returns => simp [startField, blockingResolveField, sComp cfg (path ++ [.key key]) c hc]
    | _ => simp [startField, blockingResolveField]
private theorem sComp (cfg : Cfg) : ∀ (p : Path) (c : Comp), syncComp c = true →
    startComplete cfg p c = (blockingComplete cfg p c, [])
  | p, .leaf, _ => by simp [startComplete, blockingComplete]
  | p, .null, _ => by simp [startComplete, blockingComplete]
  | p, .obj fs, h => by simpa [startComplete, blockingComplete] using sFields cfg p fs (by simpa [syncComp] using h)
  | p, .list items, h => by
    simpa [startComplete, blockingComplete] using sItems cfg p 0 items (by simpa [syncComp] using h)
private theorem sFields (cfg : Cfg) : ∀ (p : Path) (fs : List Node), syncNodes fs = true →
    startFields cfg p fs = (blockingFields cfg p fs, [])
  | p, [], _ => by simp [startFields, blockingFields]
  | p, n :: ns, h => by
    simp only [syncNodes, Bool.and_eq_true] at h
    simp [startFields, blockingFields, sField cfg p n h.1, sFields cfg p ns h.2]
private theorem sItems (cfg : Cfg) : ∀ (p : Path) (i : Nat) (cs : List Comp), syncItems cs = true →
    startItems cfg p i cs = (blockingItems cfg p i cs, [])
  | p, i, [], _ => by simp [startItems, blockingItems]
  | p, i, c :: cs, h => by
    simp only [syncItems, Bool.and_eq_true] at h
    simp [startItems, blockingItems, sComp cfg (p ++ [.idx i]) c h.1, sItems cfg p (i + 1) cs h.2]
end

private theorem drain_nil (cfg : Cfg) (fuel : Nat) (sched : List Nat) : drain cfg fuel [] sched = ([], sched) := by
  cases fuel <;> simp [drain]

private theorem execSerial_sync (cfg : Cfg) : ∀ (fs : List Node) (sched : List Nat), syncNodes fs = true →
    execSerial cfg fs sched = blockingFields cfg [] fs
  | [], sched, _ => by simp [execSerial, blockingFields]
  | n :: ns, sched, h => by
    simp only [syncNodes, Bool.and_eq_true] at h
    simp [execSerial, blockingFields, sField cfg [] n h.1, drain_nil, execSerial_sync cfg ns sched h.2]

/-- when the runtime defers no resolver (`BlockingRuntime`, or only synchronous resolvers on
    asyncio), `Executor` produces exactly the trace of `BlockingExecutor`, event for event -/
theorem executor_eq_blocking_when_not_deferred (cfg : Cfg) (r : Request) (h : syncNodes r.fields = true) :
    execBody cfg r = blockingFields cfg [] r.fields := by
  unfold execBody
  split
  · rfl
  · split
    · exact execSerial_sync cfg _ _ h
    · simp [execParallel, sFields cfg [] r.fields h, drain_nil]

/-- ordering statement for ARBITRARY completion orders (proved below: `field_hooks_ordered`):
    the events of every resolved field occur in the required order as a subsequence of the
    trace, whatever the schedule. -/
def FieldOrderAllSchedules : Prop :=
  ∀ (cfg : Cfg) (r : Request) (n : Resolved), n ∈ nodesOfFields [] r.fields → (order cfg n).Sublist (execBody cfg r)

/-- the full statement on an instance with three deferred fields, for ALL 27 schedules of length 3 -/
example : ∀ a ∈ [0, 1, 2], ∀ b ∈ [0, 1, 2], ∀ c ∈ [0, 1, 2], ∀ n ∈ nodesOfFields [] demoFields,
    (order ⟨[0]⟩ n).Sublist (execBody ⟨[0]⟩ (demoReq [a, b, c])) := by decide

/-- **field order, sequential configurations** (stronger than `field_hooks_ordered` there):
    `BlockingExecutor`, and `Executor` whenever no resolver is deferred: the block of every
    resolved field occurs CONTIGUOUSLY in the trace: start hook, middlewares in (last one
    outermost), resolver invoked, returned / raised, middlewares out, end hook — nothing of
    another field in between. -/
theorem field_hooks_contiguous_sequential (cfg : Cfg) (r : Request)
    (h : r.blockingExecutor = true ∨ syncNodes r.fields = true)
    (n : Resolved) (hn : n ∈ nodesOfFields [] r.fields) :
    chunk cfg n <:+: execBody cfg r := by
  have : execBody cfg r = blockingFields cfg [] r.fields := by
    rcases h with h | h
    · simp [execBody, h]
    · exact executor_eq_blocking_when_not_deferred cfg r h
  rw [this, field_hooks_once_blocking, List.flatMap_def]
  exact List.infix_of_mem_flatten (List.mem_map_of_mem hn)


/-! ## order of the events of one field, every completion order -/

def taskNode (t : Task) : Resolved := ⟨t.path, t.o⟩
/-- the fields below an outstanding task (resolved once it completes) -/
def taskDesc (t : Task) : List Resolved :=
  match t.o with
  | .returns => nodesOfComp t.path t.c
  | _ => []

/-- what the start phase of a field emits for it: start hook, middlewares entered -/
def pre (cfg : Cfg) (n : Resolved) : List Ev :=
  [Ev.hook (.field n.path true)] ++ cfg.mws.reverse.map (fun i => Ev.mwEnter i n.path)
/-- what the completion of a field emits for it: invoked, returned / raised, end hook -/
def post (n : Resolved) : List Ev :=
  [Ev.call n.path, if n.o = .raises then Ev.raise n.path else Ev.ret n.path, Ev.hook (.field n.path false)]

private theorem order_eq (cfg : Cfg) (n : Resolved) (h : n.o ≠ .argError) : order cfg n = pre cfg n ++ post n := by
  simp [order, pre, post, h]

/-- state of a field after a start phase: fully done in `evs`, or started in `evs` and
    waiting as a task, or not started yet below a waiting task -/
def Covered (cfg : Cfg) (evs : List Ev) (ts : List Task) (n : Resolved) : Prop :=
  (order cfg n).Sublist evs
  ∨ (∃ t ∈ ts, (taskNode t) = n ∧ n.o ≠ .argError ∧ (pre cfg n).Sublist evs)
  ∨ (∃ t ∈ ts, n ∈ (taskDesc t))

private theorem Covered.mono {cfg : Cfg} {evs evs' : List Ev} {ts ts' : List Task} {n : Resolved}
    (h : Covered cfg evs ts n) (he : evs.Sublist evs') (ht : ∀ t ∈ ts, t ∈ ts') : Covered cfg evs' ts' n := by
  rcases h with h | ⟨t, ht1, h1, h2, h3⟩ | ⟨t, ht1, h1⟩
  · exact Or.inl (h.trans he)
  · exact Or.inr (Or.inl ⟨t, ht t ht1, h1, h2, h3.trans he⟩)
  · exact Or.inr (Or.inr ⟨t, ht t ht1, h1⟩)

private theorem order_sub_sync (cfg : Cfg) (p : Path) (o : OutKind) (h : o ≠ .argError) (rest : List Ev) :
    (order cfg ⟨p, o⟩).Sublist (fieldStart p ++ fieldResolver cfg false o p ++ fieldEnd p ++ rest) := by
  simp only [order, h, if_false, fieldStart, fieldResolver, middleware_once_in_order, resolverBody, fieldEnd,
    Bool.false_eq_true, List.append_assoc]
  refine (List.Sublist.refl _).append ((List.Sublist.refl _).append ((List.Sublist.refl _).append ?_))
  exact (List.sublist_append_left _ _).trans (List.sublist_append_right _ _)

private theorem pre_sub_deferred (cfg : Cfg) (p : Path) (o : OutKind) :
    (pre cfg ⟨p, o⟩).Sublist (fieldStart p ++ fieldResolver cfg true o p) := by
  simp only [pre, fieldStart, fieldResolver, middleware_once_in_order, submitOnly, if_true, List.append_assoc]
  exact (List.Sublist.refl _).append (List.sublist_append_left _ _)

mutual
private theorem cField (cfg : Cfg) : ∀ (path : Path) (nd : Node), ∀ n ∈ nodesOfNode path nd,
    Covered cfg (startField cfg path nd).1 (startField cfg path nd).2 n
  | path, .mk key d o c => by
    intro n hn
    cases o with
    | argError =>
      simp only [nodesOfNode, List.mem_cons, List.not_mem_nil, or_false] at hn
      subst hn
      exact Or.inl (by simp [order, startField, fieldStart, fieldEnd])
    | raises =>
      simp only [nodesOfNode, List.mem_cons, List.not_mem_nil, or_false] at hn
      subst hn
      cases d
      · refine Or.inl ?_
        have := order_sub_sync cfg (path ++ [.key key]) .raises (by simp) []
        simpa [startField] using this
      · refine Or.inr (Or.inl ⟨⟨path ++ [.key key], .raises, c⟩, by simp [startField], rfl, by simp, ?_⟩)
        simpa [startField] using pre_sub_deferred cfg (path ++ [.key key]) .raises
    | returns =>
      simp only [nodesOfNode, List.mem_cons] at hn
      cases d
      · rcases hn with rfl | hn
        · refine Or.inl ?_
          simpa [startField] using order_sub_sync cfg (path ++ [.key key]) .returns (by simp) _
        · have ih := cComp cfg (path ++ [.key key]) c n hn
          refine ih.mono ?_ (fun t ht => by simpa [startField] using ht)
          simp only [startField, Bool.false_eq_true, if_false]
          exact List.sublist_append_right _ _
      · rcases hn with rfl | hn
        · refine Or.inr (Or.inl ⟨⟨path ++ [.key key], .returns, c⟩, by simp [startField], rfl, by simp, ?_⟩)
          simpa [startField] using pre_sub_deferred cfg (path ++ [.key key]) .returns
        · exact Or.inr (Or.inr ⟨⟨path ++ [.key key], .returns, c⟩, by simp [startField], by simpa [taskDesc] using hn⟩)
private theorem cComp (cfg : Cfg) : ∀ (p : Path) (c : Comp), ∀ n ∈ nodesOfComp p c,
    Covered cfg (startComplete cfg p c).1 (startComplete cfg p c).2 n
  | p, .leaf => by intro n hn; simp [nodesOfComp] at hn
  | p, .null => by intro n hn; simp [nodesOfComp] at hn
  | p, .obj fs => by intro n hn; simpa [startComplete] using cFields cfg p fs n (by simpa [nodesOfComp] using hn)
  | p, .list items => by intro n hn; simpa [startComplete] using cItems cfg p 0 items n (by simpa [nodesOfComp] using hn)
private theorem cFields (cfg : Cfg) : ∀ (p : Path) (fs : List Node), ∀ n ∈ nodesOfFields p fs,
    Covered cfg (startFields cfg p fs).1 (startFields cfg p fs).2 n
  | p, [] => by intro n hn; simp [nodesOfFields] at hn
  | p, nd :: nds => by
    intro n hn
    simp only [nodesOfFields, List.mem_append] at hn
    simp only [startFields]
    rcases hn with hn | hn
    · exact (cField cfg p nd n hn).mono (List.sublist_append_left _ _) (fun t ht => List.mem_append_left _ ht)
    · exact (cFields cfg p nds n hn).mono (List.sublist_append_right _ _) (fun t ht => List.mem_append_right _ ht)
private theorem cItems (cfg : Cfg) : ∀ (p : Path) (i : Nat) (cs : List Comp), ∀ n ∈ nodesOfItems p i cs,
    Covered cfg (startItems cfg p i cs).1 (startItems cfg p i cs).2 n
  | p, i, [] => by intro n hn; simp [nodesOfItems] at hn
  | p, i, c :: cs => by
    intro n hn
    simp only [nodesOfItems, List.mem_append] at hn
    simp only [startItems]
    rcases hn with hn | hn
    · exact (cComp cfg (p ++ [.idx i]) c n hn).mono (List.sublist_append_left _ _) (fun t ht => List.mem_append_left _ ht)
    · exact (cItems cfg p (i + 1) cs n hn).mono (List.sublist_append_right _ _) (fun t ht => List.mem_append_right _ ht)
end

/-- a covered field is in order once the outstanding tasks have been drained into `dtr` -/
private theorem covered_done (cfg : Cfg) (evs dtr : List Ev) (ts : List Task) (n : Resolved)
    (hc : Covered cfg evs ts n)
    (h1 : ∀ t ∈ ts, (post (taskNode t)).Sublist dtr)
    (h2 : ∀ t ∈ ts, ∀ m ∈ (taskDesc t), (order cfg m).Sublist dtr) :
    (order cfg n).Sublist (evs ++ dtr) := by
  rcases hc with h | ⟨t, ht, hn, ho, hp⟩ | ⟨t, ht, hn⟩
  · exact h.trans (List.sublist_append_left _ _)
  · rw [order_eq cfg n ho]
    exact hp.append (hn ▸ h1 t ht)
  · exact (h2 t ht n hn).trans (List.sublist_append_right _ _)

private theorem mem_eraseIdx_or {α} : ∀ (l : List α) (i : Nat) (h : i < l.length) (x : α), x ∈ l →
    x = l[i] ∨ x ∈ l.eraseIdx i
  | a :: l, 0, _, x, hx => by simpa using hx
  | a :: l, i + 1, h, x, hx => by
    rcases List.mem_cons.1 hx with rfl | hx
    · exact .inr (by simp [List.eraseIdx])
    · rcases mem_eraseIdx_or l i (by simpa using h) x hx with h' | h'
      · exact Or.inl (by simpa using h')
      · exact .inr (by simp [List.eraseIdx, h'])

private theorem drain_order (cfg : Cfg) : ∀ (fuel : Nat) (pool : List Task) (sched : List Nat),
    poolSize pool ≤ fuel →
    (∀ t ∈ pool, (post (taskNode t)).Sublist (drain cfg fuel pool sched).1)
    ∧ (∀ t ∈ pool, ∀ m ∈ (taskDesc t), (order cfg m).Sublist (drain cfg fuel pool sched).1)
  | 0, pool, sched, h => by
    cases pool with
    | nil => simp
    | cons t ts => simp [poolSize, Task.size] at h
  | fuel + 1, [], sched, _ => by simp
  | fuel + 1, t0 :: rest, sched, h => by
    have hi : sched.headD 0 % (t0 :: rest).length < (t0 :: rest).length := Nat.mod_lt _ (by simp)
    simp only [drain]
    generalize sched.headD 0 % (t0 :: rest).length = i at hi ⊢
    have hget : (t0 :: rest).getD i t0 = (t0 :: rest)[i] := by
      simp [List.getD, List.getElem?_eq_getElem hi]
    rw [hget]
    generalize hT : (t0 :: rest)[i] = T
    have hsz := (runTask_count cfg (.call []) T).2
    have hs := sum_eraseIdx Task.size (t0 :: rest) i hi
    rw [hT] at hs
    have ih := drain_order cfg fuel ((t0 :: rest).eraseIdx i ++ (runTask cfg T).2) sched.tail (by
      simp only [poolSize, List.map_append, List.sum_append] at h hsz ⊢
      omega)
    generalize drain cfg fuel ((t0 :: rest).eraseIdx i ++ (runTask cfg T).2) sched.tail = D at ih ⊢
    obtain ⟨ih1, ih2⟩ := ih
    -- what the picked task itself emits
    have hpost : (post (taskNode T)).Sublist (runTask cfg T).1 := by
      obtain ⟨p, o, c⟩ := T
      cases o <;> simp [runTask, post, taskNode, resolverBody, fieldEnd]
    have hdesc : ∀ m ∈ (taskDesc T), (order cfg m).Sublist ((runTask cfg T).1 ++ D.1) := by
      intro m hm
      obtain ⟨p, o, c⟩ := T
      cases o with
      | returns =>
        have hc := cComp cfg p c m (by simpa [taskDesc] using hm)
        have := covered_done cfg _ D.1 _ m hc
          (fun t ht => ih1 t (List.mem_append_right _ (by simpa [runTask] using ht)))
          (fun t ht => ih2 t (List.mem_append_right _ (by simpa [runTask] using ht)))
        simp only [runTask, List.append_assoc]
        exact this.trans ((List.sublist_append_right _ _).trans (List.sublist_append_right _ _))
      | _ => simp [taskDesc] at hm
    refine ⟨fun t ht => ?_, fun t ht m hm => ?_⟩
    · rcases mem_eraseIdx_or _ i hi t ht with h' | h'
      · rw [h', hT]; exact hpost.trans (List.sublist_append_left _ _)
      · exact (ih1 t (List.mem_append_left _ h')).trans (List.sublist_append_right _ _)
    · rcases mem_eraseIdx_or _ i hi t ht with h' | h'
      · rw [h', hT] at hm; exact hdesc m hm
      · exact (ih2 t (List.mem_append_left _ h') m hm).trans (List.sublist_append_right _ _)

private theorem execSerial_order (cfg : Cfg) : ∀ (fs : List Node) (sched : List Nat), ∀ n ∈ nodesOfFields [] fs,
    (order cfg n).Sublist (execSerial cfg fs sched)
  | [], sched => by intro n hn; simp [nodesOfFields] at hn
  | nd :: nds, sched => by
    intro n hn
    simp only [nodesOfFields, List.mem_append] at hn
    simp only [execSerial]
    rcases hn with hn | hn
    · have hsz := (aField cfg (.call []) [] nd).2
      have hd := drain_order cfg (sizeNode nd) (startField cfg [] nd).2 sched hsz
      exact (covered_done cfg _ _ _ n (cField cfg [] nd n hn) hd.1 hd.2).trans (List.sublist_append_left _ _)
    · exact (execSerial_order cfg nds _ n hn).trans (List.sublist_append_right _ _)

/-- **field order, every executor, every runtime, EVERY completion order**: for every resolved
    field the events `start hook, middlewares entered (last one first), resolver invoked,
    returned / raised, end hook` (all with its path) occur in this order in the trace. Together
    with `field_hooks_once` (each of them occurs exactly once): the start hook fires before the
    resolver is invoked and the end hook after it returned or raised, whatever the schedule.
    NOTE (audit round 2): `order` lists start hook, middleware ENTRIES, call, return, end hook - it omits the middleware EXITS. For a deferred resolver the model (like the code: `apply_middlewares(runtime.wrap_callable(resolver))`) emits `field+ mw>… mw<… call ret field-`: every middleware has exited before the resolver runs (known finding N8, probe `middleware-deferred`); the NESTING `mw> call ret mw<` is proved for synchronous resolvers only (`field_hooks_contiguous_sequential`). -/
theorem field_hooks_ordered : FieldOrderAllSchedules := by
  intro cfg r n hn
  unfold execBody
  split
  · rw [field_hooks_once_blocking, List.flatMap_def]
    have hc : (order cfg n).Sublist (chunk cfg n) := by
      simp only [order, chunk, List.append_assoc]
      refine (List.Sublist.refl _).append ?_
      split
      · exact List.Sublist.refl _
      · simp only [List.append_assoc]
        refine (List.Sublist.refl _).append ((List.Sublist.refl _).append ?_)
        exact List.sublist_append_right _ _
    exact hc.trans (List.infix_of_mem_flatten (List.mem_map_of_mem hn)).sublist
  · split
    · exact execSerial_order cfg _ _ n hn
    · have hsz := (aFields cfg (.call []) [] r.fields).2
      have hd := drain_order cfg (sizeNodes r.fields) (startFields cfg [] r.fields).2 r.sched hsz
      exact covered_done cfg _ _ _ n (cFields cfg [] r.fields n hn) hd.1 hd.2


/-! ## a path identifies a field -/

def Node.key : Node → String
  | .mk k _ _ _ => k

mutual
/-- sibling response keys are distinct in every selection set of the tree (what
    `collect_fields`, which groups by response key, guarantees) -/
def wfNode : Node → Bool
  | .mk _ _ _ c => wfComp c
def wfComp : Comp → Bool
  | .leaf => true
  | .null => true
  | .obj fs => decide ((keysOf fs).Nodup) && wfNodes fs
  | .list items => wfItems items
def wfNodes : List Node → Bool
  | [] => true
  | n :: ns => wfNode n && wfNodes ns
def wfItems : List Comp → Bool
  | [] => true
  | c :: cs => wfComp c && wfItems cs
def keysOf : List Node → List String
  | [] => []
  | n :: ns => Node.key n :: keysOf ns
end

private theorem prefix_same_len {q a b : Path} (ha : a <+: q) (hb : b <+: q) (hl : a.length = b.length) : a = b := by
  obtain ⟨x, rfl⟩ := ha
  obtain ⟨y, hy⟩ := hb
  exact ((List.append_inj hy.symm hl)).1

private theorem ext_ne {p q : Path} {s : Seg} (h : p ++ [s] <+: q) : q ≠ p := by
  intro e
  have := h.length_le
  simp [e] at this
  omega

private def pathsOf (l : List Resolved) : List Path := l.map (·.path)

mutual
private theorem uNode : ∀ (path : Path) (n : Node), wfNode n = true →
    (pathsOf (nodesOfNode path n)).Nodup ∧ ∀ q ∈ pathsOf (nodesOfNode path n), path ++ [.key (Node.key n)] <+: q
  | path, .mk key d o c, h => by
    have hc := uComp (path ++ [.key key]) c (by simpa [wfNode] using h)
    cases o with
    | returns =>
      simp only [nodesOfNode, pathsOf, List.map_cons, List.nodup_cons, List.mem_cons, Node.key]
      refine ⟨⟨fun hm => ?_, hc.1⟩, fun q hq => ?_⟩
      · obtain ⟨s, hs⟩ := hc.2 _ hm
        exact ext_ne hs rfl
      · rcases hq with rfl | hq
        · exact List.prefix_refl _
        · obtain ⟨s, hs⟩ := hc.2 q hq
          exact (List.prefix_append _ _).trans hs
    | _ => simp [nodesOfNode, pathsOf, Node.key]
private theorem uComp : ∀ (p : Path) (c : Comp), wfComp c = true →
    (pathsOf (nodesOfComp p c)).Nodup ∧ ∀ q ∈ pathsOf (nodesOfComp p c), ∃ s, p ++ [s] <+: q
  | p, .leaf, _ => by simp [nodesOfComp, pathsOf]
  | p, .null, _ => by simp [nodesOfComp, pathsOf]
  | p, .obj fs, h => by
    simp only [wfComp, Bool.and_eq_true, decide_eq_true_eq] at h
    have := uFields p fs h.2 h.1
    exact ⟨by simpa [nodesOfComp] using this.1, fun q hq => by
      obtain ⟨k, _, hk⟩ := this.2 q (by simpa [nodesOfComp] using hq); exact ⟨_, hk⟩⟩
  | p, .list items, h => by
    have := uItems p 0 items (by simpa [wfComp] using h)
    exact ⟨by simpa [nodesOfComp] using this.1, fun q hq => by
      obtain ⟨j, _, hj⟩ := this.2 q (by simpa [nodesOfComp] using hq); exact ⟨_, hj⟩⟩
private theorem uFields : ∀ (p : Path) (fs : List Node), wfNodes fs = true → (keysOf fs).Nodup →
    (pathsOf (nodesOfFields p fs)).Nodup ∧ ∀ q ∈ pathsOf (nodesOfFields p fs), ∃ k ∈ keysOf fs, p ++ [.key k] <+: q
  | p, [], _, _ => by simp [nodesOfFields, pathsOf]
  | p, n :: ns, h, hk => by
    simp only [wfNodes, Bool.and_eq_true] at h
    simp only [keysOf, List.nodup_cons] at hk
    have h1 := uNode p n h.1
    have h2 := uFields p ns h.2 hk.2
    simp only [nodesOfFields, pathsOf, List.map_append] at h1 h2 ⊢
    refine ⟨List.nodup_append.2 ⟨h1.1, h2.1, fun a ha b hb e => ?_⟩, fun q hq => ?_⟩
    · subst e
      obtain ⟨k, hk', hkp⟩ := h2.2 a hb
      have := prefix_same_len (h1.2 a ha) hkp (by simp)
      simp at this
      exact hk.1 (this ▸ hk')
    · rcases List.mem_append.1 hq with hq | hq
      · exact ⟨_, by simp [keysOf], h1.2 q hq⟩
      · obtain ⟨k, hk', hkp⟩ := h2.2 q hq
        exact ⟨k, by simp [keysOf, hk'], hkp⟩
private theorem uItems : ∀ (p : Path) (i : Nat) (cs : List Comp), wfItems cs = true →
    (pathsOf (nodesOfItems p i cs)).Nodup ∧ ∀ q ∈ pathsOf (nodesOfItems p i cs), ∃ j, i ≤ j ∧ p ++ [.idx j] <+: q
  | p, i, [], _ => by simp [nodesOfItems, pathsOf]
  | p, i, c :: cs, h => by
    simp only [wfItems, Bool.and_eq_true] at h
    have h1 := uComp (p ++ [.idx i]) c h.1
    have h2 := uItems p (i + 1) cs h.2
    simp only [nodesOfItems, pathsOf, List.map_append] at h1 h2 ⊢
    have hpre : ∀ q ∈ List.map (fun x => x.path) (nodesOfComp (p ++ [.idx i]) c), p ++ [.idx i] <+: q := by
      intro q hq
      obtain ⟨s, hs⟩ := h1.2 q hq
      exact (List.prefix_append _ _).trans hs
    refine ⟨List.nodup_append.2 ⟨h1.1, h2.1, fun a ha b hb e => ?_⟩, fun q hq => ?_⟩
    · subst e
      obtain ⟨j, hj, hjp⟩ := h2.2 a hb
      have := prefix_same_len (hpre a ha) hjp (by simp)
      simp at this
      omega
    · rcases List.mem_append.1 hq with hq | hq
      · exact ⟨i, Nat.le_refl _, hpre q hq⟩
      · obtain ⟨j, hj, hjp⟩ := h2.2 q hq
        exact ⟨j, by omega, hjp⟩
end

/-- **a response path identifies a resolved field**: when sibling response keys are distinct
    (everywhere in the tree), no two resolved fields share a path — so "exactly once per field"
    in `field_hooks_once` is "exactly once per path". -/
theorem field_paths_unique (fs : List Node) (hk : (keysOf fs).Nodup) (hw : wfNodes fs = true) :
    ((nodesOfFields [] fs).map (·.path)).Nodup :=
  (uFields [] fs hw hk).1

example : (keysOf demoFields).Nodup ∧ wfNodes demoFields = true := by decide


private theorem count_of_nodup {α} [BEq α] [LawfulBEq α] : ∀ (l : List α) (a : α), l.Nodup → a ∈ l → l.count a = 1
  | [], a, _, ha => by simp at ha
  | x :: l, a, h, ha => by
    rw [List.nodup_cons] at h
    by_cases e : x = a
    · subst e; simp [List.count_cons, List.count_eq_zero.2 h.1]
    · have hm : a ∈ l := by
        rcases List.mem_cons.1 ha with h' | h'
        · exact absurd h'.symm e
        · exact h'
      simp [List.count_cons, e, count_of_nodup l a h.2 hm]

private theorem sum_indicator (p : Path) : ∀ (l : List Resolved),
    (l.map (fun m => if m.path = p then 1 else 0)).sum = List.count p (l.map (·.path))
  | [] => rfl
  | m :: l => by
    by_cases h : m.path = p <;> simp [h, sum_indicator p l, List.count_cons] <;> omega

private theorem count_hook_chunk (cfg : Cfg) (p : Path) (b : Bool) (m : Resolved) :
    List.count (Ev.hook (.field p b)) (chunk cfg m) = if m.path = p then 1 else 0 := by
  have hmid : ∀ (mid : List Ev), (∀ e ∈ mid, ∀ h, e ≠ Ev.hook h) →
      List.count (Ev.hook (.field p b)) ([Ev.hook (.field m.path true)] ++ mid ++ [Ev.hook (.field m.path false)])
        = if m.path = p then 1 else 0 := by
    intro mid hm
    have h0 : List.count (Ev.hook (.field p b)) mid = 0 := List.count_eq_zero.2 (fun hin => hm _ hin _ rfl)
    by_cases hp : m.path = p <;> cases b <;> simp [List.count_append, List.count_cons, h0, hp]
  unfold chunk
  apply hmid
  intro e he h
  split at he
  · simp at he
  · simp only [List.mem_append, List.mem_map, List.mem_cons, List.not_mem_nil, or_false] at he
    rcases he with (⟨i, _, rfl⟩ | rfl | rfl) | ⟨i, _, rfl⟩ <;> first | (intro e; cases e) | (split <;> intro e <;> cases e)

/-- **exactly once per path** — when sibling keys are distinct, for every resolved field and
    whatever the executor, runtime and completion order: the start hook with its path fires
    exactly once in the whole execution, and so does the end hook with its path. -/
theorem field_hooks_exactly_once_per_path (cfg : Cfg) (r : Request)
    (hk : (keysOf r.fields).Nodup) (hw : wfNodes r.fields = true)
    (n : Resolved) (hn : n ∈ nodesOfFields [] r.fields) (b : Bool) :
    List.count (Ev.hook (.field n.path b)) (execBody cfg r) = 1 := by
  rw [(field_hooks_once cfg r).count_eq, List.count_flatMap]
  have : (List.count (Ev.hook (.field n.path b)) ∘ chunk cfg) = fun m => if m.path = n.path then 1 else 0 := by
    funext m; exact count_hook_chunk cfg n.path b m
  rw [this, sum_indicator]
  exact count_of_nodup _ _ (field_paths_unique r.fields hk hw) (List.mem_map_of_mem hn)

end PyGql.Props.C16

/-
  C16 — instrumentation and middlewares see every field exactly once, properly nested.
  Theorems about the model `PyGqlModel/Instr.lean` (tied to /repo by harness/corr/C16.py).
-/
import PyGqlModel.Instr

set_option linter.unusedSimpArgs false
set_option linter.unusedVariables false

namespace PyGql.Props.C16
open PyGql.Instr

/-! ## middlewares -/

/-- `apply_middlewares`: one call of the wrapped resolver enters every middleware exactly once,
    the LAST middleware of the list first (outermost), then runs the wrapped function once, then
    leaves the middlewares in list order — for every function and every list. -/
theorem middleware_once_in_order (func : Callable) (mws : List Nat) (p : Path) :
    applyMiddlewares func mws p
      = mws.reverse.map (fun i => Ev.mwEnter i p) ++ func p ++ mws.map (fun i => Ev.mwExit i p) := by
  unfold applyMiddlewares
  induction mws generalizing func with
  | nil => simp
  | cons m ms ih =>
    rw [List.foldl_cons, ih]
    simp [middleware, List.append_assoc]

example : applyMiddlewares (resolverBody .returns) [0, 1, 2] [.key "a"]
    = [.mwEnter 2 [.key "a"], .mwEnter 1 [.key "a"], .mwEnter 0 [.key "a"], .call [.key "a"], .ret [.key "a"],
       .mwExit 0 [.key "a"], .mwExit 1 [.key "a"], .mwExit 2 [.key "a"]] := by decide

/-! ## MultiInstrumentation -/

mutual
private theorem emit_eq : ∀ (t : Instr) (h : Hook),
    t.emit h = (if h.isStart then t.leaves else t.leaves.reverse).map (fun i => REv.hook i h)
  | .leaf i, h => by simp [Instr.emit, Instr.leaves]
  | .multi cs, h => by
    cases hs : h.isStart
    · simp [Instr.emit, Instr.leaves, hs, emitAllRev_eq cs h hs]
    · simp [Instr.emit, Instr.leaves, hs, emitAll_eq cs h hs]
private theorem emitAll_eq : ∀ (cs : List Instr) (h : Hook), h.isStart = true →
    emitAll cs h = (leavesAll cs).map (fun i => REv.hook i h)
  | [], h, _ => by simp [emitAll, leavesAll]
  | c :: cs, h, hs => by simp [emitAll, leavesAll, emit_eq c h, emitAll_eq cs h hs, hs]
private theorem emitAllRev_eq : ∀ (cs : List Instr) (h : Hook), h.isStart = false →
    emitAllRev cs h = (leavesAll cs).reverse.map (fun i => REv.hook i h)
  | [], h, _ => by simp [emitAllRev, leavesAll]
  | c :: cs, h, hs => by simp [emitAllRev, leavesAll, emit_eq c h, emitAllRev_eq cs h hs, hs]
end

/-- Combined instrumentations, nested to any depth: a start hook reaches the recording
    instrumentations in order, an end hook reaches them in exactly the reverse order, each once. -/
theorem multi_order (t : Instr) (h : Hook) :
    t.emit h = (if h.isStart then t.leaves else t.leaves.reverse).map (fun i => REv.hook i h) :=
  emit_eq t h

example : (Instr.multi [.leaf 0, .multi [.leaf 1, .leaf 2]]).emit (.stage .query false)
    = [.hook 2 (.stage .query false), .hook 1 (.stage .query false), .hook 0 (.stage .query false)] := by decide

/-- what the recording instrumentation `i` saw -/
def seenBy (i : Nat) : List REv → List Hook
  | [] => []
  | .hook j h :: es => if j = i then h :: seenBy i es else seenBy i es
  | .other _ :: es => seenBy i es

/-- the hooks of a single-instrumentation trace -/
def hooksOf : List Ev → List Hook
  | [] => []
  | .hook h :: es => h :: hooksOf es
  | _ :: es => hooksOf es

private theorem seenBy_append (i : Nat) (a b : List REv) : seenBy i (a ++ b) = seenBy i a ++ seenBy i b := by
  induction a with
  | nil => rfl
  | cons e es ih =>
    cases e with
    | hook j h => by_cases hj : j = i <;> simp [seenBy, hj, ih]
    | other e => simp [seenBy, ih]

private theorem seenBy_map (i : Nat) (h : Hook) (l : List Nat) :
    seenBy i (l.map (fun j => REv.hook j h)) = List.replicate (l.count i) h := by
  induction l with
  | nil => rfl
  | cons j js ih =>
    by_cases hj : j = i
    · subst hj; simp [seenBy, ih, List.replicate_succ]
    · have : (j == i) = false := by simp [hj]
      simp [seenBy, hj, ih, List.count_cons, this]

/-- Every recording instrumentation that occurs once in a stack sees exactly the hook sequence
    a single instrumentation would see: stacking neither drops, duplicates nor reorders the
    hooks of one member. (So `stages_nested` and `field_hooks_once` hold per member.) -/
theorem multi_member_sees_all (t : Instr) (i : Nat) (hi : t.leaves.count i = 1) (tr : List Ev) :
    seenBy i (expand t tr) = hooksOf tr := by
  induction tr with
  | nil => rfl
  | cons e es ih =>
    cases e with
    | hook h =>
      simp only [expand, hooksOf, seenBy_append, ih, multi_order]
      cases h.isStart <;> simp [← List.map_reverse, seenBy_map, hi, List.count_reverse]
    | _ => simp [expand, hooksOf, seenBy, ih]

example : (Instr.multi [.leaf 0, .multi [.leaf 1, .leaf 2]]).leaves.count 1 = 1 := by decide


/-! ## fields: the sequential executors -/

/-- a resolved field: response path and resolver outcome -/
structure Resolved where
  path : Path
  o : OutKind
  deriving DecidableEq, Repr

mutual
/-- the fields that get resolved, in document (pre-)order -/
def nodesOfNode (path : Path) : Node → List Resolved
  | .mk key _ o c =>
    ⟨path ++ [.key key], o⟩ :: (match o with
      | .returns => nodesOfComp (path ++ [.key key]) c
      | _ => [])
def nodesOfComp (p : Path) : Comp → List Resolved
  | .leaf => []
  | .null => []
  | .obj fs => nodesOfFields p fs
  | .list items => nodesOfItems p 0 items
def nodesOfFields (p : Path) : List Node → List Resolved
  | [] => []
  | n :: ns => nodesOfNode p n ++ nodesOfFields p ns
def nodesOfItems (p : Path) (i : Nat) : List Comp → List Resolved
  | [] => []
  | c :: cs => nodesOfComp (p ++ [.idx i]) c ++ nodesOfItems p (i + 1) cs
end

/-- THE event block of one resolved field: start hook with its path; unless argument coercion
    failed, every middleware entered once (last one outermost), the resolver invoked once and
    returning or raising, the middlewares left; end hook with its path. -/
def chunk (cfg : Cfg) (n : Resolved) : List Ev :=
  [Ev.hook (.field n.path true)] ++
  (if n.o = .argError then []
   else cfg.mws.reverse.map (fun i => Ev.mwEnter i n.path)
        ++ [Ev.call n.path, if n.o = .raises then Ev.raise n.path else Ev.ret n.path]
        ++ cfg.mws.map (fun i => Ev.mwExit i n.path)) ++
  [Ev.hook (.field n.path false)]

private theorem resolveField_eq (cfg : Cfg) (path : Path) (key : String) (d : Bool) (o : OutKind) (c : Comp) :
    blockingResolveField cfg path (.mk key d o c)
      = chunk cfg ⟨path ++ [.key key], o⟩ ++
        (match o with | .returns => blockingComplete cfg (path ++ [.key key]) c | _ => []) := by
  cases o <;>
    simp [blockingResolveField, chunk, fieldStart, fieldEnd, fieldResolver, middleware_once_in_order, resolverBody,
      List.append_assoc]

mutual
private theorem bField (cfg : Cfg) : ∀ (path : Path) (n : Node),
    blockingResolveField cfg path n = (nodesOfNode path n).flatMap (chunk cfg)
  | path, .mk key d o c => by
    rw [resolveField_eq]
    cases o with
    | returns => simp [nodesOfNode, bComp cfg (path ++ [.key key]) c]
    | _ => simp [nodesOfNode]
private theorem bComp (cfg : Cfg) : ∀ (p : Path) (c : Comp),
    blockingComplete cfg p c = (nodesOfComp p c).flatMap (chunk cfg)
  | p, .leaf => by simp [blockingComplete, nodesOfComp]
  | p, .null => by simp [blockingComplete, nodesOfComp]
  | p, .obj fs => by simp [blockingComplete, nodesOfComp, bFields cfg p fs]
  | p, .list items => by simp [blockingComplete, nodesOfComp, bItems cfg p 0 items]
private theorem bFields (cfg : Cfg) : ∀ (p : Path) (fs : List Node),
    blockingFields cfg p fs = (nodesOfFields p fs).flatMap (chunk cfg)
  | p, [] => by simp [blockingFields, nodesOfFields]
  | p, n :: ns => by simp [blockingFields, nodesOfFields, bField cfg p n, bFields cfg p ns]
private theorem bItems (cfg : Cfg) : ∀ (p : Path) (i : Nat) (cs : List Comp),
    blockingItems cfg p i cs = (nodesOfItems p i cs).flatMap (chunk cfg)
  | p, i, [] => by simp [blockingItems, nodesOfItems]
  | p, i, c :: cs => by simp [blockingItems, nodesOfItems, bComp cfg (p ++ [.idx i]) c, bItems cfg p (i + 1) cs]
end

/-- `BlockingExecutor`: the trace of the execution stage is the concatenation, in document
    order, of one `chunk` per resolved field — i.e. for every resolved field exactly one start
    and one end hook with its path, start before the resolver is invoked, end after it returned
    or raised, and every middleware exactly once around the call in the documented nesting. -/
theorem field_hooks_once_blocking (cfg : Cfg) (fs : List Node) :
    blockingFields cfg [] fs = (nodesOfFields [] fs).flatMap (chunk cfg) := bFields cfg [] fs


/-! ## fields: the general executor, every runtime, every completion order -/

/-- what an outstanding task still has to emit if everything after it ran sequentially -/
def taskSeq (cfg : Cfg) (t : Task) : List Ev :=
  resolverBody t.o t.path ++ fieldEnd t.path ++
  (match t.o with | .returns => blockingComplete cfg t.path t.c | _ => [])

private theorem count_mw (func : Callable) (mws : List Nat) (p : Path) (e : Ev) :
    List.count e (applyMiddlewares func mws p)
      = List.count e (mws.reverse.map (fun i => Ev.mwEnter i p)) + List.count e (func p)
        + List.count e (mws.map (fun i => Ev.mwExit i p)) := by
  rw [middleware_once_in_order]; simp only [List.count_append]

mutual
private theorem aField (cfg : Cfg) (e : Ev) : ∀ (path : Path) (n : Node),
    List.count e (startField cfg path n).1 + List.count e ((startField cfg path n).2.flatMap (taskSeq cfg))
      = List.count e (blockingResolveField cfg path n)
    ∧ poolSize (startField cfg path n).2 ≤ sizeNode n
  | path, .mk key d o c => by
    cases o with
    | argError => simp [startField, blockingResolveField, poolSize]
    | raises =>
      cases d <;>
        simp [startField, blockingResolveField, poolSize, taskSeq, fieldResolver, count_mw, submitOnly,
          List.count_append, Task.size, sizeNode] <;> omega
    | returns =>
      have ih := aComp cfg e (path ++ [.key key]) c
      cases d
      · simp only [startField, blockingResolveField, Bool.false_eq_true, if_false, List.count_append, sizeNode]
        omega
      · simp [startField, blockingResolveField, poolSize, taskSeq, fieldResolver, count_mw, submitOnly,
          List.count_append, Task.size, sizeNode]
        omega
private theorem aComp (cfg : Cfg) (e : Ev) : ∀ (p : Path) (c : Comp),
    List.count e (startComplete cfg p c).1 + List.count e ((startComplete cfg p c).2.flatMap (taskSeq cfg))
      = List.count e (blockingComplete cfg p c)
    ∧ poolSize (startComplete cfg p c).2 ≤ sizeComp c
  | p, .leaf => by simp [startComplete, blockingComplete, poolSize]
  | p, .null => by simp [startComplete, blockingComplete, poolSize]
  | p, .obj fs => by simpa [startComplete, blockingComplete, sizeComp] using aFields cfg e p fs
  | p, .list items => by simpa [startComplete, blockingComplete, sizeComp] using aItems cfg e p 0 items
private theorem aFields (cfg : Cfg) (e : Ev) : ∀ (p : Path) (fs : List Node),
    List.count e (startFields cfg p fs).1 + List.count e ((startFields cfg p fs).2.flatMap (taskSeq cfg))
      = List.count e (blockingFields cfg p fs)
    ∧ poolSize (startFields cfg p fs).2 ≤ sizeNodes fs
  | p, [] => by simp [startFields, blockingFields, poolSize]
  | p, n :: ns => by
    have h1 := aField cfg e p n
    have h2 := aFields cfg e p ns
    simp only [poolSize] at h1 h2
    simp only [startFields, blockingFields, List.count_append, List.flatMap_append, poolSize, List.map_append,
      List.sum_append, sizeNodes]
    omega
private theorem aItems (cfg : Cfg) (e : Ev) : ∀ (p : Path) (i : Nat) (cs : List Comp),
    List.count e (startItems cfg p i cs).1 + List.count e ((startItems cfg p i cs).2.flatMap (taskSeq cfg))
      = List.count e (blockingItems cfg p i cs)
    ∧ poolSize (startItems cfg p i cs).2 ≤ sizeItems cs
  | p, i, [] => by simp [startItems, blockingItems, poolSize]
  | p, i, c :: cs => by
    have h1 := aComp cfg e (p ++ [.idx i]) c
    have h2 := aItems cfg e p (i + 1) cs
    simp only [poolSize] at h1 h2
    simp only [startItems, blockingItems, List.count_append, List.flatMap_append, poolSize, List.map_append,
      List.sum_append, sizeItems]
    omega
end


private theorem sum_eraseIdx {α} (g : α → Nat) : ∀ (l : List α) (i : Nat) (h : i < l.length),
    (l.map g).sum = g l[i] + ((l.eraseIdx i).map g).sum
  | a :: l, 0, _ => by simp
  | a :: l, i + 1, h => by
    have := sum_eraseIdx g l i (by simpa using h)
    simp [List.eraseIdx, this]; omega

private theorem runTask_count (cfg : Cfg) (e : Ev) (t : Task) :
    List.count e (runTask cfg t).1 + List.count e ((runTask cfg t).2.flatMap (taskSeq cfg))
      = List.count e (taskSeq cfg t)
    ∧ poolSize (runTask cfg t).2 + 1 ≤ t.size := by
  cases t with
  | mk p o c =>
    cases o with
    | returns =>
      have := aComp cfg e p c
      simp only [runTask, taskSeq, List.count_append, Task.size]
      omega
    | _ => simp [runTask, taskSeq, poolSize, Task.size]

private theorem drain_count (cfg : Cfg) (e : Ev) : ∀ (fuel : Nat) (pool : List Task) (sched : List Nat),
    poolSize pool ≤ fuel →
    List.count e (drain cfg fuel pool sched).1 = List.count e (pool.flatMap (taskSeq cfg))
  | 0, pool, sched, h => by
    cases pool with
    | nil => simp [drain]
    | cons t ts => simp [poolSize, Task.size] at h
  | fuel + 1, [], sched, _ => by simp [drain]
  | fuel + 1, t0 :: rest, sched, h => by
    have hi : sched.headD 0 % (t0 :: rest).length < (t0 :: rest).length := Nat.mod_lt _ (by simp)
    simp only [drain]
    generalize sched.headD 0 % (t0 :: rest).length = i at hi ⊢
    have hget : (t0 :: rest).getD i t0 = (t0 :: rest)[i] := by
      simp [List.getD, List.getElem?_eq_getElem hi]
    rw [hget]
    have hr := runTask_count cfg e (t0 :: rest)[i]
    have hs := sum_eraseIdx Task.size (t0 :: rest) i hi
    have hc := sum_eraseIdx (List.count e ∘ taskSeq cfg) (t0 :: rest) i hi
    have ih := drain_count cfg e fuel ((t0 :: rest).eraseIdx i ++ (runTask cfg (t0 :: rest)[i]).2) sched.tail (by
      simp only [poolSize, List.map_append, List.sum_append] at h hr ⊢
      omega)
    rw [List.count_flatMap, hc, List.count_append, ih, List.flatMap_append, List.count_append, List.count_flatMap]
    simp only [Function.comp] at hr ⊢
    omega


private theorem execParallel_count (cfg : Cfg) (e : Ev) (fs : List Node) (sched : List Nat) :
    List.count e (execParallel cfg fs sched) = List.count e (blockingFields cfg [] fs) := by
  have h := aFields cfg e [] fs
  simp only [execParallel, List.count_append, drain_count cfg e _ _ sched h.2]
  exact h.1

private theorem execSerial_count (cfg : Cfg) (e : Ev) : ∀ (fs : List Node) (sched : List Nat),
    List.count e (execSerial cfg fs sched) = List.count e (blockingFields cfg [] fs)
  | [], sched => by simp [execSerial, blockingFields]
  | n :: ns, sched => by
    have h := aField cfg e [] n
    simp only [execSerial, blockingFields, List.count_append, drain_count cfg e _ _ sched h.2,
      execSerial_count cfg e ns]
    omega

/-- **Every executor, every runtime, every completion order**: the events of the execution
    stage are, up to the order in which deferred resolvers complete, exactly one `chunk` per
    resolved field. Hence for every resolved field: exactly one start hook and one end hook
    with its path, exactly one resolver invocation, exactly one entry and exit of every
    configured middleware — never more, never fewer, whatever the schedule. -/
theorem field_hooks_once (cfg : Cfg) (r : Request) :
    (execBody cfg r).Perm ((nodesOfFields [] r.fields).flatMap (chunk cfg)) := by
  rw [← field_hooks_once_blocking, List.perm_iff_count]
  intro e
  unfold execBody
  split
  · rfl
  · split
    · exact execSerial_count cfg e _ _
    · exact execParallel_count cfg e _ _

/-- with resolvers that the runtime does not defer, `Executor` and `BlockingExecutor` produce
    the same number of every event for every field tree (used below with `deferred` arbitrary) -/
theorem executor_count_eq_blocking (cfg : Cfg) (r : Request) (e : Ev) :
    List.count e (execBody cfg r) = List.count e (blockingFields cfg [] r.fields) := by
  rw [field_hooks_once_blocking]; exact (field_hooks_once cfg r).count_eq e

/-- non-vacuity: a tree with a deferred object field, a failing deferred leaf and a list;
    LIFO completion really reorders the trace, the multiset of events is unchanged -/
private def demoFields : List Node :=
  [.mk "a" true .returns (.obj [.mk "x" true .returns .leaf, .mk "y" false .raises .null]),
   .mk "b" true .raises .null,
   .mk "c" false .returns (.list [.obj [.mk "z" true .returns .leaf], .null])]
private def demoReq (sched : List Nat) : Request :=
  { docIsText := true, syntaxError := false, valid := true, opselOk := true, varsOk := true, serial := false,
    blockingExecutor := false, fields := demoFields, sched := sched }
example : execBody ⟨[0]⟩ (demoReq [2, 1, 0]) ≠ execBody ⟨[0]⟩ (demoReq [0, 0, 0]) := by decide
example : (nodesOfFields [] demoFields).length = 6 := by decide

/-! ## stages -/

def stageOf : Ev → Option (Stage × Bool)
  | .hook (.stage s b) => some (s, b)
  | _ => none

/-- the stage hooks of a trace, in order (`(s, true)` = `on_s_start`) -/
def stageEvents (tr : List Ev) : List (Stage × Bool) := tr.filterMap stageOf

/-- stack discipline: every end closes the innermost open stage, nothing stays open -/
def bracket : List Stage → List (Stage × Bool) → Bool
  | stack, [] => stack.isEmpty
  | stack, (s, true) :: es => bracket (s :: stack) es
  | [], (_, false) :: _ => false
  | top :: stack, (s, false) :: es => decide (s = top) && bracket stack es

private theorem chunk_no_stage (cfg : Cfg) (n : Resolved) : ∀ e ∈ chunk cfg n, stageOf e = none := by
  intro e he
  simp only [chunk, List.mem_append, List.mem_cons, List.mem_map, List.not_mem_nil, or_false] at he
  rcases he with (rfl | he) | rfl
  · rfl
  · split at he
    · simp at he
    · simp only [List.mem_append, List.mem_map, List.mem_cons, List.not_mem_nil, or_false] at he
      rcases he with (⟨i, _, rfl⟩ | rfl | rfl) | ⟨i, _, rfl⟩ <;> first | rfl | (split <;> rfl)
  · rfl

/-- the executor run contains no stage hook (whatever the tree and the schedule) -/
theorem body_has_no_stage_event (cfg : Cfg) (r : Request) : stageEvents (execBody cfg r) = [] := by
  rw [stageEvents, List.filterMap_eq_nil_iff]
  intro e he
  rw [(field_hooks_once cfg r).mem_iff, List.mem_flatMap] at he
  obtain ⟨n, _, hn⟩ := he
  exact chunk_no_stage cfg n e hn

/-- the stage hooks of a request, as a function of the stage outcomes only -/
def stageShape (r : Request) : List (Stage × Bool) :=
  [(.query, true)] ++
  (if r.docIsText && r.syntaxError then [(.parsing, true), (.parsing, false)]
   else (if r.docIsText then [(.parsing, true), (.parsing, false)] else []) ++
        [(.validation, true), (.validation, false)] ++
        (if r.valid && r.opselOk && r.varsOk then [(.execution, true), (.execution, false)] else [])) ++
  [(.query, false)]

theorem stage_events_eq (cfg : Cfg) (r : Request) : stageEvents (pipeline false cfg r) = stageShape r := by
  have hb := body_has_no_stage_event cfg r
  obtain ⟨docIsText, syntaxError, valid, opselOk, varsOk, serial, blocking, fields, sched⟩ := r
  simp only [stageEvents] at hb
  cases docIsText <;> cases syntaxError <;> cases valid <;> cases opselOk <;> cases varsOk <;>
    simp [pipeline, execute, stageShape, stageEvents, stageStart, stageEnd, List.filterMap_append, hb, stageOf]

/-- **stages_nested** — for every request, every outcome of every stage, every executor,
    runtime and completion order (with the proposed fix of N1 applied): the query, parsing,
    validation and execution hooks are well bracketed (an end hook only ever closes the innermost
    open stage, and every started stage is ended — also when the stage reported errors), each
    hook fires at most once, and everything lies inside `on_query_start … on_query_end`. -/
theorem stages_nested (cfg : Cfg) (r : Request) :
    bracket [] (stageEvents (pipeline false cfg r)) = true
    ∧ (stageEvents (pipeline false cfg r)).Nodup
    ∧ (stageEvents (pipeline false cfg r)).head? = some (.query, true)
    ∧ (stageEvents (pipeline false cfg r)).getLast? = some (.query, false) := by
  rw [stage_events_eq]
  obtain ⟨docIsText, syntaxError, valid, opselOk, varsOk, serial, blocking, fields, sched⟩ := r
  cases docIsText <;> cases syntaxError <;> cases valid <;> cases opselOk <;> cases varsOk <;>
    simp [stageShape, bracket]

/-- the stage hooks of a stage that reported errors are still paired: syntax error, validation
    errors, operation / variable errors (execution never starts) -/
example : stageShape { docIsText := true, syntaxError := true, valid := true, opselOk := true, varsOk := true,
                       serial := false, blockingExecutor := true, fields := [], sched := [] }
    = [(.query, true), (.parsing, true), (.parsing, false), (.query, false)] := by decide

/-- Defect N1, machine-checked on the model of the UNFIXED `_graphql.py` (`return _abort(...)`
    inside `except`, before the `finally`): on a syntax error the trace is
    `query+ parsing+ query- parsing-`, which is not well bracketed. -/
theorem stages_not_nested_before_fix_N1 :
    ∃ (cfg : Cfg) (r : Request), bracket [] (stageEvents (pipeline true cfg r)) = false :=
  ⟨⟨[]⟩, { docIsText := true, syntaxError := true, valid := true, opselOk := true, varsOk := true,
           serial := false, blockingExecutor := true, fields := [], sched := [] }, by decide⟩


/-! ## order of the events of one field -/

/-- the events of a field in the order the statement requires: start hook, middlewares entered
    (last one first), resolver invoked, resolver returned / raised, end hook -/
def order (cfg : Cfg) (n : Resolved) : List Ev :=
  [Ev.hook (.field n.path true)] ++
  (if n.o = .argError then []
   else cfg.mws.reverse.map (fun i => Ev.mwEnter i n.path)
        ++ [Ev.call n.path, if n.o = .raises then Ev.raise n.path else Ev.ret n.path]) ++
  [Ev.hook (.field n.path false)]

mutual
/-- no resolver of the tree is deferred by the runtime -/
def syncNode : Node → Bool
  | .mk _ d _ c => !d && syncComp c
def syncComp : Comp → Bool
  | .leaf => true
  | .null => true
  | .obj fs => syncNodes fs
  | .list items => syncItems items
def syncNodes : List Node → Bool
  | [] => true
  | n :: ns => syncNode n && syncNodes ns
def syncItems : List Comp → Bool
  | [] => true
  | c :: cs => syncComp c && syncItems cs
end

mutual
private theorem sField (cfg : Cfg) : ∀ (path : Path) (n : Node), syncNode n = true →
    startField cfg path n = (blockingResolveField cfg path n, [])
  | path, .mk key d o c, h => by
    simp only [syncNode, Bool.and_eq_true, Bool.not_eq_true'] at h
    obtain ⟨hd, hc⟩ := h
    subst hd
    cases o with
    | returns => simp [startField, blockingResolveField, sComp cfg (path ++ [.key key]) c hc]
    | _ => simp [startField, blockingResolveField]
private theorem sComp (cfg : Cfg) : ∀ (p : Path) (c : Comp), syncComp c = true →
    startComplete cfg p c = (blockingComplete cfg p c, [])
  | p, .leaf, _ => by simp [startComplete, blockingComplete]
  | p, .null, _ => by simp [startComplete, blockingComplete]
  | p, .obj fs, h => by simpa [startComplete, blockingComplete] using sFields cfg p fs (by simpa [syncComp] using h)
  | p, .list items, h => by
    simpa [startComplete, blockingComplete] using sItems cfg p 0 items (by simpa [syncComp] using h)
private theorem sFields (cfg : Cfg) : ∀ (p : Path) (fs : List Node), syncNodes fs = true →
    startFields cfg p fs = (blockingFields cfg p fs, [])
  | p, [], _ => by simp [startFields, blockingFields]
  | p, n :: ns, h => by
    simp only [syncNodes, Bool.and_eq_true] at h
    simp [startFields, blockingFields, sField cfg p n h.1, sFields cfg p ns h.2]
private theorem sItems (cfg : Cfg) : ∀ (p : Path) (i : Nat) (cs : List Comp), syncItems cs = true →
    startItems cfg p i cs = (blockingItems cfg p i cs, [])
  | p, i, [], _ => by simp [startItems, blockingItems]
  | p, i, c :: cs, h => by
    simp only [syncItems, Bool.and_eq_true] at h
    simp [startItems, blockingItems, sComp cfg (p ++ [.idx i]) c h.1, sItems cfg p (i + 1) cs h.2]
end

private theorem drain_nil (cfg : Cfg) (fuel : Nat) (sched : List Nat) : drain cfg fuel [] sched = ([], sched) := by
  cases fuel <;> simp [drain]

private theorem execSerial_sync (cfg : Cfg) : ∀ (fs : List Node) (sched : List Nat), syncNodes fs = true →
    execSerial cfg fs sched = blockingFields cfg [] fs
  | [], sched, _ => by simp [execSerial, blockingFields]
  | n :: ns, sched, h => by
    simp only [syncNodes, Bool.and_eq_true] at h
    simp [execSerial, blockingFields, sField cfg [] n h.1, drain_nil, execSerial_sync cfg ns sched h.2]

/-- when the runtime defers no resolver (`BlockingRuntime`, or only synchronous resolvers on
    asyncio), `Executor` produces exactly the trace of `BlockingExecutor`, event for event -/
theorem executor_eq_blocking_when_not_deferred (cfg : Cfg) (r : Request) (h : syncNodes r.fields = true) :
    execBody cfg r = blockingFields cfg [] r.fields := by
  unfold execBody
  split
  · rfl
  · split
    · exact execSerial_sync cfg _ _ h
    · simp [execParallel, sFields cfg [] r.fields h, drain_nil]

/-- FULL ordering statement for ARBITRARY completion orders (not proved in this round, see
    `field_hooks_ordered_partial`): the events of every resolved field occur in the required
    order as a subsequence of the trace, whatever the schedule. -/
def FieldOrderAllSchedules : Prop :=
  ∀ (cfg : Cfg) (r : Request) (n : Resolved), n ∈ nodesOfFields [] r.fields → (order cfg n).Sublist (execBody cfg r)

/-- the full statement on an instance with three deferred fields, for ALL 27 schedules of length 3 -/
example : ∀ a ∈ [0, 1, 2], ∀ b ∈ [0, 1, 2], ∀ c ∈ [0, 1, 2], ∀ n ∈ nodesOfFields [] demoFields,
    (order ⟨[0]⟩ n).Sublist (execBody ⟨[0]⟩ (demoReq [a, b, c])) := by decide

/-- **field order, sequential configurations** (`_partial`: what is missing is the same order
    for runtimes that defer resolvers, `FieldOrderAllSchedules`; there the COUNT half is proved
    for every schedule by `field_hooks_once`, the ORDER half is tied by the correspondence, which
    compares whole traces under all schedules of a fixed forest and random schedules). `BlockingExecutor`, and `Executor` whenever no
    resolver is deferred: the block of every resolved field occurs CONTIGUOUSLY in the trace:
    start hook, middlewares in (last one outermost), resolver invoked, returned / raised,
    middlewares out, end hook — nothing of another field in between. -/
theorem field_hooks_ordered_partial (cfg : Cfg) (r : Request)
    (h : r.blockingExecutor = true ∨ syncNodes r.fields = true)
    (n : Resolved) (hn : n ∈ nodesOfFields [] r.fields) :
    chunk cfg n <:+: execBody cfg r := by
  have : execBody cfg r = blockingFields cfg [] r.fields := by
    rcases h with h | h
    · simp [execBody, h]
    · exact executor_eq_blocking_when_not_deferred cfg r h
  rw [this, field_hooks_once_blocking, List.flatMap_def]
  exact List.infix_of_mem_flatten (List.mem_map_of_mem hn)

end PyGql.Props.C16

/-
  C16 — finding N7 (asyncio: a field cancelled before the first step of its task never gets `on_field_end`) on the
  event-queue model `AsyncCancel.lean`, as a theorem pair:

  * `cancel_before_first_step_loses_end_hook` — today's `gather_values`: the reproduced schedule (`{ abort a { x y } }`, the
    root's cancellation arrives before either child ran: k = 0, n = 2): both started fields end `dead` — no end hook;
  * `forwarded_cancel_kills_unstarted_children_bounded` — for all n ≤ 4 and every arrival point k ≤ n: the k children that
    had been entered get their end hook, the n - k others never do;
  * `shielded_gather_ends_every_started_field_bounded` — with the shielded gather of proposed_fixes/C16-N7.patch: for all
    n ≤ 4 and every k ≤ n EVERY child ends with its end hook fired (the parent's wake-up is queued behind the children's
    first steps, so each child has been entered when it is cancelled).
  Bounded (`decide`); tied to the code only through the probe `abort-nested-coroutines` (verdicts with / without the patch).
-/
import PyGqlModel.AsyncCancel

namespace PyGql.Props.C16
open PyGql.AsyncCancel

theorem cancel_before_first_step_loses_end_hook :
    scenario false 2 0 = [.dead, .dead] ∧ scenario true 2 0 = [.ended, .ended] := by decide

theorem forwarded_cancel_kills_unstarted_children_bounded :
    ((List.range 5).all fun n => (List.range (n + 1)).all fun k =>
      scenario false n k == List.replicate k .ended ++ List.replicate (n - k) .dead) = true := by decide

theorem shielded_gather_ends_every_started_field_bounded :
    ((List.range 5).all fun n => (List.range (n + 1)).all fun k =>
      scenario true n k == List.replicate n .ended) = true := by decide

/-- "every started field gets its end hook" is FALSE of today's `gather_values` in this model … -/
theorem every_started_field_ends_refuted : ¬ (∀ n k, k ≤ n → lost (scenario false n k) = 0) := by
  intro h
  have := h 2 0 (by omega)
  revert this
  decide

end PyGql.Props.C16

/-
  C20 — `operations_stay_valid_rules` is not vacuous, and its hypothesis `OpsRooted` cannot be dropped.
  The eight rules are checked on concrete documents through an executable form (`rulesB`, sound by
  `rules_of_rulesB`), so that the hypotheses of the theorem are established by evaluation.
-/
import PyGqlModel.Props.C20_rules_doc

set_option linter.unusedSimpArgs false
set_option linter.unusedVariables false

namespace PyGql.Props.C20
open PyGql PyGql.Differ PyGql.Diff PyGql.Validate PyGql.Validate.Spec

/-- executable form of FieldsOnCorrectType, ScalarLeafs, KnownArgumentNames, ProvidedRequiredArguments at one node -/
def nodeOkB (s : SchemaD) (p : Node × View) : Bool :=
  match p.1 with
  | .field _ args _ hs =>
    (!p.2.parent.isSome || p.2.field.isSome) &&
    (match p.2.type with
      | some t => (!isLeaf s t.base || !hs) && (!isComposite s t.base || hs)
      | none => true) &&
    (match p.2.field with
      | some fd => args.all (fun a => fd.args.any (fun ad => ad.name == a.name)) &&
          fd.args.all (fun ad => !Validate.ArgD.required ad || args.any (fun a => a.name == ad.name))
      | none => true)
  | .directive dr =>
    (match p.2.directive with
      | some dd => dr.args.all (fun a => dd.args.any (fun ad => ad.name == a.name)) &&
          dd.args.all (fun ad => !Validate.ArgD.required ad || dr.args.any (fun a => a.name == ad.name))
      | none => true)
  | _ => true

/-- executable form of KnownTypeNames, VariablesAreInputTypes, FragmentsOnCompositeTypes at one node -/
def plainOkB (s : SchemaD) (x : Node) : Bool :=
  match x with
  | .typeNode t => (s.findType t.base).isSome
  | .varDef v => (match typeFromAst s v.type with | some t => isInputTy s t | none => false)
  | .inline (some on) _ => isComposite s on
  | .fragmentDef _ on _ => isComposite s on
  | _ => true

/-- executable form of `OpsRooted` -/
def rootedB (s : SchemaD) (d : Doc) : Bool :=
  (nodes d).all fun x => match x with
    | .operation kind .. => (rootType s kind).isSome
    | _ => true

theorem rooted_of_rootedB (s : SchemaD) (d : Doc) (h : rootedB s d = true) : OpsRooted s d := by
  unfold rootedB at h
  simp only [List.all_eq_true] at h
  intro x hx kind name vars dirs sels e; subst e; simpa using h _ hx

/-- executable form of FieldsOnCorrectType, complete -/
def fieldsB (s : SchemaD) (d : Doc) : Bool :=
  (typedNodes s d).all fun p => match p.1 with
    | .field .. => !p.2.parent.isSome || p.2.field.isSome
    | _ => true

theorem fieldsB_of (s : SchemaD) (d : Doc) (h : fieldsOnCorrectType s d) : fieldsB s d = true := by
  unfold fieldsB
  simp only [List.all_eq_true]
  intro p hp
  obtain ⟨nd, v⟩ := p
  cases nd <;> try rfl
  rename_i name args dirs hs
  have := h _ hp name args dirs hs rfl
  simp only at this ⊢
  cases hpar : v.parent with
  | none => rfl
  | some q => rw [hpar] at this; simpa using this rfl

/-- executable form of KnownDirectives at one node -/
def dirOkB (s : SchemaD) (p : Node × List Anc) : Bool :=
  match p.1 with
  | .directive dr =>
    (match findDirective s dr.name with
      | some sd => (match p.2 with | a :: _ => sd.locations.contains a.location | [] => true)
      | none => false)
  | _ => true

def rulesB (s : SchemaD) (d : Doc) : Bool :=
  (typedNodes s d).all (nodeOkB s) && (nodes d).all (plainOkB s) && (gnDoc ancDown [] d).all (dirOkB s)

/-- the executable form is sound -/
theorem rules_of_rulesB (s : SchemaD) (d : Doc) (h : rulesB s d = true) : SchemaRules s d := by
  unfold rulesB at h
  simp only [Bool.and_eq_true, List.all_eq_true] at h
  obtain ⟨⟨hT, hP⟩, hD⟩ := h
  refine ⟨?_, ?_, ⟨?_, ?_⟩, ?_, ?_, ⟨?_, ?_⟩, ⟨?_, ?_⟩, ?_⟩
  · intro x hx t e; subst e; simpa [plainOkB] using hP _ hx
  · intro x hx v e; subst e
    have := hP _ hx
    simp only [plainOkB] at this
    cases ht : typeFromAst s v.type with
    | none => rw [ht] at this; cases this
    | some t => rw [ht] at this; exact ⟨t, rfl, this⟩
  · intro x hx on dirs e; subst e; simpa [plainOkB] using hP _ hx
  · intro x hx name on dirs e; subst e; simpa [plainOkB] using hP _ hx
  · intro p hp name args dirs hs e hpar
    obtain ⟨nd, v⟩ := p
    simp only at e; subst e
    have := hT _ hp
    simp only [nodeOkB, Bool.and_eq_true, Bool.or_eq_true, Bool.not_eq_true'] at this
    rcases this.1.1 with h1 | h1
    · simp only at hpar; rw [hpar] at h1; cases h1
    · exact h1
  · intro p hp name args dirs hs e t ht
    obtain ⟨nd, v⟩ := p
    simp only at e; subst e
    have := hT _ hp
    simp only [nodeOkB, Bool.and_eq_true, Bool.or_eq_true, Bool.not_eq_true'] at this
    have h2 := this.1.2
    simp only at ht
    rw [ht] at h2
    simp only [Bool.and_eq_true, Bool.or_eq_true, Bool.not_eq_true'] at h2
    constructor
    · intro hl; rcases h2.1 with h3 | h3
      · rw [hl] at h3; cases h3
      · exact h3
    · intro hc; rcases h2.2 with h3 | h3
      · rw [hc] at h3; cases h3
      · exact h3
  · intro p hp name args dirs hs e fd hfd a ha
    obtain ⟨nd, v⟩ := p
    simp only at e; subst e
    have := hT _ hp
    simp only [nodeOkB, Bool.and_eq_true] at this
    have h3 := this.2
    simp only at hfd
    rw [hfd] at h3
    simp only [Bool.and_eq_true, List.all_eq_true, List.any_eq_true, beq_iff_eq] at h3
    obtain ⟨ad, had, e⟩ := h3.1 a ha
    exact ⟨ad, had, e⟩
  · intro p hp dr e dd hdd a ha
    obtain ⟨nd, v⟩ := p
    simp only at e; subst e
    have h3 := hT _ hp
    simp only [nodeOkB] at h3
    simp only at hdd
    rw [hdd] at h3
    simp only [Bool.and_eq_true, List.all_eq_true, List.any_eq_true, beq_iff_eq] at h3
    obtain ⟨ad, had, e⟩ := h3.1 a ha
    exact ⟨ad, had, e⟩
  · intro p hp name args dirs hs e fd hfd ad had hreq
    obtain ⟨nd, v⟩ := p
    simp only at e; subst e
    have := hT _ hp
    simp only [nodeOkB, Bool.and_eq_true] at this
    have h3 := this.2
    simp only at hfd
    rw [hfd] at h3
    simp only [Bool.and_eq_true, List.all_eq_true, List.any_eq_true, beq_iff_eq, Bool.or_eq_true,
      Bool.not_eq_true'] at h3
    rcases h3.2 ad had with h4 | h4
    · rw [hreq] at h4; cases h4
    · exact h4
  · intro p hp dr e dd hdd ad had hreq
    obtain ⟨nd, v⟩ := p
    simp only at e; subst e
    have h3 := hT _ hp
    simp only [nodeOkB] at h3
    simp only at hdd
    rw [hdd] at h3
    simp only [Bool.and_eq_true, List.all_eq_true, List.any_eq_true, beq_iff_eq, Bool.or_eq_true,
      Bool.not_eq_true'] at h3
    rcases h3.2 ad had with h4 | h4
    · rw [hreq] at h4; cases h4
    · exact h4
  · intro p hp dr e
    obtain ⟨nd, anc⟩ := p
    simp only at e; subst e
    have h3 := hD _ hp
    simp only [dirOkB] at h3
    cases hf : findDirective s dr.name with
    | none => rw [hf] at h3; cases h3
    | some sd =>
      rw [hf] at h3
      refine ⟨sd, rfl, ?_⟩
      intro a rest er
      simp only at er
      rw [er] at h3
      simpa using h3


/-- executable form of PossibleFragmentSpreads -/
def spreadsB (s : SchemaD) (fx : Fixes) (d : Doc) : Bool :=
  (viewNodes s d).all fun q =>
    match q.1 with
    | .spread name _ =>
      (match AL.get? (fragTypes s d) name, spreadParent fx q.2 with
        | some ft, some p => !isComposite s ft || !isComposite s p || typesOverlap s ft p
        | _, _ => true)
    | .inline _ _ =>
      (match q.2.type, q.2.parent with
        | some (.named t), some p => !isComposite s t || !isComposite s p || typesOverlap s t p
        | _, _ => true)
    | _ => true

theorem spreads_of_spreadsB (s : SchemaD) (fx : Fixes) (d : Doc) (h : spreadsB s fx d = true) :
    possibleFragmentSpreads s fx d := by
  unfold spreadsB at h
  simp only [List.all_eq_true] at h
  intro q hq
  obtain ⟨nd, v⟩ := q
  constructor
  · intro name dirs e ft p hget hpar hcf hcp
    simp only at e; subst e
    have := h _ hq
    simp only [hget, hpar, hcf, hcp, Bool.not_true, Bool.false_or] at this
    exact this
  · intro on dirs e t p htype hpar hct hcp
    simp only at e; subst e
    have := h _ hq
    simp only at htype hpar
    simp only [htype, hpar, hct, hcp, Bool.not_true, Bool.false_or] at this
    exact this

/-! ### a concrete compatible evolution -/

private def builtins : List TypeD :=
  [{ kind := .scalar, name := "Int" }, { kind := .scalar, name := "String" }, { kind := .scalar, name := "Boolean" },
   { kind := .object, name := "__Schema" }, { kind := .object, name := "__Type" }]

private def skipD : DirectiveD :=
  { name := "skip", locations := ["FIELD", "FRAGMENT_SPREAD", "INLINE_FRAGMENT"],
    args := [{ name := "if", type := .nonNull (.named "Boolean") }] }

private def rO : SchemaD :=
  { query := some "Query", directives := [skipD],
    types := builtins ++
      [{ kind := .object, name := "Query",
         fields := [{ name := "pet", type := .named "Pet", args := [{ name := "id", type := .nonNull (.named "Int") }] },
                    { name := "n", type := .named "Int" }] },
       { kind := .interface, name := "Pet", fields := [{ name := "name", type := .named "String" }] },
       { kind := .object, name := "Dog", interfaces := ["Pet"],
         fields := [{ name := "name", type := .named "String" }, { name := "bark", type := .named "Int" }] }] }

private def rNTypes : List TypeD :=
  builtins ++
      [{ kind := .object, name := "Query",
         fields := [{ name := "pet", type := .named "Pet",
                      args := [{ name := "id", type := .named "Int" }, { name := "strict", type := .named "Boolean" }] },
                    { name := "n", type := .nonNull (.named "Int") }] },
       { kind := .interface, name := "Pet", fields := [{ name := "name", type := .named "String" }] },
       { kind := .object, name := "Dog", interfaces := ["Pet"],
         fields := [{ name := "name", type := .named "String" }, { name := "bark", type := .named "Int" }] },
       { kind := .object, name := "Mutation", fields := [{ name := "m", type := .named "Int" }] }]

/-- new schema: an optional argument added, the required one relaxed, an output type made non-null, a type added -/
private def rN : SchemaD := { query := some "Query", directives := [skipD], types := rNTypes }

/-- the same, with the added type made the mutation root -/
private def rNM : SchemaD := { query := some "Query", mutation := some "Mutation", directives := [skipD], types := rNTypes }

/-- `query ($i: Int!) { n pet(id: $i) { name @skip(if: true) ... on Dog { bark } ...F } }  fragment F on Pet { __typename }` -/
private def rDoc : Doc :=
  { defs := [.op "query" none [{ name := "i", type := .nonNull (.named "Int"), default := none }] [] 0
      [.field none "n" [] [] false 0 [],
       .field none "pet" [{ name := "id", value := .var "i" }] [] true 1
         [.field none "name" [] [{ name := "skip", args := [{ name := "if", value := .bool true }] }] false 0 [],
          .inline (some "Dog") [] 2 [.field none "bark" [] [] false 0 []],
          .spread "F" []]],
     .frag "F" "Pet" [] 3 [.field none "__typename" [] [] false 0 []]] }

/-- `mutation { foo }` -/
private def rMut : Doc := { defs := [.op "mutation" none [] [] 0 [.field none "foo" [] [] false 0 []]] }

private theorem rO_wf : OldWf rO := by
  refine ⟨rfl, ?_, by decide, by decide, by decide⟩
  decide

private theorem rN_wf : NewWf rN := by
  constructor <;> simp [Uniq, rN, rNTypes, builtins, skipD]
private theorem rNM_wf : NewWf rNM := by
  constructor <;> simp [Uniq, rNM, rNTypes, builtins, skipD]


example : diffSchema rO rN 2 = [] ∧ (diffSchema rO rN 0).length = 4 := by decide
example : rulesB rO rDoc = true := by decide

/-- the hypotheses of `operations_stay_valid_rules` are met by a non-trivial instance, and the conclusion follows -/
example : SchemaRules rN rDoc :=
  operations_stay_valid_rules rO rN (by decide) rO_wf rN_wf rDoc
    (rooted_of_rootedB rO rDoc (by decide)) (rules_of_rulesB rO rDoc (by decide))

/-- the same instance for PossibleFragmentSpreads (the document spreads `F on Pet` and `... on Dog` inside `pet: Pet`) -/
example : possibleFragmentSpreads rN {} rDoc :=
  nobreaking_possibleFragmentSpreads rO rN (by decide) rO_wf rN_wf rDoc {} rfl
    (rooted_of_rootedB rO rDoc (by decide)) (rules_of_rulesB rO rDoc (by decide))
    (spreads_of_spreadsB rO {} rDoc (by decide))

/-- **`OpsRooted` cannot be dropped (finding G6).** `mutation { foo }` satisfies every rule on a schema without a
    mutation type (no rule looks at an operation whose root type does not exist); adding the mutation type is not a
    BREAKING change (`RootTypeAdded`, `TypeAdded`: COMPATIBLE); on the new schema FieldsOnCorrectType fails. -/
theorem unrooted_operation_refutes :
    ∃ (o n : SchemaD) (d : Doc), diffSchema o n 2 = [] ∧ OldWf o ∧ NewWf n ∧ SchemaRules o d
      ∧ ¬ fieldsOnCorrectType n d := by
  exact ⟨rO, rNM, rMut, by decide, rO_wf, rNM_wf, rules_of_rulesB rO rMut (by decide),
    fun hF => absurd (fieldsB_of rNM rMut hF) (by decide)⟩

/-- the same pair of schemas: the operation has no root type on the old schema -/
example : rootedB rO rMut = false := by decide

end PyGql.Props.C20

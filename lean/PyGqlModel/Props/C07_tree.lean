/-
  C07 — property theorems, part 8: the WHOLE response tree. Every resolver call anywhere in the tree (nested selections,
  lists of objects, objects of different runtime types behind an abstract type) receives keyword arguments that conform to
  the argument definitions of the field AS DEFINED BY ITS OWN PARENT OBJECT TYPE; a rejected argument at any depth yields a
  field error and no call for that field (and nothing below it) while its siblings are still executed.
  Trace model: `execTree` / `executeTree` in PyGqlModel/CoerceExec.lean; tied to the code by the `tree` stream of
  harness/corr/C07.py (recording resolvers on every field of a nested interface/object schema).
-/
import PyGqlModel.Props.C07_bridge

set_option linter.unusedSimpArgs false
set_option linter.unusedVariables false

namespace PyGql.Props.C07
open PyGql PyGql.Coerce

/-- the statement about one event: a resolver call carries conforming keyword arguments for the definition its parent type gives the field -/
def GoodEv (reg : Reg) (tbl : ArgTable) : TEv → Prop
  | .call _ ty field kw => ∃ defs, tbl ty field = some defs ∧ ConformsFields reg defs kw
  | _ => True

/-- side conditions on one selection node, for every object type it may be resolved on: the argument definitions are
    well-formed (`ArgsOK`) and the variables used in the node's arguments fit their positions there -/
def NodeOK (reg : Reg) (tbl : ArgTable) (env : List (String × PV)) (sel : SelT) : Prop :=
  ∀ ty defs, tbl ty sel.field = some defs →
    ArgsOK reg defs ∧ ∀ d, d ∈ defs → ∀ l, lookupLast d.name sel.args = some l → VarsFit reg (some env) d.type l

private theorem mem_andThen {a b : List TEv} {ev : TEv} (h : ev ∈ andThen a b) : ev ∈ a ∨ ev ∈ b := by
  unfold andThen at h
  split at h
  · exact .inl h
  · exact List.mem_append.1 h

private theorem completeItems_good {reg : Reg} {tbl : ArgTable} {execSub : String → RPath → List SelT → List TEv} {sub : List SelT}
    (hsub : ∀ ty p ev, ev ∈ execSub ty p sub → GoodEv reg tbl ev) (p : RPath) :
    ∀ (items : List (Option String)) (i : Nat) (ev : TEv), ev ∈ completeItems execSub sub p i items → GoodEv reg tbl ev := by
  intro items
  induction items with
  | nil => intro i ev h; simp [completeItems] at h
  | cons it rest ih =>
    intro i ev h
    cases it with
    | none => exact ih _ ev (by simpa [completeItems] using h)
    | some ty =>
      simp only [completeItems] at h
      rcases mem_andThen h with h | h
      · exact hsub _ _ ev h
      · exact ih _ ev h

private theorem execField_good {reg : Reg} (hreg : RegOK reg) {fuelC : Nat} {env : List (String × PV)} {tbl : ArgTable} {w : TWorld}
    {execSub : String → RPath → List SelT → List TEv} {ty : String} {path : RPath} {sel : SelT}
    (hnode : NodeOK reg tbl env sel)
    (hsub : ∀ ty p ev, ev ∈ execSub ty p sel.sub → GoodEv reg tbl ev) :
    ∀ ev, ev ∈ execFieldT reg fuelC env tbl w execSub ty path sel → GoodEv reg tbl ev := by
  intro ev h
  unfold execFieldT at h
  split at h
  · simp at h
  · rename_i defs hdefs
    split at h
    · simp at h; subst h; trivial
    · simp at h; subst h; trivial
    · rename_i kw hkw
      have hok := hnode ty defs hdefs
      have hc := arguments_sound hreg fuelC env sel.args defs kw hok.1 hok.2 hkw
      have hgood : GoodEv reg tbl (.call (path ++ [.key sel.key]) ty sel.field (dictOfAssignments kw)) := by
        rw [dictOfAssignments_conforms hok.1.pyNamesDistinct hc]
        exact ⟨defs, hdefs, hc⟩
      split at h
      · simp at h
        rcases h with h | h
        · subst h; exact hgood
        · subst h; trivial
      · rcases List.mem_cons.1 h with h | h
        · subst h; exact hgood
        · generalize w ty sel.field (path ++ [Seg.key sel.key]) (dictOfAssignments kw) = v at h
          cases v with
          | obj ty' => exact hsub _ _ ev (by simpa [completeT] using h)
          | objs items => exact completeItems_good hsub _ items 0 ev (by simpa [completeT] using h)
          | null => simp [completeT] at h
          | leaf => simp [completeT] at h
          | raised => simp [completeT] at h

/-- **every_call_conforms (whole tree).** For every fuel, registry, argument table, resolver world, runtime types and nesting:
    every `call` event of the execution of a selection forest carries keyword arguments conforming to the argument
    definitions that the call's own parent object type gives to the field. -/
theorem every_call_conforms_tree {reg : Reg} (hreg : RegOK reg) (fuelC : Nat) (env : List (String × PV)) (tbl : ArgTable) (w : TWorld) :
    ∀ (fuel : Nat) (ty : String) (path : RPath) (sels : List SelT),
      (∀ sel, InTree sel sels → NodeOK reg tbl env sel) →
      ∀ ev, ev ∈ execTree reg fuelC env tbl w fuel ty path sels → GoodEv reg tbl ev := by
  intro fuel
  induction fuel with
  | zero => intro ty path sels _ ev h; simp [execTree] at h; subst h; trivial
  | succ n ih =>
    intro ty path sels hall
    simp only [execTree]
    -- the loop over the response keys
    have key : ∀ (rest : List SelT), (∀ sel, sel ∈ rest → sel ∈ sels) →
        ∀ ev, ev ∈ execSelsT reg fuelC env tbl w (execTree reg fuelC env tbl w n) ty path rest → GoodEv reg tbl ev := by
      intro rest
      induction rest with
      | nil => intro _ ev h; simp [execSelsT] at h
      | cons sel rest ihr =>
        intro hmem ev h
        simp only [execSelsT] at h
        rcases mem_andThen h with h | h
        · have hin := hmem sel List.mem_cons_self
          exact execField_good hreg (hall sel (.here hin))
            (fun ty' p' ev' hev' => ih ty' p' sel.sub (fun s hs => hall s (.deeper hin hs)) ev' hev') ev h
        · exact ihr (fun s hs => hmem s (List.mem_cons_of_mem _ hs)) ev h
    exact key sels (fun _ h => h)

/-- **no_resolver_call_on_rejected_arguments (any depth).** If the arguments of a selection are rejected for the type it is
    being resolved on, that selection contributes exactly one field error — no call, nothing of its sub-selections — and the
    remaining selections of the same object are executed exactly as if it were not there. -/
theorem rejected_field_is_local (reg : Reg) (fuelC : Nat) (env : List (String × PV)) (tbl : ArgTable) (w : TWorld)
    (execSub : String → RPath → List SelT → List TEv) (ty : String) (path : RPath) (sel : SelT) (rest : List SelT)
    (defs : List InField) (hdefs : tbl ty sel.field = some defs)
    (hrej : coerceArgumentValues reg fuelC env sel.args defs = .error .coercion) :
    execSelsT reg fuelC env tbl w execSub ty path (sel :: rest) =
      .fieldError (path ++ [.key sel.key]) :: execSelsT reg fuelC env tbl w execSub ty path rest := by
  simp [execSelsT, execFieldT, hdefs, hrej, andThen, TEv.isCrash]

/-- … and conversely a call event for a selection means its arguments were accepted -/
theorem call_means_accepted (reg : Reg) (fuelC : Nat) (env : List (String × PV)) (tbl : ArgTable) (w : TWorld)
    (execSub : String → RPath → List SelT → List TEv) (ty : String) (path : RPath) (sel : SelT) (kw : List (String × PV))
    (h : TEv.call (path ++ [.key sel.key]) ty sel.field kw ∈ execFieldT reg fuelC env tbl w execSub ty path sel)
    (hfresh : ∀ ty' p' ev, ev ∈ execSub ty' p' sel.sub → ev ≠ TEv.call (path ++ [.key sel.key]) ty sel.field kw) :
    ∃ defs kw', tbl ty sel.field = some defs ∧ coerceArgumentValues reg fuelC env sel.args defs = .ok kw' ∧ kw = dictOfAssignments kw' := by
  unfold execFieldT at h
  split at h
  · simp at h
  · rename_i defs hdefs
    split at h
    · simp at h
    · simp at h
    · rename_i kw' hkw
      refine ⟨defs, kw', hdefs, hkw, ?_⟩
      split at h
      · simp at h; exact h
      · rcases List.mem_cons.1 h with h | h
        · cases h; rfl
        · generalize w ty sel.field (path ++ [Seg.key sel.key]) (dictOfAssignments kw') = v at h
          exfalso
          cases v with
          | obj ty' => exact hfresh _ _ _ (by simpa [completeT] using h) rfl
          | objs items =>
            have : ∀ (items : List (Option String)) (i : Nat), TEv.call (path ++ [.key sel.key]) ty sel.field kw ∈
                completeItems execSub sel.sub (path ++ [.key sel.key]) i items → False := by
              intro items
              induction items with
              | nil => intro i h; simp [completeItems] at h
              | cons it rest ih =>
                intro i h
                cases it with
                | none => exact ih _ (by simpa [completeItems] using h)
                | some t =>
                  simp only [completeItems] at h
                  rcases mem_andThen h with h | h
                  · exact hfresh _ _ _ h rfl
                  · exact ih _ h
            exact this items 0 (by simpa [completeT] using h)
          | null => simp [completeT] at h
          | leaf => simp [completeT] at h
          | raised => simp [completeT] at h

/-- rejected variables: nothing runs, at any depth -/
theorem no_resolver_call_on_rejected_variables_tree (reg : Reg) (fuelC fuel : Nat) (defs : List VarDef) (variables : List (String × JV))
    (tbl : ArgTable) (w : TWorld) (root : String) (sels : List SelT) (e : Err)
    (h : coerceVariableValues reg fuelC variables defs = .error e) :
    ∀ ev, ev ∈ executeTree reg fuelC fuel defs variables tbl w root sels → ∀ p t f kw, ev ≠ .call p t f kw := by
  intro ev hev p t f kw
  cases e <;> simp [executeTree, h] at hev <;> subst hev <;> simp

/-- **every_validated_call_conforms (whole tree).** With only checked hypotheses: well-formed registry, well-formed argument
    definitions on every type, well-formed variable types, and every variable usage in every node accepted by the validator
    against every definition the node can be resolved with. -/
theorem every_validated_call_conforms_tree {reg : Reg} (hreg : RegOK reg) (fuelC fuel : Nat) (defs : List VarDef)
    (variables : List (String × JV)) (tbl : ArgTable) (w : TWorld) (root : String) (sels : List SelT)
    (hwf : ∀ d, d ∈ defs → d.type.wf = true)
    (hnodes : ∀ sel, InTree sel sels → ∀ ty adefs, tbl ty sel.field = some adefs →
        ArgsOK reg adefs ∧ ∀ d, d ∈ adefs → ∀ l, lookupLast d.name sel.args = some l → VarsAllowed reg defs d.type d.default.isSome l) :
    ∀ ev, ev ∈ executeTree reg fuelC fuel defs variables tbl w root sels → GoodEv reg tbl ev := by
  intro ev h
  unfold executeTree at h
  split at h
  · rename_i env henv
    refine every_call_conforms_tree hreg fuelC env tbl w fuel root [] sels (fun sel hin ty adefs hd => ?_) ev h
    have := hnodes sel hin ty adefs hd
    exact ⟨this.1, fun d hd' l hl =>
      varsFit_of_allowed (variables_sound hreg fuelC variables defs env hwf henv) (this.2 d hd' l hl)⟩
  · simp at h; subst h; trivial
  · simp at h; subst h; trivial

end PyGql.Props.C07

/-
  C20 — "whenever no breaking change is reported, every operation valid against the old schema is valid against
  the new one", towards the C06 SPECIFICATION predicates (`Spec/ValidSpec.lean`, `Spec/TypedNodes.lean`,
  `Spec/CtxNodes.lean`). This file: what an empty BREAKING report gives about the schema look-ups of the
  validation rules (`Validate/Schema.lean`: `kindOf`, `fieldOf`, `getFieldDef`, `rootType`, `findDirective`).
  `C20_rules_doc.lean` lifts them to documents.

  Facts about the two schema descriptions used as hypotheses; both follow from `Schema.validate()` having
  passed, which `diff_schema` calls on both schemas before it compares anything:
  * `OldWf o`: the old schema has a query type, the types of its fields are defined (the type map is closed),
    and the dump contains `String`, `__Schema`, `__Type` (every dump does: built-ins and introspection types
    are part of `Schema.types`);
  * `NewWf n`: argument names are unique per field and per directive ("Duplicate argument" rule).
-/
import PyGqlModel.Props.C20_operations
import PyGqlModel.Props.C20_refl
import PyGqlModel.Validate.Schema

set_option linter.unusedSimpArgs false
set_option linter.unusedVariables false

namespace PyGql.Props.C20
open PyGql PyGql.Differ PyGql.Diff

structure OldWf (o : SchemaD) : Prop where
  query : o.query.isSome = true
  closed : ∀ t ∈ o.types, ∀ f ∈ t.fields, (Validate.kindOf o f.type.base).isSome = true
  metas : (Validate.kindOf o "String").isSome = true ∧ (Validate.kindOf o "__Schema").isSome = true
    ∧ (Validate.kindOf o "__Type").isSome = true

structure NewWf (n : SchemaD) : Prop where
  fieldArgs : ∀ t ∈ n.types, ∀ f ∈ t.fields, Uniq ArgD.name f.args
  directiveArgs : ∀ d ∈ n.directives, Uniq ArgD.name d.args

/-- what operations may rely on about the arguments of a kept field / directive: every argument is still
    defined, and every argument that is required now was required (so: was given) before -/
def ArgsRel (as bs : List ArgD) : Prop :=
  (∀ a ∈ as, ∃ b ∈ bs, b.name = a.name) ∧
  (∀ b ∈ bs, Validate.ArgD.required b = true → ∃ a ∈ as, a.name = b.name ∧ Validate.ArgD.required a = true)

theorem ArgsRel.refl (as : List ArgD) : ArgsRel as as :=
  ⟨fun a ha => ⟨a, ha, rfl⟩, fun b hb hr => ⟨b, hb, rfl, hr⟩⟩

private theorem argsRel_of (as bs : List ArgD)
    (h1 : ∀ a ∈ as, ∃ b, bs.find? (·.name == a.name) = some b ∧ InCompat a.type b.type)
    (h2 : ∀ b ∈ bs, as.find? (·.name == b.name) = none → Diff.ArgD.required b = false)
    (h3 : ∀ a ∈ as, ∀ b, bs.find? (·.name == a.name) = some b → becameRequired a b = false)
    (u : Uniq ArgD.name bs) : ArgsRel as bs := by
  constructor
  · intro a ha
    obtain ⟨b, hb, _⟩ := h1 a ha
    exact ⟨b, List.mem_of_find?_eq_some hb, by simpa using List.find?_some hb⟩
  · intro b hb hr
    have hr' : Diff.ArgD.required b = true := hr
    cases hfa : as.find? (·.name == b.name) with
    | none => rw [h2 b hb hfa] at hr'; cases hr'
    | some a =>
      have ha : a ∈ as := List.mem_of_find?_eq_some hfa
      have han : a.name = b.name := by simpa using List.find?_some hfa
      have hfb : bs.find? (·.name == a.name) = some b := by rw [han]; exact u b hb
      have := h3 a ha b hfb
      unfold becameRequired at this
      rw [hr'] at this
      refine ⟨a, ha, han, ?_⟩
      show Diff.ArgD.required a = true
      cases hra : Diff.ArgD.required a with
      | true => rfl
      | false => rw [hra] at this; simp at this

private theorem mem_of_findType' {s : SchemaD} {x : String} {t : TypeD} (h : s.findType x = some t) :
    t ∈ s.types ∧ t.name = x := by
  unfold SchemaD.findType at h
  exact ⟨List.mem_of_find?_eq_some h, by simpa using List.find?_some h⟩

private theorem find_filter_of_find' {α} (l : List α) (p q : α → Bool) (x : α)
    (h : l.find? p = some x) (hq : q x = true) : (l.filter q).find? p = some x := by
  induction l with
  | nil => simp at h
  | cons a l ih =>
    simp only [List.find?_cons] at h
    by_cases hqa : q a = true
    · simp only [List.filter_cons, hqa, if_true, List.find?_cons]
      cases hp : p a with
      | true => simp [hp] at h; simp [h]
      | false => simp [hp] at h; exact ih h
    · have hqa' : q a = false := by simpa using hqa
      simp only [List.filter_cons, hqa']
      cases hp : p a with
      | true => simp [hp] at h; subst h; simp [hq] at hqa'
      | false => simp [hp] at h; exact ih h

private theorem matching_of_find' (o n : SchemaD) (t t' : TypeD) (k : Kind) (ht : t ∈ o.types)
    (hf : n.findType t.name = some t') (hk : t.kind = k) (hk' : t'.kind = k) :
    (t, t') ∈ matchingPairs o n k := by
  unfold matchingPairs
  apply List.mem_filterMap.mpr
  refine ⟨t, List.mem_filter.mpr ⟨ht, by simp [hk]⟩, ?_⟩
  unfold SchemaD.findType at hf
  rw [find_filter_of_find' n.types (fun y => y.name == t.name) (fun y => y.kind == k) t' hf (by simp [hk'])]

private theorem absurd_of_breaking' {o n : SchemaD} (h : diffSchema o n 2 = []) {c : Change}
    (hc : c ∈ diffSchema o n 0) (hs : 2 ≤ c.severity) : False := by
  have := reported_at_severity o n c 2 hc hs
  rw [h] at this; exact absurd this (List.not_mem_nil)

private theorem sev_ge' (c : String) (k : List (String × String)) (h : sev c false = 2) : 2 ≤ (mk c k).severity := by
  rw [show (mk c k).severity = sev c false from rfl, h]; exact Nat.le_refl 2

/-- a type of the old schema is found in the new one, with the same kind -/
theorem nobreaking_findType (o n : SchemaD) (h : diffSchema o n 2 = []) (x : String) (t : TypeD)
    (ho : o.findType x = some t) : ∃ t', n.findType x = some t' ∧ t'.kind = t.kind := by
  obtain ⟨htm, htn⟩ := mem_of_findType' ho
  have hs := nobreaking_types_kept o n h t htm
  rw [htn] at hs
  cases hn : n.findType x with
  | none => rw [hn] at hs; simp at hs
  | some t' => exact ⟨t', rfl, (nobreaking_kinds_kept o n h t t' htm (by rw [htn]; exact hn)).symm⟩

/-- **kinds (validator look-up)**: `kindOf` of a known type name is unchanged -/
theorem nobreaking_V_kindOf (o n : SchemaD) (h : diffSchema o n 2 = []) (x : String) (k : Kind)
    (hk : Validate.kindOf o x = some k) : Validate.kindOf n x = some k := by
  unfold Validate.kindOf at hk ⊢
  cases ho : o.findType x with
  | none => rw [ho] at hk; simp at hk
  | some t =>
    obtain ⟨t', hn, hkk⟩ := nobreaking_findType o n h x t ho
    rw [ho] at hk
    rw [hn]
    simp only [Option.map_some, Option.some.injEq] at hk ⊢
    rw [hkk]; exact hk

/-- **fields (validator look-up)**: a field of an object / interface type is kept; it returns the same named
    type; its arguments are kept and none becomes required -/
theorem nobreaking_V_fieldOf (o n : SchemaD) (h : diffSchema o n 2 = []) (wn : NewWf n)
    (p name : String) (fd : FieldD) (hf : Validate.fieldOf o p name = some fd) :
    ∃ fd', Validate.fieldOf n p name = some fd' ∧ fd'.type.base = fd.type.base ∧ ArgsRel fd.args fd'.args
      ∧ safeOut fd.type fd'.type = true := by
  unfold Validate.fieldOf at hf ⊢
  by_cases hk : Validate.isObjOrIface o p = true
  · rw [if_pos hk] at hf
    cases ho : o.findType p with
    | none => rw [ho] at hf; simp at hf
    | some t =>
      rw [ho] at hf
      simp only [Option.bind_some] at hf
      obtain ⟨htm, htn⟩ := mem_of_findType' ho
      obtain ⟨t', hn, hkk⟩ := nobreaking_findType o n h p t ho
      have hfm : fd ∈ t.fields := List.mem_of_find?_eq_some hf
      have hfn : fd.name = name := by simpa using List.find?_some hf
      have hkind : t.kind = .object ∨ t.kind = .interface := by
        unfold Validate.isObjOrIface Validate.kindOf at hk
        rw [ho] at hk
        simp only [Option.map_some] at hk
        cases hh : t.kind <;> simp [hh] at hk <;> simp
      have hn' : n.findType t.name = some t' := by rw [htn]; exact hn
      have hhost : FieldHost o n t t' := by
        rcases hkind with hk1 | hk1
        · exact Or.inl (matching_of_find' o n t t' .object htm hn' hk1 (by rw [hkk]; exact hk1))
        · exact Or.inr (matching_of_find' o n t t' .interface htm hn' hk1 (by rw [hkk]; exact hk1))
      have hk' : Validate.isObjOrIface n p = true := by
        unfold Validate.isObjOrIface Validate.kindOf
        rw [hn]
        simp only [Option.map_some]
        rcases hkind with hk1 | hk1 <;> rw [hkk, hk1]
      rw [if_pos hk', hn]
      simp only [Option.bind_some]
      cases hg : t'.fields.find? (·.name == fd.name) with
      | none =>
        exact (absurd_of_breaking' h (removed_field_reported_any o n t t' fd hhost hfm hg) (sev_ge' _ _ (by decide))).elim
      | some g =>
        rw [← hfn, hg]
        have hso : safeOut fd.type g.type = true := by
          cases hso : safeOut fd.type g.type with
          | true => rfl
          | false =>
            exact (absurd_of_breaking' h (retyped_field_reported_any o n t t' fd g hhost hfm hg hso) (sev_ge' _ _ (by decide))).elim
        refine ⟨g, rfl, (safeOut_base _ _ hso).symm, ?_, hso⟩
        · have ha := nobreaking_field_arguments_any o n h t t' hhost fd g hfm hg
          have hgm : g ∈ t'.fields := List.mem_of_find?_eq_some hg
          exact argsRel_of fd.args g.args ha.1 ha.2
            (fun a ham b hb => nobreaking_no_argument_becomes_required o n h t t' hhost fd g hfm hg a b ham hb)
            (wn.fieldArgs t' (mem_of_findType' hn).1 g hgm)
  · have hk' : Validate.isObjOrIface o p = false := by simpa using hk
    rw [hk'] at hf; simp at hf

/-- **root operation types (validator look-up)** -/
theorem nobreaking_V_rootType (o n : SchemaD) (h : diffSchema o n 2 = []) (kind r : String)
    (hr : Validate.rootType o kind = some r) : Validate.rootType n kind = some r := by
  have e : ∀ s : SchemaD, Validate.rootType s kind = (rootOf s kind).bind fun x => if Validate.isObject s x then some x else none := by
    intro s; unfold Validate.rootType rootOf; rfl
  rw [e] at hr ⊢
  cases ho : rootOf o kind with
  | none => rw [ho] at hr; simp at hr
  | some a =>
    rw [ho] at hr
    simp only [Option.bind_some] at hr
    have hop : kind = "query" ∨ kind = "mutation" ∨ kind = "subscription" := by
      unfold rootOf at ho
      split at ho <;> simp_all
    by_cases hob : Validate.isObject o a = true
    · rw [if_pos hob] at hr
      have har : a = r := Option.some.inj hr
      have hobn : Validate.isObject n a = true := by
        unfold Validate.isObject at hob ⊢
        have : Validate.kindOf o a = some .object := by simpa using hob
        rw [nobreaking_V_kindOf o n h a _ this]; simp
      cases hn : rootOf n kind with
      | none => exact (absurd_of_breaking' h (root_type_removed_reported o n kind a hop ho hn) (sev_ge' _ _ (by decide))).elim
      | some b =>
        by_cases hb : a = b
        · subst hb; simp only [Option.bind_some]; rw [if_pos hobn, har]
        · exact (absurd_of_breaking' h (root_type_changed_reported o n kind a b hop ho hn hb) (sev_ge' _ _ (by decide))).elim
    · have : Validate.isObject o a = false := by simpa using hob
      rw [this] at hr; simp at hr

/-- the query type is kept (it decides where `__schema` / `__type` may be selected) -/
theorem nobreaking_query (o n : SchemaD) (h : diffSchema o n 2 = []) (wo : OldWf o) : n.query = o.query := by
  cases hq : o.query with
  | none => have := wo.query; rw [hq] at this; simp at this
  | some a =>
    have ho : rootOf o "query" = some a := by simpa [rootOf] using hq
    cases hn : rootOf n "query" with
    | none => exact (absurd_of_breaking' h (root_type_removed_reported o n "query" a (Or.inl rfl) ho hn) (sev_ge' _ _ (by decide))).elim
    | some b =>
      by_cases hb : a = b
      · subst hb; simpa [rootOf] using hn
      · exact (absurd_of_breaking' h (root_type_changed_reported o n "query" a b (Or.inl rfl) ho hn hb) (sev_ge' _ _ (by decide))).elim

/-- composite-ness of a known type name is unchanged -/
theorem nobreaking_V_isComposite (o n : SchemaD) (h : diffSchema o n 2 = []) (x : String)
    (hk : (Validate.kindOf o x).isSome = true) : Validate.isComposite n x = Validate.isComposite o x := by
  cases hko : Validate.kindOf o x with
  | none => rw [hko] at hk; simp at hk
  | some k =>
    unfold Validate.isComposite
    rw [hko, nobreaking_V_kindOf o n h x k hko]

/-- **`_get_field_def`**: the definition the validator attaches to a selected field of a composite parent type
    (meta fields included) is kept, with the same named type and compatible arguments -/
theorem nobreaking_V_getFieldDef (o n : SchemaD) (h : diffSchema o n 2 = []) (wo : OldWf o) (wn : NewWf n)
    (p name : String) (hp : Validate.isComposite o p = true) (fd : FieldD)
    (hf : Validate.getFieldDef o p name = some fd) :
    ∃ fd', Validate.getFieldDef n p name = some fd' ∧ fd'.type.base = fd.type.base ∧ ArgsRel fd.args fd'.args
      ∧ safeOut fd.type fd'.type = true := by
  have hq := nobreaking_query o n h wo
  have hks : (Validate.kindOf o p).isSome = true := by
    unfold Validate.isComposite at hp
    cases hh : Validate.kindOf o p with
    | none => rw [hh] at hp; simp at hp
    | some _ => rfl
  have hc := nobreaking_V_isComposite o n h p hks
  unfold Validate.getFieldDef at hf ⊢
  rw [hq, hc]
  by_cases c1 : (o.query == some p && name == "__schema") = true
  · rw [if_pos c1] at hf ⊢
    exact ⟨fd, hf, rfl, ArgsRel.refl _, safeOut_refl _⟩
  · rw [if_neg c1] at hf ⊢
    by_cases c2 : (o.query == some p && name == "__type") = true
    · rw [if_pos c2] at hf ⊢
      exact ⟨fd, hf, rfl, ArgsRel.refl _, safeOut_refl _⟩
    · rw [if_neg c2] at hf ⊢
      by_cases c3 : (Validate.isComposite o p && name == "__typename") = true
      · rw [if_pos c3] at hf ⊢
        exact ⟨fd, hf, rfl, ArgsRel.refl _, safeOut_refl _⟩
      · rw [if_neg c3] at hf ⊢
        exact nobreaking_V_fieldOf o n h wn p name fd hf

/-- **directives (validator look-up)**: a directive is kept with all its locations, its arguments are kept and
    none becomes required -/
theorem nobreaking_V_findDirective (o n : SchemaD) (h : diffSchema o n 2 = []) (wn : NewWf n)
    (name : String) (dd : DirectiveD) (hd : Validate.findDirective o name = some dd) :
    ∃ dd', Validate.findDirective n name = some dd' ∧ (∀ l ∈ dd.locations, l ∈ dd'.locations)
      ∧ ArgsRel dd.args dd'.args := by
  unfold Validate.findDirective at hd ⊢
  have hdm : dd ∈ o.directives := List.mem_of_find?_eq_some hd
  have hdn : dd.name = name := by simpa using List.find?_some hd
  obtain ⟨e, he, hl, ha1, ha2⟩ := nobreaking_directives o n h dd hdm
  rw [← hdn]
  refine ⟨e, he, hl, ?_⟩
  exact argsRel_of dd.args e.args ha1 ha2
    (fun a ham b hb => nobreaking_no_directive_argument_becomes_required o n h dd e hdm he a b ham hb)
    (wn.directiveArgs e (List.mem_of_find?_eq_some he))

end PyGql.Props.C20

/-
  C15 — `default_parses`, restated against the VERIFIED lexer / parser model and at the VALUE level
  (repair of audit 2, finding 3).

  `default_parses_partial` (Props/C15_defaults.lean) concludes `readLit text = some l`, where `readLit` is a reader private to
  IntrospectPrims.lean and `l` is the literal the formatter itself computed. The auditor showed that `readLit` is LAXER than the
  June-2018 grammar; `readLit_laxer_than_grammar` below records it as a theorem, so `readLit … = some _` must not be read as
  "is GraphQL syntax". What the property says is:

   (G) the reported text is accepted by the grammar — `Parse.parseValueText` = `Lex.lexAll` (C01) then `Parse.parseValue` (C02),
       the model of `py_gql.lang.parser.parse_value` — and denotes the literal form (`astOf l`);
   (V) that literal coerces back to the declared default `dv` through `value_from_ast` (C07's `Coerce.valueFromAst`, on the
       registry `Exec.regOfSchema s` of the same schema description).

  State of the proofs (honest): (G) and (V) are stated in full generality as `DefaultParsesGrammarStatement` /
  `DefaultValueRoundTripStatement`; PROVED here are only INSTANCES (every literal kind, nesting, escapes, an enum whose internal
  value differs from its name, `ID`, an input object) — the general induction over `printLit` against the fuelled lexer is OPEN.
  (V) in full generality is FALSE of today's code: a NUMBER default at an SDL custom scalar is reported as `5` and reads back,
  through the stand-in scalar's `_untyped_literal`, as the text `"5"` (C07's finding A10 seen from introspection):
  `default_value_roundtrip_refuted_custom_scalar`. The old theorem `default_parses_partial` is kept unchanged.
-/
import PyGqlModel.Props.C15_defaults
import PyGqlModel.ParseText
import PyGqlModel.ExecArgs

set_option linter.unusedSimpArgs false
set_option linter.unusedVariables false

namespace PyGql.Props.C15
open PyGql PyGql.Introspect PyGql.Generated.Introspection

/-- characters → code points (the lexer model reads `Text = List Nat`) -/
def T (cs : Chars) : Text := cs.map Char.toNat

/-- `parse_value(text, no_location=True)` -/
def FL : Parse.Flags := { noLocation := true }

mutual
/-- the AST the parser builds for a literal (no locations): `IntValue` / `FloatValue` keep their TEXT, a `StringValue` its
    decoded content, an enum value and an object key their name -/
def astOf : Lit → Ast.Value
  | .null => .null none
  | .bool b => .boolean b none
  | .int n => .int (T (showInt n)) none
  | .float t => .float (T t) none
  | .str s => .string { value := T s, block := false, loc := none }
  | .enum n => .enum (T n) none
  | .list xs => .list (astsOf xs) none
  | .obj fs => .object (astFieldsOf fs) none
def astsOf : List Lit → List Ast.Value
  | [] => []
  | x :: xs => astOf x :: astsOf xs
def astFieldsOf : List (Chars × Lit) → List Ast.ObjectField
  | [] => []
  | (k, v) :: fs => .mk { value := T k, loc := none } (astOf v) none :: astFieldsOf fs
end

/-- **(G), full statement — OPEN.** Every well-formed literal, printed, is accepted by the verified lexer + parser model and
    denotes itself. Proved below on instances only. -/
def DefaultParsesGrammarStatement : Prop :=
  ∀ l : Lit, wfLit l = true → Parse.parseValueText FL (T (printLit l)) = some (astOf l)

/-- (G) for the text `_format_default_value` reports -/
def FormatDefaultParsesGrammarStatement : Prop :=
  ∀ (s : SchemaD) (ty : Ty) (dv : J) (l : Lit), litOfStrict s 64 ty dv = some l → wfLit l = true →
    (∀ x, dv = .str x → Prims.baseIsOneOf ty ["String", "ID"] = true → l = .str x.toList ∧ x.toList.all topCharOk = true) →
    ∃ text, formatDefaultValue s true dv ty = some text ∧ Parse.parseValueText FL (T text) = some (astOf l)

/-- **the private reader is laxer than the grammar** (audit 2, finding 3): `1.e+-` and `{a:1.}` are read by `readLit` and
    refused by the lexer model — `readLit t = some _` does not mean "t is GraphQL syntax". -/
theorem readLit_laxer_than_grammar :
    (readLit "1.e+-".toList).isSome = true ∧ Parse.parseValueText FL (T "1.e+-".toList) = none ∧
    (readLit "{a:1.}".toList).isSome = true ∧ Parse.parseValueText FL (T "{a:1.}".toList) = none := ⟨rfl, rfl, rfl, rfl⟩

/-- (G) for one literal -/
def GOK (l : Lit) : Prop := Parse.parseValueText FL (T (printLit l)) = some (astOf l)

/-- **default_parses_grammar_instances_partial.** (G) on one instance per literal kind and per nesting form (PARTIAL: instances
    only; the full statement is `DefaultParsesGrammarStatement`): null, booleans, integers (zero, negative, MAX_INT), floats
    (fraction, exponent, signed exponent), enum names, strings (empty, blank, escaped quote / backslash / LF TAB / FORM FEED as
    `\u000c` inside a list, non-ASCII), lists, nested lists, objects, nested objects. -/
theorem default_parses_grammar_instances_partial :
    (GOK .null ∧ GOK (.bool true) ∧ GOK (.bool false) ∧ GOK (.int 0) ∧ GOK (.int 7) ∧ GOK (.int (-12)) ∧ GOK (.int 2147483647)) ∧
    (GOK (.float "1.5".toList) ∧ GOK (.float "-2.5e3".toList) ∧ GOK (.float "1e+16".toList) ∧ GOK (.enum "B".toList) ∧ GOK (.enum "RED_2".toList)) ∧
    (GOK (.str []) ∧ GOK (.str "x y".toList) ∧ GOK (.str "a\"b".toList) ∧ GOK (.str "\\".toList) ∧ GOK (.str "\n\t".toList) ∧
     GOK (.list [.str [Char.ofNat 12]]) ∧ GOK (.str "é".toList)) ∧
    (GOK (.list []) ∧ GOK (.list [.int 1]) ∧ GOK (.list [.int 1, .null]) ∧ GOK (.list [.list [], .list [.enum "A".toList]]) ∧ GOK (.obj []) ∧
     GOK (.obj [("a".toList, .int 3)]) ∧ GOK (.obj [("a".toList, .int 3), ("e".toList, .list [.enum "B".toList, .enum "A".toList])]) ∧
     GOK (.obj [("o".toList, .obj [("s".toList, .str "x".toList)])])) :=
  ⟨⟨rfl, rfl, rfl, rfl, rfl, rfl, rfl⟩, ⟨rfl, rfl, rfl, rfl, rfl⟩, ⟨rfl, rfl, rfl, rfl, rfl, rfl, rfl⟩, ⟨rfl, rfl, rfl, rfl, rfl, rfl, rfl, rfl⟩⟩

/-! ### from the reported text: (G) on `_format_default_value`'s output, and the value level (V) -/

/-- (G) on the formatter's own output for declared defaults of the witness schema: an Int, the enum member whose internal value
    is `1` (reported by NAME), a list of enum values, an input object, a string with a line feed (the `_STRING_ESCAPES` branch) -/
theorem format_default_parses_grammar_instances_partial :
    (∀ p ∈ [((.named "Int" : Ty), J.num 3), (.named "E", .num 1), (.list (.named "E"), .arr [.num 1, .str "A"]),
            (.named "I", .obj [("a", .num 3), ("e", .arr [.num 1])]), (.named "String", .str "x\ny"), (.named "I", .null)],
      ∃ text l, formatDefaultValue witnessSchema true p.2 p.1 = some text ∧ litOfStrict witnessSchema 64 p.1 p.2 = some l ∧
        Parse.parseValueText FL (T text) = some (astOf l)) := by
  intro p hp
  simp only [List.mem_cons, List.not_mem_nil, or_false] at hp
  rcases hp with rfl | rfl | rfl | rfl | rfl | rfl <;> exact ⟨_, _, rfl, rfl, rfl⟩

def intOfText (t : Text) : Int :=
  let nat (ds : Text) : Nat := ds.foldl (fun a c => a * 10 + (c - 48)) 0
  match t with
  | 45 :: r => - (nat r : Int)
  | r => (nat r : Int)
def strOfText (t : Text) : String := String.ofList (t.map Char.ofNat)

mutual
/-- the parser's AST as the literal C07's `value_from_ast` model reads (`IntValue` → `int(node.value)`) -/
def coerceLitOf : Ast.Value → Coerce.Lit
  | .var v => .var (strOfText v.name.value)
  | .int t _ => .int (intOfText t)
  | .float t _ => .float (strOfText t)
  | .string s => .str (strOfText s.value)
  | .boolean b _ => .bool b
  | .null _ => .null
  | .enum t _ => .enum (strOfText t)
  | .list vs _ => .list (coerceLitsOf vs)
  | .object fs _ => .obj (coerceFieldsOf fs)
def coerceLitsOf : List Ast.Value → List Coerce.Lit
  | [] => []
  | v :: vs => coerceLitOf v :: coerceLitsOf vs
def coerceFieldsOf : List Ast.ObjectField → List (String × Coerce.Lit)
  | [] => []
  | .mk n v _ :: fs => (strOfText n.value, coerceLitOf v) :: coerceFieldsOf fs
end

/-- the reported default of (`ty`, `dv`) in schema `s`, parsed by the verified parser model and coerced by C07's
    `value_from_ast` model on the registry of the same schema: `none` = not reported or not GraphQL syntax -/
def readBack (s : SchemaD) (fuel : Nat) (ty : Ty) (dv : J) : Option Coerce.R :=
  match formatDefaultValue s true dv ty with
  | none => none
  | some text =>
    match Parse.parseValueText FL (T text) with
    | none => none
    | some v => some (Coerce.valueFromAst (Exec.regOfSchema s) none fuel ty (coerceLitOf v))

/-- **(V), full statement — FALSE of today's code** (below): every reported default reads back to the declared default -/
def DefaultValueRoundTripStatement : Prop :=
  ∀ (s : SchemaD) (ty : Ty) (dv : J) (text : Chars), formatDefaultValue s true dv ty = some text →
    ∃ fuel, readBack s fuel ty dv = some (.ok (Exec.pvOfJ dv))

/-- **default_value_roundtrip_instances_partial.** (V) on instances: the declared default comes back as a VALUE — the enum
    member `B` as its internal value `1`, `[B, A]` as `[1, "A"]`, the input object as the dict with the internal value inside,
    the string with its line feed, an `ID` default, `null`. -/
theorem default_value_roundtrip_instances_partial :
    ∀ p ∈ [((.named "Int" : Ty), J.num 3), (.named "E", .num 1), (.list (.named "E"), .arr [.num 1, .str "A"]),
           (.named "I", .obj [("a", .num 3), ("e", .arr [.num 1])]), (.named "String", .str "x\ny"), (.named "ID", .str "7"),
           (.named "I", .null)],
      readBack witnessSchema 8 p.1 p.2 = some (.ok (Exec.pvOfJ p.2)) := by
  intro p hp
  simp only [List.mem_cons, List.not_mem_nil, or_false] at hp
  rcases hp with rfl | rfl | rfl | rfl | rfl | rfl | rfl <;> rfl

/-- the witness schema plus `scalar J` (a stand-in scalar: `default_scalar("J")`) -/
def witnessSchemaJ : SchemaD := { types := witnessSchema.types ++ [{ kind := .scalar, name := "J" }] }

/-- a NUMBER default at the stand-in scalar (`Argument("x", default_scalar("J"), default_value=5)`) is reported as `5`, which IS
    GraphQL syntax, and reads back — through `_untyped_literal`, which keeps a number literal's source text — as the STRING "5" -/
theorem default_number_at_stand_in_scalar_reads_back_as_text :
    formatDefaultValue witnessSchemaJ true (.num 5) (.named "J") = some ['5'] ∧
    (∀ fuel, readBack witnessSchemaJ (fuel + 1) (.named "J") (.num 5) = some (.ok (.str "5"))) ∧
    Exec.pvOfJ (.num 5) = .int 5 := ⟨rfl, fun _ => rfl, rfl⟩

/-- **REFUTED on today's code** (C07's known finding A10 seen from introspection; reproduced on the real code by the probe
    `stand-in-number-default` of harness/corr/C15.py): the value-level statement fails at a stand-in scalar with a number default.
    Non-number defaults at the stand-in scalar DO round-trip (`default_value_roundtrip_stand_in_non_number`). -/
theorem default_value_roundtrip_refuted_custom_scalar : ¬ DefaultValueRoundTripStatement := by
  intro h
  obtain ⟨fuel, hf⟩ := h witnessSchemaJ (.named "J") (.num 5) ['5'] rfl
  cases fuel with
  | zero =>
    have h0 : readBack witnessSchemaJ 0 (.named "J") (.num 5) = some (.error .fuel) := rfl
    rw [h0] at hf
    injection hf with hf
    cases hf
  | succ n =>
    rw [default_number_at_stand_in_scalar_reads_back_as_text.2.1 n] at hf
    injection hf with hf
    injection hf with hf
    cases hf

theorem default_value_roundtrip_stand_in_non_number :
    ∀ dv ∈ [J.str "s", .bool true, .arr [.bool true, .str "k"], .null],
      readBack witnessSchemaJ 8 (.named "J") dv = some (.ok (Exec.pvOfJ dv)) := by
  intro dv hd
  simp only [List.mem_cons, List.not_mem_nil, or_false] at hd
  rcases hd with rfl | rfl | rfl | rfl <;> rfl

end PyGql.Props.C15

/-
  C01, error clause — WHAT EXACTLY the `_partial` position theorems exclude.

  `error_in_range_partial` / `parse_text_error_in_range_partial` say "position ≤ len, or NonTerminatedString at len + 1"
  (ledger L6, pinned by tests/test_lang/test_lexer.py).  Here the excluded case is pinned down on the TEXT:
  a position beyond the end is only ever reported for a text that ENDS INSIDE AN ESCAPE SEQUENCE — its last characters
  are `\` or `\u` followed by at most three hex digits (`EndsInEscape`).  For every other text the full statement
  (`ErrorInRangeStatement`, `ParseTextErrorInRangeStatement`) holds: lexer and parser errors, `parse`, `parse_value`,
  `parse_type`, all flags.
-/
import PyGqlModel.Props.C01_parse_errors
import PyGqlModel.Lemmas.LexRangeEsc
namespace PyGql.Props.C01
open PyGql PyGql.Parse PyGql.Ast
open PyGql.Lex (EndsInEscape)

/-- the lexer: a reported position beyond the end of the text implies the text ends inside an escape sequence -/
theorem error_in_range_or_truncated_escape (s : Text) (e : Lex.SynErr) (h : Lex.lexAll s = .error e) :
    e.pos ≤ s.length ∨ EndsInEscape s := by
  have hk := lex_fuel_sufficient s e h
  unfold Lex.lexAll at h
  split at h
  · cases h
  · rename_i e' h'; cases h; exact Lex.lexLoop_esc _ _ _ _ h' hk

/-- THE FULL STATEMENT holds for every text that does not end inside an escape sequence -/
theorem error_in_range_except_truncated_escape (s : Text) (hs : ¬ EndsInEscape s) (e : Lex.SynErr)
    (h : Lex.lexAll s = .error e) : e.pos ≤ s.length :=
  (error_in_range_or_truncated_escape s e h).resolve_right hs

/-- in particular for every text without a backslash -/
theorem not_endsInEscape_of_no_backslash (s : Text) (h : 92 ∉ s) : ¬ EndsInEscape s := by
  rintro ⟨pre, hs, rfl, _⟩
  exact h (by simp)

/-- the composed pipeline (`parse`, `parse_value`, `parse_type`, all flags, lexer AND parser errors): the full
    statement for every text that does not end inside an escape sequence -/
theorem parse_text_error_in_range_except_truncated_escape (fl : Flags) (s : Text) (hs : ¬ EndsInEscape s) (e : TextErr)
    (h : parseTextE fl s = .error e ∨ parseValueTextE fl s = .error e ∨ parseTypeTextE fl s = .error e) :
    e.pos ≤ s.length := by
  rcases parse_text_error_in_range_partial fl s e h with h' | ⟨le, rfl, hp, _⟩
  · exact h'
  · have hl : Lex.lexAll s = .error le := by
      rcases h with h | h | h <;>
        (simp only [parseTextE, parseValueTextE, parseTypeTextE, withLexer] at h
         split at h
         · split at h <;> cases h
         · rename_i e' hl; cases h; exact hl)
    exact (error_in_range_except_truncated_escape s hs le hl)

/-- the excluded class is not empty on the code (the refutation witness of `error_in_range_refuted` is in it), and the
    hypothesis of the theorems above holds for ordinary texts -/
example : EndsInEscape [34, 92] := ⟨[34], [], rfl, .inl rfl⟩
example : EndsInEscape [34, 92, 117, 49] := ⟨[34], [117, 49], rfl, .inr ⟨[49], rfl, by decide, by decide⟩⟩
example : ¬ EndsInEscape [49, 46] := not_endsInEscape_of_no_backslash _ (by decide)
example : Lex.lexAll [49, 46] = .error ⟨.unexpectedEOF, 2⟩ := by rfl

end PyGql.Props.C01

/-
  C04 — the default resolver: documented lookup order, and "a Mapping parent lacking the key gives null at that
  position with no error", whatever the field is called.
-/
import PyGqlModel.DefaultResolver
import PyGqlModel.Props.C04

set_option linter.unusedSimpArgs false
set_option linter.unusedVariables false

namespace PyGql.Props.C04
open PyGql PyGql.Exec

/-- **default_resolver_mapping**: for a Mapping parent the result is the stored value (also when it is None) or None
    when the key is absent — never an attribute or a bound method of the mapping, for EVERY field name
    (`items`, `keys`, `values`, `get`, `copy`, `pop`, `update`, `setdefault`, … included). -/
theorem default_resolver_mapping (kvs : List (String × PVal)) (name : String) :
    defaultResolver (.dict kvs) name = .value ((assoc kvs name).getD .none) := rfl

theorem default_resolver_mapping_absent (kvs : List (String × PVal)) (name : String) (h : assoc kvs name = none) :
    defaultResolver (.dict kvs) name = .value .none := by simp [defaultResolver, h]

/-- **default_resolver_lookup_order** for objects: a plain attribute wins; else a callable of that name is called and
    its result (or its ResolverError) is the outcome; else None. -/
theorem default_resolver_lookup_order (attrs calls : List (String × PVal)) (raises : List (String × String)) (name : String) :
    defaultResolver (.obj attrs calls raises) name =
      match assoc attrs name, assoc calls name, assoc raises name with
      | some v, _, _ => .value v
      | none, some v, _ => .value v
      | none, none, some m => .raised m
      | none, none, none => .value .none := by
  simp only [defaultResolver]
  cases h1 : assoc attrs name <;> cases h2 : assoc calls name <;> cases h3 : assoc raises name <;> simp

/-- anything that is neither a Mapping nor an object with that attribute resolves to None -/
theorem default_resolver_other (name : String) : defaultResolver .none name = .value .none := rfl

/-- **absent_key_null_no_error**: executing with default resolvers over data, a nullable field whose parent is a
    Mapping lacking the key completes to `null` with NO error (the request goes on; siblings are untouched by
    `siblings_undisturbed`). -/
theorem absent_key_null_no_error (s : SchemaD) (root : PVal) (execSub) (parent : String) (path : Path) (key : String)
    (node : FNode) (more : List FNode) (fd : FieldD) (a : String) (kvs : List (String × PVal))
    (ha : (node.args.find? (·.1 == parent)).map (·.2) = some (some a))
    (hp : PVal.at root path = some (.dict kvs)) (habs : assoc kvs fd.name = none) (hn : fd.type.isNonNull = false) :
    resolveField s (dataWorld root) execSub parent (path ++ [.key key]) (node :: more) fd = .ok (.null, []) := by
  have hw : dataWorld root parent fd.name (path ++ [.key key]) a = .val .null := by
    simp [dataWorld, hp, defaultResolver, habs, toRVal]
  simp only [resolveField, ha, hw]
  rw [nullable_null_no_error s execSub (node :: more) fd.type _ hn]
  rfl

/-- the same for a key that is present with the value None -/
theorem present_none_null_no_error (s : SchemaD) (root : PVal) (execSub) (parent : String) (path : Path) (key : String)
    (node : FNode) (more : List FNode) (fd : FieldD) (a : String) (kvs : List (String × PVal))
    (ha : (node.args.find? (·.1 == parent)).map (·.2) = some (some a))
    (hp : PVal.at root path = some (.dict kvs)) (hpres : assoc kvs fd.name = some .none) (hn : fd.type.isNonNull = false) :
    resolveField s (dataWorld root) execSub parent (path ++ [.key key]) (node :: more) fd = .ok (.null, []) := by
  have hw : dataWorld root parent fd.name (path ++ [.key key]) a = .val .null := by
    simp [dataWorld, hp, defaultResolver, hpres, toRVal]
  simp only [resolveField, ha, hw]
  rw [nullable_null_no_error s execSub (node :: more) fd.type _ hn]
  rfl

/-! non-vacuity: a dict lacking `items`, an object with an attribute and a callable of other names -/
example : defaultResolver (.dict [("keys", .leaf (.str "k"))]) "items" = .value .none := by
  simp [defaultResolver, assoc]
example : (match defaultResolver (.obj [("a", .leaf (.num 1))] [("items", .leaf (.num 2))] []) "items" with
    | .value (.leaf (.num 2)) => true | _ => false) = true := by decide

end PyGql.Props.C04

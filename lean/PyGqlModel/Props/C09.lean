/-
  C09 — top-level mutation fields run strictly one after another in document order.
  Theorems about `executeFieldsSerially` / `serialNext` (the `args` queue + `resolved_fields` state machine
  of `Executor.execute_fields_serially`) under EVERY schedule, and about the blocking executor.
-/
import PyGqlModel.Lemmas.ExecSerial

set_option linter.unusedVariables false
set_option linter.unusedSimpArgs false

namespace PyGql.Props.C09
open PyGql.AsyncExec

private theorem denFlds_keys : ∀ (fs : Flds) (kvs : List (String × V)), denFlds fs = some kvs → kvs.map (·.1) = fs.keys
  | .nil, kvs, h => by simp [denFlds] at h; subst h; simp [Flds.keys]
  | .cons key m out rest, kvs, h => by
    simp only [denFlds] at h
    cases ho : denOut out with
    | none => simp [ho] at h
    | some v =>
      cases hr : denFlds rest with
      | none => simp [ho, hr] at h
      | some kvs' => simp [ho, hr] at h; subst h; simp [Flds.keys, denFlds_keys rest kvs' hr]

private theorem mutation_spec (op : Op) (schedule : List Nat) (v : V) (errs : List Err)
    (h : (runAsync op schedule).outcome = .ok v errs) : (denFlds op.fields).map V.obj = some v := by
  have hinv := execute_inv op {}
  unfold runAsync at h
  cases hr : execute op {} with
  | mk r s =>
    rw [hr] at hinv h
    cases r with
    | exc e => simp at h
    | ok top =>
      simp only at hinv h
      have hi := runSched_inv _ schedule top s [] hinv
      generalize (runSched top s [] schedule).top = t at hi h
      generalize (runSched top s [] schedule).st = st at h
      have hev := hi.ev_eq
      have hf := hi.isFlat
      unfold opSpec at hev
      cases t with
      | val x => cases x <;> simp [outcomeOf] at h; cases hd : denFlds op.fields <;> simp_all [ev, denToEv]
      | done r =>
        cases r with
        | val x => cases x <;> simp [outcomeOf] at h; cases hd : denFlds op.fields <;> simp_all [ev, denToEv]
        | _ => simp [flat] at hf
      | _ => simp [outcomeOf] at h

/-- **keys_in_order.** Under EVERY schedule and every assignment of resolver modes: when the serial (and
    equally the parallel) executor has produced its result, the response object lists exactly the
    top-level response keys, in document order. -/
theorem keys_in_order (op : Op) (schedule : List Nat) (v : V) (errs : List Err)
    (h : (runAsync op schedule).outcome = .ok v errs) :
    ∃ kvs, v = .obj kvs ∧ kvs.map (·.1) = op.fields.keys := by
  have := mutation_spec op schedule v errs h
  cases hd : denFlds op.fields with
  | none => simp [hd] at this
  | some kvs => simp [hd] at this; exact ⟨kvs, this.symm, denFlds_keys _ _ hd⟩

/-- **failure_does_not_stop.** A top-level field whose resolver raises `ResolverError` — synchronously or
    when its deferred task completes, at any position (`resolved` / `args` arbitrary) — is recorded as
    `null` with an error and the serial routine goes on with the remaining fields `args`; and in the
    specification (hence, by `keys_in_order`/C08, in every result) the later fields keep their values. -/
theorem failure_does_not_stop (path : Path) (key : String) (resolved : List (String × V)) (args : Flds) (s : ExecSt) :
    -- synchronous resolver
    serialNext path resolved (.cons key .sync .rerr args) s
      = serialNext path (resolved ++ [(key, .null)]) args
          (((s.emit (.call (path ++ [.key key]))).emit (.done (path ++ [.key key]))).addError (path ++ [.key key]) .resolver)
    -- deferred resolver: when its task `t` completes with the error, the callback chain continues with `args`
    ∧ (∀ t, (deliver applyCont t
          (.chain (.unwrap (.chain (.unwrap (.task t (path ++ [.key key]) false .rerr)) (.complete (path ++ [.key key]))))
            (.serialCb path key resolved args)) s)
        = (match serialNext path (resolved ++ [(key, .null)]) args
                  ((s.emit (.done (path ++ [.key key]))).addError (path ++ [.key key]) .resolver) with
           | (.ok x, s') => (.done x, s')
           | (.exc e, s') => (.failed e, s')))
    -- specification: the failed field is null, the others are unaffected
    ∧ (∀ m, denFlds (.cons key m .rerr args) = (denFlds args).map ((key, .null) :: ·)) := by
  refine ⟨?_, ?_, ?_⟩
  · simp [serialNext, resolveField, failField]
  · intro t
    simp [deliver, finishTask, unwrapCb, chainOnFinish, applyCont, failField, Node.plain]
    generalize serialNext path _ args _ = q
    rcases q with ⟨r, s'⟩
    cases r <;> rfl
  · intro m
    simp only [denFlds, denOut]; cases denFlds args <;> rfl

/-- The statement on traces: in the trace of EVERY schedule of every mutation, when the resolver of a
    top-level field is invoked, every resolver invoked before (all of them belong to earlier top-level
    fields and their sub-selections) has finished: calls = dones in the prefix. -/
def SerialOrderFull : Prop :=
  ∀ (fields : Flds) (schedule : List Nat) (pre post : List Ev) (k : String),
    (runAsync ⟨.mutation, fields⟩ schedule).trace = pre ++ Ev.call [.key k] :: post →
    ncalls pre = ndones pre

/-- **serial_order.** For every mutation, every assignment of resolver modes (sync, deferred, nested
    deferred, already finished), every outcome (values, resolver errors, unexpected exceptions) and EVERY
    schedule: at the position of each top-level `call` in the event trace, the number of resolver
    invocations before it equals the number of resolver completions before it — the resolver of a
    top-level field is never invoked while any resolver of an earlier field or of its sub-selection is
    still outstanding.
    Proof: the balance invariant `calls = dones + |task leaves of the tree|` holds as long as no node has
    literally failed with an unexpected exception (then no further top-level call happens); the serial
    callback fires only when the current field's node has finished, where the tree holds no task. -/
theorem serial_order : SerialOrderFull := by
  intro fields schedule pre post k htrace
  have hx := execute_serial fields
  unfold runAsync at htrace
  cases hr : execute ⟨.mutation, fields⟩ {} with
  | mk r s =>
    rw [hr] at hx htrace
    cases r with
    | exc e => exact hx pre k post htrace
    | ok top =>
      simp only at hx htrace
      exact runSched_serial schedule top s [] hx pre k post htrace

/-- **serial_order_tree** (state-machine form, kept as a readable companion of `serial_order`):
    (1) while the node of the current top-level field is pending, completing any task leaves the serial
    callback un-fired; (2) a finished field node (executor built: `flat`) holds NO outstanding task;
    (3) the callback then runs `_next` on `args`, whose head is the next field in document order. -/
theorem serial_order_tree (path : Path) (key : String) (resolved : List (String × V)) (args : Flds)
    (src : Node) (s : ExecSt) :
    (src.isPending = true →
        chainOnFinish applyCont src (.serialCb path key resolved args) s
          = (.chain src (.serialCb path key resolved args), s))
    ∧ (src.finished = true → flat src = true → ntasks src = 0)
    ∧ (∀ v, applyCont (.serialCb path key resolved args) (.ok (.data v)) s
          = serialNext path (resolved ++ [(key, v)]) args s) := by
  refine ⟨?_, ?_, ?_⟩
  · intro h; cases src <;> simp_all [chainOnFinish, Node.isPending, Node.finished]
  · intro hfin hflat
    rcases flat_finished src hflat hfin with ⟨x, rfl⟩ | ⟨x, rfl⟩ | ⟨e, rfl⟩ <;> simp [ntasks]
  · intro v; simp [applyCont]

/-- **blocking_serial.** `BlockingExecutor.execute_fields_serially` is `execute_fields`: field `j+1` is
    resolved in exactly the state that the complete evaluation of field `j` (resolver and whole
    sub-selection) returned — sequential composition, document order. -/
theorem blocking_serial (path : Path) (key : String) (mode : Mode) (out : ROut) (rest : Flds) (s : ExecSt) :
    blockFields path (.cons key mode out rest) s =
      (match blockField (path ++ [.key key]) out s with
       | (.exc e, s1) => (.exc e, s1)
       | (.ok v, s1) =>
         match blockFields path rest s1 with
         | (.exc e, s2) => (.exc e, s2)
         | (.ok kvs, s2) => (.ok ((key, v) :: kvs), s2)) := by
  simp [blockFields]
  generalize blockField _ out s = q
  rcases q with ⟨r, s1⟩
  cases r with
  | exc e => rfl
  | ok v =>
    simp only []
    generalize blockFields path rest s1 = q2
    rcases q2 with ⟨r2, s2⟩
    cases r2 <;> rfl

/-- non-vacuity: `mutation { m1 { c d } m2 }` with `m1`, `c`, `d` deferred and `d` completing before `c`:
    events (is-call, path length) — `m2` (the last call of depth 1) is invoked only after both
    sub-fields of `m1` are done. -/
example :
    let sub := Comp.obj (.cons "c" .deferred (.ok (.leaf 1)) (.cons "d" .deferred (.ok (.leaf 2)) .nil))
    let op : Op := ⟨.mutation, .cons "m1" .deferred (.ok sub) (.cons "m2" .sync (.ok (.leaf 5)) .nil)⟩
    ((runAsync op [0, 1, 0]).trace.map fun e => match e with
        | .call p => (true, p.length) | .done p => (false, p.length))
      = [(true, 1), (false, 1), (true, 2), (true, 2), (false, 2), (false, 2), (true, 1), (false, 1)] := by
  decide

end PyGql.Props.C09

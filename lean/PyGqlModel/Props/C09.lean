import PyGqlModel.AsyncExec

namespace PyGql.Props.C09
open PyGql.Exec

end PyGql.Props.C09

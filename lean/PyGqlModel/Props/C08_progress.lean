/-
  C08 — what `always_terminates` (deadlock-freedom: `queue = [] → finished`) leaves open, made explicit:
  `pending_only_if_schedule_exhausted` — a run reports `pending` ONLY when the schedule was consumed entirely, one completion
  per entry, and tasks are still outstanding: every completion step makes progress (it removes one task from the queue), and a
  run never stops early while the result is pending.
  `terminates_within_bound` — TERMINATION with a bound: `weight op` (one per deferred resolver, two per nested one) bounds the
  number of tasks an operation can ever submit; every schedule of at least that length yields a non-pending outcome
  (potential `queue length + tasks still to be submitted` never increases under `deliver`, every completion removes a task).
-/
import PyGqlModel.Props.C08_exec
import PyGqlModel.Lemmas.ExecBound

set_option linter.unusedVariables false
set_option linter.unusedSimpArgs false

namespace PyGql.Props.C08
open PyGql.AsyncExec

private theorem runSched_consumes : ∀ (schedule : List Nat) (top : Node) (s : ExecSt) (sizes : List Nat),
    (runSched top s sizes schedule).top.finished = false → (runSched top s sizes schedule).st.queue ≠ [] →
    (runSched top s sizes schedule).sizes.length = sizes.length + schedule.length
  | [], top, s, sizes, _, _ => by simp [runSched]
  | i :: rest, top, s, sizes, hf, hq => by
    by_cases hc : (top.finished || s.queue.isEmpty) = true
    · simp only [runSched, hc, if_true] at hf hq
      simp only [Bool.or_eq_true, List.isEmpty_iff] at hc
      rcases hc with hc | hc
      · simp [hf] at hc
      · exact absurd hc hq
    · have hc' : (top.finished || s.queue.isEmpty) = false := by simpa using hc
      simp only [runSched, hc', Bool.false_eq_true, if_false] at hf hq ⊢
      have ih := runSched_consumes rest _ _ _ hf hq
      simp only [ih, List.length_append, List.length_cons, List.length_nil]
      omega

private theorem pending_not_finished (top : Node) (s : ExecSt) (h : outcomeOf top s = .pending) : top.finished = false := by
  cases top with
  | val x => cases x <;> simp [outcomeOf] at h
  | done r =>
    cases r with
    | val x => cases x <;> simp [outcomeOf] at h
    | _ => simp [outcomeOf] at h
  | failed e => simp [outcomeOf] at h
  | _ => rfl

/-- **pending_only_if_schedule_exhausted.** For every operation and every schedule: if the run ends with the overall result
    still pending, then every entry of the schedule was used for one completion (the run did not stop early) and at least one
    task is still outstanding — the schedule was too short, nothing is stuck. -/
theorem pending_only_if_schedule_exhausted (op : Op) (schedule : List Nat)
    (h : (match (runAsync op schedule).outcome with | .pending => true | _ => false) = true) :
    (runAsync op schedule).sizes.length = schedule.length := by
  have hterm := always_terminates op schedule
  unfold runAsync at h ⊢
  cases hr : execute op {} with
  | mk r s =>
    rw [hr] at hterm h
    cases r with
    | exc e => simp at h
    | ok top =>
      simp only at hterm h ⊢
      have hp : outcomeOf (runSched top s [] schedule).top (runSched top s [] schedule).st = .pending := by
        cases ho : outcomeOf (runSched top s [] schedule).top (runSched top s [] schedule).st <;> simp [ho] at h
        rfl
      have hf := pending_not_finished _ _ hp
      have hq : (runSched top s [] schedule).st.queue ≠ [] := by
        intro hq; rw [hterm hq] at hf; exact Bool.noConfusion hf
      simpa using runSched_consumes schedule top s [] hf hq

/-- non-vacuity: two deferred fields, a schedule with one entry: pending, the one entry was used -/
example : (match (runAsync ⟨.query, .cons "a" .deferred (.ok (.leaf 1)) (.cons "b" .deferred (.ok (.leaf 2)) .nil)⟩ [0]).outcome with
    | .pending => true | _ => false) = true := by rfl


/-! ### termination with a bound -/

/-- the number of tasks an operation can ever submit -/
def weight (op : Op) : Nat := wFlds op.fields

private theorem removeAt_length {α : Type} : ∀ (l : List α) (j : Nat), j < l.length → (removeAt l j).length + 1 = l.length
  | [], j, h => by simp at h
  | x :: xs, 0, _ => by simp [removeAt]
  | x :: xs, j + 1, h => by
    have := removeAt_length xs j (by simpa using h)
    simp [removeAt]; omega

private theorem execute_pot (op : Op) :
    (execute op {}).2.queue.length + potRes (execute op {}).1 ≤ weight op := by
  unfold execute weight
  have hfin : ∀ (r : Res Node × ExecSt), r.2.queue.length + potRes r.1 ≤ wFlds op.fields →
      (match r with
        | (.exc e, s1) => ((.exc e, s1) : Res Node × ExecSt)
        | (.ok n, s1) => mapValue applyCont (unwrapValue n) .onFinish s1).2.queue.length
      + potRes (match r with
        | (.exc e, s1) => ((.exc e, s1) : Res Node × ExecSt)
        | (.ok n, s1) => mapValue applyCont (unwrapValue n) .onFinish s1).1 ≤ wFlds op.fields := by
    intro r hr
    obtain ⟨r, s1⟩ := r
    cases r with
    | exc e => simpa [potRes] using hr
    | ok n =>
      have := mapValue_pot applyCont .onFinish (applyCont_pot _) (unwrapValue n) s1
      simp only [potRes, pot_unwrapValue, potK] at hr this ⊢
      omega
  cases hk : op.kind with
  | query =>
    simp only
    apply hfin
    unfold executeFields
    have h1 := resolveFields_pot op.fields [] {}
    cases hr : resolveFields [] op.fields {} with
    | mk r s1 =>
      rw [hr] at h1
      cases r with
      | exc e => simpa [potRes, potsRes] using h1
      | ok ns =>
        have h2 := gatherValues_pot ns
        have h3 := mapValue_pot applySimple (.collect op.fields.keys) (applySimple_pot _) (gatherValues ns) s1
        simp only [potRes, potsRes, potK] at h1 h3 ⊢
        simp only [List.length_nil] at h1
        omega
  | mutation =>
    simp only
    apply hfin
    have := serialNext_pot [] op.fields [] {}
    simpa [executeFieldsSerially] using this

private theorem stepSched_pot (top : Node) (s : ExecSt) (i : Nat) (hq : s.queue ≠ []) :
    (stepSched top s i).2.queue.length + pot (stepSched top s i).1 + 1 ≤ s.queue.length + pot top := by
  unfold stepSched
  have hlen : 0 < s.queue.length := List.length_pos_iff.mpr hq
  have hj : i % s.queue.length < s.queue.length := Nat.mod_lt _ hlen
  simp only
  rw [List.getElem?_eq_getElem hj]
  simp only
  have h1 := deliver_pot top (s.queue[i % s.queue.length]) { s with queue := removeAt s.queue (i % s.queue.length) }
  have h2 := removeAt_length s.queue _ hj
  simp only at h1
  omega

private theorem runSched_pot : ∀ (schedule : List Nat) (top : Node) (s : ExecSt) (sizes : List Nat),
    (runSched top s sizes schedule).sizes.length
        + ((runSched top s sizes schedule).st.queue.length + pot (runSched top s sizes schedule).top)
      ≤ sizes.length + (s.queue.length + pot top)
  | [], top, s, sizes => by simp [runSched]
  | i :: rest, top, s, sizes => by
    by_cases hc : (top.finished || s.queue.isEmpty) = true
    · simp [runSched, hc]
    · have hc' : (top.finished || s.queue.isEmpty) = false := by simpa using hc
      simp only [runSched, hc', Bool.false_eq_true, if_false]
      have hq : s.queue ≠ [] := by
        intro h; simp [h] at hc'
      have h1 := stepSched_pot top s i hq
      have ih := runSched_pot rest (stepSched top s i).1 (stepSched top s i).2 (sizes ++ [s.queue.length])
      simp only [List.length_append, List.length_cons, List.length_nil] at ih
      omega

/-- **terminates_within_bound.** For every operation and EVERY schedule with at least `weight op` entries (one per deferred
    resolver, two per nested one): the run ends with a result — a response or a failure, never `pending`. With
    `async_eq_blocking` / `unexpected_surfaces`: the result is then the BlockingExecutor's data, or the failure. -/
theorem terminates_within_bound (op : Op) (schedule : List Nat) (hlen : weight op ≤ schedule.length) :
    (match (runAsync op schedule).outcome with | .pending => false | _ => true) = true := by
  cases hpend : (match (runAsync op schedule).outcome with | .pending => false | _ => true) with
  | true => rfl
  | false =>
    exfalso
    have hp : (match (runAsync op schedule).outcome with | .pending => true | _ => false) = true := by
      cases ho : (runAsync op schedule).outcome <;> simp [ho] at hpend ⊢
    have hsz := pending_only_if_schedule_exhausted op schedule hp
    have hterm := always_terminates op schedule
    have hex := execute_pot op
    unfold runAsync at hp hsz
    cases hr : execute op {} with
    | mk r s =>
      rw [hr] at hterm hp hsz hex
      cases r with
      | exc e => simp at hp
      | ok top =>
        simp only at hterm hp hsz hex
        have hpo : outcomeOf (runSched top s [] schedule).top (runSched top s [] schedule).st = .pending := by
          cases ho : outcomeOf (runSched top s [] schedule).top (runSched top s [] schedule).st <;> simp [ho] at hp
          rfl
        have hf := pending_not_finished _ _ hpo
        have hq : (runSched top s [] schedule).st.queue ≠ [] := by
          intro hq; rw [hterm hq] at hf; exact Bool.noConfusion hf
        have hqpos : 0 < (runSched top s [] schedule).st.queue.length := List.length_pos_iff.mpr hq
        have hb := runSched_pot schedule top s []
        simp only [List.length_nil, potRes] at hb hex
        unfold weight at hlen hex
        omega

/-- non-vacuity: `{ a: nested→1  b: deferred→{ c: deferred→2 } }` has weight 4; every schedule of length ≥ 4 completes it -/
example : weight ⟨.query, .cons "a" .nested (.ok (.leaf 1))
    (.cons "b" .deferred (.ok (.obj (.cons "c" .deferred (.ok (.leaf 2)) .nil))) .nil)⟩ = 4 := by decide

end PyGql.Props.C08

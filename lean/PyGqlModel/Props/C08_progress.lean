/-
  C08 — what `always_terminates` (deadlock-freedom: `queue = [] → finished`) leaves open, made explicit:
  `pending_only_if_schedule_exhausted` — a run reports `pending` ONLY when the schedule was consumed entirely, one completion
  per entry, and tasks are still outstanding: every completion step makes progress (it removes one task from the queue), and a
  run never stops early while the result is pending. What is NOT proved is a bound on the number of tasks an operation can
  submit (`∃ N, ∀ schedule, N ≤ |schedule| → outcome ≠ pending`); the harness bounds it per case (all schedules are run to the
  end: `status = pending` is a failing case there).
-/
import PyGqlModel.Props.C08_exec

set_option linter.unusedVariables false
set_option linter.unusedSimpArgs false

namespace PyGql.Props.C08
open PyGql.AsyncExec

private theorem runSched_consumes : ∀ (schedule : List Nat) (top : Node) (s : ExecSt) (sizes : List Nat),
    (runSched top s sizes schedule).top.finished = false → (runSched top s sizes schedule).st.queue ≠ [] →
    (runSched top s sizes schedule).sizes.length = sizes.length + schedule.length
  | [], top, s, sizes, _, _ => by simp [runSched]
  | i :: rest, top, s, sizes, hf, hq => by
    by_cases hc : (top.finished || s.queue.isEmpty) = true
    · simp only [runSched, hc, if_true] at hf hq
      simp only [Bool.or_eq_true, List.isEmpty_iff] at hc
      rcases hc with hc | hc
      · simp [hf] at hc
      · exact absurd hc hq
    · have hc' : (top.finished || s.queue.isEmpty) = false := by simpa using hc
      simp only [runSched, hc', Bool.false_eq_true, if_false] at hf hq ⊢
      have ih := runSched_consumes rest _ _ _ hf hq
      simp only [ih, List.length_append, List.length_cons, List.length_nil]
      omega

private theorem pending_not_finished (top : Node) (s : ExecSt) (h : outcomeOf top s = .pending) : top.finished = false := by
  cases top with
  | val x => cases x <;> simp [outcomeOf] at h
  | done r =>
    cases r with
    | val x => cases x <;> simp [outcomeOf] at h
    | _ => simp [outcomeOf] at h
  | failed e => simp [outcomeOf] at h
  | _ => rfl

/-- **pending_only_if_schedule_exhausted.** For every operation and every schedule: if the run ends with the overall result
    still pending, then every entry of the schedule was used for one completion (the run did not stop early) and at least one
    task is still outstanding — the schedule was too short, nothing is stuck. -/
theorem pending_only_if_schedule_exhausted (op : Op) (schedule : List Nat)
    (h : (match (runAsync op schedule).outcome with | .pending => true | _ => false) = true) :
    (runAsync op schedule).sizes.length = schedule.length := by
  have hterm := always_terminates op schedule
  unfold runAsync at h ⊢
  cases hr : execute op {} with
  | mk r s =>
    rw [hr] at hterm h
    cases r with
    | exc e => simp at h
    | ok top =>
      simp only at hterm h ⊢
      have hp : outcomeOf (runSched top s [] schedule).top (runSched top s [] schedule).st = .pending := by
        cases ho : outcomeOf (runSched top s [] schedule).top (runSched top s [] schedule).st <;> simp [ho] at h
        rfl
      have hf := pending_not_finished _ _ hp
      have hq : (runSched top s [] schedule).st.queue ≠ [] := by
        intro hq; rw [hterm hq] at hf; exact Bool.noConfusion hf
      simpa using runSched_consumes schedule top s [] hf hq

/-- non-vacuity: two deferred fields, a schedule with one entry: pending, the one entry was used -/
example : (match (runAsync ⟨.query, .cons "a" .deferred (.ok (.leaf 1)) (.cons "b" .deferred (.ok (.leaf 2)) .nil)⟩ [0]).outcome with
    | .pending => true | _ => false) = true := by rfl

end PyGql.Props.C08

/-
  C06 - property theorems, part 25: THE OVERLAP RULE /repo RUNS IGNORES THE ORDER OF DEFINITIONS.

  `perm_definitions` had been proved for 17 rules (`Props/C06_all.lean`) + NoFragmentCycles + PossibleFragmentSpreads
  (`Props/C06_inv4.lean`); for OverlappingFieldsCanBeMerged it rested on the metamorphic oracle. With the equivalence for
  the memoised rule (`rule_overlapping_fields_memo_iff`) it reduces to the clause: `Spec.overlappingFieldsCanBeMerged`
  reads a document only through its selection-set nodes, its typed enumeration and its fragment table
  (`Lemmas/ValidateOverlapPerm.lean: SameDoc.clause`), and a permutation of the definitions of a document with UNIQUE
  fragment names keeps all three (`sameDoc_of_perm`; with two definitions of one name the last one wins - the table,
  and the verdict, depend on the order). The side conditions (`ParentsAgree`, no fragment named "", `WfIds`) travel
  along.
-/
import PyGqlModel.Props.C06_overlap_memo_complete
import PyGqlModel.Lemmas.ValidateOverlapPerm
namespace PyGql.Props.C06
open PyGql PyGql.Validate PyGql.Validate.Spec

/-- the clause of 5.3.2 does not depend on the order of the definitions (unique fragment names) -/
theorem overlap_clause_perm_definitions (s : SchemaD) {d d' : Doc} (h : d.defs.Perm d'.defs)
    (hnd : Spec.uniqueFragmentNames d) :
    Spec.overlappingFieldsCanBeMerged s d ↔ Spec.overlappingFieldsCanBeMerged s d' :=
  ⟨(sameDoc_of_perm s h hnd).clause, (sameDoc_of_perm s h hnd).symm.clause⟩

/-- **perm_definitions for `OverlappingFieldsCanBeMergedChecker` as /repo runs it** (memoised search): reordering the
    definitions of a document with unique fragment names does not change whether the rule reports -/
theorem perm_definitions_overlap_memo (s : SchemaD) (fx : Fixes) (h7 : fx.v7 = true) {d d' : Doc}
    (h : d.defs.Perm d'.defs) (hnd : Spec.uniqueFragmentNames d) (hpa : Spec.ParentsAgree s d)
    (hne : AL.get? (fragTable d) "" = none) (hw : WfIds d) :
    (overlapMemoRun s fx d).1 = 0 ↔ (overlapMemoRun s fx d').1 = 0 := by
  have sd := sameDoc_of_perm s h hnd
  rw [rule_overlapping_fields_memo_iff s fx h7 d hpa hne hw,
    rule_overlapping_fields_memo_iff s fx h7 d' (sd.parentsAgree hpa) (by rw [← sd.frags]; exact hne) (wfIds_perm h hw)]
  exact overlap_clause_perm_definitions s h hnd

/-! non-vacuity: the two-fragment document of `Props/C06_overlap_examples.lean` and the same with its definitions
    reversed -/
example : (overlapMemoRun oSchema Fixes.all (oDocFrag "a")).1 = 0 ↔
    (overlapMemoRun oSchema Fixes.all ⟨(oDocFrag "a").defs.reverse⟩).1 = 0 :=
  perm_definitions_overlap_memo oSchema Fixes.all rfl (d' := ⟨(oDocFrag "a").defs.reverse⟩)
    (List.reverse_perm _).symm (by unfold Spec.uniqueFragmentNames; decide) (parentsAgree_frag "a") (overlapSide_frag "a").noEmptyName
    (by rw [← wfIdsB_iff]; decide)

end PyGql.Props.C06

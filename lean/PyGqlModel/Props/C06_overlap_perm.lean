/-
  C06 - property theorems, part 25: THE OVERLAP RULE /repo RUNS IGNORES THE ORDER OF DEFINITIONS.

  `perm_definitions` had been proved for 17 rules (`Props/C06_all.lean`) + NoFragmentCycles + PossibleFragmentSpreads
  (`Props/C06_inv4.lean`); for OverlappingFieldsCanBeMerged it rested on the metamorphic oracle. With the equivalence for
  the memoised rule (`rule_overlapping_fields_memo_iff`) it reduces to the clause: `Spec.overlappingFieldsCanBeMerged`
  reads a document only through its selection-set nodes, its typed enumeration and its fragment table
  (`Lemmas/ValidateOverlapPerm.lean: SameDoc.clause`), and a permutation of the definitions of a document with UNIQUE
  fragment names keeps all three (`sameDoc_of_perm`; with two definitions of one name the last one wins - the table,
  and the verdict, depend on the order). The side conditions (`ParentsAgree`, no fragment named "", `WfIds`) travel
  along.
-/
import PyGqlModel.Props.C06_overlap_memo_complete
import PyGqlModel.Lemmas.ValidateOverlapPerm
namespace PyGql.Props.C06
open PyGql PyGql.Validate PyGql.Validate.Spec

/-- the clause of 5.3.2 does not depend on the order of the definitions (unique fragment names) -/
theorem overlap_clause_perm_definitions (s : SchemaD) {d d' : Doc} (h : d.defs.Perm d'.defs)
    (hnd : Spec.uniqueFragmentNames d) :
    Spec.overlappingFieldsCanBeMerged s d ↔ Spec.overlappingFieldsCanBeMerged s d' :=
  ⟨(sameDoc_of_perm s h hnd).clause, (sameDoc_of_perm s h hnd).symm.clause⟩

/-- **perm_definitions for `OverlappingFieldsCanBeMergedChecker` as /repo runs it** (memoised search): reordering the
    definitions of a document with unique fragment names does not change whether the rule reports -/
theorem perm_definitions_overlap_memo (s : SchemaD) (fx : Fixes) (h7 : fx.v7 = true) {d d' : Doc}
    (h : d.defs.Perm d'.defs) (hnd : Spec.uniqueFragmentNames d) (hpa : Spec.ParentsAgree s d)
    (hne : AL.get? (fragTable d) "" = none) (hw : WfIds d) :
    (overlapMemoRun s fx d).1 = 0 ↔ (overlapMemoRun s fx d').1 = 0 := by
  have sd := sameDoc_of_perm s h hnd
  rw [rule_overlapping_fields_memo_iff s fx h7 d hpa hne hw,
    rule_overlapping_fields_memo_iff s fx h7 d' (sd.parentsAgree hpa) (by rw [← sd.frags]; exact hne) (wfIds_perm h hw)]
  exact overlap_clause_perm_definitions s h hnd

/-! non-vacuity: the two-fragment document of `Props/C06_overlap_examples.lean` and the same with its definitions
    reversed -/
example : (overlapMemoRun oSchema Fixes.all (oDocFrag "a")).1 = 0 ↔
    (overlapMemoRun oSchema Fixes.all ⟨(oDocFrag "a").defs.reverse⟩).1 = 0 :=
  perm_definitions_overlap_memo oSchema Fixes.all rfl (d' := ⟨(oDocFrag "a").defs.reverse⟩)
    (List.reverse_perm _).symm (by unfold Spec.uniqueFragmentNames; decide) (parentsAgree_frag "a") (overlapSide_frag "a").noEmptyName
    (by rw [← wfIdsB_iff]; decide)

/-! ### what the other invariance claims will need: reordering ARGUMENTS

`_same_arguments` sorts both argument lists by name with a STABLE sort and compares them pairwise. With two arguments of
one name (a violation of UniqueArgumentNames, 5.4.2) the relative order of the two survives the sort, so reordering the
arguments of one field changes what this rule reports: `{ a(x:1, x:2) a(x:2, x:1) }` is reported ("different arguments"),
`{ a(x:1, x:2) a(x:1, x:2) }` is not - reproduced on the real validator (both documents are rejected by
UniqueArgumentNames, so the VERDICT of the chain does not change: no violation of the property; an invariance theorem
for this rule under `perm_arguments` must assume unique argument names). -/

def argI (n v : String) : Arg := { name := n, value := .int v }

/-- the rule alone is not invariant under reordering the arguments of a field when argument names repeat -/
theorem perm_arguments_overlap_needs_unique_argument_names :
    0 < (overlapMemoRun wSchema Fixes.all
      ⟨[opV [] 1 [fld none "a" [argI "x" "1", argI "x" "2"], fld none "a" [argI "x" "2", argI "x" "1"]]]⟩).1 ∧
    (overlapMemoRun wSchema Fixes.all
      ⟨[opV [] 1 [fld none "a" [argI "x" "1", argI "x" "2"], fld none "a" [argI "x" "1", argI "x" "2"]]]⟩).1 = 0 := by
  decide +kernel

end PyGql.Props.C06

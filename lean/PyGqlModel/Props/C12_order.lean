/-
  C12 — the well-formedness predicate `printBuildWF` does not depend on the order of the schema's type and directive
  lists (names are pairwise distinct), hence holds for the printing order `printOrder s`; with lang3's text layer this
  gives the final text-level round trip with hypotheses on `s` itself.
-/
import PyGqlModel.Props.C12_text

set_option linter.unusedVariables false
set_option linter.unusedSimpArgs false

namespace PyGql.Props.C12
open PyGql PyGql.Sdl PyGql.SdlSpec PyGql.SdlPrint PyGql.SdlText PyGql.Props.C11

/-! ### congruence: everything below the top-level lists looks types up by name -/

section
variable {s' s : SchemaD} (hf : ∀ n, s'.findType n = s.findType n)
include hf

theorem leafOK_congr (nm : String) (v : J) : leafOK s' nm v = leafOK s nm v := by
  simp only [leafOK, hf]

theorem wt_congr : ∀ fuel : Nat,
    (∀ v ty, wtB s' fuel v ty = wtB s fuel v ty) ∧ (∀ items t, wtsB s' fuel items t = wtsB s fuel items t) ∧
    (∀ fs kvs, wtF s' fuel fs kvs = wtF s fuel fs kvs) := by
  intro fuel
  induction fuel with
  | zero => exact ⟨fun _ _ => by simp [wtB], fun _ _ => by simp [wtsB], fun _ _ => by simp [wtF]⟩
  | succ n ih =>
    obtain ⟨i1, i2, i3⟩ := ih
    refine ⟨?_, ?_, ?_⟩
    · intro v ty
      cases ty with
      | nonNull t => simp only [wtB, i1]
      | list t => cases v <;> simp only [wtB, i2]
      | named nm => cases v <;> simp only [wtB, hf, leafOK_congr hf, i3]
    · intro items t
      cases items with
      | nil => simp [wtsB]
      | cons x xs => simp only [wtsB, i1, i2]
    · intro fs kvs
      cases fs with
      | nil => cases kvs <;> simp [wtF]
      | cons f fs =>
        cases kvs with
        | nil => simp only [wtF, i3]
        | cons kv rest => obtain ⟨k, v⟩ := kv; simp only [wtF, i1, i3]
end

private theorem env_ext (e₁ e₂ : Env) (h1 : e₁.findDef = e₂.findDef) (h2 : e₁.findAdditional = e₂.findAdditional) : e₁ = e₂ := by
  match e₁, e₂, h1, h2 with
  | ⟨a, b⟩, ⟨c, d⟩, h1, h2 =>
    have h1' : a = c := h1
    have h2' : b = d := h2
    rw [h1', h2']

theorem docEnv_congr {s' s : SchemaD} (hf : ∀ n, s'.findType n = s.findType n) (ht : typeToDef s' = typeToDef s) :
    docEnv s' = docEnv s := by
  apply env_ext
  · funext n; rw [docEnv_findDef, docEnv_findDef, hf, ht]
  · funext n; rw [docEnv_findAdditional, docEnv_findAdditional]

section
variable {s' s : SchemaD} (hf : ∀ n, s'.findType n = s.findType n) (ht : typeToDef s' = typeToDef s)
include hf ht

theorem argOK_congr : argOK s' = argOK s := by
  funext a; simp only [argOK, docEnv_congr hf ht, (wt_congr hf valueFuel).1]

theorem fieldOK_congr : fieldOK s' = fieldOK s := by
  funext f; simp only [fieldOK, argOK_congr hf ht, docEnv_congr hf ht]

theorem typeOK_congr : typeOK s' = typeOK s := by
  funext t; simp only [typeOK, fieldOK_congr hf ht, argOK_congr hf ht, docEnv_congr hf ht]

theorem directiveOK_congr : directiveOK s' = directiveOK s := by
  funext d; simp only [directiveOK, argOK_congr hf ht]
end

/-! ### permutation invariance of the list-level clauses -/

theorem all_perm {α} (p : α → Bool) {l₁ l₂ : List α} (hp : l₁.Perm l₂) : l₁.all p = l₂.all p := by
  induction hp with
  | nil => rfl
  | cons x _ ih => simp [List.all_cons, ih]
  | swap x y l => simp only [List.all_cons]; cases p x <;> cases p y <;> rfl
  | trans _ _ ih1 ih2 => rw [ih1, ih2]

theorem eagerReach_congr (types' types : List TypeD) (target : String)
    (hfind : ∀ n, types'.find? (·.name == n) = types.find? (·.name == n)) :
    ∀ (fuel : Nat) (n : String), eagerReach types' target fuel n = eagerReach types target fuel n := by
  intro fuel
  induction fuel with
  | zero => intro n; rfl
  | succ k ih =>
    intro n
    simp only [eagerReach, hfind]
    cases types.find? (·.name == n) with
    | none => rfl
    | some t =>
      simp only []
      congr 1
      funext m
      rw [ih]

theorem hasEagerCycle_perm {types' types : List TypeD} (hp : types'.Perm types) (hn : (types.map (·.name)).Nodup) :
    hasEagerCycle types' = hasEagerCycle types := by
  have hfind : ∀ n, types'.find? (·.name == n) = types.find? (·.name == n) :=
    fun n => (find_perm (·.name) n hp.symm hn).symm
  simp only [hasEagerCycle, hp.length_eq]
  rw [show (fun t : TypeD => eagerReach types' t.name types.length t.name) = (fun t => eagerReach types t.name types.length t.name) from
    funext fun t => eagerReach_congr types' types t.name hfind _ _]
  exact any_perm _ hp

theorem hasThunkCycle_perm (env : Env) {defs' defs : List TypeDef} (hp : defs'.Perm defs) :
    hasThunkCycle env defs' = hasThunkCycle env defs := by
  simp only [hasThunkCycle, hp.length_eq]
  exact any_perm _ hp

/-! ### `printBuildWF` is invariant under the printer's reordering -/

theorem namesUnique_of_printBuildWF (s : SchemaD) (h : printBuildWF s = true) : namesUnique s = true := by
  simp only [printBuildWF, Bool.and_eq_true, Bool.not_eq_true'] at h
  obtain ⟨⟨⟨⟨⟨⟨⟨_, _⟩, hut⟩, hud⟩, _⟩, _⟩, _⟩, _⟩ := h
  simp only [namesUnique, Bool.and_eq_true, decide_eq_true_eq]
  exact ⟨(hasDup_false_iff _).mp hut, (hasDup_false_iff _).mp hud⟩

/-- **printBuildWF_printOrder**: every clause of the well-formedness predicate looks types up by name or quantifies over
    a whole list, so it holds for the printing order whenever it holds for the schema. -/
theorem printBuildWF_printOrder (s : SchemaD) (h : printBuildWF s = true) : printBuildWF (printOrder s) = true := by
  have hu := namesUnique_of_printBuildWF s h
  obtain ⟨hnt, hnd⟩ := unique_of_wf s hu
  have hf : ∀ n, (printOrder s).findType n = s.findType n := findType_printOrder s hu
  have ht : typeToDef (printOrder s) = typeToDef s := typeToDef_congr (sameLits_printOrder s hu)
  have hpt := types_perm s
  have hpd := directives_perm s
  have henv := docEnv_congr hf ht
  simp only [printBuildWF, Bool.and_eq_true, Bool.not_eq_true'] at h ⊢
  obtain ⟨⟨⟨⟨⟨⟨⟨hty, hdi⟩, hut⟩, hud⟩, hro⟩, hth⟩, hea⟩, hres⟩ := h
  refine ⟨⟨⟨⟨⟨⟨⟨?_, ?_⟩, ?_⟩, ?_⟩, ?_⟩, ?_⟩, ?_⟩, ?_⟩
  · rw [typeOK_congr hf ht, all_perm _ hpt]; exact hty
  · rw [directiveOK_congr hf ht, all_perm _ hpd]; exact hdi
  · rw [hasDup_false_iff]; exact (hpt.map _).nodup_iff.mpr hnt
  · rw [hasDup_false_iff]; exact (hpd.map _).nodup_iff.mpr hnd
  · have hany : ∀ f : TypeD → Bool, (printOrder s).types.any f = s.types.any f := fun f => any_perm f hpt
    have e1 : (printOrder s).query = s.query := rfl
    have e2 : (printOrder s).mutation = s.mutation := rfl
    have e3 : (printOrder s).subscription = s.subscription := rfl
    simp only [rootsOK, rootIsObject, hany, e1, e2, e3] at hro ⊢
    exact hro
  · rw [henv, ht, hasThunkCycle_perm _ (hpt.map _)]; exact hth
  · rw [hasEagerCycle_perm hpt hnt]; exact hea
  · exact hres

/-! ### the final text-level round trip -/

/-- equality of schemas up to the order of the type and directive registries -/
def SameUpToOrder (a b : SchemaD) : Prop :=
  a.types.Perm b.types ∧ a.directives.Perm b.directives ∧ a.query = b.query ∧ a.mutation = b.mutation ∧
  a.subscription = b.subscription ∧ a.defaultResolver = b.defaultResolver

/-- **text_roundtrip_final** (C12 at TEXT level, hypotheses on `s` only): if a schema description satisfies the lexical
    predicate `printTextWF` (lang3) and the structural predicate `printBuildWF`, then the text `to_string` prints is
    accepted by the lexer and the parser, and the document it parses to builds a schema that is `s` up to the order of
    its definitions (the printer sorts them by name). -/
theorem text_roundtrip_final (o : SdlPrintT.OptsT) (s : SchemaD) (hwf : printTextWF o s = true) (hb : printBuildWF s = true) :
    ∃ (d : Ast.Document) (doc : Doc) (s' : SchemaD), parseSdlTextT (SdlPrintT.printSchemaT o s) = some d ∧
      docToAst doc = some d ∧ build doc = .ok s' ∧ SameUpToOrder s' s := by
  obtain ⟨d, doc, h1, h2, h3⟩ := text_roundtrip o s hwf (printBuildWF_printOrder s hb)
  exact ⟨d, doc, printOrder s, h1, h2, h3, types_perm s, directives_perm s, rfl, rfl, rfl, rfl⟩

/-- non-vacuity: the example schemas satisfy both predicates -/
example : ∃ d doc s', parseSdlTextT (SdlPrintT.printSchemaT {} shop) = some d ∧ docToAst doc = some d ∧ build doc = .ok s' ∧
    SameUpToOrder s' shop := text_roundtrip_final {} shop (by decide) shop_wf

end PyGql.Props.C12

/-
  C06 - property theorems, part 19: VARIABLES INSIDE LIST LITERALS (hunt C06/1, C06/2, C07/1;
  proposed_fixes/C06-enter-list-value.patch). The position of the items of a list literal has the ITEM type of the
  list type expected (`TI.itemOf`: one non-null wrapper and one list level removed), no longer its named type.
  `itemOf` on the shapes that matter, and the verdicts of the model of `VariablesInAllowedPositionChecker` on the
  hunter's documents, by evaluation; the clause of 5.8.5 (`Spec.variablesInAllowedPosition`, through
  `rule_variables_in_allowed_position_iff`) agrees.
-/
import PyGqlModel.Props.C06_vars
namespace PyGql.Props.C06
open PyGql PyGql.Validate PyGql.Validate.Spec

theorem itemOf_list (t : Ty) : TI.itemOf (.list t) = t := rfl
theorem itemOf_nonNull_list (t : Ty) : TI.itemOf (.nonNull (.list t)) = t := rfl
/-- at a non-list position the (nullable) type of the position is kept -/
theorem itemOf_named (n : String) : TI.itemOf (.named n) = .named n ∧ TI.itemOf (.nonNull (.named n)) = .named n := ⟨rfl, rfl⟩
/-- the item position keeps the remaining list levels and the nullability of the items -/
example : TI.itemOf (.list (.list (.named "Int"))) = .list (.named "Int") ∧
    TI.itemOf (.list (.nonNull (.named "Int"))) = .nonNull (.named "Int") := ⟨rfl, rfl⟩

/-- `input G { rows: [[Int]] }  type Query { f(ll: [[Int]], nl: [Int!], g: G): Int }` -/
def liSchema : SchemaD :=
  { types := [
      { kind := .scalar, name := "Int" }, { kind := .scalar, name := "String" }, { kind := .scalar, name := "Boolean" },
      { kind := .input, name := "G", inputFields := [{ name := "rows", type := .list (.list (.named "Int")) }] },
      { kind := .object, name := "Query", fields := [
          { name := "f", type := .named "Int",
            args := [{ name := "ll", type := .list (.list (.named "Int")) },
                     { name := "nl", type := .list (.nonNull (.named "Int")) },
                     { name := "g", type := .named "G" }] }] }],
    query := some "Query",
    directives := [] }

def liDoc (vt : Ty) (arg : String) (val : Value) : Doc :=
  ⟨[opV [{ name := "v", type := vt, default := none }] 1 [fld none "f" [⟨arg, val⟩]]]⟩

/-- C06/1: `query ($v: [Int]) { f(ll: [$v]) }` is VALID and accepted (was rejected); also below an object field -/
example : Silent liSchema Fixes.all .variablesInAllowedPosition (liDoc (.list (.named "Int")) "ll" (.list [.var "v"])) := by
  unfold Silent; decide +kernel
example : Silent liSchema Fixes.all .variablesInAllowedPosition
    (liDoc (.list (.named "Int")) "g" (.obj [.mk "rows" (.list [.var "v"])])) := by
  unfold Silent; decide +kernel
/-- depth 2: `query ($v: Int) { f(ll: [[$v]]) }` is valid -/
example : Silent liSchema Fixes.all .variablesInAllowedPosition (liDoc (.named "Int") "ll" (.list [.list [.var "v"]])) := by
  unfold Silent; decide +kernel
/-- C06/2 (and C07/1): `query ($v: Int) { f(ll: [$v]) }` - too shallow - is reported (was accepted) -/
example : ¬ Silent liSchema Fixes.all .variablesInAllowedPosition (liDoc (.named "Int") "ll" (.list [.var "v"])) := by
  unfold Silent; decide +kernel
/-- C06/2: `query ($v: Int) { f(nl: [$v]) }` - nullable variable at a non-null item position - is reported -/
example : ¬ Silent liSchema Fixes.all .variablesInAllowedPosition (liDoc (.named "Int") "nl" (.list [.var "v"])) := by
  unfold Silent; decide +kernel
example : Silent liSchema Fixes.all .variablesInAllowedPosition
    (liDoc (.nonNull (.named "Int")) "nl" (.list [.var "v"])) := by
  unfold Silent; decide +kernel
/-- the clause of 5.8.5 says the same of the too-shallow document -/
example : ¬ Spec.variablesInAllowedPosition liSchema (liDoc (.named "Int") "ll" (.list [.var "v"])) := fun h =>
  absurd ((rule_variables_in_allowed_position_iff liSchema Fixes.all rfl rfl _).mpr h) (by unfold Silent; decide +kernel)

end PyGql.Props.C06

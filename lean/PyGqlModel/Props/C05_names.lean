/-
  C05 — the parser guarantees behind the hypotheses "no fragment is named \"\"" (`hne`) and "no alias is \"\""
  (`AliasesNonEmpty`) of the soundness chain: in every document `parse(text)` returns (lexer model ∘ parser model, all
  flag combinations), the name of every fragment definition, every alias, every field name and every spread name is a
  NON-EMPTY text.

  Proof: `lex_sound` (every token of the lexer is a complete lexeme; a `Name` lexeme is its own value and is not empty)
  and `parse_sound_document` (the token list is matched by the view of the returned document: every `Name` leaf of the
  view is the class of a token).

  What stays outside Lean: the validator's and executor's documents (`Validate.Doc`, strings) are built by the harness
  from the REAL parser's tree (`harness/corr/C06_model.py`), and the parser model is tied to the real parser by C01 /
  C02's correspondence; the transport of this fact along that translation (Text ↦ String) is not a Lean statement.
-/
import PyGqlModel.Props.C01_text

set_option linter.unusedSimpArgs false
set_option linter.unusedVariables false

namespace PyGql.Props.C05
open PyGql PyGql.Parse PyGql.Ast PyGql.Spec
open PyGql.Props.C01 (Matches matches_iff parse_sound_document lex_sound)

/-- the lexer's tokens: every `Name` token carries a non-empty value -/
def NameToksOk (ts : List Tok) : Prop := ∀ t ∈ ts, t.kind = .name → t.value ≠ []

mutual
/-- every `Name` token leaf of the item carries a non-empty text -/
def namesOk : Item → Bool
  | .tok k v => if k = .name then decide (v ≠ []) else true
  | .optTok _ _ => true
  | .nla _ => true
  | .node _ is => namesOkAll is
def namesOkAll : List Item → Bool
  | [] => true
  | i :: is => namesOk i && namesOkAll is
end

private theorem namesOkAll_append : ∀ (a b : List Item), namesOkAll (a ++ b) = (namesOkAll a && namesOkAll b)
  | [], b => by simp [namesOkAll]
  | i :: is, b => by simp [namesOkAll, namesOkAll_append is b, Bool.and_assoc]

mutual
private theorem check_names (fl : Flags) : ∀ (i : Item) (l l' : Tok) (ts rest : List Tok), NameToksOk ts →
    i.check fl l ts = some (l', rest) → namesOk i = true ∧ NameToksOk rest
  | .tok k v, l, l', ts, rest, hts, h => by
    rw [check_tok] at h
    obtain ⟨t, rfl, hc, _⟩ := h
    refine ⟨?_, fun u hu => hts u (by simp [hu])⟩
    simp only [namesOk]
    split
    · rename_i hk
      subst hk
      simp only [cls, Prod.mk.injEq] at hc
      obtain ⟨hk, hv⟩ := hc
      simp only [hk, hasValue, if_true] at hv
      rw [← hv]
      simpa using hts t (by simp) hk
    · rfl
  | .optTok k v, l, l', ts, rest, hts, h => by
    rw [check_optTok] at h
    refine ⟨rfl, ?_⟩
    rcases h with ⟨t, rfl, _, _⟩ | ⟨_, rfl, _⟩
    · exact fun u hu => hts u (by simp [hu])
    · exact hts
  | .nla k, l, l', ts, rest, hts, h => by
    rw [check_nla] at h
    obtain ⟨_, rfl, _⟩ := h
    exact ⟨rfl, hts⟩
  | .node loc is, l, l', ts, rest, hts, h => by
    rw [check_node] at h
    obtain ⟨f, tl, rfl, hall, _⟩ := h
    have := checkAll_names fl is l l' (f :: tl) rest hts hall
    exact ⟨by simpa [namesOk] using this.1, this.2⟩
private theorem checkAll_names (fl : Flags) : ∀ (is : List Item) (l l' : Tok) (ts rest : List Tok), NameToksOk ts →
    Item.checkAll fl is l ts = some (l', rest) → namesOkAll is = true ∧ NameToksOk rest
  | [], l, l', ts, rest, hts, h => by
    simp only [Item.checkAll, Option.some.injEq, Prod.mk.injEq] at h
    obtain ⟨_, rfl⟩ := h
    exact ⟨rfl, hts⟩
  | i :: is, l, l', ts, rest, hts, h => by
    rw [checkAll_cons] at h
    obtain ⟨l1, ts1, h1, h2⟩ := h
    obtain ⟨a1, a2⟩ := check_names fl i l l1 ts ts1 hts h1
    obtain ⟨b1, b2⟩ := checkAll_names fl is l1 l' ts1 rest a2 h2
    exact ⟨by simp [namesOkAll, a1, b1], b2⟩
end

/-- **the lexer never produces an empty `Name` token** -/
theorem lexed_names_nonempty (s : Text) (toks : List Tok) (h : Lex.lexAll s = .ok toks) : NameToksOk toks := by
  obtain ⟨body, rfl, hT⟩ := lex_sound s toks h
  have key : ∀ (n : Nat) (s : Text) (body : List Tok), Spec.Lexical.Tiles n s body → NameToksOk body := by
    intro n s body ht
    induction ht with
    | eof ign _ =>
      intro t ht hk
      simp only [List.mem_singleton] at ht
      subst ht
      cases hk
    | tok ign lex rest k v toks _ hl _ _ ih =>
      intro t ht hk
      simp only [List.mem_cons] at ht
      rcases ht with rfl | ht
      · simp only at hk
        subst hk
        simp only [Spec.Lexical.Lexeme] at hl
        obtain ⟨hn, rfl⟩ := hl
        simp only
        intro he
        subst he
        simp [Spec.Lexical.isName] at hn
      · exact ih t ht hk
  intro t ht hk
  simp only [List.mem_cons] at ht
  rcases ht with rfl | ht
  · simp [Lex.sofTok] at hk
  · exact key _ _ _ hT t ht hk

/-! ### the names of a document the soundness chain speaks about -/

mutual
/-- aliases, field names and spread names of a selection -/
def selNames : Selection → List Text
  | .field alias_ name _ _ ss _ => (match alias_ with | none => [] | some a => [a.value]) ++ name.value :: optSsNames ss
  | .fragmentSpread name _ _ => [name.value]
  | .inlineFragment _ _ ss _ => ssNames ss
def ssNames : SelectionSet → List Text
  | .mk sels _ => selsNames sels
def optSsNames : Option SelectionSet → List Text
  | none => []
  | some ss => ssNames ss
def selsNames : List Selection → List Text
  | [] => []
  | s :: ss => selNames s ++ selsNames ss
end

/-- fragment-definition names, aliases, field names, spread names -/
def defNames : Definition → List Text
  | .operation d => ssNames d.selectionSet
  | .fragment d => d.name.value :: ssNames d.selectionSet
  | _ => []

private theorem namesOkAll_mem : ∀ (is : List Item) (i : Item), namesOkAll is = true → i ∈ is → namesOk i = true
  | [], _, _, h => by simp at h
  | j :: js, i, h, hm => by
    simp only [namesOkAll, Bool.and_eq_true] at h
    simp only [List.mem_cons] at hm
    rcases hm with rfl | hm
    · exact h.1
    · exact namesOkAll_mem js i h.2 hm

private theorem nameV_ok (n : Name) (h : namesOk (nameV n) = true) : n.value ≠ [] := by
  simpa [nameV, namesOk, namesOkAll] using h

mutual
private theorem sel_names_ok : ∀ (x : Selection), namesOk (selectionV x) = true → ∀ n ∈ selNames x, n ≠ []
  | .field alias_ name args dirs ss loc, h, n, hn => by
    simp only [selectionV, namesOk] at h
    simp only [selNames, List.mem_append, List.mem_cons] at hn
    rcases hn with hn | rfl | hn
    · cases alias_ with
      | none => simp at hn
      | some a =>
        simp only [List.mem_singleton] at hn
        subst hn
        exact nameV_ok a (namesOkAll_mem _ _ h (by simp))
    · exact nameV_ok name (namesOkAll_mem _ _ h (by simp))
    · cases ss with
      | none => simp [optSsNames] at hn
      | some s =>
        exact ss_names_ok s (namesOkAll_mem _ _ h (by simp [optSelectionSetV])) n (by simpa [optSsNames] using hn)
  | .fragmentSpread name dirs loc, h, n, hn => by
    simp only [selectionV, namesOk] at h
    simp only [selNames, List.mem_singleton] at hn
    subst hn
    exact nameV_ok name (namesOkAll_mem _ _ h (by simp))
  | .inlineFragment tc dirs ss loc, h, n, hn => by
    simp only [selectionV, namesOk] at h
    exact ss_names_ok ss (namesOkAll_mem _ _ h (by simp)) n (by simpa [selNames] using hn)
private theorem ss_names_ok : ∀ (x : SelectionSet), namesOk (selectionSetV x) = true → ∀ n ∈ ssNames x, n ≠ []
  | .mk sels loc, h, n, hn => by
    simp only [selectionSetV, namesOk, namesOkAll, namesOkAll_append, Bool.and_eq_true] at h
    exact sels_names_ok sels h.2.1 n (by simpa [ssNames] using hn)
private theorem sels_names_ok : ∀ (xs : List Selection), namesOkAll (selectionsV xs) = true → ∀ n ∈ selsNames xs, n ≠ []
  | [], _, n, hn => by simp [selsNames] at hn
  | x :: xs, h, n, hn => by
    simp only [selectionsV, namesOkAll, Bool.and_eq_true] at h
    simp only [selsNames, List.mem_append] at hn
    rcases hn with hn | hn
    · exact sel_names_ok x h.1 n hn
    · exact sels_names_ok xs h.2 n hn
end

/-- **parsed_names_nonempty** — in the document `parse(text)` returns (any flags), no fragment definition is named by
    the empty text, and no alias, field name or spread name is empty: the parser-side guarantee behind the hypotheses
    `hne` and `AliasesNonEmpty` of `accepted_cannot_go_wrong_merged`. -/
theorem parsed_names_nonempty (fl : Flags) (s : Text) (d : Document) (h : parseText fl s = some d) :
    ∀ x ∈ d.definitions, ∀ n ∈ defNames x, n ≠ [] := by
  unfold parseText at h
  cases hl : Lex.lexAll s with
  | error e => simp [hl] at h
  | ok toks =>
    simp only [hl] at h
    cases hp : parseDocument fl toks with
    | error e => simp [hp, Except.toOption] at h
    | ok d' =>
      simp only [hp, Except.toOption, Option.some.injEq] at h
      subst h
      obtain ⟨l', hm⟩ := (matches_iff _ _ _).1 (parse_sound_document fl toks d' hp).2
      have hall := (checkAll_names fl _ _ _ _ _ (lexed_names_nonempty s toks hl) hm).1
      simp only [namesOkAll, documentV, namesOk, namesOkAll_append, Bool.and_eq_true] at hall
      have hdefs := hall.1.2.1
      intro x hx n hn
      have hx' := namesOkAll_mem _ _ hdefs (List.mem_map.mpr ⟨x, hx, rfl⟩)
      cases x with
      | operation o =>
        simp only [defNames] at hn
        simp only [definitionV, operationV] at hx'
        split at hx'
        · simp only [namesOk] at hx'
          exact ss_names_ok _ (namesOkAll_mem _ _ hx' (by simp)) n hn
        · simp only [namesOk] at hx'
          exact ss_names_ok _ (namesOkAll_mem _ _ hx' (by simp)) n hn
      | fragment f =>
        simp only [defNames, List.mem_cons] at hn
        simp only [definitionV, fragmentV, namesOk] at hx'
        rcases hn with rfl | hn
        · exact nameV_ok f.name (namesOkAll_mem _ _ hx' (by simp))
        · exact ss_names_ok _ (namesOkAll_mem _ _ hx' (by simp)) n hn
      | _ => simp [defNames] at hn

/-! non-vacuity: `{ x: a ...F } fragment F on Q { b }` parses; its names are `x`, `a`, `F`, `F`, `b` -/
example : ((parseText {} (textOfString "{ x: a ...F } fragment F on Q { b }")).map fun d => d.definitions.map defNames)
    = some [[textOfString "x", textOfString "a", textOfString "F"], [textOfString "F", textOfString "b"]] := by decide +kernel

end PyGql.Props.C05

/-
  C02, last clause at CHARACTER level THROUGH THE `parse` ENTRY POINT, for the node kinds that have no entry point of
  their own (selection sets, fields / fragment spreads / inline fragments, arguments, directives, descriptions):
  `span_reparse_node` covers them at grammar level; here the spanned text, wrapped in the MINIMAL CONTEXT that makes it
  a document, is accepted by `parse` under the same flags and the document returned contains the node, moved by the
  offset of the context ("equal modulo offset": `mapLoc (locDown a)` then `mapLoc (locUp k)`, `k` = length of the prefix).

      selection set   σ                      the text itself is the query shorthand
      selection       `{ σ⏎}`                field, fragment spread or inline fragment
      directive       `{ a σ⏎}`              a directive of the field `a`
      argument        `{ a(σ⏎)}`             an argument of the field `a`
      description     `σ⏎scalar A`           the description of the scalar `A` (flags with `allow_type_system`)
      object field    `{ σ⏎}`                through `parse_value`: a field of an input-object literal
      variable def.   `query(σ⏎){a}`         a variable definition of the query
      field def. / input value def. / enum value def.   `type A {σ⏎}` / `input A {σ⏎}` / `enum A {σ⏎}`
      operation type def.   `schema {σ⏎}`    name   `{ σ⏎}` (the field of that name)

  `⏎` is a line feed: the spanned text ends with its last token, and a line feed satisfies every follow restriction of
  the lexical grammar (a space would do as well; ignored characters are insignificant — `lex_ignored_invariant`).
  The side hypotheses `wf… = true` hold for every node of a parsed document (`parse_sound_document`); they are
  hypotheses only because the concrete-syntax view cannot tell e.g. the ill-formed enum value `true` from the boolean
  (as in `span_reparse_doc_value`).
-/
import PyGqlModel.Props.C02_reparse_doc
import PyGqlModel.Lemmas.SpanCtx
namespace PyGql.Props.C02
open PyGql PyGql.Ast PyGql.Parse PyGql.Spec PyGql.Props.C01
open PyGql.Spec.Lexical (Tiles slice eofT)

/-- the common core (as `doc_core`, returning the tiling): a solid node below a definition of an accepted document -/
private theorem doc_tiles (fl : Flags) (s : Text) (d : Document) (h : parseText fl s = some d)
    (x : Definition) (hx : x ∈ d.definitions) (j : Item) (hs : Item.Sub j (definitionV x))
    (a b : Nat) (is : List Item) (hj : j = .node (some (a, b)) is) :
    a ≤ b ∧ b ≤ s.length ∧ fl.noLocation = false ∧ (slice s a b).length = b - a ∧
      ∃ seg, Tiles (b - a) (slice s a b) (seg ++ [eofT (b - a)]) ∧
      Item.checkAll fl [p .sof, j.down a, p .eof] default (Lex.sofTok :: (seg ++ [eofT (b - a)])) = some (eofT (b - a), []) := by
  obtain ⟨toks, hl, _, hm⟩ := (parse_text_result_partial fl s d).1 h
  obtain ⟨l', hm⟩ := (matches_iff _ _ _).1 hm
  obtain ⟨body, rfl, ht⟩ := (lexAll_ok_iff s toks).mp hl
  rw [checkAll_cons] at hm
  obtain ⟨l1, ts1, h1, h2⟩ := hm
  rw [checkAll_nil] at h2
  cases h2
  unfold documentV at h1
  rw [check_node] at h1
  obtain ⟨f, tl, _, hall, _⟩ := h1
  have hsol : j.solid = true := solid_sub hs (definitionV_solid x)
  obtain ⟨h1, h2, hnl, seg, htl, hc⟩ := item_slice fl s body ht (d.definitions.map definitionV) default l' hall
    (i := definitionV x) (j := j) (List.mem_map.2 ⟨x, hx, rfl⟩) hs hsol is a b hj
  exact ⟨h1, h2, hnl, Spec.slice_length h1 h2, seg, htl, hc⟩

/-- the document `{ sels }` (query shorthand): its selection set, its operation and the document span `(0, m)` -/
def shorthandDoc (sels : List Selection) (m : Nat) : Document :=
  ⟨[.operation ⟨K.query, none, [], [], .mk sels (some (0, m)), some (0, m)⟩], some (0, m)⟩

private theorem locOf_eq (fl : Flags) (hnl : fl.noLocation = false) (f l : Tok) : locOf fl f l = some (f.start, l.stop) := by
  simp [locOf, hnl]

/-- `SOF { T } EOF` derives the shorthand document when `T` derives its selections whatever follows -/
private theorem matches_shorthand (fl : Flags) (hnl : fl.noLocation = false) (sels : List Selection) (T : List Tok)
    (m n3 : Nat) (lx : Tok)
    (hx : ∀ l rest2, Item.checkAll fl (selectionsV sels) l (T ++ rest2) = some (lx, rest2)) :
    Matches fl [documentV (shorthandDoc sels m)]
      (Lex.sofTok :: ⟨.curlyL, 0, 1, [123]⟩ :: (T ++ [⟨.curlyR, n3, m, [125]⟩, eofT m])) := by
  apply (matches_iff _ _ _).2
  refine ⟨eofT m, ?_⟩
  have hss : ∀ l, (selectionSetV (.mk sels (some (0, m)))).check fl l
      (⟨.curlyL, 0, 1, [123]⟩ :: (T ++ [⟨.curlyR, n3, m, [125]⟩, eofT m])) = some (⟨.curlyR, n3, m, [125]⟩, [eofT m]) := by
    intro l
    simp only [selectionSetV]
    rw [check_node]
    refine ⟨_, _, rfl, ?_, by rw [locOf_eq fl hnl]⟩
    rw [checkAll_cons]
    refine ⟨_, _, (check_tok ..).2 ⟨_, rfl, rfl, rfl⟩, ?_⟩
    rw [checkAll_append]
    refine ⟨_, _, hx _ _, ?_⟩
    rw [checkAll_cons]
    exact ⟨_, _, (check_tok ..).2 ⟨_, rfl, rfl, rfl⟩, by rw [checkAll_nil]⟩
  have hop : ∀ l, (operationV ⟨K.query, none, [], [], .mk sels (some (0, m)), some (0, m)⟩).check fl l
      (⟨.curlyL, 0, 1, [123]⟩ :: (T ++ [⟨.curlyR, n3, m, [125]⟩, eofT m])) = some (⟨.curlyR, n3, m, [125]⟩, [eofT m]) := by
    intro l
    unfold operationV
    rw [if_pos (by simp [isShorthand])]
    rw [check_node]
    refine ⟨_, _, rfl, ?_, by rw [locOf_eq fl hnl]⟩
    rw [checkAll_cons]
    refine ⟨l, _, (check_optTok ..).2 (.inr ⟨rfl, rfl, ?_⟩), ?_⟩
    · intro t tl e
      simp only [List.cons.injEq] at e
      rw [← e.1]; decide
    · rw [checkAll_cons]
      exact ⟨_, _, hss l, by rw [checkAll_nil]⟩
  rw [checkAll_cons]
  refine ⟨eofT m, [], ?_, by rw [checkAll_nil]⟩
  simp only [documentV, shorthandDoc, List.map_cons, List.map_nil, definitionV]
  rw [check_node]
  refine ⟨_, _, rfl, ?_, by rw [locOf_eq fl hnl]; rfl⟩
  rw [checkAll_cons]
  refine ⟨_, _, (check_tok ..).2 ⟨_, rfl, rfl, rfl⟩, ?_⟩
  rw [List.cons_append, List.nil_append, checkAll_cons]
  refine ⟨_, _, hop _, ?_⟩
  rw [checkAll_cons]
  exact ⟨_, _, (check_tok ..).2 ⟨_, rfl, rfl, rfl⟩, by rw [checkAll_nil]⟩

/-- SELECTIONS (fields, fragment spreads, inline fragments), at any depth of any operation or fragment definition:
    the spanned text between `{ ` and `⏎}` is accepted by `parse` under the same flags, and the result is the shorthand
    query whose only selection is the node, moved to offset 2. -/
theorem span_reparse_selection (fl : Flags) (s : Text) (d : Document) (h : parseText fl s = some d) :
    ∀ x ∈ d.definitions, ∀ sel : Selection, Item.Sub (selectionV sel) (definitionV x) → wfSelection sel = true →
      ∀ a b, sel.loc = some (a, b) →
      a ≤ b ∧ b ≤ s.length ∧
      parseText fl ([123, 32] ++ slice s a b ++ [10, 125]) =
        some (shorthandDoc [(sel.mapLoc (locDown a)).mapLoc (locUp 2)] (b - a + 4)) := by
  intro x hx sel hs hwf a b hloc
  obtain ⟨is, hnode⟩ := selectionV_node sel
  rw [hloc] at hnode
  obtain ⟨h1, h2, hnl, hlen, seg, htl, hc⟩ := doc_tiles fl s d h x hx _ hs a b is hnode
  refine ⟨h1, h2, ?_⟩
  rw [← selectionV_down] at hc
  obtain ⟨is0, hnode0⟩ := selectionV_node (sel.mapLoc (locDown a))
  rw [hnode0] at hc
  obtain ⟨f, tl, l1, hseg, _, hck⟩ := ctx_check fl _ is0 seg (b - a)
    (by rw [← hnode0]; exact selectionV_solid _) (by rw [← hnode0]; exact selectionV_plain _) hc
  apply (parse_text_result fl _ _).2
  refine ⟨_, tiles_braces hlen htl, ?_, ?_⟩
  · simp [shorthandDoc, wfDocument, wfDefinition, wfOperation, wfDirectives, wfSelectionSet, wfSelections,
      wfSelection_mapLoc, hwf, isTypeSystem, Generated.ParserTables.operationTypeTuple, K.query]
  · have e : b - a + 4 = b - a + 3 + 1 := by omega
    refine matches_shorthand fl hnl _ (seg.map (Tok.up 2)) (b - a + 4) (b - a + 3) (l1.up 2) ?_
    intro l rest2
    simp only [selectionsV]
    rw [checkAll_cons]
    refine ⟨_, _, ?_, by rw [checkAll_nil]⟩
    have := hck 2 l rest2
    rw [← hnode0, ← selectionV_up] at this
    exact this

/-- SELECTION SETS need no context: the spanned text `{ … }` is the query shorthand. `parse` accepts it under the same
    flags and returns the one-operation document whose selection set is the node, moved to offset 0. -/
theorem span_reparse_selection_set (fl : Flags) (s : Text) (d : Document) (h : parseText fl s = some d) :
    ∀ x ∈ d.definitions, ∀ ss : SelectionSet, Item.Sub (selectionSetV ss) (definitionV x) → wfSelectionSet ss = true →
      ∀ a b, ss.loc = some (a, b) →
      a ≤ b ∧ b ≤ s.length ∧
      parseText fl (slice s a b) =
        some ⟨[.operation ⟨K.query, none, [], [], ss.mapLoc (locDown a), some (0, b - a)⟩], some (0, b - a)⟩ := by
  intro x hx ss hs hwf a b hloc
  obtain ⟨is, hnode⟩ := selectionSetV_node ss
  rw [hloc] at hnode
  obtain ⟨h1, h2, hnl, hlen, seg, htl, hc⟩ := doc_tiles fl s d h x hx _ hs a b is hnode
  refine ⟨h1, h2, ?_⟩
  rw [← selectionSetV_down] at hc
  apply (parse_text_result fl _ _).2
  rw [hlen]
  refine ⟨_, htl, ?_, (matches_iff _ _ _).2 ⟨eofT (b - a), ?_⟩⟩
  · simp [wfDocument, wfDefinition, wfOperation, wfDirectives, wfSelectionSet_mapLoc, hwf, isTypeSystem,
      Generated.ParserTables.operationTypeTuple, K.query]
  · -- peel `SOF ss EOF`, then put the operation and the document nodes around `ss`
    rw [checkAll_cons] at hc
    obtain ⟨l0, ts0, h0, hc⟩ := hc
    rw [check_tok] at h0
    obtain ⟨t0, e0, _, rfl⟩ := h0
    simp only [List.cons.injEq] at e0
    obtain ⟨rfl, rfl⟩ := e0
    rw [checkAll_cons] at hc
    obtain ⟨l1, ts1, hss, hc⟩ := hc
    rw [checkAll_cons] at hc
    obtain ⟨l2, ts2, h2', hc⟩ := hc
    rw [checkAll_nil] at hc
    rw [check_tok] at h2'
    obtain ⟨te, rfl, hte, rfl⟩ := h2'
    simp only [Prod.mk.injEq] at hc
    obtain ⟨rfl, rfl⟩ := hc
    -- the selection set's own span is the whole slice
    have hss' := hss
    cases hm : ss.mapLoc (locDown a) with
    | mk sels loc0 =>
      rw [hm] at hss hss'
      simp only [selectionSetV] at hss'
      rw [check_node] at hss'
      obtain ⟨f, tl, e, _, hl0⟩ := hss'
      have hloc0 : loc0 = some (0, b - a) := by
        have : (ss.mapLoc (locDown a)).loc = some (a - a, b - a) := by
          cases ss with | mk sl lc => simp only [SelectionSet.loc] at hloc; subst hloc; rfl
        rw [hm] at this
        simpa [SelectionSet.loc] using this
      rw [checkAll_cons]
      refine ⟨eofT (b - a), [], ?_, by rw [checkAll_nil]⟩
      simp only [documentV, List.map_cons, List.map_nil, definitionV]
      rw [check_node]
      refine ⟨_, _, rfl, ?_, by rw [locOf_eq fl hnl]; rfl⟩
      rw [checkAll_cons]
      refine ⟨_, _, (check_tok ..).2 ⟨_, rfl, rfl, rfl⟩, ?_⟩
      rw [List.cons_append, List.nil_append, checkAll_cons]
      refine ⟨l1, [eofT (b - a)], ?_, ?_⟩
      · unfold operationV
        rw [if_pos (by simp [isShorthand])]
        rw [check_node]
        refine ⟨f, tl, e, ?_, ?_⟩
        · rw [checkAll_cons]
          refine ⟨Lex.sofTok, _, (check_optTok ..).2 (.inr ⟨rfl, rfl, ?_⟩), ?_⟩
          · intro t tl' e'
            -- the first token of a selection set is `{`
            have hcl : cls f = (.curlyL, []) := by
              rename_i hall
              rw [checkAll_cons] at hall
              obtain ⟨_, _, hcl, _⟩ := hall
              rw [check_tok] at hcl
              obtain ⟨t', e'', hcl, _⟩ := hcl
              rw [e] at e''
              simp only [List.cons.injEq] at e''
              rw [e''.1]; exact hcl
            rw [e] at e'
            simp only [List.cons.injEq] at e'
            rw [← e'.1, hcl]; decide
          · rw [checkAll_cons]
            exact ⟨_, _, hss, by rw [checkAll_nil]⟩
        · rw [← hl0, hloc0]
      · rw [checkAll_cons]
        exact ⟨_, _, (check_tok ..).2 ⟨_, rfl, hte, rfl⟩, by rw [checkAll_nil]⟩

/-! ### directives and arguments: inside the field `a` -/

private def nmA (x y : Nat) : Name := ⟨[97], some (x, y)⟩
private def tokA : Tok := ⟨.name, 2, 3, [97]⟩

private theorem nameV_a (fl : Flags) (hnl : fl.noLocation = false) (l : Tok) (rest : List Tok) :
    (nameV (nmA 2 3)).check fl l (tokA :: rest) = some (tokA, rest) := by
  simp only [nameV, nmA]
  rw [check_node]
  refine ⟨_, _, rfl, ?_, by rw [locOf_eq fl hnl]; rfl⟩
  rw [checkAll_cons]
  exact ⟨_, _, (check_tok ..).2 ⟨_, rfl, rfl, rfl⟩, by rw [checkAll_nil]⟩

/-- DIRECTIVES (of fields, fragment spreads, inline fragments, operations, fragments, variable definitions and of every
    type-system position): the spanned text `@name(args)` put behind a field name, `{ a σ⏎}`, is accepted by `parse`
    under the same flags, and the result is the shorthand query `{ a @… }` whose field carries exactly that directive,
    moved to offset 4. (`c` = the `Const`-ness of the position the directive came from; any directive is admissible
    on a field.) -/
theorem span_reparse_directive (fl : Flags) (s : Text) (d : Document) (h : parseText fl s = some d) :
    ∀ x ∈ d.definitions, ∀ dir : Directive, Item.Sub (directiveV dir) (definitionV x) → ∀ c, wfDirective c dir = true →
      ∀ a b, dir.loc = some (a, b) →
      a ≤ b ∧ b ≤ s.length ∧
      parseText fl ([123, 32, 97, 32] ++ slice s a b ++ [10, 125]) =
        some (shorthandDoc [.field none (nmA 2 3) [] [(dir.mapLoc (locDown a)).mapLoc (locUp 4)] none (some (2, b - a + 4))]
          (b - a + 6)) := by
  intro x hx dir hs c hwf a b hloc
  have hnode : directiveV dir = .node (some (a, b)) (p .atSign :: nameV dir.name :: argumentsV dir.arguments) := by
    rw [← hloc]; rfl
  obtain ⟨h1, h2, hnl, hlen, seg, htl, hc⟩ := doc_tiles fl s d h x hx _ hs a b _ hnode
  refine ⟨h1, h2, ?_⟩
  rw [← directiveV_down] at hc
  have hnode0 : directiveV (dir.mapLoc (locDown a)) = .node (some (a - a, b - a))
      (p .atSign :: nameV (dir.mapLoc (locDown a)).name :: argumentsV (dir.mapLoc (locDown a)).arguments) := by
    simp only [directiveV, Directive.mapLoc, hloc, locDown]
  rw [hnode0] at hc
  obtain ⟨f, tl, l1, hseg, hl0, hck⟩ := ctx_check fl _ _ seg (b - a)
    (by rw [← hnode0]; exact directiveV_solid _) (by rw [← hnode0]; exact directiveV_plain _) hc
  have hstop : l1.stop = b - a := by
    rw [locOf_eq fl hnl] at hl0
    simp only [Option.some.injEq, Prod.mk.injEq] at hl0
    exact hl0.2.symm
  apply (parse_text_result fl _ _).2
  refine ⟨_, tiles_field hlen htl, ?_, ?_⟩
  · simp [shorthandDoc, wfDocument, wfDefinition, wfOperation, wfDirectives, wfSelectionSet, wfSelections, wfSelection,
      wfOptSelectionSet, wfDirective_mapLoc, wfDirective_weaken c dir hwf, isTypeSystem,
      Generated.ParserTables.operationTypeTuple, K.query]
  · have hm := matches_shorthand fl hnl
      [.field none (nmA 2 3) [] [(dir.mapLoc (locDown a)).mapLoc (locUp 4)] none (some (2, b - a + 4))]
      (tokA :: seg.map (Tok.up 4)) (b - a + 6) (b - a + 5) (l1.up 4) ?_
    · simpa [tokA] using hm
    intro l rest2
    simp only [selectionsV]
    rw [checkAll_cons]
    refine ⟨_, _, ?_, by rw [checkAll_nil]⟩
    have hv : selectionV (.field none (nmA 2 3) [] [(dir.mapLoc (locDown a)).mapLoc (locUp 4)] none (some (2, b - a + 4))) =
        .node (some (2, b - a + 4)) [nameV (nmA 2 3), directiveV ((dir.mapLoc (locDown a)).mapLoc (locUp 4))] := by
      simp [selectionV, argumentsV, groupV, directivesV, optSelectionSetV]
    rw [hv, check_node]
    refine ⟨tokA, _, rfl, ?_, by rw [locOf_eq fl hnl]; simp [tokA, Tok.up, hstop]⟩
    rw [List.cons_append, checkAll_cons]
    refine ⟨_, _, nameV_a fl hnl l _, ?_⟩
    rw [checkAll_cons]
    refine ⟨_, _, ?_, by rw [checkAll_nil]⟩
    have := hck 4 tokA rest2
    rw [← hnode0, ← directiveV_up] at this
    exact this

/-- ARGUMENTS (of fields and of directives, at any depth): the spanned text `name: value` put inside the parentheses of a
    field, `{ a(σ⏎)}`, is accepted by `parse` under the same flags, and the result is the shorthand query `{ a(…) }` whose
    field carries exactly that argument, moved to offset 4. -/
theorem span_reparse_argument (fl : Flags) (s : Text) (d : Document) (h : parseText fl s = some d) :
    ∀ x ∈ d.definitions, ∀ arg : Argument, Item.Sub (argumentV arg) (definitionV x) → ∀ c, wfArgument c arg = true →
      ∀ a b, arg.loc = some (a, b) →
      a ≤ b ∧ b ≤ s.length ∧
      parseText fl ([123, 32, 97, 40] ++ slice s a b ++ [10, 41, 125]) =
        some (shorthandDoc [.field none (nmA 2 3) [(arg.mapLoc (locDown a)).mapLoc (locUp 4)] [] none (some (2, b - a + 6))]
          (b - a + 7)) := by
  intro x hx arg hs c hwf a b hloc
  have hnode : argumentV arg = .node (some (a, b)) [nameV arg.name, p .colon, valueV arg.value] := by
    rw [← hloc]; rfl
  obtain ⟨h1, h2, hnl, hlen, seg, htl, hc⟩ := doc_tiles fl s d h x hx _ hs a b _ hnode
  refine ⟨h1, h2, ?_⟩
  rw [← argumentV_down] at hc
  have hnode0 : argumentV (arg.mapLoc (locDown a)) = .node (some (a - a, b - a))
      [nameV (arg.mapLoc (locDown a)).name, p .colon, valueV (arg.mapLoc (locDown a)).value] := by
    simp only [argumentV, Argument.mapLoc, hloc, locDown]
  rw [hnode0] at hc
  obtain ⟨f, tl, l1, hseg, hl0, hck⟩ := ctx_check fl _ _ seg (b - a)
    (by rw [← hnode0]; exact argumentV_solid _) (by rw [← hnode0]; exact argumentV_plain _) hc
  apply (parse_text_result fl _ _).2
  refine ⟨_, tiles_args hlen htl, ?_, ?_⟩
  · simp [shorthandDoc, wfDocument, wfDefinition, wfOperation, wfDirectives, wfSelectionSet, wfSelections, wfSelection,
      wfOptSelectionSet, wfArgument_mapLoc, wfArgument_weaken c arg hwf, isTypeSystem,
      Generated.ParserTables.operationTypeTuple, K.query]
  · have hm := matches_shorthand fl hnl
      [.field none (nmA 2 3) [(arg.mapLoc (locDown a)).mapLoc (locUp 4)] [] none (some (2, b - a + 6))]
      (tokA :: ⟨.parenL, 3, 4, [40]⟩ :: (seg.map (Tok.up 4) ++ [⟨.parenR, b - a + 5, b - a + 6, [41]⟩]))
      (b - a + 7) (b - a + 6) ⟨.parenR, b - a + 5, b - a + 6, [41]⟩ ?_
    · simpa [tokA] using hm
    intro l rest2
    simp only [selectionsV]
    rw [checkAll_cons]
    refine ⟨_, _, ?_, by rw [checkAll_nil]⟩
    have hv : selectionV (.field none (nmA 2 3) [(arg.mapLoc (locDown a)).mapLoc (locUp 4)] [] none (some (2, b - a + 6))) =
        .node (some (2, b - a + 6)) [nameV (nmA 2 3), p .parenL, argumentV ((arg.mapLoc (locDown a)).mapLoc (locUp 4)),
          p .parenR] := by
      simp [selectionV, argumentsV, groupV, directivesV, optSelectionSetV]
    rw [hv, check_node]
    refine ⟨tokA, _, rfl, ?_, by rw [locOf_eq fl hnl]; rfl⟩
    rw [List.cons_append, checkAll_cons]
    refine ⟨_, _, nameV_a fl hnl l _, ?_⟩
    rw [List.cons_append, checkAll_cons]
    refine ⟨_, _, (check_tok ..).2 ⟨_, rfl, rfl, rfl⟩, ?_⟩
    rw [checkAll_cons]
    refine ⟨l1.up 4, [⟨.parenR, b - a + 5, b - a + 6, [41]⟩] ++ rest2, ?_, ?_⟩
    · have := hck 4 ⟨.parenL, 3, 4, [40]⟩ ([⟨.parenR, b - a + 5, b - a + 6, [41]⟩] ++ rest2)
      rw [← hnode0, ← argumentV_up] at this
      rw [List.append_assoc]
      exact this
    · rw [checkAll_cons]
      exact ⟨_, rest2, (check_tok ..).2 ⟨_, rfl, rfl, rfl⟩, by rw [checkAll_nil]⟩

/-! ### variable definitions: inside `query( … ){a}` -/

/-- the document `query(vd){a}` with the field `a` at `(k + 9, k + 10)` -/
def queryDoc (vd : VariableDefinition) (k : Nat) : Document :=
  ⟨[.operation ⟨K.query, none, [vd], [],
      .mk [.field none ⟨[97], some (k + 9, k + 10)⟩ [] [] none (some (k + 9, k + 10))] (some (k + 8, k + 11)),
      some (0, k + 11)⟩], some (0, k + 11)⟩

/-- VARIABLE DEFINITIONS (of operations and, with `experimental_fragment_variables`, of fragments): the spanned text
    `$v: T = default @dirs` put inside `query(σ⏎){a}` is accepted by `parse` under the same flags, and the result is the query
    whose only variable definition is the node, moved to offset 6. -/
theorem span_reparse_variable_definition (fl : Flags) (s : Text) (d : Document) (h : parseText fl s = some d) :
    ∀ x ∈ d.definitions, ∀ vd : VariableDefinition, Item.Sub (variableDefinitionV vd) (definitionV x) →
      wfVariableDefinition vd = true → ∀ a b, vd.loc = some (a, b) →
      a ≤ b ∧ b ≤ s.length ∧
      parseText fl ([113, 117, 101, 114, 121, 40] ++ slice s a b ++ [10, 41, 123, 97, 125]) =
        some (queryDoc ((vd.mapLoc (locDown a)).mapLoc (locUp 6)) (b - a)) := by
  intro x hx vd hs hwf a b hloc
  have hnode : variableDefinitionV vd = .node (some (a, b))
      (variableV vd.var :: p .colon :: typeV vd.type :: (defaultV vd.defaultValue ++ directivesV vd.directives)) := by
    rw [← hloc]; rfl
  obtain ⟨h1, h2, hnl, hlen, seg, htl, hc⟩ := doc_tiles fl s d h x hx _ hs a b _ hnode
  refine ⟨h1, h2, ?_⟩
  rw [← variableDefinitionV_down] at hc
  have hnode0 : variableDefinitionV (vd.mapLoc (locDown a)) = .node (some (a - a, b - a))
      (variableV (vd.mapLoc (locDown a)).var :: p .colon :: typeV (vd.mapLoc (locDown a)).type ::
        (defaultV (vd.mapLoc (locDown a)).defaultValue ++ directivesV (vd.mapLoc (locDown a)).directives)) := by
    simp only [variableDefinitionV, VariableDefinition.mapLoc, hloc, locDown]
  rw [hnode0] at hc
  obtain ⟨f0, tl, l1, hseg, _, hck⟩ := ctx_check fl _ _ seg (b - a)
    (by rw [← hnode0]; exact variableDefinitionV_solid _) (by rw [← hnode0]; exact variableDefinitionV_plain _) hc
  apply (parse_text_result fl _ _).2
  refine ⟨_, tiles_query hlen htl, ?_, (matches_iff _ _ _).2 ⟨eofT (b - a + 11), ?_⟩⟩
  · simp [queryDoc, wfDocument, wfDefinition, wfOperation, wfDirectives, wfSelectionSet, wfSelections, wfSelection,
      wfOptSelectionSet, wfVariableDefinition_mapLoc, hwf, isTypeSystem, Generated.ParserTables.operationTypeTuple, K.query]
  · -- document, operation `query ( vd ) { a }`
    rw [checkAll_cons]
    refine ⟨eofT (b - a + 11), [], ?_, by rw [checkAll_nil]⟩
    simp only [documentV, queryDoc, List.map_cons, List.map_nil, definitionV]
    rw [check_node]
    refine ⟨_, _, rfl, ?_, by rw [locOf_eq fl hnl]; rfl⟩
    rw [checkAll_cons]
    refine ⟨_, _, (check_tok ..).2 ⟨_, rfl, rfl, rfl⟩, ?_⟩
    rw [List.cons_append, List.nil_append, checkAll_cons]
    refine ⟨⟨.curlyR, b - a + 10, b - a + 11, [125]⟩, [eofT (b - a + 11)], ?_, ?_⟩
    · have hv : operationV ⟨K.query, none, [(vd.mapLoc (locDown a)).mapLoc (locUp 6)], [],
          .mk [.field none ⟨[97], some (b - a + 9, b - a + 10)⟩ [] [] none (some (b - a + 9, b - a + 10))]
            (some (b - a + 8, b - a + 11)), some (0, b - a + 11)⟩ =
          .node (some (0, b - a + 11)) [kw K.query, p .parenL,
            variableDefinitionV ((vd.mapLoc (locDown a)).mapLoc (locUp 6)), p .parenR,
            .node (some (b - a + 8, b - a + 11)) [p .curlyL,
              .node (some (b - a + 9, b - a + 10)) [nameV ⟨[97], some (b - a + 9, b - a + 10)⟩], p .curlyR]] := by
        simp [operationV, isShorthand, optV, variableDefinitionsV, groupV, directivesV, selectionSetV, selectionsV, selectionV,
          argumentsV, optSelectionSetV]
      rw [hv, check_node]
      refine ⟨_, _, rfl, ?_, by rw [locOf_eq fl hnl]⟩
      rw [checkAll_cons]
      refine ⟨_, _, (check_tok ..).2 ⟨_, rfl, rfl, rfl⟩, ?_⟩
      rw [checkAll_cons]
      refine ⟨_, _, (check_tok ..).2 ⟨_, rfl, rfl, rfl⟩, ?_⟩
      rw [checkAll_cons]
      refine ⟨l1.up 6, [⟨.parenR, b - a + 7, b - a + 8, [41]⟩, ⟨.curlyL, b - a + 8, b - a + 9, [123]⟩,
        ⟨.name, b - a + 9, b - a + 10, [97]⟩, ⟨.curlyR, b - a + 10, b - a + 11, [125]⟩, eofT (b - a + 11)], ?_, ?_⟩
      · have := hck 6 ⟨.parenL, 5, 6, [40]⟩ [⟨.parenR, b - a + 7, b - a + 8, [41]⟩, ⟨.curlyL, b - a + 8, b - a + 9, [123]⟩,
          ⟨.name, b - a + 9, b - a + 10, [97]⟩, ⟨.curlyR, b - a + 10, b - a + 11, [125]⟩, eofT (b - a + 11)]
        rw [← hnode0, ← variableDefinitionV_up] at this
        exact this
      · rw [checkAll_cons]
        refine ⟨_, _, (check_tok ..).2 ⟨_, rfl, rfl, rfl⟩, ?_⟩
        rw [checkAll_cons]
        refine ⟨⟨.curlyR, b - a + 10, b - a + 11, [125]⟩, [eofT (b - a + 11)], ?_, by rw [checkAll_nil]⟩
        -- the selection set `{ a }`
        rw [check_node]
        refine ⟨_, _, rfl, ?_, by rw [locOf_eq fl hnl]⟩
        rw [checkAll_cons]
        refine ⟨_, _, (check_tok ..).2 ⟨_, rfl, rfl, rfl⟩, ?_⟩
        rw [checkAll_cons]
        refine ⟨⟨.name, b - a + 9, b - a + 10, [97]⟩, [⟨.curlyR, b - a + 10, b - a + 11, [125]⟩, eofT (b - a + 11)], ?_, ?_⟩
        · rw [check_node]
          refine ⟨_, _, rfl, ?_, by rw [locOf_eq fl hnl]⟩
          rw [checkAll_cons]
          refine ⟨⟨.name, b - a + 9, b - a + 10, [97]⟩, [⟨.curlyR, b - a + 10, b - a + 11, [125]⟩, eofT (b - a + 11)], ?_,
            by rw [checkAll_nil]⟩
          simp only [nameV]
          rw [check_node]
          refine ⟨_, _, rfl, ?_, by rw [locOf_eq fl hnl]⟩
          rw [checkAll_cons]
          exact ⟨_, _, (check_tok ..).2 ⟨_, rfl, rfl, rfl⟩, by rw [checkAll_nil]⟩
        · rw [checkAll_cons]
          exact ⟨_, _, (check_tok ..).2 ⟨_, rfl, rfl, rfl⟩, by rw [checkAll_nil]⟩
    · rw [checkAll_cons]
      exact ⟨_, _, (check_tok ..).2 ⟨_, rfl, rfl, rfl⟩, by rw [checkAll_nil]⟩

/-! ### object fields: inside braces, through `parse_value` -/

/-- OBJECT FIELDS (`name: value` inside an input-object literal, at any depth of any value): the spanned text between `{ `
    and `⏎}` is accepted by `parse_value` under the same flags, and the result is the object literal whose only field is the
    node, moved to offset 2. -/
theorem span_reparse_object_field (fl : Flags) (s : Text) (d : Document) (h : parseText fl s = some d) :
    ∀ x ∈ d.definitions, ∀ f : ObjectField, Item.Sub (objectFieldV f) (definitionV x) → ∀ c, wfField c f = true →
      ∀ name value a b, f = .mk name value (some (a, b)) →
      a ≤ b ∧ b ≤ s.length ∧
      parseValueText fl ([123, 32] ++ slice s a b ++ [10, 125]) =
        some (.object [(f.mapLoc (locDown a)).mapLoc (locUp 2)] (some (0, b - a + 4))) := by
  intro x hx f hs c hwf name value a b hf
  subst hf
  have hnode : objectFieldV (.mk name value (some (a, b))) = .node (some (a, b)) [nameV name, p .colon, valueV value] := by
    simp [objectFieldV]
  obtain ⟨h1, h2, hnl, hlen, seg, htl, hc⟩ := doc_tiles fl s d h x hx _ hs a b _ hnode
  refine ⟨h1, h2, ?_⟩
  rw [← objectFieldV_down] at hc
  have hnode0 : objectFieldV ((ObjectField.mk name value (some (a, b))).mapLoc (locDown a)) = .node (some (a - a, b - a))
      [nameV (name.mapLoc (locDown a)), p .colon, valueV (value.mapLoc (locDown a))] := by
    simp [objectFieldV, ObjectField.mapLoc, locDown]
  rw [hnode0] at hc
  obtain ⟨f0, tl, l1, hseg, _, hck⟩ := ctx_check fl _ _ seg (b - a)
    (by rw [← hnode0]; exact objectFieldV_solid _) (by rw [← hnode0]; exact objectFieldV_plain _) hc
  apply (parse_value_text_result fl _ _).2
  refine ⟨_, tiles_braces hlen htl, ?_, (matches_iff _ _ _).2 ⟨eofT (b - a + 4), ?_⟩⟩
  · have := wfValue_of_const c value (by simpa [wfField] using hwf)
    simp [wfValue, wfFields, wfField, ObjectField.mapLoc, wfValue_mapLoc, this]
  · rw [checkAll_cons]
    refine ⟨_, _, (check_tok ..).2 ⟨_, rfl, rfl, rfl⟩, ?_⟩
    rw [checkAll_cons]
    refine ⟨⟨.curlyR, b - a + 3, b - a + 4, [125]⟩, [eofT (b - a + 4)], ?_, ?_⟩
    · simp only [valueV, fieldsV]
      rw [check_node]
      refine ⟨_, _, rfl, ?_, by rw [locOf_eq fl hnl]⟩
      rw [checkAll_cons]
      refine ⟨_, _, (check_tok ..).2 ⟨_, rfl, rfl, rfl⟩, ?_⟩
      rw [List.cons_append, List.nil_append, checkAll_cons]
      refine ⟨l1.up 2, [⟨.curlyR, b - a + 3, b - a + 4, [125]⟩, eofT (b - a + 4)], ?_, ?_⟩
      · have := hck 2 ⟨.curlyL, 0, 1, [123]⟩ [⟨.curlyR, b - a + 3, b - a + 4, [125]⟩, eofT (b - a + 4)]
        rw [← hnode0, ← objectFieldV_up] at this
        exact this
      · rw [checkAll_cons]
        exact ⟨_, _, (check_tok ..).2 ⟨_, rfl, rfl, rfl⟩, by rw [checkAll_nil]⟩
    · rw [checkAll_cons]
      exact ⟨_, _, (check_tok ..).2 ⟨_, rfl, rfl, rfl⟩, by rw [checkAll_nil]⟩

/-! ### descriptions: in front of `scalar A` -/

/-- DESCRIPTIONS (of type definitions, field definitions, argument definitions, enum values, directive definitions; quoted
    or block strings — indeed every string node): under flags that allow the type system, the spanned text followed by
    `⏎scalar A` is accepted by `parse`, and the result is the one-definition document `scalar A` whose description is
    exactly that string node, moved to offset 0. -/
theorem span_reparse_description (fl : Flags) (hts : fl.allowTypeSystem = true) (s : Text) (d : Document)
    (h : parseText fl s = some d) :
    ∀ x ∈ d.definitions, ∀ sv : StringValue, Item.Sub (stringV sv) (definitionV x) → ∀ a b, sv.loc = some (a, b) →
      a ≤ b ∧ b ≤ s.length ∧
      parseText fl (slice s a b ++ 10 :: [115, 99, 97, 108, 97, 114, 32, 65]) =
        some ⟨[.scalarTypeDefinition (some (sv.mapLoc (locDown a))) ⟨[65], some (b - a + 8, b - a + 9)⟩ []
          (some (0, b - a + 9))], some (0, b - a + 9)⟩ := by
  intro x hx sv hs a b hloc
  have hnode : stringV sv = .node (some (a, b)) [.tok (if sv.block then .blockString else .string) sv.value] := by
    rw [← hloc]; rfl
  obtain ⟨h1, h2, hnl, hlen, seg, htl, hc⟩ := doc_tiles fl s d h x hx _ hs a b _ hnode
  refine ⟨h1, h2, ?_⟩
  rw [← stringV_down] at hc
  -- `SOF string EOF`: the segment is the one string token, spanning the whole slice
  rw [checkAll_cons] at hc
  obtain ⟨l0, ts0, h0, hc⟩ := hc
  rw [check_tok] at h0
  obtain ⟨t0, e0, _, rfl⟩ := h0
  simp only [List.cons.injEq] at e0
  obtain ⟨rfl, rfl⟩ := e0
  rw [checkAll_cons] at hc
  obtain ⟨l1, ts1, hsv, hc⟩ := hc
  rw [checkAll_cons] at hc
  obtain ⟨l2, ts2, h2', hc⟩ := hc
  rw [checkAll_nil] at hc
  rw [check_tok] at h2'
  obtain ⟨te, rfl, hte, rfl⟩ := h2'
  simp only [Prod.mk.injEq] at hc
  obtain ⟨rfl, rfl⟩ := hc
  have hsv' := hsv
  simp only [stringV] at hsv'
  rw [check_node] at hsv'
  obtain ⟨f, tl, e, hall, hl0⟩ := hsv'
  rw [checkAll_cons] at hall
  obtain ⟨l3, ts3, h3, hall⟩ := hall
  rw [checkAll_nil] at hall
  rw [check_tok] at h3
  obtain ⟨t, e3, _, rfl⟩ := h3
  simp only [Prod.mk.injEq] at hall
  obtain ⟨rfl, rfl⟩ := hall
  rw [e3] at e
  have hseg : seg = [l1] := by
    have : seg ++ [eofT (b - a)] = [l1] ++ [eofT (b - a)] := by simpa using e3
    exact List.append_cancel_right this
  subst hseg
  have hstart : l1.start = 0 := by
    have : (sv.mapLoc (locDown a)).loc = some (a - a, b - a) := by simp [StringValue.mapLoc, hloc, locDown]
    rw [this, locOf_eq fl hnl] at hl0
    simp only [List.cons.injEq] at e
    rw [← e.1] at hl0
    simp only [Option.some.injEq, Prod.mk.injEq] at hl0
    omega
  apply (parse_text_result fl _ _).2
  refine ⟨_, tiles_scalar hlen htl, ?_, (matches_iff _ _ _).2 ⟨eofT (b - a + 9), ?_⟩⟩
  · simp [wfDocument, wfDefinition, wfDirectives, hts]
  · rw [checkAll_cons]
    refine ⟨eofT (b - a + 9), [], ?_, by rw [checkAll_nil]⟩
    simp only [documentV, List.map_cons, List.map_nil, definitionV, descV, optV, directivesV, List.cons_append,
      List.nil_append]
    rw [check_node]
    refine ⟨_, _, rfl, ?_, by rw [locOf_eq fl hnl]; rfl⟩
    rw [checkAll_cons]
    refine ⟨_, _, (check_tok ..).2 ⟨_, rfl, rfl, rfl⟩, ?_⟩
    rw [checkAll_cons]
    refine ⟨⟨.name, b - a + 8, b - a + 9, [65]⟩, [eofT (b - a + 9)], ?_, ?_⟩
    · rw [check_node]
      refine ⟨l1, _, rfl, ?_, by rw [locOf_eq fl hnl, hstart]⟩
      rw [checkAll_cons]
      obtain ⟨pre, hpre, hfree⟩ := check_free fl _ _ _ _ _ (stringV_solid _) (stringV_plain _) hsv
      have hp1 : pre = [l1] := by
        have : [l1] ++ [eofT (b - a)] = pre ++ [eofT (b - a)] := by simpa using hpre
        exact (List.append_cancel_right this).symm
      subst hp1
      have h5 := check_last_indep fl _ _ _ _ _ (stringV_solid _)
        (hfree [⟨.name, b - a + 1, b - a + 7, [115, 99, 97, 108, 97, 114]⟩, ⟨.name, b - a + 8, b - a + 9, [65]⟩,
          eofT (b - a + 9)]) Lex.sofTok
      rw [if_neg (by simp)] at h5
      refine ⟨_, _, h5, ?_⟩
      rw [checkAll_cons]
      refine ⟨_, _, (check_tok ..).2 ⟨_, rfl, rfl, rfl⟩, ?_⟩
      rw [checkAll_cons]
      refine ⟨_, _, ?_, by rw [checkAll_nil]⟩
      simp only [nameV]
      rw [check_node]
      refine ⟨_, _, rfl, ?_, by rw [locOf_eq fl hnl]⟩
      rw [checkAll_cons]
      exact ⟨_, _, (check_tok ..).2 ⟨_, rfl, rfl, rfl⟩, by rw [checkAll_nil]⟩
    · rw [checkAll_cons]
      exact ⟨_, _, (check_tok ..).2 ⟨_, rfl, rfl, rfl⟩, by rw [checkAll_nil]⟩

/-! ### members of type-system definitions: inside `type A {…}`, `input A {…}`, `enum A {…}`, `schema {…}` -/

/-- `SOF k A { T } EOF` derives the one-definition document whose definition's view is `k A { j }`, when `T` derives `j`
    whatever follows -/
private theorem matches_kwA_block (fl : Flags) (hnl : fl.noLocation = false) (k : Text) (kl : Nat) (x : Definition)
    (j' : Item) (T : List Tok) (n : Nat) (l1 : Tok)
    (hv : definitionV x = .node (some (0, n + kl + 6)) [kw k, nameV ⟨[65], some (kl + 1, kl + 2)⟩, p .curlyL, j', p .curlyR])
    (hck : ∀ l rest2, j'.check fl l (T ++ rest2) = some (l1, rest2)) :
    Matches fl [documentV ⟨[x], some (0, n + kl + 6)⟩]
      (Lex.sofTok :: ⟨.name, 0, kl, k⟩ :: ⟨.name, kl + 1, kl + 2, [65]⟩ :: ⟨.curlyL, kl + 3, kl + 4, [123]⟩ ::
        (T ++ [⟨.curlyR, n + kl + 5, n + kl + 6, [125]⟩, eofT (n + kl + 6)])) := by
  apply (matches_iff _ _ _).2
  refine ⟨eofT (n + kl + 6), ?_⟩
  rw [checkAll_cons]
  refine ⟨eofT (n + kl + 6), [], ?_, by rw [checkAll_nil]⟩
  simp only [documentV, List.map_cons, List.map_nil]
  rw [check_node]
  refine ⟨_, _, rfl, ?_, by rw [locOf_eq fl hnl]; rfl⟩
  rw [checkAll_cons]
  refine ⟨_, _, (check_tok ..).2 ⟨_, rfl, rfl, rfl⟩, ?_⟩
  rw [List.cons_append, List.nil_append, checkAll_cons]
  refine ⟨⟨.curlyR, n + kl + 5, n + kl + 6, [125]⟩, [eofT (n + kl + 6)], ?_, ?_⟩
  · rw [hv, check_node]
    refine ⟨_, _, rfl, ?_, by rw [locOf_eq fl hnl]⟩
    rw [checkAll_cons]
    refine ⟨_, _, (check_tok ..).2 ⟨_, rfl, rfl, rfl⟩, ?_⟩
    rw [checkAll_cons]
    refine ⟨⟨.name, kl + 1, kl + 2, [65]⟩, ⟨.curlyL, kl + 3, kl + 4, [123]⟩ ::
      (T ++ [⟨.curlyR, n + kl + 5, n + kl + 6, [125]⟩, eofT (n + kl + 6)]), ?_, ?_⟩
    · simp only [nameV]
      rw [check_node]
      refine ⟨_, _, rfl, ?_, by rw [locOf_eq fl hnl]⟩
      rw [checkAll_cons]
      exact ⟨_, _, (check_tok ..).2 ⟨_, rfl, rfl, rfl⟩, by rw [checkAll_nil]⟩
    · rw [checkAll_cons]
      refine ⟨_, _, (check_tok ..).2 ⟨_, rfl, rfl, rfl⟩, ?_⟩
      rw [checkAll_cons]
      refine ⟨_, _, hck _ _, ?_⟩
      rw [checkAll_cons]
      exact ⟨_, _, (check_tok ..).2 ⟨_, rfl, rfl, rfl⟩, by rw [checkAll_nil]⟩
  · rw [checkAll_cons]
    exact ⟨_, _, (check_tok ..).2 ⟨_, rfl, rfl, rfl⟩, by rw [checkAll_nil]⟩

private def nmA' (x y : Nat) : Name := ⟨[65], some (x, y)⟩

/-- FIELD DEFINITIONS (of object / interface type definitions and extensions): the spanned text inside `type A {σ⏎}` is
    accepted by `parse` (flags with `allow_type_system`), and the result is the type `A` whose only field definition is the
    node, moved to offset 8. -/
theorem span_reparse_field_definition (fl : Flags) (hts : fl.allowTypeSystem = true) (s : Text) (d : Document)
    (h : parseText fl s = some d) :
    ∀ x ∈ d.definitions, ∀ fd : FieldDefinition, Item.Sub (fieldDefinitionV fd) (definitionV x) →
      wfFieldDefinition fd = true → ∀ a b, fd.loc = some (a, b) →
      a ≤ b ∧ b ≤ s.length ∧
      parseText fl (K.type_ ++ [32, 65, 32, 123] ++ slice s a b ++ [10, 125]) =
        some ⟨[.objectTypeDefinition none (nmA' 5 6) [] [] [(fd.mapLoc (locDown a)).mapLoc (locUp 8)] (some (0, b - a + 4 + 6))],
          some (0, b - a + 4 + 6)⟩ := by
  intro x hx fd hs hwf a b hloc
  have hnode : ∃ is, fieldDefinitionV fd = .node (some (a, b)) is := ⟨_, by rw [← hloc]; rfl⟩
  obtain ⟨is, hnode⟩ := hnode
  obtain ⟨h1, h2, hnl, hlen, seg, htl, hc⟩ := doc_tiles fl s d h x hx _ hs a b is hnode
  refine ⟨h1, h2, ?_⟩
  rw [← fieldDefinitionV_down] at hc
  have hnode0 : ∃ is0, fieldDefinitionV (fd.mapLoc (locDown a)) = .node (fd.mapLoc (locDown a)).loc is0 := ⟨_, rfl⟩
  obtain ⟨is0, hnode0⟩ := hnode0
  rw [hnode0] at hc
  obtain ⟨f0, tl, l1, hseg, _, hck⟩ := ctx_check fl _ is0 seg (b - a)
    (by rw [← hnode0]; exact fieldDefinitionV_solid _) (by rw [← hnode0]; exact fieldDefinitionV_plain _) hc
  apply (parse_text_result fl _ _).2
  refine ⟨_, tiles_kwA_block K.type_ 4 rfl rfl hlen htl, ?_, ?_⟩
  · simp [wfDocument, wfDefinition, wfDirectives, wfFieldDefinition_mapLoc, hwf, hts]
  · refine matches_kwA_block fl hnl K.type_ 4 _ (fieldDefinitionV ((fd.mapLoc (locDown a)).mapLoc (locUp 8))) _ (b - a)
      (l1.up 8) ?_ ?_
    · simp [definitionV, descV, optV, implementsV, directivesV, blockV, nmA']
    · intro l rest2
      have := hck 8 l rest2
      rw [← hnode0, ← fieldDefinitionV_up] at this
      exact this

/-- INPUT VALUE DEFINITIONS (input fields; the same node kind as argument definitions): inside `input A {σ⏎}` -/
theorem span_reparse_input_value_definition (fl : Flags) (hts : fl.allowTypeSystem = true) (s : Text) (d : Document)
    (h : parseText fl s = some d) :
    ∀ x ∈ d.definitions, ∀ iv : InputValueDefinition, Item.Sub (inputValueV iv) (definitionV x) →
      wfInputValue iv = true → ∀ a b, iv.loc = some (a, b) →
      a ≤ b ∧ b ≤ s.length ∧
      parseText fl (K.input ++ [32, 65, 32, 123] ++ slice s a b ++ [10, 125]) =
        some ⟨[.inputObjectTypeDefinition none (nmA' 6 7) [] [(iv.mapLoc (locDown a)).mapLoc (locUp 9)] (some (0, b - a + 5 + 6))],
          some (0, b - a + 5 + 6)⟩ := by
  intro x hx iv hs hwf a b hloc
  have hnode : ∃ is, inputValueV iv = .node (some (a, b)) is := ⟨_, by rw [← hloc]; rfl⟩
  obtain ⟨is, hnode⟩ := hnode
  obtain ⟨h1, h2, hnl, hlen, seg, htl, hc⟩ := doc_tiles fl s d h x hx _ hs a b is hnode
  refine ⟨h1, h2, ?_⟩
  rw [← inputValueV_down] at hc
  have hnode0 : ∃ is0, inputValueV (iv.mapLoc (locDown a)) = .node (iv.mapLoc (locDown a)).loc is0 := ⟨_, rfl⟩
  obtain ⟨is0, hnode0⟩ := hnode0
  rw [hnode0] at hc
  obtain ⟨f0, tl, l1, hseg, _, hck⟩ := ctx_check fl _ is0 seg (b - a)
    (by rw [← hnode0]; exact inputValueV_solid _) (by rw [← hnode0]; exact inputValueV_plain _) hc
  apply (parse_text_result fl _ _).2
  refine ⟨_, tiles_kwA_block K.input 5 rfl rfl hlen htl, ?_, ?_⟩
  · simp [wfDocument, wfDefinition, wfDirectives, wfInputValue_mapLoc, hwf, hts]
  · refine matches_kwA_block fl hnl K.input 5 _ (inputValueV ((iv.mapLoc (locDown a)).mapLoc (locUp 9))) _ (b - a)
      (l1.up 9) ?_ ?_
    · simp [definitionV, descV, optV, directivesV, blockV, nmA']
    · intro l rest2
      have := hck 9 l rest2
      rw [← hnode0, ← inputValueV_up] at this
      exact this

/-- ENUM VALUE DEFINITIONS: inside `enum A {σ⏎}` -/
theorem span_reparse_enum_value_definition (fl : Flags) (hts : fl.allowTypeSystem = true) (s : Text) (d : Document)
    (h : parseText fl s = some d) :
    ∀ x ∈ d.definitions, ∀ ev : EnumValueDefinition, Item.Sub (enumValueDefinitionV ev) (definitionV x) →
      wfEnumValueDefinition ev = true → ∀ a b, ev.loc = some (a, b) →
      a ≤ b ∧ b ≤ s.length ∧
      parseText fl (K.enum_ ++ [32, 65, 32, 123] ++ slice s a b ++ [10, 125]) =
        some ⟨[.enumTypeDefinition none (nmA' 5 6) [] [(ev.mapLoc (locDown a)).mapLoc (locUp 8)] (some (0, b - a + 4 + 6))],
          some (0, b - a + 4 + 6)⟩ := by
  intro x hx ev hs hwf a b hloc
  have hnode : ∃ is, enumValueDefinitionV ev = .node (some (a, b)) is := ⟨_, by rw [← hloc]; rfl⟩
  obtain ⟨is, hnode⟩ := hnode
  obtain ⟨h1, h2, hnl, hlen, seg, htl, hc⟩ := doc_tiles fl s d h x hx _ hs a b is hnode
  refine ⟨h1, h2, ?_⟩
  rw [← enumValueDefinitionV_down] at hc
  have hnode0 : ∃ is0, enumValueDefinitionV (ev.mapLoc (locDown a)) = .node (ev.mapLoc (locDown a)).loc is0 := ⟨_, rfl⟩
  obtain ⟨is0, hnode0⟩ := hnode0
  rw [hnode0] at hc
  obtain ⟨f0, tl, l1, hseg, _, hck⟩ := ctx_check fl _ is0 seg (b - a)
    (by rw [← hnode0]; exact enumValueDefinitionV_solid _) (by rw [← hnode0]; exact enumValueDefinitionV_plain _) hc
  apply (parse_text_result fl _ _).2
  refine ⟨_, tiles_kwA_block K.enum_ 4 rfl rfl hlen htl, ?_, ?_⟩
  · simp [wfDocument, wfDefinition, wfDirectives, wfEnumValueDefinition_mapLoc, hwf, hts]
  · refine matches_kwA_block fl hnl K.enum_ 4 _ (enumValueDefinitionV ((ev.mapLoc (locDown a)).mapLoc (locUp 8))) _ (b - a)
      (l1.up 8) ?_ ?_
    · simp [definitionV, descV, optV, directivesV, blockV, nmA']
    · intro l rest2
      have := hck 8 l rest2
      rw [← hnode0, ← enumValueDefinitionV_up] at this
      exact this

/-- OPERATION TYPE DEFINITIONS (`query: Q` in a schema definition or extension): inside `schema {σ⏎}` -/
theorem span_reparse_operation_type_definition (fl : Flags) (hts : fl.allowTypeSystem = true) (s : Text) (d : Document)
    (h : parseText fl s = some d) :
    ∀ x ∈ d.definitions, ∀ ot : OperationTypeDefinition, Item.Sub (operationTypeV ot) (definitionV x) →
      wfOperationType ot = true → ∀ a b, ot.loc = some (a, b) →
      a ≤ b ∧ b ≤ s.length ∧
      parseText fl ([115, 99, 104, 101, 109, 97, 32, 123] ++ slice s a b ++ [10, 125]) =
        some ⟨[.schemaDefinition [] [(ot.mapLoc (locDown a)).mapLoc (locUp 8)] (some (0, b - a + 10))], some (0, b - a + 10)⟩ := by
  intro x hx ot hs hwf a b hloc
  have hnode : ∃ is, operationTypeV ot = .node (some (a, b)) is := ⟨_, by rw [← hloc]; rfl⟩
  obtain ⟨is, hnode⟩ := hnode
  obtain ⟨h1, h2, hnl, hlen, seg, htl, hc⟩ := doc_tiles fl s d h x hx _ hs a b is hnode
  refine ⟨h1, h2, ?_⟩
  rw [← operationTypeV_down] at hc
  have hnode0 : ∃ is0, operationTypeV (ot.mapLoc (locDown a)) = .node (ot.mapLoc (locDown a)).loc is0 := ⟨_, rfl⟩
  obtain ⟨is0, hnode0⟩ := hnode0
  rw [hnode0] at hc
  obtain ⟨f0, tl, l1, hseg, _, hck⟩ := ctx_check fl _ is0 seg (b - a)
    (by rw [← hnode0]; exact operationTypeV_solid _) (by rw [← hnode0]; exact operationTypeV_plain _) hc
  apply (parse_text_result fl _ _).2
  refine ⟨_, tiles_schema_block hlen htl, ?_, (matches_iff _ _ _).2 ⟨eofT (b - a + 10), ?_⟩⟩
  · simp [wfDocument, wfDefinition, wfDirectives, wfOperationType_mapLoc, hwf, hts]
  · rw [checkAll_cons]
    refine ⟨eofT (b - a + 10), [], ?_, by rw [checkAll_nil]⟩
    simp only [documentV, List.map_cons, List.map_nil, definitionV, directivesV, List.nil_append, List.cons_append]
    rw [check_node]
    refine ⟨_, _, rfl, ?_, by rw [locOf_eq fl hnl]; rfl⟩
    rw [checkAll_cons]
    refine ⟨_, _, (check_tok ..).2 ⟨_, rfl, rfl, rfl⟩, ?_⟩
    rw [checkAll_cons]
    refine ⟨⟨.curlyR, b - a + 9, b - a + 10, [125]⟩, [eofT (b - a + 10)], ?_, ?_⟩
    · rw [check_node]
      refine ⟨_, _, rfl, ?_, by rw [locOf_eq fl hnl]⟩
      rw [checkAll_cons]
      refine ⟨_, _, (check_tok ..).2 ⟨_, rfl, rfl, rfl⟩, ?_⟩
      rw [checkAll_cons]
      refine ⟨_, _, (check_tok ..).2 ⟨_, rfl, rfl, rfl⟩, ?_⟩
      rw [checkAll_cons]
      refine ⟨l1.up 8, [⟨.curlyR, b - a + 9, b - a + 10, [125]⟩, eofT (b - a + 10)], ?_, ?_⟩
      · have := hck 8 ⟨.curlyL, 7, 8, [123]⟩ [⟨.curlyR, b - a + 9, b - a + 10, [125]⟩, eofT (b - a + 10)]
        rw [← hnode0, ← operationTypeV_up] at this
        exact this
      · rw [checkAll_cons]
        exact ⟨_, _, (check_tok ..).2 ⟨_, rfl, rfl, rfl⟩, by rw [checkAll_nil]⟩
    · rw [checkAll_cons]
      exact ⟨_, _, (check_tok ..).2 ⟨_, rfl, rfl, rfl⟩, by rw [checkAll_nil]⟩

/-- NAMES (of fields, aliases, arguments, directives, variables, types, definitions, …): the spanned text between `{ ` and
    `⏎}` is the shorthand query with the single field of that name -/
theorem span_reparse_name (fl : Flags) (s : Text) (d : Document) (h : parseText fl s = some d) :
    ∀ x ∈ d.definitions, ∀ nm : Name, Item.Sub (nameV nm) (definitionV x) → ∀ a b, nm.loc = some (a, b) →
      a ≤ b ∧ b ≤ s.length ∧
      parseText fl ([123, 32] ++ slice s a b ++ [10, 125]) =
        some (shorthandDoc [.field none ((nm.mapLoc (locDown a)).mapLoc (locUp 2)) [] [] none (some (2, b - a + 2))]
          (b - a + 4)) := by
  intro x hx nm hs a b hloc
  have hnode : nameV nm = .node (some (a, b)) [.tok .name nm.value] := by rw [← hloc]; rfl
  obtain ⟨h1, h2, hnl, hlen, seg, htl, hc⟩ := doc_tiles fl s d h x hx _ hs a b _ hnode
  refine ⟨h1, h2, ?_⟩
  rw [← nameV_down] at hc
  have hnode0 : nameV (nm.mapLoc (locDown a)) = .node (some (a - a, b - a)) [.tok .name nm.value] := by
    simp [nameV, Name.mapLoc, hloc, locDown]
  rw [hnode0] at hc
  obtain ⟨f0, tl, l1, hseg, hl0, hck⟩ := ctx_check fl _ _ seg (b - a)
    (by rw [← hnode0]; exact nameV_solid _) (by rw [← hnode0]; exact nameV_plain _) hc
  have hspan : f0.start = 0 ∧ l1.stop = b - a := by
    rw [locOf_eq fl hnl] at hl0
    simp only [Option.some.injEq, Prod.mk.injEq] at hl0
    omega
  apply (parse_text_result fl _ _).2
  refine ⟨_, tiles_braces hlen htl, ?_, ?_⟩
  · simp [shorthandDoc, wfDocument, wfDefinition, wfOperation, wfDirectives, wfSelectionSet, wfSelections, wfSelection,
      wfOptSelectionSet, isTypeSystem, Generated.ParserTables.operationTypeTuple, K.query]
  · refine matches_shorthand fl hnl _ (seg.map (Tok.up 2)) (b - a + 4) (b - a + 3) (l1.up 2) ?_
    intro l rest2
    simp only [selectionsV]
    rw [checkAll_cons]
    refine ⟨_, _, ?_, by rw [checkAll_nil]⟩
    have hv : selectionV (.field none ((nm.mapLoc (locDown a)).mapLoc (locUp 2)) [] [] none (some (2, b - a + 2))) =
        .node (some (2, b - a + 2)) [nameV ((nm.mapLoc (locDown a)).mapLoc (locUp 2))] := by
      simp [selectionV, argumentsV, groupV, directivesV, optSelectionSetV]
    rw [hv, hseg, List.map_cons, List.cons_append, check_node]
    refine ⟨_, _, rfl, ?_, by rw [locOf_eq fl hnl]; simp [Tok.up, hspan]⟩
    rw [checkAll_cons]
    refine ⟨_, _, ?_, by rw [checkAll_nil]⟩
    have := hck 2 l rest2
    rw [← hnode0, ← nameV_up, hseg, List.map_cons, List.cons_append] at this
    exact this

/-! ### non-vacuity: `{a(x:[1]) @d ...F}` -/
private def cdoc : Text := [123, 97, 40, 120, 58, 91, 49, 93, 41, 32, 64, 100, 32, 46, 46, 46, 70, 125]

/-- the field `a(x:[1]) @d` spans (1,12): wrapped in `{ ` … `⏎}` it parses to the shorthand query with that field at (2,13) -/
example : (parseText {} ([123, 32] ++ slice cdoc 1 12 ++ [10, 125])).map
    (fun d => d.definitions.map (fun x => match x with
      | .operation o => (match o.selectionSet with | .mk sels l => (sels.map Selection.loc, l))
      | _ => ([], none))) = some [([some (2, 13)], some (0, 15))] := by decide

/-- the whole selection set (0,18) parses as it stands -/
example : (parseText {} (slice cdoc 0 18)).map (fun d => (d.definitions.map Definition.loc, d.loc)) =
    some ([some (0, 18)], some (0, 18)) := by decide

/-- the directive `@d` spans (10,12): `{ a @d⏎}` parses to `{ a @d }`, the directive at (4,6), the field at (2,6) -/
example : (parseText {} ([123, 32, 97, 32] ++ slice cdoc 10 12 ++ [10, 125])).map
    (fun d => d.definitions.map (fun x => match x with
      | .operation o => (match o.selectionSet with
        | .mk [.field _ _ _ dirs _ l] _ => (dirs.map (·.loc), l)
        | _ => ([], none))
      | _ => ([], none))) = some [([some (4, 6)], some (2, 6))] := by decide

/-- the argument `x:[1]` spans (3,8): `{ a(x:[1]⏎)}` parses to `{ a(x:[1]) }`, the argument at (4,9), the field at (2,11) -/
example : (parseText {} ([123, 32, 97, 40] ++ slice cdoc 3 8 ++ [10, 41, 125])).map
    (fun d => d.definitions.map (fun x => match x with
      | .operation o => (match o.selectionSet with
        | .mk [.field _ _ args _ _ l] _ => (args.map (·.loc), l)
        | _ => ([], none))
      | _ => ([], none))) = some [([some (4, 9)], some (2, 11))] := by decide

/-- `query($v:[I!]=[1] @k){a}`: the variable definition spans (6,20); `query($v:[I!]=[1] @k⏎){a}` parses to the query with that
    variable definition at (6,20), the field `a` at (23,24) -/
private def vdoc : Text := [113, 117, 101, 114, 121, 40, 36, 118, 58, 91, 73, 33, 93, 61, 91, 49, 93, 32, 64, 107, 41, 123, 97, 125]
example : (parseText {} vdoc).map (fun d => d.definitions.map (fun x => match x with
    | .operation o => o.variableDefinitions.map (·.loc) | _ => [])) = some [[some (6, 20)]] := by decide
example : (parseText {} ([113, 117, 101, 114, 121, 40] ++ slice vdoc 6 20 ++ [10, 41, 123, 97, 125])).map
    (fun d => d.definitions.map (fun x => match x with
      | .operation o => (o.variableDefinitions.map (·.loc), o.loc) | _ => ([], none))) =
    some [([some (6, 20)], some (0, 25))] := by decide

/-- `{a(x:{k:[1]})}`: the object field `k:[1]` spans (6,11); `{ k:[1]⏎}` is the object literal with that field at (2,7) -/
private def odoc : Text := [123, 97, 40, 120, 58, 123, 107, 58, 91, 49, 93, 125, 41, 125]
example : (parseText {} odoc).isSome = true := by decide
example : (parseValueText {} ([123, 32] ++ slice odoc 6 11 ++ [10, 125])).map (fun v => match v with
    | .object [.mk _ _ l] l2 => (l, l2)
    | _ => (none, none)) = some (some (2, 7), some (0, 9)) := by decide

/-- `schema{query:Q}`: the operation type definition `query:Q` spans (7,14); `schema {query:Q⏎}` has it at (8,15); the
    name `schema` (0,6) in `{ schema⏎}` is the field of that name at (2,8) -/
private def sdoc : Text := [115, 99, 104, 101, 109, 97, 123, 113, 117, 101, 114, 121, 58, 81, 125]
private def tsFl0 : Flags := { allowTypeSystem := true }
example : (parseText tsFl0 ([115, 99, 104, 101, 109, 97, 32, 123] ++ slice sdoc 7 14 ++ [10, 125])).map
    (fun d => d.definitions.map (fun x => match x with
      | .schemaDefinition _ ops l => (ops.map OperationTypeDefinition.loc, l) | _ => ([], none))) =
    some [([some (8, 15)], some (0, 17))] := by decide
example : (parseText {} ([123, 32] ++ slice sdoc 0 6 ++ [10, 125])).map
    (fun d => d.definitions.map (fun x => match x with
      | .operation o => (match o.selectionSet with | .mk sels _ => sels.map Selection.loc)
      | _ => [])) = some [[some (2, 8)]] := by decide

/-- `type T{"d" f:I}`: the description `"d"` of the field `f` spans (7,10); `"d"⏎scalar A` parses to the scalar `A`
    with that description at (0,3) -/
private def tsdoc : Text := [116, 121, 112, 101, 32, 84, 123, 34, 100, 34, 32, 102, 58, 73, 125]
private def tsFl : Flags := { allowTypeSystem := true }
example : (parseText tsFl tsdoc).isSome = true := by decide
example : (parseText tsFl (slice tsdoc 7 10 ++ 10 :: [115, 99, 97, 108, 97, 114, 32, 65])).map
    (fun d => d.definitions.map (fun x => match x with
      | .scalarTypeDefinition (some sv) n _ l => (sv.loc, sv.value, n.loc, l)
      | _ => (none, [], none, none))) = some [(some (0, 3), [100], some (11, 12), some (0, 12))] := by rfl

end PyGql.Props.C02

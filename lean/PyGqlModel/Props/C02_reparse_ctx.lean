/-
  C02, last clause at CHARACTER level THROUGH THE `parse` ENTRY POINT, for the node kinds that have no entry point of
  their own (selection sets, fields / fragment spreads / inline fragments, arguments, directives, descriptions):
  `span_reparse_node` covers them at grammar level; here the spanned text, wrapped in the MINIMAL CONTEXT that makes it
  a document, is accepted by `parse` under the same flags and the document returned contains the node, moved by the
  offset of the context ("equal modulo offset": `mapLoc (locDown a)` then `mapLoc (locUp k)`, `k` = length of the prefix).

      selection set   σ                      the text itself is the query shorthand
      selection       `{ σ⏎}`                field, fragment spread or inline fragment
      directive       `{ a σ⏎}`              a directive of the field `a`
      argument        `{ a(σ⏎)}`             an argument of the field `a`
      description     `σ⏎scalar A`           the description of the scalar `A` (flags with `allow_type_system`)

  `⏎` is a line feed: the spanned text ends with its last token, and a line feed satisfies every follow restriction of
  the lexical grammar (a space would do as well; ignored characters are insignificant — `lex_ignored_invariant`).
  The side hypotheses `wf… = true` hold for every node of a parsed document (`parse_sound_document`); they are
  hypotheses only because the concrete-syntax view cannot tell e.g. the ill-formed enum value `true` from the boolean
  (as in `span_reparse_doc_value`).
-/
import PyGqlModel.Props.C02_reparse_doc
import PyGqlModel.Lemmas.SpanCtx
namespace PyGql.Props.C02
open PyGql PyGql.Ast PyGql.Parse PyGql.Spec PyGql.Props.C01
open PyGql.Spec.Lexical (Tiles slice eofT)

/-- the common core (as `doc_core`, returning the tiling): a solid node below a definition of an accepted document -/
private theorem doc_tiles (fl : Flags) (s : Text) (d : Document) (h : parseText fl s = some d)
    (x : Definition) (hx : x ∈ d.definitions) (j : Item) (hs : Item.Sub j (definitionV x))
    (a b : Nat) (is : List Item) (hj : j = .node (some (a, b)) is) :
    a ≤ b ∧ b ≤ s.length ∧ fl.noLocation = false ∧ (slice s a b).length = b - a ∧
      ∃ seg, Tiles (b - a) (slice s a b) (seg ++ [eofT (b - a)]) ∧
      Item.checkAll fl [p .sof, j.down a, p .eof] default (Lex.sofTok :: (seg ++ [eofT (b - a)])) = some (eofT (b - a), []) := by
  obtain ⟨toks, hl, _, hm⟩ := (parse_text_result_partial fl s d).1 h
  obtain ⟨l', hm⟩ := (matches_iff _ _ _).1 hm
  obtain ⟨body, rfl, ht⟩ := (lexAll_ok_iff s toks).mp hl
  rw [checkAll_cons] at hm
  obtain ⟨l1, ts1, h1, h2⟩ := hm
  rw [checkAll_nil] at h2
  cases h2
  unfold documentV at h1
  rw [check_node] at h1
  obtain ⟨f, tl, _, hall, _⟩ := h1
  have hsol : j.solid = true := solid_sub hs (definitionV_solid x)
  obtain ⟨h1, h2, hnl, seg, htl, hc⟩ := item_slice fl s body ht (d.definitions.map definitionV) default l' hall
    (i := definitionV x) (j := j) (List.mem_map.2 ⟨x, hx, rfl⟩) hs hsol is a b hj
  exact ⟨h1, h2, hnl, Spec.slice_length h1 h2, seg, htl, hc⟩

/-- the document `{ sels }` (query shorthand): its selection set, its operation and the document span `(0, m)` -/
def shorthandDoc (sels : List Selection) (m : Nat) : Document :=
  ⟨[.operation ⟨K.query, none, [], [], .mk sels (some (0, m)), some (0, m)⟩], some (0, m)⟩

private theorem locOf_eq (fl : Flags) (hnl : fl.noLocation = false) (f l : Tok) : locOf fl f l = some (f.start, l.stop) := by
  simp [locOf, hnl]

/-- `SOF { T } EOF` derives the shorthand document when `T` derives its selections whatever follows -/
private theorem matches_shorthand (fl : Flags) (hnl : fl.noLocation = false) (sels : List Selection) (T : List Tok)
    (m n3 : Nat) (lx : Tok)
    (hx : ∀ l rest2, Item.checkAll fl (selectionsV sels) l (T ++ rest2) = some (lx, rest2)) :
    Matches fl [documentV (shorthandDoc sels m)]
      (Lex.sofTok :: ⟨.curlyL, 0, 1, [123]⟩ :: (T ++ [⟨.curlyR, n3, m, [125]⟩, eofT m])) := by
  apply (matches_iff _ _ _).2
  refine ⟨eofT m, ?_⟩
  have hss : ∀ l, (selectionSetV (.mk sels (some (0, m)))).check fl l
      (⟨.curlyL, 0, 1, [123]⟩ :: (T ++ [⟨.curlyR, n3, m, [125]⟩, eofT m])) = some (⟨.curlyR, n3, m, [125]⟩, [eofT m]) := by
    intro l
    simp only [selectionSetV]
    rw [check_node]
    refine ⟨_, _, rfl, ?_, by rw [locOf_eq fl hnl]⟩
    rw [checkAll_cons]
    refine ⟨_, _, (check_tok ..).2 ⟨_, rfl, rfl, rfl⟩, ?_⟩
    rw [checkAll_append]
    refine ⟨_, _, hx _ _, ?_⟩
    rw [checkAll_cons]
    exact ⟨_, _, (check_tok ..).2 ⟨_, rfl, rfl, rfl⟩, by rw [checkAll_nil]⟩
  have hop : ∀ l, (operationV ⟨K.query, none, [], [], .mk sels (some (0, m)), some (0, m)⟩).check fl l
      (⟨.curlyL, 0, 1, [123]⟩ :: (T ++ [⟨.curlyR, n3, m, [125]⟩, eofT m])) = some (⟨.curlyR, n3, m, [125]⟩, [eofT m]) := by
    intro l
    unfold operationV
    rw [if_pos (by simp [isShorthand])]
    rw [check_node]
    refine ⟨_, _, rfl, ?_, by rw [locOf_eq fl hnl]⟩
    rw [checkAll_cons]
    refine ⟨l, _, (check_optTok ..).2 (.inr ⟨rfl, rfl, ?_⟩), ?_⟩
    · intro t tl e
      simp only [List.cons.injEq] at e
      rw [← e.1]; decide
    · rw [checkAll_cons]
      exact ⟨_, _, hss l, by rw [checkAll_nil]⟩
  rw [checkAll_cons]
  refine ⟨eofT m, [], ?_, by rw [checkAll_nil]⟩
  simp only [documentV, shorthandDoc, List.map_cons, List.map_nil, definitionV]
  rw [check_node]
  refine ⟨_, _, rfl, ?_, by rw [locOf_eq fl hnl]; rfl⟩
  rw [checkAll_cons]
  refine ⟨_, _, (check_tok ..).2 ⟨_, rfl, rfl, rfl⟩, ?_⟩
  rw [List.cons_append, List.nil_append, checkAll_cons]
  refine ⟨_, _, hop _, ?_⟩
  rw [checkAll_cons]
  exact ⟨_, _, (check_tok ..).2 ⟨_, rfl, rfl, rfl⟩, by rw [checkAll_nil]⟩

theorem selectionV_node (sel : Selection) : ∃ is, selectionV sel = .node sel.loc is := by
  cases sel <;> exact ⟨_, rfl⟩

theorem selectionSetV_node (ss : SelectionSet) : ∃ is, selectionSetV ss = .node ss.loc is := by
  cases ss; exact ⟨_, rfl⟩

/-- SELECTIONS (fields, fragment spreads, inline fragments), at any depth of any operation or fragment definition:
    the spanned text between `{ ` and `⏎}` is accepted by `parse` under the same flags, and the result is the shorthand
    query whose only selection is the node, moved to offset 2. -/
theorem span_reparse_selection (fl : Flags) (s : Text) (d : Document) (h : parseText fl s = some d) :
    ∀ x ∈ d.definitions, ∀ sel : Selection, Item.Sub (selectionV sel) (definitionV x) → wfSelection sel = true →
      ∀ a b, sel.loc = some (a, b) →
      a ≤ b ∧ b ≤ s.length ∧
      parseText fl ([123, 32] ++ slice s a b ++ [10, 125]) =
        some (shorthandDoc [(sel.mapLoc (locDown a)).mapLoc (locUp 2)] (b - a + 4)) := by
  intro x hx sel hs hwf a b hloc
  obtain ⟨is, hnode⟩ := selectionV_node sel
  rw [hloc] at hnode
  obtain ⟨h1, h2, hnl, hlen, seg, htl, hc⟩ := doc_tiles fl s d h x hx _ hs a b is hnode
  refine ⟨h1, h2, ?_⟩
  rw [← selectionV_down] at hc
  obtain ⟨is0, hnode0⟩ := selectionV_node (sel.mapLoc (locDown a))
  rw [hnode0] at hc
  obtain ⟨f, tl, l1, hseg, _, hck⟩ := ctx_check fl _ is0 seg (b - a)
    (by rw [← hnode0]; exact selectionV_solid _) (by rw [← hnode0]; exact selectionV_plain _) hc
  apply (parse_text_result fl _ _).2
  refine ⟨_, tiles_braces hlen htl, ?_, ?_⟩
  · simp [shorthandDoc, wfDocument, wfDefinition, wfOperation, wfDirectives, wfSelectionSet, wfSelections,
      wfSelection_mapLoc, hwf, isTypeSystem, Generated.ParserTables.operationTypeTuple, K.query]
  · have e : b - a + 4 = b - a + 3 + 1 := by omega
    refine matches_shorthand fl hnl _ (seg.map (Tok.up 2)) (b - a + 4) (b - a + 3) (l1.up 2) ?_
    intro l rest2
    simp only [selectionsV]
    rw [checkAll_cons]
    refine ⟨_, _, ?_, by rw [checkAll_nil]⟩
    have := hck 2 l rest2
    rw [← hnode0, ← selectionV_up] at this
    exact this

/-- SELECTION SETS need no context: the spanned text `{ … }` is the query shorthand. `parse` accepts it under the same
    flags and returns the one-operation document whose selection set is the node, moved to offset 0. -/
theorem span_reparse_selection_set (fl : Flags) (s : Text) (d : Document) (h : parseText fl s = some d) :
    ∀ x ∈ d.definitions, ∀ ss : SelectionSet, Item.Sub (selectionSetV ss) (definitionV x) → wfSelectionSet ss = true →
      ∀ a b, ss.loc = some (a, b) →
      a ≤ b ∧ b ≤ s.length ∧
      parseText fl (slice s a b) =
        some ⟨[.operation ⟨K.query, none, [], [], ss.mapLoc (locDown a), some (0, b - a)⟩], some (0, b - a)⟩ := by
  intro x hx ss hs hwf a b hloc
  obtain ⟨is, hnode⟩ := selectionSetV_node ss
  rw [hloc] at hnode
  obtain ⟨h1, h2, hnl, hlen, seg, htl, hc⟩ := doc_tiles fl s d h x hx _ hs a b is hnode
  refine ⟨h1, h2, ?_⟩
  rw [← selectionSetV_down] at hc
  apply (parse_text_result fl _ _).2
  rw [hlen]
  refine ⟨_, htl, ?_, (matches_iff _ _ _).2 ⟨eofT (b - a), ?_⟩⟩
  · simp [wfDocument, wfDefinition, wfOperation, wfDirectives, wfSelectionSet_mapLoc, hwf, isTypeSystem,
      Generated.ParserTables.operationTypeTuple, K.query]
  · -- peel `SOF ss EOF`, then put the operation and the document nodes around `ss`
    rw [checkAll_cons] at hc
    obtain ⟨l0, ts0, h0, hc⟩ := hc
    rw [check_tok] at h0
    obtain ⟨t0, e0, _, rfl⟩ := h0
    simp only [List.cons.injEq] at e0
    obtain ⟨rfl, rfl⟩ := e0
    rw [checkAll_cons] at hc
    obtain ⟨l1, ts1, hss, hc⟩ := hc
    rw [checkAll_cons] at hc
    obtain ⟨l2, ts2, h2', hc⟩ := hc
    rw [checkAll_nil] at hc
    rw [check_tok] at h2'
    obtain ⟨te, rfl, hte, rfl⟩ := h2'
    simp only [Prod.mk.injEq] at hc
    obtain ⟨rfl, rfl⟩ := hc
    -- the selection set's own span is the whole slice
    have hss' := hss
    cases hm : ss.mapLoc (locDown a) with
    | mk sels loc0 =>
      rw [hm] at hss hss'
      simp only [selectionSetV] at hss'
      rw [check_node] at hss'
      obtain ⟨f, tl, e, _, hl0⟩ := hss'
      have hloc0 : loc0 = some (0, b - a) := by
        have : (ss.mapLoc (locDown a)).loc = some (a - a, b - a) := by
          cases ss with | mk sl lc => simp only [SelectionSet.loc] at hloc; subst hloc; rfl
        rw [hm] at this
        simpa [SelectionSet.loc] using this
      rw [checkAll_cons]
      refine ⟨eofT (b - a), [], ?_, by rw [checkAll_nil]⟩
      simp only [documentV, List.map_cons, List.map_nil, definitionV]
      rw [check_node]
      refine ⟨_, _, rfl, ?_, by rw [locOf_eq fl hnl]; rfl⟩
      rw [checkAll_cons]
      refine ⟨_, _, (check_tok ..).2 ⟨_, rfl, rfl, rfl⟩, ?_⟩
      rw [List.cons_append, List.nil_append, checkAll_cons]
      refine ⟨l1, [eofT (b - a)], ?_, ?_⟩
      · unfold operationV
        rw [if_pos (by simp [isShorthand])]
        rw [check_node]
        refine ⟨f, tl, e, ?_, ?_⟩
        · rw [checkAll_cons]
          refine ⟨Lex.sofTok, _, (check_optTok ..).2 (.inr ⟨rfl, rfl, ?_⟩), ?_⟩
          · intro t tl' e'
            -- the first token of a selection set is `{`
            have hcl : cls f = (.curlyL, []) := by
              rename_i hall
              rw [checkAll_cons] at hall
              obtain ⟨_, _, hcl, _⟩ := hall
              rw [check_tok] at hcl
              obtain ⟨t', e'', hcl, _⟩ := hcl
              rw [e] at e''
              simp only [List.cons.injEq] at e''
              rw [e''.1]; exact hcl
            rw [e] at e'
            simp only [List.cons.injEq] at e'
            rw [← e'.1, hcl]; decide
          · rw [checkAll_cons]
            exact ⟨_, _, hss, by rw [checkAll_nil]⟩
        · rw [← hl0, hloc0]
      · rw [checkAll_cons]
        exact ⟨_, _, (check_tok ..).2 ⟨_, rfl, hte, rfl⟩, by rw [checkAll_nil]⟩

/-! ### non-vacuity: `{a(x:[1]) @d ...F}` -/
private def cdoc : Text := [123, 97, 40, 120, 58, 91, 49, 93, 41, 32, 64, 100, 32, 46, 46, 46, 70, 125]

/-- the field `a(x:[1]) @d` spans (1,12): wrapped in `{ ` … `⏎}` it parses to the shorthand query with that field at (2,13) -/
example : (parseText {} ([123, 32] ++ slice cdoc 1 12 ++ [10, 125])).map
    (fun d => d.definitions.map (fun x => match x with
      | .operation o => (match o.selectionSet with | .mk sels l => (sels.map Selection.loc, l))
      | _ => ([], none))) = some [([some (2, 13)], some (0, 15))] := by decide

/-- the whole selection set (0,18) parses as it stands -/
example : (parseText {} (slice cdoc 0 18)).map (fun d => (d.definitions.map Definition.loc, d.loc)) =
    some ([some (0, 18)], some (0, 18)) := by decide

end PyGql.Props.C02

/-
  C12 ↔ C13 — what "for every VALID schema" means for the round trip: audit 3, finding F10.

  `printTextWF` / `printBuildWF` were tied to validity only through a list of findings.  Here the two predicates are split
  into (i) the clauses that C13's `ValidSchema` DISCHARGES and (ii) a decidable RESIDUAL `printResidual o s`, every conjunct
  of which is a named exclusion or a representation invariant of the by-name description:

      `ValidSchema full → Covers s full → printResidual o s = true → printTextWF o s = true ∧ printBuildWF s = true`
                                                                                      (`valid_implies_printWF`)

  `full` is the C13 view of the schema (specified scalars / introspection types / specified directives INCLUDED, flagged
  `builtin`), `s` the C12 view (they are left out: the printer does not write them) — `Covers s full`.
  DISCHARGED BY VALIDITY: every name is a `Name` lexeme (types, fields, arguments, input fields, enum values, directives,
  referenced type names, interfaces, union members, roots); object / interface / enum / input / union types have at least
  one member; every referenced type resolves in the builder's environment; the roots are object types of the schema; the
  printed text is not empty and a printed `schema` block names a root.
  RESIDUAL (`printResidual`, all decidable):
    * options: `descriptions = true` (see F8: no theorem for `include_descriptions=False`), indent of spaces / tabs;
    * NoH5 / NoH12 — `descOK` ∧ `descOKT`: descriptions not empty, survive `print_description` (no trailing newline /
      backslash / control character, lines ≤ 120 − indent);
    * NoH6 — `deprOK`: no empty deprecation reason;
    * NoH2 / NoH8 / printable defaults — `wtB` (canonical default: no omitted defaulted field, canonical floats) and the
      printed default consists of lexemes (`litOK`); validity's `DefaultOK` is shallow ("as far as the rule checks") and
      does NOT imply either (no theorem; `h2_valid_but_excluded` below is a witness);
    * enum values SDL-style (internal value = name), not `true/false/null` (`enumValOK`, `notBoolNull`), value names unique
      (C13's `EnumOK` does not ask it: audit F11);
    * representation: `pythonName = name`, no resolvers, member lists of the kind only (`shapeOK`), no `!!` in a type
      expression (`tyShapeOK`), no builtin type / specified directive in `s`, type and directive names unique, directive
      locations from the table (not a C13 rule), roots not named like a specified type;
    * no eager / thunk reference cycle (`hasEagerCycle`, `hasThunkCycle`: C11's S1).
  `printResidual_necessary`: the residual is NECESSARY — it follows from `printTextWF ∧ printBuildWF` — so nothing but
  these exclusions separates a valid schema from the domain of `text_roundtrip_final` / `print_fixpoint_text`.
-/
import PyGqlModel.Spec.SchemaValidSpec
import PyGqlModel.Props.C12_fixpoint
import PyGqlModel.Props.C13
namespace PyGql.Props.C12
open PyGql PyGql.Sdl PyGql.SdlPrint PyGql.SdlText PyGql.SchemaValid PyGql.SchemaValidSpec PyGql.Generated.SchemaValidTables

theorem nameOK_of_valid (n : String) (h : isValidName n = true) : nameOK n = true := by
  unfold isValidName matchName at h
  unfold nameOK Spec.Lexical.isName
  have e : T n = n.toList.map Char.toNat := rfl
  rw [e]
  cases hcs : n.toList.map Char.toNat with
  | nil => simp [hcs] at h
  | cons c rest =>
    simp only [hcs, Bool.and_eq_true] at h
    have hq : nameDollarQuirk = false := by decide
    simp only [hq, Bool.false_and, Bool.false_eq_true, if_false] at h
    obtain ⟨_, hs, hr⟩ := h
    simp only [Bool.and_eq_true]
    refine ⟨?_, ?_⟩
    · simp [nameStart, Spec.Lexical.isNameStart, Spec.Lexical.isLetter] at hs ⊢
      omega
    · rw [List.all_eq_true] at hr ⊢
      intro x hx
      have := hr x hx
      simp [nameCont, Spec.Lexical.isNameCont, Spec.Lexical.isNameStart, Spec.Lexical.isLetter, Spec.Lexical.isDigit] at this ⊢
      omega

theorem nameOK_of_default (n : String) (h : isDefaultName n = true) : nameOK n = true := by
  simp only [isDefaultName, builtinScalars, introspectionTypes, Bool.or_eq_true, List.contains_eq_mem, List.mem_cons, List.mem_nil_iff, or_false, decide_eq_true_eq] at h
  rcases h with (h | h | h | h | h) | (h | h | h | h | h | h | h | h) <;> subst h <;> decide
/-! ### the two views of a schema -/

/-- `full` is `s` plus specified types / directives (C13 validates `full`, C12 prints `s`) -/
structure Covers (s full : SchemaD) : Prop where
  types_sub : ∀ t ∈ s.types, t ∈ full.types
  types_rest : ∀ t ∈ full.types, t ∈ s.types ∨ isDefaultName t.name = true
  dirs_sub : ∀ d ∈ s.directives, d ∈ full.directives
  query : full.query = s.query
  mutation : full.mutation = s.mutation
  subscription : full.subscription = s.subscription

/-! ### the residual -/

/-- no `!!` in a type expression (a representation invariant: `NonNullType(NonNullType(..))` cannot be constructed) -/
def tyShapeOK : Ty → Bool
  | .named _ => true
  | .list t => tyShapeOK t
  | .nonNull t => tyShapeOK t && !t.isNonNull

theorem tyOK_eq : ∀ t : Ty, tyOK t = (nameOK t.base && tyShapeOK t)
  | .named n => by simp [tyOK, tyShapeOK, Ty.base]
  | .list t => by simp [tyOK, tyShapeOK, Ty.base, tyOK_eq t]
  | .nonNull t => by simp [tyOK, tyShapeOK, Ty.base, tyOK_eq t, Bool.and_assoc]

def argRes (s : SchemaD) (w : Nat) (a : ArgD) : Bool :=
  a.pythonName == a.name && descOK a.desc && descOKT w a.desc && tyShapeOK a.type &&
  (if a.hasDefault then wtB s valueFuel a.default a.type &&
      (match valueLit s valueFuel a.default a.type with | some l => litOK l | none => false)
   else isNullJ a.default)

def fieldRes (s : SchemaD) (w : Nat) (f : FieldD) : Bool :=
  f.args.all (argRes s (2 * w)) && f.resolver.isNone && f.subscriptionResolver.isNone && deprOK f.deprecated &&
  descOK f.desc && descOKT w f.desc && tyShapeOK f.type

def enumValRes (w : Nat) (v : EnumValD) : Bool := enumValOK v && Spec.notBoolNull (T v.name) && descOKT w v.desc

def typeRes (s : SchemaD) (w : Nat) (t : TypeD) : Bool :=
  shapeOK t && t.fields.all (fieldRes s w) && t.inputFields.all (argRes s w) && t.values.all (enumValRes w) &&
  !hasDup (t.values.map (·.name)) && t.defaultResolver.isNone && !t.builtin && descOK t.desc && descOKT 0 t.desc &&
  !isDefaultName t.name

def directiveRes (s : SchemaD) (w : Nat) (d : DirectiveD) : Bool :=
  d.args.all (argRes s w) && descOK d.desc && descOKT 0 d.desc && !Sdl.specifiedDirectives.contains d.name &&
  !d.locations.isEmpty && d.locations.all (fun l => nameOK l && Generated.ParserTables.directiveLocations.contains (T l))

def rootNotDefault (r : Option String) : Bool := match r with | some n => !isDefaultName n | none => true

/-- **printResidual** — what validity does not give (every conjunct a named exclusion / representation invariant) -/
def printResidual (o : SdlPrintT.OptsT) (s : SchemaD) : Bool :=
  o.descriptions && o.indent.all (fun c => c == 32 || c == 9) &&
  s.types.all (typeRes s o.indent.length) && s.directives.all (directiveRes s o.indent.length) &&
  !hasDup (s.types.map (·.name)) && !hasDup (s.directives.map (·.name)) &&
  !hasThunkCycle (docEnv s) (s.types.map (typeToDef s)) && !hasEagerCycle s.types && s.defaultResolver.isNone &&
  rootNotDefault s.query && rootNotDefault s.mutation && rootNotDefault s.subscription

/-! ### what validity discharges -/

section
variable {s full : SchemaD} (hc : Covers s full) (hn : ∀ t ∈ s.types, isValidName t.name = true)
include hc hn

/-- a name that `full` knows resolves in the builder's environment of `s` and is a `Name` lexeme -/
theorem known_resolves (n : String) (k : Kind) (h : kindOf full n = some k) : (docEnv s).resolves n = true ∧ nameOK n = true := by
  simp only [kindOf, Option.map_eq_some_iff] at h
  obtain ⟨t, ht, _⟩ := h
  have hmem := List.mem_of_find?_eq_some ht
  have hname : t.name = n := by have := List.find?_some ht; simpa using this
  rcases hc.types_rest t hmem with hin | hdef
  · have hf : (s.findType n).isSome = true := by
      simp only [SchemaD.findType, List.find?_isSome]; exact ⟨t, hin, by simp [hname]⟩
    exact ⟨by simp only [Env.resolves, docEnv_findDef, Option.isSome_map, hf, Bool.or_true], hname ▸ nameOK_of_valid _ (hn t hin)⟩
  · rw [hname] at hdef
    exact ⟨by simp only [Env.resolves, hdef, Bool.true_or], nameOK_of_default n hdef⟩

theorem input_resolves (ty : Ty) (h : isInputType full ty = true) : (docEnv s).resolves ty.base = true ∧ nameOK ty.base = true := by
  unfold isInputType at h
  cases hk : kindOf full ty.base with
  | none => simp [hk] at h
  | some k => exact known_resolves hc hn _ k hk

theorem output_resolves (ty : Ty) (h : isOutputType full ty = true) : (docEnv s).resolves ty.base = true ∧ nameOK ty.base = true := by
  unfold isOutputType at h
  cases hk : kindOf full ty.base with
  | none => simp [hk] at h
  | some k => exact known_resolves hc hn _ k hk

theorem arg_discharged (w : Nat) (a : ArgD) (hname : isValidName a.name = true) (hty : isInputType full a.type = true)
    (hr : argRes s w a = true) : argOKT s w a = true ∧ argOK s a = true := by
  obtain ⟨h1, h2⟩ := input_resolves hc hn a.type hty
  have h3 := nameOK_of_valid _ hname
  simp only [argRes, Bool.and_eq_true] at hr
  obtain ⟨⟨⟨⟨hp, hd1⟩, hd2⟩, hsh⟩, hdef⟩ := hr
  by_cases hd : a.hasDefault = true
  · simp only [hd, if_true, Bool.and_eq_true] at hdef
    obtain ⟨hw, hl⟩ := hdef
    cases hv : valueLit s valueFuel a.default a.type with
    | none => simp [hv] at hl
    | some l =>
      simp only [hv] at hl
      simp [argOKT, argOK, tyOK_eq, h1, h2, h3, hp, hd1, hd2, hsh, hd, hw, hv, hl]
  · simp only [hd, Bool.false_eq_true, if_false] at hdef
    simp [argOKT, argOK, tyOK_eq, h1, h2, h3, hp, hd1, hd2, hsh, hd, hdef]

theorem args_discharged (w : Nat) (args : List ArgD) (hv : ArgsOK full args) (hr : args.all (argRes s w) = true) :
    args.all (argOKT s w) = true ∧ args.all (argOK s) = true := by
  rw [List.all_eq_true] at hr
  simp only [List.all_eq_true]
  exact ⟨fun a ha => (arg_discharged hc hn w a (hv.1 a ha).1 (hv.1 a ha).2.1 (hr a ha)).1,
         fun a ha => (arg_discharged hc hn w a (hv.1 a ha).1 (hv.1 a ha).2.1 (hr a ha)).2⟩

theorem field_discharged (rv : Bool) (w : Nat) (t : TypeD) (f : FieldD)
    (hv : ValidName f.name ∧ isOutputType full f.type = true ∧ ArgsOK full f.args ∧ ResolverOK full rv t f)
    (hr : fieldRes s w f = true) : fieldOKT s w f = true ∧ fieldOK s f = true := by
  obtain ⟨h1, h2⟩ := output_resolves hc hn f.type hv.2.1
  have h3 := nameOK_of_valid _ hv.1
  simp only [fieldRes, Bool.and_eq_true] at hr
  obtain ⟨⟨⟨⟨⟨⟨ha, hres⟩, hsub⟩, hdep⟩, hd1⟩, hd2⟩, hsh⟩ := hr
  obtain ⟨ha1, ha2⟩ := args_discharged hc hn (2 * w) f.args hv.2.2.1 ha
  simp [fieldOKT, fieldOK, tyOK_eq, h1, h2, h3, ha1, ha2, hres, hsub, hdep, hd1, hd2, hsh]

theorem fields_discharged (rv : Bool) (w : Nat) (t : TypeD) (hv : FieldsOK full rv t) (hr : t.fields.all (fieldRes s w) = true) :
    t.fields.isEmpty = false ∧ t.fields.all (fieldOKT s w) = true ∧ t.fields.all (fieldOK s) = true := by
  rw [List.all_eq_true] at hr
  simp only [List.all_eq_true]
  refine ⟨by cases hf : t.fields with | nil => exact absurd hf hv.1 | cons _ _ => rfl,
    fun f hf => (field_discharged hc hn rv w t f (hv.2.1 f hf) (hr f hf)).1,
    fun f hf => (field_discharged hc hn rv w t f (hv.2.1 f hf) (hr f hf)).2⟩

theorem inputs_discharged (w : Nat) (t : TypeD) (hv : InputOK full t) (hr : t.inputFields.all (argRes s w) = true) :
    t.inputFields.isEmpty = false ∧ t.inputFields.all (argOKT s w) = true ∧ t.inputFields.all (argOK s) = true := by
  rw [List.all_eq_true] at hr
  simp only [List.all_eq_true]
  refine ⟨by cases hf : t.inputFields with | nil => exact absurd hf hv.1 | cons _ _ => rfl,
    fun a ha => (arg_discharged hc hn w a (hv.2.1 a ha).1 (hv.2.1 a ha).2.1 (hr a ha)).1,
    fun a ha => (arg_discharged hc hn w a (hv.2.1 a ha).1 (hv.2.1 a ha).2.1 (hr a ha)).2⟩

theorem values_discharged (w : Nat) (t : TypeD) (hv : EnumOK t) (hr : t.values.all (enumValRes w) = true) :
    t.values.isEmpty = false ∧ t.values.all (enumValOKT w) = true ∧ t.values.all enumValOK = true := by
  rw [List.all_eq_true] at hr
  simp only [List.all_eq_true]
  refine ⟨by cases hf : t.values with | nil => exact absurd hf hv.1 | cons _ _ => rfl, fun v hm => ?_, fun v hm => ?_⟩
  · have := hr v hm
    simp only [enumValRes, Bool.and_eq_true] at this
    simp [enumValOKT, nameOK_of_valid _ (hv.2 v hm).1, this.1.2, this.2]
  · have := hr v hm
    simp only [enumValRes, Bool.and_eq_true] at this
    exact this.1.1

theorem type_discharged (rv : Bool) (w : Nat) (t : TypeD) (hv : TypeOK full rv t) (hr : typeRes s w t = true) :
    typeOKT s w t = true ∧ typeOK s t = true := by
  simp only [typeRes, Bool.and_eq_true, Bool.not_eq_true'] at hr
  obtain ⟨⟨⟨⟨⟨⟨⟨⟨⟨hsh, hfr⟩, hir⟩, hvr⟩, hdup⟩, hdr⟩, hb⟩, hd1⟩, hd2⟩, hnd⟩ := hr
  have hname : nameOK t.name = true := by
    rcases hv.1 with h | h
    · rw [hb] at h; exact absurd h (by decide)
    · exact nameOK_of_valid _ h
  have hkind := hv.2
  have hd0 : hasDup ([] : List String) = false := rfl
  cases hk : t.kind <;> simp only [hk] at hkind <;>
    simp only [shapeOK, hk, Bool.and_eq_true, List.isEmpty_iff] at hsh
  · -- scalar
    simp [typeOKT, typeOK, shapeOK, hk, hname, hd1, hd2, hdup, hd0, hdr, hb, hnd, hsh]
  · -- object
    obtain ⟨h1, h2, h3⟩ := fields_discharged hc hn rv w t hkind.1 hfr
    have hi : t.interfaces.all nameOK = true ∧ t.interfaces.all (docEnv s).resolves = true := by
      simp only [List.all_eq_true]
      refine ⟨fun i hi => ?_, fun i hi => ?_⟩ <;>
      · obtain ⟨it, hfi, hki, _⟩ := hkind.2.1 i hi
        have := known_resolves hc hn i .interface (by simp [kindOf, hfi, hki])
        first | exact this.2 | exact this.1
    simp [typeOKT, typeOK, shapeOK, hk, hname, hd1, hd2, hdup, hd0, hdr, hb, hnd, hsh, h1, h2, h3, hi.1, hi.2]
  · -- interface
    obtain ⟨h1, h2, h3⟩ := fields_discharged hc hn rv w t hkind hfr
    simp [typeOKT, typeOK, shapeOK, hk, hname, hd1, hd2, hdup, hd0, hdr, hb, hnd, hsh, h1, h2, h3]
  · -- union
    have hm : t.members.isEmpty = false ∧ t.members.all nameOK = true ∧ t.members.all (docEnv s).resolves = true := by
      simp only [List.all_eq_true]
      refine ⟨by cases hf : t.members with | nil => exact absurd hf hkind.1 | cons _ _ => rfl, fun m hm => ?_, fun m hm => ?_⟩
      · exact (known_resolves hc hn m .object (hkind.2.1 m hm)).2
      · exact (known_resolves hc hn m .object (hkind.2.1 m hm)).1
    simp [typeOKT, typeOK, shapeOK, hk, hname, hd1, hd2, hdup, hd0, hdr, hb, hnd, hsh, hm.1, hm.2.1, hm.2.2]
  · -- enum
    obtain ⟨h1, h2, h3⟩ := values_discharged hc hn w t hkind hvr
    simp [typeOKT, typeOK, shapeOK, hk, hname, hd1, hd2, hdup, hd0, hdr, hb, hnd, hsh, h1, h2, h3]
  · -- input
    obtain ⟨h1, h2, h3⟩ := inputs_discharged hc hn w t hkind hir
    simp [typeOKT, typeOK, shapeOK, hk, hname, hd1, hd2, hdup, hd0, hdr, hb, hnd, hsh, h1, h2, h3]

theorem directive_discharged (w : Nat) (d : DirectiveD) (hv : ValidName d.name ∧ ArgsOK full d.args) (hr : directiveRes s w d = true) :
    directiveOKT s w d = true ∧ directiveOK s d = true := by
  simp only [directiveRes, Bool.and_eq_true] at hr
  obtain ⟨⟨⟨⟨⟨ha, hd1⟩, hd2⟩, hsp⟩, hl1⟩, hl2⟩ := hr
  obtain ⟨ha1, ha2⟩ := args_discharged hc hn w d.args hv.2 ha
  simp only [directiveOKT, directiveOK, Bool.and_eq_true]
  exact ⟨⟨⟨⟨⟨nameOK_of_valid _ hv.1, hd2⟩, ha1⟩, hl1⟩, hl2⟩, ⟨⟨ha2, hd1⟩, hsp⟩⟩

theorem root_discharged (r : Option String) (hv : RootOK full r) (hr : rootNotDefault r = true) :
    rootIsObject s r = true ∧ rootOKT r = true := by
  cases r with
  | none => exact ⟨rfl, rfl⟩
  | some q =>
    have hk := hv q rfl
    have hres := known_resolves hc hn q .object hk
    simp only [kindOf, Option.map_eq_some_iff] at hk
    obtain ⟨t, ht, hkind⟩ := hk
    have hmem := List.mem_of_find?_eq_some ht
    have hname : t.name = q := by have := List.find?_some ht; simpa using this
    simp only [rootNotDefault, Bool.not_eq_true'] at hr
    rcases hc.types_rest t hmem with hin | hdef
    · refine ⟨?_, hres.2⟩
      simp only [rootIsObject, List.any_eq_true]
      exact ⟨t, hin, by simp [hname, hkind]⟩
    · rw [hname, hr] at hdef; exact absurd hdef (by decide)

end

/-- **valid_implies_printWF** — a VALID schema (C13's `ValidSchema`, on the view that includes the specified types) that is
    not one of the named exclusions (`printResidual`) is in the domain of the round-trip theorems -/
theorem valid_implies_printWF (o : SdlPrintT.OptsT) (s full : SchemaD) (rv : Bool) (hc : Covers s full)
    (hv : ValidSchema full rv) (hr : printResidual o s = true) : printTextWF o s = true ∧ printBuildWF s = true := by
  obtain ⟨hroots, htypes, hdirs⟩ := hv
  simp only [printResidual, Bool.and_eq_true, Bool.not_eq_true'] at hr
  obtain ⟨⟨⟨⟨⟨⟨⟨⟨⟨⟨⟨hdesc, hind⟩, htr⟩, hdr⟩, hut⟩, hud⟩, hth⟩, hea⟩, hres⟩, hq⟩, hm⟩, hsub⟩ := hr
  rw [List.all_eq_true] at htr hdr
  have hn : ∀ t ∈ s.types, isValidName t.name = true := by
    intro t ht
    have hb : t.builtin = false := by
      have := htr t ht
      simp only [typeRes, Bool.and_eq_true, Bool.not_eq_true'] at this
      exact this.1.1.1.2
    rcases (htypes t (hc.types_sub t ht)).1 with h | h
    · rw [hb] at h; exact absurd h (by decide)
    · exact h
  have hT : s.types.all (typeOKT s o.indent.length) = true ∧ s.types.all (typeOK s) = true := by
    simp only [List.all_eq_true]
    exact ⟨fun t ht => (type_discharged hc hn rv _ t (htypes t (hc.types_sub t ht)) (htr t ht)).1,
           fun t ht => (type_discharged hc hn rv _ t (htypes t (hc.types_sub t ht)) (htr t ht)).2⟩
  have hD : s.directives.all (directiveOKT s o.indent.length) = true ∧ s.directives.all (directiveOK s) = true := by
    simp only [List.all_eq_true]
    exact ⟨fun d hd => (directive_discharged hc hn _ d (hdirs d (hc.dirs_sub d hd)) (hdr d hd)).1,
           fun d hd => (directive_discharged hc hn _ d (hdirs d (hc.dirs_sub d hd)) (hdr d hd)).2⟩
  obtain ⟨hq1, hq2⟩ := root_discharged hc hn s.query (hc.query ▸ hroots.2.1) hq
  obtain ⟨hm1, hm2⟩ := root_discharged hc hn s.mutation (hc.mutation ▸ hroots.2.2.1) hm
  obtain ⟨hs1, hs2⟩ := root_discharged hc hn s.subscription (hc.subscription ▸ hroots.2.2.2) hsub
  have hqs : ∃ q, s.query = some q := by
    have := hroots.1; rw [hc.query] at this
    cases hq' : s.query with
    | none => exact absurd hq' this
    | some q => exact ⟨q, rfl⟩
  obtain ⟨q, hqe⟩ := hqs
  have hne : s.types.isEmpty = false := by
    rw [hqe] at hq1
    simp only [rootIsObject, List.any_eq_true] at hq1
    obtain ⟨t, ht, _⟩ := hq1
    cases hty : s.types with
    | nil => rw [hty] at ht; exact absurd ht (by simp)
    | cons _ _ => rfl
  have hops : (rootOps s).isEmpty = false := by simp [rootOps, hqe]
  have hu : namesUnique s = true := by
    simp only [namesUnique, Bool.and_eq_true, decide_eq_true_eq]
    exact ⟨(hasDup_false_iff _).mp hut, (hasDup_false_iff _).mp hud⟩
  refine ⟨?_, ?_⟩
  · simp [printTextWF, hdesc, hind, hT.1, hD.1, hq2, hm2, hs2, hne, hops, hu]
  · simp [printBuildWF, hT.2, hD.2, hut, hud, rootsOK, hq1, hm1, hs1, hth, hea, hres]

/-! ### the residual is NECESSARY: it follows from the two predicates -/

theorem argRes_of_wf (s : SchemaD) (w : Nat) (a : ArgD) (h1 : argOKT s w a = true) (h2 : argOK s a = true) : argRes s w a = true := by
  simp only [argOKT, tyOK_eq, Bool.and_eq_true] at h1
  simp only [argOK, Bool.and_eq_true] at h2
  obtain ⟨⟨⟨_, _, hsh⟩, hd2⟩, hlex⟩ := h1
  obtain ⟨⟨⟨hp, _⟩, hd1⟩, hdef⟩ := h2
  by_cases hd : a.hasDefault = true
  · simp only [hd, if_true] at hlex hdef
    cases hv : valueLit s valueFuel a.default a.type with
    | none => simp [hv] at hlex
    | some l =>
      simp only [hv] at hlex
      simp [argRes, hp, hd1, hd2, hsh, hd, hdef, hv, hlex]
  · simp only [hd, Bool.false_eq_true, if_false] at hdef
    simp [argRes, hp, hd1, hd2, hsh, hd, hdef]

theorem fieldRes_of_wf (s : SchemaD) (w : Nat) (f : FieldD) (h1 : fieldOKT s w f = true) (h2 : fieldOK s f = true) : fieldRes s w f = true := by
  simp only [fieldOKT, tyOK_eq, Bool.and_eq_true, List.all_eq_true] at h1
  simp only [fieldOK, Bool.and_eq_true, List.all_eq_true] at h2
  obtain ⟨⟨⟨_, _, hsh⟩, hd2⟩, ha1⟩ := h1
  obtain ⟨⟨⟨⟨⟨ha2, _⟩, hr⟩, hsr⟩, hdep⟩, hd1⟩ := h2
  have ha : f.args.all (argRes s (2 * w)) = true := by
    rw [List.all_eq_true]; exact fun a hm => argRes_of_wf s _ a (ha1 a hm) (ha2 a hm)
  simp [fieldRes, ha, hr, hsr, hdep, hd1, hd2, hsh]

theorem typeRes_of_wf (s : SchemaD) (w : Nat) (t : TypeD) (h1 : typeOKT s w t = true) (h2 : typeOK s t = true) : typeRes s w t = true := by
  simp only [typeOK, Bool.and_eq_true, Bool.not_eq_true', List.all_eq_true] at h2
  obtain ⟨⟨⟨⟨⟨⟨⟨⟨⟨⟨hsh, hf2⟩, hi2⟩, hv2⟩, hdup⟩, _⟩, _⟩, hdr⟩, hb⟩, hd1⟩, hnd⟩ := h2
  simp only [typeOKT, Bool.and_eq_true] at h1
  obtain ⟨⟨_, hd2⟩, hk1⟩ := h1
  have hfields : t.fields.all (fieldRes s w) = true := by
    rw [List.all_eq_true]; intro f hm
    have : fieldOKT s w f = true := by
      cases hk : t.kind <;> simp only [hk, Bool.and_eq_true, List.all_eq_true] at hk1 <;>
        simp only [shapeOK, hk, Bool.and_eq_true, List.isEmpty_iff] at hsh
      · rw [hsh.1.1.1.2] at hm; exact absurd hm (by simp)
      · exact hk1.1.2 f hm
      · exact hk1.2 f hm
      · rw [hsh.1.1.2] at hm; exact absurd hm (by simp)
      · rw [hsh.1.1.2] at hm; exact absurd hm (by simp)
      · rw [hsh.1.1.2] at hm; exact absurd hm (by simp)
    exact fieldRes_of_wf s w f this (hf2 f hm)
  have hinputs : t.inputFields.all (argRes s w) = true := by
    rw [List.all_eq_true]; intro a hm
    have : argOKT s w a = true := by
      cases hk : t.kind <;> simp only [hk, Bool.and_eq_true, List.all_eq_true] at hk1 <;>
        simp only [shapeOK, hk, Bool.and_eq_true, List.isEmpty_iff] at hsh
      · rw [hsh.2] at hm; exact absurd hm (by simp)
      · rw [hsh.2] at hm; exact absurd hm (by simp)
      · rw [hsh.2] at hm; exact absurd hm (by simp)
      · rw [hsh.2] at hm; exact absurd hm (by simp)
      · rw [hsh.2] at hm; exact absurd hm (by simp)
      · exact hk1.2 a hm
    exact argRes_of_wf s w a this (hi2 a hm)
  have hvalues : t.values.all (enumValRes w) = true := by
    rw [List.all_eq_true]; intro v hm
    have : enumValOKT w v = true := by
      cases hk : t.kind <;> simp only [hk, Bool.and_eq_true, List.all_eq_true] at hk1 <;>
        simp only [shapeOK, hk, Bool.and_eq_true, List.isEmpty_iff] at hsh
      · rw [hsh.1.2] at hm; exact absurd hm (by simp)
      · rw [hsh.1.2] at hm; exact absurd hm (by simp)
      · rw [hsh.1.2] at hm; exact absurd hm (by simp)
      · rw [hsh.1.2] at hm; exact absurd hm (by simp)
      · exact hk1.2 v hm
      · rw [hsh.2] at hm; exact absurd hm (by simp)
    simp only [enumValOKT, Bool.and_eq_true] at this
    simp [enumValRes, hv2 v hm, this.1.2, this.2]
  have hshape : shapeOK t = true := by
    cases hk : t.kind <;> simp only [shapeOK, hk, Bool.and_eq_true, List.isEmpty_iff] at hsh ⊢ <;> exact hsh
  simp [typeRes, hshape, hfields, hinputs, hvalues, hdup, hdr, hb, hd1, hd2, hnd]

theorem directiveRes_of_wf (s : SchemaD) (w : Nat) (d : DirectiveD) (h1 : directiveOKT s w d = true) (h2 : directiveOK s d = true) :
    directiveRes s w d = true := by
  simp only [directiveOKT, Bool.and_eq_true, List.all_eq_true] at h1
  simp only [directiveOK, Bool.and_eq_true, List.all_eq_true] at h2
  obtain ⟨⟨⟨⟨_, hd2⟩, ha1⟩, hl1⟩, hl2⟩ := h1
  obtain ⟨⟨ha2, hd1⟩, hsp⟩ := h2
  have ha : d.args.all (argRes s w) = true := by
    rw [List.all_eq_true]; exact fun a hm => argRes_of_wf s _ a (ha1 a hm) (ha2 a hm)
  have hl : d.locations.all (fun l => nameOK l && Generated.ParserTables.directiveLocations.contains (T l)) = true := by
    rw [List.all_eq_true]; intro l hm; simpa using hl2 l hm
  simp only [directiveRes, Bool.and_eq_true]
  exact ⟨⟨⟨⟨⟨ha, hd1⟩, hd2⟩, hsp⟩, hl1⟩, hl⟩

/-- **printResidual_necessary** — every conjunct of the residual follows from `printTextWF ∧ printBuildWF`: together with
    `valid_implies_printWF`, on valid schemas the domain of the round-trip theorems is EXACTLY the residual -/
theorem printResidual_necessary (o : SdlPrintT.OptsT) (s : SchemaD) (h1 : printTextWF o s = true) (h2 : printBuildWF s = true) :
    printResidual o s = true := by
  simp only [printTextWF, Bool.and_eq_true, List.all_eq_true] at h1
  simp only [printBuildWF, Bool.and_eq_true, Bool.not_eq_true', List.all_eq_true] at h2
  obtain ⟨⟨⟨⟨⟨⟨⟨⟨⟨hdesc, hind⟩, ht1⟩, hd1⟩, _⟩, _⟩, _⟩, _⟩, _⟩, _⟩ := h1
  obtain ⟨⟨⟨⟨⟨⟨⟨ht2, hd2⟩, hut⟩, hud⟩, hro⟩, hth⟩, hea⟩, hres⟩ := h2
  have hT : s.types.all (typeRes s o.indent.length) = true := by
    rw [List.all_eq_true]; exact fun t hm => typeRes_of_wf s _ t (ht1 t hm) (ht2 t hm)
  have hD : s.directives.all (directiveRes s o.indent.length) = true := by
    rw [List.all_eq_true]; exact fun d hm => directiveRes_of_wf s _ d (hd1 d hm) (hd2 d hm)
  have hroot : ∀ r, rootIsObject s r = true → rootNotDefault r = true := by
    intro r hr
    cases r with
    | none => rfl
    | some q =>
      simp only [rootIsObject, List.any_eq_true, Bool.and_eq_true, beq_iff_eq] at hr
      obtain ⟨t, hm, hq, _⟩ := hr
      have := ht2 t hm
      simp only [typeOK, Bool.and_eq_true, Bool.not_eq_true'] at this
      simp only [rootNotDefault, ← hq, this.2, Bool.not_false]
  simp only [rootsOK, Bool.and_eq_true] at hro
  have hind' : o.indent.all (fun c => c == 32 || c == 9) = true := by rw [List.all_eq_true]; exact hind
  simp [printResidual, hdesc, hind', hT, hD, hut, hud, hth, hea, hres, hroot _ hro.1.1, hroot _ hro.1.2, hroot _ hro.2]

/-- **valid_roundtrip** — the property for VALID schemas with the exclusions named: the printed text parses, the parsed
    document builds a schema equal to `s` up to the order of definitions, and re-printing it gives the same text -/
theorem valid_roundtrip (o : SdlPrintT.OptsT) (s full : SchemaD) (rv : Bool) (hc : Covers s full)
    (hv : ValidSchema full rv) (hr : printResidual o s = true) :
    ∃ (d : Ast.Document) (doc : Doc) (s' : SchemaD), parseSdlTextT (SdlPrintT.printSchemaT o s) = some d ∧
      docToAst doc = some d ∧ build doc = .ok s' ∧ SameUpToOrder s' s ∧
      SdlPrintT.printSchemaT o s' = SdlPrintT.printSchemaT o s := by
  obtain ⟨hwf, hb⟩ := valid_implies_printWF o s full rv hc hv hr
  obtain ⟨d, doc, h1, h2, h3⟩ := text_roundtrip o s hwf (printBuildWF_printOrder s hb)
  exact ⟨d, doc, printOrder s, h1, h2, h3, ⟨types_perm s, directives_perm s, rfl, rfl, rfl, rfl⟩,
    printSchemaT_order_independent o s (namesUnique_of_wf o s hwf)⟩

/-! ### the C13 view of a C12 schema; non-vacuity; an excluded VALID schema -/

def specifiedScalars : List TypeD :=
  ["Int", "Float", "Boolean", "String", "ID"].map fun n => { kind := .scalar, name := n, builtin := true }

/-- the schema with the five specified scalars in its registry (what `Schema.types` holds and C13 validates) -/
def withSpecified (s : SchemaD) : SchemaD := { s with types := s.types ++ specifiedScalars }

theorem covers_withSpecified (s : SchemaD) : Covers s (withSpecified s) where
  types_sub := fun t ht => List.mem_append_left _ ht
  types_rest := fun t ht => by
    rcases List.mem_append.mp ht with h | h
    · exact Or.inl h
    · right
      simp only [specifiedScalars, List.map_cons, List.map_nil, List.mem_cons, List.mem_nil_iff, or_false] at h
      rcases h with h | h | h | h | h <;> subst h <;> rfl
  dirs_sub := fun _ hd => hd
  query := rfl
  mutation := rfl
  subscription := rfl


/-- `descShop` / `plainShop` are valid (C13) and none of the exclusions: the theorem applies (`decide` evaluates C13's
    validator; on `shop` it gets stuck at the derived `BEq J` of the enum-default rule) -/
example : ValidSchema (withSpecified descShop) := (Props.C13.validate_iff _ true).mp (by decide)
example : printResidual {} descShop = true := by decide
example : printTextWF {} descShop = true ∧ printBuildWF descShop = true :=
  valid_implies_printWF {} descShop (withSpecified descShop) true (covers_withSpecified descShop)
    ((Props.C13.validate_iff _ true).mp (by decide)) (by decide)
example : printTextWF {} plainShop = true ∧ printBuildWF plainShop = true :=
  valid_implies_printWF {} plainShop (withSpecified plainShop) true (covers_withSpecified plainShop)
    ((Props.C13.validate_iff _ true).mp (by decide)) (by decide)
example : printResidual {} shop = true := by decide

/-- finding H2 as an exclusion of a VALID schema: `f(i: I = {n: 1})` where `I` has a defaulted field `s` that the default
    omits (the shape of `h2Schema`, `print_build_roundtrip_needs_NoH2`) -/
def h2Valid : SchemaD :=
  { types := [{ kind := .input, name := "I",
                inputFields := [{ name := "n", type := .named "Int" },
                                { name := "s", type := .named "String", hasDefault := true, default := .str "dflt" }] },
              { kind := .object, name := "Query",
                fields := [{ name := "f", type := .named "Int",
                             args := [{ name := "i", type := .named "I", hasDefault := true, default := .obj [("n", .num 1)] }] }] }],
    query := some "Query" }

/-- **h2_valid_but_excluded** — it passes C13's validation (the default conforms "as far as the rule checks") and is outside
    `printResidual` / `printBuildWF` (only the NoH2 clause `wtB` fails): validity alone does NOT give the round trip, the
    residual is not redundant -/
theorem h2_valid_but_excluded : ValidSchema (withSpecified h2Valid) ∧ printResidual {} h2Valid = false ∧ printBuildWF h2Valid = false :=
  ⟨(Props.C13.validate_iff _ true).mp (by decide), by decide, by decide⟩

end PyGql.Props.C12

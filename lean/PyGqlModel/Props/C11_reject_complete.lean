/-
  C11 — REJECTION COMPLETENESS (audit 3, finding F4): a document that breaks a type-system rule the builder is
  responsible for is REJECTED by `build` — every theorem here is about `build doc ie add` itself, not about a helper.

  Collection rules (the class is exactly `SDLError`):
    `build_rejects_dup_type`, `build_rejects_dup_directive`, `build_rejects_second_schema`,
    `build_rejects_specified_name`.
  Member rules (`Rejected`: `build` returns `.error e`, `e` one of the three library classes or the RecursionError of
  finding S1b — an EARLIER definition of the same document may fail first, so the class of the first failure is not
  determined by the broken rule alone):
    `build_rejects_invalid_type_def` (any clause of `TypeDefOK`, Spec/SdlRules.lean) with the named instances
    `build_rejects_unknown_field_type`, `build_rejects_unknown_argument_type`, `build_rejects_unknown_interface`,
    `build_rejects_unknown_union_member`, `build_rejects_unknown_input_field_type`, `build_rejects_dup_enum_value`,
    `build_rejects_bad_default`; `build_rejects_invalid_directive_def`; `build_rejects_unknown_root`.
  Extension rules (`ie = false`):
    `build_rejects_ext_wrong_kind`, `build_rejects_ext_dup_field`, `build_rejects_ext_dup_input_field`,
    `build_rejects_ext_dup_enum_value`, `build_rejects_ext_dup_union_member`, `build_rejects_ext_dup_interface`.
  NOT a builder rule (nothing to prove here): "a root operation type must be an object type" — `build_schema` accepts
  `schema { query: SomeEnum }`; the rule is `Schema.validate`'s (property C13, `validate_iff`).
-/
import PyGqlModel.Props.C11_rules
import PyGqlModel.Props.C11_rejects
import PyGqlModel.Props.C11_additional
import PyGqlModel.Props.C11_skel

set_option linter.unusedVariables false
set_option linter.unusedSimpArgs false

namespace PyGql.Props.C11
open PyGql PyGql.Sdl PyGql.SdlSpec

/-- `build` fails, with one of the library's error classes (or the RecursionError of finding S1b) -/
def Rejected (doc : Doc) (ie : Bool) (add : List TypeD) : Prop :=
  ∃ e, build doc ie add = .error e ∧ ((∃ l, e = .lib l) ∨ e = .internal "RecursionError")

theorem rejected_of_not_ok (doc : Doc) (ie : Bool) (add : List TypeD) (h : ∀ s, build doc ie add ≠ .ok s) : Rejected doc ie add := by
  cases hb : build doc ie add with
  | ok s => exact absurd hb (h s)
  | error e => exact ⟨e, hb, build_rejects doc ie add e hb⟩

/-! ### collection rules -/

theorem any_name_false_inv {α} (name : α → String) (l : List α) (n : String) (h : l.any (fun x => name x == n) = false) :
    n ∉ l.map name := by
  intro hm
  obtain ⟨x, hx, hn⟩ := List.mem_map.mp hm
  have : l.any (fun x => name x == n) = true := List.any_eq_true.mpr ⟨x, hx, by simp [hn]⟩
  rw [h] at this; cases this

private theorem nodup_snoc {l : List String} {n : String} (hl : l.Nodup) (hn : n ∉ l) : (l ++ [n]).Nodup :=
  List.nodup_append.mpr ⟨hl, by simp, fun a ha b hb => by
    simp only [List.mem_singleton] at hb; subst hb; exact fun e => hn (e ▸ ha)⟩

private theorem collect_rules_aux (doc : Doc) : ∀ (acc c : Collected), doc.foldlM collectStep acc = .ok c →
    (acc.types.map (·.name)).Nodup → (acc.directives.map (·.name)).Nodup →
    (acc.types.map (·.name) ++ (typeDefs doc).map (·.name)).Nodup ∧
    (acc.directives.map (·.name) ++ (dirDefs doc).map (·.name)).Nodup ∧
    ((if acc.schemaDef.isSome then 1 else 0) + (schemaDefs doc).length ≤ 1) ∧
    (∀ t ∈ typeDefs doc, isDefaultName t.name = false) := by
  induction doc with
  | nil =>
    intro acc c _ hT hD
    refine ⟨by simpa [typeDefs] using hT, by simpa [dirDefs] using hD, ?_, by simp [typeDefs]⟩
    simp only [schemaDefs, List.filterMap_nil, List.length_nil]; split <;> omega
  | cons d ds ih =>
    intro acc c h hT hD
    rw [List.foldlM_cons] at h
    obtain ⟨acc', hs, h'⟩ := bind_ok _ _ _ h
    cases d with
    | type t =>
      by_cases h1 : acc.types.any (·.name == t.name) = true
      · simp [collectStep, h1, sdlErr] at hs
      by_cases h2 : isDefaultName t.name = true
      · simp [collectStep, h1, h2, sdlErr] at hs
      simp only [collectStep, h1, h2, if_false, pure, Except.pure] at hs
      have := ok_inj hs; subst this
      have hn : t.name ∉ acc.types.map (·.name) := any_name_false_inv (fun x : TypeDef => x.name) _ _ (by simpa using h1)
      obtain ⟨a, b, c', d'⟩ := ih _ c h' (by simpa using nodup_snoc hT hn) hD
      refine ⟨by simpa [typeDefs, List.append_assoc] using a, by simpa [dirDefs] using b, by simpa [schemaDefs] using c', ?_⟩
      intro t' ht'
      simp only [typeDefs, List.filterMap_cons, List.mem_cons] at ht'
      rcases ht' with rfl | ht'
      · simpa using h2
      · exact d' t' ht'
    | directive dd =>
      by_cases h1 : acc.directives.any (·.name == dd.name) = true
      · simp [collectStep, h1, sdlErr] at hs
      simp only [collectStep, h1, if_false, pure, Except.pure] at hs
      have := ok_inj hs; subst this
      have hn : dd.name ∉ acc.directives.map (·.name) := any_name_false_inv (fun x : DirDef => x.name) _ _ (by simpa using h1)
      obtain ⟨a, b, c', d'⟩ := ih _ c h' hT (by simpa using nodup_snoc hD hn)
      exact ⟨by simpa [typeDefs] using a, by simpa [dirDefs, List.append_assoc] using b, by simpa [schemaDefs] using c', by simpa [typeDefs] using d'⟩
    | schema sd =>
      by_cases h1 : acc.schemaDef.isSome = true
      · simp [collectStep, h1, sdlErr] at hs
      simp only [collectStep, h1, if_false, pure, Except.pure] at hs
      have := ok_inj hs; subst this
      obtain ⟨a, b, c', d'⟩ := ih _ c h' hT hD
      refine ⟨by simpa [typeDefs] using a, by simpa [dirDefs] using b, ?_, by simpa [typeDefs] using d'⟩
      have e : schemaDefs (Def.schema sd :: ds) = sd :: schemaDefs ds := rfl
      rw [e]
      simp only [Option.isSome_some, if_true] at c'
      simp only [h1, Bool.false_eq_true, if_false, List.length_cons]; omega
    | ext t =>
      simp only [collectStep, pure, Except.pure] at hs
      have := ok_inj hs; subst this
      obtain ⟨a, b, c', d'⟩ := ih _ c h' hT hD
      exact ⟨by simpa [typeDefs] using a, by simpa [dirDefs] using b, by simpa [schemaDefs] using c', by simpa [typeDefs] using d'⟩
    | schemaExt t =>
      simp only [collectStep, pure, Except.pure] at hs
      have := ok_inj hs; subst this
      obtain ⟨a, b, c', d'⟩ := ih _ c h' hT hD
      exact ⟨by simpa [typeDefs] using a, by simpa [dirDefs] using b, by simpa [schemaDefs] using c', by simpa [typeDefs] using d'⟩
    | other =>
      simp only [collectStep, pure, Except.pure] at hs
      have := ok_inj hs; subst this
      obtain ⟨a, b, c', d'⟩ := ih _ c h' hT hD
      exact ⟨by simpa [typeDefs] using a, by simpa [dirDefs] using b, by simpa [schemaDefs] using c', by simpa [typeDefs] using d'⟩

/-- **converse of `collect_ok`**: `_collect_definitions` succeeds ONLY on documents with unique type names, unique
    directive names, at most one `schema` block and no definition that takes a specified name. -/
theorem collect_ok_rules (doc : Doc) (c : Collected) (h : collectDefinitions doc = .ok c) :
    ((typeDefs doc).map (·.name)).Nodup ∧ ((dirDefs doc).map (·.name)).Nodup ∧ (schemaDefs doc).length ≤ 1 ∧
    (∀ t ∈ typeDefs doc, isDefaultName t.name = false) := by
  have := collect_rules_aux doc {} c h (by simp) (by simp)
  simpa using this

/-- a failure of the collection is the failure of `build`, whatever the flags and the supplied types -/
theorem build_error_of_collect (doc : Doc) (ie : Bool) (add : List TypeD) (h : ∀ c, collectDefinitions doc ≠ .ok c) :
    build doc ie add = .error (.lib .sdl) := by
  cases hc : collectDefinitions doc with
  | ok c => exact absurd hc (h c)
  | error e =>
    have := collect_rejects_sdl doc e hc; subst this
    simp [build, buildIgnoringExtensions, hc, bind, Except.bind]

/-- **two definitions of one type name ⇒ `SDLError`** -/
theorem build_rejects_dup_type (doc : Doc) (ie : Bool) (add : List TypeD) (h : ¬ ((typeDefs doc).map (·.name)).Nodup) :
    build doc ie add = .error (.lib .sdl) :=
  build_error_of_collect doc ie add fun c hc => h (collect_ok_rules doc c hc).1

/-- **two definitions of one directive name ⇒ `SDLError`** -/
theorem build_rejects_dup_directive (doc : Doc) (ie : Bool) (add : List TypeD) (h : ¬ ((dirDefs doc).map (·.name)).Nodup) :
    build doc ie add = .error (.lib .sdl) :=
  build_error_of_collect doc ie add fun c hc => h (collect_ok_rules doc c hc).2.1

/-- **a second `schema` block ⇒ `SDLError`** -/
theorem build_rejects_second_schema (doc : Doc) (ie : Bool) (add : List TypeD) (h : 2 ≤ (schemaDefs doc).length) :
    build doc ie add = .error (.lib .sdl) :=
  build_error_of_collect doc ie add fun c hc => by have := (collect_ok_rules doc c hc).2.2.1; omega

/-- **a definition that takes the name of a specified type (`Int`, `__Type` …) ⇒ `SDLError`** (fix C11-7) -/
theorem build_rejects_specified_name (doc : Doc) (ie : Bool) (add : List TypeD) (t : TypeDef) (ht : t ∈ typeDefs doc)
    (h : isDefaultName t.name = true) : build doc ie add = .error (.lib .sdl) :=
  build_error_of_collect doc ie add fun c hc => by have := (collect_ok_rules doc c hc).2.2.2 t ht; rw [h] at this; cases this

/-! ### what a successful `build` implies -/

theorem findAdditional_none (defs : List TypeDef) (add : List TypeD) (n : String) (h : n ∉ add.map (·.name)) :
    (Env.of defs add).findAdditional n = none := by
  simp only [Env.of]
  rw [List.find?_eq_none]
  intro x hx
  simp only [beq_iff_eq]
  exact fun e => h (List.mem_map.mpr ⟨x, hx, e⟩)

theorem build_ok_inv (doc : Doc) (ie : Bool) (add : List TypeD) (s : SchemaD) (h : build doc ie add = .ok s) :
    ∃ c live, collectDefinitions doc = .ok c ∧ buildCollected c add = .ok (Env.of c.types add, live) ∧
      (ie = false → ∃ live', extendSchema (Env.of c.types add) live doc add = .ok live') := by
  unfold build at h
  obtain ⟨⟨env, live⟩, h1, h2⟩ := bind_ok _ _ _ h
  unfold buildIgnoringExtensions at h1
  obtain ⟨c, hc, hb⟩ := bind_ok _ _ _ h1
  have he := buildCollected_env c add env live hb; subst he
  refine ⟨c, live, hc, hb, fun hie => ?_⟩
  subst hie
  simp only [Bool.false_eq_true, if_false] at h2
  obtain ⟨l', hl', _⟩ := bind_ok _ _ _ h2
  exact ⟨l', hl'⟩

theorem buildCollected_ok_inv (c : Collected) (add : List TypeD) (env : Env) (live : Live) (h : buildCollected c add = .ok (env, live)) :
    ∃ dirs built roots, c.directives.mapM (buildDirective (Env.of c.types add)) = .ok dirs ∧
      c.types.mapM (buildType (Env.of c.types add)) = .ok built ∧
      buildRoots (Env.of c.types add) c.schemaDef (built.filterMap id) = .ok roots ∧
      live.types = built.filterMap id ++ referencedAdditional add (built.filterMap id) dirs roots := by
  unfold buildCollected at h
  simp only [] at h
  obtain ⟨_, _, h⟩ := bind_ok _ _ _ h
  obtain ⟨dirs, hdirs, h⟩ := bind_ok _ _ _ h
  obtain ⟨built, hbuilt, h⟩ := bind_ok _ _ _ h
  obtain ⟨_, _, h⟩ := bind_ok _ _ _ h
  obtain ⟨roots, hroots, h⟩ := bind_ok _ _ _ h
  obtain ⟨_, _, h⟩ := bind_ok _ _ _ h
  have := ok_inj h
  simp only [Prod.mk.injEq] at this
  obtain ⟨_, hl⟩ := this
  subst hl
  exact ⟨dirs, built, roots, hdirs, hbuilt, hroots, rfl⟩

/-- the parts of a successful build that the member rules need -/
theorem build_ok_members (doc : Doc) (ie : Bool) (add : List TypeD) (s : SchemaD) (h : build doc ie add = .ok s) :
    (∀ d ∈ dirDefs doc, Ok (buildDirective (Env.of (typeDefs doc) add) d)) ∧
    (∀ t ∈ typeDefs doc, Ok (buildType (Env.of (typeDefs doc) add) t)) ∧
    (∀ t ∈ typeDefs doc, isDefaultName t.name = false) := by
  obtain ⟨c, live, hc, hb, _⟩ := build_ok_inv doc ie add s h
  obtain ⟨hT, hD⟩ := collect_exact doc c hc
  obtain ⟨dirs, built, roots, hdirs, hbuilt, _, _⟩ := buildCollected_ok_inv c add _ live hb
  rw [hT] at hbuilt hdirs; rw [hD] at hdirs
  exact ⟨mapM_all_ok _ _ _ hdirs, mapM_all_ok _ _ _ hbuilt, (collect_ok_rules doc c hc).2.2.2⟩

/-! ### member rules -/

/-- **a type definition that breaks one of its rules (`TypeDefOK`: unknown reference, default that is not a constant of
    its type, malformed `@deprecated`, repeated / reserved enum value) ⇒ the document is rejected.**  The definition
    must be one the builder builds: not replaced by a supplied type of the same name. -/
theorem build_rejects_invalid_type_def (doc : Doc) (ie : Bool) (add : List TypeD) (t : TypeDef) (ht : t ∈ typeDefs doc)
    (hadd : t.name ∉ add.map (·.name)) (h : ¬ TypeDefOK (Env.of (typeDefs doc) add) t) : Rejected doc ie add := by
  refine rejected_of_not_ok doc ie add fun s hs => h ?_
  obtain ⟨_, hT, hN⟩ := build_ok_members doc ie add s hs
  obtain ⟨o, ho⟩ := hT t ht
  unfold buildType at ho
  have hfa := findAdditional_none (typeDefs doc) add t.name hadd
  simp only [hN t ht, Bool.false_eq_true, if_false, hfa] at ho
  obtain ⟨bt, hbt, _⟩ := bind_ok _ _ _ ho
  exact (buildTypeDef_ok_iff _ t).mp ⟨bt, hbt⟩

private theorem known_env (doc : Doc) (add : List TypeD) (n : String) (h : ¬ KnownIn (typeDefs doc) add n) :
    ¬ Known (Env.of (typeDefs doc) add) n := fun hk => h ((known_of_iff _ _ _).mp hk)

/-- **a field whose type is neither defined, supplied nor specified ⇒ rejected** -/
theorem build_rejects_unknown_field_type (doc : Doc) (ie : Bool) (add : List TypeD) (t : TypeDef) (ht : t ∈ typeDefs doc)
    (hadd : t.name ∉ add.map (·.name)) (hk : t.kind = .object ∨ t.kind = .interface) (f : FieldDef) (hf : f ∈ t.fields)
    (h : ¬ KnownIn (typeDefs doc) add f.type.base) : Rejected doc ie add := by
  refine build_rejects_invalid_type_def doc ie add t ht hadd fun ok => known_env doc add _ h ?_
  unfold TypeDefOK at ok
  rcases hk with hk | hk <;> rw [hk] at ok
  · exact (ok.1 f hf).1
  · exact (ok f hf).1

/-- **an argument whose type is unknown ⇒ rejected** -/
theorem build_rejects_unknown_argument_type (doc : Doc) (ie : Bool) (add : List TypeD) (t : TypeDef) (ht : t ∈ typeDefs doc)
    (hadd : t.name ∉ add.map (·.name)) (hk : t.kind = .object ∨ t.kind = .interface) (f : FieldDef) (hf : f ∈ t.fields)
    (a : InputValDef) (ha : a ∈ f.args) (h : ¬ KnownIn (typeDefs doc) add a.type.base) : Rejected doc ie add := by
  refine build_rejects_invalid_type_def doc ie add t ht hadd fun ok => known_env doc add _ h ?_
  unfold TypeDefOK at ok
  rcases hk with hk | hk <;> rw [hk] at ok
  · exact ((ok.1 f hf).2.1 a ha).1
  · exact ((ok f hf).2.1 a ha).1

/-- **an object type that implements an unknown interface ⇒ rejected** -/
theorem build_rejects_unknown_interface (doc : Doc) (ie : Bool) (add : List TypeD) (t : TypeDef) (ht : t ∈ typeDefs doc)
    (hadd : t.name ∉ add.map (·.name)) (hk : t.kind = .object) (i : String) (hi : i ∈ t.interfaces)
    (h : ¬ KnownIn (typeDefs doc) add i) : Rejected doc ie add := by
  refine build_rejects_invalid_type_def doc ie add t ht hadd fun ok => known_env doc add _ h ?_
  unfold TypeDefOK at ok
  rw [hk] at ok
  exact ok.2 i hi

/-- **a union with an unknown member ⇒ rejected** -/
theorem build_rejects_unknown_union_member (doc : Doc) (ie : Bool) (add : List TypeD) (t : TypeDef) (ht : t ∈ typeDefs doc)
    (hadd : t.name ∉ add.map (·.name)) (hk : t.kind = .union) (m : String) (hm : m ∈ t.members)
    (h : ¬ KnownIn (typeDefs doc) add m) : Rejected doc ie add := by
  refine build_rejects_invalid_type_def doc ie add t ht hadd fun ok => known_env doc add _ h ?_
  unfold TypeDefOK at ok
  rw [hk] at ok
  exact ok m hm

/-- **an input field whose type is unknown ⇒ rejected** -/
theorem build_rejects_unknown_input_field_type (doc : Doc) (ie : Bool) (add : List TypeD) (t : TypeDef) (ht : t ∈ typeDefs doc)
    (hadd : t.name ∉ add.map (·.name)) (hk : t.kind = .input) (f : InputValDef) (hf : f ∈ t.inputFields)
    (h : ¬ KnownIn (typeDefs doc) add f.type.base) : Rejected doc ie add := by
  refine build_rejects_invalid_type_def doc ie add t ht hadd fun ok => known_env doc add _ h ?_
  unfold TypeDefOK at ok
  rw [hk] at ok
  exact (ok f hf).1

/-- **an enum definition that repeats a value ⇒ rejected** -/
theorem build_rejects_dup_enum_value (doc : Doc) (ie : Bool) (add : List TypeD) (t : TypeDef) (ht : t ∈ typeDefs doc)
    (hadd : t.name ∉ add.map (·.name)) (hk : t.kind = .enum) (h : ¬ (t.values.map (·.name)).Nodup) : Rejected doc ie add := by
  refine build_rejects_invalid_type_def doc ie add t ht hadd fun ok => h ?_
  unfold TypeDefOK at ok
  rw [hk] at ok
  exact ok.1

/-- **a default literal of an input field that is not a constant of the field's type ⇒ rejected** -/
theorem build_rejects_bad_default (doc : Doc) (ie : Bool) (add : List TypeD) (t : TypeDef) (ht : t ∈ typeDefs doc)
    (hadd : t.name ∉ add.map (·.name)) (hk : t.kind = .input) (f : InputValDef) (hf : f ∈ t.inputFields) (l : Lit)
    (hl : f.default = some l) (h : ∀ v, ¬ CoercesTo (Env.of (typeDefs doc) add) f.type l v) : Rejected doc ie add := by
  refine build_rejects_invalid_type_def doc ie add t ht hadd fun ok => ?_
  unfold TypeDefOK at ok
  rw [hk] at ok
  obtain ⟨v, hv⟩ := (ok f hf).2 l hl
  exact h v hv

/-- **a directive definition with an argument that breaks its rules ⇒ rejected** -/
theorem build_rejects_invalid_directive_def (doc : Doc) (ie : Bool) (add : List TypeD) (d : DirDef) (hd : d ∈ dirDefs doc)
    (h : ¬ DirDefOK (Env.of (typeDefs doc) add) d) : Rejected doc ie add := by
  refine rejected_of_not_ok doc ie add fun s hs => h ?_
  exact (buildDirective_ok_iff _ d).mp ((build_ok_members doc ie add s hs).1 d hd)

/-! ### roots -/

theorem addOps_ok_resolves (res : String → Bool) (errE : Err) : ∀ (ops : List (String × String)) (r r' : Roots),
    addOps res errE r ops = .ok r' → ∀ o ∈ ops, res o.2 = true := by
  intro ops
  induction ops with
  | nil => intro _ _ _ o ho; cases ho
  | cons o os ih =>
    intro r r' h o' ho'
    obtain ⟨op, ty⟩ := o
    simp only [addOps] at h
    split at h
    · cases h
    · split at h
      · simp [sdlErr] at h
      · rename_i hres
        rcases List.mem_cons.mp ho' with rfl | hm
        · simpa using hres
        · exact ih _ _ h o' hm

/-- **a `schema` block that names an unknown type ⇒ rejected** -/
theorem build_rejects_unknown_root (doc : Doc) (ie : Bool) (add : List TypeD) (sd : SchemaDef) (hsd : (schemaDefs doc).head? = some sd)
    (o : String × String) (ho : o ∈ sd.ops) (h : ¬ KnownIn (typeDefs doc) add o.2) : Rejected doc ie add := by
  refine rejected_of_not_ok doc ie add fun s hs => known_env doc add _ h ?_
  obtain ⟨c, live, hc, hb, _⟩ := build_ok_inv doc ie add s hs
  obtain ⟨hT, hD⟩ := collect_exact doc c hc
  obtain ⟨hr1, hr2, hr3, hr4⟩ := collect_ok_rules doc c hc
  obtain ⟨c', hc', _, _, hS⟩ := collect_ok doc hr1 hr2 hr3 hr4
  rw [hc] at hc'; have := ok_inj hc'; subst this
  obtain ⟨dirs, built, roots, _, _, hroots, _⟩ := buildCollected_ok_inv c add _ live hb
  rw [hS, hsd] at hroots
  simp only [buildRoots] at hroots
  have := addOps_ok_resolves _ _ _ _ _ hroots o ho
  rw [hT] at this
  exact (resolves_iff _ _).mp this

/-! ### extension rules -/

theorem appendNew_ok_disjoint {α} (errE : Err) (name : α → String) : ∀ (xs acc r : List α), appendNew errE name acc xs = .ok r →
    ∀ x ∈ xs, ∀ y ∈ acc, name y ≠ name x := by
  intro xs
  induction xs with
  | nil => intro _ _ _ x hx; cases hx
  | cons x xs ih =>
    intro acc r h x' hx' y hy
    simp only [appendNew] at h
    split at h
    · cases h
    · rename_i hany
      rcases List.mem_cons.mp hx' with rfl | hm
      · intro e
        exact hany (List.any_eq_true.mpr ⟨y, hy, by simp [e]⟩)
      · exact ih _ _ h x' hm y (List.mem_append_left _ hy)

/-- the merge loop of `_extend_<kind>_type`: if it succeeds, no member of an extension block has the name of a member
    the type already had -/
theorem mergeFold_ok_disjoint {α β} (bf : α → R β) (na : α → String) (nb : β → String) (hbf : ∀ x y, bf x = .ok y → nb y = na x)
    (errE : Err) (sel : TypeDef → List α) : ∀ (es : List TypeDef) (init r : List β),
    es.foldlM (fun acc e => do let new ← (sel e).mapM bf; appendNew errE nb acc new) init = .ok r →
    ∀ e ∈ es, ∀ f ∈ sel e, ∀ y ∈ init, nb y ≠ na f := by
  intro es
  induction es with
  | nil => intro _ _ _ e he; cases he
  | cons e es ih =>
    intro init r h e' he' f hf y hy
    rw [List.foldlM_cons] at h
    obtain ⟨acc1, h1, h2⟩ := bind_ok _ _ _ h
    obtain ⟨new, hnew, happ⟩ := bind_ok _ _ _ h1
    rcases List.mem_cons.mp he' with rfl | hm
    · have hnames := mapM_names bf na nb hbf _ _ hnew
      have : na f ∈ new.map nb := by rw [hnames]; exact List.mem_map_of_mem hf
      obtain ⟨x, hx, hxn⟩ := List.mem_map.mp this
      rw [← hxn]
      exact appendNew_ok_disjoint errE nb new init acc1 happ x hx y hy
    · have := appendNew_ok errE nb new init acc1 happ
      exact ih acc1 r h2 e' hm f hf y (by rw [this]; exact List.mem_append_left _ hy)

/-- the same for lists of names (interfaces, union members), where a check of the names precedes the merge -/
theorem namesFold_ok_disjoint (env : Env) (errE : Err) (sel : TypeDef → List String) : ∀ (es : List TypeDef) (init r : List String),
    es.foldlM (fun acc e => do checkNames env (sel e); appendNew errE id acc (sel e)) init = .ok r →
    ∀ e ∈ es, ∀ m ∈ sel e, m ∉ init := by
  intro es
  induction es with
  | nil => intro _ _ _ e he; cases he
  | cons e es ih =>
    intro init r h e' he' m hm hmi
    rw [List.foldlM_cons] at h
    obtain ⟨acc1, h1, h2⟩ := bind_ok _ _ _ h
    obtain ⟨_, _, happ⟩ := bind_ok _ _ _ h1
    rcases List.mem_cons.mp he' with rfl | hmem
    · exact appendNew_ok_disjoint errE id _ init acc1 happ m hm m hmi rfl
    · have := appendNew_ok errE id _ init acc1 happ
      exact ih acc1 r h2 e' hmem m hm (by rw [this]; exact List.mem_append_left _ hmi)

/-- what the extension step checks on one live type -/
theorem extendTypeX_ok_inv (eB eX : Env) (hide : Option String) (exts : List TypeDef) (t r : TypeD)
    (h : extendTypeX eB eX hide exts t = .ok r) : ∀ e ∈ exts, e.name = t.name →
      e.kind = t.kind ∧
      ((t.kind = .object ∨ t.kind = .interface) → ∀ f ∈ e.fields, f.name ∉ t.fields.map (·.name)) ∧
      (t.kind = .object → ∀ i ∈ e.interfaces, i ∉ t.interfaces) ∧
      (t.kind = .union → ∀ m ∈ e.members, m ∉ t.members) ∧
      (t.kind = .enum → ∀ v ∈ e.values, v.name ∉ t.values.map (·.name)) ∧
      (t.kind = .input → ∀ f ∈ e.inputFields, f.name ∉ t.inputFields.map (·.name)) := by
  intro e he hn
  have hmine : e ∈ exts.filter (·.name == t.name) := List.mem_filter.mpr ⟨he, by simp [hn]⟩
  unfold extendTypeX at h
  simp only [] at h
  obtain ⟨_, hk, h⟩ := bind_ok _ _ _ h
  have hkind : e.kind = t.kind := by
    have := (ok_failIf _ _).mp ⟨_, hk⟩
    have h' := List.any_eq_false.mp this e hmine
    simpa using h'
  have notin : ∀ {β} (nb : β → String) (l : List β) (n : String), (∀ y ∈ l, nb y ≠ n) → n ∉ l.map nb :=
    fun nb l n hh hm => by obtain ⟨y, hy, hyn⟩ := List.mem_map.mp hm; exact hh y hy hyn
  refine ⟨hkind, ?_⟩
  cases hk' : t.kind <;> simp only [hk'] at h
  · simp
  · obtain ⟨fs, hfs, h⟩ := bind_ok _ _ _ h
    obtain ⟨is, his, h⟩ := bind_ok _ _ _ h
    have d1 := mergeFold_ok_disjoint (buildFieldX eB eX hide) (·.name) (·.name) (buildFieldX_name eB eX hide) (.lib .ext) (·.fields) _ _ _ hfs e hmine
    have d2 := namesFold_ok_disjoint eB (.lib .ext) (·.interfaces) _ _ _ his e hmine
    simp only [reduceCtorEq, false_imp_iff, true_imp_iff, and_true, or_false, true_or]
    exact ⟨fun f hf => notin _ _ _ (d1 f hf), d2⟩
  · obtain ⟨fs, hfs, h⟩ := bind_ok _ _ _ h
    have d1 := mergeFold_ok_disjoint (buildFieldX eB eX hide) (·.name) (·.name) (buildFieldX_name eB eX hide) (.lib .ext) (·.fields) _ _ _ hfs e hmine
    simp only [reduceCtorEq, false_imp_iff, true_imp_iff, and_true, or_true, false_or]
    exact fun f hf => notin _ _ _ (d1 f hf)
  · obtain ⟨ms, hms, h⟩ := bind_ok _ _ _ h
    have d2 := namesFold_ok_disjoint eB (.lib .ext) (·.members) _ _ _ hms e hmine
    simp only [reduceCtorEq, false_imp_iff, true_imp_iff, and_true, or_self, true_and]
    exact d2
  · obtain ⟨vs, hvs, h⟩ := bind_ok _ _ _ h
    have d1 := mergeFold_ok_disjoint buildEnumValue (·.name) (·.name) buildEnumValue_name (.lib .ext) (·.values) _ _ _ hvs e hmine
    simp only [reduceCtorEq, false_imp_iff, true_imp_iff, and_true, or_self, true_and]
    exact fun f hf => notin _ _ _ (d1 f hf)
  · obtain ⟨fs, hfs, h⟩ := bind_ok _ _ _ h
    have d1 := mergeFold_ok_disjoint (buildArgumentX eB eX hide) (·.name) (·.name) (buildArgumentX_name eB eX hide) (.lib .ext) (·.inputFields) _ _ _ hfs e hmine
    simp only [reduceCtorEq, false_imp_iff, true_imp_iff, and_true, or_self, true_and]
    exact fun f hf => notin _ _ _ (d1 f hf)

/-- a successful `build` (extensions applied): the live type built from the definition `t` passed the extension step
    against every extension block of the document that targets it -/
theorem build_ok_extension (doc : Doc) (add : List TypeD) (s : SchemaD) (h : build doc false add = .ok s)
    (t : TypeDef) (ht : t ∈ typeDefs doc) (hadd : t.name ∉ add.map (·.name)) (e : TypeDef) (he : e ∈ typeExts doc) (hn : e.name = t.name) :
    ∃ bt r exts eX hide, buildTypeDef (Env.of (typeDefs doc) add) t = .ok bt ∧ e ∈ exts ∧
      extendTypeX (Env.of (typeDefs doc) add) eX hide exts bt = .ok r := by
  obtain ⟨c, live, hc, hb, hx⟩ := build_ok_inv doc false add s h
  obtain ⟨live', hx⟩ := hx rfl
  obtain ⟨hT, hD⟩ := collect_exact doc c hc
  have hN := (collect_ok_rules doc c hc).2.2.2
  obtain ⟨dirs, built, roots, _, hbuilt, _, hlive⟩ := buildCollected_ok_inv c add _ live hb
  rw [hT] at hbuilt hx
  -- the live type of `t`
  obtain ⟨o, ho, hbt⟩ := all₂_mem_left _ _ _ (mapM_forall₂ _ _ _ hbuilt) t ht
  unfold buildType at hbt
  have hfa := findAdditional_none (typeDefs doc) add t.name hadd
  simp only [hN t ht, Bool.false_eq_true, if_false, hfa] at hbt
  obtain ⟨bt, hbt', ho'⟩ := bind_ok _ _ _ hbt
  have := ok_inj ho'; subst this
  clear hbt
  have hbt := hbt'
  have hshape := buildTypeDef_shape _ _ _ hbt
  have hbtl : bt ∈ live.types := by
    rw [hlive]; exact List.mem_append_left _ (List.mem_filterMap.mpr ⟨some bt, ho, rfl⟩)
  -- `e` is one of the collected extensions
  have hext : e ∈ typeExtensions live doc := by
    unfold typeExtensions
    refine List.mem_filterMap.mpr ⟨.ext e, ?_, ?_⟩
    · unfold typeExts at he
      obtain ⟨d, hd, hde⟩ := List.mem_filterMap.mp he
      cases d <;> simp at hde
      subst hde; exact hd
    · have : live.types.any (·.name == e.name) = true := List.any_eq_true.mpr ⟨bt, hbtl, by simp [hshape.1, hn]⟩
      simp [this]
  unfold extendSchema at hx
  simp only [] at hx
  have hne : ((typeExtensions live doc).isEmpty && (schemaExtensions doc).isEmpty) = false := by
    cases hh : typeExtensions live doc with
    | nil => rw [hh] at hext; cases hext
    | cons _ _ => rfl
  simp only [hne, Bool.false_eq_true, if_false] at hx
  obtain ⟨_, _, hx⟩ := bind_ok _ _ _ hx
  obtain ⟨checked, hchecked, _⟩ := bind_ok _ _ _ hx
  obtain ⟨r, hr⟩ := mapM_all_ok _ _ _ hchecked bt hbtl
  exact ⟨bt, r, _, _, _, hbt, hext, hr⟩

/-- **an extension of another kind than its target (`extend interface X` for `type X`) ⇒ rejected** -/
theorem build_rejects_ext_wrong_kind (doc : Doc) (add : List TypeD) (t : TypeDef) (ht : t ∈ typeDefs doc)
    (hadd : t.name ∉ add.map (·.name)) (e : TypeDef) (he : e ∈ typeExts doc) (hn : e.name = t.name) (hk : e.kind ≠ t.kind) :
    Rejected doc false add := by
  refine rejected_of_not_ok doc false add fun s hs => hk ?_
  obtain ⟨bt, r, exts, eX, hide, hbt, hmem, hr⟩ := build_ok_extension doc add s hs t ht hadd e he hn
  have hshape := buildTypeDef_shape _ _ _ hbt
  rw [← hshape.2.1]
  exact (extendTypeX_ok_inv _ _ _ _ _ _ hr e hmem (hn.trans hshape.1.symm)).1

/-- **an extension that adds a field the object / interface type already has ⇒ rejected** -/
theorem build_rejects_ext_dup_field (doc : Doc) (add : List TypeD) (t : TypeDef) (ht : t ∈ typeDefs doc)
    (hadd : t.name ∉ add.map (·.name)) (hk : t.kind = .object ∨ t.kind = .interface)
    (e : TypeDef) (he : e ∈ typeExts doc) (hn : e.name = t.name)
    (f : FieldDef) (hf : f ∈ e.fields) (hdup : f.name ∈ t.fields.map (·.name)) : Rejected doc false add := by
  refine rejected_of_not_ok doc false add fun s hs => ?_
  obtain ⟨bt, r, exts, eX, hide, hbt, hmem, hr⟩ := build_ok_extension doc add s hs t ht hadd e he hn
  have hshape := buildTypeDef_shape _ _ _ hbt
  have hs := skel_of_build _ _ _ hbt
  have := (extendTypeX_ok_inv _ _ _ _ _ _ hr e hmem (hn.trans hshape.1.symm)).2.1 (by rw [hshape.2.1]; exact hk) f hf
  rw [hs.fields hk] at this
  exact this hdup

/-- **an extension that adds an input field the input type already has ⇒ rejected** -/
theorem build_rejects_ext_dup_input_field (doc : Doc) (add : List TypeD) (t : TypeDef) (ht : t ∈ typeDefs doc)
    (hadd : t.name ∉ add.map (·.name)) (hk : t.kind = .input)
    (e : TypeDef) (he : e ∈ typeExts doc) (hn : e.name = t.name)
    (f : InputValDef) (hf : f ∈ e.inputFields) (hdup : f.name ∈ t.inputFields.map (·.name)) : Rejected doc false add := by
  refine rejected_of_not_ok doc false add fun s hs => ?_
  obtain ⟨bt, r, exts, eX, hide, hbt, hmem, hr⟩ := build_ok_extension doc add s hs t ht hadd e he hn
  have hshape := buildTypeDef_shape _ _ _ hbt
  have hs := skel_of_build _ _ _ hbt
  have := (extendTypeX_ok_inv _ _ _ _ _ _ hr e hmem (hn.trans hshape.1.symm)).2.2.2.2.2 (by rw [hshape.2.1]; exact hk) f hf
  rw [hs.inputFields hk] at this
  exact this hdup

/-- **an extension that adds an enum value the enum already has ⇒ rejected** -/
theorem build_rejects_ext_dup_enum_value (doc : Doc) (add : List TypeD) (t : TypeDef) (ht : t ∈ typeDefs doc)
    (hadd : t.name ∉ add.map (·.name)) (hk : t.kind = .enum)
    (e : TypeDef) (he : e ∈ typeExts doc) (hn : e.name = t.name)
    (v : EnumValDef) (hv : v ∈ e.values) (hdup : v.name ∈ t.values.map (·.name)) : Rejected doc false add := by
  refine rejected_of_not_ok doc false add fun s hs => ?_
  obtain ⟨bt, r, exts, eX, hide, hbt, hmem, hr⟩ := build_ok_extension doc add s hs t ht hadd e he hn
  have hshape := buildTypeDef_shape _ _ _ hbt
  have hs := skel_of_build _ _ _ hbt
  have := (extendTypeX_ok_inv _ _ _ _ _ _ hr e hmem (hn.trans hshape.1.symm)).2.2.2.2.1 (by rw [hshape.2.1]; exact hk) v hv
  rw [hs.values hk] at this
  exact this hdup

/-- **an extension that adds a union member the union already has ⇒ rejected** -/
theorem build_rejects_ext_dup_union_member (doc : Doc) (add : List TypeD) (t : TypeDef) (ht : t ∈ typeDefs doc)
    (hadd : t.name ∉ add.map (·.name)) (hk : t.kind = .union)
    (e : TypeDef) (he : e ∈ typeExts doc) (hn : e.name = t.name)
    (m : String) (hm : m ∈ e.members) (hdup : m ∈ t.members) : Rejected doc false add := by
  refine rejected_of_not_ok doc false add fun s hs => ?_
  obtain ⟨bt, r, exts, eX, hide, hbt, hmem, hr⟩ := build_ok_extension doc add s hs t ht hadd e he hn
  have hshape := buildTypeDef_shape _ _ _ hbt
  have hs := skel_of_build _ _ _ hbt
  have := (extendTypeX_ok_inv _ _ _ _ _ _ hr e hmem (hn.trans hshape.1.symm)).2.2.2.1 (by rw [hshape.2.1]; exact hk) m hm
  rw [hs.members hk] at this
  exact this hdup

/-- **an extension that adds an interface the object type already implements ⇒ rejected** -/
theorem build_rejects_ext_dup_interface (doc : Doc) (add : List TypeD) (t : TypeDef) (ht : t ∈ typeDefs doc)
    (hadd : t.name ∉ add.map (·.name)) (hk : t.kind = .object)
    (e : TypeDef) (he : e ∈ typeExts doc) (hn : e.name = t.name)
    (i : String) (hi : i ∈ e.interfaces) (hdup : i ∈ t.interfaces) : Rejected doc false add := by
  refine rejected_of_not_ok doc false add fun s hs => ?_
  obtain ⟨bt, r, exts, eX, hide, hbt, hmem, hr⟩ := build_ok_extension doc add s hs t ht hadd e he hn
  have hshape := buildTypeDef_shape _ _ _ hbt
  have hs := skel_of_build _ _ _ hbt
  have := (extendTypeX_ok_inv _ _ _ _ _ _ hr e hmem (hn.trans hshape.1.symm)).2.2.1 (by rw [hshape.2.1]; exact hk) i hi
  rw [hs.interfaces hk] at this
  exact this hdup

/-! ### duplicate members AFTER MERGING: between two extension blocks, or inside one block -/

theorem appendNew_ok_nodup {α} (errE : Err) (name : α → String) : ∀ (xs acc r : List α), appendNew errE name acc xs = .ok r →
    (xs.map name).Nodup := by
  intro xs
  induction xs with
  | nil => intro _ _ _; simp
  | cons x xs ih =>
    intro acc r h
    have hd := appendNew_ok_disjoint errE name (x :: xs) acc r h
    simp only [appendNew] at h
    split at h
    · cases h
    · have hx := appendNew_ok_disjoint errE name xs (acc ++ [x]) r h
      refine List.nodup_cons.mpr ⟨fun hm => ?_, ih _ _ h⟩
      obtain ⟨y, hy, hyn⟩ := List.mem_map.mp hm
      exact hx y hy x (by simp) hyn.symm

/-- the merge loop succeeds only if the members of ALL the blocks together have pairwise different names -/
theorem mergeFold_ok_nodup {α β} (bf : α → R β) (na : α → String) (nb : β → String) (hbf : ∀ x y, bf x = .ok y → nb y = na x)
    (errE : Err) (sel : TypeDef → List α) : ∀ (es : List TypeDef) (init r : List β),
    es.foldlM (fun acc e => do let new ← (sel e).mapM bf; appendNew errE nb acc new) init = .ok r →
    ((es.flatMap sel).map na).Nodup := by
  intro es
  induction es with
  | nil => intro _ _ _; simp
  | cons e es ih =>
    intro init r h
    have hdis := mergeFold_ok_disjoint bf na nb hbf errE sel (e :: es) init r h
    rw [List.foldlM_cons] at h
    obtain ⟨acc1, h1, h2⟩ := bind_ok _ _ _ h
    obtain ⟨new, hnew, happ⟩ := bind_ok _ _ _ h1
    have hnames := mapM_names bf na nb hbf _ _ hnew
    have hn1 := appendNew_ok_nodup errE nb new init acc1 happ
    rw [hnames] at hn1
    have hacc := appendNew_ok errE nb new init acc1 happ
    have hrest := mergeFold_ok_disjoint bf na nb hbf errE sel es acc1 r h2
    rw [List.flatMap_cons, List.map_append]
    refine List.nodup_append.mpr ⟨hn1, ih acc1 r h2, ?_⟩
    intro a ha b hb hab
    subst hab
    obtain ⟨f, hf, hfn⟩ := List.mem_map.mp hb
    obtain ⟨e', he', hfe⟩ := List.mem_flatMap.mp hf
    have : a ∈ new.map nb := by rw [hnames]; exact ha
    obtain ⟨y, hy, hyn⟩ := List.mem_map.mp this
    exact hrest e' he' f hfe y (by rw [hacc]; exact List.mem_append_right _ hy) (hyn.trans hfn.symm)

theorem namesFold_ok_nodup (env : Env) (errE : Err) (sel : TypeDef → List String) : ∀ (es : List TypeDef) (init r : List String),
    es.foldlM (fun acc e => do checkNames env (sel e); appendNew errE id acc (sel e)) init = .ok r →
    (es.flatMap sel).Nodup := by
  intro es
  induction es with
  | nil => intro _ _ _; simp
  | cons e es ih =>
    intro init r h
    rw [List.foldlM_cons] at h
    obtain ⟨acc1, h1, h2⟩ := bind_ok _ _ _ h
    obtain ⟨_, _, happ⟩ := bind_ok _ _ _ h1
    have hn1 := appendNew_ok_nodup errE id (sel e) init acc1 happ
    simp only [List.map_id_fun', id_eq, List.map_id] at hn1
    have hacc := appendNew_ok errE id (sel e) init acc1 happ
    have hrest := namesFold_ok_disjoint env errE sel es acc1 r h2
    rw [List.flatMap_cons]
    refine List.nodup_append.mpr ⟨hn1, ih acc1 r h2, ?_⟩
    intro a ha b hb hab
    subst hab
    obtain ⟨e', he', hfe⟩ := List.mem_flatMap.mp hb
    exact hrest e' he' a hfe (by rw [hacc]; exact List.mem_append_right _ ha)

/-- the extension blocks of `n` among the collected extensions are ALL the extension blocks of `n` in the document, when
    a live type has that name -/
theorem typeExtensions_filter (live : Live) (doc : Doc) (n : String) (h : live.types.any (·.name == n) = true) :
    (typeExtensions live doc).filter (·.name == n) = (typeExts doc).filter (·.name == n) := by
  unfold typeExtensions typeExts
  induction doc with
  | nil => rfl
  | cons d ds ih =>
    cases d <;> simp only [List.filterMap_cons, ih]
    case ext e =>
      by_cases hn : (e.name == n) = true
      · have hen : e.name = n := by simpa using hn
        have : (isDefaultName e.name || live.types.any (·.name == e.name)) = true := by rw [hen, h]; simp
        simp only [this, if_true, List.filter_cons, hn, ih]
      · have hn' : (e.name == n) = false := by simpa using hn
        by_cases hc : (isDefaultName e.name || live.types.any (·.name == e.name)) = true
        · simp only [hc, if_true, List.filter_cons, hn', Bool.false_eq_true, if_false, ih]
        · simp only [hc, if_false, List.filter_cons, hn', Bool.false_eq_true, ih]

/-- the extension blocks of the definition `t`, in document order -/
def blocksOf (doc : Doc) (t : TypeDef) : List TypeDef := (typeExts doc).filter (·.name == t.name)

/-- a successful `build`: the live type of `t` passed the extension step against exactly the blocks `blocksOf doc t` -/
theorem build_ok_extension_blocks (doc : Doc) (add : List TypeD) (s : SchemaD) (h : build doc false add = .ok s)
    (t : TypeDef) (ht : t ∈ typeDefs doc) (hadd : t.name ∉ add.map (·.name)) (hne : blocksOf doc t ≠ []) :
    ∃ bt r exts eX hide, buildTypeDef (Env.of (typeDefs doc) add) t = .ok bt ∧ exts.filter (·.name == bt.name) = blocksOf doc t ∧
      extendTypeX (Env.of (typeDefs doc) add) eX hide exts bt = .ok r := by
  obtain ⟨c, live, hc, hb, hx⟩ := build_ok_inv doc false add s h
  obtain ⟨live', hx⟩ := hx rfl
  obtain ⟨hT, hD⟩ := collect_exact doc c hc
  have hN := (collect_ok_rules doc c hc).2.2.2
  obtain ⟨dirs, built, roots, _, hbuilt, _, hlive⟩ := buildCollected_ok_inv c add _ live hb
  rw [hT] at hbuilt hx
  obtain ⟨o, ho, hbt⟩ := all₂_mem_left _ _ _ (mapM_forall₂ _ _ _ hbuilt) t ht
  unfold buildType at hbt
  have hfa := findAdditional_none (typeDefs doc) add t.name hadd
  simp only [hN t ht, Bool.false_eq_true, if_false, hfa] at hbt
  obtain ⟨bt, hbt', ho'⟩ := bind_ok _ _ _ hbt
  have := ok_inj ho'; subst this
  clear hbt
  have hshape := buildTypeDef_shape _ _ _ hbt'
  have hbtl : bt ∈ live.types := by
    rw [hlive]; exact List.mem_append_left _ (List.mem_filterMap.mpr ⟨some bt, ho, rfl⟩)
  have hany : live.types.any (·.name == t.name) = true := List.any_eq_true.mpr ⟨bt, hbtl, by simp [hshape.1]⟩
  have hfil := typeExtensions_filter live doc t.name hany
  unfold extendSchema at hx
  simp only [] at hx
  have hnonempty : ((typeExtensions live doc).isEmpty && (schemaExtensions doc).isEmpty) = false := by
    cases hh : typeExtensions live doc with
    | nil => rw [hh] at hfil; exact absurd hfil.symm hne
    | cons _ _ => rfl
  simp only [hnonempty, Bool.false_eq_true, if_false] at hx
  obtain ⟨_, _, hx⟩ := bind_ok _ _ _ hx
  obtain ⟨checked, hchecked, _⟩ := bind_ok _ _ _ hx
  obtain ⟨r, hr⟩ := mapM_all_ok _ _ _ hchecked bt hbtl
  exact ⟨bt, r, _, _, _, hbt', by rw [hshape.1]; exact hfil, hr⟩

/-- **two extension blocks of one object / interface type (or one block) that declare the same field name ⇒ rejected** -/
theorem build_rejects_ext_repeated_field (doc : Doc) (add : List TypeD) (t : TypeDef) (ht : t ∈ typeDefs doc)
    (hadd : t.name ∉ add.map (·.name)) (hk : t.kind = .object ∨ t.kind = .interface)
    (hdup : ¬ (((blocksOf doc t).flatMap (·.fields)).map (·.name)).Nodup) : Rejected doc false add := by
  refine rejected_of_not_ok doc false add fun s hs => hdup ?_
  have hne : blocksOf doc t ≠ [] := fun e => hdup (by rw [e]; simp)
  obtain ⟨bt, r, exts, eX, hide, hbt, hfil, hr⟩ := build_ok_extension_blocks doc add s hs t ht hadd hne
  have hshape := buildTypeDef_shape _ _ _ hbt
  unfold extendTypeX at hr
  simp only [] at hr
  obtain ⟨_, _, hr⟩ := bind_ok _ _ _ hr
  rw [hfil] at hr
  rcases hk with hk | hk <;> rw [hshape.2.1, hk] at hr <;> simp only [] at hr
  · obtain ⟨fs, hfs, _⟩ := bind_ok _ _ _ hr
    exact mergeFold_ok_nodup (buildFieldX _ eX hide) (·.name) (·.name) (buildFieldX_name _ eX hide) (.lib .ext) (·.fields) _ _ _ hfs
  · obtain ⟨fs, hfs, _⟩ := bind_ok _ _ _ hr
    exact mergeFold_ok_nodup (buildFieldX _ eX hide) (·.name) (·.name) (buildFieldX_name _ eX hide) (.lib .ext) (·.fields) _ _ _ hfs

/-- **… the same enum value in two extension blocks of one enum ⇒ rejected** -/
theorem build_rejects_ext_repeated_enum_value (doc : Doc) (add : List TypeD) (t : TypeDef) (ht : t ∈ typeDefs doc)
    (hadd : t.name ∉ add.map (·.name)) (hk : t.kind = .enum)
    (hdup : ¬ (((blocksOf doc t).flatMap (·.values)).map (·.name)).Nodup) : Rejected doc false add := by
  refine rejected_of_not_ok doc false add fun s hs => hdup ?_
  have hne : blocksOf doc t ≠ [] := fun e => hdup (by rw [e]; simp)
  obtain ⟨bt, r, exts, eX, hide, hbt, hfil, hr⟩ := build_ok_extension_blocks doc add s hs t ht hadd hne
  have hshape := buildTypeDef_shape _ _ _ hbt
  unfold extendTypeX at hr
  simp only [] at hr
  obtain ⟨_, _, hr⟩ := bind_ok _ _ _ hr
  rw [hfil, hshape.2.1, hk] at hr
  simp only [] at hr
  obtain ⟨fs, hfs, _⟩ := bind_ok _ _ _ hr
  exact mergeFold_ok_nodup buildEnumValue (·.name) (·.name) buildEnumValue_name (.lib .ext) (·.values) _ _ _ hfs

/-- **… the same input field in two extension blocks of one input type ⇒ rejected** -/
theorem build_rejects_ext_repeated_input_field (doc : Doc) (add : List TypeD) (t : TypeDef) (ht : t ∈ typeDefs doc)
    (hadd : t.name ∉ add.map (·.name)) (hk : t.kind = .input)
    (hdup : ¬ (((blocksOf doc t).flatMap (·.inputFields)).map (·.name)).Nodup) : Rejected doc false add := by
  refine rejected_of_not_ok doc false add fun s hs => hdup ?_
  have hne : blocksOf doc t ≠ [] := fun e => hdup (by rw [e]; simp)
  obtain ⟨bt, r, exts, eX, hide, hbt, hfil, hr⟩ := build_ok_extension_blocks doc add s hs t ht hadd hne
  have hshape := buildTypeDef_shape _ _ _ hbt
  unfold extendTypeX at hr
  simp only [] at hr
  obtain ⟨_, _, hr⟩ := bind_ok _ _ _ hr
  rw [hfil, hshape.2.1, hk] at hr
  simp only [] at hr
  obtain ⟨fs, hfs, _⟩ := bind_ok _ _ _ hr
  exact mergeFold_ok_nodup (buildArgumentX _ eX hide) (·.name) (·.name) (buildArgumentX_name _ eX hide) (.lib .ext) (·.inputFields) _ _ _ hfs

/-- **… the same member in two extension blocks of one union ⇒ rejected** -/
theorem build_rejects_ext_repeated_union_member (doc : Doc) (add : List TypeD) (t : TypeDef) (ht : t ∈ typeDefs doc)
    (hadd : t.name ∉ add.map (·.name)) (hk : t.kind = .union)
    (hdup : ¬ ((blocksOf doc t).flatMap (·.members)).Nodup) : Rejected doc false add := by
  refine rejected_of_not_ok doc false add fun s hs => hdup ?_
  have hne : blocksOf doc t ≠ [] := fun e => hdup (by rw [e]; simp)
  obtain ⟨bt, r, exts, eX, hide, hbt, hfil, hr⟩ := build_ok_extension_blocks doc add s hs t ht hadd hne
  have hshape := buildTypeDef_shape _ _ _ hbt
  unfold extendTypeX at hr
  simp only [] at hr
  obtain ⟨_, _, hr⟩ := bind_ok _ _ _ hr
  rw [hfil, hshape.2.1, hk] at hr
  simp only [] at hr
  obtain ⟨fs, hfs, _⟩ := bind_ok _ _ _ hr
  exact namesFold_ok_nodup _ (.lib .ext) (·.members) _ _ _ hfs

/-! ### non-vacuity: each family of hypotheses has an instance (and the real builder agrees: corpus/C11/reject_*.json) -/

def dupTypeDoc : Doc := [.type exQuery, .type exQuery]
example : build dupTypeDoc = .error (.lib .sdl) := build_rejects_dup_type dupTypeDoc false [] (by decide)

def dupDirDoc : Doc := [.type exQuery, .directive { name := "d", locations := ["FIELD"] }, .directive { name := "d", locations := ["QUERY"] }]
example : build dupDirDoc = .error (.lib .sdl) := build_rejects_dup_directive dupDirDoc false [] (by decide)

def twoSchemaDoc : Doc := [.type exQuery, .schema { ops := [("query", "Query")] }, .schema { ops := [("query", "Query")] }]
example : build twoSchemaDoc = .error (.lib .sdl) := build_rejects_second_schema twoSchemaDoc false [] (by decide)

def specifiedNameDoc : Doc := [.type exQuery, .type { kind := .scalar, name := "Int" }]
example : build specifiedNameDoc = .error (.lib .sdl) :=
  build_rejects_specified_name specifiedNameDoc false [] { kind := .scalar, name := "Int" } (List.Mem.tail _ (List.Mem.head _)) (by decide)

def unknownRefType : TypeDef := { kind := .object, name := "Query", fields := [{ name := "a", type := .named "Nope" }] }
def unknownRefDoc : Doc := [.type unknownRefType]
example : Rejected unknownRefDoc false [] :=
  build_rejects_unknown_field_type unknownRefDoc false [] unknownRefType (List.Mem.head _) (by simp) (Or.inl rfl)
    { name := "a", type := .named "Nope" } (List.Mem.head _) (by unfold KnownIn; decide)

def unknownMemberType : TypeDef := { kind := .union, name := "U", members := ["Query", "Nope"] }
def unknownMemberDoc : Doc := [.type exQuery, .type unknownMemberType]
example : Rejected unknownMemberDoc false [] :=
  build_rejects_unknown_union_member unknownMemberDoc false [] unknownMemberType (List.Mem.tail _ (List.Mem.head _)) (by simp) rfl
    "Nope" (by decide) (by unfold KnownIn; decide)

def unknownRootDoc : Doc := [.type exQuery, .schema { ops := [("query", "Nope")] }]
example : Rejected unknownRootDoc false [] :=
  build_rejects_unknown_root unknownRootDoc false [] { ops := [("query", "Nope")] } rfl ("query", "Nope") (List.Mem.head _)
    (by unfold KnownIn; decide)

def wrongKindExt : TypeDef := { kind := .interface, name := "Query", fields := [{ name := "b", type := .named "Int" }] }
def wrongKindDoc : Doc := [.type exQuery, .ext wrongKindExt]
example : Rejected wrongKindDoc false [] :=
  build_rejects_ext_wrong_kind wrongKindDoc [] exQuery (List.Mem.head _) (by simp) wrongKindExt (List.Mem.head _) rfl (by decide)

def dupFieldDoc : Doc := [.type exQuery, .ext exQuery]
example : Rejected dupFieldDoc false [] :=
  build_rejects_ext_dup_field dupFieldDoc [] exQuery (List.Mem.head _) (by simp) (Or.inl rfl) exQuery (List.Mem.head _) rfl
    { name := "a", type := .named "Int" } (List.Mem.head _) (by decide)

def repeatedFieldDoc : Doc := [.type exQuery, .ext exExt, .ext exExt]
example : Rejected repeatedFieldDoc false [] :=
  build_rejects_ext_repeated_field repeatedFieldDoc [] exQuery (List.Mem.head _) (by simp) (Or.inl rfl) (by decide)

/-- the classes the real builder raises on these documents, evaluated by the kernel on the model -/
example : (match build wrongKindDoc with | .error (.lib .ext) => true | _ => false) = true := by decide
example : (match build dupFieldDoc with | .error (.lib .ext) => true | _ => false) = true := by decide
example : (match build unknownRefDoc with | .error (.lib .sdl) => true | _ => false) = true := by decide
example : (match build unknownRootDoc with | .error (.lib .sdl) => true | _ => false) = true := by decide

end PyGql.Props.C11

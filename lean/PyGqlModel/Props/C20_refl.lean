/-
  C20 — `diff_refl`: diffing a schema against a structurally equal one reports nothing.
-/
import PyGqlModel.Diff
import PyGqlModel.Props.C20_diff

set_option linter.unusedSimpArgs false
set_option linter.unusedVariables false

namespace PyGql.Props.C20
open PyGql PyGql.Differ PyGql.Diff PyGql.Generated.Differ

private theorem sub_refl : ∀ t : Ty, sub t t = true := by
  intro t; induction t with
  | named n => simp [sub]
  | list t ih => simpa [sub] using ih
  | nonNull t ih => simpa [sub] using ih

private theorem iter_in' (k : Nat) (o n : Ty) (h : o.size + n.size ≤ k) : (iter k).1 o n = sub o n := by
  have := safeIn_eq_sub o n
  -- re-derive for arbitrary sufficient fuel from the fuel-exact statement by monotonicity of the proof:
  -- we simply redo the induction (same as in C20.lean, which keeps it private)
  clear this
  induction k generalizing o n with
  | zero => have := o.size_pos; omega
  | succ k ih =>
    cases o with
    | named a =>
      cases n <;> simp [iter, safeInStep, Ty.isNamed, Ty.isList, Ty.isNonNull, Ty.name, sub]
    | list a =>
      cases n with
      | list b =>
        simp only [iter, safeInStep, Ty.isNamed, Ty.isList, Ty.isNonNull, Ty.inner, sub]
        simp only [Ty.size] at h
        simp [ih a b (by omega)]
      | _ => simp [iter, safeInStep, Ty.isNamed, Ty.isList, Ty.isNonNull, sub]
    | nonNull a =>
      simp only [Ty.size] at h
      cases n with
      | named b =>
        simp only [iter, safeInStep, Ty.isNamed, Ty.isList, Ty.isNonNull, Ty.inner, sub]
        simp [ih a (.named b) (by simp [Ty.size] at *; omega)]
      | list b =>
        simp only [iter, safeInStep, Ty.isNamed, Ty.isList, Ty.isNonNull, Ty.inner, sub]
        simp [ih a (.list b) (by simp [Ty.size] at *; omega)]
      | nonNull b =>
        simp only [iter, safeInStep, Ty.isNamed, Ty.isList, Ty.isNonNull, Ty.inner, sub]
        simp only [Ty.size] at h
        simp [ih a b (by omega)]

private theorem iter_out_refl (k : Nat) (t : Ty) (h : t.size + t.size ≤ k) : (iter k).2 t t = true := by
  induction k generalizing t with
  | zero => have := t.size_pos; omega
  | succ k ih =>
    cases t with
    | named a => simp [iter, safeOutStep, Ty.isNamed, Ty.isList, Ty.isNonNull, Ty.name]
    | list a =>
      simp only [Ty.size] at h
      simp only [iter, safeOutStep, Ty.isNamed, Ty.isList, Ty.isNonNull, Ty.inner]
      simp [iter_in' k a a (by omega), sub_refl]
    | nonNull a =>
      simp only [Ty.size] at h
      simp only [iter, safeOutStep, Ty.isNamed, Ty.isList, Ty.isNonNull, Ty.inner]
      simp [ih a (by omega)]

/-- the translated predicates are reflexive -/
theorem safeIn_refl (t : Ty) : safeIn t t = true := by rw [safeIn_eq_sub]; exact sub_refl t
theorem safeOut_refl (t : Ty) : safeOut t t = true := iter_out_refl _ t (Nat.le_refl _)

/-- names are unique at every level of a schema description -/
structure UniqSchema (s : SchemaD) : Prop where
  types : Uniq TypeD.name s.types
  directives : Uniq DirectiveD.name s.directives
  dargs : ∀ d ∈ s.directives, Uniq ArgD.name d.args
  fields : ∀ t ∈ s.types, Uniq FieldD.name t.fields
  args : ∀ t ∈ s.types, ∀ f ∈ t.fields, Uniq ArgD.name f.args
  values : ∀ t ∈ s.types, Uniq EnumValD.name t.values
  inputs : ∀ t ∈ s.types, Uniq ArgD.name t.inputFields

private theorem filterMap_nil {α β} (l : List α) (f : α → Option β) (h : ∀ x ∈ l, f x = none) :
    l.filterMap f = [] := by
  induction l with
  | nil => rfl
  | cons a l ih =>
    simp only [List.filterMap_cons, h a (by simp)]
    exact ih (fun x hx => h x (by simp [hx]))

private theorem flatMap_nil {α β} (l : List α) (f : α → List β) (h : ∀ x ∈ l, f x = []) :
    l.flatMap f = [] := by
  induction l with
  | nil => rfl
  | cons a l ih =>
    simp only [List.flatMap_cons, h a (by simp), List.nil_append]
    exact ih (fun x hx => h x (by simp [hx]))

private theorem filter_nil {α} (l : List α) (p : α → Bool) (h : ∀ x ∈ l, p x = false) : l.filter p = [] := by
  induction l with
  | nil => rfl
  | cons a l ih =>
    simp only [List.filter_cons, h a (by simp)]
    exact ih (fun x hx => h x (by simp [hx]))

private theorem map_filter_nil {α β} (l : List α) (p : α → Bool) (g : α → β) (h : ∀ x ∈ l, p x = false) :
    (l.filter p).map g = [] := by rw [filter_nil l p h]; rfl

private theorem find_isSome_of_uniq {α} (name : α → String) (l : List α) (h : Uniq name l) (x : α) (hx : x ∈ l) :
    (l.find? (fun y => name y == name x)).isNone = false := by
  rw [h x hx]; rfl

private theorem find_in_filter {α} (l : List α) (p q : α → Bool) (x : α)
    (h : l.find? p = some x) (hq : q x = true) : (l.filter q).find? p = some x := by
  induction l with
  | nil => simp at h
  | cons a l ih =>
    simp only [List.find?_cons] at h
    by_cases hqa : q a = true
    · simp only [List.filter_cons, hqa, if_true, List.find?_cons]
      cases hp : p a with
      | true => simp [hp] at h; simp [h]
      | false => simp [hp] at h; exact ih h
    · have hqa' : q a = false := by simpa using hqa
      simp only [List.filter_cons, hqa']
      cases hp : p a with
      | true => simp [hp] at h; subst h; simp [hq] at hqa'
      | false => simp [hp] at h; exact ih h

private theorem defaultChanged_self (a : ArgD) : defaultChanged a a = false := by
  unfold defaultChanged
  cases a.hasDefault <;> simp

theorem compatRetype_self (cls : String) (k : List (String × String)) (t : Ty) : compatRetype cls k t t = [] := by
  unfold compatRetype
  split <;> simp

private theorem compatRetypes_self (cls : String) (key : ArgD → ArgD → List (String × String)) (l : List ArgD)
    (h : Uniq ArgD.name l) : compatRetypes cls key l l = [] := by
  unfold compatRetypes
  apply flatMap_nil
  intro a ha
  rw [h a ha]
  simp [compatRetype_self]

private theorem diffFieldArguments_self (p : String) (f : FieldD) (h : Uniq ArgD.name f.args) :
    diffFieldArguments p f f = [] := by
  unfold diffFieldArguments
  rw [filterMap_nil, map_filter_nil, compatRetypes_self _ _ _ h]
  · rfl
  · intro a ha; exact find_isSome_of_uniq ArgD.name f.args h a ha
  · intro a ha; rw [h a ha]; simp [safeIn_refl, defaultChanged_self]

private theorem diffField_self (p : String) (f : FieldD) (h : Uniq ArgD.name f.args) : diffField p f f = [] := by
  unfold diffField
  rw [diffFieldArguments_self p f h]
  simp [safeOut_refl, compatRetype_self]
  cases hd : f.deprecated <;> simp [hd]

private theorem diffFields_self (t : TypeD) (hf : Uniq FieldD.name t.fields)
    (ha : ∀ f ∈ t.fields, Uniq ArgD.name f.args) : diffFields t t = [] := by
  unfold diffFields
  rw [flatMap_nil, map_filter_nil]
  · rfl
  · intro f hfm; exact find_isSome_of_uniq FieldD.name t.fields hf f hfm
  · intro f hfm; rw [hf f hfm]; exact diffField_self t.name f (ha f hfm)

private theorem matchingPairs_self (s : SchemaD) (k : Kind) (h : Uniq TypeD.name s.types) :
    ∀ p ∈ matchingPairs s s k, p.1 = p.2 ∧ p.1 ∈ s.types := by
  intro p hp
  unfold matchingPairs at hp
  obtain ⟨t, ht, hpt⟩ := List.mem_filterMap.mp hp
  have htm := (List.mem_filter.mp ht).1
  have htk := (List.mem_filter.mp ht).2
  have := find_in_filter s.types (fun y => y.name == t.name) (fun y => y.kind == k) t (h t htm) htk
  rw [this] at hpt
  simp at hpt; subst hpt
  exact ⟨rfl, htm⟩

/-- **Reflexivity**: a schema (with unique names at every level, which `Schema` objects have by
    construction: they are dictionaries keyed by name) diffed against a structurally equal one
    reports nothing, at every severity filter. -/
theorem diff_refl (s : SchemaD) (u : UniqSchema s) (m : Nat) : diffSchema s s m = [] := by
  have h1 : findRemovedTypes s s = [] := by
    unfold findRemovedTypes
    apply map_filter_nil
    intro t ht
    have := u.types t ht
    simp [SchemaD.findType, this]
  have h2 : findAddedTypes s s = [] := by
    unfold findAddedTypes
    apply map_filter_nil
    intro t ht
    have := u.types t ht
    simp [SchemaD.findType, this]
  have h3 : diffDirectives s s = [] := by
    unfold diffDirectives
    rw [flatMap_nil, map_filter_nil]
    · rfl
    · intro d hd; exact find_isSome_of_uniq DirectiveD.name s.directives u.directives d hd
    · intro d hd
      rw [u.directives d hd]
      have hargs : diffDirectiveArguments d d = [] := by
        unfold diffDirectiveArguments
        rw [filterMap_nil, map_filter_nil, compatRetypes_self _ _ _ (u.dargs d hd)]
        · rfl
        · intro a ha; exact find_isSome_of_uniq ArgD.name d.args (u.dargs d hd) a ha
        · intro a ha; rw [u.dargs d hd a ha]; simp [safeIn_refl, defaultChanged_self]
      simp only [hargs, List.append_nil]
      rw [map_filter_nil, map_filter_nil]
      · rfl
      · intro l hl; simp [hl]
      · intro l hl; simp [hl]
  have h4 : findChangedTypes s s = [] := by
    unfold findChangedTypes
    apply filterMap_nil
    intro t ht
    have := u.types t ht
    simp [SchemaD.findType, this]
  have h5 : diffUnionTypes s s = [] := by
    unfold diffUnionTypes
    apply flatMap_nil
    intro p hp
    obtain ⟨he, _⟩ := matchingPairs_self s .union u.types p hp
    obtain ⟨a, b⟩ := p
    simp at he; subst he
    simp only
    rw [map_filter_nil, map_filter_nil]
    · rfl
    · intro x hx; simp [hx]
    · intro x hx; simp [hx]
  have h6 : diffEnumTypes s s = [] := by
    unfold diffEnumTypes
    apply flatMap_nil
    intro p hp
    obtain ⟨he, hm⟩ := matchingPairs_self s .enum u.types p hp
    obtain ⟨a, b⟩ := p
    simp at he; subst he
    simp only
    rw [filterMap_nil, map_filter_nil]
    · rfl
    · intro v hv; exact find_isSome_of_uniq EnumValD.name a.values (u.values a hm) v hv
    · intro v hv
      rw [u.values a hm v hv]
      cases hd : v.deprecated <;> simp [hd]
  have h7 : diffObjectTypes s s = [] := by
    unfold diffObjectTypes
    apply flatMap_nil
    intro p hp
    obtain ⟨he, hm⟩ := matchingPairs_self s .object u.types p hp
    obtain ⟨a, b⟩ := p
    simp at he; subst he
    simp only
    rw [diffFields_self a (u.fields a hm) (u.args a hm), map_filter_nil, map_filter_nil]
    · rfl
    · intro x hx; simp [hx]
    · intro x hx; simp [hx]
  have h8 : diffInterfaceTypes s s = [] := by
    unfold diffInterfaceTypes
    apply flatMap_nil
    intro p hp
    obtain ⟨he, hm⟩ := matchingPairs_self s .interface u.types p hp
    obtain ⟨a, b⟩ := p
    simp at he; subst he
    exact diffFields_self a (u.fields a hm) (u.args a hm)
  have h9 : diffInputTypes s s = [] := by
    unfold diffInputTypes
    apply flatMap_nil
    intro p hp
    obtain ⟨he, hm⟩ := matchingPairs_self s .input u.types p hp
    obtain ⟨a, b⟩ := p
    simp at he; subst he
    simp only
    rw [filterMap_nil, map_filter_nil, compatRetypes_self _ _ _ (u.inputs a hm)]
    · rfl
    · intro f hf; exact find_isSome_of_uniq ArgD.name a.inputFields (u.inputs a hm) f hf
    · intro f hf; rw [u.inputs a hm f hf]; simp [safeIn_refl, defaultChanged_self]
  have h0 : diffRootTypes s s = [] := by
    unfold diffRootTypes
    cases s.query <;> cases s.mutation <;> cases s.subscription <;> simp
  unfold diffSchema
  simp [h0, h1, h2, h3, h4, h5, h6, h7, h8, h9]


/-! non-vacuity: a concrete schema satisfies `UniqSchema` -/
private def sEx : SchemaD :=
  { types := [{ kind := .object, name := "Query",
                fields := [{ name := "a", type := .nonNull (.named "Int"),
                             args := [{ name := "x", type := .named "Int" }, { name := "y", type := .named "E" }] },
                           { name := "b", type := .list (.named "E") }] },
              { kind := .enum, name := "E", values := [{ name := "A" }, { name := "B", deprecated := some "old" }] }],
    directives := [{ name := "d", locations := ["FIELD"], args := [{ name := "x", type := .named "Int" }] }] }

example : UniqSchema sEx := by
  constructor <;> simp [Uniq, sEx]

end PyGql.Props.C20

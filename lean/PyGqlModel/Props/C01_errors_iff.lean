/-
  C01, error clause — THE EXACT CLASS of texts for which a position beyond the end of the text is reported (ledger L6).

  `Props/C01_errors_exact.lean` bounds the class from above (`EndsInEscape`: the last characters are `\` or `\u` + at most
  three hex digits — an over-approximation: `a\` ends like that, but is rejected at position 1).  Here the class is pinned
  down exactly, on the TEXT, with the lexical specification only:

      OpenEscape s   ⇔   s = (complete tokens and ignored runs) `"` (complete string characters) (truncated escape)

  `open_escape_error`                 OpenEscape s → the lexer raises NonTerminatedString at len + 1
  `error_position_iff_open_escape`    a lexer error is at len + 1  ⇔  OpenEscape s
  `error_in_range_iff`                a lexer error is within the text  ⇔  ¬ OpenEscape s
  `parse_text_error_in_range_iff`     the same for `parse`, `parse_value`, `parse_type` (lexer and parser errors, all flags)
  `openEscape_endsInEscape`           the exact class is inside the earlier over-approximation, strictly (`a\`)
-/
import PyGqlModel.Props.C01_errors_exact
import PyGqlModel.Lemmas.LexOpenEscape
import PyGqlModel.Lemmas.LexWrap
namespace PyGql.Props.C01
open PyGql PyGql.Parse PyGql.Ast PyGql.Lex
open PyGql.Spec.Lexical (IgnRun Lexeme Follow StrChars TruncatedEscape TiledBefore OpenEscape)

/-- one call of `__next__` at an open string with a truncated escape -/
private theorem next_open (n : Nat) (ign body tail : Text) (hrun : IgnRun (34 :: (body ++ tail)) ign)
    (hb : StrChars body) (ht : TruncatedEscape tail) :
    next n (ign ++ 34 :: (body ++ tail)) = .error ⟨.nonTerminatedString, n + 1⟩ := by
  have hi : Lex.isIgnored 34 = false := by decide
  have hX : tokenStart (34 :: (body ++ tail)) := by simp [tokenStart, Spec.Lexical.startsWith, hi]
  have hp : Lex.isPrintable 34 = true := by decide
  have hs : symbolKind 34 = none := by decide
  have htq : ¬ (tq <+: 34 :: (body ++ tail)) := by
    rw [← List.isPrefixOf_iff_prefix, Bool.not_eq_true]
    cases hb with
    | nil =>
      rcases ht with rfl | ⟨hs', rfl, _, _⟩ <;> simp [tq, List.isPrefixOf]
    | char c t _ h34 _ _ _ => simp [tq, List.isPrefixOf, Ne.symm h34]
    | esc e t _ _ => simp [tq, List.isPrefixOf]
    | uni a b c d t _ _ => simp [tq, List.isPrefixOf]
  have hbody := readStringBody_open n body.length body (Nat.le_refl _) hb tail ht
  unfold next
  rw [row_complete _ _ hrun hX]
  simp [hp, hs, htq, readString, hbody, Except.map]

private theorem lexLoop_open (n : Nat) (body tail : Text) (hb : StrChars body) (ht : TruncatedEscape tail) :
    ∀ pre, TiledBefore (34 :: (body ++ tail)) pre → ∀ fuel, (pre ++ 34 :: (body ++ tail)).length < fuel →
      lexLoop n fuel (pre ++ 34 :: (body ++ tail)) = .error ⟨.nonTerminatedString, n + 1⟩ := by
  intro pre hpre
  induction hpre with
  | done ign hrun =>
    intro fuel hf
    cases fuel with
    | zero => omega
    | succ f => simp [lexLoop, next_open n ign body tail hrun hb ht]
  | tok ign lex rest k v hrun hl hfo _ ih =>
    intro fuel hf
    cases fuel with
    | zero => omega
    | succ f =>
      have hnext := next_complete n ign lex (rest ++ 34 :: (body ++ tail)) v k
        (by rw [← List.append_assoc]; exact hrun) hl hfo
      have hne := hl.ne_nil
      have hlen : (rest ++ 34 :: (body ++ tail)).length < f := by
        cases lex with
        | nil => exact absurd rfl hne
        | cons x xs => simp at hf ⊢; omega
      have e : ign ++ (lex ++ rest) ++ 34 :: (body ++ tail) = ign ++ (lex ++ (rest ++ 34 :: (body ++ tail))) := by simp
      rw [e]
      simp [lexLoop, hnext, ih f hlen]

/-- (⇐) a text that ends inside an open quoted string with a truncated escape is rejected with `NonTerminatedString`
    at `len(text) + 1` — one past the end of the submitted text (the value pinned by tests/test_lang/test_lexer.py). -/
theorem open_escape_error (s : Text) (h : OpenEscape s) :
    lexAll s = .error ⟨.nonTerminatedString, s.length + 1⟩ := by
  obtain ⟨pre, body, tail, rfl, hpre, hb, ht⟩ := h
  unfold lexAll
  rw [lexLoop_open _ body tail hb ht pre hpre _ (Nat.lt_succ_self _)]

/-- one call of `__next__` reporting one past the end: the unread text is an ignored run, a quote, complete string
    characters and a truncated escape -/
private theorem next_beyond (n : Nat) (s : Text) (e : Lex.SynErr) (h : next n s = .error e) (hpos : e.pos = n + 1) :
    ∃ ign body tail, s = ign ++ 34 :: (body ++ tail) ∧ IgnRun (34 :: (body ++ tail)) ign ∧ StrChars body ∧
      TruncatedEscape tail := by
  obtain ⟨ign, hs, hrun, _⟩ := readOverWhitespace_sound false s
  have hrun := hrun rfl
  have strict : ∀ {r : R (Tok × Text)}, SBounded n r → r = .error e → False := by
    intro r hb he
    have := hb e he
    omega
  unfold next at h
  split at h
  · cases h
  · rename_i c t hw
    rw [hw] at hs hrun
    simp only at h
    split at h
    · cases h; simp only [posAt] at hpos; omega
    · split at h
      · cases h
      · split at h
        · exact (strict (readEllipsis_strict n _) (map_error h)).elim
        · split at h
          · exact (strict (readBlockString_strict n _) (map_error h)).elim
          · split at h
            · rename_i h34
              have h34' : c = 34 := by simpa using h34
              subst h34'
              have h' := map_error h
              unfold readString at h'
              split at h'
              · rename_i e' hb
                cases h'
                simp only [List.drop_succ_cons, List.drop_zero] at hb
                obtain ⟨body, tail, rfl, hbd, htl⟩ := readStringBody_beyond n t e hb hpos
                exact ⟨ign, body, tail, hs, hrun, hbd, htl⟩
              · cases h'
            · split at h
              · exact (strict (readNumber_strict n _) (map_error h)).elim
              · split at h
                · cases h
                · cases h; simp only [posAt] at hpos; omega

private theorem lexLoop_beyond (n : Nat) : ∀ (fuel : Nat) (s : Text) (e : Lex.SynErr), lexLoop n fuel s = .error e →
    e.pos = n + 1 → OpenEscape s
  | 0, s, e, h, hpos => by simp only [lexLoop] at h; cases h; simp at hpos
  | fuel + 1, s, e, h, hpos => by
    simp only [lexLoop] at h
    split at h
    · rename_i e' h'
      cases h
      obtain ⟨ign, body, tail, rfl, hrun, hb, ht⟩ := next_beyond n s _ h' hpos
      exact ⟨ign, body, tail, rfl, .done ign hrun, hb, ht⟩
    · cases h
    · rename_i tok rest hn
      split at h
      · cases h
      · rename_i e' h'
        cases h
        obtain ⟨ign, lex, hs, hrun, hl, hfo, _⟩ := next_sound n s rest tok hn
        obtain ⟨pre, body, tail, rfl, hpre, hb, ht⟩ := lexLoop_beyond n fuel rest _ h' hpos
        refine ⟨ign ++ (lex ++ pre), body, tail, by rw [hs]; simp, ?_, hb, ht⟩
        exact .tok ign lex pre tok.kind tok.value (by rw [List.append_assoc]; exact hrun) hl hfo hpre

/-- **THE EXACT IFF** (L6): the lexer reports a position one past the end of the text EXACTLY WHEN the text ends inside
    an open quoted string with a truncated escape sequence. -/
theorem error_position_iff_open_escape (s : Text) (e : Lex.SynErr) (h : lexAll s = .error e) :
    e.pos = s.length + 1 ↔ OpenEscape s := by
  constructor
  · intro hpos
    unfold lexAll at h
    split at h
    · cases h
    · rename_i e' h'; cases h; exact lexLoop_beyond _ _ _ _ h' hpos
  · intro ho
    rw [open_escape_error s ho] at h
    cases h; rfl

/-- … equivalently: a lexer error lies within the submitted text exactly when the text is NOT of that class. Together with
    `error_in_range_partial` this closes the error clause of the property for the lexer: `ErrorInRangeStatement`
    restricted to the complement of `OpenEscape` is proved, and on `OpenEscape` it is refuted for every member. -/
theorem error_in_range_iff (s : Text) (e : Lex.SynErr) (h : lexAll s = .error e) : e.pos ≤ s.length ↔ ¬ OpenEscape s := by
  rw [← error_position_iff_open_escape s e h]
  rcases error_in_range_partial s e h with h' | ⟨h', _⟩ <;> omega

/-- the composed pipeline (`parse`, `parse_value`, `parse_type`; lexer and parser errors; all flags) -/
theorem parse_text_error_in_range_iff (fl : Flags) (s : Text) (e : TextErr)
    (h : parseTextE fl s = .error e ∨ parseValueTextE fl s = .error e ∨ parseTypeTextE fl s = .error e) :
    e.pos ≤ s.length ↔ ¬ OpenEscape s := by
  constructor
  · intro hle ho
    have hl := open_escape_error s ho
    have : e = .lex ⟨.nonTerminatedString, s.length + 1⟩ := by
      rcases h with h | h | h <;>
        (simp only [parseTextE, parseValueTextE, parseTypeTextE, withLexer, hl] at h
         cases h; rfl)
    subst this
    simp only [TextErr.pos] at hle
    omega
  · intro hno
    rcases parse_text_error_in_range_partial fl s e h with h' | ⟨le, rfl, hp, _⟩
    · exact h'
    · have hl : Lex.lexAll s = .error le := by
        rcases h with h | h | h <;>
          (simp only [parseTextE, parseValueTextE, parseTypeTextE, withLexer] at h
           split at h
           · split at h <;> cases h
           · rename_i e' hl; cases h; exact hl)
      exact absurd ((error_position_iff_open_escape s le hl).1 hp) hno

/-- the exact class lies inside the over-approximation of `Props/C01_errors_exact.lean` … -/
theorem openEscape_endsInEscape (s : Text) (h : OpenEscape s) : EndsInEscape s := by
  obtain ⟨pre, body, tail, rfl, _, _, ht⟩ := h
  rcases ht with rfl | ⟨hs, rfl, hl, hh⟩
  · exact ⟨pre ++ 34 :: body, [], by simp, .inl rfl⟩
  · exact ⟨pre ++ 34 :: body, 117 :: hs, by simp, .inr ⟨hs, rfl, hl, by rw [all_isHex_spec]; exact hh⟩⟩

/-- … strictly: `a\` ends in a truncated escape but not inside a string; it is rejected at position 1 (`\` is no token) -/
theorem endsInEscape_not_openEscape : EndsInEscape [97, 92] ∧ ¬ OpenEscape [97, 92] := by
  refine ⟨⟨[97], [], rfl, .inl rfl⟩, ?_⟩
  have h : lexAll [97, 92] = .error ⟨.unexpectedCharacter, 1⟩ := by rfl
  exact (error_in_range_iff _ _ h).1 (by decide)

/-! ### non-vacuity: members and non-members of the class -/

/-- `"\` — the refutation witness of `error_in_range_refuted` -/
example : OpenEscape [34, 92] := ⟨[], [], [92], rfl, .done [] .nil, .nil, .inl rfl⟩
/-- `{a(s:"x\n\u12` — tokens, then an open string with complete characters and a truncated `\u` escape -/
example : lexAll [123, 97, 40, 115, 58, 34, 120, 92, 110, 92, 117, 49, 50] = .error ⟨.nonTerminatedString, 14⟩ := by rfl
example : OpenEscape [123, 97, 40, 115, 58, 34, 120, 92, 110, 92, 117, 49, 50] :=
  (error_position_iff_open_escape _ _ (show lexAll [123, 97, 40, 115, 58, 34, 120, 92, 110, 92, 117, 49, 50] = .error ⟨.nonTerminatedString, 14⟩ by rfl)).1 rfl
/-- `"""\` is a block string: not of the class, reported at the end of the text -/
example : lexAll [34, 34, 34, 92] = .error ⟨.nonTerminatedString, 4⟩ := by rfl
example : ¬ OpenEscape [34, 34, 34, 92] :=
  (error_in_range_iff _ _ (show lexAll [34, 34, 34, 92] = .error ⟨.nonTerminatedString, 4⟩ by rfl)).1 (by decide)
/-- `"a" \` — the string is closed: `\` is an unexpected character at position 4 -/
example : ¬ OpenEscape [34, 97, 34, 32, 92] :=
  (error_in_range_iff _ _ (show lexAll [34, 97, 34, 32, 92] = .error ⟨.unexpectedCharacter, 4⟩ by rfl)).1 (by decide)

end PyGql.Props.C01

/-
  C16 — finding N7 on the event-queue model, for EVERY number of children and every arrival point of the cancellation
  (`Props/C16_cancel.lean` has n ≤ 4 by `decide`).
-/
import PyGqlModel.AsyncCancel

set_option linter.unusedVariables false
set_option linter.unusedSimpArgs false

namespace PyGql.Props.C16
open PyGql.AsyncCancel

private theorem getElem?_mid {α : Type} (l₁ l₂ : List α) (a : α) : (l₁ ++ a :: l₂)[l₁.length]? = some a := by
  induction l₁ with
  | nil => rfl
  | cons x r ih => simpa using ih

private theorem set_mid {α : Type} (l₁ l₂ : List α) (a b : α) : (l₁ ++ a :: l₂).set l₁.length b = l₁ ++ b :: l₂ := by
  induction l₁ with
  | nil => rfl
  | cons x r ih => simp [List.set, ih]

private theorem snoc_app {α : Type} (pre : List α) (a : α) (rest : List α) : pre ++ a :: rest = (pre ++ [a]) ++ rest := by simp

/-- first steps on children that are `unstarted` (→ entered) -/
private theorem firsts_unstarted : ∀ (m : Nat) (pre tail : List CState) (q : List Act),
    runLoop m ⟨pre ++ (List.replicate m .unstarted ++ tail), (List.range' pre.length m).map .first ++ q⟩
      = ⟨pre ++ (List.replicate m .entered ++ tail), q⟩
  | 0, pre, tail, q => by simp [runLoop]
  | m + 1, pre, tail, q => by
    have ih := firsts_unstarted m (pre ++ [.entered]) tail q
    simp only [List.replicate_succ, List.range'_succ, List.map_cons, List.cons_append, runLoop, exec, getElem?_mid, set_mid]
    rw [snoc_app pre .entered]
    simpa using ih

/-- first steps on children that are `doomed` (→ dead) -/
private theorem firsts_doomed : ∀ (m : Nat) (pre tail : List CState) (q : List Act),
    runLoop m ⟨pre ++ (List.replicate m .doomed ++ tail), (List.range' pre.length m).map .first ++ q⟩
      = ⟨pre ++ (List.replicate m .dead ++ tail), q⟩
  | 0, pre, tail, q => by simp [runLoop]
  | m + 1, pre, tail, q => by
    have ih := firsts_doomed m (pre ++ [.dead]) tail q
    simp only [List.replicate_succ, List.range'_succ, List.map_cons, List.cons_append, runLoop, exec, getElem?_mid, set_mid]
    rw [snoc_app pre .dead]
    simpa using ih

/-- wake-ups on children that are `entered` (→ ended) -/
private theorem wakes_entered : ∀ (m : Nat) (pre tail : List CState) (q : List Act),
    runLoop m ⟨pre ++ (List.replicate m .entered ++ tail), (List.range' pre.length m).map .wake ++ q⟩
      = ⟨pre ++ (List.replicate m .ended ++ tail), q⟩
  | 0, pre, tail, q => by simp [runLoop]
  | m + 1, pre, tail, q => by
    have ih := wakes_entered m (pre ++ [.ended]) tail q
    simp only [List.replicate_succ, List.range'_succ, List.map_cons, List.cons_append, runLoop, exec, getElem?_mid, set_mid]
    rw [snoc_app pre .ended]
    simpa using ih

/-- `Task.cancel()` over a stretch of `entered` children: a wake-up each, states unchanged -/
private theorem cancel_entered : ∀ (m : Nat) (pre tail : List CState) (q : List Act),
    (List.range' pre.length m).foldl cancelChild ⟨pre ++ (List.replicate m .entered ++ tail), q⟩
      = ⟨pre ++ (List.replicate m .entered ++ tail), q ++ (List.range' pre.length m).map .wake⟩
  | 0, pre, tail, q => by simp
  | m + 1, pre, tail, q => by
    have ih := cancel_entered m (pre ++ [.entered]) tail (q ++ [.wake pre.length])
    simp only [List.replicate_succ, List.range'_succ, List.foldl_cons, List.cons_append, cancelChild, getElem?_mid, List.map_cons]
    rw [snoc_app pre .entered]
    simpa using ih

/-- over a stretch of `unstarted` children: doomed, nothing queued -/
private theorem cancel_unstarted : ∀ (m : Nat) (pre tail : List CState) (q : List Act),
    (List.range' pre.length m).foldl cancelChild ⟨pre ++ (List.replicate m .unstarted ++ tail), q⟩
      = ⟨pre ++ (List.replicate m .doomed ++ tail), q⟩
  | 0, pre, tail, q => by simp
  | m + 1, pre, tail, q => by
    have ih := cancel_unstarted m (pre ++ [.doomed]) tail q
    simp only [List.replicate_succ, List.range'_succ, List.foldl_cons, List.cons_append, cancelChild, getElem?_mid, set_mid]
    rw [snoc_app pre .doomed]
    simpa using ih

/-- over children that are already over (`ended` / `dead`): nothing happens -/
private theorem cancel_over (x : CState) (hx : x = .ended ∨ x = .dead) : ∀ (m : Nat) (pre tail : List CState) (q : List Act),
    (List.range' pre.length m).foldl cancelChild ⟨pre ++ (List.replicate m x ++ tail), q⟩
      = ⟨pre ++ (List.replicate m x ++ tail), q⟩
  | 0, pre, tail, q => by simp
  | m + 1, pre, tail, q => by
    have ih := cancel_over x hx m (pre ++ [x]) tail q
    have hc : cancelChild ⟨pre ++ x :: (List.replicate m x ++ tail), q⟩ pre.length = ⟨pre ++ x :: (List.replicate m x ++ tail), q⟩ := by
      rcases hx with rfl | rfl <;> simp [cancelChild, getElem?_mid]
    simp only [List.replicate_succ, List.range'_succ, List.foldl_cons, List.cons_append, hc]
    rw [snoc_app pre x]
    simpa using ih


private theorem runLoop_empty : ∀ (f : Nat) (cs : List CState), runLoop f ⟨cs, []⟩ = ⟨cs, []⟩
  | 0, cs => rfl
  | f + 1, cs => rfl

private theorem runLoop_add : ∀ (a b : Nat) (s : St), runLoop (a + b) s = runLoop b (runLoop a s)
  | 0, b, s => by simp [runLoop]
  | a + 1, b, s => by
    obtain ⟨cs, q⟩ := s
    cases q with
    | nil =>
      have : a + 1 + b = (a + b) + 1 := by omega
      rw [this]; simp only [runLoop]
      cases b <;> rfl
    | cons x rest =>
      have : a + 1 + b = (a + b) + 1 := by omega
      rw [this]; simp only [runLoop]
      exact runLoop_add a b _

private theorem range'_split (a m r : Nat) : List.range' a (m + r) = List.range' a m ++ List.range' (a + m) r := by
  induction m generalizing a with
  | zero => simp
  | succ m ih =>
    have : m + 1 + r = (m + r) + 1 := by omega
    rw [this, List.range'_succ, List.range'_succ, ih (a + 1)]
    simp [Nat.add_assoc, Nat.add_comm 1 m]

/-- the state when the root's cancellation arrives: `k` children entered, `r` still unstarted, their first steps queued -/
private theorem after_k (k r : Nat) :
    runLoop k (init (k + r)) = ⟨List.replicate k .entered ++ List.replicate r .unstarted, (List.range' k r).map .first⟩ := by
  have h := firsts_unstarted k [] (List.replicate r .unstarted) ((List.range' k r).map .first)
  simp only [List.nil_append, List.length_nil] at h
  rw [← h]
  simp [init, List.range_eq_range', range'_split 0 k r, ← List.replicate_append_replicate]

private theorem cancelAll_mixed (k r : Nat) (q : List Act) :
    cancelAll ⟨List.replicate k .entered ++ List.replicate r .unstarted, q⟩
      = ⟨List.replicate k .entered ++ List.replicate r .doomed, q ++ (List.range' 0 k).map .wake⟩ := by
  have h1 := cancel_entered k [] (List.replicate r .unstarted) q
  have h2 := cancel_unstarted r (List.replicate k .entered) [] (q ++ (List.range' 0 k).map .wake)
  simp only [List.nil_append, List.length_nil, List.append_nil, List.length_replicate] at h1 h2
  simp only [cancelAll, List.length_append, List.length_replicate, List.range_eq_range', range'_split 0 k r, List.foldl_append,
    Nat.zero_add, h1, h2]

private theorem cancelAll_entered (n : Nat) (q : List Act) :
    cancelAll ⟨List.replicate n .entered, q⟩ = ⟨List.replicate n .entered, q ++ (List.range' 0 n).map .wake⟩ := by
  have h1 := cancel_entered n [] [] q
  simp only [List.nil_append, List.length_nil, List.append_nil] at h1
  simp only [cancelAll, List.length_replicate, List.range_eq_range', h1]

private theorem cancelAll_over (k r : Nat) (q : List Act) :
    cancelAll ⟨List.replicate k .ended ++ List.replicate r .dead, q⟩ = ⟨List.replicate k .ended ++ List.replicate r .dead, q⟩ := by
  have h1 := cancel_over .ended (Or.inl rfl) k [] (List.replicate r .dead) q
  have h2 := cancel_over .dead (Or.inr rfl) r (List.replicate k .ended) [] q
  simp only [List.nil_append, List.length_nil, List.append_nil, List.length_replicate] at h1 h2
  simp only [cancelAll, List.length_append, List.length_replicate, List.range_eq_range', range'_split 0 k r, List.foldl_append,
    Nat.zero_add, h1, h2]

/-- **shielded_gather_ends_every_started_field.** With the shielded gather (proposed_fixes/C16-N7.patch): for EVERY number
    of children and EVERY arrival point of the cancellation, every child ends with its end hook fired. -/
theorem shielded_gather_ends_every_started_field (k r : Nat) :
    scenario true (k + r) k = List.replicate (k + r) .ended := by
  unfold scenario
  simp only [after_k, rootCancelFixed, if_true]
  have hfuel : 3 * (k + r) + 3 = r + (1 + ((k + r) + (2 * k + r + 2))) := by omega
  rw [hfuel, runLoop_add]
  have h1 := firsts_unstarted r (List.replicate k .entered) [] [.parent]
  simp only [List.length_replicate, List.append_nil] at h1
  rw [h1, runLoop_add]
  have h2 : runLoop 1 ⟨List.replicate k .entered ++ List.replicate r .entered, [.parent]⟩
      = ⟨List.replicate (k + r) .entered, (List.range' 0 (k + r)).map .wake⟩ := by
    simp only [runLoop, exec, List.replicate_append_replicate, cancelAll_entered, List.nil_append]
  rw [h2, runLoop_add]
  have h3 := wakes_entered (k + r) [] [] []
  simp only [List.nil_append, List.length_nil, List.append_nil] at h3
  rw [h3, runLoop_empty]

/-- **forwarded_cancel_kills_unstarted_children.** Today's `gather_values`: for EVERY `k` children already entered and `r`
    children whose first step is still queued when the cancellation arrives, the `k` get their end hook and the `r` never
    do (their `on_field_start` has fired). -/
theorem forwarded_cancel_kills_unstarted_children (k r : Nat) :
    scenario false (k + r) k = List.replicate k .ended ++ List.replicate r .dead := by
  unfold scenario
  simp only [after_k, rootCancelToday, cancelAll_mixed, Bool.false_eq_true, if_false]
  have hfuel : 3 * (k + r) + 3 = r + (k + (1 + (2 * k + 2 * r + 2))) := by omega
  rw [hfuel, runLoop_add]
  have h1 := firsts_doomed r (List.replicate k .entered) [] ((List.range' 0 k).map .wake ++ [.parent])
  simp only [List.length_replicate, List.append_nil, List.append_assoc] at h1 ⊢
  rw [h1, runLoop_add]
  have h2 := wakes_entered k [] (List.replicate r .dead) [.parent]
  simp only [List.nil_append, List.length_nil] at h2
  rw [h2, runLoop_add]
  have h3 : runLoop 1 ⟨List.replicate k .ended ++ List.replicate r .dead, [.parent]⟩
      = ⟨List.replicate k .ended ++ List.replicate r .dead, []⟩ := by
    simp only [runLoop, exec, cancelAll_over]
  rw [h3, runLoop_empty]

/-- corollary: the number of started fields without end hook is exactly the number of children that had not run their
    first step — zero only if the cancellation arrives after every first step -/
theorem forwarded_cancel_lost_count (k r : Nat) : lost (scenario false (k + r) k) = r := by
  rw [forwarded_cancel_kills_unstarted_children]
  simp [lost, List.filter_append, List.filter_replicate]

theorem shielded_gather_lost_count (k r : Nat) : lost (scenario true (k + r) k) = 0 := by
  rw [shielded_gather_ends_every_started_field]
  simp [lost, List.filter_replicate]

end PyGql.Props.C16

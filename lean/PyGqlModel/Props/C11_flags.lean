/-
  C11 — the CONFIGURATIONS of the quantifier (`ignore_extensions`) and what `no_other_branch_partial` /
  `build_exact_partial` omit.

  * `no_other_branch_partial` (Props/C11.lean) is true of EVERY value of `Err` (it only splits the constructor): it says
    nothing about `build`.  `no_other_branch` below is the statement it stood for, as a corollary of `build_rejects`:
    the class of the internal branch is `RecursionError` and nothing else; `build_internal_of_thunkCycle` shows when
    that branch IS taken (finding S1b), whatever the flags.
  * `build_exact_partial` / `build_exact_final` are about `build doc` with the default flags only.
    `build_ignoreExtensions`: with `ignore_extensions=True` the builder computes exactly what it computes on the document
    with its `extend` blocks removed — for EVERY document (valid or not) and every list of supplied types; so all
    theorems about `build doc` transfer (`build_exact_ignoreExtensions`, `build_perm_ignoreExtensions`).
-/
import PyGqlModel.Props.C11_valid

set_option linter.unusedVariables false
set_option linter.unusedSimpArgs false

namespace PyGql.Props.C11
open PyGql PyGql.Sdl PyGql.SdlSpec

/-! ### the rejection classes -/

/-- **no_other_branch** (replaces the vacuous `no_other_branch_partial`): a rejection of `build` — any flags, any supplied
    types — is `SDLError`, `ExtensionError`, `SchemaError` or the `RecursionError` of finding S1b. -/
theorem no_other_branch (doc : Doc) (ie : Bool) (add : List TypeD) (e : Err) (h : build doc ie add = .error e) :
    e = .lib .sdl ∨ e = .lib .ext ∨ e = .lib .schema ∨ e = .internal "RecursionError" := by
  rcases build_rejects doc ie add e h with ⟨l, rfl⟩ | rfl
  · cases l <;> simp
  · simp

/-- … and the fourth class is taken by every document (whose definitions are collected) that has a re-entrant input
    field thunk, whatever the flags: this is what the real builder does on `input A { a: A = {a: null} }` -/
theorem build_internal_of_thunkCycle (doc : Doc) (ie : Bool) (add : List TypeD) (c : Collected)
    (hc : collectDefinitions doc = .ok c) (ht : hasThunkCycle (Env.of c.types add) c.types = true) :
    build doc ie add = .error (.internal "RecursionError") := by
  simp [build, buildIgnoringExtensions, hc, bind, Except.bind, buildCollected, failIf, ht]

example : build s1bDoc = .error (.internal "RecursionError") := by
  obtain ⟨c, hc, ht, _, _⟩ := collect_ok s1bDoc (by decide) (by decide) (by decide) (by decide)
  refine build_internal_of_thunkCycle s1bDoc false [] c hc ?_
  rw [ht]; decide

/-! ### `ignore_extensions=True` -/

/-- the document without its `extend` blocks -/
def stripExt (doc : Doc) : Doc := doc.filter fun | .ext _ => false | .schemaExt _ => false | _ => true

theorem stripExt_ext (e : TypeDef) (ds : Doc) : stripExt (.ext e :: ds) = stripExt ds := rfl
theorem stripExt_schemaExt (e : SchemaDef) (ds : Doc) : stripExt (.schemaExt e :: ds) = stripExt ds := rfl
theorem stripExt_type (t : TypeDef) (ds : Doc) : stripExt (.type t :: ds) = .type t :: stripExt ds := rfl
theorem stripExt_directive (t : DirDef) (ds : Doc) : stripExt (.directive t :: ds) = .directive t :: stripExt ds := rfl
theorem stripExt_schema (t : SchemaDef) (ds : Doc) : stripExt (.schema t :: ds) = .schema t :: stripExt ds := rfl
theorem stripExt_other (ds : Doc) : stripExt (.other :: ds) = .other :: stripExt ds := rfl

private theorem foldlM_cons_congr (acc : Collected) (d : Def) (l₁ l₂ : Doc)
    (h : ∀ a, l₁.foldlM collectStep a = l₂.foldlM collectStep a) :
    (d :: l₁).foldlM collectStep acc = (d :: l₂).foldlM collectStep acc := by
  rw [List.foldlM_cons, List.foldlM_cons]
  cases collectStep acc d with
  | error e => rfl
  | ok a => exact h a

theorem collect_strip (doc : Doc) : ∀ acc, (stripExt doc).foldlM collectStep acc = doc.foldlM collectStep acc := by
  induction doc with
  | nil => intro acc; rfl
  | cons d ds ih =>
    intro acc
    cases d with
    | ext e =>
      rw [stripExt_ext, List.foldlM_cons, ih]
      rfl
    | schemaExt e =>
      rw [stripExt_schemaExt, List.foldlM_cons, ih]
      rfl
    | type t => rw [stripExt_type]; exact foldlM_cons_congr acc _ _ _ ih
    | directive t => rw [stripExt_directive]; exact foldlM_cons_congr acc _ _ _ ih
    | schema t => rw [stripExt_schema]; exact foldlM_cons_congr acc _ _ _ ih
    | other => rw [stripExt_other]; exact foldlM_cons_congr acc _ _ _ ih

theorem typeExts_strip (doc : Doc) : typeExts (stripExt doc) = [] := by
  induction doc with
  | nil => rfl
  | cons d ds ih => cases d <;> simpa [stripExt, typeExts, List.filter_cons] using ih

theorem schemaExtensions_strip (doc : Doc) : schemaExtensions (stripExt doc) = [] := by
  induction doc with
  | nil => rfl
  | cons d ds ih => cases d <;> simpa [stripExt, schemaExtensions, List.filter_cons] using ih

theorem typeExtensions_strip (live : Live) (doc : Doc) : typeExtensions live (stripExt doc) = [] := by
  induction doc with
  | nil => rfl
  | cons d ds ih => cases d <;> simpa [stripExt, typeExtensions, List.filter_cons] using ih

theorem typeDefs_strip (doc : Doc) : typeDefs (stripExt doc) = typeDefs doc := by
  induction doc with
  | nil => rfl
  | cons d ds ih => cases d <;> simpa [stripExt, typeDefs, List.filter_cons] using ih

/-- **`ignore_extensions=True` = the document without its `extend` blocks**, for every document and every list of
    supplied types: same schema, or the same rejection. -/
theorem build_ignoreExtensions (doc : Doc) (add : List TypeD) : build doc true add = build (stripExt doc) false add := by
  unfold build buildIgnoringExtensions collectDefinitions
  rw [collect_strip]
  cases doc.foldlM collectStep {} with
  | error e => rfl
  | ok c =>
    simp only [bind, Except.bind]
    cases buildCollected c add with
    | error e => rfl
    | ok p =>
      obtain ⟨env, live⟩ := p
      simp [extendSchema, typeExtensions_strip, schemaExtensions_strip, pure, Except.pure]

/-- **build_exact with `ignore_extensions=True`**: if the definitions alone are a valid document, the schema is exactly
    the content THEY declare (no member of any `extend` block) -/
theorem build_exact_ignoreExtensions (doc : Doc) (d : SchemaD) (v : SdlOK (stripExt doc) d) : build doc true = .ok d := by
  rw [build_ignoreExtensions]; exact build_exact_final _ _ v

theorem stripExt_perm {d₁ d₂ : Doc} (hp : d₁.Perm d₂) : (stripExt d₁).Perm (stripExt d₂) := hp.filter _

/-- … independently of the order of the definitions AND of where the (ignored) extension blocks stand: no condition
    on the extensions at all -/
theorem build_perm_ignoreExtensions (doc₁ doc₂ : Doc) (d₁ : SchemaD) (v : SdlOK (stripExt doc₁) d₁) (hp : doc₁.Perm doc₂) :
    ∃ s₁ s₂, build doc₁ true = .ok s₁ ∧ build doc₂ true = .ok s₂ ∧ SameContent s₁ s₂ := by
  rw [build_ignoreExtensions, build_ignoreExtensions]
  exact build_perm_sameContent _ _ d₁ v (stripExt_perm hp) (fun n => by rw [typeExts_strip, typeExts_strip])
    (by rw [schemaExtensions_strip, schemaExtensions_strip])

/-! non-vacuity -/

def ieDoc : Doc := [.ext exExt, .type exQuery, .ext { kind := .enum, name := "Nope", values := [{ name := "B" }] }]
theorem ieDeclares : (Declared (stripExt ieDoc)).isSome = true := by decide

theorem ieDoc_ok : SdlOK (stripExt ieDoc) ((Declared (stripExt ieDoc)).get ieDeclares) :=
  { uniqueTypes := by decide, uniqueDirectives := by decide, oneSchema := by decide, noBuiltinNames := by decide,
    extTargets := by decide, declares := by simp,
    baseDefaults := baseDefaults_of_B _ (by decide),
    selfDefaults := selfDefaults_of_noext _ (typeExts_strip _),
    membersUnique := by decide, noThunkCycle := by decide, noEagerCycle := by decide, noSpecified := by decide,
    schemaOps := by decide, extOps := by decide, extOpsNew := by decide }

example : build ieDoc true = .ok ((Declared (stripExt ieDoc)).get ieDeclares) := build_exact_ignoreExtensions _ _ ieDoc_ok
/-- the extension's field `b` is not there -/
example : ((build ieDoc true).toOption.map fun s => s.types.map fun t => t.fields.map (·.name)) = some [["a"]] := by decide

end PyGql.Props.C11

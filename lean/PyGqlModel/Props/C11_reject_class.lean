/-
  C11 — the ERROR CLASS of the member rules (sharpens `Rejected` of Props/C11_reject_complete.lean for the rules that are
  checked in the first pass, `build_schema_ignoring_extensions`): a type / directive definition that breaks one of its
  rules (`TypeDefOK` / `DirDefOK`, Spec/SdlRules.lean) makes `build` fail with `SDLError` — or with the RecursionError of
  finding S1b, which the model raises before any definition is built — whatever the rest of the document, the flags and
  the supplied types: `build_member_failure_class`, `build_rejects_invalid_type_def_class`,
  `build_rejects_invalid_directive_def_class`.
-/
import PyGqlModel.Props.C11_reject_complete

set_option linter.unusedVariables false
set_option linter.unusedSimpArgs false

namespace PyGql.Props.C11
open PyGql PyGql.Sdl PyGql.SdlSpec

/-! ### the class of a rejection in the first pass (definitions): `SDLError`, or the RecursionError of finding S1b -/

/-- `SDLError`, or the RecursionError of finding S1b -/
def SdlOrRec (e : Err) : Prop := e = .lib .sdl ∨ e = .internal "RecursionError"

private theorem bind_err' {α β} (x : R α) (f : α → R β) (e : Err) (h : (x >>= f) = .error e) :
    x = .error e ∨ ∃ a, x = .ok a ∧ f a = .error e := by
  cases x with
  | error e' => left; simpa [bind, Except.bind] using h
  | ok a => right; exact ⟨a, rfl, by simpa [bind, Except.bind] using h⟩

private theorem mapM_class {α β} (f : α → R β) (hf : ∀ x e, f x = .error e → SdlOrRec e) :
    ∀ (l : List α) (e : Err), l.mapM f = .error e → SdlOrRec e := by
  intro l
  induction l with
  | nil => intro e h; simp [pure, Except.pure] at h
  | cons x xs ih =>
    intro e h
    rw [List.mapM_cons] at h
    rcases bind_err' _ _ _ h with h1 | ⟨a, _, h2⟩
    · exact hf x e h1
    · rcases bind_err' _ _ _ h2 with h3 | ⟨b, _, h4⟩
      · exact ih e h3
      · simp [pure, Except.pure] at h4

private theorem defaultValue_class (env : Env) (l : Lit) (t : Ty) (e : Err) (h : defaultValue env l t = .error e) : SdlOrRec e := by
  unfold defaultValue at h
  split at h
  · cases h; exact Or.inr rfl
  · simp [pure, Except.pure] at h
  · simp only [sdlErr] at h; cases h; exact Or.inl rfl

private theorem checkRef_class (env : Env) (t : Ty) (e : Err) (h : checkRef env t = .error e) : SdlOrRec e := by
  unfold checkRef at h
  split at h
  · simp [pure, Except.pure] at h
  · simp only [sdlErr] at h; cases h; exact Or.inl rfl

private theorem checkNames_class (env : Env) (ns : List String) (e : Err) (h : checkNames env ns = .error e) : SdlOrRec e := by
  unfold checkNames at h
  split at h
  · simp [pure, Except.pure] at h
  · simp only [sdlErr] at h; cases h; exact Or.inl rfl

private theorem deprecationReason_class (ds : List DirApp) (e : Err) (h : deprecationReason ds = .error e) : SdlOrRec e := by
  unfold deprecationReason at h
  split at h
  · simp [pure, Except.pure] at h
  · split at h
    all_goals first
      | (simp [pure, Except.pure] at h; done)
      | (simp only [sdlErr] at h; cases h; exact Or.inl rfl)

private theorem buildArgument_class (env : Env) (a : InputValDef) (e : Err) (h : buildArgument env a = .error e) : SdlOrRec e := by
  unfold buildArgument at h
  rcases bind_err' _ _ _ h with h1 | ⟨_, _, h2⟩
  · exact checkRef_class env _ e h1
  · split at h2
    · simp [pure, Except.pure] at h2
    · rcases bind_err' _ _ _ h2 with h3 | ⟨_, _, h4⟩
      · exact defaultValue_class env _ _ e h3
      · simp [pure, Except.pure] at h4

private theorem buildField_class (env : Env) (f : FieldDef) (e : Err) (h : buildField env f = .error e) : SdlOrRec e := by
  unfold buildField at h
  rcases bind_err' _ _ _ h with h1 | ⟨_, _, h2⟩
  · exact checkRef_class env _ e h1
  · rcases bind_err' _ _ _ h2 with h3 | ⟨_, _, h4⟩
    · exact mapM_class _ (buildArgument_class env) _ e h3
    · rcases bind_err' _ _ _ h4 with h5 | ⟨_, _, h6⟩
      · exact deprecationReason_class _ e h5
      · simp [pure, Except.pure] at h6

private theorem failIf_class (c : Bool) (err e : Err) (h : failIf c err = .error e) : e = err := by
  unfold failIf at h
  split at h
  · cases h; rfl
  · simp [pure, Except.pure] at h

private theorem buildEnumValue_class (v : EnumValDef) (e : Err) (h : buildEnumValue v = .error e) : SdlOrRec e := by
  unfold buildEnumValue at h
  rcases bind_err' _ _ _ h with h1 | ⟨_, _, h2⟩
  · rw [failIf_class _ _ _ h1]; exact Or.inl rfl
  · rcases bind_err' _ _ _ h2 with h3 | ⟨_, _, h4⟩
    · exact deprecationReason_class _ e h3
    · simp [pure, Except.pure] at h4

private theorem buildTypeDef_class (env : Env) (d : TypeDef) (e : Err) (h : buildTypeDef env d = .error e) : SdlOrRec e := by
  unfold buildTypeDef at h
  split at h
  · simp [pure, Except.pure] at h
  · rcases bind_err' _ _ _ h with h1 | ⟨_, _, h2⟩
    · exact mapM_class _ (buildField_class env) _ e h1
    · rcases bind_err' _ _ _ h2 with h3 | ⟨_, _, h4⟩
      · exact checkNames_class env _ e h3
      · simp [pure, Except.pure] at h4
  · rcases bind_err' _ _ _ h with h1 | ⟨_, _, h2⟩
    · exact mapM_class _ (buildField_class env) _ e h1
    · simp [pure, Except.pure] at h2
  · rcases bind_err' _ _ _ h with h1 | ⟨_, _, h2⟩
    · exact checkNames_class env _ e h1
    · simp [pure, Except.pure] at h2
  · rcases bind_err' _ _ _ h with h1 | ⟨_, _, h2⟩
    · rw [failIf_class _ _ _ h1]; exact Or.inl rfl
    · rcases bind_err' _ _ _ h2 with h3 | ⟨_, _, h4⟩
      · exact mapM_class _ buildEnumValue_class _ e h3
      · simp [pure, Except.pure] at h4
  · rcases bind_err' _ _ _ h with h1 | ⟨_, _, h2⟩
    · exact mapM_class _ (buildArgument_class env) _ e h1
    · simp [pure, Except.pure] at h2

private theorem buildType_class (env : Env) (d : TypeDef) (e : Err) (h : buildType env d = .error e) : SdlOrRec e := by
  unfold buildType at h
  split at h
  · simp [pure, Except.pure] at h
  · split at h
    · simp [pure, Except.pure] at h
    · rcases bind_err' _ _ _ h with h1 | ⟨_, _, h2⟩
      · exact buildTypeDef_class env d e h1
      · simp [pure, Except.pure] at h2

private theorem buildDirective_class (env : Env) (d : DirDef) (e : Err) (h : buildDirective env d = .error e) : SdlOrRec e := by
  unfold buildDirective at h
  rcases bind_err' _ _ _ h with h1 | ⟨_, _, h2⟩
  · exact mapM_class _ (buildArgument_class env) _ e h1
  · simp [pure, Except.pure] at h2

/-- the first pass up to the member builders: if a directive definition or a type definition does not build, `build` fails
    with `SDLError` or the RecursionError of S1b — whatever comes later in the document, the flags, the supplied types -/
theorem build_member_failure_class (doc : Doc) (ie : Bool) (add : List TypeD)
    (h : (∃ d ∈ dirDefs doc, ¬ Ok (buildDirective (Env.of (typeDefs doc) add) d)) ∨
         (∃ t ∈ typeDefs doc, ¬ Ok (buildType (Env.of (typeDefs doc) add) t))) :
    ∃ e, build doc ie add = .error e ∧ SdlOrRec e := by
  cases hc : collectDefinitions doc with
  | error e =>
    have := collect_rejects_sdl doc e hc; subst this
    exact ⟨_, by simp [build, buildIgnoringExtensions, hc, bind, Except.bind], Or.inl rfl⟩
  | ok c =>
    obtain ⟨hT, hD⟩ := collect_exact doc c hc
    cases hth : hasThunkCycle (Env.of c.types add) c.types with
    | true =>
      exact ⟨_, by simp [build, buildIgnoringExtensions, hc, bind, Except.bind, buildCollected, failIf, hth], Or.inr rfl⟩
    | false =>
      cases hdirs : c.directives.mapM (buildDirective (Env.of c.types add)) with
      | error e =>
        exact ⟨e, by simp [build, buildIgnoringExtensions, hc, bind, Except.bind, buildCollected, failIf, hth, hdirs, pure, Except.pure],
          mapM_class _ (buildDirective_class _) _ e hdirs⟩
      | ok dirs =>
        cases hts : c.types.mapM (buildType (Env.of c.types add)) with
        | error e =>
          exact ⟨e, by simp [build, buildIgnoringExtensions, hc, bind, Except.bind, buildCollected, failIf, hth, hdirs, hts, pure, Except.pure],
            mapM_class _ (buildType_class _) _ e hts⟩
        | ok built =>
          exfalso
          rw [hT] at hts hdirs; rw [hD] at hdirs
          rcases h with ⟨d, hd, hn⟩ | ⟨t, ht, hn⟩
          · exact hn (mapM_all_ok _ _ _ hdirs d hd)
          · exact hn (mapM_all_ok _ _ _ hts t ht)

/-- **the class of the member rules**: a type definition that breaks one of its rules makes `build` fail with `SDLError`
    (or the RecursionError of S1b), never with another class — sharpens `build_rejects_invalid_type_def`. -/
theorem build_rejects_invalid_type_def_class (doc : Doc) (ie : Bool) (add : List TypeD) (t : TypeDef) (ht : t ∈ typeDefs doc)
    (hadd : t.name ∉ add.map (·.name)) (h : ¬ TypeDefOK (Env.of (typeDefs doc) add) t) :
    ∃ e, build doc ie add = .error e ∧ SdlOrRec e := by
  by_cases hN : isDefaultName t.name = true
  · exact ⟨_, build_rejects_specified_name doc ie add t ht hN, Or.inl rfl⟩
  refine build_member_failure_class doc ie add (Or.inr ⟨t, ht, fun ⟨o, ho⟩ => h ?_⟩)
  unfold buildType at ho
  have hfa := findAdditional_none (typeDefs doc) add t.name hadd
  simp only [hN, Bool.false_eq_true, if_false, hfa] at ho
  obtain ⟨bt, hbt, _⟩ := bind_ok _ _ _ ho
  exact (buildTypeDef_ok_iff _ t).mp ⟨bt, hbt⟩

/-- the same for a directive definition -/
theorem build_rejects_invalid_directive_def_class (doc : Doc) (ie : Bool) (add : List TypeD) (d : DirDef) (hd : d ∈ dirDefs doc)
    (h : ¬ DirDefOK (Env.of (typeDefs doc) add) d) : ∃ e, build doc ie add = .error e ∧ SdlOrRec e :=
  build_member_failure_class doc ie add (Or.inl ⟨d, hd, fun hok => h ((buildDirective_ok_iff _ d).mp hok)⟩)

example : ∃ e, build unknownRefDoc false [] = .error e ∧ SdlOrRec e :=
  build_rejects_invalid_type_def_class unknownRefDoc false [] unknownRefType (List.Mem.head _) (by simp) (by
    intro ok
    have ok' : (∀ f ∈ unknownRefType.fields, FieldOK (Env.of (typeDefs unknownRefDoc) []) f) ∧ _ := ok
    rcases (ok'.1 _ (List.Mem.head _)).1 with h1 | ⟨t, h1⟩ | ⟨d, h1⟩
    · revert h1; decide
    · cases h1
    · have hnone : (Env.of (typeDefs unknownRefDoc) []).findDef (Ty.named "Nope").base = none := by decide
      rw [show ({ name := "a", type := Ty.named "Nope" } : FieldDef).type.base = (Ty.named "Nope").base from rfl, hnone] at h1
      cases h1)

theorem addOps_sdl (res : String → Bool) : ∀ (ops : List (String × String)) (r : Roots) (e : Err),
    addOps res (.lib .sdl) r ops = .error e → e = .lib .sdl := by
  intro ops
  induction ops with
  | nil => intro r e h; simp [addOps, pure, Except.pure] at h
  | cons o os ih =>
    intro r e h
    obtain ⟨op, ty⟩ := o
    simp only [addOps] at h
    split at h
    · cases h; rfl
    · split at h
      · simp only [sdlErr] at h; cases h; rfl
      · exact ih _ _ h

/-- **a `schema` block that names an unknown type: `SDLError`** (or the RecursionError of S1b) — sharpens
    `build_rejects_unknown_root` -/
theorem build_rejects_unknown_root_class (doc : Doc) (ie : Bool) (add : List TypeD) (sd : SchemaDef) (hsd : (schemaDefs doc).head? = some sd)
    (o : String × String) (ho : o ∈ sd.ops) (h : ¬ KnownIn (typeDefs doc) add o.2) : ∃ e, build doc ie add = .error e ∧ SdlOrRec e := by
  cases hc : collectDefinitions doc with
  | error e =>
    have := collect_rejects_sdl doc e hc; subst this
    exact ⟨_, by simp [build, buildIgnoringExtensions, hc, bind, Except.bind], Or.inl rfl⟩
  | ok c =>
    obtain ⟨hT, hD⟩ := collect_exact doc c hc
    obtain ⟨hr1, hr2, hr3, hr4⟩ := collect_ok_rules doc c hc
    obtain ⟨c', hc', _, _, hS⟩ := collect_ok doc hr1 hr2 hr3 hr4
    rw [hc] at hc'; have := ok_inj hc'; subst this
    cases hth : hasThunkCycle (Env.of c.types add) c.types with
    | true =>
      exact ⟨_, by simp [build, buildIgnoringExtensions, hc, bind, Except.bind, buildCollected, failIf, hth], Or.inr rfl⟩
    | false =>
      cases hdirs : c.directives.mapM (buildDirective (Env.of c.types add)) with
      | error e =>
        exact ⟨e, by simp [build, buildIgnoringExtensions, hc, bind, Except.bind, buildCollected, failIf, hth, hdirs, pure, Except.pure],
          mapM_class _ (buildDirective_class _) _ e hdirs⟩
      | ok dirs =>
        cases hts : c.types.mapM (buildType (Env.of c.types add)) with
        | error e =>
          exact ⟨e, by simp [build, buildIgnoringExtensions, hc, bind, Except.bind, buildCollected, failIf, hth, hdirs, hts, pure, Except.pure],
            mapM_class _ (buildType_class _) _ e hts⟩
        | ok built =>
          cases hcy : hasEagerCycle (built.filterMap id) with
          | true =>
            exact ⟨_, by simp [build, buildIgnoringExtensions, hc, bind, Except.bind, buildCollected, failIf, hth, hdirs, hts, hcy, pure, Except.pure],
              Or.inl rfl⟩
          | false =>
            cases hro : buildRoots (Env.of c.types add) c.schemaDef (built.filterMap id) with
            | error e =>
              have hcls : e = .lib .sdl := by
                rw [hS, hsd] at hro
                simp only [buildRoots] at hro
                exact addOps_sdl _ _ _ _ hro
              exact ⟨e, by simp [build, buildIgnoringExtensions, hc, bind, Except.bind, buildCollected, failIf, hth, hdirs, hts, hcy, hro, pure, Except.pure],
                Or.inl hcls⟩
            | ok roots =>
              exfalso
              rw [hS, hsd] at hro
              simp only [buildRoots] at hro
              have := addOps_ok_resolves _ _ _ _ _ hro o ho
              rw [hT] at this
              exact h ((known_of_iff _ _ _).mp ((resolves_iff _ _).mp this))

example : ∃ e, build unknownRootDoc false [] = .error e ∧ SdlOrRec e :=
  build_rejects_unknown_root_class unknownRootDoc false [] { ops := [("query", "Nope")] } rfl ("query", "Nope") (List.Mem.head _)
    (by unfold KnownIn; decide)

end PyGql.Props.C11

/-
  C06 - property theorems, part 4: rules with a definition-level accumulator of names seen so far:
  `UniqueFragmentNamesChecker` (5.5.1.1) and `UniqueOperationNameChecker` (5.2.1.1; raises SkipNode on a
  duplicate). Inside a definition the accumulator is constant (walk lemma with invariant, level `isTop`);
  across definitions an explicit induction relates the `seen`-set loop to `List.Nodup`.
-/
import PyGqlModel.Props.C06_doc
namespace PyGql.Props.C06
open PyGql PyGql.Validate PyGql.Validate.Spec

theorem dupCount_append (seen a b : List String) :
    dupCount seen (a ++ b) = dupCount seen a + dupCount (a.reverse ++ seen) b := by
  induction a generalizing seen with
  | nil => simp [dupCount]
  | cons x xs ih => simp only [List.cons_append, dupCount, ih, List.reverse_cons, List.append_assoc,
      List.singleton_append, List.nil_append]; omega

theorem dupCount_congr (seen seen' xs : List String) (h : ∀ x, seen.contains x = seen'.contains x) :
    dupCount seen xs = dupCount seen' xs := by
  induction xs generalizing seen seen' with
  | nil => rfl
  | cons a as ih =>
    simp only [dupCount, h a]
    congr 1
    apply ih
    intro x
    simp only [List.contains_cons, h x]

private theorem leave_one (s : SchemaD) (fx : Fixes) (r : Rule) (n : Node) (st : St)
    (hL : ∀ n ti rs, leaveRule s fx r n ti rs = rs) :
    (leave ⟨s, fx, [r]⟩ n st).rs = st.rs := by
  simp only [leave, List.reverse_cons, List.reverse_nil, List.nil_append, List.foldl_cons, List.foldl_nil, hL]

private theorem enter_one (s : SchemaD) (fx : Fixes) (r : Rule) (n : Node) (st : St) :
    enter ⟨s, fx, [r]⟩ n st =
      ({ ti := tiEnter s n st.ti, rs := (enterRule s fx r n (tiEnter s n st.ti) st.rs).1 },
       (enterRule s fx r n (tiEnter s n st.ti) st.rs).2) := by
  simp only [enter, enterRules_one]

/-! ### UniqueFragmentNamesChecker -/

def defFragName : Def → List String | .frag n .. => [n] | _ => []

theorem flatMap_defFragName (d : Doc) : d.defs.flatMap defFragName = Spec.fragNames d := by
  unfold Spec.fragNames
  induction d.defs with
  | nil => rfl
  | cons x xs ih => cases x <;> simp_all [defFragName, List.flatMap_cons]

private theorem uf_leave (s : SchemaD) (fx : Fixes) : ∀ n ti rs, leaveRule s fx .uniqueFragmentNames n ti rs = rs :=
  leaveRule_id s fx .uniqueFragmentNames (by decide)

private theorem uf_leave_rs (s : SchemaD) (fx : Fixes) (n : Node) (st : St) :
    (leave ⟨s, fx, [.uniqueFragmentNames]⟩ n st).rs = st.rs := leave_one s fx _ n st (uf_leave s fx)

private theorem uf_cfi (s : SchemaD) (fx : Fixes) (L : List String) :
    CFI ⟨s, fx, [.uniqueFragmentNames]⟩ Node.isTop (fun st => st.rs.fragNames = L) (fun _ => 0) (fun _ => 0) :=
  cfi_of s fx .uniqueFragmentNames Node.isTop (fun rs => rs.fragNames = L) _ _ (fun _ h => h)
    (fun n ti rs hn hi => by cases n <;> simp_all [enterRule, Node.isTop])
    (fun n ti rs _ hi => by rw [uf_leave]; exact ⟨rfl, hi⟩)

private theorem uf_body {L : List String} {ns : List Node} {st st' : St}
    (h : Post (fun st => st.rs.fragNames = L) (fun _ => 0) (fun _ => 0) ns st st') :
    E st' = E st ∧ st'.rs.fragNames = L := ⟨by rw [h.2, total_zero]; rfl, h.1⟩

theorem visitNode_noskip (c : Cfg) (n : Node) (body : St → St) (st st1 : St) (h : enter c n st = (st1, false)) :
    visitNode c n body st = leave c n (body st1) := by
  unfold visitNode; rw [h]; rfl

/-- single-rule chain, the rule raises `SkipNode`: the rule state is the entered one, `TypeInfoVisitor` is left
    (semantics of fix 391ad62) -/
theorem visitNode_skip {s : SchemaD} {fx : Fixes} (r : Rule) (n : Node) (body : St → St) (st st1 : St)
    (h : enter ⟨s, fx, [r]⟩ n st = (st1, true)) :
    visitNode ⟨s, fx, [r]⟩ n body st = { ti := tiLeave n st1.ti, rs := st1.rs } := by
  have e : enter ⟨s, fx, [r]⟩ n st = ({ ti := tiEnter s n st.ti, rs := (enterRule s fx r n (tiEnter s n st.ti) st.rs).1 },
      (enterRule s fx r n (tiEnter s n st.ti) st.rs).2) := by simp only [enter, enterRules_one]
  rw [e] at h
  obtain ⟨h1, h2⟩ := Prod.mk.inj h
  rw [visitNode_skip_single s fx r n body st h2, ← h1]

theorem uf_visitDef (s : SchemaD) (fx : Fixes) (x : Def) (st : St) :
    E (visitDef ⟨s, fx, [.uniqueFragmentNames]⟩ x st) = E st + dupCount st.rs.fragNames (defFragName x) ∧
    (visitDef ⟨s, fx, [.uniqueFragmentNames]⟩ x st).rs.fragNames = (defFragName x).reverse ++ st.rs.fragNames := by
  cases x with
  | op kind name vars dirs ssid sels =>
    have he : enter ⟨s, fx, [.uniqueFragmentNames]⟩ (.operation kind name vars dirs sels) st =
        ({ ti := tiEnter s (.operation kind name vars dirs sels) st.ti, rs := st.rs }, false) := by
      rw [enter_one]; simp only [enterRule]
    rw [visitDef, visitNode_noskip _ _ _ _ _ he]
    have hb := uf_body (opBodyI (uf_cfi s fx st.rs.fragNames) vars dirs ssid sels
      { ti := tiEnter s (.operation kind name vars dirs sels) st.ti, rs := st.rs } rfl)
    simp only [uf_leave_rs, E, defFragName, dupCount, List.reverse_nil, List.nil_append, Nat.add_zero] at hb ⊢
    exact hb
  | frag name on dirs ssid sels =>
    by_cases hc : st.rs.fragNames.contains name = true
    · have he : enter ⟨s, fx, [.uniqueFragmentNames]⟩ (.fragmentDef name on dirs) st =
          ({ ti := tiEnter s (.fragmentDef name on dirs) st.ti,
             rs := { st.rs.err .uniqueFragmentNames with fragNames := name :: st.rs.fragNames } }, false) := by
        rw [enter_one]; simp only [enterRule, hc, ↓reduceIte]; rfl
      rw [visitDef, visitNode_noskip _ _ _ _ _ he]
      have hb := uf_body (fragBodyI (uf_cfi s fx (name :: st.rs.fragNames)) dirs ssid sels
        { ti := tiEnter s (.fragmentDef name on dirs) st.ti,
          rs := { st.rs.err .uniqueFragmentNames with fragNames := name :: st.rs.fragNames } } rfl)
      simp only [uf_leave_rs, E, defFragName, dupCount, hc, ↓reduceIte, List.reverse_cons, List.reverse_nil,
        List.nil_append, List.singleton_append, Nat.add_zero] at hb ⊢
      exact ⟨by rw [hb.1]; simp [RS.err], hb.2⟩
    · have he : enter ⟨s, fx, [.uniqueFragmentNames]⟩ (.fragmentDef name on dirs) st =
          ({ ti := tiEnter s (.fragmentDef name on dirs) st.ti,
             rs := { st.rs with fragNames := name :: st.rs.fragNames } }, false) := by
        rw [enter_one]; simp only [enterRule, hc, Bool.false_eq_true, ↓reduceIte]
      rw [visitDef, visitNode_noskip _ _ _ _ _ he]
      have hb := uf_body (fragBodyI (uf_cfi s fx (name :: st.rs.fragNames)) dirs ssid sels
        { ti := tiEnter s (.fragmentDef name on dirs) st.ti,
          rs := { st.rs with fragNames := name :: st.rs.fragNames } } rfl)
      simp only [uf_leave_rs, E, defFragName, dupCount, hc, Bool.false_eq_true, ↓reduceIte, List.reverse_cons,
        List.reverse_nil, List.nil_append, List.singleton_append, Nat.add_zero] at hb ⊢
      exact ⟨by rw [hb.1], hb.2⟩
  | ts a b =>
    have he : enter ⟨s, fx, [.uniqueFragmentNames]⟩ .tsDef st = ({ ti := tiEnter s .tsDef st.ti, rs := st.rs }, false) := by
      rw [enter_one]; simp only [enterRule]
    rw [visitDef, visitNode_noskip _ _ _ _ _ he]
    simp only [uf_leave_rs, E, defFragName, dupCount, List.reverse_nil, List.nil_append, Nat.add_zero, id]
    exact ⟨trivial, trivial⟩

theorem uf_visitDefs (s : SchemaD) (fx : Fixes) (ds : List Def) (st : St) :
    E (ds.foldl (fun st x => visitDef ⟨s, fx, [.uniqueFragmentNames]⟩ x st) st) =
      E st + dupCount st.rs.fragNames (ds.flatMap defFragName) := by
  induction ds generalizing st with
  | nil => simp [dupCount]
  | cons x xs ih =>
    rw [List.foldl_cons, ih, (uf_visitDef s fx x st).1, (uf_visitDef s fx x st).2, List.flatMap_cons, dupCount_append]
    omega

/-- **5.5.1.1 Fragment name uniqueness** -/
theorem rule_unique_fragment_names_iff (s : SchemaD) (fx : Fixes) (d : Doc) :
    Silent s fx .uniqueFragmentNames d ↔ Spec.uniqueFragmentNames d := by
  unfold Silent alone Spec.uniqueFragmentNames
  have he : enter ⟨s, fx, [.uniqueFragmentNames]⟩ (.document d) {} =
      ({ ti := tiEnter s (.document d) ({} : St).ti, rs := ({} : St).rs }, false) := by
    rw [enter_one]; simp only [enterRule]
  rw [visitDocument, visitNode_noskip _ _ _ _ _ he]
  simp only [E, uf_leave_rs]
  have := uf_visitDefs s fx d.defs { ti := tiEnter s (.document d) ({} : St).ti, rs := ({} : St).rs }
  simp only [E] at this
  rw [this, flatMap_defFragName]
  show 0 + dupCount [] (Spec.fragNames d) = 0 ↔ _
  rw [Nat.zero_add, dupCount_nil_zero_iff]


/-! ### UniqueOperationNameChecker (raises SkipNode on a duplicate) -/

def defOpName : Def → List String | .op kind name .. => [name.getD kind] | _ => []

theorem flatMap_defOpName (d : Doc) : d.defs.flatMap defOpName = Spec.opNames d := by
  unfold Spec.opNames
  induction d.defs with
  | nil => rfl
  | cons x xs ih => cases x <;> simp_all [defOpName, List.flatMap_cons]

private theorem uo_leave (s : SchemaD) (fx : Fixes) : ∀ n ti rs, leaveRule s fx .uniqueOperationName n ti rs = rs :=
  leaveRule_id s fx .uniqueOperationName (by decide)

private theorem uo_leave_rs (s : SchemaD) (fx : Fixes) (n : Node) (st : St) :
    (leave ⟨s, fx, [.uniqueOperationName]⟩ n st).rs = st.rs := leave_one s fx _ n st (uo_leave s fx)

private theorem uo_cfi (s : SchemaD) (fx : Fixes) (L : List String) :
    CFI ⟨s, fx, [.uniqueOperationName]⟩ Node.isTop (fun st => st.rs.opNames = L) (fun _ => 0) (fun _ => 0) :=
  cfi_of s fx .uniqueOperationName Node.isTop (fun rs => rs.opNames = L) _ _ (fun _ h => h)
    (fun n ti rs hn hi => by cases n <;> simp_all [enterRule, Node.isTop])
    (fun n ti rs _ hi => by rw [uo_leave]; exact ⟨rfl, hi⟩)

private theorem uo_body {L : List String} {ns : List Node} {st st' : St}
    (h : Post (fun st => st.rs.opNames = L) (fun _ => 0) (fun _ => 0) ns st st') :
    E st' = E st ∧ st'.rs.opNames = L := ⟨by rw [h.2, total_zero]; rfl, h.1⟩

/-- the two lists contain the same strings -/
def SameSet (a b : List String) : Prop := ∀ y, a.contains y = b.contains y

theorem uo_visitDef (s : SchemaD) (fx : Fixes) (x : Def) (st : St) :
    E (visitDef ⟨s, fx, [.uniqueOperationName]⟩ x st) = E st + dupCount st.rs.opNames (defOpName x) ∧
    SameSet (visitDef ⟨s, fx, [.uniqueOperationName]⟩ x st).rs.opNames ((defOpName x).reverse ++ st.rs.opNames) := by
  cases x with
  | op kind name vars dirs ssid sels =>
    by_cases hc : st.rs.opNames.contains (name.getD kind) = true
    · have he : enter ⟨s, fx, [.uniqueOperationName]⟩ (.operation kind name vars dirs sels) st =
          ({ ti := tiEnter s (.operation kind name vars dirs sels) st.ti, rs := st.rs.err .uniqueOperationName }, true) := by
        rw [enter_one]; simp only [enterRule, hc, ↓reduceIte]
      rw [visitDef, visitNode_skip _ _ _ _ _ he]
      simp only [E, defOpName, dupCount, hc, ↓reduceIte, List.reverse_cons, List.reverse_nil, List.nil_append,
        List.singleton_append, Nat.add_zero, RS.err, List.length_cons]
      refine ⟨trivial, fun y => ?_⟩
      simp only [List.contains_cons]
      by_cases hy : y = name.getD kind
      · subst hy; rw [hc]; simp
      · simp [hy]
    · have he : enter ⟨s, fx, [.uniqueOperationName]⟩ (.operation kind name vars dirs sels) st =
          ({ ti := tiEnter s (.operation kind name vars dirs sels) st.ti,
             rs := { st.rs with opNames := name.getD kind :: st.rs.opNames } }, false) := by
        rw [enter_one]; simp only [enterRule, hc, Bool.false_eq_true, ↓reduceIte]
      rw [visitDef, visitNode_noskip _ _ _ _ _ he]
      have hb := uo_body (opBodyI (uo_cfi s fx (name.getD kind :: st.rs.opNames)) vars dirs ssid sels
        { ti := tiEnter s (.operation kind name vars dirs sels) st.ti,
          rs := { st.rs with opNames := name.getD kind :: st.rs.opNames } } rfl)
      simp only [uo_leave_rs, E, defOpName, dupCount, hc, Bool.false_eq_true, ↓reduceIte, List.reverse_cons,
        List.reverse_nil, List.nil_append, List.singleton_append, Nat.add_zero] at hb ⊢
      exact ⟨by rw [hb.1], fun y => by rw [hb.2]⟩
  | frag name on dirs ssid sels =>
    have he : enter ⟨s, fx, [.uniqueOperationName]⟩ (.fragmentDef name on dirs) st =
        ({ ti := tiEnter s (.fragmentDef name on dirs) st.ti, rs := st.rs }, false) := by
      rw [enter_one]; simp only [enterRule]
    rw [visitDef, visitNode_noskip _ _ _ _ _ he]
    have hb := uo_body (fragBodyI (uo_cfi s fx st.rs.opNames) dirs ssid sels
      { ti := tiEnter s (.fragmentDef name on dirs) st.ti, rs := st.rs } rfl)
    simp only [uo_leave_rs, E, defOpName, dupCount, List.reverse_nil, List.nil_append, Nat.add_zero] at hb ⊢
    exact ⟨hb.1, fun y => by rw [hb.2]⟩
  | ts a b =>
    have he : enter ⟨s, fx, [.uniqueOperationName]⟩ .tsDef st = ({ ti := tiEnter s .tsDef st.ti, rs := st.rs }, false) := by
      rw [enter_one]; simp only [enterRule]
    rw [visitDef, visitNode_noskip _ _ _ _ _ he]
    simp only [uo_leave_rs, E, defOpName, dupCount, List.reverse_nil, List.nil_append, Nat.add_zero, id]
    exact ⟨trivial, fun _ => rfl⟩

theorem uo_visitDefs (s : SchemaD) (fx : Fixes) (ds : List Def) (st : St) (seen : List String)
    (hs : SameSet st.rs.opNames seen) :
    E (ds.foldl (fun st x => visitDef ⟨s, fx, [.uniqueOperationName]⟩ x st) st) =
      E st + dupCount seen (ds.flatMap defOpName) := by
  induction ds generalizing st seen with
  | nil => simp [dupCount]
  | cons x xs ih =>
    have h1 := uo_visitDef s fx x st
    rw [List.foldl_cons, ih _ ((defOpName x).reverse ++ seen) (fun y => by
      rw [h1.2 y, List.contains_append, List.contains_append, hs y]),
      h1.1, List.flatMap_cons, dupCount_append, dupCount_congr _ _ _ hs]
    omega

/-- **5.2.1.1 Operation name uniqueness** (an anonymous operation is named after its kind, as the code does) -/
theorem rule_unique_operation_names_iff (s : SchemaD) (fx : Fixes) (d : Doc) :
    Silent s fx .uniqueOperationName d ↔ Spec.uniqueOperationNames d := by
  unfold Silent alone Spec.uniqueOperationNames
  have he : enter ⟨s, fx, [.uniqueOperationName]⟩ (.document d) {} =
      ({ ti := tiEnter s (.document d) ({} : St).ti, rs := ({} : St).rs }, false) := by
    rw [enter_one]; simp only [enterRule]
  rw [visitDocument, visitNode_noskip _ _ _ _ _ he]
  simp only [E, uo_leave_rs]
  have := uo_visitDefs s fx d.defs { ti := tiEnter s (.document d) ({} : St).ti, rs := ({} : St).rs } [] (fun _ => rfl)
  simp only [E] at this
  rw [this, flatMap_defOpName]
  show 0 + dupCount [] (Spec.opNames d) = 0 ↔ _
  rw [Nat.zero_add, dupCount_nil_zero_iff]

end PyGql.Props.C06

/-
  C18 — the MODEL traversal is total at every depth: for a visitor that changes nothing, fuel = depth of the tree
  suffices, whatever the table. (The implementation is not: on documents the parser accepts, nested a few hundred
  levels deep, `ASTVisitor.visit` raises RecursionError — known finding W9.)
-/
import PyGqlModel.Props.C18_edit

set_option linter.unusedVariables false
set_option linter.unusedSimpArgs false

namespace PyGql.Props.C18
open PyGql.Visit

variable {σ : Type}

private theorem lookup_depth_le (a : String) (x : Attr) :
    ∀ attrs : List (String × Attr), attrs.lookup a = some x → Attr.depth x ≤ Attr.depthAttrs attrs := by
  intro attrs
  induction attrs with
  | nil => intro h; simp [List.lookup] at h
  | cons p r ih =>
    obtain ⟨b, y⟩ := p
    intro h
    simp only [List.lookup] at h
    simp only [Attr.depthAttrs]
    cases hab : a == b with
    | true => simp only [hab, Option.some.injEq] at h; subst h; exact Nat.le_max_left _ _
    | false => simp only [hab] at h; exact Nat.le_trans (ih h) (Nat.le_max_right _ _)

private theorem mem_depthList {c : Node} : ∀ {cs : List Node}, c ∈ cs → c.depth ≤ Attr.depthList cs := by
  intro cs
  induction cs with
  | nil => intro h; simp at h
  | cons d r ih =>
    intro h
    simp only [Attr.depthList]
    rcases List.mem_cons.mp h with h | h
    · subst h; exact Nat.le_max_left _ _
    · exact Nat.le_trans (ih h) (Nat.le_max_right _ _)

/-- a child is strictly less deep than its parent -/
private theorem kid_depth_lt {n : Node} {a : String} {x : Attr} {c : Node}
    (hg : n.getAttr a = some x) (hc : c ∈ kidsOfAttr x) : c.depth < n.depth := by
  cases n with
  | mk k i attrs =>
    have h1 := lookup_depth_le a x attrs (by simpa [Node.getAttr, Node.attrs] using hg)
    have h2 : c.depth ≤ Attr.depth x := by
      cases x with
      | scalar v => simp [kidsOfAttr] at hc
      | one oc =>
        cases oc with
        | none => simp [kidsOfAttr] at hc
        | some d => simp [kidsOfAttr] at hc; subst hc; simp [Attr.depth]
      | many cs => simp only [kidsOfAttr] at hc; simpa [Attr.depth] using mem_depthList hc
    simp only [Node.depth]
    omega

private theorem visitList_nofuel {f : Node → σ → Res (Out σ)} :
    ∀ (cs : List Node) (s : σ), (∀ c ∈ cs, ∀ s, f c s ≠ .fuel) → visitList f cs s ≠ .fuel := by
  intro cs
  induction cs with
  | nil => intro s _; simp [visitList]
  | cons c cs ih =>
    intro s h
    simp only [visitList]
    cases hc : f c s with
    | err e => simp
    | fuel => exact absurd hc (h c (by simp) s)
    | ok o =>
      simp only
      cases hr : visitList f cs o.st with
      | err e => simp
      | fuel => exact absurd hr (ih o.st (fun d hd => h d (by simp [hd])))
      | ok q => obtain ⟨a, b, c', d⟩ := q; simp

private theorem runStep_nofuel {call : Target → Node → σ → Res (Out σ)} (st : Step) (n : Node) (s : σ)
    (h : ∀ t x c s, n.getAttr st.attr = some x → c ∈ kidsOfAttr x → call t c s ≠ .fuel) :
    runStep call st n s ≠ .fuel := by
  unfold runStep
  split
  · simp
  · split
    · simp
    · rename_i a ha
      split
      · split <;> simp
      · rename_i c hs
        have := h st.target _ c s ha (by simp [kidsOfAttr])
        cases hc : call st.target c s with
        | err e => simp
        | fuel => exact absurd hc this
        | ok o => simp
      · rename_i cs hs
        have := visitList_nofuel (f := call st.target) cs s (fun c hc s => h st.target _ c s ha (by simpa [kidsOfAttr] using hc))
        cases hl : visitList (call st.target) cs s with
        | err e => simp
        | fuel => exact absurd hl this
        | ok q => obtain ⟨a1, b1, c1, d1⟩ := q; simp
      · simp

private theorem runSteps_nofuel (T : Table) (v : Visitor σ) (hv : Observer v) (fuel : Nat) (n : Node) :
    ∀ (steps : List Step) (s : σ),
      (∀ t a x c s, n.getAttr a = some x → c ∈ kidsOfAttr x → callTarget T (visitM T v fuel) t c s ≠ .fuel) →
      runSteps (callTarget T (visitM T v fuel)) steps n s ≠ .fuel := by
  intro steps
  induction steps with
  | nil => intro s _; simp [runSteps]
  | cons st rest ih =>
    intro s h
    simp only [runSteps]
    cases h1 : runStep (callTarget T (visitM T v fuel)) st n s with
    | err e => simp
    | fuel => exact absurd h1 (runStep_nofuel st n s (fun t x c s hg hc => h t st.attr x c s hg hc))
    | ok q =>
      obtain ⟨n1, s1, tr1⟩ := q
      have e1 : n1 = n := runStep_observer_same T v hv fuel st n s n1 s1 tr1 h1
      subst e1
      simp only
      cases h2 : runSteps (callTarget T (visitM T v fuel)) rest n1 s1 with
      | err e => simp
      | fuel => exact absurd h2 (ih s1 h)
      | ok q2 => obtain ⟨a2, b2, c2⟩ := q2; simp

/-- **model_total** — the model traversal of a visitor that changes nothing never runs out of fuel when the fuel is
    the depth of the tree: it is total at EVERY nesting depth (it may still report an error for a tree that does not
    fit the table, never "out of fuel"). -/
theorem model_total (T : Table) (v : Visitor σ) (hv : Observer v) :
    ∀ (fuel : Nat) (m : String) (t : Node) (s : σ), t.depth ≤ fuel → visitM T v fuel m t s ≠ .fuel := by
  intro fuel
  induction fuel with
  | zero =>
    intro m t s h
    cases t with
    | mk k i a => simp [Node.depth] at h
  | succ fuel ih =>
    intro m t s h
    have he := hv t s
    rcases hes : v.enter t s with ⟨act, s1⟩
    rw [hes] at he
    simp only at he
    subst he
    simp only [visitM, hes, bodyMethod_of_kind_eq T _ t t rfl]
    split
    · simp
    · rename_i steps hm
      have hk : ∀ tg a x c s, t.getAttr a = some x → c ∈ kidsOfAttr x → callTarget T (visitM T v fuel) tg c s ≠ .fuel := by
        intro tg a x c s hg hc
        have hd : c.depth ≤ fuel := by have := kid_depth_lt hg hc; omega
        unfold callTarget
        split
        · exact ih _ c s hd
        · simp
      have := runSteps_nofuel T v hv fuel t steps s1 hk
      cases hr : runSteps (callTarget T (visitM T v fuel)) steps t s1 with
      | err e => simp
      | fuel => exact absurd hr this
      | ok q => obtain ⟨a, b, c⟩ := q; simp

/-- at the level of `ASTVisitor.visit`: with fuel = depth, a visit of ANY tree completes or reports an error -/
theorem visit_never_out_of_fuel (T : Table) (v : Visitor σ) (hv : Observer v) (t : Node) (s : σ) :
    visit T v t.depth t s ≠ .fuel := by
  unfold visit
  split
  · simp
  · exact model_total T v hv _ _ t s (Nat.le_refl _)

end PyGql.Props.C18

/-
  C19 — depth limiting flags exactly the operations deeper than the limit.

  LAYERS. The rule /repo runs today is `PyGql.Depth.ruleB` (`Generated/DepthVariant`: tolerantSkip, budgeted, sharedSeen; the
  loop as written is `ruleF`, Props/C19_frontier.lean, equal to `ruleB` on valid documents). Its theorems: `no_raise_all`,
  `pipelineB_never_raises`, `flags_iff_final`, `flags_iff_final_available`, `unbounded_only_if_invalid`, `measuredT_eq_depthK`
  here; `name_filter_final`, `pipeline_rejects_iff_final`, `ruleB_eq_expected` (Props/C19_current.lean); `wrap_inline_final`,
  `wrap_spread_final`, `wrap_*_in_fragment_final(_derived)` (Props/C19_wrapfrag.lean, C19_wrapvalid.lean).
  Everything stated about `rule` (after C19-Q1.patch), `ruleV` (after C19-Q1vars), `ruleR` (raw request variables), `ruleRT`
  (after C19-Q1vars2) and `depthFixed` concerns INTERMEDIATE patch states that /repo no longer contains: these theorems are the
  layers the final ones are built from (each says so in its doc comment). The model of the UNCHANGED rule (`ruleOrig`, through
  `selected_fields`) falsifies `flags_iff`, `no_raise` and `wrap_*_ge`: machine-checked witnesses in Props/C19_orig.lean (defect Q1).

  "valid document" is used through exactly two consequences of validity:
    * `acyclic doc.frags` — the decidable check that the computed fragment weights dominate
      the potential of every fragment body (NoFragmentCycles; compared with the real
      validator on every generated document);
    * `VarsBound`       — every variable used in an `@skip/@include` condition has a value
      (NoUndefinedVariables + coerced variables).
-/
import PyGqlModel.Lemmas.DepthCollect
import PyGqlModel.Lemmas.DepthAcyclic
import PyGqlModel.Lemmas.DepthTolerant
import PyGqlModel.Lemmas.DepthBudget

set_option linter.unusedVariables false
set_option linter.unusedSimpArgs false

namespace PyGql.Props.C19
open PyGql.Depth PyGql.DepthSpec PyGql.Depth.Lemmas

/-! ### what "valid" means here -/

def VarsBound (vars : Vars) (doc : Doc) : Prop :=
  (∀ op ∈ doc.ops, boundL vars op.sels = true) ∧ (∀ f ∈ doc.frags, boundL vars f.sels = true)

def Valid (doc : Doc) (vars : Vars) : Prop := acyclic doc.frags = true ∧ VarsBound vars doc

/-- the weights the fuel is computed from -/
abbrev wt (doc : Doc) : String → Nat := wOf (weights doc.frags)

private theorem acyclic_consistent (frags : List Frag) (h : acyclic frags = true) :
    Consistent frags (wOf (weights frags)) := by
  intro f hf
  simp only [acyclic, List.all_eq_true, decide_eq_true_eq] at h
  exact h f hf

private theorem le_maxList {l : List Nat} {x : Nat} (h : x ∈ l) : x ≤ maxList l := by
  induction l with
  | nil => cases h
  | cons y ys ih =>
    simp only [maxList]
    cases h with
    | head => omega
    | tail _ h => have := ih h; omega

private theorem fuel_ok (doc : Doc) (op : Op) (h : op ∈ doc.ops) : potL (wt doc) op.sels + 1 ≤ doc.fuel := by
  unfold Doc.fuel
  have : potL (wt doc) op.sels ∈ doc.ops.map (fun op => potL (wOf (weights doc.frags)) op.sels) :=
    List.mem_map_of_mem (f := fun op => potL (wOf (weights doc.frags)) op.sels) h
  have := le_maxList this
  omega

/-- the measured depth of an operation, for every sufficient fuel: the fuel disappears -/
private theorem depthFixed_eq (frags : List Frag) (vars : Vars) (w : String → Nat) (hc : Consistent frags w)
    (hfb : ∀ f ∈ frags, boundL vars f.sels = true) (op : Op) (hb : boundL vars op.sels = true)
    (fuel : Nat) (hfuel : potL w op.sels + 1 ≤ fuel) :
    depthFixed fuel op frags vars = .ok (cL frags vars w op.sels - 1) := by
  obtain ⟨K, rfl⟩ : ∃ K, fuel = K + 1 := ⟨fuel - 1, by omega⟩
  simp only [depthFixed, nestingLevels_ok frags vars w hc hfb K op.sels (by omega) hb]

/-! ### fuel irrelevance of the specification (acyclic documents) -/

/-- On acyclic documents every fuel ≥ `doc.fuel` ("fragments + nesting + 1") gives the same depth:
    the specification is well defined. -/
theorem depth_fuel_irrelevant (doc : Doc) (vars : Vars) (op : Op) (ha : acyclic doc.frags = true)
    (hop : op ∈ doc.ops) (k : Nat) (hk : doc.fuel ≤ k) :
    depthWith k doc vars op = depth doc vars op := by
  have hc := acyclic_consistent doc.frags ha
  have hf := fuel_ok doc op hop
  unfold depth depthWith
  rw [levels_eq_cL doc.frags vars (wt doc) hc k op.sels (by omega),
      levels_eq_cL doc.frags vars (wt doc) hc doc.fuel op.sels (by omega)]

private theorem depth_eq_cL (doc : Doc) (vars : Vars) (op : Op) (ha : acyclic doc.frags = true)
    (hop : op ∈ doc.ops) : depth doc vars op = cL doc.frags vars (wt doc) op.sels - 1 := by
  have hc := acyclic_consistent doc.frags ha
  have hf := fuel_ok doc op hop
  unfold depth depthWith
  rw [levels_eq_cL doc.frags vars (wt doc) hc doc.fuel op.sels (by omega)]

/-- **measured = specified**: the fixed rule measures exactly the specified depth of every operation
    of a valid document, with the driver's fuel and with any larger one. -/
theorem measured_eq_depth (doc : Doc) (vars : Vars) (hv : Valid doc vars) (op : Op) (hop : op ∈ doc.ops)
    (fuel : Nat) (hfuel : doc.fuel ≤ fuel) :
    depthFixed fuel op doc.frags vars = .ok (depth doc vars op) := by
  have hc := acyclic_consistent doc.frags hv.1
  have hf := fuel_ok doc op hop
  rw [depth_eq_cL doc vars op hv.1 hop]
  exact depthFixed_eq doc.frags vars (wt doc) hc hv.2.2 op (hv.2.1 op hop) fuel (by omega)

/-- per-operation form: only this operation's selections (and the fragments) need bound variables -/
theorem measured_eq_depth_op (doc : Doc) (vars : Vars) (ha : acyclic doc.frags = true)
    (hfb : ∀ f ∈ doc.frags, boundL vars f.sels = true) (op : Op) (hop : op ∈ doc.ops)
    (hb : boundL vars op.sels = true) (fuel : Nat) (hfuel : doc.fuel ≤ fuel) :
    depthFixed fuel op doc.frags vars = .ok (depth doc vars op) := by
  have hc := acyclic_consistent doc.frags ha
  have hf := fuel_ok doc op hop
  rw [depth_eq_cL doc vars op ha hop]
  exact depthFixed_eq doc.frags vars (wt doc) hc hfb op hb fuel (by omega)

/-! ### the loop over the operations -/

/-- the errors the rule must report, as a pure function of the per-operation depths -/
def expected (D : Nat → Op → Nat) (limit : Nat) (filter : Option String) : Nat → List Op → List (Nat × Nat)
  | _, [] => []
  | i, op :: rest =>
    if opSelected filter op && decide (D i op > limit) then (i, D i op) :: expected D limit filter (i + 1) rest
    else expected D limit filter (i + 1) rest

private theorem ruleLoop_eq (depthOf : Nat → Op → Except Err Nat) (D : Nat → Op → Nat) (limit : Nat) (filter : Option String) :
    ∀ (ops : List Op) (i : Nat), (∀ j op, ops[j]? = some op → depthOf (i + j) op = .ok (D (i + j) op)) →
      ruleLoop depthOf limit filter i ops = .ok (expected D limit filter i ops) := by
  intro ops
  induction ops with
  | nil => intro i _; simp [ruleLoop, expected]
  | cons op rest ih =>
    intro i h
    have h1 := h 0 op (by simp)
    simp only [Nat.add_zero] at h1
    have h2 := ih (i + 1) (fun j o ho => by
      have := h (j + 1) o (by simpa using ho)
      rw [show i + (j + 1) = i + 1 + j by omega] at this
      exact this)
    simp only [ruleLoop, expected, h1, h2]
    cases opSelected filter op <;> simp

theorem mem_expected (D : Nat → Op → Nat) (limit : Nat) (filter : Option String) :
    ∀ (ops : List Op) (i0 j d : Nat), (j, d) ∈ expected D limit filter i0 ops ↔
      ∃ op, i0 ≤ j ∧ ops[j - i0]? = some op ∧ opSelected filter op = true ∧ D j op > limit ∧ d = D j op := by
  intro ops
  induction ops with
  | nil => intro i0 j d; simp [expected]
  | cons op rest ih =>
    intro i0 j d
    simp only [expected]
    have hrest := ih (i0 + 1) j d
    constructor
    · intro h
      split at h
      · rename_i hc
        simp only [Bool.and_eq_true, decide_eq_true_eq] at hc
        simp only [List.mem_cons, Prod.mk.injEq] at h
        rcases h with ⟨rfl, rfl⟩ | h
        · exact ⟨op, by omega, by simp, hc.1, hc.2, rfl⟩
        · obtain ⟨o, h1, h2, h3⟩ := hrest.mp h
          refine ⟨o, by omega, ?_, h3⟩
          have : j - i0 = (j - (i0 + 1)) + 1 := by omega
          rw [this]; simpa using h2
      · obtain ⟨o, h1, h2, h3⟩ := hrest.mp h
        refine ⟨o, by omega, ?_, h3⟩
        have : j - i0 = (j - (i0 + 1)) + 1 := by omega
        rw [this]; simpa using h2
    · rintro ⟨o, h1, h2, h3, h4, h5⟩
      by_cases hj : j = i0
      · subst hj
        simp at h2
        subst h2
        simp [h3, h4, h5]
      · have hj' : j - i0 = (j - (i0 + 1)) + 1 := by omega
        rw [hj'] at h2
        have hm := hrest.mpr ⟨o, by omega, by simpa using h2, h3, h4, h5⟩
        split
        · exact List.mem_cons_of_mem _ hm
        · exact hm

/-- `rule` computes exactly `expected depth` on valid documents (every sufficient fuel).
    SUPERSEDED VARIANT: about `rule`, the model of an intermediate patch state /repo no longer contains; for the rule the tree runs see `ruleB_eq_expected`. -/
theorem rule_eq_expected (doc : Doc) (vars : Vars) (hv : Valid doc vars) (limit : Nat) (filter : Option String)
    (fuel : Nat) (hfuel : doc.fuel ≤ fuel) :
    rule fuel limit filter doc vars = .ok (expected (fun _ => depth doc vars) limit filter 0 doc.ops) := by
  unfold rule
  exact ruleLoop_eq _ (fun _ => depth doc vars) limit filter doc.ops 0
    (fun j op hop => measured_eq_depth doc vars hv op (List.mem_of_getElem? hop) fuel hfuel)

/-! ### after C19-Q1vars.patch: variables coerced per operation (`ruleV`) -/

/-- validity as `ruleV` needs it: for every operation, the variables IT sees (coerced with its own
    definitions and defaults; raw if they do not coerce) bind the directive variables -/
def ValidV (doc : Doc) (defs : List (List VarDef)) (vars : Vars) : Prop :=
  acyclic doc.frags = true ∧ ∀ i op, doc.ops[i]? = some op →
    boundL (effectiveVars (defs.getD i []) vars) op.sels = true ∧
    ∀ f ∈ doc.frags, boundL (effectiveVars (defs.getD i []) vars) f.sels = true

/-- specified depth of the i-th operation under the variables execution would give it -/
def depthV (doc : Doc) (defs : List (List VarDef)) (vars : Vars) (i : Nat) (op : Op) : Nat :=
  depth doc (effectiveVars (defs.getD i []) vars) op

/-- SUPERSEDED VARIANT: about `ruleV`, the model of an intermediate patch state /repo no longer contains; for the rule the tree runs see `ruleB_eq_expected`. -/
theorem ruleV_eq_expected (doc : Doc) (defs : List (List VarDef)) (vars : Vars) (hv : ValidV doc defs vars)
    (limit : Nat) (filter : Option String) (fuel : Nat) (hfuel : doc.fuel ≤ fuel) :
    ruleV fuel limit filter doc defs vars = .ok (expected (depthV doc defs vars) limit filter 0 doc.ops) := by
  unfold ruleV
  apply ruleLoop_eq _ (depthV doc defs vars) limit filter doc.ops 0
  intro j op hop
  simp only [Nat.zero_add]
  have h := hv.2 j op hop
  exact measured_eq_depth_op doc _ hv.1 h.2 op (List.mem_of_getElem? hop) h.1 fuel hfuel

/-- **flags_iff_v** — `flags_iff` for the rule that coerces the request variables per operation:
    reported ⇔ selected by the filter and deeper than the limit under the operation's coerced variables
    (declared defaults applied); nothing raised.
    SUPERSEDED VARIANT: about `ruleV`, the model of an intermediate patch state /repo no longer contains; for the rule the tree runs see `flags_iff_final`. -/
theorem flags_iff_v (doc : Doc) (defs : List (List VarDef)) (vars : Vars) (hv : ValidV doc defs vars)
    (limit : Nat) (filter : Option String) :
    ∃ errs, ruleV doc.fuel limit filter doc defs vars = .ok errs ∧
      ∀ (i : Nat) (op : Op), doc.ops[i]? = some op →
        ((∃ d, (i, d) ∈ errs) ↔ (opSelected filter op = true ∧ depthV doc defs vars i op > limit)) := by
  refine ⟨_, ruleV_eq_expected doc defs vars hv limit filter doc.fuel (Nat.le_refl _), ?_⟩
  intro i op hi
  constructor
  · rintro ⟨d, hd⟩
    obtain ⟨o, _, h2, h3, h4, _⟩ := (mem_expected _ limit filter doc.ops 0 i d).mp hd
    simp [hi] at h2; subst h2
    exact ⟨h3, h4⟩
  · rintro ⟨h3, h4⟩
    exact ⟨_, (mem_expected _ limit filter doc.ops 0 i _).mpr ⟨op, by omega, by simpa using hi, h3, h4, rfl⟩⟩

/-- **no_raise_v** — total on every valid request, defaulted variables that are omitted included
    SUPERSEDED VARIANT: about `ruleV`, the model of an intermediate patch state /repo no longer contains; for the rule the tree runs see `no_raise_all`. -/
theorem no_raise_v (doc : Doc) (defs : List (List VarDef)) (vars : Vars) (hv : ValidV doc defs vars)
    (limit : Nat) (filter : Option String) :
    ∃ errs, ruleV doc.fuel limit filter doc defs vars = .ok errs :=
  ⟨_, ruleV_eq_expected doc defs vars hv limit filter doc.fuel (Nat.le_refl _)⟩

/-! ### validity, declaratively: what the default validation rules guarantee -/

/-- UniqueFragmentNames + NoFragmentCycles (a rank decreasing along spreads of defined fragments) +
    NoUndefinedVariables/coercion (every directive variable has a value). No computed check, no fuel. -/
def ValidDecl (doc : Doc) (vars : Vars) : Prop :=
  UniqueNames doc.frags ∧ Acyclic doc.frags ∧ VarsBound vars doc

theorem valid_of_decl {doc : Doc} {vars : Vars} (h : ValidDecl doc vars) : Valid doc vars :=
  ⟨acyclic_complete doc.frags h.1 h.2.1, h.2.2⟩

/-- under unique fragment names the two notions coincide -/
theorem valid_iff_decl (doc : Doc) (vars : Vars) (hu : UniqueNames doc.frags) : Valid doc vars ↔ ValidDecl doc vars :=
  ⟨fun h => ⟨hu, acyclic_sound doc.frags h.1, h.2⟩, valid_of_decl⟩

def ValidDeclV (doc : Doc) (defs : List (List VarDef)) (vars : Vars) : Prop :=
  UniqueNames doc.frags ∧ Acyclic doc.frags ∧ ∀ i op, doc.ops[i]? = some op →
    boundL (effectiveVars (defs.getD i []) vars) op.sels = true ∧
    ∀ f ∈ doc.frags, boundL (effectiveVars (defs.getD i []) vars) f.sels = true

theorem validV_of_decl {doc : Doc} {defs : List (List VarDef)} {vars : Vars} (h : ValidDeclV doc defs vars) :
    ValidV doc defs vars :=
  ⟨acyclic_complete doc.frags h.1 h.2.1, h.2.2⟩

/-! ### the property's first sentence, over the pipeline -/

/-- **pipeline_rejects_iff** — `graphql_blocking(schema, doc, variables, validators=[default_validator,
    MaxDepthValidationRule(n, operation_name=filter)])` on a validated request: nothing is raised, and the
    request is rejected with a depth error IFF some operation selected by the filter has a specified depth,
    under ITS coerced variables, greater than `n` — for every `n ≥ 0` (0 included), every filter, whatever
    the default validator reports. -/
theorem outcome_generic (ops : List Op) (D : Nat → Op → Nat) (n : Nat) (filter : Option String)
    (r : Except Err (List (Nat × Nat))) (he : r = .ok (expected D n filter 0 ops)) (defaultErrors : Nat) :
    (∀ e, outcomeOf r defaultErrors ≠ .raised e) ∧
    ((outcomeOf r defaultErrors).depthRejected = true ↔
      ∃ i op, ops[i]? = some op ∧ opSelected filter op = true ∧ D i op > n) ∧
    (outcomeOf r defaultErrors = .executed ↔
      defaultErrors = 0 ∧ ∀ i op, ops[i]? = some op → opSelected filter op = true → D i op ≤ n) := by
  have hmem := mem_expected D n filter ops 0
  have hempty : expected D n filter 0 ops = [] ↔
      ∀ i op, ops[i]? = some op → opSelected filter op = true → D i op ≤ n := by
    constructor
    · intro h i op hi hs
      by_cases hd : D i op > n
      · have := (hmem i _).mpr ⟨op, by omega, by simpa using hi, hs, hd, rfl⟩
        rw [h] at this; cases this
      · omega
    · intro h
      cases hx : expected D n filter 0 ops with
      | nil => rfl
      | cons x xs =>
        obtain ⟨j, d⟩ := x
        have : (j, d) ∈ expected D n filter 0 ops := by rw [hx]; simp
        obtain ⟨op, _, h2, h3, h4, _⟩ := (hmem j d).mp this
        have := h j op (by simpa using h2) h3
        omega
  subst he
  refine ⟨?_, ?_, ?_⟩
  · intro e
    simp only [outcomeOf]
    split <;> simp
  · simp only [outcomeOf]
    constructor
    · intro h
      by_cases hnil : expected D n filter 0 ops = []
      · rw [hnil] at h
        split at h <;> simp [Outcome.depthRejected] at h
      · by_cases hex : ∃ i op, ops[i]? = some op ∧ opSelected filter op = true ∧ D i op > n
        · exact hex
        · exfalso
          apply hnil
          apply hempty.mpr
          intro i op hi hs
          by_cases hd : D i op ≤ n
          · exact hd
          · exact absurd ⟨i, op, hi, hs, by omega⟩ hex
    · rintro ⟨i, op, hi, hs, hd⟩
      have hne : expected D n filter 0 ops ≠ [] := by
        intro h
        have := hempty.mp h i op hi hs
        omega
      cases hx : expected D n filter 0 ops with
      | nil => exact absurd hx hne
      | cons x xs => simp [Outcome.depthRejected]
  · simp only [outcomeOf]
    constructor
    · intro h
      split at h
      · rename_i hc
        exact ⟨hc.1, hempty.mp hc.2⟩
      · cases h
    · rintro ⟨h0, hall⟩
      rw [if_pos ⟨h0, hempty.mpr hall⟩]

/-- SUPERSEDED VARIANT: about `ruleV (pipeline)`, the model of an intermediate patch state /repo no longer contains; for the rule the tree runs see `pipeline_rejects_iff_final`. -/
theorem pipeline_rejects_iff (doc : Doc) (defs : List (List VarDef)) (vars : Vars) (hv : ValidDeclV doc defs vars)
    (n : Nat) (filter : Option String) (defaultErrors : Nat) :
    (∀ e, pipeline doc.fuel n filter doc defs vars defaultErrors ≠ .raised e) ∧
    ((pipeline doc.fuel n filter doc defs vars defaultErrors).depthRejected = true ↔
      ∃ i op, doc.ops[i]? = some op ∧ opSelected filter op = true ∧ depthV doc defs vars i op > n) ∧
    (pipeline doc.fuel n filter doc defs vars defaultErrors = .executed ↔
      defaultErrors = 0 ∧ ∀ i op, doc.ops[i]? = some op → opSelected filter op = true → depthV doc defs vars i op ≤ n) :=
  outcome_generic doc.ops (depthV doc defs vars) n filter _
    (ruleV_eq_expected doc defs vars (validV_of_decl hv) n filter doc.fuel (Nat.le_refl _)) defaultErrors

/-! ### arbitrary JSON request variables — including requests whose variables do NOT coerce -/

/-- what `ruleR` needs: for every operation, the view of the variables the rule evaluates its directives with
    (the coerced ones, or the RAW request variables when they do not coerce for that operation) makes every
    directive variable available -/
def ValidDeclR (doc : Doc) (defs : List (List VarDefR)) (raw : RawVars) : Prop :=
  UniqueNames doc.frags ∧ Acyclic doc.frags ∧ ∀ i op, doc.ops[i]? = some op →
    boundL (effectiveVarsR (defs.getD i []) raw) op.sels = true ∧
    ∀ f ∈ doc.frags, boundL (effectiveVarsR (defs.getD i []) raw) f.sels = true

/-- specified depth of the i-th operation under the variables the rule evaluates it with -/
def depthR (doc : Doc) (defs : List (List VarDefR)) (raw : RawVars) (i : Nat) (op : Op) : Nat :=
  depth doc (effectiveVarsR (defs.getD i []) raw) op

/-- SUPERSEDED VARIANT: about `ruleR`, the model of an intermediate patch state /repo no longer contains; for the rule the tree runs see `ruleB_eq_expected`. -/
theorem ruleR_eq_expected (doc : Doc) (defs : List (List VarDefR)) (raw : RawVars) (hv : ValidDeclR doc defs raw)
    (limit : Nat) (filter : Option String) (fuel : Nat) (hfuel : doc.fuel ≤ fuel) :
    ruleR fuel limit filter doc defs raw = .ok (expected (depthR doc defs raw) limit filter 0 doc.ops) := by
  unfold ruleR
  apply ruleLoop_eq _ (depthR doc defs raw) limit filter doc.ops 0
  intro j op hop
  simp only [Nat.zero_add]
  have h := hv.2.2 j op hop
  exact measured_eq_depth_op doc _ (acyclic_complete doc.frags hv.1 hv.2.1) h.2 op (List.mem_of_getElem? hop) h.1 fuel hfuel

/-- **flags_iff_raw** — arbitrary JSON request variables, coercible for some operations and not for others:
    nothing raised, and the i-th operation is reported iff it is selected and deeper than the limit under the
    variables the rule evaluates it with.
    SUPERSEDED VARIANT: about `ruleR`, the model of an intermediate patch state /repo no longer contains; for the rule the tree runs see `flags_iff_final_available`. -/
theorem flags_iff_raw (doc : Doc) (defs : List (List VarDefR)) (raw : RawVars) (hv : ValidDeclR doc defs raw)
    (limit : Nat) (filter : Option String) :
    ∃ errs, ruleR doc.fuel limit filter doc defs raw = .ok errs ∧
      ∀ (i : Nat) (op : Op), doc.ops[i]? = some op →
        ((∃ d, (i, d) ∈ errs) ↔ (opSelected filter op = true ∧ depthR doc defs raw i op > limit)) := by
  refine ⟨_, ruleR_eq_expected doc defs raw hv limit filter doc.fuel (Nat.le_refl _), ?_⟩
  intro i op hi
  constructor
  · rintro ⟨d, hd⟩
    obtain ⟨o, _, h2, h3, h4, _⟩ := (mem_expected _ limit filter doc.ops 0 i d).mp hd
    simp [hi] at h2; subst h2
    exact ⟨h3, h4⟩
  · rintro ⟨h3, h4⟩
    exact ⟨_, (mem_expected _ limit filter doc.ops 0 i _).mpr ⟨op, by omega, by simpa using hi, h3, h4, rfl⟩⟩

/-- **flags_uncoercible** — the case the seeded change got wrong: an operation whose variables do NOT coerce
    (`coerce_variable_values` raises) is still measured — with the RAW request variables (by truthiness) — and is
    reported iff selected and deeper than the limit under them. It is never skipped.
    SUPERSEDED VARIANT: about `ruleR`, the model of an intermediate patch state /repo no longer contains; for the rule the tree runs see `flags_iff_final`. -/
theorem flags_uncoercible (doc : Doc) (defs : List (List VarDefR)) (raw : RawVars) (hv : ValidDeclR doc defs raw)
    (limit : Nat) (filter : Option String) (i : Nat) (op : Op) (hi : doc.ops[i]? = some op)
    (hfail : coerceRaw (defs.getD i []) raw = none) :
    ∃ errs, ruleR doc.fuel limit filter doc defs raw = .ok errs ∧
      ((∃ d, (i, d) ∈ errs) ↔ (opSelected filter op = true ∧ depth doc (viewOf raw) op > limit)) := by
  obtain ⟨errs, he, h⟩ := flags_iff_raw doc defs raw hv limit filter
  refine ⟨errs, he, ?_⟩
  have hd : depthR doc defs raw i op = depth doc (viewOf raw) op := by
    unfold depthR effectiveVarsR
    rw [hfail]
    rfl
  rw [h i op hi, hd]

/-- **pipeline_rejects_iff_raw** — `pipeline_rejects_iff` for arbitrary JSON request variables (requests whose
    variables do not coerce for some or all operations included): nothing raised; rejected with a depth error iff a
    selected operation is too deep under the variables the rule evaluates it with.
    SUPERSEDED VARIANT: about `ruleR (pipelineR)`, the model of an intermediate patch state /repo no longer contains; for the rule the tree runs see `pipeline_rejects_iff_final`. -/
theorem pipeline_rejects_iff_raw (doc : Doc) (defs : List (List VarDefR)) (raw : RawVars) (hv : ValidDeclR doc defs raw)
    (n : Nat) (filter : Option String) (defaultErrors : Nat) :
    (∀ e, pipelineR doc.fuel n filter doc defs raw defaultErrors ≠ .raised e) ∧
    ((pipelineR doc.fuel n filter doc defs raw defaultErrors).depthRejected = true ↔
      ∃ i op, doc.ops[i]? = some op ∧ opSelected filter op = true ∧ depthR doc defs raw i op > n) ∧
    (pipelineR doc.fuel n filter doc defs raw defaultErrors = .executed ↔
      defaultErrors = 0 ∧ ∀ i op, doc.ops[i]? = some op → opSelected filter op = true → depthR doc defs raw i op ≤ n) :=
  outcome_generic doc.ops (depthR doc defs raw) n filter _
    (ruleR_eq_expected doc defs raw hv n filter doc.fuel (Nat.le_refl _)) defaultErrors

/-! ### headline theorems -/

/-- **flags_iff** — an error is reported for the operation at index `i` exactly when it is selected
    by the `operation_name` filter and its specified depth exceeds the limit; the reported number
    is that depth; nothing is raised. (With `filter = none` every operation is selected.)
    SUPERSEDED VARIANT: about `rule`, the model of an intermediate patch state /repo no longer contains; for the rule the tree runs see `flags_iff_final / flags_iff_final_frontier`. -/
theorem flags_iff (doc : Doc) (vars : Vars) (hv : Valid doc vars) (limit : Nat) (filter : Option String) :
    ∃ errs, rule doc.fuel limit filter doc vars = .ok errs ∧
      ∀ (i : Nat) (op : Op), doc.ops[i]? = some op →
        ((∃ d, (i, d) ∈ errs) ↔ (opSelected filter op = true ∧ depth doc vars op > limit)) ∧
        (∀ d, (i, d) ∈ errs → d = depth doc vars op) := by
  refine ⟨_, rule_eq_expected doc vars hv limit filter doc.fuel (Nat.le_refl _), ?_⟩
  intro i op hi
  constructor
  · constructor
    · rintro ⟨d, hd⟩
      obtain ⟨o, _, h2, h3, h4, _⟩ := (mem_expected _ limit filter doc.ops 0 i d).mp hd
      simp [hi] at h2; subst h2
      exact ⟨h3, h4⟩
    · rintro ⟨h3, h4⟩
      exact ⟨_, (mem_expected _ limit filter doc.ops 0 i _).mpr ⟨op, by omega, by simpa using hi, h3, h4, rfl⟩⟩
  · intro d hd
    obtain ⟨o, _, h2, _, _, h5⟩ := (mem_expected _ limit filter doc.ops 0 i d).mp hd
    simp [hi] at h2; subst h2
    exact h5

/-- **no_raise** — the rule is total on every valid document (flat operations, operations that are
    empty after `@skip/@include`, top-level fragments included), for every limit and filter.
    SUPERSEDED VARIANT: about `rule`, the model of an intermediate patch state /repo no longer contains; for the rule the tree runs see `no_raise_all / ruleF_never_raises`. -/
theorem no_raise (doc : Doc) (vars : Vars) (hv : Valid doc vars) (limit : Nat) (filter : Option String) :
    ∃ errs, rule doc.fuel limit filter doc vars = .ok errs :=
  ⟨_, rule_eq_expected doc vars hv limit filter doc.fuel (Nat.le_refl _)⟩

/-- **name_filter** — with `operation_name = n` (non-empty) only operations named `n` are ever
    reported, and an operation named `n` is reported iff it is too deep.
    SUPERSEDED VARIANT: about `rule`, the model of an intermediate patch state /repo no longer contains; for the rule the tree runs see `name_filter_final`. -/
theorem name_filter (doc : Doc) (vars : Vars) (hv : Valid doc vars) (limit : Nat) (n : String) (hn : n ≠ "") :
    ∃ errs, rule doc.fuel limit (some n) doc vars = .ok errs ∧
      ∀ (i : Nat) (op : Op), doc.ops[i]? = some op →
        ((∃ d, (i, d) ∈ errs) ↔ (op.name = some n ∧ depth doc vars op > limit)) := by
  obtain ⟨errs, he, h⟩ := flags_iff doc vars hv limit (some n)
  refine ⟨errs, he, ?_⟩
  intro i op hi
  rw [(h i op hi).1]
  simp [opSelected, hn]

/-- the filter `none` (and `""`, which Python treats as falsy) selects every operation -/
theorem no_filter_selects_all (op : Op) : opSelected none op = true ∧ opSelected (some "") op = true := by
  simp [opSelected]

/-- `flags_iff` / `no_raise` with the declarative hypothesis only
    SUPERSEDED VARIANT: about `rule`, the model of an intermediate patch state /repo no longer contains; for the rule the tree runs see `flags_iff_final`. -/
theorem flags_iff_validated (doc : Doc) (vars : Vars) (hv : ValidDecl doc vars) (limit : Nat) (filter : Option String) :
    ∃ errs, rule doc.fuel limit filter doc vars = .ok errs ∧
      ∀ (i : Nat) (op : Op), doc.ops[i]? = some op →
        ((∃ d, (i, d) ∈ errs) ↔ (opSelected filter op = true ∧ depth doc vars op > limit)) := by
  obtain ⟨errs, he, h⟩ := flags_iff doc vars (valid_of_decl hv) limit filter
  exact ⟨errs, he, fun i op hi => (h i op hi).1⟩

/-- SUPERSEDED VARIANT: about `ruleV`, the model of an intermediate patch state /repo no longer contains; for the rule the tree runs see `flags_iff_final`. -/
theorem flags_iff_v_validated (doc : Doc) (defs : List (List VarDef)) (vars : Vars) (hv : ValidDeclV doc defs vars)
    (limit : Nat) (filter : Option String) :
    ∃ errs, ruleV doc.fuel limit filter doc defs vars = .ok errs ∧
      ∀ (i : Nat) (op : Op), doc.ops[i]? = some op →
        ((∃ d, (i, d) ∈ errs) ↔ (opSelected filter op = true ∧ depthV doc defs vars i op > limit)) :=
  flags_iff_v doc defs vars (validV_of_decl hv) limit filter

/-! ### wrapping never lowers the depth -/

/-- `sels'` is `sels` with one contiguous block of selections, at any nesting level, wrapped in a
    directive-free inline fragment -/
inductive WrapInline : List Sel → List Sel → Prop
  | here (pre mid post : List Sel) : WrapInline (pre ++ mid ++ post) (pre ++ [.inline {} mid] ++ post)
  | field (pre post : List Sel) (a n d) (sub sub' : List Sel) : WrapInline sub sub' →
      WrapInline (pre ++ [.field a n d sub] ++ post) (pre ++ [.field a n d sub'] ++ post)
  | inline (pre post : List Sel) (d) (ss ss' : List Sel) : WrapInline ss ss' →
      WrapInline (pre ++ [.inline d ss] ++ post) (pre ++ [.inline d ss'] ++ post)

private theorem skipped_none (vars : Vars) : skipped vars {} = false := by simp [skipped]

private theorem boundSel_inline_none (vars : Vars) (mid : List Sel) :
    boundSel vars (.inline {} mid) = boundL vars mid := by
  simp [boundSel, dirsBound, optBound]

private theorem wrapInline_cL (frags : List Frag) (vars : Vars) (w : String → Nat) (hc : Consistent frags w)
    {s s' : List Sel} (h : WrapInline s s') : cL frags vars w s' = cL frags vars w s := by
  induction h with
  | here pre mid post =>
    simp [cL_append, cL_cons, cL_nil, cLv_inline frags vars w hc, skipped_none]
  | field pre post a n d sub sub' _ ih =>
    simp [cL_append, cL_cons, cL_nil, cLv_field frags vars w hc, ih]
  | inline pre post d ss ss' _ ih =>
    simp [cL_append, cL_cons, cL_nil, cLv_inline frags vars w hc, ih]

theorem wrapInline_bound (vars : Vars) {s s' : List Sel} (h : WrapInline s s') :
    boundL vars s' = boundL vars s := by
  induction h with
  | here pre mid post => simp [boundL_append, boundL_cons, boundSel_inline_none, boundL]
  | field pre post a n d sub sub' _ ih => simp [boundL_append, boundL_cons, boundSel, ih]
  | inline pre post d ss ss' _ ih => simp [boundL_append, boundL_cons, boundSel, ih]

/-- **wrap_inline_ge** — wrapping selections of an operation (at the top or at any nesting level) in an
    inline fragment never lowers the depth the rule measures (in fact it leaves it unchanged).
    `doc'` is any document with the same fragments that contains the wrapped operation.
    SUPERSEDED VARIANT: about `depthFixed`, the model of an intermediate patch state /repo no longer contains; for the rule the tree runs see `wrap_inline_final`. -/
theorem wrap_inline_ge (doc doc' : Doc) (vars : Vars) (hv : Valid doc vars) (op : Op) (hop : op ∈ doc.ops)
    (sels' : List Sel) (hw : WrapInline op.sels sels') (hfr : doc'.frags = doc.frags)
    (hop' : (⟨op.name, sels'⟩ : Op) ∈ doc'.ops) :
    ∃ d d', depthFixed doc.fuel op doc.frags vars = .ok d ∧
      depthFixed doc'.fuel ⟨op.name, sels'⟩ doc'.frags vars = .ok d' ∧ d ≤ d' ∧ d' = depth doc vars op := by
  have hc := acyclic_consistent doc.frags hv.1
  have h1 := measured_eq_depth doc vars hv op hop doc.fuel (Nat.le_refl _)
  have hf' := fuel_ok doc' ⟨op.name, sels'⟩ hop'
  have hb' : boundL vars sels' = true := by rw [wrapInline_bound vars hw]; exact hv.2.1 op hop
  have h2 := depthFixed_eq doc.frags vars (wt doc) hc hv.2.2 ⟨op.name, sels'⟩ hb' doc'.fuel
    (by unfold wt at hf' ⊢; rw [hfr] at hf'; exact hf')
  rw [hfr]
  refine ⟨_, _, h1, h2, ?_, ?_⟩ <;>
    simp [wrapInline_cL doc.frags vars (wt doc) hc hw, depth_eq_cL doc vars op hv.1 hop]

/-! #### named fragments -/

/-- `sels'` is `sels` with one contiguous block `body`, at any nesting level, replaced by a
    directive-free spread of the fragment `nm` -/
inductive WrapSpread (nm : String) (body : List Sel) : List Sel → List Sel → Prop
  | here (pre post : List Sel) : WrapSpread nm body (pre ++ body ++ post) (pre ++ [.spread nm {}] ++ post)
  | field (pre post : List Sel) (a n d) (sub sub' : List Sel) : WrapSpread nm body sub sub' →
      WrapSpread nm body (pre ++ [.field a n d sub] ++ post) (pre ++ [.field a n d sub'] ++ post)
  | inline (pre post : List Sel) (d) (ss ss' : List Sel) : WrapSpread nm body ss ss' →
      WrapSpread nm body (pre ++ [.inline d ss] ++ post) (pre ++ [.inline d ss'] ++ post)

private theorem freeL_cons (nm : String) (s ss) : freeL nm (s :: ss) = (freeSel nm s && freeL nm ss) := by
  simp [freeL]

private theorem freeL_append (nm : String) (a b : List Sel) : freeL nm (a ++ b) = (freeL nm a && freeL nm b) := by
  induction a with
  | nil => simp [freeL]
  | cons x xs ih => simp [freeL_cons, ih, Bool.and_assoc]

private theorem freeL_mem (nm : String) : ∀ (l : List Sel) (s : Sel), freeL nm l = true → s ∈ l → freeSel nm s = true := by
  intro l
  induction l with
  | nil => intro s _ h; cases h
  | cons x xs ih =>
    intro s hb h
    simp [freeL_cons] at hb
    cases h with
    | head => exact hb.1
    | tail _ h => exact ih s hb.2 h

private theorem lookup_extended (frags : List Frag) (nm : String) (body : List Sel) (n : String) :
    lookupFrag (frags ++ [⟨nm, body⟩]) n = if nm == n then some ⟨nm, body⟩ else lookupFrag frags n := by
  simp [lookupFrag, List.find?_cons]
  split <;> simp_all

/-- frame: selections that do not mention `nm` have the same levels with and without the new fragment -/
private theorem levelsSel_frame (frags : List Frag) (vars : Vars) (nm : String) (body : List Sel)
    (hfree : ∀ f ∈ frags, freeL nm f.sels = true) :
    ∀ (k : Nat) (s : Sel), freeSel nm s = true →
      levelsSel (frags ++ [⟨nm, body⟩]) vars k s = levelsSel frags vars k s := by
  intro k
  induction k with
  | zero => intro s _; simp [levelsSel]
  | succ k ih =>
    have hlist : ∀ l : List Sel, freeL nm l = true →
        l.map (levelsSel (frags ++ [⟨nm, body⟩]) vars k) = l.map (levelsSel frags vars k) := by
      intro l hl
      apply List.map_congr_left
      intro c hc
      exact ih c (freeL_mem nm l c hl hc)
    intro s hs
    cases s with
    | field a n d sub => simp only [freeSel] at hs; simp only [levelsSel, hlist sub hs]
    | inline d ss => simp only [freeSel] at hs; simp only [levelsSel, hlist ss hs]
    | spread n d =>
      simp only [freeSel, bne_iff_ne, ne_eq] at hs
      simp only [levelsSel, lookup_extended]
      have : (nm == n) = false := by simp; exact fun h => hs h.symm
      simp only [this]
      cases hl : lookupFrag frags n with
      | none => simp
      | some f =>
        have ⟨hm, _⟩ := lookupFrag_some hl
        simp [hlist f.sels (hfree f hm)]

private theorem cL_frame (frags : List Frag) (vars : Vars) (nm : String) (body : List Sel)
    (w w' : String → Nat) (hc : Consistent frags w) (hc' : Consistent (frags ++ [⟨nm, body⟩]) w')
    (hfree : ∀ f ∈ frags, freeL nm f.sels = true) (l : List Sel) (hl : freeL nm l = true) :
    cL (frags ++ [⟨nm, body⟩]) vars w' l = cL frags vars w l := by
  have e1 := levels_eq_cL (frags ++ [(⟨nm, body⟩ : Frag)]) vars w' hc' (max (potL w l) (potL w' l)) l (by omega)
  have e2 := levels_eq_cL frags vars w hc (max (potL w l) (potL w' l)) l (by omega)
  rw [← e1, ← e2]
  unfold levels
  congr 1
  apply List.map_congr_left
  intro c hcm
  exact levelsSel_frame frags vars nm body hfree _ c (freeL_mem nm l c hl hcm)

private theorem wrapSpread_cL (frags : List Frag) (vars : Vars) (nm : String) (body : List Sel)
    (w w' : String → Nat) (hc : Consistent frags w) (hc' : Consistent (frags ++ [⟨nm, body⟩]) w')
    (hfree : ∀ f ∈ frags, freeL nm f.sels = true)
    {s s' : List Sel} (h : WrapSpread nm body s s') (hs : freeL nm s = true) :
    cL (frags ++ [⟨nm, body⟩]) vars w' s' = cL frags vars w s := by
  induction h with
  | here pre post =>
    simp only [freeL_append, Bool.and_eq_true] at hs
    have hlk : fragLv (frags ++ [⟨nm, body⟩]) vars w' nm = cL (frags ++ [⟨nm, body⟩]) vars w' body := by
      simp [fragLv, lookup_extended]
    simp only [cL_append, cL_cons, cL_nil, cLv_spread _ vars w' hc', skipped_none, hlk,
      cL_frame frags vars nm body w w' hc hc' hfree _ hs.1.1,
      cL_frame frags vars nm body w w' hc hc' hfree _ hs.1.2,
      cL_frame frags vars nm body w w' hc hc' hfree _ hs.2]
    simp
  | field pre post a n d sub sub' _ ih =>
    simp only [freeL_append, freeL_cons, freeSel, freeL, Bool.and_eq_true, Bool.and_true] at hs
    simp only [cL_append, cL_cons, cL_nil, cLv_field _ vars w' hc', cLv_field _ vars w hc, ih hs.1.2,
      cL_frame frags vars nm body w w' hc hc' hfree _ hs.1.1,
      cL_frame frags vars nm body w w' hc hc' hfree _ hs.2]
  | inline pre post d ss ss' _ ih =>
    simp only [freeL_append, freeL_cons, freeSel, freeL, Bool.and_eq_true, Bool.and_true] at hs
    simp only [cL_append, cL_cons, cL_nil, cLv_inline _ vars w' hc', cLv_inline _ vars w hc, ih hs.1.2,
      cL_frame frags vars nm body w w' hc hc' hfree _ hs.1.1,
      cL_frame frags vars nm body w w' hc hc' hfree _ hs.2]

theorem wrapSpread_bound (vars : Vars) (nm : String) (body : List Sel) {s s' : List Sel}
    (h : WrapSpread nm body s s') (hb : boundL vars s = true) : boundL vars s' = true ∧ boundL vars body = true := by
  induction h with
  | here pre post =>
    simp only [boundL_append, boundL_cons, boundSel, dirsBound, optBound, boundL, Bool.and_eq_true,
      Bool.and_true, and_true, true_and] at hb ⊢
    exact ⟨⟨hb.1.1, hb.2⟩, hb.1.2⟩
  | field pre post a n d sub sub' _ ih =>
    simp only [boundL_append, boundL_cons, boundSel, boundL, Bool.and_eq_true, Bool.and_true] at hb ⊢
    have := ih hb.1.2.2
    exact ⟨⟨⟨hb.1.1, hb.1.2.1, this.1⟩, hb.2⟩, this.2⟩
  | inline pre post d ss ss' _ ih =>
    simp only [boundL_append, boundL_cons, boundSel, boundL, Bool.and_eq_true, Bool.and_true] at hb ⊢
    have := ih hb.1.2.2
    exact ⟨⟨⟨hb.1.1, hb.1.2.1, this.1⟩, hb.2⟩, this.2⟩

theorem wrapSpread_free_body (nm : String) (body : List Sel) {s s' : List Sel}
    (h : WrapSpread nm body s s') (hs : freeL nm s = true) : freeL nm body = true := by
  induction h with
  | here pre post =>
    simp only [freeL_append, Bool.and_eq_true] at hs
    exact hs.1.2
  | field pre post a n d sub sub' _ ih =>
    simp only [freeL_append, freeL_cons, freeSel, freeL, Bool.and_eq_true, Bool.and_true] at hs
    exact ih hs.1.2
  | inline pre post d ss ss' _ ih =>
    simp only [freeL_append, freeL_cons, freeSel, freeL, Bool.and_eq_true, Bool.and_true] at hs
    exact ih hs.1.2

/-- **wrap_spread_ge** — moving selections of an operation (at the top or at any nesting level) into a
    new named fragment `nm` and spreading it never lowers the depth the rule measures.
    `nm` is fresh: not defined, and not spread in the operation or in any fragment body. (That the wrapped
    document still passes the acyclicity check is proved: `Lemmas.acyclic_extend`.)
    SUPERSEDED VARIANT: about `depthFixed`, the model of an intermediate patch state /repo no longer contains; for the rule the tree runs see `wrap_spread_final`. -/
theorem wrap_spread_ge (doc doc' : Doc) (vars : Vars) (hv : Valid doc vars) (op : Op) (hop : op ∈ doc.ops)
    (nm : String) (body sels' : List Sel) (hw : WrapSpread nm body op.sels sels')
    (hfr : doc'.frags = doc.frags ++ [⟨nm, body⟩]) (hfresh : ∀ f ∈ doc.frags, f.name ≠ nm)
    (hfree : ∀ f ∈ doc.frags, freeL nm f.sels = true) (hfreeop : freeL nm op.sels = true)
    (hop' : (⟨op.name, sels'⟩ : Op) ∈ doc'.ops) :
    ∃ d d', depthFixed doc.fuel op doc.frags vars = .ok d ∧
      depthFixed doc'.fuel ⟨op.name, sels'⟩ doc'.frags vars = .ok d' ∧ d ≤ d' ∧ d' = depth doc vars op := by
  have ha' : acyclic doc'.frags = true := by
    rw [hfr]
    exact acyclic_extend doc.frags nm body hv.1 hfree hfresh (wrapSpread_free_body nm body hw hfreeop)
  have hc := acyclic_consistent doc.frags hv.1
  have hc' := acyclic_consistent doc'.frags ha'
  have h1 := measured_eq_depth doc vars hv op hop doc.fuel (Nat.le_refl _)
  have hf' := fuel_ok doc' ⟨op.name, sels'⟩ hop'
  have hbb := wrapSpread_bound vars nm body hw (hv.2.1 op hop)
  have hfb' : ∀ f ∈ doc'.frags, boundL vars f.sels = true := by
    intro f hf
    rw [hfr] at hf
    simp at hf
    rcases hf with hf | hf
    · exact hv.2.2 f hf
    · subst hf; exact hbb.2
  have h2 := depthFixed_eq doc'.frags vars (wt doc') hc' hfb' ⟨op.name, sels'⟩ hbb.1 doc'.fuel hf'
  have hcl : cL doc'.frags vars (wt doc') sels' = cL doc.frags vars (wt doc) op.sels := by
    have := wrapSpread_cL doc.frags vars nm body (wt doc) (wt doc') hc (by rw [← hfr]; exact hc') hfree hw hfreeop
    rw [hfr]
    exact this
  refine ⟨_, _, h1, h2, ?_, ?_⟩ <;> simp [hcl, depth_eq_cL doc vars op hv.1 hop]

/-! ### after C19-Q1vars2.patch: conditions that cannot be evaluated keep the selection (`ruleRT`)

  No availability hypothesis any more: the rule never raises, for ANY JSON request variables. The depth it
  measures is the specified depth of the document in which every `@skip/@include` that cannot be evaluated
  with the operation's variables is dropped (`eraseDoc`): an upper bound over the unknown condition. -/

/-- specified depth under the kept-when-unknown reading of `@skip/@include` for the variable view `v` -/
def depthK (doc : Doc) (v : Vars) (op : Op) : Nat := depth (eraseDoc v doc) v (eraseOp v op)

/-- … of the i-th operation, for the variables the rule evaluates it with -/
def depthRK (doc : Doc) (defs : List (List VarDefR)) (raw : RawVars) (i : Nat) (op : Op) : Nat :=
  depthK doc (effectiveVarsR (defs.getD i []) raw) op

private theorem depthFixedG_sim (fuel : Nat) (op : Op) (frags : List Frag) (v : Vars) :
    depthFixedG skipSelectionT fuel op frags v = depthFixed fuel (eraseOp v op) (eraseFrags v frags) v := by
  unfold depthFixedG depthFixed eraseOp
  rw [nestingLevels_sim v frags fuel op.sels]

theorem measuredT_eq_depthK (doc : Doc) (hu : UniqueNames doc.frags) (ha : Acyclic doc.frags) (v : Vars)
    (op : Op) (hop : op ∈ doc.ops) (fuel : Nat) (hfuel : doc.fuel ≤ fuel) :
    depthFixedG skipSelectionT fuel op doc.frags v = .ok (depthK doc v op) := by
  rw [depthFixedG_sim]
  have hac : acyclic (eraseDoc v doc).frags = true := by
    show acyclic (eraseFrags v doc.frags) = true
    rw [acyclic_erase]; exact acyclic_complete doc.frags hu ha
  have hfb : ∀ f ∈ (eraseDoc v doc).frags, boundL v f.sels = true := by
    intro f hf
    simp only [eraseDoc, eraseFrags, List.mem_map] at hf
    obtain ⟨g, _, rfl⟩ := hf
    exact boundL_erase v g.sels
  have hop' : eraseOp v op ∈ (eraseDoc v doc).ops := List.mem_map_of_mem (f := eraseOp v) hop
  exact measured_eq_depth_op (eraseDoc v doc) v hac hfb (eraseOp v op) hop' (boundL_erase v op.sels) fuel
    (by rw [fuel_erase]; exact hfuel)

/-- SUPERSEDED VARIANT: about `ruleRT`, the model of an intermediate patch state /repo no longer contains; for the rule the tree runs see `ruleB_eq_expected`. -/
theorem ruleRT_eq_expected (doc : Doc) (defs : List (List VarDefR)) (raw : RawVars)
    (hu : UniqueNames doc.frags) (ha : Acyclic doc.frags)
    (limit : Nat) (filter : Option String) (fuel : Nat) (hfuel : doc.fuel ≤ fuel) :
    ruleRT fuel limit filter doc defs raw = .ok (expected (depthRK doc defs raw) limit filter 0 doc.ops) := by
  unfold ruleRT
  apply ruleLoop_eq _ (depthRK doc defs raw) limit filter doc.ops 0
  intro j op hop
  simp only [Nat.zero_add]
  exact measuredT_eq_depthK doc hu ha _ op (List.mem_of_getElem? hop) fuel hfuel

/-- **no_raise_repaired** — the repaired rule never raises: for every document with unique, acyclic fragments
    (what validation guarantees), EVERY JSON request variables, every limit and filter. No hypothesis on the
    variables at all.
    SUPERSEDED VARIANT: about `ruleRT`, the model of an intermediate patch state /repo no longer contains; for the rule the tree runs see `no_raise_all`. -/
theorem no_raise_repaired (doc : Doc) (defs : List (List VarDefR)) (raw : RawVars)
    (hu : UniqueNames doc.frags) (ha : Acyclic doc.frags) (limit : Nat) (filter : Option String) :
    ∃ errs, ruleRT doc.fuel limit filter doc defs raw = .ok errs :=
  ⟨_, ruleRT_eq_expected doc defs raw hu ha limit filter doc.fuel (Nat.le_refl _)⟩

/-- **flags_iff_repaired** — reported ⇔ selected and deeper than the limit under the kept-when-unknown reading
    SUPERSEDED VARIANT: about `ruleRT`, the model of an intermediate patch state /repo no longer contains; for the rule the tree runs see `flags_iff_final`. -/
theorem flags_iff_repaired (doc : Doc) (defs : List (List VarDefR)) (raw : RawVars)
    (hu : UniqueNames doc.frags) (ha : Acyclic doc.frags) (limit : Nat) (filter : Option String) :
    ∃ errs, ruleRT doc.fuel limit filter doc defs raw = .ok errs ∧
      ∀ (i : Nat) (op : Op), doc.ops[i]? = some op →
        ((∃ d, (i, d) ∈ errs) ↔ (opSelected filter op = true ∧ depthRK doc defs raw i op > limit)) := by
  refine ⟨_, ruleRT_eq_expected doc defs raw hu ha limit filter doc.fuel (Nat.le_refl _), ?_⟩
  intro i op hi
  constructor
  · rintro ⟨d, hd⟩
    obtain ⟨o, _, h2, h3, h4, _⟩ := (mem_expected _ limit filter doc.ops 0 i d).mp hd
    simp [hi] at h2; subst h2
    exact ⟨h3, h4⟩
  · rintro ⟨h3, h4⟩
    exact ⟨_, (mem_expected _ limit filter doc.ops 0 i _).mpr ⟨op, by omega, by simpa using hi, h3, h4, rfl⟩⟩

/-- **pipeline_rejects_iff_repaired** — the pipeline with the repaired rule, for ANY JSON request variables
    SUPERSEDED VARIANT: about `ruleRT (pipelineRT)`, the model of an intermediate patch state /repo no longer contains; for the rule the tree runs see `pipeline_rejects_iff_final`. -/
theorem pipeline_rejects_iff_repaired (doc : Doc) (defs : List (List VarDefR)) (raw : RawVars)
    (hu : UniqueNames doc.frags) (ha : Acyclic doc.frags) (n : Nat) (filter : Option String) (defaultErrors : Nat) :
    (∀ e, pipelineRT doc.fuel n filter doc defs raw defaultErrors ≠ .raised e) ∧
    ((pipelineRT doc.fuel n filter doc defs raw defaultErrors).depthRejected = true ↔
      ∃ i op, doc.ops[i]? = some op ∧ opSelected filter op = true ∧ depthRK doc defs raw i op > n) ∧
    (pipelineRT doc.fuel n filter doc defs raw defaultErrors = .executed ↔
      defaultErrors = 0 ∧ ∀ i op, doc.ops[i]? = some op → opSelected filter op = true → depthRK doc defs raw i op ≤ n) :=
  outcome_generic doc.ops (depthRK doc defs raw) n filter _
    (ruleRT_eq_expected doc defs raw hu ha n filter doc.fuel (Nat.le_refl _)) defaultErrors

/-- when every directive variable is available nothing is dropped: the kept-when-unknown depth IS the depth
    (so on `ValidDeclR` requests the repaired rule reports exactly what the unrepaired one reports) -/
theorem depthK_eq_depth (doc : Doc) (v : Vars) (op : Op) (hb : boundL v op.sels = true)
    (hfb : ∀ f ∈ doc.frags, boundL v f.sels = true) : depthK doc v op = depth doc v op := by
  have hfr : eraseFrags v doc.frags = doc.frags := by
    unfold eraseFrags
    have : ∀ f ∈ doc.frags, eraseFrag v f = f := by
      intro f hf
      unfold eraseFrag
      rw [eraseL_id v f.sels (hfb f hf)]
    rw [List.map_congr_left this, List.map_id']
  unfold depthK depth depthWith
  rw [fuel_erase]
  show levels (eraseFrags v doc.frags) v doc.fuel (eraseL v op.sels) - 1 = _
  rw [hfr, eraseL_id v op.sels hb]

/-! ### after C19-Q2.patch: a nesting budget — the rule is total on EVERY document, cyclic ones included (`ruleB`) -/

/-- **no_raise_all** — no hypothesis at all: for every document (cyclic fragments, duplicate names, undefined
    spreads …), every JSON request variables, every limit and filter, the rule returns a list of errors. -/
theorem no_raise_all (doc : Doc) (defs : List (List VarDefR)) (raw : RawVars) (limit : Nat) (filter : Option String) :
    ∃ errs, ruleB limit filter doc defs raw = .ok errs := by
  unfold ruleB
  exact ruleLoopB_total _ (fun i op => depthFixedB_total _ _ _ _) limit filter doc.ops 0

/-- … and so the validation pipeline never lets an exception of the depth rule escape -/
theorem pipelineB_never_raises (doc : Doc) (defs : List (List VarDefR)) (raw : RawVars) (n : Nat)
    (filter : Option String) (defaultErrors : Nat) (e : Err) :
    pipelineB n filter doc defs raw defaultErrors ≠ .raised e := by
  obtain ⟨errs, he⟩ := no_raise_all doc defs raw n filter
  simp only [pipelineB, he, outcomeOf]
  split <;> simp

theorem ruleLoopB_of_some (depthOf : Nat → Op → Except Err (Option Nat)) (D : Nat → Op → Nat)
    (limit : Nat) (filter : Option String) :
    ∀ (ops : List Op) (i : Nat), (∀ j op, ops[j]? = some op → depthOf (i + j) op = .ok (some (D (i + j) op))) →
      ruleLoopB depthOf limit filter i ops = .ok ((expected D limit filter i ops).map fun p => (p.1, some p.2)) := by
  intro ops
  induction ops with
  | nil => intro i _; simp [ruleLoopB, expected]
  | cons op rest ih =>
    intro i h
    have h1 := h 0 op (by simp)
    simp only [Nat.add_zero] at h1
    have h2 := ih (i + 1) (fun j o ho => by
      have := h (j + 1) o (by simpa using ho)
      rw [show i + (j + 1) = i + 1 + j by omega] at this
      exact this)
    simp only [ruleLoopB, expected, h1, h2]
    cases opSelected filter op <;> simp
    split <;> simp_all

/-- **flags_iff_final** — on documents with unique, acyclic fragments the budget changes nothing: reported ⇔ selected
    and deeper than the limit (kept-when-unknown reading), with that depth as the reported number; never
    "unbounded". -/
theorem flags_iff_final (doc : Doc) (defs : List (List VarDefR)) (raw : RawVars)
    (hu : UniqueNames doc.frags) (ha : Acyclic doc.frags) (limit : Nat) (filter : Option String) :
    ∃ errs, ruleB limit filter doc defs raw = .ok errs ∧
      ∀ (i : Nat) (op : Op), doc.ops[i]? = some op →
        ((∃ d, (i, d) ∈ errs) ↔ (opSelected filter op = true ∧ depthRK doc defs raw i op > limit)) ∧
        (∀ d, (i, d) ∈ errs → d = some (depthRK doc defs raw i op)) := by
  have hB : ruleB limit filter doc defs raw =
      .ok ((expected (depthRK doc defs raw) limit filter 0 doc.ops).map fun p => (p.1, some p.2)) := by
    unfold ruleB
    apply ruleLoopB_of_some _ (depthRK doc defs raw) limit filter doc.ops 0
    intro j op hop
    simp only [Nat.zero_add]
    have := measuredT_eq_depthK doc hu ha (effectiveVarsR (defs.getD j []) raw) op (List.mem_of_getElem? hop)
      doc.budget (fuel_le_budget doc)
    simp only [depthFixedB, this]
    rfl
  refine ⟨_, hB, ?_⟩
  intro i op hi
  have hmem := mem_expected (depthRK doc defs raw) limit filter doc.ops 0 i
  constructor
  · constructor
    · rintro ⟨d, hd⟩
      simp only [List.mem_map, Prod.mk.injEq] at hd
      obtain ⟨⟨j, n⟩, hjn, rfl, rfl⟩ := hd
      obtain ⟨o, _, h2, h3, h4, _⟩ := (hmem n).mp hjn
      simp [hi] at h2; subst h2
      exact ⟨h3, h4⟩
    · rintro ⟨h3, h4⟩
      refine ⟨some (depthRK doc defs raw i op), ?_⟩
      simp only [List.mem_map, Prod.mk.injEq]
      exact ⟨(i, depthRK doc defs raw i op),
        (hmem _).mpr ⟨op, by omega, by simpa using hi, h3, h4, rfl⟩, rfl, rfl⟩
  · intro d hd
    simp only [List.mem_map, Prod.mk.injEq] at hd
    obtain ⟨⟨j, n⟩, hjn, rfl, rfl⟩ := hd
    obtain ⟨o, _, h2, _, _, h5⟩ := (hmem n).mp hjn
    simp [hi] at h2; subst h2
    rw [h5]

/-- an operation is reported as "unbounded" only on documents validation rejects (a fragment cycle, or duplicate
    fragment names) -/
theorem unbounded_only_if_invalid (doc : Doc) (defs : List (List VarDefR)) (raw : RawVars) (limit : Nat)
    (filter : Option String) (errs : List (Nat × Option Nat)) (he : ruleB limit filter doc defs raw = .ok errs)
    (i : Nat) (hi : (i, none) ∈ errs) : ¬ (UniqueNames doc.frags ∧ Acyclic doc.frags) := by
  rintro ⟨hu, ha⟩
  obtain ⟨errs', he', h⟩ := flags_iff_final doc defs raw hu ha limit filter
  rw [he] at he'
  cases he'
  -- the index belongs to an operation: read it off the loop result
  have hB : ruleB limit filter doc defs raw =
      .ok ((expected (depthRK doc defs raw) limit filter 0 doc.ops).map fun p => (p.1, some p.2)) := by
    unfold ruleB
    apply ruleLoopB_of_some _ (depthRK doc defs raw) limit filter doc.ops 0
    intro j op hop
    simp only [Nat.zero_add]
    have := measuredT_eq_depthK doc hu ha (effectiveVarsR (defs.getD j []) raw) op (List.mem_of_getElem? hop)
      doc.budget (fuel_le_budget doc)
    simp only [depthFixedB, this]
    rfl
  rw [he] at hB
  cases hB
  simp only [List.mem_map, Prod.mk.injEq] at hi
  obtain ⟨_, _, _, h⟩ := hi
  cases h

end PyGql.Props.C19

/-
  C11 — the extension step looks at a live type only through its SKELETON (name, kind, member names).

  `extend_accepts_merge` / `ext_types` (Props/C11_merge.lean) are stated for live types that `buildTypeDef` built over the
  SAME environment the extension step uses.  The public `extend_schema` extends types that were built earlier, over
  the definitions of another document, and new types built with `buildTypeDefX`: here the same results from the
  skeleton alone (`Skel`), which both kinds of types have (`skel_of_build`, `skel_of_buildX`).
-/
import PyGqlModel.Props.C11_extend_exact

set_option linter.unusedVariables false
set_option linter.unusedSimpArgs false

namespace PyGql.Props.C11
open PyGql PyGql.Sdl PyGql.SdlSpec

/-- `bt` has the name, the kind and the member NAMES of the definition `t` -/
structure Skel (t : TypeDef) (bt : TypeD) : Prop where
  name : bt.name = t.name
  kind : bt.kind = t.kind
  fields : (t.kind = .object ∨ t.kind = .interface) → bt.fields.map (·.name) = t.fields.map (·.name)
  interfaces : t.kind = .object → bt.interfaces = t.interfaces
  members : t.kind = .union → bt.members = t.members
  values : t.kind = .enum → bt.values.map (·.name) = t.values.map (·.name)
  inputFields : t.kind = .input → bt.inputFields.map (·.name) = t.inputFields.map (·.name)

theorem skel_of_build (env : Env) (d : TypeDef) (r : TypeD) (h : buildTypeDef env d = .ok r) : Skel d r := by
  unfold buildTypeDef at h
  cases hk : d.kind <;> simp only [hk] at h
  · have := ok_inj h; subst this; exact ⟨rfl, hk.symm, by simp [hk], by simp [hk], by simp [hk], by simp [hk], by simp [hk]⟩
  · obtain ⟨fs, hfs, h1⟩ := bind_ok _ _ _ h
    obtain ⟨_, _, h2⟩ := bind_ok _ _ _ h1
    have := ok_inj h2; subst this
    have hn := mapM_names _ (·.name) (·.name) (fun x y hxy => buildField_name env x y hxy) _ _ hfs
    exact ⟨rfl, hk.symm, fun _ => hn, fun _ => rfl, by simp [hk], by simp [hk], by simp [hk]⟩
  · obtain ⟨fs, hfs, h1⟩ := bind_ok _ _ _ h
    have := ok_inj h1; subst this
    have hn := mapM_names _ (·.name) (·.name) (fun x y hxy => buildField_name env x y hxy) _ _ hfs
    exact ⟨rfl, hk.symm, fun _ => hn, by simp [hk], by simp [hk], by simp [hk], by simp [hk]⟩
  · obtain ⟨_, _, h1⟩ := bind_ok _ _ _ h
    have := ok_inj h1; subst this
    exact ⟨rfl, hk.symm, by simp [hk], by simp [hk], fun _ => rfl, by simp [hk], by simp [hk]⟩
  · obtain ⟨_, _, h1⟩ := bind_ok _ _ _ h
    obtain ⟨vs, hvs, h2⟩ := bind_ok _ _ _ h1
    have := ok_inj h2; subst this
    have hn := mapM_names _ (·.name) (·.name) (fun x y hxy => buildEnumValue_name x y hxy) _ _ hvs
    exact ⟨rfl, hk.symm, by simp [hk], by simp [hk], by simp [hk], fun _ => hn, by simp [hk]⟩
  · obtain ⟨fs, hfs, h1⟩ := bind_ok _ _ _ h
    have := ok_inj h1; subst this
    have hn := mapM_names _ (·.name) (·.name) (fun x y hxy => buildArgument_name env x y hxy) _ _ hfs
    exact ⟨rfl, hk.symm, by simp [hk], by simp [hk], by simp [hk], by simp [hk], fun _ => hn⟩

theorem skel_of_buildX (eB eX : Env) (hide : Option String) (d : TypeDef) (r : TypeD) (h : buildTypeDefX eB eX hide d = .ok r) : Skel d r := by
  unfold buildTypeDefX at h
  cases hk : d.kind <;> simp only [hk] at h
  · have := ok_inj h; subst this; exact ⟨rfl, hk.symm, by simp [hk], by simp [hk], by simp [hk], by simp [hk], by simp [hk]⟩
  · obtain ⟨fs, hfs, h1⟩ := bind_ok _ _ _ h
    obtain ⟨_, _, h2⟩ := bind_ok _ _ _ h1
    have := ok_inj h2; subst this
    have hn := mapM_names _ (·.name) (·.name) (fun x y hxy => buildFieldX_name eB eX hide x y hxy) _ _ hfs
    exact ⟨rfl, hk.symm, fun _ => hn, fun _ => rfl, by simp [hk], by simp [hk], by simp [hk]⟩
  · obtain ⟨fs, hfs, h1⟩ := bind_ok _ _ _ h
    have := ok_inj h1; subst this
    have hn := mapM_names _ (·.name) (·.name) (fun x y hxy => buildFieldX_name eB eX hide x y hxy) _ _ hfs
    exact ⟨rfl, hk.symm, fun _ => hn, by simp [hk], by simp [hk], by simp [hk], by simp [hk]⟩
  · obtain ⟨_, _, h1⟩ := bind_ok _ _ _ h
    have := ok_inj h1; subst this
    exact ⟨rfl, hk.symm, by simp [hk], by simp [hk], fun _ => rfl, by simp [hk], by simp [hk]⟩
  · obtain ⟨_, _, h1⟩ := bind_ok _ _ _ h
    obtain ⟨vs, hvs, h2⟩ := bind_ok _ _ _ h1
    have := ok_inj h2; subst this
    have hn := mapM_names _ (·.name) (·.name) (fun x y hxy => buildEnumValue_name x y hxy) _ _ hvs
    exact ⟨rfl, hk.symm, by simp [hk], by simp [hk], by simp [hk], fun _ => hn, by simp [hk]⟩
  · obtain ⟨fs, hfs, h1⟩ := bind_ok _ _ _ h
    have := ok_inj h1; subst this
    have hn := mapM_names _ (·.name) (·.name) (fun x y hxy => buildArgumentX_name eB eX hide x y hxy) _ _ hfs
    exact ⟨rfl, hk.symm, by simp [hk], by simp [hk], by simp [hk], by simp [hk], fun _ => hn⟩

/-- the member list of the merged definition, built in the extension step's way, against the CURRENT members `cur`
    (only their names are known to be those of the definition) -/
theorem members_skel {α β} (bfX : α → R β) (na : α → String) (nb : β → String)
    (hbfX : ∀ x y, bfX x = .ok y → nb y = na x)
    (sel : TypeDef → List α) (base : List α) (es : List TypeDef) (cur all : List β)
    (hcur : cur.map nb = base.map na) (hall : (base ++ es.flatMap sel).mapM bfX = .ok all) (hn : (all.map nb).Nodup) :
    (∀ e ∈ es, (sel e).mapM bfX = .ok (newsOf bfX sel e)) ∧ ((cur ++ es.flatMap (newsOf bfX sel)).map nb).Nodup := by
  obtain ⟨r₁, r₂, h1, h2, h3⟩ := mapM_append_inv _ _ _ _ hall
  obtain ⟨hnews, hflat⟩ := flatMap_mapM_inv bfX sel es r₂ h2
  refine ⟨hnews, ?_⟩
  have e2 := mapM_names bfX na nb hbfX _ _ h1
  rw [h3, hflat, List.map_append, e2, ← hcur, ← List.map_append] at hn
  exact hn

/-- **the link from the skeleton**: if `bt` has the skeleton of the definition `t`, the MERGED definition builds in
    the extension step's way, every extension block has the definition's kind and no member name is repeated in the
    result, then the extension step accepts `bt`. -/
theorem extend_accepts_skel (eB eX : Env) (hide : Option String) (X : List TypeDef) (t : TypeDef) (bt r : TypeD)
    (hs : Skel t bt) (hm : buildTypeDefX eB eX hide (mergeDef X t) = .ok r)
    (hk : ∀ e ∈ X, e.name = t.name → e.kind = t.kind)
    (hn : (r.fields.map (·.name)).Nodup ∧ (r.inputFields.map (·.name)).Nodup ∧ (r.values.map (·.name)).Nodup ∧
          r.members.Nodup ∧ r.interfaces.Nodup) :
    ∃ c, extendTypeX eB eX hide X bt = .ok c ∧ c.name = t.name ∧ c.kind = t.kind := by
  obtain ⟨s1, s2, s3, s4, s5, s6, s7, s8⟩ := mergeDef_spec X t
  have hmine : X.filter (·.name == bt.name) = mineOf X t.name := by rw [hs.name]
  unfold buildTypeDefX at hm
  rw [s1] at hm
  cases hkk : t.kind <;> simp only [hkk] at hm
  · -- scalar
    have hbk : bt.kind = .scalar := by rw [hs.kind, hkk]
    exact ⟨_, extend_scalar_exact eB eX hide X bt hbk (fun e he hne => by rw [hk e he (hne.trans hs.name), hkk]), hs.name, hbk⟩
  · -- object
    have hbk : bt.kind = .object := by rw [hs.kind, hkk]
    obtain ⟨fs', hfs', hm1⟩ := bind_ok _ _ _ hm
    obtain ⟨_, hc, hm2⟩ := bind_ok _ _ _ hm1
    have er := ok_inj hm2
    rw [s4] at hfs'
    rw [s5] at hc
    have hc2 := checkNames_flatMap_inv eB (·.interfaces) _ (checkNames_append_inv eB _ _ hc).2
    subst er
    obtain ⟨hnews, hnd⟩ := members_skel (buildFieldX eB eX hide) (·.name) (·.name) (buildFieldX_name eB eX hide)
      (·.fields) t.fields (mineOf X t.name) bt.fields fs' (hs.fields (Or.inl hkk)) hfs' hn.1
    have hni : (bt.interfaces ++ (mineOf X t.name).flatMap (·.interfaces)).Nodup := by
      have := hn.2.2.2.2; simp only [] at this; rw [s5] at this; rw [hs.interfaces hkk]; exact this
    refine ⟨_, extend_object_exact eB eX hide X bt hbk (fun e he hne => by rw [hk e he (hne.trans hs.name), hkk])
      (newsOf (buildFieldX eB eX hide) (·.fields)) (by rw [hmine]; exact hnews) (by rw [hmine]; exact hnd)
      (by rw [hmine]; exact hc2) (by rw [hmine]; exact hni), hs.name, hbk⟩
  · -- interface
    have hbk : bt.kind = .interface := by rw [hs.kind, hkk]
    obtain ⟨fs', hfs', hm2⟩ := bind_ok _ _ _ hm
    have er := ok_inj hm2
    rw [s4] at hfs'
    subst er
    obtain ⟨hnews, hnd⟩ := members_skel (buildFieldX eB eX hide) (·.name) (·.name) (buildFieldX_name eB eX hide)
      (·.fields) t.fields (mineOf X t.name) bt.fields fs' (hs.fields (Or.inr hkk)) hfs' hn.1
    exact ⟨_, extend_interface_exact eB eX hide X bt hbk (fun e he hne => by rw [hk e he (hne.trans hs.name), hkk])
      (newsOf (buildFieldX eB eX hide) (·.fields)) (by rw [hmine]; exact hnews) (by rw [hmine]; exact hnd), hs.name, hbk⟩
  · -- union
    have hbk : bt.kind = .union := by rw [hs.kind, hkk]
    obtain ⟨_, hc, hm2⟩ := bind_ok _ _ _ hm
    have er := ok_inj hm2
    rw [s6] at hc
    have hc2 := checkNames_flatMap_inv eB (·.members) _ (checkNames_append_inv eB _ _ hc).2
    subst er
    have hnm : (bt.members ++ (mineOf X t.name).flatMap (·.members)).Nodup := by
      have := hn.2.2.2.1; simp only [] at this; rw [s6] at this; rw [hs.members hkk]; exact this
    exact ⟨_, extend_union_exact eB eX hide X bt hbk (fun e he hne => by rw [hk e he (hne.trans hs.name), hkk])
      (by rw [hmine]; exact hc2) (by rw [hmine]; exact hnm), hs.name, hbk⟩
  · -- enum
    have hbk : bt.kind = .enum := by rw [hs.kind, hkk]
    obtain ⟨_, _, hm1⟩ := bind_ok _ _ _ hm
    obtain ⟨fs', hfs', hm2⟩ := bind_ok _ _ _ hm1
    have er := ok_inj hm2
    rw [s7] at hfs'
    subst er
    obtain ⟨hnews, hnd⟩ := members_skel buildEnumValue (·.name) (·.name) buildEnumValue_name
      (·.values) t.values (mineOf X t.name) bt.values fs' (hs.values hkk) hfs' hn.2.2.1
    exact ⟨_, extend_enum_exact eB eX hide X bt hbk (fun e he hne => by rw [hk e he (hne.trans hs.name), hkk])
      (newsOf buildEnumValue (·.values)) (by rw [hmine]; exact hnews) (by rw [hmine]; exact hnd), hs.name, hbk⟩
  · -- input
    have hbk : bt.kind = .input := by rw [hs.kind, hkk]
    obtain ⟨fs', hfs', hm2⟩ := bind_ok _ _ _ hm
    have er := ok_inj hm2
    rw [s8] at hfs'
    subst er
    obtain ⟨hnews, hnd⟩ := members_skel (buildArgumentX eB eX hide) (·.name) (·.name) (buildArgumentX_name eB eX hide)
      (·.inputFields) t.inputFields (mineOf X t.name) bt.inputFields fs' (hs.inputFields hkk) hfs' hn.2.1
    exact ⟨_, extend_input_exact eB eX hide X bt hbk (fun e he hne => by rw [hk e he (hne.trans hs.name), hkk])
      (newsOf (buildArgumentX eB eX hide) (·.inputFields)) (by rw [hmine]; exact hnews) (by rw [hmine]; exact hnd), hs.name, hbk⟩

/-- registry level: live types with the skeletons of the definitions `defs` are accepted by the extension step, and what
    is registered — every type rebuilt from its merged definition — is `rs` -/
theorem ext_types_skel (defs X : List TypeDef) (cur rs : List TypeD)
    (uniqueTypes : (defs.map (·.name)).Nodup)
    (extTargets : ∀ e ∈ X, ∃ t ∈ defs, t.name = e.name ∧ t.kind = e.kind)
    (hcur : All₂ Skel defs cur)
    (hrs : defs.mapM (fun t => buildTypeDefX (Env.of defs) ((Env.of defs).extended X) (hideFor t.kind t.name) (mergeDef X t)) = .ok rs)
    (membersUnique : ∀ r ∈ rs, (r.fields.map (·.name)).Nodup ∧ (r.inputFields.map (·.name)).Nodup ∧ (r.values.map (·.name)).Nodup ∧
      r.members.Nodup ∧ r.interfaces.Nodup) :
    ∃ cs, cur.mapM (fun t => extendTypeX (Env.of defs) ((Env.of defs).extended X) (hideFor t.kind t.name) X t) = .ok cs ∧
      cs.mapM (fun t => reDefault (Env.of defs) ((Env.of defs).extended X) (hideFor t.kind t.name) X t) = .ok rs := by
  have hQ := mapM_forall₂ _ _ _ hrs
  -- pair each definition with its current type and its declared type
  have hacc : ∃ cs, cur.mapM (fun t => extendTypeX (Env.of defs) ((Env.of defs).extended X) (hideFor t.kind t.name) X t) = .ok cs ∧
      All₂ (fun t (c : TypeD) => c.name = t.name ∧ c.kind = t.kind) defs cs := by
    refine mapM_link_ex _ _ _ _ _ hcur ?_
    intro t bt ht hs
    obtain ⟨r, hr, hm⟩ := all₂_mem_left _ _ _ hQ t ht
    show ∃ c, extendTypeX _ _ (hideFor bt.kind bt.name) _ bt = .ok c ∧ _
    rw [hs.name, hs.kind]
    refine extend_accepts_skel _ _ _ _ t bt r hs hm ?_ (membersUnique r hr)
    intro e he hne
    obtain ⟨t', ht', hn', hk'⟩ := extTargets e he
    have : t' = t := nodup_map_inj (·.name) _ uniqueTypes t' ht' t ht (hn'.trans hne)
    rw [← hk', this]
  obtain ⟨cs, hcs, hnames⟩ := hacc
  refine ⟨cs, hcs, ?_⟩
  refine mapM_link _ _ _ _ _ _ hnames hQ ?_
  intro t c r ht _ hc hm
  show reDefault _ _ (hideFor c.kind c.name) _ c = .ok r
  unfold reDefault
  have hfa : (Env.of defs).findAdditional c.name = none := by simp [Env.of]
  have hfd : (Env.of defs).findDef c.name = some t := by
    rw [hc.1]; exact find_name_of_mem (·.name) _ uniqueTypes t ht
  rw [hfa, hfd, hc.1, hc.2]
  exact hm

end PyGql.Props.C11

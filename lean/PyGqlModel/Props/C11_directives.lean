/-
  C11 — `schema_directives=`: WHICH parts of a document have their applied directives handed to
  `apply_schema_directives` by `extend_schema` (the `within=` node list `used` of schema_from_ast.py).

  `build_schema` applies the schema directives once, to the schema it built (`within=None`: every node).  `extend_schema`
  applies them to `used` = the schema extensions, the NEW type and directive definitions and the kept type extensions of
  the document — the four results of `_collect_extensions` (`ExtCollected`).  By name:

  * `used_definitions_are_new`: whatever `strict`, a type / directive definition among the used parts does not take the
    name of a type / directive of the schema being extended — the directives written on a definition the schema already
    has were applied when it was built and are not applied again;
  * `two_phase_directives_once`: for the two-phase build the code describes (build the definitions of a document, then
    `extend_schema(base, sameDocument, strict=False)`) the used parts are exactly the extension blocks: every definition's
    directives are applied by the first phase only, every extension block's by the second only.

  The application itself (SchemaDirective visitors) is not modelled; harness/corr/C11.py `run_schema_directives_once`
  counts applications on the real code (seeded change C14-12 breaks `used_definitions_are_new`).
-/
import PyGqlModel.Props.C11_extend_lax

set_option linter.unusedVariables false
set_option linter.unusedSimpArgs false

namespace PyGql.Props.C11
open PyGql PyGql.Sdl PyGql.SdlSpec

/-- `used` of `extend_schema`: `list(schema_exts) + list(type_defs.values()) + list(directive_defs.values()) + [type extensions]` -/
def usedParts (c : ExtCollected) : Doc :=
  c.schemaExts.map .schemaExt ++ c.typeDefs.map .type ++ c.dirDefs.map .directive ++ c.typeExts.map .ext

theorem typeDefs_laxKeep_new (live : Live) (B : Doc) : ∀ t ∈ typeDefs (laxKeep live B), live.hasType t.name = false := by
  intro t ht
  unfold laxKeep typeDefs at ht
  simp only [List.mem_filterMap, List.mem_filter] at ht
  obtain ⟨d, ⟨⟨_, hk⟩, _⟩, hd⟩ := ht
  cases d <;> simp at hd
  subst hd
  simpa [laxKeepDef] using hk

theorem dirDefs_laxKeep_new (live : Live) (B : Doc) : ∀ x ∈ dirDefs (laxKeep live B), live.hasDirective x.name = false := by
  intro t ht
  unfold laxKeep dirDefs at ht
  simp only [List.mem_filterMap, List.mem_filter] at ht
  obtain ⟨d, ⟨⟨_, hk⟩, _⟩, hd⟩ := ht
  cases d <;> simp at hd
  subst hd
  simpa [laxKeepDef] using hk

/-- **directives of definitions the schema already has are not applied again**: in both modes, a definition among the
    parts `extend_schema` applies schema directives to is NEW (strict mode has refused the document otherwise,
    non-strict mode has dropped the definition). -/
theorem used_definitions_are_new (live : Live) (doc : Doc) (strict : Bool) (c : ExtCollected)
    (h : collectExtensions live doc strict = .ok c) :
    (∀ t, Def.type t ∈ usedParts c → live.hasType t.name = false) ∧
    (∀ x, Def.directive x ∈ usedParts c → live.hasDirective x.name = false) := by
  have key : (∀ t ∈ c.typeDefs, live.hasType t.name = false) ∧ (∀ x ∈ c.dirDefs, live.hasDirective x.name = false) := by
    cases strict with
    | true =>
      obtain ⟨e1, e2, _, _, _, h6, h7⟩ := collect_strict_exact live doc c h
      rw [e1, e2]; exact ⟨h6, h7⟩
    | false =>
      rw [lax_is_strict_on_kept] at h
      obtain ⟨e1, e2, _, _, _, _, _⟩ := collect_strict_exact live _ c h
      rw [e1, e2]; exact ⟨typeDefs_laxKeep_new live doc, dirDefs_laxKeep_new live doc⟩
  constructor
  · intro t ht
    simp only [usedParts, List.mem_append, List.mem_map] at ht
    rcases ht with ((⟨_, _, h'⟩ | ⟨t', ht', h'⟩) | ⟨_, _, h'⟩) | ⟨_, _, h'⟩
    · cases h'
    · cases h'; exact key.1 t ht'
    · cases h'
    · cases h'
  · intro x hx
    simp only [usedParts, List.mem_append, List.mem_map] at hx
    rcases hx with ((⟨_, _, h'⟩ | ⟨_, _, h'⟩) | ⟨x', hx', h'⟩) | ⟨_, _, h'⟩
    · cases h'
    · cases h'
    · cases h'; exact key.2 x hx'
    · cases h'

/-- **two-phase build: every application is applied once.**  `live` built from `doc` (it has every type and directive
    `doc` defines): the non-strict `extend_schema(live, doc)` applies schema directives to the extension blocks of `doc`
    and to nothing else — no definition is among the used parts. -/
theorem two_phase_directives_once (live : Live) (doc : Doc)
    (hT : ∀ t ∈ typeDefs doc, live.hasType t.name = true) (hD : ∀ d ∈ dirDefs doc, live.hasDirective d.name = true) :
    ∃ c, collectExtensions live doc false = .ok c ∧
      usedParts c = (schemaExtensions doc).map .schemaExt ++ (typeExtensions live doc).map .ext := by
  refine ⟨_, collect_lax_self live doc hT hD, ?_⟩
  simp [usedParts]

/-- non-vacuity / the C14-12 shape: `type Query @mark { q: Int }  extend type Query { x: Int }` extended by itself uses
    the extension block only -/
example : (match collectExtensions { types := [{ kind := .object, name := "Query" }], directives := [], roots := {} }
      [.type { kind := .object, name := "Query", dirs := [{ name := "mark" }] }, .ext { kind := .object, name := "Query" }] false with
    | .ok c => (usedParts c).length == 1 && c.typeDefs.isEmpty
    | .error _ => false) = true := by decide

/-- non-vacuity of `two_phase_directives_once`: the hypotheses hold for a schema built from the document -/
example := two_phase_directives_once { types := [{ kind := .object, name := "Query" }], directives := [], roots := {} }
  [.type { kind := .object, name := "Query", dirs := [{ name := "mark" }] }, .ext { kind := .object, name := "Query" }] (by decide) (by decide)

end PyGql.Props.C11

/-
  C07: the hand-written model of `schema/scalars.coerce_int` (`Coerce.coerceInt`, over JSON values) EQUALS the definition the
  translator derives from the source text on every run (`Generated/TrScalars.lean`: the whole `if / elif` chain, the three
  `try / except` blocks with the classes they catch, the emptiness / `None` / range guards), instantiated with the model's
  reading of Python's dynamic operations. An edit of `coerce_int` (a dropped guard, another caught class, a reordered branch)
  changes the generated definition and re-opens the proof.
-/
import PyGqlModel.Coerce
import PyGqlModel.Generated.TrScalars

namespace PyGql.Props.C07
open PyGql PyGql.Coerce PyGql.Generated PyGql.PyNum PyGql.Generated.Scalars

/-! the model's reading of the dynamic operations `coerce_int` applies to its argument (a JSON value) -/

def isIntJ : JV → Bool | .bool _ => true | .int _ => true | _ => false        -- isinstance(x, int): bool is an int
def isFloatJ : JV → Bool | .float _ => true | _ => false
def isStrJ : JV → Bool | .str _ => true | _ => false
def isNoneJ : JV → Bool | .null => true | _ => false
def strIsEmptyJ : JV → Bool | .str s => s == "" | _ => false                  -- `not x` on a str

/-- `int(x)`: on an int / bool the number itself; on a float text `t` whatever `truncF t` says (OverflowError for the
    infinities, ValueError for NaN, the truncation otherwise) -/
def pyIntJ (truncF : String → Except String Int) : JV → Except String Int
  | .bool b => .ok (if b then 1 else 0)
  | .int n => .ok n
  | .float t => truncF t
  | _ => .error "TypeError"

/-- `n != x` for a float `x` -/
def intNeJ (neF : Int → String → Bool) (n : Int) : JV → Bool
  | .float t => neF n t
  | _ => false

/-- `int(s, 10)` -/
def pyInt10J : JV → Except String Int
  | .str s => match pyInt10 s with | some n => .ok n | none => .error "ValueError"
  | _ => .error "TypeError"

/-- `float(s)` -/
def pyFloatJ : JV → Except String Dbl
  | .str s => match pyFloat s with | some d => .ok d | none => .error "ValueError"
  | _ => .error "TypeError"

/-- `int(f)` for a float that passed `is_integer()` -/
def intOfDbl (d : Dbl) : Except String Int :=
  match d.integral with | some k => .ok k | none => .error "OverflowError"

/-- what `int(f)` followed by `numeric != f` must satisfy for the model's `Dbl.integral` to be a correct summary of them:
    an integral finite float truncates to itself; any other float text either makes `int` raise OverflowError / ValueError
    (infinities, NaN) or truncates to a number different from it. -/
def TruncSpec (truncF : String → Except String Int) (neF : Int → String → Bool) : Prop :=
  ∀ t : String,
    match (pyFloat t).bind Dbl.integral with
    | some k => truncF t = .ok k ∧ neF k t = false
    | none => truncF t = .error "OverflowError" ∨ truncF t = .error "ValueError" ∨ ∃ k, truncF t = .ok k ∧ neF k t = true

/-- a result of the translated source as a result of the model: every `ValueError` is a rejected input, any other
    exception class would be an internal error -/
def toR : Except String Int → R
  | .ok k => .ok (.int k)
  | .error e => if e == "ValueError" then .error .coercion else .error .internal

private theorem range_eq (n : Int) :
    (!((decide ((-2147483648 : Int) ≤ n)) && (decide (n ≤ (2147483647 : Int))))) = !intInRange n := by
  unfold intInRange MIN_INT MAX_INT; simp only [Bool.not_not]

private theorem ranged (n : Int) :
    toR (if (!((decide ((-2147483648 : Int) ≤ n)) && (decide (n ≤ (2147483647 : Int))))) then .error "ValueError" else .ok n)
      = rangeChecked n (.int n) := by
  rw [range_eq]; unfold rangeChecked
  cases intInRange n <;> simp [toR]

/-- **`coerce_int`: model = source**, for every JSON value, under the stated reading of `int(float)` / `!=`. -/
theorem coerce_int_model_eq_source (truncF : String → Except String Int) (neF : Int → String → Bool)
    (H : TruncSpec truncF neF) (v : JV) :
    toR (Tr.coerce_int isIntJ isFloatJ isStrJ isNoneJ strIsEmptyJ (pyIntJ truncF) (intNeJ neF) pyInt10J pyFloatJ
          (fun d => d.integral.isSome) intOfDbl v)
      = coerceInt v := by
  cases v with
  | null => simp [Tr.coerce_int, coerceInt, isIntJ, isFloatJ, isNoneJ, toR]
  | bool b =>
    simp only [Tr.coerce_int, coerceInt, isIntJ, pyIntJ, if_true]
    exact ranged _
  | int n =>
    simp only [Tr.coerce_int, coerceInt, isIntJ, pyIntJ, if_true]
    exact ranged _
  | float t =>
    have h := H t
    simp only [Tr.coerce_int, coerceInt, isIntJ, isFloatJ, pyIntJ, intNeJ, Bool.false_eq_true, if_false, if_true]
    cases hp : pyFloat t with
    | none =>
      simp only [hp, Option.bind_none] at h
      rcases h with h | h | ⟨k, h, hne⟩ <;> simp [toR, *]
    | some d =>
      simp only [hp, Option.bind_some] at h
      cases hi : d.integral with
      | none =>
        simp only [hi] at h
        rcases h with h | h | ⟨k, h, hne⟩ <;> simp [toR, *]
      | some k =>
        simp only [hi] at h
        simp only [h.1, h.2, hi, Bool.false_eq_true, if_false]
        exact ranged _
  | str s =>
    simp only [Tr.coerce_int, coerceInt, isIntJ, isFloatJ, isNoneJ, isStrJ, strIsEmptyJ, pyInt10J, pyFloatJ, intOfDbl,
      Bool.false_eq_true, if_false, if_true]
    by_cases he : (s == "") = true
    · simp [he, toR]
    · simp only [he, Bool.false_eq_true, if_false]
      cases h10 : pyInt10 s with
      | some n => simp only []; exact ranged _
      | none =>
        simp only [beq_self_eq_true, if_true]
        cases hf : pyFloat s with
        | none => simp [toR]
        | some d =>
          cases hi : d.integral with
          | none => simp [hi, toR]
          | some k => simp only [hi, Option.isSome_some, if_true]; exact ranged _
  | list l => simp [Tr.coerce_int, coerceInt, isIntJ, isFloatJ, isNoneJ, isStrJ, toR]
  | obj o => simp [Tr.coerce_int, coerceInt, isIntJ, isFloatJ, isNoneJ, isStrJ, toR]

/-- the hypothesis is satisfiable: read `int(f)` / `!=` off the model's own float semantics -/
example : TruncSpec
    (fun t => match (pyFloat t).bind Dbl.integral with | some k => .ok k | none => .error "ValueError")
    (fun _ _ => false) := by
  intro t
  dsimp only
  cases h : (pyFloat t).bind Dbl.integral <;> simp

/-! ### `coerce_float` -/

/-- `float(x)` on a JSON value: the class of the resulting double and the value handed on (`OverflowError`: an int too
    large for a double; `ValueError`: not a number text; `TypeError`: a list / dict) -/
def pyFloatJ' : JV → Except String (FCls × PV)
  | .null => .error "TypeError"
  | .bool b => .ok (.finite, .float (.ofBool b))
  | .int n => if intFitsDouble n then .ok (.finite, .float (.ofInt n)) else .error "OverflowError"
  | .float t => match pyFloat t with | some d => .ok (clsOf d, .float (.text t)) | none => .error "ValueError"
  | .str s => match pyFloat s with | some d => .ok (clsOf d, .float (.text s)) | none => .error "ValueError"
  | .list _ => .error "TypeError"
  | .obj _ => .error "TypeError"

/-- `ValueError` (raised by `coerce_float`) and `TypeError` (out of `float(<list>)`) are the rejections its callers catch -/
def toRF : Except String (FCls × PV) → R
  | .ok (_, v) => .ok v
  | .error e => if e == "ValueError" || e == "TypeError" then .error .coercion else .error .internal

/-- **`coerce_float`: model = source**, for every JSON value. -/
theorem coerce_float_model_eq_source (v : JV) :
    toRF (Tr.coerce_float (fun x => match x with | .str s => s == "" | _ => false) isNoneJ pyFloatJ'
          (fun f => f.1 == FCls.nan) (fun f => f.1 == FCls.inf) v)
      = coerceFloat v := by
  have hc : floatCatchesOverflow = true := rfl
  have hg : ∀ c : FCls, floatGuardRejects c = (c == FCls.nan || c == FCls.inf) := by
    intro c; cases c <;> rfl
  cases v with
  | null => simp [Tr.coerce_float, coerceFloat, isNoneJ, toRF]
  | bool b => simp [Tr.coerce_float, coerceFloat, isNoneJ, pyFloatJ', toRF, floatChecked, hg]
  | int n =>
    by_cases hf : intFitsDouble n = true
    · simp [Tr.coerce_float, coerceFloat, isNoneJ, pyFloatJ', toRF, floatChecked, hg, hf]
    · simp [Tr.coerce_float, coerceFloat, isNoneJ, pyFloatJ', toRF, hc, hf]
  | float t =>
    cases hp : pyFloat t with
    | none => simp [Tr.coerce_float, coerceFloat, isNoneJ, pyFloatJ', toRF, hp]
    | some d =>
      simp only [Tr.coerce_float, coerceFloat, isNoneJ, pyFloatJ', hp, floatChecked, hg, Bool.false_eq_true, if_false]
      cases clsOf d <;> simp [toRF]
  | str s =>
    by_cases he : (s == "") = true
    · simp [Tr.coerce_float, coerceFloat, toRF, he]
    · cases hp : pyFloat s with
      | none => simp [Tr.coerce_float, coerceFloat, isNoneJ, pyFloatJ', toRF, hp, he]
      | some d =>
        simp only [Tr.coerce_float, coerceFloat, isNoneJ, pyFloatJ', hp, he, floatChecked, hg, Bool.false_eq_true, if_false]
        cases clsOf d <;> simp [toRF]
  | list l => simp [Tr.coerce_float, coerceFloat, isNoneJ, pyFloatJ', toRF]
  | obj o => simp [Tr.coerce_float, coerceFloat, isNoneJ, pyFloatJ', toRF]

end PyGql.Props.C07

/-
  C14 — HISTORIES WITH IN-PLACE STEPS: per-schema ownership.

  `history_closed_framed` (Props/C14_history.lean) covers trees of clone / transform / extend derivations: every step allocates a
  new schema and writes nothing that existed. A `SchemaVisitor` applied to a RESULT without clone (`visitor.on_schema(result)`,
  `fix_type_references(result)`, a schema directive applied in place) WRITES objects that exist — those of the result it works on.
  This file proves that it writes nothing else, whatever else lives on the heap, schemas derived LATER included.

  `FootSet h s a`: `a` is a non-protected type object `s` registers, a member of one (field of an object / interface type, input
  field), an argument of such a field, a directive object or one of its arguments — what closedness / well-formedness of `s`
  read, minus the shared specified scalars.
  `Sep b h srcs ds ω` (the separation invariant): `srcs` (the sources, below `b`) and `ds` (the derived schemas) are closed and
  well-formed in `h`; `ω` maps every object of the footprint of `ds[k]` to `k` (so footprints are pairwise disjoint and above
  `b`); the specified scalars every schema shares lie below `b`.
  `ReachI cfg fuel srcs allowed`: histories of `transform_schema(x, *visitors)` / `clone()` / `extend_schema(x, doc)` (`extendO`: with
  the document's `implements` clauses and the code's dict order) steps applied
  to a source or to ANY derived schema, and IN-PLACE visitor steps (any modelled visitor: visibility, camel-case, drop/wrap
  directive visitor, heal) applied to a derived schema `ds[j]` with `allowed j`.
  `history_inplace_closed_framed` (FULL, induction over the history): from `Sep`, after any such history
  * `Sep` holds again: EVERY schema — sources, results produced before or after, the ones worked on in place — is closed and
    well-formed, footprints still separate;
  * no object below `b` (none of any source, no specified scalar) was written;
  * every derived schema `ds[k]` that no in-place step was allowed on is STILL THE SAME registry and every object of its
    footprint is unwritten — an in-place step on a result keeps every other schema closed, well-formed and unwritten.
  `inplace_step_separate` is the single step. `sep_init`: any list of closed well-formed sources starts a history.
-/
import PyGqlModel.Lemmas.HeapOwnP
import PyGqlModel.Lemmas.HeapProt
import PyGqlModel.Lemmas.HeapLocal
import PyGqlModel.Lemmas.HeapExtOwn
import PyGqlModel.Props.C14_history
import PyGqlModel.Props.C14_extend_order

set_option linter.unusedSimpArgs false
set_option linter.unusedVariables false

namespace PyGql.Props.C14
open PyGql.Heap PyGql.Heap.Own PyGql.Heap.Local PyGql.Heap.Prot

/-- the footprint of a schema without the shared specified scalars -/
def FootSet (h : Heap) (s : Schema) (a : Addr) : Prop :=
  (∃ e, e ∈ s.types ∧ isProtected e.1 = false ∧
     (a = e.2 ∨ ∃ t, h.readType e.2 = some t ∧ ∃ c, c ∈ typeKids t ∧ (a = c ∨ ∃ f, h.readField c = some f ∧ a ∈ f.args))) ∨
  (∃ e, e ∈ s.dirs ∧ (a = e.2 ∨ ∃ d, h.readDir e.2 = some d ∧ a ∈ d.args))

/-! ### what well-formedness says about the footprint -/

private theorem wf_type {h : Heap} {s : Schema} (hw : wfB h s = true) {e : String × Addr} (he : e ∈ s.types) :
    ∃ t, h.readType e.2 = some t ∧ typeMembersOK (fun _ => true) h t = true ∧ (isProtected e.1 = true → t.kind = Kind.scalar) := by
  simp only [wfB, shapeB, Bool.and_eq_true, List.all_eq_true] at hw
  obtain ⟨⟨⟨⟨⟨⟨⟨ht, hd⟩, _⟩, _⟩, _⟩, _⟩, hp⟩, _⟩ := hw
  have hs := ht e he
  have hpl := hp e he
  simp only [typeShape] at hs
  split at hs
  · rename_i t hrt
    simp only [Bool.and_eq_true] at hs
    refine ⟨t, hrt, hs.2, fun hprot => ?_⟩
    simp only [protLeaf, hrt, hprot, Bool.not_true, Bool.false_or] at hpl
    simpa using hpl
  · cases hs

private theorem wf_dir {h : Heap} {s : Schema} (hw : wfB h s = true) {e : String × Addr} (he : e ∈ s.dirs) :
    ∃ d, h.readDir e.2 = some d ∧ ∀ g, g ∈ d.args → ∃ x, h.readArg g = some x := by
  simp only [wfB, shapeB, Bool.and_eq_true, List.all_eq_true] at hw
  obtain ⟨⟨⟨⟨⟨⟨⟨ht, hd⟩, _⟩, _⟩, _⟩, _⟩, hp⟩, _⟩ := hw
  have hs := hd e he
  simp only [dirShape] at hs
  split at hs
  · rename_i d hrd
    simp only [List.all_eq_true] at hs
    refine ⟨d, hrd, fun g hg => ?_⟩
    have := hs g hg
    simp only [argShape] at this
    split at this
    · rename_i x hx; exact ⟨x, hx⟩
    · cases this
  · cases hs

/-- a member of a registered type is a field object with argument objects, or an input field object -/
private theorem kid_sort {h : Heap} {t : TypeO} (hm : typeMembersOK (fun _ => true) h t = true) {c : Addr} (hc : c ∈ typeKids t) :
    (∃ f, h.readField c = some f ∧ ∀ g, g ∈ f.args → ∃ x, h.readArg g = some x) ∨ (∃ g, h.readArg c = some g) := by
  have fld : fieldShape (fun _ => true) h c = true → ∃ f, h.readField c = some f ∧ ∀ g, g ∈ f.args → ∃ x, h.readArg g = some x := by
    intro hf
    simp only [fieldShape] at hf
    split at hf
    · rename_i f hrf
      simp only [Bool.and_eq_true, List.all_eq_true] at hf
      refine ⟨f, hrf, fun g hg => ?_⟩
      have := hf.2 g hg
      simp only [argShape] at this
      split at this
      · rename_i x hx; exact ⟨x, hx⟩
      · cases this
    · cases hf
  simp only [typeMembersOK] at hm
  cases hk : t.kind <;> simp only [typeKids, hk, List.all_eq_true] at hm hc
  · exact Or.inl (fld (hm c hc))
  · exact Or.inl (fld (hm c hc))
  · cases hc
  · cases hc
  · right
    have := hm c hc
    simp only [argShape] at this
    split at this
    · rename_i x hx; exact ⟨x, hx⟩
    · cases this
  · cases hc

private theorem field_not_arg {h : Heap} {c : Addr} {f : FieldO} {g : ArgO} (hf : h.readField c = some f) (hg : h.readArg c = some g) : False := by
  have h1 := readField_read hf
  have h2 := readArg_read hg
  rw [h1] at h2
  cases h2

/-- a well-formed schema can be worked on in place: its footprint (with everything not yet allocated) is an ownership region -/
theorem inv_of_wfB {h : Heap} {s : Schema} (hw : wfB h s = true) : OwnP.Inv (fun a => FootSet h s a ∨ h.size ≤ a) h := by
  refine ⟨fun a ha => Or.inr ha, ?_⟩
  intro a o pa hr c hc
  rcases pa with pa | pa
  case inr => exact absurd (read_lt h a o hr) (Nat.not_lt.mpr pa)
  left
  rcases pa with ⟨e, he, hnp, pa⟩ | ⟨e, he, pa⟩
  · obtain ⟨t, hrt, hm, _⟩ := wf_type hw he
    rcases pa with rfl | ⟨t', ht', c0, hc0, pa⟩
    · have h2 := readType_read hrt
      rw [hr] at h2
      cases h2
      exact Or.inl ⟨e, he, hnp, Or.inr ⟨t, hrt, c, by simpa [OwnP.kids'] using hc, Or.inl rfl⟩⟩
    · rw [hrt] at ht'
      cases ht'
      rcases pa with rfl | ⟨f, hf, hg⟩
      · rcases kid_sort hm hc0 with ⟨f, hf, _⟩ | ⟨g, hg⟩
        · have h2 := readField_read hf
          rw [hr] at h2
          cases h2
          exact Or.inl ⟨e, he, hnp, Or.inr ⟨t, hrt, a, hc0, Or.inr ⟨f, hf, by simpa [OwnP.kids'] using hc⟩⟩⟩
        · have h2 := readArg_read hg
          rw [hr] at h2
          cases h2
          simp [OwnP.kids'] at hc
      · rcases kid_sort hm hc0 with ⟨f', hf', hargs⟩ | ⟨g, hg'⟩
        · rw [hf] at hf'
          cases hf'
          obtain ⟨x, hx⟩ := hargs a hg
          have h2 := readArg_read hx
          rw [hr] at h2
          cases h2
          simp [OwnP.kids'] at hc
        · exact absurd (field_not_arg hf hg') id
  · obtain ⟨d, hrd, hargs⟩ := wf_dir hw he
    rcases pa with rfl | ⟨d', hd', hg⟩
    · have h2 := readDir_read hrd
      rw [hr] at h2
      cases h2
      exact Or.inr ⟨e, he, Or.inr ⟨d, hrd, by simpa [OwnP.kids'] using hc⟩⟩
    · rw [hrd] at hd'
      cases hd'
      obtain ⟨x, hx⟩ := hargs a hg
      have h2 := readArg_read hx
      rw [hr] at h2
      cases h2
      simp [OwnP.kids'] at hc

theorem regFresh_footSet (h : Heap) (s : Schema) : OwnP.RegFresh (fun a => FootSet h s a ∨ h.size ≤ a) s := by
  refine ⟨fun e he => ?_, fun e he => Or.inl (Or.inr ⟨e, he, Or.inl rfl⟩)⟩
  cases hp : isProtected e.1
  · exact Or.inr (Or.inl (Or.inl ⟨e, he, hp, Or.inl rfl⟩))
  · exact Or.inl rfl

/-- the footprint of a schema lies inside every kid-closed region that holds its registered objects -/
theorem footSet_sub {P : Addr → Prop} {h : Heap} {s : Schema} (i : OwnP.Inv P h) (r : OwnP.RegFresh P s) : ∀ a, FootSet h s a → P a := by
  intro a fa
  rcases fa with ⟨e, he, hnp, pa⟩ | ⟨e, he, pa⟩
  · have pe : P e.2 := by
      rcases r.1 e he with h1 | h1
      · rw [hnp] at h1; cases h1
      · exact h1
    rcases pa with rfl | ⟨t, ht, c, hc, pa⟩
    · exact pe
    · have pc : P c := i.2 e.2 (.type t) pe (readType_read ht) c (by simpa [OwnP.kids'] using hc)
      rcases pa with rfl | ⟨f, hf, hg⟩
      · exact pc
      · exact i.2 c (.field f) pc (readField_read hf) a (by simpa [OwnP.kids'] using hg)
  · have pe := r.2 e he
    rcases pa with rfl | ⟨d, hd, hg⟩
    · exact pe
    · exact i.2 e.2 (.dir d) pe (readDir_read hd) a (by simpa [OwnP.kids'] using hg)

/-- everything closedness / well-formedness read is the footprint or a shared specified scalar -/
theorem foot_of_footSet {h : Heap} {s : Schema} (hw : wfB h s = true) (B : Addr → Prop)
    (hB : ∀ e, e ∈ s.types → isProtected e.1 = true → B e.2) : Foot (fun a => FootSet h s a ∨ B a) h s := by
  refine ⟨fun e he => ?_, fun e he => ?_⟩
  · cases hp : isProtected e.1 with
    | true =>
      refine ⟨Or.inr (hB e he hp), fun t ht c hc => ?_⟩
      obtain ⟨t', ht', _, hk⟩ := wf_type hw he
      rw [ht] at ht'
      cases ht'
      simp [typeKids, hk hp] at hc
    | false =>
      exact ⟨Or.inl (Or.inl ⟨e, he, hp, Or.inl rfl⟩), fun t ht c hc =>
        ⟨Or.inl (Or.inl ⟨e, he, hp, Or.inr ⟨t, ht, c, hc, Or.inl rfl⟩⟩),
         fun f hf g hg => Or.inl (Or.inl ⟨e, he, hp, Or.inr ⟨t, ht, c, hc, Or.inr ⟨f, hf, hg⟩⟩⟩)⟩⟩
  · exact ⟨Or.inl (Or.inr ⟨e, he, Or.inl rfl⟩), fun d hd c hc => Or.inl (Or.inr ⟨e, he, Or.inr ⟨d, hd, hc⟩⟩)⟩

theorem footSet_agree {Q : Addr → Prop} {h h' : Heap} {s : Schema} (ag : Agree Q h h') (hq : ∀ a, FootSet h s a → Q a) :
    ∀ a, FootSet h' s a → FootSet h s a := by
  intro a fa
  rcases fa with ⟨e, he, hnp, pa⟩ | ⟨e, he, pa⟩
  · have qe : Q e.2 := hq _ (Or.inl ⟨e, he, hnp, Or.inl rfl⟩)
    rcases pa with rfl | ⟨t, ht, c, hc, pa⟩
    · exact Or.inl ⟨e, he, hnp, Or.inl rfl⟩
    · rw [readType_agree ag qe] at ht
      have qc : Q c := hq _ (Or.inl ⟨e, he, hnp, Or.inr ⟨t, ht, c, hc, Or.inl rfl⟩⟩)
      rcases pa with rfl | ⟨f, hf, hg⟩
      · exact Or.inl ⟨e, he, hnp, Or.inr ⟨t, ht, a, hc, Or.inl rfl⟩⟩
      · rw [readField_agree ag qc] at hf
        exact Or.inl ⟨e, he, hnp, Or.inr ⟨t, ht, c, hc, Or.inr ⟨f, hf, hg⟩⟩⟩
  · have qe : Q e.2 := hq _ (Or.inr ⟨e, he, Or.inl rfl⟩)
    rcases pa with rfl | ⟨d, hd, hg⟩
    · exact Or.inr ⟨e, he, Or.inl rfl⟩
    · rw [readDir_agree ag qe] at hd
      exact Or.inr ⟨e, he, Or.inr ⟨d, hd, hg⟩⟩

theorem footSet_lt {h : Heap} {s : Schema} (hw : wfB h s = true) : ∀ a, FootSet h s a → a < h.size := by
  have f := foot_of_wfB hw
  intro a fa
  rcases fa with ⟨e, he, hnp, pa⟩ | ⟨e, he, pa⟩
  · rcases pa with rfl | ⟨t, ht, c, hc, pa⟩
    · exact (f.1 e he).1
    · rcases pa with rfl | ⟨fl, hf, hg⟩
      · exact ((f.1 e he).2 t ht a hc).1
      · exact ((f.1 e he).2 t ht c hc).2 fl hf a hg
  · rcases pa with rfl | ⟨d, hd, hg⟩
    · exact (f.2 e he).1
    · exact (f.2 e he).2 d hd a hg

/-! ### the separation invariant -/

/-- the objects allocated between heap sizes `lo` and `hi` now belong to derived schema `k` -/
def claim (lo hi k : Nat) (ω : Addr → Option Nat) : Addr → Option Nat := fun a => if lo ≤ a ∧ a < hi then some k else ω a

structure Sep (b : Nat) (h : Heap) (srcs ds : List Schema) (ω : Addr → Option Nat) : Prop where
  base : b ≤ h.size
  bound : ∀ a k, ω a = some k → b ≤ a ∧ a < h.size ∧ k < ds.length
  src : ∀ s, s ∈ srcs → closedB h s = true ∧ wfB h s = true ∧ Foot (fun a => a < b) h s
  der : ∀ k d, ds[k]? = some d → closedB h d = true ∧ wfB h d = true ∧ (∀ a, FootSet h d a → ω a = some k) ∧
    (∀ e, e ∈ d.types → isProtected e.1 = true → e.2 < b)

/-- any list of closed well-formed schemas starts a history (nothing derived yet, nothing owned) -/
theorem sep_init (h : Heap) (srcs : List Schema) (g : AllGood h srcs) : Sep h.size h srcs [] (fun _ => none) where
  base := Nat.le_refl _
  bound := fun a k hk => by cases hk
  src := fun s hs => ⟨(g s hs).1, (g s hs).2, foot_of_wfB (g s hs).2⟩
  der := fun k d hk => by simp at hk

private theorem keep_src {b : Nat} {h h' : Heap} {s : Schema} {Q : Addr → Prop} (ag : Agree Q h h') (hq : ∀ a, a < b → Q a)
    (g : closedB h s = true ∧ wfB h s = true ∧ Foot (fun a => a < b) h s) :
    closedB h' s = true ∧ wfB h' s = true ∧ Foot (fun a => a < b) h' s := by
  have ag' : Agree (fun a => a < b) h h' := fun x hx => ag x (hq x hx)
  exact ⟨by rw [closedB_agree ag' g.2.2]; exact g.1, by rw [wfB_agree ag' g.2.2]; exact g.2.1, g.2.2.keep ag'⟩

private theorem keep_der {b k : Nat} {h h' : Heap} {d : Schema} {ω : Addr → Option Nat} {Q : Addr → Prop} (ag : Agree Q h h')
    (hq : ∀ a, a < b → Q a) (hqo : ∀ a, ω a = some k → Q a)
    (g : closedB h d = true ∧ wfB h d = true ∧ (∀ a, FootSet h d a → ω a = some k) ∧ (∀ e, e ∈ d.types → isProtected e.1 = true → e.2 < b)) :
    closedB h' d = true ∧ wfB h' d = true ∧ (∀ a, FootSet h' d a → ω a = some k) := by
  have F := foot_of_footSet g.2.1 (fun a => a < b) g.2.2.2
  have ag' : Agree (fun a => FootSet h d a ∨ a < b) h h' := by
    intro x hx
    rcases hx with hx | hx
    · exact ag x (hqo x (g.2.2.1 x hx))
    · exact ag x (hq x hx)
  refine ⟨by rw [closedB_agree ag' F]; exact g.1, by rw [wfB_agree ag' F]; exact g.2.1, fun a fa => ?_⟩
  exact g.2.2.1 a (footSet_agree ag (fun a fa => hqo a (g.2.2.1 a fa)) a fa)

private theorem kids'_sub {o : Obj} {c : Addr} (hc : c ∈ OwnP.kids' o) : c ∈ kids o := by
  cases o with
  | type t => exact OwnP.typeKids_sub hc
  | field f => exact hc
  | arg g => exact hc
  | dir d => exact hc

private theorem invP_of_inv {n : Nat} {h : Heap} (i : Inv n h) : OwnP.Inv (fun a => n ≤ a) h :=
  ⟨fun a ha => Nat.le_trans i.1 ha, fun a o pa hr c hc => i.2 a o pa hr c (kids'_sub hc)⟩

private theorem claim_old {lo hi k : Nat} {ω : Addr → Option Nat} {a : Addr} (ha : a < lo) : claim lo hi k ω a = ω a := by
  simp only [claim]
  rw [if_neg (fun hx => absurd hx.1 (Nat.not_le.mpr ha))]

private theorem claim_new {lo hi k : Nat} {ω : Addr → Option Nat} {a : Addr} (h1 : lo ≤ a) (h2 : a < hi) : claim lo hi k ω a = some k := by
  simp only [claim, h1, h2, and_self, if_true]

/-- a DERIVATION step (`transform_schema`, `clone`, `extend_schema`): the result joins the derived schemas and owns what the step
    allocated -/
theorem derive_step_separate {b : Nat} {h : Heap} {srcs ds : List Schema} {ω : Addr → Option Nat} (g : Sep b h srcs ds ω)
    {s : Schema} (hprot : ∀ e, e ∈ s.types → isProtected e.1 = true → e.2 < b) {h' : Heap} {r : Schema} (f : Frame h h')
    (hc : closedB h' r = true) (hw : wfB h' r = true) (i : Inv h.size h') (rf : RegFresh h.size r) (ps : ProtSub s.types r.types) :
    Sep b h' srcs (ds ++ [r]) (claim h.size h'.size ds.length ω) where
  base := Nat.le_trans g.base f.1
  bound := by
    intro a k hk
    simp only [claim] at hk
    split at hk
    · rename_i hx
      cases hk
      exact ⟨Nat.le_trans g.base hx.1, hx.2, by simp⟩
    · obtain ⟨x, y, z⟩ := g.bound a k hk
      exact ⟨x, Nat.lt_of_lt_of_le y f.1, by simp; omega⟩
  src := fun s0 hs => keep_src (Q := fun a => a < h.size) (fun x hx => f.2 x hx) (fun a ha => Nat.lt_of_lt_of_le ha g.base) (g.src s0 hs)
  der := by
    intro k d hk
    by_cases hlt : k < ds.length
    · rw [List.getElem?_append_left hlt] at hk
      have gd := g.der k d hk
      obtain ⟨c1, w1, o1⟩ := keep_der (Q := fun a => a < h.size) (fun x hx => f.2 x hx) (fun a ha => Nat.lt_of_lt_of_le ha g.base)
        (fun a ha => (g.bound a k ha).2.1) gd
      refine ⟨c1, w1, fun a fa => ?_, gd.2.2.2⟩
      have := o1 a fa
      rw [claim_old (g.bound a k this).2.1]
      exact this
    · have hge : ds.length ≤ k := Nat.le_of_not_lt hlt
      rw [List.getElem?_append_right hge] at hk
      have hk0 : k - ds.length = 0 := by
        cases hx : k - ds.length with
        | zero => rfl
        | succ m => rw [hx] at hk; simp at hk
      rw [hk0] at hk
      simp only [List.getElem?_cons_zero, Option.some.injEq] at hk
      subst hk
      have hkk : k = ds.length := by omega
      subst hkk
      refine ⟨hc, hw, fun a fa => ?_, fun e he hp => hprot e (ps e he hp) hp⟩
      exact claim_new (footSet_sub (invP_of_inv i) ⟨fun e he => rf.1 e he, fun e he => rf.2 e he⟩ a fa) (footSet_lt hw a fa)

/-- AN IN-PLACE STEP on the derived schema `ds[j]`: separation is kept, and every object that is neither owned by `ds[j]` nor new
    is unwritten -/
theorem inplace_step_separate (cfg : Cfg) (hacc : cfg.accumulateBusted = true) {b : Nat} {h : Heap} {srcs ds : List Schema}
    {ω : Addr → Option Nat} (g : Sep b h srcs ds ω) (fuel : Nat) (j : Nat) (v : Visitor) (d : Schema) (h' : Heap) (d' : Schema)
    (hj : ds[j]? = some d) (e : onSchema cfg (2 + fuel) v d h = some (h', d')) :
    Sep b h' srcs (ds.set j d') (claim h.size h'.size j ω) ∧ Agree (fun a => ¬ (ω a = some j) ∧ a < h.size) h h' := by
  obtain ⟨hc, hw, hown, hprot⟩ := g.der j d hj
  have hjl : j < ds.length := by
    apply Classical.byContradiction
    intro hn
    rw [List.getElem?_eq_none (Nat.le_of_not_lt hn)] at hj
    cases hj
  obtain ⟨h2, d2, e2, hc', hw'⟩ := visitor_closed cfg hacc v d h hc hw fuel
  rw [e] at e2
  cases e2
  obtain ⟨p, rf'⟩ := OwnP.onSchema_ok _ cfg (2 + fuel) v d h h' d' (inv_of_wfB hw) (regFresh_footSet h d) e
  have ag : Agree (fun a => ¬ (ω a = some j) ∧ a < h.size) h h' := by
    intro x hx
    apply p.2.2 x
    intro hp
    rcases hp with hp | hp
    · exact hx.1 (hown x hp)
    · exact absurd hx.2 (Nat.not_lt.mpr hp)
  refine ⟨?_, ag⟩
  have hq : ∀ a, a < b → ¬ (ω a = some j) ∧ a < h.size := by
    intro a ha
    refine ⟨fun ho => ?_, Nat.lt_of_lt_of_le ha g.base⟩
    have := (g.bound a j ho).1
    omega
  refine ⟨Nat.le_trans g.base p.2.1, ?_, fun s0 hs => keep_src ag hq (g.src s0 hs), ?_⟩
  · intro a k hk
    simp only [claim] at hk
    split at hk
    · rename_i hx
      cases hk
      exact ⟨Nat.le_trans g.base hx.1, hx.2, by simpa using hjl⟩
    · obtain ⟨x, y, z⟩ := g.bound a k hk
      exact ⟨x, Nat.lt_of_lt_of_le y p.2.1, by simpa using z⟩
  · intro k d0 hk
    by_cases hkj : k = j
    · subst hkj
      rw [List.getElem?_set_self hjl] at hk
      cases hk
      refine ⟨hc', hw', fun a fa => ?_, fun x hx hp => hprot x (onSchema_prot cfg (2 + fuel) v d h h' _ e x hx hp) hp⟩
      rcases footSet_sub p.1 rf' a fa with hp | hp
      · have := hown a hp
        rw [claim_old (g.bound a k this).2.1]
        exact this
      · exact claim_new hp (footSet_lt hw' a fa)
    · rw [List.getElem?_set_ne (fun hx => hkj hx.symm)] at hk
      have gd := g.der k d0 hk
      obtain ⟨c1, w1, o1⟩ := keep_der ag hq (fun a ha => ⟨fun hx => hkj (by rw [ha] at hx; cases hx; rfl), (g.bound a k ha).2.1⟩) gd
      refine ⟨c1, w1, fun a fa => ?_, gd.2.2.2⟩
      have := o1 a fa
      rw [claim_old (g.bound a k this).2.1]
      exact this

/-! ### histories -/

inductive ReachI (cfg : Cfg) (fuel : Nat) (srcs : List Schema) (allowed : Nat → Prop) :
    Heap → List Schema → (Addr → Option Nat) → Heap → List Schema → (Addr → Option Nat) → Prop
  | done (h : Heap) (ds : List Schema) (ω : Addr → Option Nat) : ReachI cfg fuel srcs allowed h ds ω h ds ω
  | transform {h : Heap} {ds : List Schema} {ω : Addr → Option Nat} {h' : Heap} {ds' : List Schema} {ω' : Addr → Option Nat}
      (i : Nat) (vs : List Visitor) (s : Schema) (r : Heap × Schema) :
      (srcs ++ ds)[i]? = some s → transform cfg (2 + fuel) vs s h = some r →
      ReachI cfg fuel srcs allowed r.1 (ds ++ [r.2]) (claim h.size r.1.size ds.length ω) h' ds' ω' →
      ReachI cfg fuel srcs allowed h ds ω h' ds' ω'
  | extend {h : Heap} {ds : List Schema} {ω : Addr → Option Nat} {h' : Heap} {ds' : List Schema} {ω' : Addr → Option Nat}
      (i : Nat) (ext : Ext) (s : Schema) :
      (srcs ++ ds)[i]? = some s → ExtOK s ext → (∀ e, e ∈ ext.newTypes → isProtected e.1 = false) →
      ReachI cfg fuel srcs allowed (extendO cfg ext s h).1 (ds ++ [(extendO cfg ext s h).2])
        (claim h.size (extendO cfg ext s h).1.size ds.length ω) h' ds' ω' →
      ReachI cfg fuel srcs allowed h ds ω h' ds' ω'
  | inplace {h : Heap} {ds : List Schema} {ω : Addr → Option Nat} {h' : Heap} {ds' : List Schema} {ω' : Addr → Option Nat}
      (j : Nat) (v : Visitor) (d : Schema) (r : Heap × Schema) :
      allowed j → ds[j]? = some d → onSchema cfg (2 + fuel) v d h = some r →
      ReachI cfg fuel srcs allowed r.1 (ds.set j r.2) (claim h.size r.1.size j ω) h' ds' ω' →
      ReachI cfg fuel srcs allowed h ds ω h' ds' ω'

/-- a parent of a derivation step — a source or a derived schema — is closed, well-formed and shares its specified scalars -/
private theorem parent_good {b : Nat} {h : Heap} {srcs ds : List Schema} {ω : Addr → Option Nat} (g : Sep b h srcs ds ω) {i : Nat} {s : Schema}
    (hi : (srcs ++ ds)[i]? = some s) :
    closedB h s = true ∧ wfB h s = true ∧ ∀ e, e ∈ s.types → isProtected e.1 = true → e.2 < b := by
  by_cases hlt : i < srcs.length
  · rw [List.getElem?_append_left hlt] at hi
    obtain ⟨c, w, f⟩ := g.src s (List.mem_of_getElem? hi)
    exact ⟨c, w, fun e he _ => (f.1 e he).1⟩
  · rw [List.getElem?_append_right (Nat.le_of_not_lt hlt)] at hi
    obtain ⟨c, w, _, p⟩ := g.der _ s hi
    exact ⟨c, w, p⟩

/-- what a history keeps of the derived schemas no in-place step was allowed on -/
def Untouched (allowed : Nat → Prop) (h : Heap) (ds : List Schema) (ω : Addr → Option Nat) (h' : Heap) (ds' : List Schema)
    (ω' : Addr → Option Nat) : Prop :=
  ∀ k d, ds[k]? = some d → ¬ allowed k → ds'[k]? = some d ∧ ∀ a, ω a = some k → ω' a = some k ∧ h'.read a = h.read a

/-- FULL (see the header) -/
theorem history_inplace_closed_framed (cfg : Cfg) (hd : cfg.deepClone = true) (hk : cfg.keepAllTypes = true) (hacc : cfg.accumulateBusted = true)
    (hx : cfg.extKeepAll = true) (hin : cfg.extInputFieldExtended = true) (fuel : Nat) (srcs : List Schema) (allowed : Nat → Prop) (b : Nat)
    (h : Heap) (ds : List Schema) (ω : Addr → Option Nat) (h' : Heap) (ds' : List Schema) (ω' : Addr → Option Nat)
    (r : ReachI cfg fuel srcs allowed h ds ω h' ds' ω') (g : Sep b h srcs ds ω) :
    Sep b h' srcs ds' ω' ∧ (∀ x, x < b → h'.read x = h.read x) ∧ ds.length ≤ ds'.length ∧ Untouched allowed h ds ω h' ds' ω' := by
  induction r with
  | done h ds ω => exact ⟨g, fun _ _ => rfl, Nat.le_refl _, fun k d hk _ => ⟨hk, fun a ha => ⟨ha, rfl⟩⟩⟩
  | @transform h ds ω h' ds' ω' i vs s r hi e _ ih =>
    obtain ⟨h1, s1⟩ := r
    obtain ⟨hc, hw, hp⟩ := parent_good g hi
    have f1 : Frame h h1 := clone_frames_source cfg hd (2 + fuel) vs s h h1 s1 hc e
    obtain ⟨c1, w1⟩ := transform_closed cfg hd hk hacc fuel vs s h h1 s1 hc hw e
    obtain ⟨i1, r1⟩ := transform_owns_result cfg hd (2 + fuel) vs s h h1 s1 hc e
    have g1 := derive_step_separate g hp f1 c1 w1 i1 r1 (transform_prot cfg (2 + fuel) vs s h h1 s1 e)
    obtain ⟨g2, a2, l2, u2⟩ := ih g1
    refine ⟨g2, fun x hx => by rw [a2 x hx, f1.2 x (Nat.lt_of_lt_of_le hx g.base)], by simp at l2; omega, ?_⟩
    intro k d hk hna
    have hkl : k < ds.length := by
      apply Classical.byContradiction
      intro hn
      rw [List.getElem?_eq_none (Nat.le_of_not_lt hn)] at hk
      cases hk
    obtain ⟨q1, q2⟩ := u2 k d (by rw [List.getElem?_append_left hkl]; exact hk) hna
    refine ⟨q1, fun a ha => ?_⟩
    have hal := (g.bound a k ha).2.1
    obtain ⟨q3, q4⟩ := q2 a (by simp only [] ; rw [claim_old hal]; exact ha)
    exact ⟨q3, by rw [q4, f1.2 a hal]⟩
  | @extend h ds ω h' ds' ω' i ext s hi hok hnp _ ih =>
    obtain ⟨hc, hw, hp⟩ := parent_good g hi
    have f1 : Frame h (extendO cfg ext s h).1 := extendO_frames_source cfg hx ext s h hnp
    obtain ⟨c1, w1⟩ := extendO_closed_wf cfg hx hin ext s h hc hw hok hnp
    have hn : (regNames (extend cfg ext s h).2.types).Nodup := by
      have w0 := (extend_closed_wf cfg hx hin ext s h hc hw hok hnp).2
      simp only [wfB, Bool.and_eq_true, namesNodup, decide_eq_true_eq] at w0
      exact w0.2
    have hmem : ∀ e, e ∈ (extendO cfg ext s h).2.types → e ∈ (extend cfg ext s h).2.types :=
      fun e he => (extendOrder_mem s _ _ _ hn e).mp he
    obtain ⟨p1, r1⟩ := extendO_ok cfg hx ext s h hnp hmem
    have g1 := derive_step_separate g hp f1 c1 w1 p1.1 r1
      (fun e he hp' => extend_prot cfg hx ext s h hnp e (hmem e he) hp')
    obtain ⟨g2, a2, l2, u2⟩ := ih g1
    refine ⟨g2, fun x hx => by rw [a2 x hx, f1.2 x (Nat.lt_of_lt_of_le hx g.base)], by simp at l2; omega, ?_⟩
    intro k d hk hna
    have hkl : k < ds.length := by
      apply Classical.byContradiction
      intro hn
      rw [List.getElem?_eq_none (Nat.le_of_not_lt hn)] at hk
      cases hk
    obtain ⟨q1, q2⟩ := u2 k d (by rw [List.getElem?_append_left hkl]; exact hk) hna
    refine ⟨q1, fun a ha => ?_⟩
    have hal := (g.bound a k ha).2.1
    obtain ⟨q3, q4⟩ := q2 a (by rw [claim_old hal]; exact ha)
    exact ⟨q3, by rw [q4, f1.2 a hal]⟩
  | @inplace h ds ω h' ds' ω' j v d r haj hj e _ ih =>
    obtain ⟨h1, d1⟩ := r
    obtain ⟨g1, ag⟩ := inplace_step_separate cfg hacc g fuel j v d h1 d1 hj e
    obtain ⟨g2, a2, l2, u2⟩ := ih g1
    refine ⟨g2, fun x hx => ?_, by simp at l2; omega, ?_⟩
    · rw [a2 x hx]
      refine ag x ⟨fun ho => ?_, Nat.lt_of_lt_of_le hx g.base⟩
      have := (g.bound x j ho).1
      omega
    · intro k d0 hk hna
      have hkj : k ≠ j := fun hx => hna (hx ▸ haj)
      obtain ⟨q1, q2⟩ := u2 k d0 (by rw [List.getElem?_set_ne (fun hx => hkj hx.symm)]; exact hk) hna
      refine ⟨q1, fun a ha => ?_⟩
      have hal := (g.bound a k ha).2.1
      obtain ⟨q3, q4⟩ := q2 a (by rw [claim_old hal]; exact ha)
      refine ⟨q3, ?_⟩
      rw [q4]
      exact ag a ⟨fun ho => hkj (by rw [ha] at ho; cases ho; rfl), hal⟩

/-- from any list of closed well-formed sources: every schema of every history with in-place steps on results stays closed and
    well-formed, no source object is written, and the results not worked on in place are unwritten -/
theorem history_inplace_from_sources (cfg : Cfg) (hd : cfg.deepClone = true) (hk : cfg.keepAllTypes = true) (hacc : cfg.accumulateBusted = true)
    (hx : cfg.extKeepAll = true) (hin : cfg.extInputFieldExtended = true) (fuel : Nat) (srcs : List Schema) (allowed : Nat → Prop)
    (h : Heap) (h' : Heap) (ds' : List Schema) (ω' : Addr → Option Nat)
    (r : ReachI cfg fuel srcs allowed h [] (fun _ => none) h' ds' ω') (g : AllGood h srcs) :
    Frame h h' ∧ AllGood h' (srcs ++ ds') := by
  obtain ⟨g2, a2, _, _⟩ := history_inplace_closed_framed cfg hd hk hacc hx hin fuel srcs allowed h.size h [] _ h' ds' ω' r (sep_init h srcs g)
  refine ⟨⟨g2.base, a2⟩, fun s hs => ?_⟩
  rcases List.mem_append.mp hs with hs | hs
  · exact ⟨(g2.src s hs).1, (g2.src s hs).2.1⟩
  · obtain ⟨k, hk'⟩ := List.getElem?_of_mem hs
    exact ⟨(g2.der k s hk').1, (g2.der k s hk').2.1⟩

/-- non-vacuity: on the witness, two clones of the source, then `Dog` hidden IN PLACE in the first clone (the second one, created
    later, is among the schemas that stay closed, well-formed and unwritten) -/
example : AllGood h0 [s0] ∧ ∃ h' ds' ω', ReachI Cfg.fixed 6 [s0] (fun k => k = 0) h0 [] (fun _ => none) h' ds' ω' ∧ ds'.length = 2 := by
  have g0 : AllGood h0 [s0] := fun s hs => by simp only [List.mem_singleton] at hs; subst hs; exact ⟨by decide, by decide⟩
  refine ⟨g0, ?_⟩
  obtain ⟨h1, s1, e1, c1, w1⟩ := transform_closed_total Cfg.fixed rfl rfl rfl [] s0 h0 (by decide) (by decide) 6
  have f1 := clone_frames_source Cfg.fixed rfl (2 + 6) [] s0 h0 h1 s1 (by decide) e1
  have c0 := closedB_frame f1 s0 (by decide)
  obtain ⟨h2, s2, e2, c2, w2⟩ := transform_closed_total Cfg.fixed rfl rfl rfl [] s0 h1 c0 (wfB_frame f1 s0 (by decide)) 6
  have f2 := clone_frames_source Cfg.fixed rfl (2 + 6) [] s0 h1 h2 s2 c0 e2
  obtain ⟨h3, s3, e3, _, _⟩ := visitor_closed Cfg.fixed rfl (.vis hideDog) s1 h2 (closedB_frame f2 s1 c1) (wfB_frame f2 s1 w1) 6
  exact ⟨h3, _, _, ReachI.transform 0 [] s0 (h1, s1) rfl e1 (ReachI.transform 0 [] s0 (h2, s2) rfl e2
    (ReachI.inplace 0 (.vis hideDog) s1 (h3, s3) rfl rfl e3 (ReachI.done _ _ _))), rfl⟩

/-- the variant in the working tree -/
theorem current_history_inplace_closed_framed
    (fuel : Nat) (srcs : List Schema) (allowed : Nat → Prop) (h : Heap) (h' : Heap) (ds' : List Schema) (ω' : Addr → Option Nat)
    (r : ReachI PyGql.Generated.HeapCfg.currentCfg fuel srcs allowed h [] (fun _ => none) h' ds' ω') (g : AllGood h srcs) :
    Frame h h' ∧ AllGood h' (srcs ++ ds') :=
  history_inplace_from_sources _ cur_deepClone cur_keepAllTypes cur_accumulateBusted cur_extKeepAll cur_extInputFieldExtended fuel srcs allowed h h' ds' ω' r g

end PyGql.Props.C14

/-
  C06 - `NoFragmentCyclesChecker`, part 3: the rule theorem. For documents whose fragment names are unique and not
  empty (what the parser produces; uniqueness is rule 5.5.1.1), with the fix `continue` (874f2dd):
  the rule reports nothing  ⇔  no fragment reaches itself through fragment spreads (5.5.2.2).
-/
import PyGqlModel.Props.C06_cycles2
namespace PyGql.Props.C06
open PyGql PyGql.Validate PyGql.Validate.Spec

theorem fragNames_eq_fragsOf (d : Doc) : Spec.fragNames d = (fragsOf d.defs).map (·.1) := by
  unfold Spec.fragNames fragsOf
  induction d.defs with
  | nil => rfl
  | cons x xs ih => cases x <;> simp_all [List.filterMap_cons]

/-- spreads among the nodes of argument / directive lists: none -/
theorem filterMap_spread_inert (ns : List Node) (h : ∀ n ∈ ns, Node.isCycNode n = false) :
    ns.filterMap (fun | .spread n _ => some n | _ => none) = [] := by
  induction ns with
  | nil => rfl
  | cons a as ih =>
    have ha := h a (List.mem_cons_self ..)
    rw [List.filterMap_cons, ih (fun n hn => h n (List.mem_cons_of_mem _ hn))]
    cases a <;> simp_all [Node.isCycNode]

mutual
theorem selNodes_spreads : ∀ x : Sel, (selNodes x).filterMap (fun | .spread n _ => some n | _ => none) = selSpreads x
  | .field al name args dirs true id sub => by
    simp only [selNodes, ↓reduceIte, List.filterMap_cons, List.filterMap_append,
      filterMap_spread_inert _ (argsNodes_inert args), filterMap_spread_inert _ (dirsNodes_inert dirs), List.nil_append,
      selSpreads, selsNodes_spreads sub]
  | .field al name args dirs false id sub => by
    simp only [selNodes, Bool.false_eq_true, ↓reduceIte, List.filterMap_cons, List.filterMap_append, List.append_nil,
      filterMap_spread_inert _ (argsNodes_inert args), filterMap_spread_inert _ (dirsNodes_inert dirs), selSpreads]
  | .spread n dirs => by
    simp only [selNodes, List.filterMap_cons, filterMap_spread_inert _ (dirsNodes_inert dirs), selSpreads]
  | .inline on dirs id sub => by
    simp only [selNodes, List.filterMap_cons, List.filterMap_append, filterMap_spread_inert _ (dirsNodes_inert dirs),
      List.nil_append, selSpreads, selsNodes_spreads sub]
theorem selsNodes_spreads : ∀ xs : List Sel,
    (selsNodes xs).filterMap (fun | .spread n _ => some n | _ => none) = selSpreads.selsSpreads xs
  | [] => rfl
  | x :: xs => by
    simp only [selsNodes, List.filterMap_append, selSpreads.selsSpreads, selNodes_spreads x, selsNodes_spreads xs]
end

theorem directSpreads_eq (sels : List Sel) : Spec.directSpreads sels = selSpreads.selsSpreads sels :=
  selsNodes_spreads sels

theorem fragSels_of_mem : ∀ (ds : List Def) (f : String) (sels : List Sel), ((fragsOf ds).map (·.1)).Nodup →
    (f, sels) ∈ fragsOf ds → Spec.fragSels ⟨ds⟩ f = sels
  | [], f, sels, _, h => by simp [fragsOf] at h
  | x :: xs, f, sels, hnd, h => by
    cases x with
    | frag g on dirs id ss =>
      have hfr : fragsOf (Def.frag g on dirs id ss :: xs) = (g, ss) :: fragsOf xs := by simp [fragsOf]
      rw [hfr] at hnd h
      simp only [List.map_cons, List.nodup_cons] at hnd
      rcases List.mem_cons.mp h with e | h'
      · obtain ⟨rfl, rfl⟩ := Prod.mk.inj e
        simp [Spec.fragSels, List.findSome?_cons]
      · have hne : g ≠ f := fun e => hnd.1 (e ▸ List.mem_map_of_mem (f := (·.1)) h')
        have := fragSels_of_mem xs f sels hnd.2 h'
        simp only [Spec.fragSels, List.findSome?_cons] at this ⊢
        simpa [hne] using this
    | op k n v dd i ss =>
      have hfr : fragsOf (Def.op k n v dd i ss :: xs) = fragsOf xs := by simp [fragsOf]
      rw [hfr] at hnd h
      have := fragSels_of_mem xs f sels hnd h
      simp only [Spec.fragSels, List.findSome?_cons] at this ⊢
      exact this
    | ts a b =>
      have hfr : fragsOf (Def.ts a b :: xs) = fragsOf xs := by simp [fragsOf]
      rw [hfr] at hnd h
      have := fragSels_of_mem xs f sels hnd h
      simp only [Spec.fragSels, List.findSome?_cons] at this ⊢
      exact this

theorem fragSels_not_mem : ∀ (ds : List Def) (f : String), f ∉ (fragsOf ds).map (·.1) → Spec.fragSels ⟨ds⟩ f = []
  | [], f, _ => rfl
  | x :: xs, f, h => by
    cases x with
    | frag g on dirs id ss =>
      have hfr : fragsOf (Def.frag g on dirs id ss :: xs) = (g, ss) :: fragsOf xs := by simp [fragsOf]
      rw [hfr] at h
      simp only [List.map_cons, List.mem_cons, not_or] at h
      have := fragSels_not_mem xs f h.2
      simp only [Spec.fragSels, List.findSome?_cons] at this ⊢
      have hne : g ≠ f := fun e => h.1 e.symm
      simpa [hne] using this
    | op k n v dd i ss =>
      have hfr : fragsOf (Def.op k n v dd i ss :: xs) = fragsOf xs := by simp [fragsOf]
      rw [hfr] at h
      have := fragSels_not_mem xs f h
      simp only [Spec.fragSels, List.findSome?_cons] at this ⊢
      exact this
    | ts a b =>
      have hfr : fragsOf (Def.ts a b :: xs) = fragsOf xs := by simp [fragsOf]
      rw [hfr] at h
      have := fragSels_not_mem xs f h
      simp only [Spec.fragSels, List.findSome?_cons] at this ⊢
      exact this


theorem vcReach_trans {ff : AL (List String)} {a b c : String} (h1 : VC.Reach ff a b) (h2 : VC.Reach ff b c) :
    VC.Reach ff a c := by
  induction h1 with
  | refl _ => exact h2
  | step h _ ih => exact .step h (ih h2)

theorem sum_eq_zero_iff (l : List Nat) : l.sum = 0 ↔ ∀ x ∈ l, x = 0 := by
  induction l with
  | nil => simp
  | cons a as ih => simp only [List.sum_cons, Nat.add_eq_zero_iff, ih, List.mem_cons, forall_eq_or_imp]

/-- **5.5.2.2 Fragment spreads must not form cycles** (`spread_closure_is_reachability` + the walk): for documents with
    unique, non-empty fragment names and the fixed search (`continue`), `NoFragmentCyclesChecker` reports nothing ⇔ no
    fragment reaches itself through fragment spreads -/
theorem rule_no_fragment_cycles_iff (s : SchemaD) (fx : Fixes) (hv : fx.v11 = true) (d : Doc)
    (hnd : (Spec.fragNames d).Nodup) (hne : ∀ f ∈ Spec.fragNames d, f ≠ "") :
    Silent s fx .noFragmentCycles d ↔ Spec.noFragmentCycles d := by
  have hnames := fragNames_eq_fragsOf d
  rw [hnames] at hnd hne
  have hne' : ∀ x ∈ d.defs, ∀ f on dirs id sels, x = Def.frag f on dirs id sels → f ≠ "" := by
    intro x hx f on dirs id sels e
    subst e
    apply hne
    simp only [fragsOf, List.mem_map, List.mem_filterMap]
    exact ⟨(f, sels), ⟨_, hx, rfl⟩, rfl⟩
  unfold Silent
  rw [cyc_alone_errors s fx d hne']
  have sp := recorded_spec d.defs ({} : RS) hnd
  -- abbreviations
  have hff : ∀ g, AL.has (recorded d).cycSpreads g = decide (g ∈ (fragsOf d.defs).map (·.1)) := by
    intro g; have := sp.has g; simpa [recorded, AL.has] using this
  -- D a = direct spreads of fragment a
  have hD : ∀ a x, x ∈ Spec.directSpreads (Spec.fragSels d a) ↔ ∃ sels, (a, sels) ∈ fragsOf d.defs ∧ x ∈ selSpreads.selsSpreads sels := by
    intro a x
    by_cases ha : a ∈ (fragsOf d.defs).map (·.1)
    · obtain ⟨⟨a', sels⟩, hp, rfl⟩ := List.mem_map.mp ha
      have hfs : Spec.fragSels d a' = sels := fragSels_of_mem d.defs a' sels hnd hp
      rw [hfs, directSpreads_eq]
      constructor
      · intro hx; exact ⟨sels, hp, hx⟩
      · rintro ⟨sels', hp', hx⟩
        have : Spec.fragSels d a' = sels' := fragSels_of_mem d.defs a' sels' hnd hp'
        rw [hfs] at this; subst this; exact hx
    · have hfs : Spec.fragSels d a = [] := fragSels_not_mem d.defs a ha
      rw [hfs]
      constructor
      · intro hx; simp [Spec.directSpreads, selsNodes] at hx
      · rintro ⟨sels, hp, _⟩; exact absurd (List.mem_map_of_mem (f := (·.1)) hp) ha
  -- recorded successors
  have hS : ∀ a x, x ∈ Cyc.succ (recorded d).cycSpreads a ↔ x ∈ Spec.directSpreads (Spec.fragSels d a) ∧ x ≠ a := by
    intro a x
    by_cases ha : a ∈ (fragsOf d.defs).map (·.1)
    · obtain ⟨⟨a', sels⟩, hp, rfl⟩ := List.mem_map.mp ha
      have := sp.mem (a', sels) hp x
      simp only [Cyc.succ, recorded] at this ⊢
      rw [this, hD]
      constructor
      · rintro ⟨h1, h2⟩; exact ⟨⟨sels, hp, h1⟩, h2⟩
      · rintro ⟨⟨sels', hp', h1⟩, h2⟩
        have e1 : Spec.fragSels d a' = sels := fragSels_of_mem d.defs a' sels hnd hp
        have e2 : Spec.fragSels d a' = sels' := fragSels_of_mem d.defs a' sels' hnd hp'
        rw [e1] at e2; subst e2; exact ⟨h1, h2⟩
    · have hg := sp.other a ha
      have hnone : AL.get? (recorded d).cycSpreads a = none := by simpa [recorded, AL.get?] using hg
      have hfs : Spec.fragSels d a = [] := fragSels_not_mem d.defs a ha
      simp only [Cyc.succ, AL.getD, hnone, hfs]
      simp [Spec.directSpreads, selsNodes]
  have hns : Cyc.NoSelf (recorded d).cycSpreads := fun f hf => ((hS f f).mp hf).2 rfl
  -- errors of the walk = self spreads
  have hE : (recorded d).errs.length = 0 ↔ ∀ a ∈ (fragsOf d.defs).map (·.1), a ∉ Spec.directSpreads (Spec.fragSels d a) := by
    have := sp.errs
    simp only [show (({} : RS).errs.length) = 0 from rfl, Nat.zero_add] at this
    rw [show (recorded d).errs.length = ((fragsOf d.defs).map selfCount).sum from this, sum_eq_zero_iff]
    simp only [List.mem_map, forall_exists_index, and_imp, forall_apply_eq_imp_iff₂]
    constructor
    · intro h p hp hx
      obtain ⟨sels', hp', hx'⟩ := (hD p.1 p.1).mp hx
      have e1 : Spec.fragSels d p.1 = p.2 := fragSels_of_mem d.defs p.1 p.2 hnd hp
      have e2 : Spec.fragSels d p.1 = sels' := fragSels_of_mem d.defs p.1 sels' hnd hp'
      rw [e1] at e2
      have := h p hp
      simp only [selfCount, List.length_eq_zero_iff, List.filter_eq_nil_iff, beq_iff_eq] at this
      exact this p.1 (e2 ▸ hx') rfl
    · intro h p hp
      simp only [selfCount, List.length_eq_zero_iff, List.filter_eq_nil_iff, beq_iff_eq]
      intro x hx e
      subst e
      exact h p hp ((hD p.1 p.1).mpr ⟨p.2, hp, hx⟩)
  have hK : ∀ f, f ∈ AL.keys (recorded d).cycSpreads ↔ f ∈ (fragsOf d.defs).map (·.1) := by
    intro f; rw [AL.mem_keys, hff]; simp
  rw [Nat.add_eq_zero_iff, hE, Cyc.cycErrors_zero_iff fx hv _ hns]
  unfold Spec.noFragmentCycles
  rw [hnames]
  -- graph equivalence
  have L2 : ∀ a x b, x ∈ Spec.directSpreads (Spec.fragSels d a) → VC.Reach (recorded d).cycSpreads x b → Spec.Reach d a b := by
    intro a x b hx hr
    induction hr generalizing a with
    | refl _ => exact .step hx
    | step hy _ ih => exact .trans (.step hx) (ih _ ((hS _ _).mp hy).1)
  have L1 : ∀ a b, Spec.Reach d a b →
      (∃ g, g ∈ Spec.directSpreads (Spec.fragSels d g)) ∨ Cyc.ReachPlus (recorded d).cycSpreads a b := by
    intro a b h
    induction h with
    | step hb =>
      rename_i a b
      by_cases e : b = a
      · subst e; exact Or.inl ⟨_, hb⟩
      · exact Or.inr ⟨b, (hS a b).mpr ⟨hb, e⟩, .refl _⟩
    | trans _ _ ih1 ih2 =>
      rcases ih1 with h1 | ⟨x, hx, hr1⟩
      · exact Or.inl h1
      · rcases ih2 with h2 | ⟨y, hy, hr2⟩
        · exact Or.inl h2
        · exact Or.inr ⟨x, hx, vcReach_trans hr1 (.step hy hr2)⟩
  constructor
  · rintro ⟨hself, hcyc⟩ f hf hr
    rcases L1 f f hr with ⟨g, hg⟩ | hrp
    · have hgn : g ∈ (fragsOf d.defs).map (·.1) := by
        obtain ⟨sels, hp, _⟩ := (hD g g).mp hg
        exact List.mem_map_of_mem (f := (·.1)) hp
      exact hself g hgn hg
    · exact hcyc f ((hK f).mpr hf) hrp
  · intro h
    refine ⟨fun a ha hx => h a ha (.step hx), fun f hf ⟨x, hx, hr⟩ => ?_⟩
    exact h f ((hK f).mp hf) (L2 f x f ((hS f x).mp hx).1 hr)

end PyGql.Props.C06

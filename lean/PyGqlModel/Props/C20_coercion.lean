/-
  C20 — input positions and LIST INPUT COERCION (June-2018 §3.11: a single value given where a list is expected is
  wrapped into a one-element list). `InCompat` / `acc` (Differ.lean), about which `safeIn_iff` is exact, read type
  expressions WITHOUT that coercion. With it (`accC`, `InCompatC`) the input predicate of the differ is SOUND
  (`safeIn_sound_coercion`) but NOT exact (`safeIn_not_exact_with_list_coercion`): `x: Int` → `x: [Int]` keeps every
  accepted LITERAL acceptable, yet `_is_safe_input_type_change` says unsafe and `diff_schema` reports
  `FieldArgumentChangedType` / `InputFieldChangedType`, BREAKING (reproduced on /repo: `f(x: Int)` → `f(x: [Int])`).
  The differ is conservative there, and rightly so for the property: a VARIABLE `$v: Int` used at `x` is no longer
  allowed at `[Int]` (5.8.5 has no list coercion), so the change does break operations.
-/
import PyGqlModel.Props.C20

set_option linter.unusedSimpArgs false
set_option linter.unusedVariables false

namespace PyGql.Props.C20
open PyGql PyGql.Differ

/-- value `v` is accepted at type `t`, WITH list input coercion: a non-list value is accepted where a list is expected
    when it is accepted as an item -/
def accC : Ty → Val → Bool
  | .named _, .null => true
  | .named n, .leaf m => n == m
  | .named _, .list _ => false
  | .list _, .null => true
  | .list t, .leaf m => accC t (.leaf m)
  | .list t, .list vs => vs.all (accC t)
  | .nonNull _, .null => false
  | .nonNull t, .leaf m => accC t (.leaf m)
  | .nonNull t, .list vs => accC t (.list vs)

/-- every value accepted at `o` (with list coercion) is accepted at `n` -/
def InCompatC (o n : Ty) : Prop := ∀ v, accC o v = true → accC n v = true

private theorem sub_sound_c : ∀ a b : Ty, sub a b = true → ∀ v, accC a v = true → accC b v = true := by
  intro a
  induction a with
  | named x =>
    intro b h v hv
    cases b <;> simp [sub] at h
    subst h; exact hv
  | list t ih =>
    intro b h v hv
    cases b with
    | list u =>
      simp [sub] at h
      cases v with
      | null => simp [accC]
      | leaf m => simp only [accC] at hv ⊢; exact ih u h _ hv
      | list vs =>
        simp only [accC, List.all_eq_true] at hv ⊢
        intro x hx; exact ih u h x (hv x hx)
    | _ => simp [sub] at h
  | nonNull t ih =>
    intro b h v hv
    have hv' : accC t v = true ∧ v ≠ .null := by
      cases v <;> simp_all [accC]
    cases b with
    | named y => exact ih _ (by simpa [sub] using h) v hv'.1
    | list u => exact ih _ (by simpa [sub] using h) v hv'.1
    | nonNull u =>
      have := ih u (by simpa [sub] using h) v hv'.1
      cases v <;> simp_all [accC]

/-- **Input positions, with list coercion: sound.** A change the differ classifies as safe keeps every previously
    accepted value acceptable. -/
theorem safeIn_sound_coercion (o n : Ty) (h : safeIn o n = true) : InCompatC o n := by
  rw [safeIn_eq_sub] at h; exact sub_sound_c o n h

/-- **...but not exact**: `Int` → `[Int]` accepts everything it accepted (a single value is wrapped), and the differ
    calls it unsafe (reported BREAKING: conservative). `safeIn_iff` is exact for `InCompat`, i.e. WITHOUT list coercion. -/
theorem safeIn_not_exact_with_list_coercion :
    InCompatC (.named "Int") (.list (.named "Int")) ∧ safeIn (.named "Int") (.list (.named "Int")) = false := by
  refine ⟨?_, by decide⟩
  intro v hv
  cases v with
  | null => simp [accC]
  | leaf m => simpa [accC] using hv
  | list vs => simp [accC] at hv

end PyGql.Props.C20

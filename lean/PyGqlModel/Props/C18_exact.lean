/-
  C18 — EXACTLY the covered nodes are visited.

  `all_covered_children_visited` (Props/C18_reach.lean): every node reached through attributes that the body of the
  parent's kind traverses is entered and left. Here the converse: every call of a completed identity visit concerns a node
  that is `Reached` (`visited_reached`, every table), hence — on well-kinded documents, today's table — a `Covered` node
  (`reached_covered`, `visited_iff_covered_today`). With `missed_children_today` this pins the visited set: the nodes
  below the root that are NOT visited are exactly those hanging below one of the 15 listed (kind, attribute) pairs (or below
  a `Name`).
-/
import PyGqlModel.Props.C18_reach

namespace PyGql.Props.C18
open PyGql.Visit PyGql.Generated.VisitTable

private theorem walkList_ev (g : Node → Res (List Ev)) : ∀ (cs : List Node) (tr : List Ev) (e : Ev),
    Spec.walkList g cs = .ok tr → e ∈ tr → ∃ c ∈ cs, ∃ tc, g c = .ok tc ∧ e ∈ tc
  | [], tr, e, h, he => by simp [Spec.walkList] at h; subst h; cases he
  | x :: xs, tr, e, h, he => by
    simp only [Spec.walkList] at h
    cases h1 : g x with
    | err er => simp [h1] at h
    | fuel => simp [h1] at h
    | ok t1 =>
      simp only [h1] at h
      cases h2 : Spec.walkList g xs with
      | err er => simp [h2] at h
      | fuel => simp [h2] at h
      | ok t2 =>
        simp only [h2, Res.ok.injEq] at h
        subst h
        rcases List.mem_append.1 he with h' | h'
        · exact ⟨x, List.mem_cons_self, t1, h1, h'⟩
        · obtain ⟨c, hc, tc, hg, hm⟩ := walkList_ev g xs t2 e h2 h'
          exact ⟨c, List.mem_cons_of_mem _ hc, tc, hg, hm⟩

private theorem walkSteps_ev (call : Target → Node → Res (List Ev)) (n : Node) : ∀ (steps : List Step) (tr : List Ev)
    (e : Ev), Spec.walkSteps call steps n = .ok tr → e ∈ tr →
    ∃ st ∈ steps, ∃ t1, Spec.walkStep call st n = .ok t1 ∧ e ∈ t1
  | [], tr, e, h, he => by simp [Spec.walkSteps] at h; subst h; cases he
  | x :: xs, tr, e, h, he => by
    simp only [Spec.walkSteps] at h
    cases h1 : Spec.walkStep call x n with
    | err er => simp [h1] at h
    | fuel => simp [h1] at h
    | ok t1 =>
      simp only [h1] at h
      cases h2 : Spec.walkSteps call xs n with
      | err er => simp [h2] at h
      | fuel => simp [h2] at h
      | ok t2 =>
        simp only [h2, Res.ok.injEq] at h
        subst h
        rcases List.mem_append.1 he with h' | h'
        · exact ⟨x, List.mem_cons_self, t1, h1, h'⟩
        · obtain ⟨st, hst, ts, hs, hm⟩ := walkSteps_ev call n xs t2 e h2 h'
          exact ⟨st, List.mem_cons_of_mem _ hst, ts, hs, hm⟩

/-- an event of a statement's walk comes from the walk of a child held by the statement's attribute -/
private theorem walkStep_ev (call : Target → Node → Res (List Ev)) (st : Step) (n : Node) (t1 : List Ev) (e : Ev)
    (h : Spec.walkStep call st n = .ok t1) (he : e ∈ t1) :
    st.applies n.kind = true ∧ ∃ c, Holds (n.getAttr st.attr) c ∧ ∃ tc, call st.target c = .ok tc ∧ e ∈ tc := by
  unfold Spec.walkStep at h
  by_cases ha : st.applies n.kind = true
  · refine ⟨ha, ?_⟩
    simp only [ha, Bool.not_true, Bool.false_eq_true, if_false] at h
    cases hg : n.getAttr st.attr with
    | none => simp [hg] at h
    | some a =>
      simp only [hg] at h
      cases a with
      | scalar v => cases hs : st.shape <;> simp [hs] at h
      | one oc =>
        cases oc with
        | none =>
          cases hs : st.shape with
          | many => simp [hs] at h
          | one =>
            simp only [hs] at h
            split at h
            · simp at h
            · simp at h; subst h; cases he
        | some c =>
          cases hs : st.shape with
          | many => simp [hs] at h
          | one => simp only [hs] at h; exact ⟨c, by simp [Holds], t1, h, he⟩
      | many cs =>
        cases hs : st.shape with
        | one => simp [hs] at h
        | many =>
          simp only [hs] at h
          obtain ⟨c, hc, tc, hg', hm⟩ := walkList_ev _ cs t1 e h he
          exact ⟨c, by simpa [Holds] using hc, tc, hg', hm⟩
  · have hf : st.applies n.kind = false := by simpa using ha
    simp [hf] at h
    subst h
    cases he

/-- every event of the walk of a reached node concerns a reached node -/
private theorem walk_events_reached (T : Table) (t : Node) : ∀ (fuel : Nat) (m : String) (n : Node) (tr : List Ev),
    Spec.walk T fuel m n = .ok tr → Reached T t n m → ∀ e ∈ tr, ∃ m', Reached T t e.node m' := by
  intro fuel
  induction fuel with
  | zero => intro m n tr h; simp [Spec.walk] at h
  | succ f ih =>
    intro m n tr h hr e he
    obtain ⟨f', steps, body, hf, hm, hb, rfl⟩ := walk_shape T (f + 1) m n tr h
    have : f' = f := by omega
    subst this
    simp only [List.mem_cons, List.mem_append, List.mem_singleton] at he
    rcases he with (rfl | he) | (rfl | he)
    · exact ⟨m, hr⟩
    · obtain ⟨st, hst, t1, hs, hm1⟩ := walkSteps_ev _ n steps body e hb he
      obtain ⟨ha, c, hh, tc, hcall, hmc⟩ := walkStep_ev _ st n t1 e hs hm1
      unfold Spec.walkTarget at hcall
      cases hres : resolve T st.target c.kind with
      | error er => simp [hres] at hcall
      | ok m' =>
        simp only [hres] at hcall
        exact ih m' c tc hcall (.child hr hm hst ha hh hres) e hmc
    · exact ⟨m, hr⟩
    · cases he

/-- **visited_reached** — every table, every tree, every visitor that changes nothing: every call of a completed visit
    (enter or leave) is made for a node reached from the root through traversed attributes. -/
theorem visited_reached {σ : Type} (T : Table) (v : Visitor σ) (hv : Observer v) (fuel : Nat) (t : Node) (s : σ)
    (o : Out σ) (h : visit T v fuel t s = .ok o) (e : Ev) (he : e ∈ o.tr) : ∃ m, Reached T t e.node m := by
  have hcov := coverage_partial T v hv fuel t s o h
  unfold Spec.implEvents at hcov
  cases hl : T.visit.lookup t.kind with
  | none => simp [hl] at hcov
  | some m0 =>
    simp only [hl] at hcov
    exact walk_events_reached T t fuel m0 t o.tr hcov (.root hl) e he

/-- on a well-kinded tree, with a `tableKinded` table, a reached node is structurally covered (converse of
    `covered_reached`), and the body that traverses it is that of its own kind -/
theorem reached_covered (T : Table) (CK : ChildKinds) (hT : tableKinded T CK = true) (t : Node)
    (hk : wellKinded CK t = true) {c : Node} {m : String} (hc : Reached T t c m) :
    wellKinded CK c = true ∧ Covered T t c ∧ effSteps T m c.kind = ownSteps T c.kind := by
  induction hc with
  | root h0 => exact ⟨hk, .root, by simp [ownSteps, h0]⟩
  | @child p c mp m' steps st _ hm hst ha hh hres ih =>
    obtain ⟨hkp, hcp, hsame⟩ := ih
    have hse : st ∈ effSteps T mp p.kind := by
      simp only [effSteps, hm, Option.getD_some, List.mem_filter]
      exact ⟨hst, ha⟩
    rw [hsame] at hse
    obtain ⟨hko, hkc⟩ := wellKinded_child CK p c st.attr hkp hh
    refine ⟨hkc, .child hcp hse hh, ?_⟩
    unfold kindOk at hko
    cases hl : CK.lookup (p.kind, st.attr) with
    | none => simp [hl] at hko
    | some ks =>
      simp only [hl] at hko
      have hrow : ((p.kind, st.attr), ks) ∈ CK := lookup_mem_of_some CK _ _ hl
      unfold tableKinded at hT
      have h1 := List.all_eq_true.1 hT _ hrow
      have h2 := List.all_eq_true.1 h1 st hse
      simp only [bne_self_eq_false, Bool.false_or] at h2
      have h3 := List.all_eq_true.1 h2 c.kind (by simpa using hko)
      simp only [hres, decide_eq_true_eq] at h3
      exact h3

/-- **visited_iff_covered_today** — today's table, every well-kinded document, every visitor that changes nothing: a node
    is entered in a completed visit IF AND ONLY IF it is reached from the root through attributes for which the
    `_visit_*` body of the parent's kind has a statement; the same for `leave`. -/
theorem visited_iff_covered_today {σ : Type} (v : Visitor σ) (hv : Observer v) (fuel : Nat) (t : Node) (s : σ)
    (o : Out σ) (h : visit table v fuel t s = .ok o) (hk : wellKinded childKinds t = true) (c : Node) :
    ((⟨true, c⟩ : Ev) ∈ o.tr ↔ Covered table t c) ∧ ((⟨false, c⟩ : Ev) ∈ o.tr ↔ Covered table t c) := by
  have hcv := all_covered_children_visited v hv fuel t s o h hk c
  constructor
  · constructor
    · intro he
      obtain ⟨m, hr⟩ := visited_reached table v hv fuel t s o h _ he
      exact (reached_covered table childKinds table_kinded_today t hk hr).2.1
    · intro hc; exact (hcv hc).1
  · constructor
    · intro he
      obtain ⟨m, hr⟩ := visited_reached table v hv fuel t s o h _ he
      exact (reached_covered table childKinds table_kinded_today t hk hr).2.1
    · intro hc; exact (hcv hc).2

/-! non-vacuity: in the witness parsed by the real parser the `Variable` of the first variable definition (id 4, below
    the missed pair VariableDefinition.variable) is NOT visited, its type (id 6) is -/
example : (match visit table observer 64 witnessExec () with
    | .ok o => (o.tr.any fun e => e.node.id == 4, o.tr.any fun e => e.node.id == 6)
    | _ => (true, false)) = (false, true) := by decide +kernel

end PyGql.Props.C18

/-
  C10 — property theorems, part 6: the stage outcome "the ROOT selection set cannot be collected"
  (invalid `@skip` / `@include` condition at run time): `data` null, one error, no path.

  How the bijection treats it: the site is the ROOT, whose response path is EMPTY; it is null in
  `data` (`dataAt data [] = null`) and matched by exactly one error; that error has no `path` entry
  (`path? = none`, rendered without the key), which is the empty path.
-/
import PyGqlModel.Props.C10_wellformed
import PyGqlModel.Props.C10_unique

namespace PyGql.Props.C10
open PyGql PyGql.Response PyGql.Spec.Response PyGql.Spec.NullSites PyGql.Generated.ResponseKeys

/-- the path an error is matched on: an absent `path` is the empty path (the root) -/
def Err.sitePath (e : Err) : Path := e.path?.getD []

/-- **root failure: bijection.** `data` is null, the only site is the root (empty path), it is null in
    `data`, and there is exactly one error, whose path is absent. -/
theorem root_failure_bijection (msg : String) (nodes : List (Option Nat)) (root : FldList) (data : J) (errs : List Err)
    (h : executeRequest (some (msg, nodes)) root = some (data, errs)) :
    data = .null ∧ dataAt data [] = some .null ∧ errs.map Err.sitePath = [[]] ∧ errs.map Err.path? = [none] := by
  simp only [executeRequest, Option.some.injEq, Prod.mk.injEq] at h
  obtain ⟨rfl, rfl⟩ := h
  simp [dataAt, Err.sitePath, Err.path?]

/-- **root failure: response.** The response is defined, well-formed (modulo X1), has `"data": null` and its single
    error has a message, the directive's locations inside the text, and NO `path` key. -/
theorem root_failure_wellformed (text : Text) (msg : String) (nodes : List (Option Nat))
    (hn : ∀ n ∈ nodes.filterMap id, n ≤ text.length) :
    ∃ j e, (processQuery { parse := none, validate := [], getOp := none, coerce := [],
                           exec := (J.null, [Err.resolver msg nodes none none]) }).response text = some j ∧
      WellFormedK syntaxColKey text j ∧ j.get? "data" = some .null ∧
      j.get? "errors" = some (.arr [e]) ∧ e.get? "path" = none ∧ e.get? "message" = some (.str msg) := by
  have hs : StagesOk text { parse := none, validate := [], getOp := none, coerce := [],
                            exec := (J.null, [Err.resolver msg nodes none none]) } :=
    ⟨by simp, by simp, by simp, by
      intro e he
      simp only [List.mem_singleton] at he
      subst he
      exact ⟨hn, by simp⟩, by simp [strict]⟩
  obtain ⟨j, hj, hw⟩ := response_wellformed_partial text _ hs
  -- compute the response explicitly
  have hmap : ∃ locs, (nodes.filterMap id).mapM (indexToLoc text) = some locs := by
    clear hs hj hw
    generalize nodes.filterMap id = ps at hn
    induction ps with
    | nil => exact ⟨[], by simp⟩
    | cons p ps ih =>
      obtain ⟨l, c, h1, _⟩ := loc_bounds text p (hn p (by simp))
      obtain ⟨rest, h2⟩ := ih (fun n hn' => hn n (by simp [hn']))
      exact ⟨(l, c) :: rest, by simp [h1, h2]⟩
  obtain ⟨locs, hl⟩ := hmap
  have hj0 := hj
  simp only [processQuery, Result.response, List.isEmpty_nil, Bool.not_true, Bool.false_eq_true, if_false,
    List.mapM_cons, List.mapM_nil, Err.toDict, locatedDict, hl, locatedKeepsEmptyMessage, Bool.or_true, if_true] at hj
  cases locs with
  | nil =>
    simp at hj
    refine ⟨j, .obj [("message", .str msg)], hj0, hw, ?_, ?_, ?_, ?_⟩ <;> (subst hj; simp [J.get?])
  | cons lc rest =>
    simp at hj
    refine ⟨j, .obj [("message", .str msg), ("locations",
      .arr (locJ locatedLineKey locatedColKey lc :: List.map (locJ locatedLineKey locatedColKey) rest))], hj0, hw, ?_, ?_, ?_, ?_⟩ <;>
      (subst hj; simp [J.get?])

/-- the two outcomes of `execute` together: either the root selection set could not be collected (one
    error, empty path, `data` null) or the field-level bijection of `exactly_one_error_per_site` applies -/
theorem request_bijection (rc : Option (String × List (Option Nat))) (root : FldList) (data : J) (errs : List Err)
    (h : executeRequest rc root = some (data, errs)) (hk : RootKeysDistinct root) :
    (rc.isSome = true ∧ data = .null ∧ errs.map Err.sitePath = [[]]) ∨
    (rc = none ∧ errs.map Err.path? = (sitesFields root).map some ∧ (sitesFields root).Nodup ∧
      ∀ p ∈ sitesFields root, dataAt data p = some .null) := by
  cases rc with
  | some mn =>
    obtain ⟨h1, _, h3, _⟩ := root_failure_bijection mn.1 mn.2 root data errs h
    exact Or.inl ⟨rfl, h1, h3⟩
  | none =>
    simp only [executeRequest] at h
    exact Or.inr ⟨rfl, null_error_bijection root data errs h, null_sites_nodup root hk,
      null_sites_are_null root data errs h hk⟩

end PyGql.Props.C10
